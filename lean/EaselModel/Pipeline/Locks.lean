import EaselModel.Pipeline.Ownership
import EaselModel.Pipeline.Progress
/-! # Lock discipline of the dsqdata pipeline model

Each shared field of `ESL_DSQDATA` has one guarding mutex: `inbox[u]`, `inbox_eod[u]` ← `inbox_mutex[u]`; `outbox[u]`,
`outbox_eod[u]` ← `outbox_mutex[u]`; `nchunk` ← `nchunk_mutex`; `recycling` (and the `nxt` links of the chunks on the
stack) ← `recycling_mutex`. `held s l` is the set of mutexes the C code holds during the critical section that the atomic
step `l` models when taken from state `s` (thread-local steps hold none). The frame theorem `step_frame` says that a step
changes a shared field only while holding its guard; `step_private` that the thread-private variables (the loader's
program counter, `nchunk` counter, `nalloc`; an unpacker's program counter and the chunk in its hands) change only in
steps of their own thread. Together with `Own` (a chunk's contents are touched only by its unique owner) this is the
lock-discipline / ownership invariant that stands in for data-race freedom in the interleaving model; the harness checks on
every observed region that the executing thread really holds `held` (its wrappers track the mutexes each thread holds).
Core Lean only. -/
namespace EaselModel.Pipeline

inductive Mutex
  | inbox (u : Nat)
  | outbox (u : Nat)
  | nchunk
  | recycling
deriving Repr, DecidableEq

/-- the mutexes held during the critical section modelled by step `l` from state `s` -/
def held (s : Sys) : Label → List Mutex
  | .loader => match s.lpc with
    | .top => if s.nalloc < s.limit then [] else [.recycling]
    | .haveBuf _ => []
    | .put _ k => [.inbox (k % s.U)]
    | .eod u => if u ≥ s.U then [] else [.inbox u]
    | .drain => if s.nalloc = 0 then [] else [.recycling]
    | .done => []
  | .unpacker u => match (s.lane u).upc with
    | .get => [.inbox u]
    | .put _ => [.outbox u]
    | .done => []
  | .read _ => [.nchunk, .outbox (s.nchunk % s.U)]
  | .readWake => [.nchunk, .outbox (s.nchunk % s.U)]
  | .recycle _ _ _ => [.recycling]

/-- shared fields whose guard is not in `L` are the same in `s` and `s'` -/
structure Frame (s s' : Sys) (L : List Mutex) : Prop where
  inbox : ∀ u, Mutex.inbox u ∉ L → (s'.lane u).inbox = (s.lane u).inbox ∧ (s'.lane u).inEod = (s.lane u).inEod
  outbox : ∀ u, Mutex.outbox u ∉ L → (s'.lane u).outbox = (s.lane u).outbox ∧ (s'.lane u).outEod = (s.lane u).outEod
  nchunk : Mutex.nchunk ∉ L → s'.nchunk = s.nchunk
  recycling : Mutex.recycling ∉ L → s'.recycling = s.recycling

theorem Frame.of_sameAll {s s2 s' : Sys} {L : List Mutex} (f : Frame s s2 L) (c : SameAll s2 s') : Frame s s' L := by
  have hc : ∀ v, (s'.lane v).core = (s2.lane v).core := c.core.lane
  have e : ∀ v, (s'.lane v).inbox = (s2.lane v).inbox ∧ (s'.lane v).inEod = (s2.lane v).inEod ∧
      (s'.lane v).outbox = (s2.lane v).outbox ∧ (s'.lane v).outEod = (s2.lane v).outEod := by
    intro v; have := hc v; simp only [Lane.core, Prod.mk.injEq] at this; exact ⟨this.1, this.2.1, this.2.2.1, this.2.2.2.1⟩
  exact ⟨fun u hu => by rw [(e u).1, (e u).2.1]; exact f.inbox u hu,
         fun u hu => by rw [(e u).2.2.1, (e u).2.2.2]; exact f.outbox u hu,
         fun h => by rw [c.core.nchunk]; exact f.nchunk h,
         fun h => by rw [c.recycling]; exact f.recycling h⟩

theorem frame_nolane {s s' : Sys} (L : List Mutex) (hl : s'.lanes = s.lanes)
    (hn : Mutex.nchunk ∉ L → s'.nchunk = s.nchunk) (hr : Mutex.recycling ∉ L → s'.recycling = s.recycling) : Frame s s' L := by
  have hlane : ∀ v, s'.lane v = s.lane v := fun v => by simp [Sys.lane, hl]
  exact ⟨fun u _ => by rw [hlane]; exact ⟨rfl, rfl⟩, fun u _ => by rw [hlane]; exact ⟨rfl, rfl⟩, hn, hr⟩

theorem frame_update {s s' : Sys} (L : List Mutex) (u : Nat) (l' : Lane) (hu : u < s.lanes.length)
    (hl : s'.lanes = s.lanes.set u l')
    (hi : Mutex.inbox u ∉ L → l'.inbox = (s.lane u).inbox ∧ l'.inEod = (s.lane u).inEod)
    (ho : Mutex.outbox u ∉ L → l'.outbox = (s.lane u).outbox ∧ l'.outEod = (s.lane u).outEod)
    (hn : Mutex.nchunk ∉ L → s'.nchunk = s.nchunk) (hr : Mutex.recycling ∉ L → s'.recycling = s.recycling) : Frame s s' L := by
  have hlane : ∀ v, s'.lane v = if v = u then l' else s.lane v := by
    intro v
    have := lane_setLane s u v l' hu
    simp only [Sys.lane, Sys.setLane] at this ⊢
    rw [hl]; exact this
  refine ⟨fun v hv => ?_, fun v hv => ?_, hn, hr⟩
  · rw [hlane]; split
    · rename_i e; subst e; exact hi hv
    · exact ⟨rfl, rfl⟩
  · rw [hlane]; split
    · rename_i e; subst e; exact ho hv
    · exact ⟨rfl, rfl⟩

theorem frame_refl (s : Sys) (L : List Mutex) : Frame s s L :=
  ⟨fun _ _ => ⟨rfl, rfl⟩, fun _ _ => ⟨rfl, rfl⟩, fun _ => rfl, fun _ => rfl⟩

theorem stepLoader_frame (s s' : Sys) (h : Inv s) (hs : stepLoader s = some s') : Frame s s' (held s .loader) := by
  unfold stepLoader at hs
  split at hs
  · rename_i hl
    split at hs
    · cases hs; exact frame_nolane _ rfl (fun _ => rfl) (fun _ => rfl)
    · rename_i hlim
      split at hs
      · cases hs; exact (frame_refl s _).of_sameAll (sameAll_setLwait s _)
      · cases hs
        refine frame_nolane _ rfl (fun _ => rfl) (fun hn => ?_)
        simp [held, hl, hlim] at hn
  · rename_i b hl
    split at hs
    · cases hs; exact frame_nolane _ rfl (fun _ => rfl) (fun _ => rfl)
    · cases hs; exact frame_nolane _ rfl (fun _ => rfl) (fun _ => rfl)
  · rename_i b k hl
    have hu : k % s.U < s.U := Nat.mod_lt _ h.upos
    have hlen : k % s.U < s.lanes.length := by rw [h.len]; exact hu
    simp only at hs
    split at hs
    · cases hs; exact (frame_refl s _).of_sameAll (sameAll_setLwait s _)
    · cases hs
      refine Frame.of_sameAll ?_ (sameAll_signalInbox _ _ (by simpa using hlen))
      refine frame_update _ (k % s.U) { s.lane (k % s.U) with inbox := some (b, k) } hlen rfl (fun hn => ?_) (fun _ => ⟨rfl, rfl⟩)
        (fun _ => rfl) (fun _ => rfl)
      simp [held, hl] at hn
  · rename_i u hl
    split at hs
    · cases hs; exact frame_nolane _ rfl (fun _ => rfl) (fun _ => rfl)
    · rename_i hult
      have hu : u < s.U := by omega
      have hlen : u < s.lanes.length := by rw [h.len]; exact hu
      simp only at hs
      split at hs
      · cases hs; exact (frame_refl s _).of_sameAll (sameAll_setLwait s _)
      · cases hs
        refine Frame.of_sameAll ?_ (sameAll_signalInbox _ _ (by simpa using hlen))
        refine frame_update _ u { s.lane u with inEod := true } hlen rfl (fun hn => ?_) (fun _ => ⟨rfl, rfl⟩)
          (fun _ => rfl) (fun _ => rfl)
        simp [held, hl, hult] at hn
  · rename_i hl
    split at hs
    · cases hs; exact frame_nolane _ rfl (fun _ => rfl) (fun _ => rfl)
    · rename_i hna
      split at hs
      · cases hs; exact (frame_refl s _).of_sameAll (sameAll_setLwait s _)
      · cases hs
        refine frame_nolane _ rfl (fun _ => rfl) (fun hn => ?_)
        simp [held, hl, hna] at hn
  · cases hs

theorem stepUnpacker_frame (s s' : Sys) (u : Nat) (h : Inv s) (hs : stepUnpacker s u = some s') :
    Frame s s' (held s (.unpacker u)) := by
  unfold stepUnpacker at hs
  split at hs
  · cases hs
  rename_i hu'
  have hu : u < s.U := by omega
  have hlen : u < s.lanes.length := by rw [h.len]; exact hu
  simp only at hs
  split at hs
  · rename_i hupc
    split at hs
    · cases hs; exact (frame_refl s _).of_sameAll (sameAll_setUwait s u _ hlen)
    · cases hs
      have hcore : Frame s (s.setLane u { s.lane u with inbox := none, upc := .put (s.lane u).inbox, uwait := none })
          (held s (.unpacker u)) := by
        refine frame_update _ u _ hlen rfl (fun hn => ?_) (fun _ => ⟨rfl, rfl⟩) (fun _ => rfl) (fun _ => rfl)
        simp [held, hupc] at hn
      split
      · exact hcore.of_sameAll (sameAll_signalInbox _ u (by simpa using hlen))
      · exact hcore
  · rename_i c hupc
    split at hs
    · cases hs; exact (frame_refl s _).of_sameAll (sameAll_setUwait s u _ hlen)
    · cases hs
      refine Frame.of_sameAll ?_ (sameAll_signalOutbox _ u (by simpa using hlen))
      refine frame_update _ u _ hlen rfl (fun _ => ⟨rfl, rfl⟩) (fun hn => ?_) (fun _ => rfl) (fun _ => rfl)
      simp [held, hupc] at hn
  · cases hs

theorem readBody_frame (s : Sys) (c : Nat) (h : Inv s) : Frame s (readBody s c) [.nchunk, .outbox (s.nchunk % s.U)] := by
  have hu : s.nchunk % s.U < s.U := Nat.mod_lt _ h.upos
  have hlen : s.nchunk % s.U < s.lanes.length := by rw [h.len]; exact hu
  unfold readBody
  simp only
  split
  · exact frame_nolane _ rfl (fun _ => rfl) (fun _ => rfl)
  · split
    · refine Frame.of_sameAll ?_ (sameAll_signalOutbox _ _ (by simpa using hlen))
      refine frame_update _ (s.nchunk % s.U) _ hlen rfl (fun _ => ⟨rfl, rfl⟩) (fun hn => ?_) (fun hn => ?_) (fun _ => rfl)
      · simp at hn
      · simp at hn
    · exact frame_nolane _ rfl (fun _ => rfl) (fun _ => rfl)

/-- **Writes happen under the guard.** A step changes a shared field of `ESL_DSQDATA` only if the critical section it
    models holds the mutex that guards the field. -/
theorem step_frame (s s' : Sys) (l : Label) (h : Inv s) (hs : step s l = some s') : Frame s s' (held s l) := by
  cases l with
  | loader => exact stepLoader_frame s s' h hs
  | unpacker u => exact stepUnpacker_frame s s' u h hs
  | read c =>
    simp only [step] at hs
    split at hs
    · cases hs
    · cases hs; exact readBody_frame s c h
  | readWake =>
    simp only [step] at hs
    split at hs
    · cases hs; exact readBody_frame s _ h
    · cases hs
  | recycle c b k =>
    simp only [step] at hs
    split at hs
    · cases hs
      refine Frame.of_sameAll ?_ (sameAll_signalRecycling _)
      refine frame_nolane _ rfl (fun _ => rfl) (fun hn => ?_)
      simp [held] at hn
    · cases hs

/-- a thread-local step (no mutex held) changes no shared field at all -/
theorem local_step_no_shared (s s' : Sys) (l : Label) (h : Inv s) (hs : step s l = some s') (hl : held s l = []) :
    (∀ u, (s'.lane u).inbox = (s.lane u).inbox ∧ (s'.lane u).inEod = (s.lane u).inEod ∧
          (s'.lane u).outbox = (s.lane u).outbox ∧ (s'.lane u).outEod = (s.lane u).outEod) ∧
    s'.nchunk = s.nchunk ∧ s'.recycling = s.recycling := by
  have f := step_frame s s' l h hs
  rw [hl] at f
  exact ⟨fun u => ⟨(f.inbox u (by simp)).1, (f.inbox u (by simp)).2, (f.outbox u (by simp)).1, (f.outbox u (by simp)).2⟩,
    f.nchunk (by simp), f.recycling (by simp)⟩

/-! ## thread-private variables change only in steps of their own thread -/

/-- the loader's private variables (`lpc` stands for its program counter and the chunk in its hands) are unchanged unless
    `ld`; unpacker `u`'s program counter / chunk in hand is unchanged unless `up = some u` -/
structure Priv (s s' : Sys) (ld : Bool) (up : Option Nat) : Prop where
  loader : ld = false → s'.lpc = s.lpc ∧ s'.nchunkL = s.nchunkL ∧ s'.nalloc = s.nalloc
  unp : ∀ u, up ≠ some u → (s'.lane u).upc = (s.lane u).upc

theorem Priv.of_sameAll {s s2 s' : Sys} {ld : Bool} {up : Option Nat} (f : Priv s s2 ld up) (c : SameAll s2 s') : Priv s s' ld up := by
  refine ⟨fun h => ?_, fun u hu => ?_⟩
  · rw [c.core.lpc, c.core.nchunkL, c.nalloc]; exact f.loader h
  · have := c.core.lane u
    simp only [Lane.core, Prod.mk.injEq] at this
    rw [this.2.2.2.2]; exact f.unp u hu

theorem priv_refl (s : Sys) (ld : Bool) (up : Option Nat) : Priv s s ld up := ⟨fun _ => ⟨rfl, rfl, rfl⟩, fun _ _ => rfl⟩

theorem priv_nolane {s s' : Sys} (ld : Bool) (up : Option Nat) (hl : s'.lanes = s.lanes)
    (hld : ld = false → s'.lpc = s.lpc ∧ s'.nchunkL = s.nchunkL ∧ s'.nalloc = s.nalloc) : Priv s s' ld up :=
  ⟨hld, fun u _ => by simp [Sys.lane, hl]⟩

theorem priv_update {s s' : Sys} (ld : Bool) (up : Option Nat) (v : Nat) (l' : Lane) (hv : v < s.lanes.length)
    (hl : s'.lanes = s.lanes.set v l') (hupc : up ≠ some v → l'.upc = (s.lane v).upc)
    (hld : ld = false → s'.lpc = s.lpc ∧ s'.nchunkL = s.nchunkL ∧ s'.nalloc = s.nalloc) : Priv s s' ld up := by
  refine ⟨hld, fun u hu => ?_⟩
  have := lane_setLane s v u l' hv
  simp only [Sys.lane, Sys.setLane] at this ⊢
  rw [hl, this]
  split
  · rename_i e; subst e; exact hupc hu
  · rfl

theorem stepLoader_priv (s s' : Sys) (h : Inv s) (hs : stepLoader s = some s') : Priv s s' true none := by
  unfold stepLoader at hs
  split at hs
  · split at hs
    · cases hs; exact priv_nolane _ _ rfl (fun e => by cases e)
    · split at hs
      · cases hs; exact priv_nolane _ _ rfl (fun e => by cases e)
      · cases hs; exact priv_nolane _ _ rfl (fun e => by cases e)
  · split at hs
    · cases hs; exact priv_nolane _ _ rfl (fun e => by cases e)
    · cases hs; exact priv_nolane _ _ rfl (fun e => by cases e)
  · rename_i b k hl
    have hu : k % s.U < s.U := Nat.mod_lt _ h.upos
    have hlen : k % s.U < s.lanes.length := by rw [h.len]; exact hu
    simp only at hs
    split at hs
    · cases hs; exact priv_nolane _ _ rfl (fun e => by cases e)
    · cases hs
      refine Priv.of_sameAll ?_ (sameAll_signalInbox _ _ (by simpa using hlen))
      exact priv_update _ _ (k % s.U) { s.lane (k % s.U) with inbox := some (b, k) } hlen rfl (fun _ => rfl) (fun e => by cases e)
  · rename_i u hl
    split at hs
    · cases hs; exact priv_nolane _ _ rfl (fun e => by cases e)
    · rename_i hult
      have hu : u < s.U := by omega
      have hlen : u < s.lanes.length := by rw [h.len]; exact hu
      simp only at hs
      split at hs
      · cases hs; exact priv_nolane _ _ rfl (fun e => by cases e)
      · cases hs
        refine Priv.of_sameAll ?_ (sameAll_signalInbox _ _ (by simpa using hlen))
        exact priv_update _ _ u { s.lane u with inEod := true } hlen rfl (fun _ => rfl) (fun e => by cases e)
  · split at hs
    · cases hs; exact priv_nolane _ _ rfl (fun e => by cases e)
    · split at hs
      · cases hs; exact priv_nolane _ _ rfl (fun e => by cases e)
      · cases hs; exact priv_nolane _ _ rfl (fun e => by cases e)
  · cases hs

theorem stepUnpacker_priv (s s' : Sys) (u : Nat) (h : Inv s) (hs : stepUnpacker s u = some s') : Priv s s' false (some u) := by
  unfold stepUnpacker at hs
  split at hs
  · cases hs
  rename_i hu'
  have hu : u < s.U := by omega
  have hlen : u < s.lanes.length := by rw [h.len]; exact hu
  simp only at hs
  split at hs
  · split at hs
    · cases hs; exact (priv_refl s _ _).of_sameAll (sameAll_setUwait s u _ hlen)
    · cases hs
      have hcore : Priv s (s.setLane u { s.lane u with inbox := none, upc := .put (s.lane u).inbox, uwait := none }) false (some u) :=
        priv_update _ _ u _ hlen rfl (fun e => absurd rfl e) (fun _ => ⟨rfl, rfl, rfl⟩)
      split
      · exact hcore.of_sameAll (sameAll_signalInbox _ u (by simpa using hlen))
      · exact hcore
  · split at hs
    · cases hs; exact (priv_refl s _ _).of_sameAll (sameAll_setUwait s u _ hlen)
    · cases hs
      refine Priv.of_sameAll ?_ (sameAll_signalOutbox _ u (by simpa using hlen))
      exact priv_update _ _ u _ hlen rfl (fun e => absurd rfl e) (fun _ => ⟨rfl, rfl, rfl⟩)
  · cases hs

theorem readBody_priv (s : Sys) (c : Nat) (h : Inv s) : Priv s (readBody s c) false none := by
  have hu : s.nchunk % s.U < s.U := Nat.mod_lt _ h.upos
  have hlen : s.nchunk % s.U < s.lanes.length := by rw [h.len]; exact hu
  unfold readBody
  simp only
  split
  · exact priv_nolane _ _ rfl (fun _ => ⟨rfl, rfl, rfl⟩)
  · split
    · refine Priv.of_sameAll ?_ (sameAll_signalOutbox _ _ (by simpa using hlen))
      exact priv_update _ _ (s.nchunk % s.U) _ hlen rfl (fun _ => rfl) (fun _ => ⟨rfl, rfl, rfl⟩)
    · exact priv_nolane _ _ rfl (fun _ => ⟨rfl, rfl, rfl⟩)

/-- **Thread-private variables.** The loader's program counter (with the chunk in its hands), its private chunk counter
    and `nalloc` change only in loader steps; unpacker `u`'s program counter (with the chunk in its hands) only in steps
    of unpacker `u`. -/
theorem step_private (s s' : Sys) (l : Label) (h : Inv s) (hs : step s l = some s') :
    (l ≠ .loader → s'.lpc = s.lpc ∧ s'.nchunkL = s.nchunkL ∧ s'.nalloc = s.nalloc) ∧
    (∀ u, l ≠ .unpacker u → (s'.lane u).upc = (s.lane u).upc) := by
  cases l with
  | loader =>
    have p := stepLoader_priv s s' h hs
    exact ⟨fun e => absurd rfl e, fun u _ => p.unp u (by simp)⟩
  | unpacker v =>
    have p := stepUnpacker_priv s s' v h hs
    exact ⟨fun _ => p.loader rfl, fun u hu => p.unp u (by intro e; cases e; exact hu rfl)⟩
  | read c =>
    simp only [step] at hs
    split at hs
    · cases hs
    · cases hs
      have p := readBody_priv s c h
      exact ⟨fun _ => p.loader rfl, fun u _ => p.unp u (by simp)⟩
  | readWake =>
    simp only [step] at hs
    split at hs
    · rename_i c0 _
      cases hs
      have p := readBody_priv s c0 h
      exact ⟨fun _ => p.loader rfl, fun u _ => p.unp u (by simp)⟩
    · cases hs
  | recycle c b k =>
    simp only [step] at hs
    split at hs
    · cases hs
      have p : Priv s (signalRecycling { s with cheld := s.cheld.erase (c, (b, k)), recycling := b :: s.recycling }) false none :=
        Priv.of_sameAll (s2 := { s with cheld := s.cheld.erase (c, (b, k)), recycling := b :: s.recycling })
          (priv_nolane _ _ rfl (fun _ => ⟨rfl, rfl, rfl⟩)) (sameAll_signalRecycling _)
      exact ⟨fun _ => p.loader rfl, fun u _ => p.unp u (by simp)⟩
    · cases hs

/-! ## reads: the wait conditions are evaluated on guarded fields only -/

/-- `s` and `t` coincide on the thread-private variables and on every shared field guarded by a mutex in `L`
    (they may differ arbitrarily in all other shared fields) -/
structure AgreeOn (L : List Mutex) (s t : Sys) : Prop where
  U : t.U = s.U
  lpc : t.lpc = s.lpc
  nalloc : t.nalloc = s.nalloc
  limit : t.limit = s.limit
  upc : ∀ u, (t.lane u).upc = (s.lane u).upc
  inbox : ∀ u, Mutex.inbox u ∈ L → (t.lane u).inbox = (s.lane u).inbox ∧ (t.lane u).inEod = (s.lane u).inEod
  outbox : ∀ u, Mutex.outbox u ∈ L → (t.lane u).outbox = (s.lane u).outbox ∧ (t.lane u).outEod = (s.lane u).outEod
  nchunk : Mutex.nchunk ∈ L → t.nchunk = s.nchunk
  recycling : Mutex.recycling ∈ L → t.recycling = s.recycling

theorem held_agree (s t : Sys) (l : Label) (L : List Mutex) (h : AgreeOn L s t) (hn : Mutex.nchunk ∈ L ∨ (∀ c, l ≠ .read c) ∧ l ≠ .readWake) :
    held t l = held s l := by
  cases l with
  | loader => simp only [held, h.lpc, h.nalloc, h.limit, h.U]
  | unpacker u => simp only [held, h.upc u]
  | read c =>
    rcases hn with hn | hn
    · simp only [held, h.nchunk hn, h.U]
    · exact absurd rfl (hn.1 c)
  | readWake =>
    rcases hn with hn | hn
    · simp only [held, h.nchunk hn, h.U]
    · exact absurd rfl hn.2
  | recycle c b k => rfl

/-- **The `while (…) pthread_cond_wait` conditions read guarded fields only.** If two states agree on the acting thread's
    private variables and on the shared fields guarded by the mutexes the step holds, the step holds the same mutexes in both
    and its wait condition has the same value - whatever the other shared fields contain. -/
theorem wait_condition_guarded (s t : Sys) (l : Label) (h : AgreeOn (held s l) s t) :
    held t l = held s l ∧
    (l = .loader → loaderBlocked t = loaderBlocked s) ∧
    (∀ u, l = .unpacker u → unpBlocked t u = unpBlocked s u) ∧
    ((∃ c, l = .read c) ∨ l = .readWake → readBlocked t = readBlocked s) := by
  refine ⟨?_, ?_, ?_, ?_⟩
  · apply held_agree s t l _ h
    cases l with
    | read c => left; simp [held]
    | readWake => left; simp [held]
    | loader => right; exact ⟨fun c => by simp, by simp⟩
    | unpacker u => right; exact ⟨fun c => by simp, by simp⟩
    | recycle c b k => right; exact ⟨fun c => by simp, by simp⟩
  · intro e; subst e
    have hl := h.lpc
    simp only [loaderBlocked, hl, h.nalloc, h.limit, h.U]
    cases hp : s.lpc with
    | top =>
      by_cases hc : s.nalloc < s.limit
      · have : decide (s.nalloc ≥ s.limit) = false := by simp; omega
        simp [this]
      · have hr := h.recycling (by simp [held, hp, hc])
        simp [hr]
    | haveBuf b => rfl
    | put b k =>
      have := h.inbox (k % s.U) (by simp [held, hp])
      simp [this.1]
    | eod u =>
      by_cases hc : u < s.U
      · have := h.inbox u (by simp [held, hp]; omega)
        simp [this.1]
      · simp [hc]
    | drain =>
      by_cases hc : s.nalloc = 0
      · simp [hc]
      · have hr := h.recycling (by simp [held, hp, hc])
        simp [hr]
    | done => rfl
  · intro u e; subst e
    simp only [unpBlocked, h.upc u]
    cases hp : (s.lane u).upc with
    | get =>
      have := h.inbox u (by simp [held, hp])
      simp [this.1, this.2]
    | put c =>
      have := h.outbox u (by simp [held, hp])
      simp [this.1]
    | done => rfl
  · intro e
    have hm : Mutex.nchunk ∈ held s l ∧ Mutex.outbox (s.nchunk % s.U) ∈ held s l := by
      rcases e with ⟨c, rfl⟩ | rfl <;> simp [held]
    have hn := h.nchunk hm.1
    have ho := h.outbox (s.nchunk % s.U) hm.2
    simp only [readBlocked, hn, h.U, ho.1, ho.2]

/-! ## reads and writes stay inside the lane the step works on -/

theorem setLane_comm (s : Sys) (u v : Nat) (a b : Lane) (h : u ≠ v) :
    (s.setLane v a).setLane u b = (s.setLane u b).setLane v a := by
  simp only [Sys.setLane]
  congr 1
  exact List.set_comm a b (Ne.symm h)

theorem lane_other (s : Sys) (u v : Nat) (a : Lane) (hv : v < s.lanes.length) (h : u ≠ v) : (s.setLane v a).lane u = s.lane u := by
  rw [lane_setLane s v u a hv]; simp [h]

@[simp] theorem loaderOnInbox_setLane (s : Sys) (u v : Nat) (a : Lane) : loaderOnInbox (s.setLane v a) u = loaderOnInbox s u := rfl

/-- the part of `pthread_cond_signal(&inbox_cv[u])` / `(&outbox_cv[u])` that concerns unpacker `u` -/
def sigU (s : Sys) (u : Nat) (g : UPc → Bool) : Sys :=
  if (s.lane u).uwait.isSome && g (s.lane u).upc then s.setLane u { s.lane u with uwait := some true } else s

theorem signalInbox_eq (s : Sys) (u : Nat) :
    signalInbox s u = sigU (if s.lwait.isSome && loaderOnInbox s u then { s with lwait := some true } else s) u (· == .get) := rfl

theorem signalOutbox_eq (s : Sys) (u : Nat) :
    signalOutbox s u = sigU (if s.reader.isSome && s.nchunk % s.U == u then { s with rsig := true } else s) u (· != .get) := rfl

theorem sigU_other (s : Sys) (u v : Nat) (a : Lane) (g : UPc → Bool) (hv : v < s.lanes.length) (h : u ≠ v) :
    sigU (s.setLane v a) u g = (sigU s u g).setLane v a := by
  unfold sigU
  rw [lane_other s u v a hv h]
  by_cases hc : ((s.lane u).uwait.isSome && g (s.lane u).upc) = true
  · rw [if_pos hc, if_pos hc]; exact setLane_comm s u v a _ h
  · rw [if_neg hc, if_neg hc]

theorem signalInbox_other (s : Sys) (u v : Nat) (a : Lane) (hv : v < s.lanes.length) (h : u ≠ v) :
    signalInbox (s.setLane v a) u = (signalInbox s u).setLane v a := by
  rw [signalInbox_eq, signalInbox_eq]
  simp only [setLane_lwait, loaderOnInbox_setLane]
  by_cases hc : (s.lwait.isSome && loaderOnInbox s u) = true
  · simp only [hc, ↓reduceIte]
    exact sigU_other { s with lwait := some true } u v a _ hv h
  · simp only [hc, ↓reduceIte]
    exact sigU_other s u v a _ hv h

theorem signalOutbox_other (s : Sys) (u v : Nat) (a : Lane) (hv : v < s.lanes.length) (h : u ≠ v) :
    signalOutbox (s.setLane v a) u = (signalOutbox s u).setLane v a := by
  rw [signalOutbox_eq, signalOutbox_eq]
  simp only [setLane_reader, setLane_nchunk, setLane_U]
  by_cases hc : (s.reader.isSome && s.nchunk % s.U == u) = true
  · simp only [hc, ↓reduceIte]
    exact sigU_other { s with rsig := true } u v a _ hv h
  · simp only [hc, ↓reduceIte]
    exact sigU_other s u v a _ hv h

theorem signalRecycling_other (s : Sys) (v : Nat) (a : Lane) :
    signalRecycling (s.setLane v a) = (signalRecycling s).setLane v a := by
  unfold signalRecycling
  simp only [setLane_lpc, setLane_lwait]
  cases s.lpc <;> simp only <;> (try (by_cases hc : s.lwait.isSome = true <;> simp only [hc, if_true, if_false, Bool.false_eq_true] <;> rfl))

/-- the lane whose boxes the critical section of step `l` works on (none for thread-local steps and the recycling stack) -/
def actsOn (s : Sys) : Label → Option Nat
  | .loader => match s.lpc with
    | .put _ k => some (k % s.U)
    | .eod u => some u
    | _ => none
  | .unpacker u => some u
  | .read _ => some (s.nchunk % s.U)
  | .readWake => some (s.nchunk % s.U)
  | .recycle _ _ _ => none

theorem stepLoader_other (s : Sys) (v : Nat) (a : Lane) (hv : v < s.lanes.length) (h : actsOn s .loader ≠ some v) :
    stepLoader (s.setLane v a) = (stepLoader s).map (·.setLane v a) := by
  unfold stepLoader
  simp only [setLane_lpc]
  cases hl : s.lpc with
  | top =>
    simp only [setLane_nalloc, setLane_limit, setLane_nextBuf, setLane_recycling]
    by_cases hc : s.nalloc < s.limit
    · simp only [hc, ↓reduceIte, Option.map]; rfl
    · simp only [hc, ↓reduceIte]
      cases s.recycling <;> rfl
  | haveBuf b =>
    simp only [setLane_nchunkL, setLane_T]
    by_cases hc : s.nchunkL < s.T
    · simp only [hc, ↓reduceIte, Option.map]; rfl
    · simp only [hc, ↓reduceIte, Option.map]; rfl
  | put b k =>
    have hne : k % s.U ≠ v := by
      intro e; apply h; simp [actsOn, hl, e]
    simp only [setLane_U, lane_other s (k % s.U) v a hv hne]
    by_cases hc : (s.lane (k % s.U)).inbox.isSome = true
    · simp only [hc, ↓reduceIte, Option.map]; rfl
    · simp only [hc, ↓reduceIte, Option.map, Bool.false_eq_true]
      congr 1
      have key := signalInbox_other (({ s with lwait := none, lpc := .top, nchunkL := k + 1 } : Sys).setLane (k % s.U)
        { s.lane (k % s.U) with inbox := some (b, k) }) (k % s.U) v a (by simpa using hv) hne
      rw [← setLane_comm _ (k % s.U) v a _ hne] at key
      exact key
  | eod w =>
    have hne : w ≠ v := by
      intro e; apply h; simp [actsOn, hl, e]
    simp only [setLane_U]
    by_cases hge : w ≥ s.U
    · simp only [hge, ↓reduceIte, Option.map]; rfl
    · simp only [hge, ↓reduceIte, lane_other s w v a hv hne]
      by_cases hc : (s.lane w).inbox.isSome = true
      · simp only [hc, ↓reduceIte, Option.map]; rfl
      · simp only [hc, ↓reduceIte, Option.map, Bool.false_eq_true]
        congr 1
        have key := signalInbox_other (({ s with lwait := none, lpc := .eod (w + 1) } : Sys).setLane w
          { s.lane w with inEod := true }) w v a (by simpa using hv) hne
        rw [← setLane_comm _ w v a _ hne] at key
        exact key
  | drain =>
    simp only [setLane_nalloc, setLane_recycling, setLane_freed]
    by_cases hc : s.nalloc = 0
    · simp only [hc, ↓reduceIte, Option.map]; rfl
    · simp only [hc, ↓reduceIte]
      cases s.recycling <;> rfl
  | done => rfl

theorem stepUnpacker_other (s : Sys) (u v : Nat) (a : Lane) (hv : v < s.lanes.length) (hne : u ≠ v) :
    stepUnpacker (s.setLane v a) u = (stepUnpacker s u).map (·.setLane v a) := by
  unfold stepUnpacker
  simp only [setLane_U, lane_other s u v a hv hne]
  by_cases hge : u ≥ s.U
  · simp only [hge, ↓reduceIte, Option.map]
  · simp only [hge, ↓reduceIte]
    cases hp : (s.lane u).upc with
    | get =>
      simp only
      by_cases hc : (!(s.lane u).inEod && (s.lane u).inbox.isNone) = true
      · simp only [hc, ↓reduceIte, Option.map]
        congr 1
        exact setLane_comm s u v a _ hne
      · simp only [hc, ↓reduceIte, Option.map, Bool.false_eq_true]
        congr 1
        by_cases hi : (s.lane u).inbox.isSome = true
        · simp only [hi, ↓reduceIte]
          have key := signalInbox_other (s.setLane u { s.lane u with inbox := none, upc := .put (s.lane u).inbox, uwait := none })
            u v a (by simpa using hv) hne
          rw [← setLane_comm _ u v a _ hne] at key
          exact key
        · simp only [hi, ↓reduceIte, Bool.false_eq_true]
          exact setLane_comm s u v a _ hne
    | put c =>
      simp only
      by_cases hc : (s.lane u).outbox.isSome = true
      · simp only [hc, ↓reduceIte, Option.map]
        congr 1
        exact setLane_comm s u v a _ hne
      · simp only [hc, ↓reduceIte, Option.map, Bool.false_eq_true]
        congr 1
        have key := signalOutbox_other (s.setLane u { s.lane u with outbox := c, outEod := (s.lane u).outEod || c.isNone, uwait := none, upc := if c.isSome then UPc.get else UPc.done })
          u v a (by simpa using hv) hne
        rw [← setLane_comm _ u v a _ hne] at key
        exact key
    | done => rfl

theorem readBody_other (s : Sys) (c v : Nat) (a : Lane) (hv : v < s.lanes.length) (hne : s.nchunk % s.U ≠ v) :
    readBody (s.setLane v a) c = (readBody s c).setLane v a := by
  unfold readBody
  simp only [setLane_nchunk, setLane_U, lane_other s (s.nchunk % s.U) v a hv hne]
  by_cases hc : (!(s.lane (s.nchunk % s.U)).outEod && (s.lane (s.nchunk % s.U)).outbox.isNone) = true
  · simp only [hc, ↓reduceIte]; rfl
  · simp only [hc, ↓reduceIte, Bool.false_eq_true]
    cases ho : (s.lane (s.nchunk % s.U)).outbox with
    | none => rfl
    | some bk =>
      obtain ⟨b, k⟩ := bk
      simp only
      have key := signalOutbox_other (({ s with reader := none, nchunk := s.nchunk + 1, returned := s.returned ++ [k], cheld := (c, (b, k)) :: s.cheld } : Sys).setLane (s.nchunk % s.U)
        { s.lane (s.nchunk % s.U) with outbox := none }) (s.nchunk % s.U) v a (by simpa using hv) hne
      rw [← setLane_comm _ (s.nchunk % s.U) v a _ hne] at key
      exact key

/-- **Lane locality.** A step reads and writes no box but those of the lane its critical section works on: replacing the
    whole lane `v` (inbox, outbox, EOD flags, even unpacker `v`'s private state) by anything else commutes with every step
    that does not act on lane `v`. -/
theorem step_lane_local (s : Sys) (l : Label) (v : Nat) (a : Lane) (hv : v < s.lanes.length) (h : actsOn s l ≠ some v) :
    step (s.setLane v a) l = (step s l).map (·.setLane v a) := by
  cases l with
  | loader => exact stepLoader_other s v a hv h
  | unpacker u => exact stepUnpacker_other s u v a hv (by intro e; apply h; simp [actsOn, e])
  | read c =>
    have hne : s.nchunk % s.U ≠ v := by intro e; apply h; simp [actsOn, e]
    simp only [step, setLane_reader]
    by_cases hr : s.reader.isSome = true
    · simp only [hr, ↓reduceIte, Option.map]
    · simp only [hr, ↓reduceIte, Option.map, Bool.false_eq_true]
      congr 1
      exact readBody_other s c v a hv hne
  | readWake =>
    have hne : s.nchunk % s.U ≠ v := by intro e; apply h; simp [actsOn, e]
    simp only [step, setLane_reader]
    cases s.reader with
    | none => rfl
    | some c => simp only [Option.map]; congr 1; exact readBody_other s c v a hv hne
  | recycle c b k =>
    simp only [step, setLane_cheld]
    by_cases hm : (c, (b, k)) ∈ s.cheld
    · simp only [hm, ↓reduceIte, Option.map]
      congr 1
      exact signalRecycling_other { s with cheld := s.cheld.erase (c, (b, k)), recycling := b :: s.recycling } v a
    · simp only [hm, ↓reduceIte, Option.map]

/-! ## the recycling stack and the shared counter are accessed only under their mutexes -/

/-- overwrite the recycling stack / the shared chunk counter -/
def Sys.setRecycling (s : Sys) (R : List Nat) : Sys := { s with recycling := R }
def Sys.setNchunk (s : Sys) (n : Nat) : Sys := { s with nchunk := n }

theorem sigU_setRecycling (s : Sys) (u : Nat) (g : UPc → Bool) (R : List Nat) :
    sigU (s.setRecycling R) u g = (sigU s u g).setRecycling R := by
  unfold sigU
  have e : (s.setRecycling R).lane u = s.lane u := rfl
  rw [e]
  by_cases hc : ((s.lane u).uwait.isSome && g (s.lane u).upc) = true
  · simp only [hc, ↓reduceIte]; rfl
  · simp only [hc, ↓reduceIte, Bool.false_eq_true]

theorem signalInbox_setRecycling (s : Sys) (u : Nat) (R : List Nat) :
    signalInbox (s.setRecycling R) u = (signalInbox s u).setRecycling R := by
  rw [signalInbox_eq, signalInbox_eq]
  have e1 : (s.setRecycling R).lwait = s.lwait := rfl
  have e2 : loaderOnInbox (s.setRecycling R) u = loaderOnInbox s u := rfl
  rw [e1, e2]
  by_cases hc : (s.lwait.isSome && loaderOnInbox s u) = true
  · simp only [hc, ↓reduceIte]
    exact sigU_setRecycling { s with lwait := some true } u _ R
  · simp only [hc, ↓reduceIte]
    exact sigU_setRecycling s u _ R

theorem signalOutbox_setRecycling (s : Sys) (u : Nat) (R : List Nat) :
    signalOutbox (s.setRecycling R) u = (signalOutbox s u).setRecycling R := by
  rw [signalOutbox_eq, signalOutbox_eq]
  have e1 : (s.setRecycling R).reader = s.reader := rfl
  have e2 : (s.setRecycling R).nchunk = s.nchunk := rfl
  have e3 : (s.setRecycling R).U = s.U := rfl
  rw [e1, e2, e3]
  by_cases hc : (s.reader.isSome && s.nchunk % s.U == u) = true
  · simp only [hc, ↓reduceIte]
    exact sigU_setRecycling { s with rsig := true } u _ R
  · simp only [hc, ↓reduceIte]
    exact sigU_setRecycling s u _ R

theorem stepLoader_setRecycling (s : Sys) (R : List Nat) (h : Mutex.recycling ∉ held s .loader) :
    stepLoader (s.setRecycling R) = (stepLoader s).map (·.setRecycling R) := by
  unfold stepLoader
  have el : (s.setRecycling R).lpc = s.lpc := rfl
  rw [el]
  cases hl : s.lpc with
  | top =>
    have hc : s.nalloc < s.limit := by
      apply Classical.byContradiction; intro hn; apply h; simp [held, hl, hn]
    have e1 : (s.setRecycling R).nalloc = s.nalloc := rfl
    have e2 : (s.setRecycling R).limit = s.limit := rfl
    simp only [e1, e2, hc, ↓reduceIte, Option.map]; rfl
  | haveBuf b =>
    have e1 : (s.setRecycling R).nchunkL = s.nchunkL := rfl
    have e2 : (s.setRecycling R).T = s.T := rfl
    simp only [e1, e2]
    by_cases hc : s.nchunkL < s.T
    · simp only [hc, ↓reduceIte, Option.map]; rfl
    · simp only [hc, ↓reduceIte, Option.map]; rfl
  | put b k =>
    have e1 : (s.setRecycling R).U = s.U := rfl
    have e2 : (s.setRecycling R).lane (k % s.U) = s.lane (k % s.U) := rfl
    simp only [e1, e2]
    by_cases hc : (s.lane (k % s.U)).inbox.isSome = true
    · simp only [hc, ↓reduceIte, Option.map]; rfl
    · simp only [hc, ↓reduceIte, Option.map, Bool.false_eq_true]
      congr 1
      exact signalInbox_setRecycling (({ s with lwait := none, lpc := .top, nchunkL := k + 1 } : Sys).setLane (k % s.U)
        { s.lane (k % s.U) with inbox := some (b, k) }) (k % s.U) R
  | eod w =>
    have e1 : (s.setRecycling R).U = s.U := rfl
    have e2 : (s.setRecycling R).lane w = s.lane w := rfl
    simp only [e1, e2]
    by_cases hge : w ≥ s.U
    · simp only [hge, ↓reduceIte, Option.map]; rfl
    · simp only [hge, ↓reduceIte]
      by_cases hc : (s.lane w).inbox.isSome = true
      · simp only [hc, ↓reduceIte, Option.map]; rfl
      · simp only [hc, ↓reduceIte, Option.map, Bool.false_eq_true]
        congr 1
        exact signalInbox_setRecycling (({ s with lwait := none, lpc := .eod (w + 1) } : Sys).setLane w
          { s.lane w with inEod := true }) w R
  | drain =>
    have hc : s.nalloc = 0 := by
      apply Classical.byContradiction; intro hn; apply h; simp [held, hl, hn]
    have e1 : (s.setRecycling R).nalloc = s.nalloc := rfl
    simp only [e1, hc, ↓reduceIte, Option.map]; rfl
  | done => rfl

theorem stepUnpacker_setRecycling (s : Sys) (u : Nat) (R : List Nat) :
    stepUnpacker (s.setRecycling R) u = (stepUnpacker s u).map (·.setRecycling R) := by
  unfold stepUnpacker
  have e1 : (s.setRecycling R).U = s.U := rfl
  have e2 : (s.setRecycling R).lane u = s.lane u := rfl
  simp only [e1, e2]
  by_cases hge : u ≥ s.U
  · simp only [hge, ↓reduceIte, Option.map]
  · simp only [hge, ↓reduceIte]
    cases hp : (s.lane u).upc with
    | get =>
      simp only
      by_cases hc : (!(s.lane u).inEod && (s.lane u).inbox.isNone) = true
      · simp only [hc, ↓reduceIte, Option.map]; rfl
      · simp only [hc, ↓reduceIte, Option.map, Bool.false_eq_true]
        congr 1
        by_cases hi : (s.lane u).inbox.isSome = true
        · simp only [hi, ↓reduceIte]
          exact signalInbox_setRecycling (s.setLane u { s.lane u with inbox := none, upc := .put (s.lane u).inbox, uwait := none }) u R
        · simp only [hi, ↓reduceIte, Bool.false_eq_true]; rfl
    | put c =>
      simp only
      by_cases hc : (s.lane u).outbox.isSome = true
      · simp only [hc, ↓reduceIte, Option.map]; rfl
      · simp only [hc, ↓reduceIte, Option.map, Bool.false_eq_true]
        congr 1
        exact signalOutbox_setRecycling (s.setLane u { s.lane u with outbox := c, outEod := (s.lane u).outEod || c.isNone, uwait := none, upc := if c.isSome then UPc.get else UPc.done }) u R
    | done => rfl

theorem readBody_setRecycling (s : Sys) (c : Nat) (R : List Nat) :
    readBody (s.setRecycling R) c = (readBody s c).setRecycling R := by
  unfold readBody
  have e1 : (s.setRecycling R).U = s.U := rfl
  have e2 : (s.setRecycling R).nchunk = s.nchunk := rfl
  have e3 : (s.setRecycling R).lane (s.nchunk % s.U) = s.lane (s.nchunk % s.U) := rfl
  simp only [e1, e2, e3]
  by_cases hc : (!(s.lane (s.nchunk % s.U)).outEod && (s.lane (s.nchunk % s.U)).outbox.isNone) = true
  · simp only [hc, ↓reduceIte]; rfl
  · simp only [hc, ↓reduceIte, Bool.false_eq_true]
    cases ho : (s.lane (s.nchunk % s.U)).outbox with
    | none => rfl
    | some bk =>
      obtain ⟨b, k⟩ := bk
      simp only
      exact signalOutbox_setRecycling (({ s with reader := none, nchunk := s.nchunk + 1, returned := s.returned ++ [k], cheld := (c, (b, k)) :: s.cheld } : Sys).setLane (s.nchunk % s.U)
        { s.lane (s.nchunk % s.U) with outbox := none }) (s.nchunk % s.U) R

/-- **The recycling stack is read and written only under `recycling_mutex`**: a step whose critical section does not hold
    it commutes with any change of the stack. -/
theorem step_recycling_local (s : Sys) (l : Label) (R : List Nat) (h : Mutex.recycling ∉ held s l) :
    step (s.setRecycling R) l = (step s l).map (·.setRecycling R) := by
  cases l with
  | loader => exact stepLoader_setRecycling s R h
  | unpacker u => exact stepUnpacker_setRecycling s u R
  | read c =>
    have e : (s.setRecycling R).reader = s.reader := rfl
    simp only [step, e]
    by_cases hr : s.reader.isSome = true
    · simp only [hr, ↓reduceIte, Option.map]
    · simp only [hr, ↓reduceIte, Option.map, Bool.false_eq_true]
      congr 1
      exact readBody_setRecycling s c R
  | readWake =>
    have e : (s.setRecycling R).reader = s.reader := rfl
    simp only [step, e]
    cases s.reader with
    | none => rfl
    | some c => simp only [Option.map]; congr 1; exact readBody_setRecycling s c R
  | recycle c b k => exact absurd (by simp [held]) h

theorem sigU_setNchunk (s : Sys) (u : Nat) (g : UPc → Bool) (n : Nat) :
    sigU (s.setNchunk n) u g = (sigU s u g).setNchunk n := by
  unfold sigU
  have e : (s.setNchunk n).lane u = s.lane u := rfl
  rw [e]
  by_cases hc : ((s.lane u).uwait.isSome && g (s.lane u).upc) = true
  · simp only [hc, ↓reduceIte]; rfl
  · simp only [hc, ↓reduceIte, Bool.false_eq_true]

theorem signalInbox_setNchunk (s : Sys) (u : Nat) (n : Nat) :
    signalInbox (s.setNchunk n) u = (signalInbox s u).setNchunk n := by
  rw [signalInbox_eq, signalInbox_eq]
  have e1 : (s.setNchunk n).lwait = s.lwait := rfl
  have e2 : loaderOnInbox (s.setNchunk n) u = loaderOnInbox s u := rfl
  rw [e1, e2]
  by_cases hc : (s.lwait.isSome && loaderOnInbox s u) = true
  · simp only [hc, ↓reduceIte]
    exact sigU_setNchunk { s with lwait := some true } u _ n
  · simp only [hc, ↓reduceIte]
    exact sigU_setNchunk s u _ n

theorem signalOutbox_setNchunk (s : Sys) (u : Nat) (n : Nat) (hr : s.reader = none) :
    signalOutbox (s.setNchunk n) u = (signalOutbox s u).setNchunk n := by
  rw [signalOutbox_eq, signalOutbox_eq]
  have e1 : (s.setNchunk n).reader = s.reader := rfl
  rw [e1, hr]
  simp only [Option.isSome_none, Bool.false_and, Bool.false_eq_true, ↓reduceIte]
  exact sigU_setNchunk s u _ n

theorem stepLoader_setNchunk (s : Sys) (n : Nat) :
    stepLoader (s.setNchunk n) = (stepLoader s).map (·.setNchunk n) := by
  unfold stepLoader
  have el : (s.setNchunk n).lpc = s.lpc := rfl
  rw [el]
  cases hl : s.lpc with
  | top =>
    have e1 : (s.setNchunk n).nalloc = s.nalloc := rfl
    have e2 : (s.setNchunk n).limit = s.limit := rfl
    have e3 : (s.setNchunk n).recycling = s.recycling := rfl
    simp only [e1, e2, e3]
    by_cases hc : s.nalloc < s.limit
    · simp only [hc, ↓reduceIte, Option.map]; rfl
    · simp only [hc, ↓reduceIte]
      cases s.recycling <;> rfl
  | haveBuf b =>
    have e1 : (s.setNchunk n).nchunkL = s.nchunkL := rfl
    have e2 : (s.setNchunk n).T = s.T := rfl
    simp only [e1, e2]
    by_cases hc : s.nchunkL < s.T
    · simp only [hc, ↓reduceIte, Option.map]; rfl
    · simp only [hc, ↓reduceIte, Option.map]; rfl
  | put b k =>
    have e1 : (s.setNchunk n).U = s.U := rfl
    have e2 : (s.setNchunk n).lane (k % s.U) = s.lane (k % s.U) := rfl
    simp only [e1, e2]
    by_cases hc : (s.lane (k % s.U)).inbox.isSome = true
    · simp only [hc, ↓reduceIte, Option.map]; rfl
    · simp only [hc, ↓reduceIte, Option.map, Bool.false_eq_true]
      congr 1
      exact signalInbox_setNchunk (({ s with lwait := none, lpc := .top, nchunkL := k + 1 } : Sys).setLane (k % s.U)
        { s.lane (k % s.U) with inbox := some (b, k) }) (k % s.U) n
  | eod w =>
    have e1 : (s.setNchunk n).U = s.U := rfl
    have e2 : (s.setNchunk n).lane w = s.lane w := rfl
    simp only [e1, e2]
    by_cases hge : w ≥ s.U
    · simp only [hge, ↓reduceIte, Option.map]; rfl
    · simp only [hge, ↓reduceIte]
      by_cases hc : (s.lane w).inbox.isSome = true
      · simp only [hc, ↓reduceIte, Option.map]; rfl
      · simp only [hc, ↓reduceIte, Option.map, Bool.false_eq_true]
        congr 1
        exact signalInbox_setNchunk (({ s with lwait := none, lpc := .eod (w + 1) } : Sys).setLane w
          { s.lane w with inEod := true }) w n
  | drain =>
    have e1 : (s.setNchunk n).nalloc = s.nalloc := rfl
    have e3 : (s.setNchunk n).recycling = s.recycling := rfl
    simp only [e1, e3]
    by_cases hc : s.nalloc = 0
    · simp only [hc, ↓reduceIte, Option.map]; rfl
    · simp only [hc, ↓reduceIte]
      cases s.recycling <;> rfl
  | done => rfl

theorem stepUnpacker_setNchunk (s : Sys) (u : Nat) (n : Nat) (hr : s.reader = none) :
    stepUnpacker (s.setNchunk n) u = (stepUnpacker s u).map (·.setNchunk n) := by
  unfold stepUnpacker
  have e1 : (s.setNchunk n).U = s.U := rfl
  have e2 : (s.setNchunk n).lane u = s.lane u := rfl
  simp only [e1, e2]
  by_cases hge : u ≥ s.U
  · simp only [hge, ↓reduceIte, Option.map]
  · simp only [hge, ↓reduceIte]
    cases hp : (s.lane u).upc with
    | get =>
      simp only
      by_cases hc : (!(s.lane u).inEod && (s.lane u).inbox.isNone) = true
      · simp only [hc, ↓reduceIte, Option.map]; rfl
      · simp only [hc, ↓reduceIte, Option.map, Bool.false_eq_true]
        congr 1
        by_cases hi : (s.lane u).inbox.isSome = true
        · simp only [hi, ↓reduceIte]
          exact signalInbox_setNchunk (s.setLane u { s.lane u with inbox := none, upc := .put (s.lane u).inbox, uwait := none }) u n
        · simp only [hi, ↓reduceIte, Bool.false_eq_true]; rfl
    | put c =>
      simp only
      by_cases hc : (s.lane u).outbox.isSome = true
      · simp only [hc, ↓reduceIte, Option.map]; rfl
      · simp only [hc, ↓reduceIte, Option.map, Bool.false_eq_true]
        congr 1
        exact signalOutbox_setNchunk (s.setLane u { s.lane u with outbox := c, outEod := (s.lane u).outEod || c.isNone, uwait := none, upc := if c.isSome then UPc.get else UPc.done }) u n hr
    | done => rfl

theorem signalRecycling_setNchunk (s : Sys) (n : Nat) : signalRecycling (s.setNchunk n) = (signalRecycling s).setNchunk n := by
  unfold signalRecycling
  have e1 : (s.setNchunk n).lpc = s.lpc := rfl
  have e2 : (s.setNchunk n).lwait = s.lwait := rfl
  rw [e1, e2]
  cases s.lpc <;> simp only <;> (try (by_cases hc : s.lwait.isSome = true <;> simp only [hc, ↓reduceIte, Bool.false_eq_true] <;> rfl))

/-- **The consumer-shared counter `nchunk` is read and written only under `nchunk_mutex`**: a step whose critical section
    does not hold it (any step of the loader, an unpacker, `Recycle`) commutes with any change of the counter - provided no
    consumer is asleep inside `Read` (`reader = none`; a sleeping consumer keeps `nchunk_mutex`, so nobody else could change
    the counter then, and the model's `pthread_cond_signal(&outbox_cv[u])` looks at it only to find that sleeper). -/
theorem step_nchunk_local (s : Sys) (l : Label) (n : Nat) (h : Mutex.nchunk ∉ held s l) (hr : s.reader = none) :
    step (s.setNchunk n) l = (step s l).map (·.setNchunk n) := by
  cases l with
  | loader => exact stepLoader_setNchunk s n
  | unpacker u => exact stepUnpacker_setNchunk s u n hr
  | read c => exact absurd (by simp [held]) h
  | readWake => exact absurd (by simp [held]) h
  | recycle c b k =>
    have e : (s.setNchunk n).cheld = s.cheld := rfl
    simp only [step, e]
    by_cases hm : (c, (b, k)) ∈ s.cheld
    · simp only [hm, ↓reduceIte, Option.map]
      congr 1
      exact signalRecycling_setNchunk { s with cheld := s.cheld.erase (c, (b, k)), recycling := b :: s.recycling } n
    · simp only [hm, ↓reduceIte, Option.map]

/-! ## inside its own lane a step stays in the half whose mutex it holds -/

/-- overwrite the outbox half / the inbox half of lane `u` (what `outbox_mutex[u]` / `inbox_mutex[u]` protect) -/
def Sys.pokeOut (s : Sys) (u : Nat) (ob : Option Chunk) (oe : Bool) : Sys := s.setLane u { s.lane u with outbox := ob, outEod := oe }
def Sys.pokeIn (s : Sys) (u : Nat) (ib : Option Chunk) (ie : Bool) : Sys := s.setLane u { s.lane u with inbox := ib, inEod := ie }

theorem setLane_setLane (s : Sys) (u : Nat) (x y : Lane) : (s.setLane u x).setLane u y = s.setLane u y := by
  simp only [Sys.setLane, List.set_set]

theorem lane_self (s : Sys) (u : Nat) (a : Lane) (hu : u < s.lanes.length) : (s.setLane u a).lane u = a := by
  rw [lane_setLane s u u a hu]; simp

/-- `pokeOut` after replacing lane `u` by `L` -/
theorem pokeOut_setLane (s : Sys) (u : Nat) (L : Lane) (ob : Option Chunk) (oe : Bool) (hu : u < s.lanes.length) :
    (s.setLane u L).pokeOut u ob oe = s.setLane u { L with outbox := ob, outEod := oe } := by
  unfold Sys.pokeOut
  rw [lane_self s u L hu, setLane_setLane]

theorem pokeIn_setLane (s : Sys) (u : Nat) (L : Lane) (ib : Option Chunk) (ie : Bool) (hu : u < s.lanes.length) :
    (s.setLane u L).pokeIn u ib ie = s.setLane u { L with inbox := ib, inEod := ie } := by
  unfold Sys.pokeIn
  rw [lane_self s u L hu, setLane_setLane]

theorem sigU_pokeOut (s : Sys) (u : Nat) (g : UPc → Bool) (ob : Option Chunk) (oe : Bool) (hu : u < s.lanes.length) :
    sigU (s.pokeOut u ob oe) u g = (sigU s u g).pokeOut u ob oe := by
  unfold sigU
  have e : (s.pokeOut u ob oe).lane u = { s.lane u with outbox := ob, outEod := oe } := lane_self s u _ hu
  rw [e]
  by_cases hc : ((s.lane u).uwait.isSome && g (s.lane u).upc) = true
  · simp only [hc, ↓reduceIte]
    rw [pokeOut_setLane s u _ ob oe hu]
    unfold Sys.pokeOut
    rw [setLane_setLane]
  · simp only [hc, ↓reduceIte, Bool.false_eq_true]

theorem sigU_pokeIn (s : Sys) (u : Nat) (g : UPc → Bool) (ib : Option Chunk) (ie : Bool) (hu : u < s.lanes.length) :
    sigU (s.pokeIn u ib ie) u g = (sigU s u g).pokeIn u ib ie := by
  unfold sigU
  have e : (s.pokeIn u ib ie).lane u = { s.lane u with inbox := ib, inEod := ie } := lane_self s u _ hu
  rw [e]
  by_cases hc : ((s.lane u).uwait.isSome && g (s.lane u).upc) = true
  · simp only [hc, ↓reduceIte]
    rw [pokeIn_setLane s u _ ib ie hu]
    unfold Sys.pokeIn
    rw [setLane_setLane]
  · simp only [hc, ↓reduceIte, Bool.false_eq_true]

theorem signalInbox_pokeOut (s : Sys) (u : Nat) (ob : Option Chunk) (oe : Bool) (hu : u < s.lanes.length) :
    signalInbox (s.pokeOut u ob oe) u = (signalInbox s u).pokeOut u ob oe := by
  rw [signalInbox_eq, signalInbox_eq]
  have e1 : (s.pokeOut u ob oe).lwait = s.lwait := rfl
  have e2 : loaderOnInbox (s.pokeOut u ob oe) u = loaderOnInbox s u := rfl
  rw [e1, e2]
  by_cases hc : (s.lwait.isSome && loaderOnInbox s u) = true
  · simp only [hc, ↓reduceIte]
    exact sigU_pokeOut { s with lwait := some true } u _ ob oe hu
  · simp only [hc, ↓reduceIte]
    exact sigU_pokeOut s u _ ob oe hu

theorem signalOutbox_pokeIn (s : Sys) (u : Nat) (ib : Option Chunk) (ie : Bool) (hu : u < s.lanes.length) :
    signalOutbox (s.pokeIn u ib ie) u = (signalOutbox s u).pokeIn u ib ie := by
  rw [signalOutbox_eq, signalOutbox_eq]
  have e1 : (s.pokeIn u ib ie).reader = s.reader := rfl
  have e2 : (s.pokeIn u ib ie).nchunk = s.nchunk := rfl
  have e3 : (s.pokeIn u ib ie).U = s.U := rfl
  rw [e1, e2, e3]
  by_cases hc : (s.reader.isSome && s.nchunk % s.U == u) = true
  · simp only [hc, ↓reduceIte]
    exact sigU_pokeIn { s with rsig := true } u _ ib ie hu
  · simp only [hc, ↓reduceIte]
    exact sigU_pokeIn s u _ ib ie hu

theorem out0 (S : Sys) (u : Nat) (X L' L : Lane) (ob : Option Chunk) (oe : Bool) (hu : u < S.lanes.length)
    (hL : L' = { L with outbox := ob, outEod := oe }) :
    (S.setLane u X).setLane u L' = (S.setLane u L).pokeOut u ob oe := by
  rw [setLane_setLane, hL, pokeOut_setLane S u L ob oe hu]

theorem outI (S : Sys) (u : Nat) (X L' L : Lane) (ob : Option Chunk) (oe : Bool) (hu : u < S.lanes.length)
    (hL : L' = { L with outbox := ob, outEod := oe }) :
    signalInbox ((S.setLane u X).setLane u L') u = (signalInbox (S.setLane u L) u).pokeOut u ob oe := by
  rw [out0 S u X L' L ob oe hu hL]
  exact signalInbox_pokeOut _ u ob oe (by simpa using hu)

theorem in0 (S : Sys) (u : Nat) (X L' L : Lane) (ib : Option Chunk) (ie : Bool) (hu : u < S.lanes.length)
    (hL : L' = { L with inbox := ib, inEod := ie }) :
    (S.setLane u X).setLane u L' = (S.setLane u L).pokeIn u ib ie := by
  rw [setLane_setLane, hL, pokeIn_setLane S u L ib ie hu]

theorem inO (S : Sys) (u : Nat) (X L' L : Lane) (ib : Option Chunk) (ie : Bool) (hu : u < S.lanes.length)
    (hL : L' = { L with inbox := ib, inEod := ie }) :
    signalOutbox ((S.setLane u X).setLane u L') u = (signalOutbox (S.setLane u L) u).pokeIn u ib ie := by
  rw [in0 S u X L' L ib ie hu hL]
  exact signalOutbox_pokeIn _ u ib ie (by simpa using hu)

theorem stepLoader_pokeOut (s : Sys) (u : Nat) (ob : Option Chunk) (oe : Bool) (hu : u < s.lanes.length)
    (h : actsOn s .loader = some u) :
    stepLoader (s.pokeOut u ob oe) = (stepLoader s).map (·.pokeOut u ob oe) := by
  unfold stepLoader
  have el : (s.pokeOut u ob oe).lpc = s.lpc := rfl
  rw [el]
  cases hl : s.lpc with
  | top => simp [actsOn, hl] at h
  | haveBuf b => simp [actsOn, hl] at h
  | drain => simp [actsOn, hl] at h
  | done => simp [actsOn, hl] at h
  | put b k =>
    have hk : k % s.U = u := by simpa [actsOn, hl] using h
    have e1 : (s.pokeOut u ob oe).U = s.U := rfl
    have e2 : (s.pokeOut u ob oe).lane u = { s.lane u with outbox := ob, outEod := oe } := lane_self s u _ hu
    simp only [e1, hk, e2]
    by_cases hc : (s.lane u).inbox.isSome = true
    · simp only [hc, ↓reduceIte, Option.map]; rfl
    · simp only [hc, ↓reduceIte, Option.map, Bool.false_eq_true]
      congr 1
      exact outI ({ s with lwait := none, lpc := .top, nchunkL := k + 1 } : Sys) u { s.lane u with outbox := ob, outEod := oe }
        _ { s.lane u with inbox := some (b, k) } ob oe hu rfl
  | eod w =>
    have hw : w = u := by simpa [actsOn, hl] using h
    subst hw
    have e1 : (s.pokeOut w ob oe).U = s.U := rfl
    have e2 : (s.pokeOut w ob oe).lane w = { s.lane w with outbox := ob, outEod := oe } := lane_self s w _ hu
    simp only [e1, e2]
    by_cases hge : w ≥ s.U
    · simp only [hge, ↓reduceIte, Option.map]; rfl
    · simp only [hge, ↓reduceIte]
      by_cases hc : (s.lane w).inbox.isSome = true
      · simp only [hc, ↓reduceIte, Option.map]; rfl
      · simp only [hc, ↓reduceIte, Option.map, Bool.false_eq_true]
        congr 1
        exact outI ({ s with lwait := none, lpc := .eod (w + 1) } : Sys) w { s.lane w with outbox := ob, outEod := oe }
          _ { s.lane w with inEod := true } ob oe hu rfl

theorem stepUnpacker_pokeOut (s : Sys) (u : Nat) (ob : Option Chunk) (oe : Bool) (hu : u < s.lanes.length)
    (h : Mutex.outbox u ∉ held s (.unpacker u)) :
    stepUnpacker (s.pokeOut u ob oe) u = (stepUnpacker s u).map (·.pokeOut u ob oe) := by
  unfold stepUnpacker
  have e1 : (s.pokeOut u ob oe).U = s.U := rfl
  have e2 : (s.pokeOut u ob oe).lane u = { s.lane u with outbox := ob, outEod := oe } := lane_self s u _ hu
  simp only [e1, e2]
  by_cases hge : u ≥ s.U
  · simp only [hge, ↓reduceIte, Option.map]
  · simp only [hge, ↓reduceIte]
    cases hp : (s.lane u).upc with
    | get =>
      simp only
      by_cases hc : (!(s.lane u).inEod && (s.lane u).inbox.isNone) = true
      · simp only [hc, ↓reduceIte, Option.map]
        congr 1
        exact out0 s u { s.lane u with outbox := ob, outEod := oe } _ { s.lane u with uwait := some false, upc := .get } ob oe hu rfl
      · simp only [hc, ↓reduceIte, Option.map, Bool.false_eq_true]
        congr 1
        by_cases hi : (s.lane u).inbox.isSome = true
        · simp only [hi, ↓reduceIte]
          exact outI s u { s.lane u with outbox := ob, outEod := oe } _
            { s.lane u with inbox := none, upc := .put (s.lane u).inbox, uwait := none } ob oe hu rfl
        · simp only [hi, ↓reduceIte, Bool.false_eq_true]
          exact out0 s u { s.lane u with outbox := ob, outEod := oe } _
            { s.lane u with inbox := none, upc := .put (s.lane u).inbox, uwait := none } ob oe hu rfl
    | put c => exact absurd (by simp [held, hp]) h
    | done => rfl

theorem stepUnpacker_pokeIn (s : Sys) (u : Nat) (ib : Option Chunk) (ie : Bool) (hu : u < s.lanes.length)
    (h : Mutex.inbox u ∉ held s (.unpacker u)) :
    stepUnpacker (s.pokeIn u ib ie) u = (stepUnpacker s u).map (·.pokeIn u ib ie) := by
  unfold stepUnpacker
  have e1 : (s.pokeIn u ib ie).U = s.U := rfl
  have e2 : (s.pokeIn u ib ie).lane u = { s.lane u with inbox := ib, inEod := ie } := lane_self s u _ hu
  simp only [e1, e2]
  by_cases hge : u ≥ s.U
  · simp only [hge, ↓reduceIte, Option.map]
  · simp only [hge, ↓reduceIte]
    cases hp : (s.lane u).upc with
    | get => exact absurd (by simp [held, hp]) h
    | put c =>
      simp only
      by_cases hc : (s.lane u).outbox.isSome = true
      · simp only [hc, ↓reduceIte, Option.map]
        congr 1
        exact in0 s u { s.lane u with inbox := ib, inEod := ie } _ { s.lane u with uwait := some false, upc := .put c } ib ie hu rfl
      · simp only [hc, ↓reduceIte, Option.map, Bool.false_eq_true]
        congr 1
        exact inO s u { s.lane u with inbox := ib, inEod := ie } _
          { s.lane u with outbox := c, outEod := (s.lane u).outEod || c.isNone, uwait := none, upc := if c.isSome then UPc.get else UPc.done } ib ie hu rfl
    | done => rfl

theorem readBody_pokeIn (s : Sys) (c : Nat) (ib : Option Chunk) (ie : Bool) (hu : s.nchunk % s.U < s.lanes.length) :
    readBody (s.pokeIn (s.nchunk % s.U) ib ie) c = (readBody s c).pokeIn (s.nchunk % s.U) ib ie := by
  unfold readBody
  have e1 : (s.pokeIn (s.nchunk % s.U) ib ie).U = s.U := rfl
  have e2 : (s.pokeIn (s.nchunk % s.U) ib ie).nchunk = s.nchunk := rfl
  have e3 : (s.pokeIn (s.nchunk % s.U) ib ie).lane (s.nchunk % s.U) = { s.lane (s.nchunk % s.U) with inbox := ib, inEod := ie } :=
    lane_self s _ _ hu
  simp only [e1, e2, e3]
  by_cases hc : (!(s.lane (s.nchunk % s.U)).outEod && (s.lane (s.nchunk % s.U)).outbox.isNone) = true
  · simp only [hc, ↓reduceIte]; rfl
  · simp only [hc, ↓reduceIte, Bool.false_eq_true]
    cases ho : (s.lane (s.nchunk % s.U)).outbox with
    | none => rfl
    | some bk =>
      obtain ⟨b, k⟩ := bk
      simp only
      exact inO ({ s with reader := none, nchunk := s.nchunk + 1, returned := s.returned ++ [k], cheld := (c, (b, k)) :: s.cheld } : Sys)
        (s.nchunk % s.U) { s.lane (s.nchunk % s.U) with inbox := ib, inEod := ie } _ { s.lane (s.nchunk % s.U) with outbox := none } ib ie hu rfl

/-- **Half-lane locality.** Inside the lane its critical section works on, a step that holds `inbox_mutex[u]` only neither
    reads nor writes `outbox[u]` / `outbox_eod[u]`, and a step that holds `outbox_mutex[u]` only neither reads nor writes
    `inbox[u]` / `inbox_eod[u]`: it commutes with any change of the half it does not hold. -/
theorem step_half_lane_local (s : Sys) (l : Label) (u : Nat) (hu : u < s.lanes.length) (ha : actsOn s l = some u) :
    (∀ ob oe, Mutex.outbox u ∉ held s l → step (s.pokeOut u ob oe) l = (step s l).map (·.pokeOut u ob oe)) ∧
    (∀ ib ie, Mutex.inbox u ∉ held s l → step (s.pokeIn u ib ie) l = (step s l).map (·.pokeIn u ib ie)) := by
  cases l with
  | loader =>
    refine ⟨fun ob oe _ => stepLoader_pokeOut s u ob oe hu ha, fun ib ie h => ?_⟩
    simp only [step]
    unfold stepLoader
    have el : (s.pokeIn u ib ie).lpc = s.lpc := rfl
    rw [el]
    cases hl : s.lpc with
    | top => simp [actsOn, hl] at ha
    | haveBuf b => simp [actsOn, hl] at ha
    | drain => simp [actsOn, hl] at ha
    | done => simp [actsOn, hl] at ha
    | put b k =>
      have hk : k % s.U = u := by simpa [actsOn, hl] using ha
      exact absurd (by simp [held, hl, hk]) h
    | eod w =>
      have hw : w = u := by simpa [actsOn, hl] using ha
      subst hw
      have e1 : (s.pokeIn w ib ie).U = s.U := rfl
      simp only [e1]
      by_cases hge : w ≥ s.U
      · simp only [hge, ↓reduceIte, Option.map]; rfl
      · exact absurd (by simp [held, hl, hge]) h
  | unpacker v =>
    have hv : v = u := by simpa [actsOn] using ha
    subst hv
    exact ⟨fun ob oe h => stepUnpacker_pokeOut s v ob oe hu h, fun ib ie h => stepUnpacker_pokeIn s v ib ie hu h⟩
  | read c =>
    have hv : s.nchunk % s.U = u := by simpa [actsOn] using ha
    subst hv
    refine ⟨fun ob oe h => absurd (by simp [held]) h, fun ib ie _ => ?_⟩
    have e : (s.pokeIn (s.nchunk % s.U) ib ie).reader = s.reader := rfl
    simp only [step, e]
    by_cases hr : s.reader.isSome = true
    · simp only [hr, ↓reduceIte, Option.map]
    · simp only [hr, ↓reduceIte, Option.map, Bool.false_eq_true]
      congr 1
      exact readBody_pokeIn s c ib ie hu
  | readWake =>
    have hv : s.nchunk % s.U = u := by simpa [actsOn] using ha
    subst hv
    refine ⟨fun ob oe h => absurd (by simp [held]) h, fun ib ie _ => ?_⟩
    have e : (s.pokeIn (s.nchunk % s.U) ib ie).reader = s.reader := rfl
    simp only [step, e]
    cases s.reader with
    | none => rfl
    | some c => simp only [Option.map]; congr 1; exact readBody_pokeIn s c ib ie hu
  | recycle c b k => simp [actsOn] at ha

end EaselModel.Pipeline
