import EaselModel.Dist.Num
/-! GENERATED on every run by translate/c2lean.py from the working tree's C sources — do not edit.
    Each definition is the C function of the same name, as clang-14 parsed it, over an arbitrary `Num` carrier. -/
set_option linter.unusedVariables false
namespace EaselModel.Dist.Gen
/-- the members of the C parameter structure `ESL_HYPEREXP` that the translated functions use -/
structure ESL_HYPEREXP (α : Type) where
  mu : α
  K : Nat
  q : List α
  lambda : List α
  wrk : List α

/-- the members of the C parameter structure `ESL_MIXGEV` that the translated functions use -/
structure ESL_MIXGEV (α : Type) where
  K : Nat
  q : List α
  mu : List α
  lambda : List α
  alpha : List α
  wrk : List α

open EaselModel.Dist
variable {α : Type} [Add α] [Sub α] [Mul α] [Div α] [Neg α] [OfScientific α] [LT α] [LE α]
  [DecidableLT α] [DecidableLE α] [Num α]

/-- `esl_exp_pdf` (esl_exponential.c:55) -/
def esl_exp_pdf (x mu lambda : α) : α :=
  if (x < mu) then
    0.0
  else
    (lambda * (Num.exp ((-lambda) * (x - mu))))

/-- which `return` of `esl_exp_pdf` is reached (branch monitor; numbered in the order of the translated tree) -/
def esl_exp_pdf_leaf (x mu lambda : α) : Nat :=
  if (x < mu) then
    0
  else
    1


/-- `esl_exp_logpdf` (esl_exponential.c:68) -/
def esl_exp_logpdf (x mu lambda : α) : α :=
  if (x < mu) then
    (-Num.inf)
  else
    if (Num.eqb lambda (Num.inf) = true) then
      if (Num.eqb x mu = true) then
        Num.inf
      else
        (-Num.inf)
    else
      ((Num.log lambda) - (lambda * (x - mu)))

/-- which `return` of `esl_exp_logpdf` is reached (branch monitor; numbered in the order of the translated tree) -/
def esl_exp_logpdf_leaf (x mu lambda : α) : Nat :=
  if (x < mu) then
    0
  else
    if (Num.eqb lambda (Num.inf) = true) then
      if (Num.eqb x mu = true) then
        1
      else
        2
    else
      3


/-- `esl_exp_cdf` (esl_exponential.c:87) -/
def esl_exp_cdf (x mu lambda : α) : α :=
  let y := (lambda * (x - mu))
  if (x < mu) then
    0.0
  else
    if (y < 5.0e-9) then
      y
    else
      (1.0 - (Num.exp (-y)))

/-- which `return` of `esl_exp_cdf` is reached (branch monitor; numbered in the order of the translated tree) -/
def esl_exp_cdf_leaf (x mu lambda : α) : Nat :=
  let y := (lambda * (x - mu))
  if (x < mu) then
    0
  else
    if (y < 5.0e-9) then
      1
    else
      2


/-- `esl_exp_logcdf` (esl_exponential.c:105) -/
def esl_exp_logcdf (x mu lambda : α) : α :=
  let y := (lambda * (x - mu))
  let ey := (Num.exp (-y))
  if (x < mu) then
    (-Num.inf)
  else
    if (Num.eqb y (0.0) = true) then
      (-Num.inf)
    else
      if (y < 5.0e-9) then
        (Num.log y)
      else
        if (ey < 5.0e-9) then
          (-ey)
        else
          (Num.log (1.0 - ey))

/-- which `return` of `esl_exp_logcdf` is reached (branch monitor; numbered in the order of the translated tree) -/
def esl_exp_logcdf_leaf (x mu lambda : α) : Nat :=
  let y := (lambda * (x - mu))
  let ey := (Num.exp (-y))
  if (x < mu) then
    0
  else
    if (Num.eqb y (0.0) = true) then
      1
    else
      if (y < 5.0e-9) then
        2
      else
        if (ey < 5.0e-9) then
          3
        else
          4


/-- `esl_exp_surv` (esl_exponential.c:128) -/
def esl_exp_surv (x mu lambda : α) : α :=
  if (x < mu) then
    1.0
  else
    (Num.exp ((-lambda) * (x - mu)))

/-- which `return` of `esl_exp_surv` is reached (branch monitor; numbered in the order of the translated tree) -/
def esl_exp_surv_leaf (x mu lambda : α) : Nat :=
  if (x < mu) then
    0
  else
    1


/-- `esl_exp_logsurv` (esl_exponential.c:142) -/
def esl_exp_logsurv (x mu lambda : α) : α :=
  if (x < mu) then
    0.0
  else
    ((-lambda) * (x - mu))

/-- which `return` of `esl_exp_logsurv` is reached (branch monitor; numbered in the order of the translated tree) -/
def esl_exp_logsurv_leaf (x mu lambda : α) : Nat :=
  if (x < mu) then
    0
  else
    1


/-- `esl_exp_invcdf` (esl_exponential.c:156) -/
def esl_exp_invcdf (p mu lambda : α) : α :=
  (mu - ((1.0 / lambda) * (Num.log (1.0 - p))))

/-- which `return` of `esl_exp_invcdf` is reached (branch monitor; numbered in the order of the translated tree) -/
def esl_exp_invcdf_leaf (p mu lambda : α) : Nat :=
  0


/-- `esl_exp_invsurv` (esl_exponential.c:170) -/
def esl_exp_invsurv (p mu lambda : α) : α :=
  (mu - ((1.0 / lambda) * (Num.log p)))

/-- which `return` of `esl_exp_invsurv` is reached (branch monitor; numbered in the order of the translated tree) -/
def esl_exp_invsurv_leaf (p mu lambda : α) : Nat :=
  0


/-- `esl_exp_Sample` (esl_exponential.c:275) -/
def esl_exp_Sample (u mu lambda : α) : α :=
  let p := u
  let x := (mu - ((1.0 / lambda) * (Num.log p)))
  x

/-- which `return` of `esl_exp_Sample` is reached (branch monitor; numbered in the order of the translated tree) -/
def esl_exp_Sample_leaf (u mu lambda : α) : Nat :=
  let p := u
  let x := (mu - ((1.0 / lambda) * (Num.log p)))
  0


/-- `esl_exp_generic_pdf` (esl_exponential.c:192) -/
def esl_exp_generic_pdf (x : α) (params : List α) : α :=
  let p := params
  (esl_exp_pdf x (p.getD 0 0.0) (p.getD 1 0.0))

/-- `esl_exp_generic_cdf` (esl_exponential.c:203) -/
def esl_exp_generic_cdf (x : α) (params : List α) : α :=
  let p := params
  (esl_exp_cdf x (p.getD 0 0.0) (p.getD 1 0.0))

/-- `esl_exp_generic_surv` (esl_exponential.c:214) -/
def esl_exp_generic_surv (x : α) (params : List α) : α :=
  let p := params
  (esl_exp_surv x (p.getD 0 0.0) (p.getD 1 0.0))

/-- `esl_exp_generic_invcdf` (esl_exponential.c:225) -/
def esl_exp_generic_invcdf (p : α) (params : List α) : α :=
  let v := params
  (esl_exp_invcdf p (v.getD 0 0.0) (v.getD 1 0.0))

/-- `esl_gumbel_pdf` (esl_gumbel.c:54) -/
def esl_gumbel_pdf (x mu lambda : α) : α :=
  let y := (lambda * (x - mu))
  (lambda * (Num.exp ((-y) - (Num.exp (-y)))))

/-- which `return` of `esl_gumbel_pdf` is reached (branch monitor; numbered in the order of the translated tree) -/
def esl_gumbel_pdf_leaf (x mu lambda : α) : Nat :=
  let y := (lambda * (x - mu))
  0


/-- `esl_gumbel_logpdf` (esl_gumbel.c:73) -/
def esl_gumbel_logpdf (x mu lambda : α) : α :=
  let y := (lambda * (x - mu))
  (((Num.log lambda) - y) - (Num.exp (-y)))

/-- which `return` of `esl_gumbel_logpdf` is reached (branch monitor; numbered in the order of the translated tree) -/
def esl_gumbel_logpdf_leaf (x mu lambda : α) : Nat :=
  let y := (lambda * (x - mu))
  0


/-- `esl_gumbel_cdf` (esl_gumbel.c:92) -/
def esl_gumbel_cdf (x mu lambda : α) : α :=
  let y := (lambda * (x - mu))
  (Num.exp (-(Num.exp (-y))))

/-- which `return` of `esl_gumbel_cdf` is reached (branch monitor; numbered in the order of the translated tree) -/
def esl_gumbel_cdf_leaf (x mu lambda : α) : Nat :=
  let y := (lambda * (x - mu))
  0


/-- `esl_gumbel_logcdf` (esl_gumbel.c:110) -/
def esl_gumbel_logcdf (x mu lambda : α) : α :=
  let y := (lambda * (x - mu))
  (-(Num.exp (-y)))

/-- which `return` of `esl_gumbel_logcdf` is reached (branch monitor; numbered in the order of the translated tree) -/
def esl_gumbel_logcdf_leaf (x mu lambda : α) : Nat :=
  let y := (lambda * (x - mu))
  0


/-- `esl_gumbel_surv` (esl_gumbel.c:129) -/
def esl_gumbel_surv (x mu lambda : α) : α :=
  let y := (lambda * (x - mu))
  let ey := (-(Num.exp (-y)))
  if ((Num.fabs ey) < 5.0e-9) then
    (-ey)
  else
    (1.0 - (Num.exp ey))

/-- which `return` of `esl_gumbel_surv` is reached (branch monitor; numbered in the order of the translated tree) -/
def esl_gumbel_surv_leaf (x mu lambda : α) : Nat :=
  let y := (lambda * (x - mu))
  let ey := (-(Num.exp (-y)))
  if ((Num.fabs ey) < 5.0e-9) then
    0
  else
    1


/-- `esl_gumbel_logsurv` (esl_gumbel.c:150) -/
def esl_gumbel_logsurv (x mu lambda : α) : α :=
  let y := (lambda * (x - mu))
  let ey := (-(Num.exp (-y)))
  if ((Num.fabs ey) < 5.0e-9) then
    (-y)
  else
    if ((Num.fabs (Num.exp ey)) < 5.0e-9) then
      (-(Num.exp ey))
    else
      (Num.log (1.0 - (Num.exp ey)))

/-- which `return` of `esl_gumbel_logsurv` is reached (branch monitor; numbered in the order of the translated tree) -/
def esl_gumbel_logsurv_leaf (x mu lambda : α) : Nat :=
  let y := (lambda * (x - mu))
  let ey := (-(Num.exp (-y)))
  if ((Num.fabs ey) < 5.0e-9) then
    0
  else
    if ((Num.fabs (Num.exp ey)) < 5.0e-9) then
      1
    else
      2


/-- `esl_gumbel_invcdf` (esl_gumbel.c:172) -/
def esl_gumbel_invcdf (p mu lambda : α) : α :=
  (mu - ((Num.log ((-1.0) * (Num.log p))) / lambda))

/-- which `return` of `esl_gumbel_invcdf` is reached (branch monitor; numbered in the order of the translated tree) -/
def esl_gumbel_invcdf_leaf (p mu lambda : α) : Nat :=
  0


/-- `esl_gumbel_invsurv` (esl_gumbel.c:185) -/
def esl_gumbel_invsurv (p mu lambda : α) : α :=
  if (p < 5.0e-9) then
    let log_part := (Num.log p)
    (mu - (log_part / lambda))
  else
    let log_part := (Num.log ((-1.0) * (Num.log (1.0 - p))))
    (mu - (log_part / lambda))

/-- which `return` of `esl_gumbel_invsurv` is reached (branch monitor; numbered in the order of the translated tree) -/
def esl_gumbel_invsurv_leaf (p mu lambda : α) : Nat :=
  if (p < 5.0e-9) then
    let log_part := (Num.log p)
    0
  else
    let log_part := (Num.log ((-1.0) * (Num.log (1.0 - p))))
    1


/-- `esl_gumbel_Sample` (esl_gumbel.c:306) -/
def esl_gumbel_Sample (u mu lambda : α) : α :=
  let p := u
  (esl_gumbel_invcdf p mu lambda)

/-- which `return` of `esl_gumbel_Sample` is reached (branch monitor; numbered in the order of the translated tree) -/
def esl_gumbel_Sample_leaf (u mu lambda : α) : Nat :=
  let p := u
  0


/-- `esl_gumbel_generic_pdf` (esl_gumbel.c:220) -/
def esl_gumbel_generic_pdf (p : α) (params : List α) : α :=
  let v := params
  (esl_gumbel_pdf p (v.getD 0 0.0) (v.getD 1 0.0))

/-- `esl_gumbel_generic_cdf` (esl_gumbel.c:231) -/
def esl_gumbel_generic_cdf (x : α) (params : List α) : α :=
  let p := params
  (esl_gumbel_cdf x (p.getD 0 0.0) (p.getD 1 0.0))

/-- `esl_gumbel_generic_surv` (esl_gumbel.c:242) -/
def esl_gumbel_generic_surv (p : α) (params : List α) : α :=
  let v := params
  (esl_gumbel_surv p (v.getD 0 0.0) (v.getD 1 0.0))

/-- `esl_gumbel_generic_invcdf` (esl_gumbel.c:253) -/
def esl_gumbel_generic_invcdf (p : α) (params : List α) : α :=
  let v := params
  (esl_gumbel_invcdf p (v.getD 0 0.0) (v.getD 1 0.0))

/-- `esl_gev_pdf` (esl_gev.c:64) -/
def esl_gev_pdf (x mu lambda alpha : α) : α :=
  let y := (lambda * (x - mu))
  let ya1 := (1.0 + (alpha * y))
  if ((Num.fabs (y * alpha)) < 1.0e-12) then
    (lambda * (Num.exp ((-y) - (Num.exp (-y)))))
  else
    if (ya1 ≤ 0.0) then
      0.0
    else
      let lya1 := (Num.log1p (alpha * y))
      (lambda * (Num.exp (((-(1.0 + (1.0 / alpha))) * lya1) - (Num.exp ((-lya1) / alpha)))))

/-- which `return` of `esl_gev_pdf` is reached (branch monitor; numbered in the order of the translated tree) -/
def esl_gev_pdf_leaf (x mu lambda alpha : α) : Nat :=
  let y := (lambda * (x - mu))
  let ya1 := (1.0 + (alpha * y))
  if ((Num.fabs (y * alpha)) < 1.0e-12) then
    0
  else
    if (ya1 ≤ 0.0) then
      1
    else
      let lya1 := (Num.log1p (alpha * y))
      2


/-- `esl_gev_logpdf` (esl_gev.c:89) -/
def esl_gev_logpdf (x mu lambda alpha : α) : α :=
  let y := (lambda * (x - mu))
  let ya1 := (1.0 + (alpha * y))
  if ((Num.fabs (y * alpha)) < 1.0e-12) then
    (((Num.log lambda) - y) - (Num.exp (-y)))
  else
    if (ya1 ≤ 0.0) then
      (-Num.inf)
    else
      let lya1 := (Num.log1p (alpha * y))
      (((Num.log lambda) - ((1.0 + (1.0 / alpha)) * lya1)) - (Num.exp ((-lya1) / alpha)))

/-- which `return` of `esl_gev_logpdf` is reached (branch monitor; numbered in the order of the translated tree) -/
def esl_gev_logpdf_leaf (x mu lambda alpha : α) : Nat :=
  let y := (lambda * (x - mu))
  let ya1 := (1.0 + (alpha * y))
  if ((Num.fabs (y * alpha)) < 1.0e-12) then
    0
  else
    if (ya1 ≤ 0.0) then
      1
    else
      let lya1 := (Num.log1p (alpha * y))
      2


/-- `esl_gev_cdf` (esl_gev.c:117) -/
def esl_gev_cdf (x mu lambda alpha : α) : α :=
  let y := (lambda * (x - mu))
  let ya1 := (1.0 + (alpha * y))
  if ((Num.fabs (y * alpha)) < 1.0e-12) then
    (Num.exp (-(Num.exp (-y))))
  else
    if (ya1 ≤ 0.0) then
      if (x < mu) then
        0.0
      else
        1.0
    else
      let lya1 := (Num.log1p (alpha * y))
      (Num.exp (-(Num.exp ((-lya1) / alpha))))

/-- which `return` of `esl_gev_cdf` is reached (branch monitor; numbered in the order of the translated tree) -/
def esl_gev_cdf_leaf (x mu lambda alpha : α) : Nat :=
  let y := (lambda * (x - mu))
  let ya1 := (1.0 + (alpha * y))
  if ((Num.fabs (y * alpha)) < 1.0e-12) then
    0
  else
    if (ya1 ≤ 0.0) then
      if (x < mu) then
        1
      else
        2
    else
      let lya1 := (Num.log1p (alpha * y))
      3


/-- `esl_gev_logcdf` (esl_gev.c:144) -/
def esl_gev_logcdf (x mu lambda alpha : α) : α :=
  let y := (lambda * (x - mu))
  let ya1 := (1.0 + (alpha * y))
  if ((Num.fabs (y * alpha)) < 1.0e-12) then
    (-(Num.exp (-y)))
  else
    if (ya1 ≤ 0.0) then
      if (x < mu) then
        (-Num.inf)
      else
        0.0
    else
      let lya1 := (Num.log1p (alpha * y))
      (-(Num.exp ((-lya1) / alpha)))

/-- which `return` of `esl_gev_logcdf` is reached (branch monitor; numbered in the order of the translated tree) -/
def esl_gev_logcdf_leaf (x mu lambda alpha : α) : Nat :=
  let y := (lambda * (x - mu))
  let ya1 := (1.0 + (alpha * y))
  if ((Num.fabs (y * alpha)) < 1.0e-12) then
    0
  else
    if (ya1 ≤ 0.0) then
      if (x < mu) then
        1
      else
        2
    else
      let lya1 := (Num.log1p (alpha * y))
      3


/-- `esl_gev_surv` (esl_gev.c:170) -/
def esl_gev_surv (x mu lambda alpha : α) : α :=
  let y := (lambda * (x - mu))
  let ya1 := (1.0 + (alpha * y))
  if ((Num.fabs (y * alpha)) < 1.0e-12) then
    (if (((-0.5) * (Num.log (2.2204460492503131e-16))) < y) then (Num.exp (-y)) else (1.0 - (Num.exp (-(Num.exp (-y))))))
  else
    if (ya1 ≤ 0.0) then
      if (x < mu) then
        1.0
      else
        0.0
    else
      let lya1 := ((Num.log1p (alpha * y)) / alpha)
      (if (((-0.5) * (Num.log (2.2204460492503131e-16))) < lya1) then (Num.exp (-lya1)) else (1.0 - (Num.exp (-(Num.exp (-lya1))))))

/-- which `return` of `esl_gev_surv` is reached (branch monitor; numbered in the order of the translated tree) -/
def esl_gev_surv_leaf (x mu lambda alpha : α) : Nat :=
  let y := (lambda * (x - mu))
  let ya1 := (1.0 + (alpha * y))
  if ((Num.fabs (y * alpha)) < 1.0e-12) then
    0
  else
    if (ya1 ≤ 0.0) then
      if (x < mu) then
        1
      else
        2
    else
      let lya1 := ((Num.log1p (alpha * y)) / alpha)
      3


/-- `esl_gev_logsurv` (esl_gev.c:198) -/
def esl_gev_logsurv (x mu lambda alpha : α) : α :=
  let y := (lambda * (x - mu))
  let ya1 := (1.0 + (alpha * y))
  if ((Num.fabs (y * alpha)) < 1.0e-12) then
    if (((-0.5) * (Num.log (2.2204460492503131e-16))) < y) then
      (-y)
    else
      if (y < (-2.9)) then
        (-(Num.exp (-(Num.exp (-y)))))
      else
        (Num.log (1.0 - (Num.exp (-(Num.exp (-y))))))
  else
    if (ya1 ≤ 0.0) then
      if (x < mu) then
        0.0
      else
        (-Num.inf)
    else
      let lya1 := ((Num.log1p (alpha * y)) / alpha)
      if (((-0.5) * (Num.log (2.2204460492503131e-16))) < lya1) then
        (-lya1)
      else
        if (lya1 < (-2.9)) then
          (-(Num.exp (-(Num.exp (-lya1)))))
        else
          (Num.log (1.0 - (Num.exp (-(Num.exp (-lya1))))))

/-- which `return` of `esl_gev_logsurv` is reached (branch monitor; numbered in the order of the translated tree) -/
def esl_gev_logsurv_leaf (x mu lambda alpha : α) : Nat :=
  let y := (lambda * (x - mu))
  let ya1 := (1.0 + (alpha * y))
  if ((Num.fabs (y * alpha)) < 1.0e-12) then
    if (((-0.5) * (Num.log (2.2204460492503131e-16))) < y) then
      0
    else
      if (y < (-2.9)) then
        1
      else
        2
  else
    if (ya1 ≤ 0.0) then
      if (x < mu) then
        3
      else
        4
    else
      let lya1 := ((Num.log1p (alpha * y)) / alpha)
      if (((-0.5) * (Num.log (2.2204460492503131e-16))) < lya1) then
        5
      else
        if (lya1 < (-2.9)) then
          6
        else
          7


/-- `esl_gev_invcdf` (esl_gev.c:234) -/
def esl_gev_invcdf (p mu lambda alpha : α) : α :=
  if ((Num.fabs alpha) < 1.0e-12) then
    (mu - ((Num.log ((-1.0) * (Num.log p))) / lambda))
  else
    (mu + ((Num.expm1 ((-alpha) * (Num.log (-(Num.log p))))) / (alpha * lambda)))

/-- which `return` of `esl_gev_invcdf` is reached (branch monitor; numbered in the order of the translated tree) -/
def esl_gev_invcdf_leaf (p mu lambda alpha : α) : Nat :=
  if ((Num.fabs alpha) < 1.0e-12) then
    0
  else
    1


/-- `esl_gev_Sample` (esl_gev.c:336) -/
def esl_gev_Sample (u mu lambda alpha : α) : α :=
  let p := u
  (esl_gev_invcdf p mu lambda alpha)

/-- which `return` of `esl_gev_Sample` is reached (branch monitor; numbered in the order of the translated tree) -/
def esl_gev_Sample_leaf (u mu lambda alpha : α) : Nat :=
  let p := u
  0


/-- `esl_gev_generic_pdf` (esl_gev.c:254) -/
def esl_gev_generic_pdf (x : α) (params : List α) : α :=
  let p := params
  (esl_gev_pdf x (p.getD 0 0.0) (p.getD 1 0.0) (p.getD 2 0.0))

/-- `esl_gev_generic_cdf` (esl_gev.c:265) -/
def esl_gev_generic_cdf (x : α) (params : List α) : α :=
  let p := params
  (esl_gev_cdf x (p.getD 0 0.0) (p.getD 1 0.0) (p.getD 2 0.0))

/-- `esl_gev_generic_surv` (esl_gev.c:276) -/
def esl_gev_generic_surv (x : α) (params : List α) : α :=
  let p := params
  (esl_gev_surv x (p.getD 0 0.0) (p.getD 1 0.0) (p.getD 2 0.0))

/-- `esl_gev_generic_invcdf` (esl_gev.c:287) -/
def esl_gev_generic_invcdf (p : α) (params : List α) : α :=
  let v := params
  (esl_gev_invcdf p (v.getD 0 0.0) (v.getD 1 0.0) (v.getD 2 0.0))

/-- `esl_wei_pdf` (esl_weibull.c:52) -/
def esl_wei_pdf (x mu lambda tau : α) : α :=
  let y := (lambda * (x - mu))
  if (x < mu) then
    0.0
  else
    if (Num.eqb x mu = true) then
      if (tau < 1.0) then
        Num.inf
      else
        if (1.0 < tau) then
          0.0
        else
          if (Num.eqb tau (1.0) = true) then
            lambda
          else
            let val := (((lambda * tau) * (Num.exp ((tau - 1.0) * (Num.log y)))) * (Num.exp (-(Num.exp (tau * (Num.log y))))))
            val
    else
      let val := (((lambda * tau) * (Num.exp ((tau - 1.0) * (Num.log y)))) * (Num.exp (-(Num.exp (tau * (Num.log y))))))
      val

/-- which `return` of `esl_wei_pdf` is reached (branch monitor; numbered in the order of the translated tree) -/
def esl_wei_pdf_leaf (x mu lambda tau : α) : Nat :=
  let y := (lambda * (x - mu))
  if (x < mu) then
    0
  else
    if (Num.eqb x mu = true) then
      if (tau < 1.0) then
        1
      else
        if (1.0 < tau) then
          2
        else
          if (Num.eqb tau (1.0) = true) then
            3
          else
            let val := (((lambda * tau) * (Num.exp ((tau - 1.0) * (Num.log y)))) * (Num.exp (-(Num.exp (tau * (Num.log y))))))
            4
    else
      let val := (((lambda * tau) * (Num.exp ((tau - 1.0) * (Num.log y)))) * (Num.exp (-(Num.exp (tau * (Num.log y))))))
      5


/-- `esl_wei_logpdf` (esl_weibull.c:77) -/
def esl_wei_logpdf (x mu lambda tau : α) : α :=
  let y := (lambda * (x - mu))
  if (x < mu) then
    (-Num.inf)
  else
    if (Num.eqb x mu = true) then
      if (tau < 1.0) then
        Num.inf
      else
        if (1.0 < tau) then
          (-Num.inf)
        else
          if (Num.eqb tau (1.0) = true) then
            (Num.log lambda)
          else
            let val := ((((Num.log tau) + (tau * (Num.log lambda))) + ((tau - 1.0) * (Num.log (x - mu)))) - (Num.exp (tau * (Num.log y))))
            val
    else
      let val := ((((Num.log tau) + (tau * (Num.log lambda))) + ((tau - 1.0) * (Num.log (x - mu)))) - (Num.exp (tau * (Num.log y))))
      val

/-- which `return` of `esl_wei_logpdf` is reached (branch monitor; numbered in the order of the translated tree) -/
def esl_wei_logpdf_leaf (x mu lambda tau : α) : Nat :=
  let y := (lambda * (x - mu))
  if (x < mu) then
    0
  else
    if (Num.eqb x mu = true) then
      if (tau < 1.0) then
        1
      else
        if (1.0 < tau) then
          2
        else
          if (Num.eqb tau (1.0) = true) then
            3
          else
            let val := ((((Num.log tau) + (tau * (Num.log lambda))) + ((tau - 1.0) * (Num.log (x - mu)))) - (Num.exp (tau * (Num.log y))))
            4
    else
      let val := ((((Num.log tau) + (tau * (Num.log lambda))) + ((tau - 1.0) * (Num.log (x - mu)))) - (Num.exp (tau * (Num.log y))))
      5


/-- `esl_wei_cdf` (esl_weibull.c:100) -/
def esl_wei_cdf (x mu lambda tau : α) : α :=
  let y := (lambda * (x - mu))
  let tly := (tau * (Num.log y))
  if (x ≤ mu) then
    0.0
  else
    if ((Num.exp tly) < 5.0e-9) then
      (Num.exp tly)
    else
      (1.0 - (Num.exp (-(Num.exp tly))))

/-- which `return` of `esl_wei_cdf` is reached (branch monitor; numbered in the order of the translated tree) -/
def esl_wei_cdf_leaf (x mu lambda tau : α) : Nat :=
  let y := (lambda * (x - mu))
  let tly := (tau * (Num.log y))
  if (x ≤ mu) then
    0
  else
    if ((Num.exp tly) < 5.0e-9) then
      1
    else
      2


/-- `esl_wei_logcdf` (esl_weibull.c:117) -/
def esl_wei_logcdf (x mu lambda tau : α) : α :=
  let y := (lambda * (x - mu))
  let tly := (tau * (Num.log y))
  if (x ≤ mu) then
    (-Num.inf)
  else
    if ((Num.exp tly) < 5.0e-9) then
      tly
    else
      if ((Num.fabs (Num.exp (-(Num.exp tly)))) < 5.0e-9) then
        (-(Num.exp (-(Num.exp tly))))
      else
        (Num.log (1.0 - (Num.exp (-(Num.exp tly)))))

/-- which `return` of `esl_wei_logcdf` is reached (branch monitor; numbered in the order of the translated tree) -/
def esl_wei_logcdf_leaf (x mu lambda tau : α) : Nat :=
  let y := (lambda * (x - mu))
  let tly := (tau * (Num.log y))
  if (x ≤ mu) then
    0
  else
    if ((Num.exp tly) < 5.0e-9) then
      1
    else
      if ((Num.fabs (Num.exp (-(Num.exp tly)))) < 5.0e-9) then
        2
      else
        3


/-- `esl_wei_surv` (esl_weibull.c:138) -/
def esl_wei_surv (x mu lambda tau : α) : α :=
  let y := (lambda * (x - mu))
  let tly := (tau * (Num.log y))
  if (x ≤ mu) then
    1.0
  else
    (Num.exp (-(Num.exp tly)))

/-- which `return` of `esl_wei_surv` is reached (branch monitor; numbered in the order of the translated tree) -/
def esl_wei_surv_leaf (x mu lambda tau : α) : Nat :=
  let y := (lambda * (x - mu))
  let tly := (tau * (Num.log y))
  if (x ≤ mu) then
    0
  else
    1


/-- `esl_wei_logsurv` (esl_weibull.c:156) -/
def esl_wei_logsurv (x mu lambda tau : α) : α :=
  let y := (lambda * (x - mu))
  let tly := (tau * (Num.log y))
  if (x ≤ mu) then
    0.0
  else
    (-(Num.exp tly))

/-- which `return` of `esl_wei_logsurv` is reached (branch monitor; numbered in the order of the translated tree) -/
def esl_wei_logsurv_leaf (x mu lambda tau : α) : Nat :=
  let y := (lambda * (x - mu))
  let tly := (tau * (Num.log y))
  if (x ≤ mu) then
    0
  else
    1


/-- `esl_wei_invcdf` (esl_weibull.c:173) -/
def esl_wei_invcdf (p mu lambda tau : α) : α :=
  (mu + ((1.0 / lambda) * (Num.exp ((1.0 / tau) * (Num.log (-(Num.log (1.0 - p))))))))

/-- which `return` of `esl_wei_invcdf` is reached (branch monitor; numbered in the order of the translated tree) -/
def esl_wei_invcdf_leaf (p mu lambda tau : α) : Nat :=
  0


/-- `esl_wei_Sample` (esl_weibull.c:284) -/
def esl_wei_Sample (u mu lambda tau : α) : α :=
  let p := u
  (esl_wei_invcdf p mu lambda tau)

/-- which `return` of `esl_wei_Sample` is reached (branch monitor; numbered in the order of the translated tree) -/
def esl_wei_Sample_leaf (u mu lambda tau : α) : Nat :=
  let p := u
  0


/-- `esl_wei_generic_pdf` (esl_weibull.c:193) -/
def esl_wei_generic_pdf (x : α) (params : List α) : α :=
  let p := params
  (esl_wei_pdf x (p.getD 0 0.0) (p.getD 1 0.0) (p.getD 2 0.0))

/-- `esl_wei_generic_cdf` (esl_weibull.c:206) -/
def esl_wei_generic_cdf (x : α) (params : List α) : α :=
  let p := params
  (esl_wei_cdf x (p.getD 0 0.0) (p.getD 1 0.0) (p.getD 2 0.0))

/-- `esl_wei_generic_surv` (esl_weibull.c:219) -/
def esl_wei_generic_surv (x : α) (params : List α) : α :=
  let p := params
  (esl_wei_surv x (p.getD 0 0.0) (p.getD 1 0.0) (p.getD 2 0.0))

/-- `esl_wei_generic_invcdf` (esl_weibull.c:232) -/
def esl_wei_generic_invcdf (p : α) (params : List α) : α :=
  let v := params
  (esl_wei_invcdf p (v.getD 0 0.0) (v.getD 1 0.0) (v.getD 2 0.0))

/-- `esl_sxp_pdf` (esl_stretchexp.c:51) -/
def esl_sxp_pdf (x mu lambda tau : α) : α :=
  let y := (lambda * (x - mu))
  if (x < mu) then
    0.0
  else
    let gt := Num.logGamma (1.0 / tau)
    if (Num.eqb x mu = true) then
      let val := ((lambda * tau) / (Num.exp gt))
      val
    else
      let val := (((lambda * tau) / (Num.exp gt)) * (Num.exp (-(Num.exp (tau * (Num.log y))))))
      val

/-- which `return` of `esl_sxp_pdf` is reached (branch monitor; numbered in the order of the translated tree) -/
def esl_sxp_pdf_leaf (x mu lambda tau : α) : Nat :=
  let y := (lambda * (x - mu))
  if (x < mu) then
    0
  else
    let gt := Num.logGamma (1.0 / tau)
    if (Num.eqb x mu = true) then
      let val := ((lambda * tau) / (Num.exp gt))
      1
    else
      let val := (((lambda * tau) / (Num.exp gt)) * (Num.exp (-(Num.exp (tau * (Num.log y))))))
      2


/-- `esl_sxp_logpdf` (esl_stretchexp.c:73) -/
def esl_sxp_logpdf (x mu lambda tau : α) : α :=
  let y := (lambda * (x - mu))
  if (x < mu) then
    (-Num.inf)
  else
    let gt := Num.logGamma (1.0 / tau)
    if (Num.eqb x mu = true) then
      let val := (((Num.log lambda) + (Num.log tau)) - gt)
      val
    else
      let val := ((((Num.log lambda) + (Num.log tau)) - gt) - (Num.exp (tau * (Num.log y))))
      val

/-- which `return` of `esl_sxp_logpdf` is reached (branch monitor; numbered in the order of the translated tree) -/
def esl_sxp_logpdf_leaf (x mu lambda tau : α) : Nat :=
  let y := (lambda * (x - mu))
  if (x < mu) then
    0
  else
    let gt := Num.logGamma (1.0 / tau)
    if (Num.eqb x mu = true) then
      let val := (((Num.log lambda) + (Num.log tau)) - gt)
      1
    else
      let val := ((((Num.log lambda) + (Num.log tau)) - gt) - (Num.exp (tau * (Num.log y))))
      2


/-- `esl_sxp_cdf` (esl_stretchexp.c:94) -/
def esl_sxp_cdf (x mu lambda tau : α) : α :=
  let y := (lambda * (x - mu))
  if (x ≤ mu) then
    0.0
  else
    let val := Num.incGammaP (1.0 / tau) (Num.exp (tau * (Num.log y)))
    val

/-- which `return` of `esl_sxp_cdf` is reached (branch monitor; numbered in the order of the translated tree) -/
def esl_sxp_cdf_leaf (x mu lambda tau : α) : Nat :=
  let y := (lambda * (x - mu))
  if (x ≤ mu) then
    0
  else
    let val := Num.incGammaP (1.0 / tau) (Num.exp (tau * (Num.log y)))
    1


/-- `esl_sxp_logcdf` (esl_stretchexp.c:113) -/
def esl_sxp_logcdf (x mu lambda tau : α) : α :=
  let y := (lambda * (x - mu))
  if (x ≤ mu) then
    (-Num.inf)
  else
    let val := Num.incGammaP (1.0 / tau) (Num.exp (tau * (Num.log y)))
    (Num.log val)

/-- which `return` of `esl_sxp_logcdf` is reached (branch monitor; numbered in the order of the translated tree) -/
def esl_sxp_logcdf_leaf (x mu lambda tau : α) : Nat :=
  let y := (lambda * (x - mu))
  if (x ≤ mu) then
    0
  else
    let val := Num.incGammaP (1.0 / tau) (Num.exp (tau * (Num.log y)))
    1


/-- `esl_sxp_surv` (esl_stretchexp.c:130) -/
def esl_sxp_surv (x mu lambda tau : α) : α :=
  let y := (lambda * (x - mu))
  if (x ≤ mu) then
    1.0
  else
    let val := Num.incGammaQ (1.0 / tau) (Num.exp (tau * (Num.log y)))
    val

/-- which `return` of `esl_sxp_surv` is reached (branch monitor; numbered in the order of the translated tree) -/
def esl_sxp_surv_leaf (x mu lambda tau : α) : Nat :=
  let y := (lambda * (x - mu))
  if (x ≤ mu) then
    0
  else
    let val := Num.incGammaQ (1.0 / tau) (Num.exp (tau * (Num.log y)))
    1


/-- `esl_sxp_logsurv` (esl_stretchexp.c:148) -/
def esl_sxp_logsurv (x mu lambda tau : α) : α :=
  let y := (lambda * (x - mu))
  if (x ≤ mu) then
    0.0
  else
    let val := Num.incGammaQ (1.0 / tau) (Num.exp (tau * (Num.log y)))
    (Num.log val)

/-- which `return` of `esl_sxp_logsurv` is reached (branch monitor; numbered in the order of the translated tree) -/
def esl_sxp_logsurv_leaf (x mu lambda tau : α) : Nat :=
  let y := (lambda * (x - mu))
  if (x ≤ mu) then
    0
  else
    let val := Num.incGammaQ (1.0 / tau) (Num.exp (tau * (Num.log y)))
    1


/-- `esl_sxp_invcdf`: the code after loop 2 (line 186) -/
def esl_sxp_invcdf_exit2 (fuel : Nat) (p mu lambda tau tol x1 x2 : α) : Option α :=
  let xm := ((x1 + x2) / 2.0)
  some xm

/-- `esl_sxp_invcdf`: do-while loop 2 (line 186); `gas` counts the iterations still allowed, `none` = exhausted -/
def esl_sxp_invcdf_loop2 (fuel : Nat) (p mu lambda tau tol x1 x2 : α) : Nat → Option α
  | 0 => none
  | gas + 1 =>
    let xm := ((x1 + x2) / 2.0)
    if ((xm ≤ x1) ∨ (x2 ≤ xm)) then
      esl_sxp_invcdf_exit2 fuel p mu lambda tau tol x1 x2
    else
      let fm := (esl_sxp_cdf xm mu lambda tau)
      if (p < fm) then
        let x2 := xm
        if (tol < ((x2 - x1) / ((x1 + x2) - (2.0 * mu)))) then
          esl_sxp_invcdf_loop2 fuel p mu lambda tau tol x1 x2 gas
        else
          esl_sxp_invcdf_exit2 fuel p mu lambda tau tol x1 x2
      else
        if (fm < p) then
          let x1 := xm
          if (tol < ((x2 - x1) / ((x1 + x2) - (2.0 * mu)))) then
            esl_sxp_invcdf_loop2 fuel p mu lambda tau tol x1 x2 gas
          else
            esl_sxp_invcdf_exit2 fuel p mu lambda tau tol x1 x2
        else
          some xm

/-- `esl_sxp_invcdf`: the code after loop 1 (line 181) -/
def esl_sxp_invcdf_exit1 (fuel : Nat) (p mu lambda tau tol x1 x2 : α) : Option α :=
  esl_sxp_invcdf_loop2 fuel p mu lambda tau tol x1 x2 fuel

/-- `esl_sxp_invcdf`: do-while loop 1 (line 181); `gas` counts the iterations still allowed, `none` = exhausted -/
def esl_sxp_invcdf_loop1 (fuel : Nat) (p mu lambda tau tol x1 x2 : α) : Nat → Option α
  | 0 => none
  | gas + 1 =>
    let x2 := (x2 + (2.0 * (x2 - x1)))
    let f2 := (esl_sxp_cdf x2 mu lambda tau)
    if (f2 < p) then
      esl_sxp_invcdf_loop1 fuel p mu lambda tau tol x1 x2 gas
    else
      esl_sxp_invcdf_exit1 fuel p mu lambda tau tol x1 x2

/-- `esl_sxp_invcdf` (esl_stretchexp.c:173) -/
def esl_sxp_invcdf (fuel : Nat) (p mu lambda tau : α) : Option α :=
  let tol := 1.0e-6
  let x1 := mu
  let x2 := (mu + 1.0)
  esl_sxp_invcdf_loop1 fuel p mu lambda tau tol x1 x2 fuel

/-- `esl_sxp_Sample` (esl_stretchexp.c:304); `u` = the variate `esl_rnd_Gamma(r, …)` yields -/
def esl_sxp_Sample (u mu lambda tau : α) : α :=
  let t := u
  let x := (mu + ((1.0 / lambda) * (Num.exp ((1.0 / tau) * (Num.log t)))))
  x

/-- which `return` of `esl_sxp_Sample` is reached (branch monitor; numbered in the order of the translated tree) -/
def esl_sxp_Sample_leaf (u mu lambda tau : α) : Nat :=
  let t := u
  let x := (mu + ((1.0 / lambda) * (Num.exp ((1.0 / tau) * (Num.log t)))))
  0

/-- the arguments `esl_sxp_Sample` passes to `esl_rnd_Gamma(r, …)` -/
def esl_sxp_Sample_draw (mu lambda tau : α) : List α :=
  [(1.0 / tau)]


/-- `esl_sxp_generic_pdf` (esl_stretchexp.c:215) -/
def esl_sxp_generic_pdf (x : α) (params : List α) : α :=
  let p := params
  (esl_sxp_pdf x (p.getD 0 0.0) (p.getD 1 0.0) (p.getD 2 0.0))

/-- `esl_sxp_generic_cdf` (esl_stretchexp.c:228) -/
def esl_sxp_generic_cdf (x : α) (params : List α) : α :=
  let p := params
  (esl_sxp_cdf x (p.getD 0 0.0) (p.getD 1 0.0) (p.getD 2 0.0))

/-- `esl_sxp_generic_surv` (esl_stretchexp.c:241) -/
def esl_sxp_generic_surv (x : α) (params : List α) : α :=
  let p := params
  (esl_sxp_surv x (p.getD 0 0.0) (p.getD 1 0.0) (p.getD 2 0.0))

/-- `esl_sxp_generic_invcdf` (esl_stretchexp.c:254) -/
def esl_sxp_generic_invcdf (fuel : Nat) (p : α) (params : List α) : Option α :=
  let v := params
  esl_sxp_invcdf fuel p (v.getD 0 0.0) (v.getD 1 0.0) (v.getD 2 0.0)

/-- `esl_gam_pdf` (esl_gamma.c:49) -/
def esl_gam_pdf (x mu lambda tau : α) : α :=
  let y := (lambda * (x - mu))
  if (y < 0.0) then
    0.0
  else
    if (Num.eqb x mu = true) then
      if (tau < 1.0) then
        Num.inf
      else
        if (1.0 < tau) then
          0.0
        else
          if (Num.eqb tau (1.0) = true) then
            lambda
          else
            let gamtau := Num.logGamma tau
            let val := ((((tau * (Num.log lambda)) + ((tau - 1.0) * (Num.log (x - mu)))) - gamtau) - y)
            (Num.exp val)
    else
      let gamtau := Num.logGamma tau
      let val := ((((tau * (Num.log lambda)) + ((tau - 1.0) * (Num.log (x - mu)))) - gamtau) - y)
      (Num.exp val)

/-- which `return` of `esl_gam_pdf` is reached (branch monitor; numbered in the order of the translated tree) -/
def esl_gam_pdf_leaf (x mu lambda tau : α) : Nat :=
  let y := (lambda * (x - mu))
  if (y < 0.0) then
    0
  else
    if (Num.eqb x mu = true) then
      if (tau < 1.0) then
        1
      else
        if (1.0 < tau) then
          2
        else
          if (Num.eqb tau (1.0) = true) then
            3
          else
            let gamtau := Num.logGamma tau
            let val := ((((tau * (Num.log lambda)) + ((tau - 1.0) * (Num.log (x - mu)))) - gamtau) - y)
            4
    else
      let gamtau := Num.logGamma tau
      let val := ((((tau * (Num.log lambda)) + ((tau - 1.0) * (Num.log (x - mu)))) - gamtau) - y)
      5


/-- `esl_gam_logpdf` (esl_gamma.c:76) -/
def esl_gam_logpdf (x mu lambda tau : α) : α :=
  let y := (lambda * (x - mu))
  if (y < 0.0) then
    (-Num.inf)
  else
    if (Num.eqb x mu = true) then
      if (tau < 1.0) then
        Num.inf
      else
        if (1.0 < tau) then
          (-Num.inf)
        else
          if (Num.eqb tau (1.0) = true) then
            (Num.log lambda)
          else
            let gamtau := Num.logGamma tau
            let val := ((((tau * (Num.log lambda)) + ((tau - 1.0) * (Num.log (x - mu)))) - gamtau) - y)
            val
    else
      let gamtau := Num.logGamma tau
      let val := ((((tau * (Num.log lambda)) + ((tau - 1.0) * (Num.log (x - mu)))) - gamtau) - y)
      val

/-- which `return` of `esl_gam_logpdf` is reached (branch monitor; numbered in the order of the translated tree) -/
def esl_gam_logpdf_leaf (x mu lambda tau : α) : Nat :=
  let y := (lambda * (x - mu))
  if (y < 0.0) then
    0
  else
    if (Num.eqb x mu = true) then
      if (tau < 1.0) then
        1
      else
        if (1.0 < tau) then
          2
        else
          if (Num.eqb tau (1.0) = true) then
            3
          else
            let gamtau := Num.logGamma tau
            let val := ((((tau * (Num.log lambda)) + ((tau - 1.0) * (Num.log (x - mu)))) - gamtau) - y)
            4
    else
      let gamtau := Num.logGamma tau
      let val := ((((tau * (Num.log lambda)) + ((tau - 1.0) * (Num.log (x - mu)))) - gamtau) - y)
      5


/-- `esl_gam_cdf` (esl_gamma.c:106) -/
def esl_gam_cdf (x mu lambda tau : α) : α :=
  let y := (lambda * (x - mu))
  if (y ≤ 0.0) then
    0.0
  else
    let val := Num.incGammaP tau y
    val

/-- which `return` of `esl_gam_cdf` is reached (branch monitor; numbered in the order of the translated tree) -/
def esl_gam_cdf_leaf (x mu lambda tau : α) : Nat :=
  let y := (lambda * (x - mu))
  if (y ≤ 0.0) then
    0
  else
    let val := Num.incGammaP tau y
    1


/-- `esl_gam_logcdf` (esl_gamma.c:125) -/
def esl_gam_logcdf (x mu lambda tau : α) : α :=
  let y := (lambda * (x - mu))
  if (y ≤ 0.0) then
    (-Num.inf)
  else
    let val := Num.incGammaP tau y
    (Num.log val)

/-- which `return` of `esl_gam_logcdf` is reached (branch monitor; numbered in the order of the translated tree) -/
def esl_gam_logcdf_leaf (x mu lambda tau : α) : Nat :=
  let y := (lambda * (x - mu))
  if (y ≤ 0.0) then
    0
  else
    let val := Num.incGammaP tau y
    1


/-- `esl_gam_surv` (esl_gamma.c:143) -/
def esl_gam_surv (x mu lambda tau : α) : α :=
  let y := (lambda * (x - mu))
  if (y ≤ 0.0) then
    1.0
  else
    let val := Num.incGammaQ tau y
    val

/-- which `return` of `esl_gam_surv` is reached (branch monitor; numbered in the order of the translated tree) -/
def esl_gam_surv_leaf (x mu lambda tau : α) : Nat :=
  let y := (lambda * (x - mu))
  if (y ≤ 0.0) then
    0
  else
    let val := Num.incGammaQ tau y
    1


/-- `esl_gam_logsurv` (esl_gamma.c:166) -/
def esl_gam_logsurv (x mu lambda tau : α) : α :=
  let y := (lambda * (x - mu))
  if (y ≤ 0.0) then
    0.0
  else
    let val := Num.incGammaQ tau y
    (Num.log val)

/-- which `return` of `esl_gam_logsurv` is reached (branch monitor; numbered in the order of the translated tree) -/
def esl_gam_logsurv_leaf (x mu lambda tau : α) : Nat :=
  let y := (lambda * (x - mu))
  if (y ≤ 0.0) then
    0
  else
    let val := Num.incGammaQ tau y
    1


/-- `esl_gam_invcdf`: the code after loop 2 (line 203) -/
def esl_gam_invcdf_exit2 (fuel : Nat) (p mu lambda tau tol x1 x2 : α) : Option α :=
  let xm := ((x1 + x2) / 2.0)
  some xm

/-- `esl_gam_invcdf`: do-while loop 2 (line 203); `gas` counts the iterations still allowed, `none` = exhausted -/
def esl_gam_invcdf_loop2 (fuel : Nat) (p mu lambda tau tol x1 x2 : α) : Nat → Option α
  | 0 => none
  | gas + 1 =>
    let xm := ((x1 + x2) / 2.0)
    if ((xm ≤ x1) ∨ (x2 ≤ xm)) then
      esl_gam_invcdf_exit2 fuel p mu lambda tau tol x1 x2
    else
      let fm := (esl_gam_cdf xm mu lambda tau)
      if (p < fm) then
        let x2 := xm
        if (tol < ((x2 - x1) / ((x1 + x2) - (2.0 * mu)))) then
          esl_gam_invcdf_loop2 fuel p mu lambda tau tol x1 x2 gas
        else
          esl_gam_invcdf_exit2 fuel p mu lambda tau tol x1 x2
      else
        if (fm < p) then
          let x1 := xm
          if (tol < ((x2 - x1) / ((x1 + x2) - (2.0 * mu)))) then
            esl_gam_invcdf_loop2 fuel p mu lambda tau tol x1 x2 gas
          else
            esl_gam_invcdf_exit2 fuel p mu lambda tau tol x1 x2
        else
          some xm

/-- `esl_gam_invcdf`: the code after loop 1 (line 197) -/
def esl_gam_invcdf_exit1 (fuel : Nat) (p mu lambda tau tol x1 x2 : α) : Option α :=
  let x2 := (x2 + mu)
  esl_gam_invcdf_loop2 fuel p mu lambda tau tol x1 x2 fuel

/-- `esl_gam_invcdf`: do-while loop 1 (line 197); `gas` counts the iterations still allowed, `none` = exhausted -/
def esl_gam_invcdf_loop1 (fuel : Nat) (p mu lambda tau tol x1 x2 : α) : Nat → Option α
  | 0 => none
  | gas + 1 =>
    let x2 := (x2 * 2.0)
    let f2 := (esl_gam_cdf (mu + x2) mu lambda tau)
    if (f2 < p) then
      esl_gam_invcdf_loop1 fuel p mu lambda tau tol x1 x2 gas
    else
      esl_gam_invcdf_exit1 fuel p mu lambda tau tol x1 x2

/-- `esl_gam_invcdf` (esl_gamma.c:189) -/
def esl_gam_invcdf (fuel : Nat) (p mu lambda tau : α) : Option α :=
  let tol := 1.0e-6
  let x1 := mu
  let x2 := (tau / lambda)
  esl_gam_invcdf_loop1 fuel p mu lambda tau tol x1 x2 fuel

/-- `esl_gam_Sample`: the code after loop 1 (line 324) -/
def esl_gam_Sample_exit1 (fuel : Nat) (u : Nat → α) (mu lambda tau x : α) : Option α :=
  some x

/-- `esl_gam_Sample`: do-while loop 1 (line 324); `gas` counts the iterations still allowed, `none` = exhausted -/
def esl_gam_Sample_loop1 (fuel : Nat) (u : Nat → α) (mu lambda tau : α) : Nat → Option α
  | 0 => none
  | gas + 1 =>
    let x := (u (fuel - (gas + 1)))
    let x := (mu + (x / lambda))
    if (Num.eqb x mu = true) then
      esl_gam_Sample_loop1 fuel u mu lambda tau gas
    else
      esl_gam_Sample_exit1 fuel u mu lambda tau x

/-- `esl_gam_Sample` (esl_gamma.c:320); `u i` = the variate the i-th call `esl_rnd_Gamma(r, …)` yields (stream; `none` = fuel exhausted, the loop would draw again) -/
def esl_gam_Sample (fuel : Nat) (u : Nat → α) (mu lambda tau : α) : Option α :=
  esl_gam_Sample_loop1 fuel u mu lambda tau fuel

/-- the arguments `esl_gam_Sample` passes to `esl_rnd_Gamma(r, …)` -/
def esl_gam_Sample_draw (mu lambda tau : α) : List α :=
  [tau]


/-- `esl_gam_generic_pdf` (esl_gamma.c:232) -/
def esl_gam_generic_pdf (x : α) (params : List α) : α :=
  let p := params
  (esl_gam_pdf x (p.getD 0 0.0) (p.getD 1 0.0) (p.getD 2 0.0))

/-- `esl_gam_generic_cdf` (esl_gamma.c:246) -/
def esl_gam_generic_cdf (x : α) (params : List α) : α :=
  let p := params
  (esl_gam_cdf x (p.getD 0 0.0) (p.getD 1 0.0) (p.getD 2 0.0))

/-- `esl_gam_generic_surv` (esl_gamma.c:260) -/
def esl_gam_generic_surv (x : α) (params : List α) : α :=
  let p := params
  (esl_gam_surv x (p.getD 0 0.0) (p.getD 1 0.0) (p.getD 2 0.0))

/-- `esl_gam_generic_invcdf` (esl_gamma.c:274) -/
def esl_gam_generic_invcdf (fuel : Nat) (x : α) (params : List α) : Option α :=
  let p := params
  esl_gam_invcdf fuel x (p.getD 0 0.0) (p.getD 1 0.0) (p.getD 2 0.0)

/-- `esl_normal_pdf` (esl_normal.c:53) -/
def esl_normal_pdf (x mu sigma : α) : α :=
  let z := ((x - mu) / sigma)
  ((Num.exp (((-z) * z) * 0.5)) / (sigma * (Num.sqrt (2.0 * 3.14159265358979323846264338328))))

/-- which `return` of `esl_normal_pdf` is reached (branch monitor; numbered in the order of the translated tree) -/
def esl_normal_pdf_leaf (x mu sigma : α) : Nat :=
  let z := ((x - mu) / sigma)
  0


/-- `esl_normal_logpdf` (esl_normal.c:71) -/
def esl_normal_logpdf (x mu sigma : α) : α :=
  let z := ((x - mu) / sigma)
  (((((-z) * z) * 0.5) - (Num.log sigma)) - (Num.log (Num.sqrt (2.0 * 3.14159265358979323846264338328))))

/-- which `return` of `esl_normal_logpdf` is reached (branch monitor; numbered in the order of the translated tree) -/
def esl_normal_logpdf_leaf (x mu sigma : α) : Nat :=
  let z := ((x - mu) / sigma)
  0


/-- `esl_normal_cdf` (esl_normal.c:89) -/
def esl_normal_cdf (x mu sigma : α) : α :=
  let z := ((x - mu) / sigma)
  (0.5 * (Num.erfc (((-1.0) * z) / (Num.sqrt 2.0))))

/-- which `return` of `esl_normal_cdf` is reached (branch monitor; numbered in the order of the translated tree) -/
def esl_normal_cdf_leaf (x mu sigma : α) : Nat :=
  let z := ((x - mu) / sigma)
  0


/-- `esl_normal_surv` (esl_normal.c:113) -/
def esl_normal_surv (x mu sigma : α) : α :=
  let z := ((x - mu) / sigma)
  (0.5 * (Num.erfc (z / (Num.sqrt 2.0))))

/-- which `return` of `esl_normal_surv` is reached (branch monitor; numbered in the order of the translated tree) -/
def esl_normal_surv_leaf (x mu sigma : α) : Nat :=
  let z := ((x - mu) / sigma)
  0


/-- `esl_normal_generic_pdf` (esl_normal.c:130) -/
def esl_normal_generic_pdf (x : α) (params : List α) : α :=
  let v := params
  (esl_normal_pdf x (v.getD 0 0.0) (v.getD 1 0.0))

/-- `esl_normal_generic_cdf` (esl_normal.c:137) -/
def esl_normal_generic_cdf (x : α) (params : List α) : α :=
  let v := params
  (esl_normal_cdf x (v.getD 0 0.0) (v.getD 1 0.0))

/-- `esl_normal_generic_surv` (esl_normal.c:144) -/
def esl_normal_generic_surv (x : α) (params : List α) : α :=
  let v := params
  (esl_normal_surv x (v.getD 0 0.0) (v.getD 1 0.0))

/-- `esl_lognormal_pdf` (esl_lognormal.c:20) -/
def esl_lognormal_pdf (x mu sigma : α) : α :=
  if (Num.eqb x (0.0) = true) then
    0.0
  else
    let z := (((Num.log x) - mu) / sigma)
    ((Num.exp (((-z) * z) * 0.5)) / ((x * sigma) * (Num.sqrt (2.0 * 3.14159265358979323846264338328))))

/-- which `return` of `esl_lognormal_pdf` is reached (branch monitor; numbered in the order of the translated tree) -/
def esl_lognormal_pdf_leaf (x mu sigma : α) : Nat :=
  if (Num.eqb x (0.0) = true) then
    0
  else
    let z := (((Num.log x) - mu) / sigma)
    1


/-- `esl_lognormal_logpdf` (esl_lognormal.c:32) -/
def esl_lognormal_logpdf (x mu sigma : α) : α :=
  if (Num.eqb x (0.0) = true) then
    (-Num.inf)
  else
    let z := (((Num.log x) - mu) / sigma)
    (((-(Num.log (x * sigma))) - (0.5 * (Num.log (2.0 * 3.14159265358979323846264338328)))) - ((0.5 * z) * z))

/-- which `return` of `esl_lognormal_logpdf` is reached (branch monitor; numbered in the order of the translated tree) -/
def esl_lognormal_logpdf_leaf (x mu sigma : α) : Nat :=
  if (Num.eqb x (0.0) = true) then
    0
  else
    let z := (((Num.log x) - mu) / sigma)
    1


/-- `esl_lognormal_Sample` (esl_lognormal.c:55); `u` = the variate `esl_rnd_Gaussian(r, …)` yields -/
def esl_lognormal_Sample (u mu sigma : α) : α :=
  let u_ := u
  (Num.exp (mu + (sigma * u_)))

/-- which `return` of `esl_lognormal_Sample` is reached (branch monitor; numbered in the order of the translated tree) -/
def esl_lognormal_Sample_leaf (u mu sigma : α) : Nat :=
  let u_ := u
  0

/-- the arguments `esl_lognormal_Sample` passes to `esl_rnd_Gaussian(r, …)` -/
def esl_lognormal_Sample_draw (mu sigma : α) : List α :=
  [0.0, 1.0]


/-- `esl_vec_DMax` (esl_vectorops.c:289) -/
def esl_vec_DMax (vec : List α) (n : Nat) : α :=
  let best := (vec.getD 0 0.0)
  let best := (List.range' 1 (n - 1)).foldl (fun best i =>
      if (best < (vec.getD i 0.0)) then
        let best := (vec.getD i 0.0)
        best
      else
        best) best
  best

/-- `esl_vec_DMin` (esl_vectorops.c:338) -/
def esl_vec_DMin (vec : List α) (n : Nat) : α :=
  let best := (vec.getD 0 0.0)
  let best := (List.range' 1 (n - 1)).foldl (fun best i =>
      if ((vec.getD i 0.0) < best) then
        let best := (vec.getD i 0.0)
        best
      else
        best) best
  best

/-- `esl_vec_DLogSum` (esl_vectorops.c:1318) -/
def esl_vec_DLogSum (vec : List α) (n : Nat) : α :=
  let max := (esl_vec_DMax vec n)
  if (Num.eqb max (Num.inf) = true) then
    Num.inf
  else
    let sum := 0.0
    let sum := (List.range n).foldl (fun sum i =>
        if ((max - 500.0) < (vec.getD i 0.0)) then
          let sum := (sum + (Num.exp ((vec.getD i 0.0) - max)))
          sum
        else
          sum) sum
    let sum := ((Num.log sum) + max)
    sum

/-- `esl_hxp_pdf` (esl_hyperexp.c:259) -/
def esl_hxp_pdf (x : α) (h : ESL_HYPEREXP α) : α :=
  let pdf := 0.0
  if (x < h.mu) then
    0.0
  else
    let pdf := (List.range h.K).foldl (fun pdf k =>
        let pdf := (pdf + ((h.q.getD k 0.0) * (esl_exp_pdf x h.mu (h.lambda.getD k 0.0))))
        pdf) pdf
    pdf

/-- `esl_hxp_logpdf` (esl_hyperexp.c:278) -/
def esl_hxp_logpdf (x : α) (h : ESL_HYPEREXP α) : α :=
  if (x < h.mu) then
    (-Num.inf)
  else
    let h := (List.range h.K).foldl (fun h k =>
        if (Num.eqb (h.q.getD k 0.0) (0.0) = true) then
          let h := { h with wrk := h.wrk.set k (-Num.inf) }
          h
        else
          let h := { h with wrk := h.wrk.set k ((Num.log (h.q.getD k 0.0)) + (esl_exp_logpdf x h.mu (h.lambda.getD k 0.0))) }
          h) h
    let z := (esl_vec_DLogSum h.wrk h.K)
    z

/-- `esl_hxp_cdf` (esl_hyperexp.c:301) -/
def esl_hxp_cdf (x : α) (h : ESL_HYPEREXP α) : α :=
  let cdf := 0.0
  if (x < h.mu) then
    0.0
  else
    let cdf := (List.range h.K).foldl (fun cdf k =>
        let cdf := (cdf + ((h.q.getD k 0.0) * (esl_exp_cdf x h.mu (h.lambda.getD k 0.0))))
        cdf) cdf
    cdf

/-- `esl_hxp_logcdf` (esl_hyperexp.c:319) -/
def esl_hxp_logcdf (x : α) (h : ESL_HYPEREXP α) : α :=
  if (x < h.mu) then
    (-Num.inf)
  else
    let h := (List.range h.K).foldl (fun h k =>
        if (Num.eqb (h.q.getD k 0.0) (0.0) = true) then
          let h := { h with wrk := h.wrk.set k (-Num.inf) }
          h
        else
          let h := { h with wrk := h.wrk.set k ((Num.log (h.q.getD k 0.0)) + (esl_exp_logcdf x h.mu (h.lambda.getD k 0.0))) }
          h) h
    (esl_vec_DLogSum h.wrk h.K)

/-- `esl_hxp_surv` (esl_hyperexp.c:341) -/
def esl_hxp_surv (x : α) (h : ESL_HYPEREXP α) : α :=
  let srv := 0.0
  if (x < h.mu) then
    1.0
  else
    let srv := (List.range h.K).foldl (fun srv k =>
        let srv := (srv + ((h.q.getD k 0.0) * (esl_exp_surv x h.mu (h.lambda.getD k 0.0))))
        srv) srv
    srv

/-- `esl_hxp_logsurv` (esl_hyperexp.c:360) -/
def esl_hxp_logsurv (x : α) (h : ESL_HYPEREXP α) : α :=
  if (x < h.mu) then
    0.0
  else
    let h := (List.range h.K).foldl (fun h k =>
        if (Num.eqb (h.q.getD k 0.0) (0.0) = true) then
          let h := { h with wrk := h.wrk.set k (-Num.inf) }
          h
        else
          let h := { h with wrk := h.wrk.set k ((Num.log (h.q.getD k 0.0)) + (esl_exp_logsurv x h.mu (h.lambda.getD k 0.0))) }
          h) h
    (esl_vec_DLogSum h.wrk h.K)

/-- `esl_hxp_invcdf`: the code after loop 2 (line 401) -/
def esl_hxp_invcdf_exit2 (fuel : Nat) (p : α) (h : ESL_HYPEREXP α) (tol x1 x2 : α) : Option α :=
  let xm := ((x1 + x2) / 2.0)
  some xm

/-- `esl_hxp_invcdf`: do-while loop 2 (line 401); `gas` counts the iterations still allowed, `none` = exhausted -/
def esl_hxp_invcdf_loop2 (fuel : Nat) (p : α) (h : ESL_HYPEREXP α) (tol x1 x2 : α) : Nat → Option α
  | 0 => none
  | gas + 1 =>
    let xm := ((x1 + x2) / 2.0)
    if ((xm ≤ x1) ∨ (x2 ≤ xm)) then
      esl_hxp_invcdf_exit2 fuel p h tol x1 x2
    else
      let fm := (esl_hxp_cdf xm h)
      if (p < fm) then
        let x2 := xm
        if (tol < ((x2 - x1) / ((x1 + x2) - (2.0 * h.mu)))) then
          esl_hxp_invcdf_loop2 fuel p h tol x1 x2 gas
        else
          esl_hxp_invcdf_exit2 fuel p h tol x1 x2
      else
        if (fm < p) then
          let x1 := xm
          if (tol < ((x2 - x1) / ((x1 + x2) - (2.0 * h.mu)))) then
            esl_hxp_invcdf_loop2 fuel p h tol x1 x2 gas
          else
            esl_hxp_invcdf_exit2 fuel p h tol x1 x2
        else
          some xm

/-- `esl_hxp_invcdf`: the code after loop 1 (line 396) -/
def esl_hxp_invcdf_exit1 (fuel : Nat) (p : α) (h : ESL_HYPEREXP α) (tol x1 x2 : α) : Option α :=
  esl_hxp_invcdf_loop2 fuel p h tol x1 x2 fuel

/-- `esl_hxp_invcdf`: do-while loop 1 (line 396); `gas` counts the iterations still allowed, `none` = exhausted -/
def esl_hxp_invcdf_loop1 (fuel : Nat) (p : α) (h : ESL_HYPEREXP α) (tol x1 x2 : α) : Nat → Option α
  | 0 => none
  | gas + 1 =>
    let x2 := (x2 + (2.0 * (x2 - x1)))
    let f2 := (esl_hxp_cdf x2 h)
    if ((f2 < p) ∧ (Num.ltInf x2 = true)) then
      esl_hxp_invcdf_loop1 fuel p h tol x1 x2 gas
    else
      esl_hxp_invcdf_exit1 fuel p h tol x1 x2

/-- `esl_hxp_invcdf` (esl_hyperexp.c:388) -/
def esl_hxp_invcdf (fuel : Nat) (p : α) (h : ESL_HYPEREXP α) : Option α :=
  let tol := 1.0e-6
  let x1 := h.mu
  let x2 := (h.mu + 1.0)
  esl_hxp_invcdf_loop1 fuel p h tol x1 x2 fuel

/-- `esl_hxp_Sample` (esl_hyperexp.c:516); `k` = the component `esl_rnd_DChoose(r, …)` yields -/
def esl_hxp_Sample (u : α) (h : ESL_HYPEREXP α) (k : Nat) : α :=
  (esl_exp_Sample u h.mu (h.lambda.getD k 0.0))

/-- `esl_hxp_generic_pdf` (esl_hyperexp.c:429) -/
def esl_hxp_generic_pdf (x : α) (params : ESL_HYPEREXP α) : α :=
  let h := params
  (esl_hxp_pdf x h)

/-- `esl_hxp_generic_cdf` (esl_hyperexp.c:440) -/
def esl_hxp_generic_cdf (x : α) (params : ESL_HYPEREXP α) : α :=
  let h := params
  (esl_hxp_cdf x h)

/-- `esl_hxp_generic_surv` (esl_hyperexp.c:451) -/
def esl_hxp_generic_surv (x : α) (params : ESL_HYPEREXP α) : α :=
  let h := params
  (esl_hxp_surv x h)

/-- `esl_hxp_generic_invcdf` (esl_hyperexp.c:462) -/
def esl_hxp_generic_invcdf (fuel : Nat) (p : α) (params : ESL_HYPEREXP α) : Option α :=
  let h := params
  esl_hxp_invcdf fuel p h

/-- `esl_mixgev_pdf` (esl_mixgev.c:190) -/
def esl_mixgev_pdf (x : α) (mg : ESL_MIXGEV α) : α :=
  let pdf := 0.0
  let pdf := (List.range mg.K).foldl (fun pdf k =>
      let pdf := (pdf + ((mg.q.getD k 0.0) * (esl_gev_pdf x (mg.mu.getD k 0.0) (mg.lambda.getD k 0.0) (mg.alpha.getD k 0.0))))
      pdf) pdf
  pdf

/-- `esl_mixgev_logpdf` (esl_mixgev.c:206) -/
def esl_mixgev_logpdf (x : α) (mg : ESL_MIXGEV α) : α :=
  let mg := (List.range mg.K).foldl (fun mg k =>
      if (Num.eqb (mg.q.getD k 0.0) (0.0) = true) then
        let mg := { mg with wrk := mg.wrk.set k (-Num.inf) }
        mg
      else
        let mg := { mg with wrk := mg.wrk.set k ((Num.log (mg.q.getD k 0.0)) + (esl_gev_logpdf x (mg.mu.getD k 0.0) (mg.lambda.getD k 0.0) (mg.alpha.getD k 0.0))) }
        mg) mg
  (esl_vec_DLogSum mg.wrk mg.K)

/-- `esl_mixgev_cdf` (esl_mixgev.c:225) -/
def esl_mixgev_cdf (x : α) (mg : ESL_MIXGEV α) : α :=
  let cdf := 0.0
  let cdf := (List.range mg.K).foldl (fun cdf k =>
      let cdf := (cdf + ((mg.q.getD k 0.0) * (esl_gev_cdf x (mg.mu.getD k 0.0) (mg.lambda.getD k 0.0) (mg.alpha.getD k 0.0))))
      cdf) cdf
  cdf

/-- `esl_mixgev_logcdf` (esl_mixgev.c:241) -/
def esl_mixgev_logcdf (x : α) (mg : ESL_MIXGEV α) : α :=
  let mg := (List.range mg.K).foldl (fun mg k =>
      if (Num.eqb (mg.q.getD k 0.0) (0.0) = true) then
        let mg := { mg with wrk := mg.wrk.set k (-Num.inf) }
        mg
      else
        let mg := { mg with wrk := mg.wrk.set k ((Num.log (mg.q.getD k 0.0)) + (esl_gev_logcdf x (mg.mu.getD k 0.0) (mg.lambda.getD k 0.0) (mg.alpha.getD k 0.0))) }
        mg) mg
  (esl_vec_DLogSum mg.wrk mg.K)

/-- `esl_mixgev_surv` (esl_mixgev.c:261) -/
def esl_mixgev_surv (x : α) (mg : ESL_MIXGEV α) : α :=
  let srv := 0.0
  let srv := (List.range mg.K).foldl (fun srv k =>
      let srv := (srv + ((mg.q.getD k 0.0) * (esl_gev_surv x (mg.mu.getD k 0.0) (mg.lambda.getD k 0.0) (mg.alpha.getD k 0.0))))
      srv) srv
  srv

/-- `esl_mixgev_logsurv` (esl_mixgev.c:277) -/
def esl_mixgev_logsurv (x : α) (mg : ESL_MIXGEV α) : α :=
  let mg := (List.range mg.K).foldl (fun mg k =>
      let mg := { mg with wrk := mg.wrk.set k (Num.log (mg.q.getD k 0.0)) }
      let mg := { mg with wrk := mg.wrk.set k ((mg.wrk.getD k 0.0) + (esl_gev_logsurv x (mg.mu.getD k 0.0) (mg.lambda.getD k 0.0) (mg.alpha.getD k 0.0))) }
      mg) mg
  (esl_vec_DLogSum mg.wrk mg.K)

/-- `esl_mixgev_invcdf`: the code after loop 3 (line 319) -/
def esl_mixgev_invcdf_exit3 (fuel : Nat) (p : α) (mg : ESL_MIXGEV α) (tol x2 x1 : α) : Option α :=
  let xm := ((x1 + x2) / 2.0)
  some xm

/-- `esl_mixgev_invcdf`: do-while loop 3 (line 319); `gas` counts the iterations still allowed, `none` = exhausted -/
def esl_mixgev_invcdf_loop3 (fuel : Nat) (p : α) (mg : ESL_MIXGEV α) (tol x2 x1 : α) : Nat → Option α
  | 0 => none
  | gas + 1 =>
    let xm := ((x1 + x2) / 2.0)
    let fm := (esl_mixgev_cdf xm mg)
    if (p < fm) then
      let x2 := xm
      if ((tol * (((Num.fabs x1) + (Num.fabs x2)) + 1.0e-9)) < (x2 - x1)) then
        esl_mixgev_invcdf_loop3 fuel p mg tol x2 x1 gas
      else
        esl_mixgev_invcdf_exit3 fuel p mg tol x2 x1
    else
      if (fm < p) then
        let x1 := xm
        if ((tol * (((Num.fabs x1) + (Num.fabs x2)) + 1.0e-9)) < (x2 - x1)) then
          esl_mixgev_invcdf_loop3 fuel p mg tol x2 x1 gas
        else
          esl_mixgev_invcdf_exit3 fuel p mg tol x2 x1
      else
        some xm

/-- `esl_mixgev_invcdf`: the code after loop 2 (line 314) -/
def esl_mixgev_invcdf_exit2 (fuel : Nat) (p : α) (mg : ESL_MIXGEV α) (tol x2 x1 : α) : Option α :=
  esl_mixgev_invcdf_loop3 fuel p mg tol x2 x1 fuel

/-- `esl_mixgev_invcdf`: do-while loop 2 (line 314); `gas` counts the iterations still allowed, `none` = exhausted -/
def esl_mixgev_invcdf_loop2 (fuel : Nat) (p : α) (mg : ESL_MIXGEV α) (tol x2 x1 : α) : Nat → Option α
  | 0 => none
  | gas + 1 =>
    let x2 := (x2 + (2.0 * (x2 - x1)))
    let f2 := (esl_mixgev_cdf x2 mg)
    if ((f2 < p) ∧ (Num.ltInf x2 = true)) then
      esl_mixgev_invcdf_loop2 fuel p mg tol x2 x1 gas
    else
      esl_mixgev_invcdf_exit2 fuel p mg tol x2 x1

/-- `esl_mixgev_invcdf`: the code after loop 1 (line 310) -/
def esl_mixgev_invcdf_exit1 (fuel : Nat) (p : α) (mg : ESL_MIXGEV α) (tol x2 x1 : α) : Option α :=
  esl_mixgev_invcdf_loop2 fuel p mg tol x2 x1 fuel

/-- `esl_mixgev_invcdf`: do-while loop 1 (line 310); `gas` counts the iterations still allowed, `none` = exhausted -/
def esl_mixgev_invcdf_loop1 (fuel : Nat) (p : α) (mg : ESL_MIXGEV α) (tol x2 x1 : α) : Nat → Option α
  | 0 => none
  | gas + 1 =>
    let x1 := (x1 - (2.0 * (x2 - x1)))
    let f1 := (esl_mixgev_cdf x1 mg)
    if (p < f1) then
      esl_mixgev_invcdf_loop1 fuel p mg tol x2 x1 gas
    else
      esl_mixgev_invcdf_exit1 fuel p mg tol x2 x1

/-- `esl_mixgev_invcdf` (esl_mixgev.c:302) -/
def esl_mixgev_invcdf (fuel : Nat) (p : α) (mg : ESL_MIXGEV α) : Option α :=
  let tol := 1.0e-6
  let x2 := (esl_vec_DMin mg.mu mg.K)
  let x1 := (x2 - 1.0)
  esl_mixgev_invcdf_loop1 fuel p mg tol x2 x1 fuel

/-- `esl_mixgev_Sample` (esl_mixgev.c:434); `k` = the component `esl_rnd_DChoose(r, …)` yields -/
def esl_mixgev_Sample (u : α) (mg : ESL_MIXGEV α) (k : Nat) : α :=
  (esl_gev_Sample u (mg.mu.getD k 0.0) (mg.lambda.getD k 0.0) (mg.alpha.getD k 0.0))

/-- `esl_mixgev_generic_pdf` (esl_mixgev.c:346) -/
def esl_mixgev_generic_pdf (x : α) (params : ESL_MIXGEV α) : α :=
  let mg := params
  (esl_mixgev_pdf x mg)

/-- `esl_mixgev_generic_cdf` (esl_mixgev.c:358) -/
def esl_mixgev_generic_cdf (x : α) (params : ESL_MIXGEV α) : α :=
  let mg := params
  (esl_mixgev_cdf x mg)

/-- `esl_mixgev_generic_surv` (esl_mixgev.c:370) -/
def esl_mixgev_generic_surv (x : α) (params : ESL_MIXGEV α) : α :=
  let mg := params
  (esl_mixgev_surv x mg)

/-- `esl_mixgev_generic_invcdf` (esl_mixgev.c:382) -/
def esl_mixgev_generic_invcdf (fuel : Nat) (p : α) (params : ESL_MIXGEV α) : Option α :=
  let mg := params
  esl_mixgev_invcdf fuel p mg

/-- name → translated function (a generator parameter is the leading deviate `u`) -/
def dispatch (name : String) (a : List α) : Option α :=
  match name, a with
  | "esl_exp_pdf", [x0, x1, x2] => some (esl_exp_pdf x0 x1 x2)
  | "esl_exp_logpdf", [x0, x1, x2] => some (esl_exp_logpdf x0 x1 x2)
  | "esl_exp_cdf", [x0, x1, x2] => some (esl_exp_cdf x0 x1 x2)
  | "esl_exp_logcdf", [x0, x1, x2] => some (esl_exp_logcdf x0 x1 x2)
  | "esl_exp_surv", [x0, x1, x2] => some (esl_exp_surv x0 x1 x2)
  | "esl_exp_logsurv", [x0, x1, x2] => some (esl_exp_logsurv x0 x1 x2)
  | "esl_exp_invcdf", [x0, x1, x2] => some (esl_exp_invcdf x0 x1 x2)
  | "esl_exp_invsurv", [x0, x1, x2] => some (esl_exp_invsurv x0 x1 x2)
  | "esl_exp_Sample", [x0, x1, x2] => some (esl_exp_Sample x0 x1 x2)
  | "esl_gumbel_pdf", [x0, x1, x2] => some (esl_gumbel_pdf x0 x1 x2)
  | "esl_gumbel_logpdf", [x0, x1, x2] => some (esl_gumbel_logpdf x0 x1 x2)
  | "esl_gumbel_cdf", [x0, x1, x2] => some (esl_gumbel_cdf x0 x1 x2)
  | "esl_gumbel_logcdf", [x0, x1, x2] => some (esl_gumbel_logcdf x0 x1 x2)
  | "esl_gumbel_surv", [x0, x1, x2] => some (esl_gumbel_surv x0 x1 x2)
  | "esl_gumbel_logsurv", [x0, x1, x2] => some (esl_gumbel_logsurv x0 x1 x2)
  | "esl_gumbel_invcdf", [x0, x1, x2] => some (esl_gumbel_invcdf x0 x1 x2)
  | "esl_gumbel_invsurv", [x0, x1, x2] => some (esl_gumbel_invsurv x0 x1 x2)
  | "esl_gumbel_Sample", [x0, x1, x2] => some (esl_gumbel_Sample x0 x1 x2)
  | "esl_gev_pdf", [x0, x1, x2, x3] => some (esl_gev_pdf x0 x1 x2 x3)
  | "esl_gev_logpdf", [x0, x1, x2, x3] => some (esl_gev_logpdf x0 x1 x2 x3)
  | "esl_gev_cdf", [x0, x1, x2, x3] => some (esl_gev_cdf x0 x1 x2 x3)
  | "esl_gev_logcdf", [x0, x1, x2, x3] => some (esl_gev_logcdf x0 x1 x2 x3)
  | "esl_gev_surv", [x0, x1, x2, x3] => some (esl_gev_surv x0 x1 x2 x3)
  | "esl_gev_logsurv", [x0, x1, x2, x3] => some (esl_gev_logsurv x0 x1 x2 x3)
  | "esl_gev_invcdf", [x0, x1, x2, x3] => some (esl_gev_invcdf x0 x1 x2 x3)
  | "esl_gev_Sample", [x0, x1, x2, x3] => some (esl_gev_Sample x0 x1 x2 x3)
  | "esl_wei_pdf", [x0, x1, x2, x3] => some (esl_wei_pdf x0 x1 x2 x3)
  | "esl_wei_logpdf", [x0, x1, x2, x3] => some (esl_wei_logpdf x0 x1 x2 x3)
  | "esl_wei_cdf", [x0, x1, x2, x3] => some (esl_wei_cdf x0 x1 x2 x3)
  | "esl_wei_logcdf", [x0, x1, x2, x3] => some (esl_wei_logcdf x0 x1 x2 x3)
  | "esl_wei_surv", [x0, x1, x2, x3] => some (esl_wei_surv x0 x1 x2 x3)
  | "esl_wei_logsurv", [x0, x1, x2, x3] => some (esl_wei_logsurv x0 x1 x2 x3)
  | "esl_wei_invcdf", [x0, x1, x2, x3] => some (esl_wei_invcdf x0 x1 x2 x3)
  | "esl_wei_Sample", [x0, x1, x2, x3] => some (esl_wei_Sample x0 x1 x2 x3)
  | "esl_sxp_pdf", [x0, x1, x2, x3] => some (esl_sxp_pdf x0 x1 x2 x3)
  | "esl_sxp_logpdf", [x0, x1, x2, x3] => some (esl_sxp_logpdf x0 x1 x2 x3)
  | "esl_sxp_cdf", [x0, x1, x2, x3] => some (esl_sxp_cdf x0 x1 x2 x3)
  | "esl_sxp_logcdf", [x0, x1, x2, x3] => some (esl_sxp_logcdf x0 x1 x2 x3)
  | "esl_sxp_surv", [x0, x1, x2, x3] => some (esl_sxp_surv x0 x1 x2 x3)
  | "esl_sxp_logsurv", [x0, x1, x2, x3] => some (esl_sxp_logsurv x0 x1 x2 x3)
  | "esl_sxp_Sample", [x0, x1, x2, x3] => some (esl_sxp_Sample x0 x1 x2 x3)
  | "esl_gam_pdf", [x0, x1, x2, x3] => some (esl_gam_pdf x0 x1 x2 x3)
  | "esl_gam_logpdf", [x0, x1, x2, x3] => some (esl_gam_logpdf x0 x1 x2 x3)
  | "esl_gam_cdf", [x0, x1, x2, x3] => some (esl_gam_cdf x0 x1 x2 x3)
  | "esl_gam_logcdf", [x0, x1, x2, x3] => some (esl_gam_logcdf x0 x1 x2 x3)
  | "esl_gam_surv", [x0, x1, x2, x3] => some (esl_gam_surv x0 x1 x2 x3)
  | "esl_gam_logsurv", [x0, x1, x2, x3] => some (esl_gam_logsurv x0 x1 x2 x3)
  | "esl_normal_pdf", [x0, x1, x2] => some (esl_normal_pdf x0 x1 x2)
  | "esl_normal_logpdf", [x0, x1, x2] => some (esl_normal_logpdf x0 x1 x2)
  | "esl_normal_cdf", [x0, x1, x2] => some (esl_normal_cdf x0 x1 x2)
  | "esl_normal_surv", [x0, x1, x2] => some (esl_normal_surv x0 x1 x2)
  | "esl_lognormal_pdf", [x0, x1, x2] => some (esl_lognormal_pdf x0 x1 x2)
  | "esl_lognormal_logpdf", [x0, x1, x2] => some (esl_lognormal_logpdf x0 x1 x2)
  | "esl_lognormal_Sample", [x0, x1, x2] => some (esl_lognormal_Sample x0 x1 x2)
  | _, _ => none

/-- name → number of the `return` reached (branch monitor) -/
def dispatchLeaf (name : String) (a : List α) : Option Nat :=
  match name, a with
  | "esl_exp_pdf", [x0, x1, x2] => some (esl_exp_pdf_leaf x0 x1 x2)
  | "esl_exp_logpdf", [x0, x1, x2] => some (esl_exp_logpdf_leaf x0 x1 x2)
  | "esl_exp_cdf", [x0, x1, x2] => some (esl_exp_cdf_leaf x0 x1 x2)
  | "esl_exp_logcdf", [x0, x1, x2] => some (esl_exp_logcdf_leaf x0 x1 x2)
  | "esl_exp_surv", [x0, x1, x2] => some (esl_exp_surv_leaf x0 x1 x2)
  | "esl_exp_logsurv", [x0, x1, x2] => some (esl_exp_logsurv_leaf x0 x1 x2)
  | "esl_exp_invcdf", [x0, x1, x2] => some (esl_exp_invcdf_leaf x0 x1 x2)
  | "esl_exp_invsurv", [x0, x1, x2] => some (esl_exp_invsurv_leaf x0 x1 x2)
  | "esl_exp_Sample", [x0, x1, x2] => some (esl_exp_Sample_leaf x0 x1 x2)
  | "esl_gumbel_pdf", [x0, x1, x2] => some (esl_gumbel_pdf_leaf x0 x1 x2)
  | "esl_gumbel_logpdf", [x0, x1, x2] => some (esl_gumbel_logpdf_leaf x0 x1 x2)
  | "esl_gumbel_cdf", [x0, x1, x2] => some (esl_gumbel_cdf_leaf x0 x1 x2)
  | "esl_gumbel_logcdf", [x0, x1, x2] => some (esl_gumbel_logcdf_leaf x0 x1 x2)
  | "esl_gumbel_surv", [x0, x1, x2] => some (esl_gumbel_surv_leaf x0 x1 x2)
  | "esl_gumbel_logsurv", [x0, x1, x2] => some (esl_gumbel_logsurv_leaf x0 x1 x2)
  | "esl_gumbel_invcdf", [x0, x1, x2] => some (esl_gumbel_invcdf_leaf x0 x1 x2)
  | "esl_gumbel_invsurv", [x0, x1, x2] => some (esl_gumbel_invsurv_leaf x0 x1 x2)
  | "esl_gumbel_Sample", [x0, x1, x2] => some (esl_gumbel_Sample_leaf x0 x1 x2)
  | "esl_gev_pdf", [x0, x1, x2, x3] => some (esl_gev_pdf_leaf x0 x1 x2 x3)
  | "esl_gev_logpdf", [x0, x1, x2, x3] => some (esl_gev_logpdf_leaf x0 x1 x2 x3)
  | "esl_gev_cdf", [x0, x1, x2, x3] => some (esl_gev_cdf_leaf x0 x1 x2 x3)
  | "esl_gev_logcdf", [x0, x1, x2, x3] => some (esl_gev_logcdf_leaf x0 x1 x2 x3)
  | "esl_gev_surv", [x0, x1, x2, x3] => some (esl_gev_surv_leaf x0 x1 x2 x3)
  | "esl_gev_logsurv", [x0, x1, x2, x3] => some (esl_gev_logsurv_leaf x0 x1 x2 x3)
  | "esl_gev_invcdf", [x0, x1, x2, x3] => some (esl_gev_invcdf_leaf x0 x1 x2 x3)
  | "esl_gev_Sample", [x0, x1, x2, x3] => some (esl_gev_Sample_leaf x0 x1 x2 x3)
  | "esl_wei_pdf", [x0, x1, x2, x3] => some (esl_wei_pdf_leaf x0 x1 x2 x3)
  | "esl_wei_logpdf", [x0, x1, x2, x3] => some (esl_wei_logpdf_leaf x0 x1 x2 x3)
  | "esl_wei_cdf", [x0, x1, x2, x3] => some (esl_wei_cdf_leaf x0 x1 x2 x3)
  | "esl_wei_logcdf", [x0, x1, x2, x3] => some (esl_wei_logcdf_leaf x0 x1 x2 x3)
  | "esl_wei_surv", [x0, x1, x2, x3] => some (esl_wei_surv_leaf x0 x1 x2 x3)
  | "esl_wei_logsurv", [x0, x1, x2, x3] => some (esl_wei_logsurv_leaf x0 x1 x2 x3)
  | "esl_wei_invcdf", [x0, x1, x2, x3] => some (esl_wei_invcdf_leaf x0 x1 x2 x3)
  | "esl_wei_Sample", [x0, x1, x2, x3] => some (esl_wei_Sample_leaf x0 x1 x2 x3)
  | "esl_sxp_pdf", [x0, x1, x2, x3] => some (esl_sxp_pdf_leaf x0 x1 x2 x3)
  | "esl_sxp_logpdf", [x0, x1, x2, x3] => some (esl_sxp_logpdf_leaf x0 x1 x2 x3)
  | "esl_sxp_cdf", [x0, x1, x2, x3] => some (esl_sxp_cdf_leaf x0 x1 x2 x3)
  | "esl_sxp_logcdf", [x0, x1, x2, x3] => some (esl_sxp_logcdf_leaf x0 x1 x2 x3)
  | "esl_sxp_surv", [x0, x1, x2, x3] => some (esl_sxp_surv_leaf x0 x1 x2 x3)
  | "esl_sxp_logsurv", [x0, x1, x2, x3] => some (esl_sxp_logsurv_leaf x0 x1 x2 x3)
  | "esl_sxp_Sample", [x0, x1, x2, x3] => some (esl_sxp_Sample_leaf x0 x1 x2 x3)
  | "esl_gam_pdf", [x0, x1, x2, x3] => some (esl_gam_pdf_leaf x0 x1 x2 x3)
  | "esl_gam_logpdf", [x0, x1, x2, x3] => some (esl_gam_logpdf_leaf x0 x1 x2 x3)
  | "esl_gam_cdf", [x0, x1, x2, x3] => some (esl_gam_cdf_leaf x0 x1 x2 x3)
  | "esl_gam_logcdf", [x0, x1, x2, x3] => some (esl_gam_logcdf_leaf x0 x1 x2 x3)
  | "esl_gam_surv", [x0, x1, x2, x3] => some (esl_gam_surv_leaf x0 x1 x2 x3)
  | "esl_gam_logsurv", [x0, x1, x2, x3] => some (esl_gam_logsurv_leaf x0 x1 x2 x3)
  | "esl_normal_pdf", [x0, x1, x2] => some (esl_normal_pdf_leaf x0 x1 x2)
  | "esl_normal_logpdf", [x0, x1, x2] => some (esl_normal_logpdf_leaf x0 x1 x2)
  | "esl_normal_cdf", [x0, x1, x2] => some (esl_normal_cdf_leaf x0 x1 x2)
  | "esl_normal_surv", [x0, x1, x2] => some (esl_normal_surv_leaf x0 x1 x2)
  | "esl_lognormal_pdf", [x0, x1, x2] => some (esl_lognormal_pdf_leaf x0 x1 x2)
  | "esl_lognormal_logpdf", [x0, x1, x2] => some (esl_lognormal_logpdf_leaf x0 x1 x2)
  | "esl_lognormal_Sample", [x0, x1, x2] => some (esl_lognormal_Sample_leaf x0 x1 x2)
  | _, _ => none

/-- name → the arguments the sampler passes to its primitive draw -/
def dispatchDraw (name : String) (a : List α) : Option (List α) :=
  match name, a with
  | "esl_sxp_Sample", [x0, x1, x2] => some (esl_sxp_Sample_draw x0 x1 x2)
  | "esl_gam_Sample", [x0, x1, x2] => some (esl_gam_Sample_draw x0 x1 x2)
  | "esl_lognormal_Sample", [x0, x1] => some (esl_lognormal_Sample_draw x0 x1)
  | _, _ => none

/-- name → translated loop-containing function (`some none` = fuel exhausted) and the generic-API wrappers
    `f(x, void *params)` over a parameter vector -/
def dispatchP (fuel : Nat) (name : String) (a : List α) : Option (Option α) :=
  match name, a with
  | "esl_exp_generic_pdf", x0 :: ps => some (some (esl_exp_generic_pdf x0 ps))
  | "esl_exp_generic_cdf", x0 :: ps => some (some (esl_exp_generic_cdf x0 ps))
  | "esl_exp_generic_surv", x0 :: ps => some (some (esl_exp_generic_surv x0 ps))
  | "esl_exp_generic_invcdf", x0 :: ps => some (some (esl_exp_generic_invcdf x0 ps))
  | "esl_gumbel_generic_pdf", x0 :: ps => some (some (esl_gumbel_generic_pdf x0 ps))
  | "esl_gumbel_generic_cdf", x0 :: ps => some (some (esl_gumbel_generic_cdf x0 ps))
  | "esl_gumbel_generic_surv", x0 :: ps => some (some (esl_gumbel_generic_surv x0 ps))
  | "esl_gumbel_generic_invcdf", x0 :: ps => some (some (esl_gumbel_generic_invcdf x0 ps))
  | "esl_gev_generic_pdf", x0 :: ps => some (some (esl_gev_generic_pdf x0 ps))
  | "esl_gev_generic_cdf", x0 :: ps => some (some (esl_gev_generic_cdf x0 ps))
  | "esl_gev_generic_surv", x0 :: ps => some (some (esl_gev_generic_surv x0 ps))
  | "esl_gev_generic_invcdf", x0 :: ps => some (some (esl_gev_generic_invcdf x0 ps))
  | "esl_wei_generic_pdf", x0 :: ps => some (some (esl_wei_generic_pdf x0 ps))
  | "esl_wei_generic_cdf", x0 :: ps => some (some (esl_wei_generic_cdf x0 ps))
  | "esl_wei_generic_surv", x0 :: ps => some (some (esl_wei_generic_surv x0 ps))
  | "esl_wei_generic_invcdf", x0 :: ps => some (some (esl_wei_generic_invcdf x0 ps))
  | "esl_sxp_invcdf", [x0, x1, x2, x3] => some (esl_sxp_invcdf fuel x0 x1 x2 x3)
  | "esl_sxp_generic_pdf", x0 :: ps => some (some (esl_sxp_generic_pdf x0 ps))
  | "esl_sxp_generic_cdf", x0 :: ps => some (some (esl_sxp_generic_cdf x0 ps))
  | "esl_sxp_generic_surv", x0 :: ps => some (some (esl_sxp_generic_surv x0 ps))
  | "esl_sxp_generic_invcdf", x0 :: ps => some (esl_sxp_generic_invcdf fuel x0 ps)
  | "esl_gam_invcdf", [x0, x1, x2, x3] => some (esl_gam_invcdf fuel x0 x1 x2 x3)
  | "esl_gam_generic_pdf", x0 :: ps => some (some (esl_gam_generic_pdf x0 ps))
  | "esl_gam_generic_cdf", x0 :: ps => some (some (esl_gam_generic_cdf x0 ps))
  | "esl_gam_generic_surv", x0 :: ps => some (some (esl_gam_generic_surv x0 ps))
  | "esl_gam_generic_invcdf", x0 :: ps => some (esl_gam_generic_invcdf fuel x0 ps)
  | "esl_normal_generic_pdf", x0 :: ps => some (some (esl_normal_generic_pdf x0 ps))
  | "esl_normal_generic_cdf", x0 :: ps => some (some (esl_normal_generic_cdf x0 ps))
  | "esl_normal_generic_surv", x0 :: ps => some (some (esl_normal_generic_surv x0 ps))
  | _, _ => none

end EaselModel.Dist.Gen
