import EaselModel.Dist.Num
/-! GENERATED on every run by translate/c2lean.py from the working tree's C sources — do not edit.
    Each definition is the C function of the same name, as clang-14 parsed it, over an arbitrary `Num` carrier. -/
set_option linter.unusedVariables false
namespace EaselModel.Dist.Gen
open EaselModel.Dist
variable {α : Type} [Add α] [Sub α] [Mul α] [Div α] [Neg α] [OfScientific α] [LT α] [LE α]
  [DecidableLT α] [DecidableLE α] [Num α]

/-- `esl_exp_pdf` (esl_exponential.c:55) -/
def esl_exp_pdf (x mu lambda : α) : α :=
  if (x < mu) then
    0.0
  else
    (lambda * (Num.exp ((-lambda) * (x - mu))))

/-- `esl_exp_logpdf` (esl_exponential.c:68) -/
def esl_exp_logpdf (x mu lambda : α) : α :=
  if (x < mu) then
    (-Num.inf)
  else
    if (Num.eqb lambda (Num.inf) = true) then
      if (Num.eqb x mu = true) then
        Num.inf
      else
        (-Num.inf)
    else
      ((Num.log lambda) - (lambda * (x - mu)))

/-- `esl_exp_cdf` (esl_exponential.c:87) -/
def esl_exp_cdf (x mu lambda : α) : α :=
  let y := (lambda * (x - mu))
  if (x < mu) then
    0.0
  else
    if (y < 5.0e-9) then
      y
    else
      (1.0 - (Num.exp (-y)))

/-- `esl_exp_logcdf` (esl_exponential.c:105) -/
def esl_exp_logcdf (x mu lambda : α) : α :=
  let y := (lambda * (x - mu))
  let ey := (Num.exp (-y))
  if (x < mu) then
    (-Num.inf)
  else
    if (Num.eqb y (0.0) = true) then
      (-Num.inf)
    else
      if (y < 5.0e-9) then
        (Num.log y)
      else
        if (ey < 5.0e-9) then
          (-ey)
        else
          (Num.log (1.0 - ey))

/-- `esl_exp_surv` (esl_exponential.c:128) -/
def esl_exp_surv (x mu lambda : α) : α :=
  if (x < mu) then
    1.0
  else
    (Num.exp ((-lambda) * (x - mu)))

/-- `esl_exp_logsurv` (esl_exponential.c:142) -/
def esl_exp_logsurv (x mu lambda : α) : α :=
  if (x < mu) then
    0.0
  else
    ((-lambda) * (x - mu))

/-- `esl_exp_invcdf` (esl_exponential.c:156) -/
def esl_exp_invcdf (p mu lambda : α) : α :=
  (mu - ((1.0 / lambda) * (Num.log (1.0 - p))))

/-- `esl_exp_invsurv` (esl_exponential.c:170) -/
def esl_exp_invsurv (p mu lambda : α) : α :=
  (mu - ((1.0 / lambda) * (Num.log p)))

/-- `esl_exp_Sample` (esl_exponential.c:275) -/
def esl_exp_Sample (u mu lambda : α) : α :=
  let p := u
  let x := (mu - ((1.0 / lambda) * (Num.log p)))
  x

/-- `esl_gumbel_pdf` (esl_gumbel.c:54) -/
def esl_gumbel_pdf (x mu lambda : α) : α :=
  let y := (lambda * (x - mu))
  (lambda * (Num.exp ((-y) - (Num.exp (-y)))))

/-- `esl_gumbel_logpdf` (esl_gumbel.c:73) -/
def esl_gumbel_logpdf (x mu lambda : α) : α :=
  let y := (lambda * (x - mu))
  (((Num.log lambda) - y) - (Num.exp (-y)))

/-- `esl_gumbel_cdf` (esl_gumbel.c:92) -/
def esl_gumbel_cdf (x mu lambda : α) : α :=
  let y := (lambda * (x - mu))
  (Num.exp (-(Num.exp (-y))))

/-- `esl_gumbel_logcdf` (esl_gumbel.c:110) -/
def esl_gumbel_logcdf (x mu lambda : α) : α :=
  let y := (lambda * (x - mu))
  (-(Num.exp (-y)))

/-- `esl_gumbel_surv` (esl_gumbel.c:129) -/
def esl_gumbel_surv (x mu lambda : α) : α :=
  let y := (lambda * (x - mu))
  let ey := (-(Num.exp (-y)))
  if ((Num.fabs ey) < 5.0e-9) then
    (-ey)
  else
    (1.0 - (Num.exp ey))

/-- `esl_gumbel_logsurv` (esl_gumbel.c:150) -/
def esl_gumbel_logsurv (x mu lambda : α) : α :=
  let y := (lambda * (x - mu))
  let ey := (-(Num.exp (-y)))
  if ((Num.fabs ey) < 5.0e-9) then
    (-y)
  else
    if ((Num.fabs (Num.exp ey)) < 5.0e-9) then
      (-(Num.exp ey))
    else
      (Num.log (1.0 - (Num.exp ey)))

/-- `esl_gumbel_invcdf` (esl_gumbel.c:172) -/
def esl_gumbel_invcdf (p mu lambda : α) : α :=
  (mu - ((Num.log ((-1.0) * (Num.log p))) / lambda))

/-- `esl_gumbel_invsurv` (esl_gumbel.c:185) -/
def esl_gumbel_invsurv (p mu lambda : α) : α :=
  if (p < 5.0e-9) then
    let log_part := (Num.log p)
    (mu - (log_part / lambda))
  else
    let log_part := (Num.log ((-1.0) * (Num.log (1.0 - p))))
    (mu - (log_part / lambda))

/-- `esl_gumbel_Sample` (esl_gumbel.c:306) -/
def esl_gumbel_Sample (u mu lambda : α) : α :=
  let p := u
  (esl_gumbel_invcdf p mu lambda)

/-- `esl_gev_pdf` (esl_gev.c:64) -/
def esl_gev_pdf (x mu lambda alpha : α) : α :=
  let y := (lambda * (x - mu))
  let ya1 := (1.0 + (alpha * y))
  if ((Num.fabs (y * alpha)) < 1.0e-12) then
    (lambda * (Num.exp ((-y) - (Num.exp (-y)))))
  else
    if (ya1 ≤ 0.0) then
      0.0
    else
      let lya1 := (Num.log1p (alpha * y))
      (lambda * (Num.exp (((-(1.0 + (1.0 / alpha))) * lya1) - (Num.exp ((-lya1) / alpha)))))

/-- `esl_gev_logpdf` (esl_gev.c:89) -/
def esl_gev_logpdf (x mu lambda alpha : α) : α :=
  let y := (lambda * (x - mu))
  let ya1 := (1.0 + (alpha * y))
  if ((Num.fabs (y * alpha)) < 1.0e-12) then
    (((Num.log lambda) - y) - (Num.exp (-y)))
  else
    if (ya1 ≤ 0.0) then
      (-Num.inf)
    else
      let lya1 := (Num.log1p (alpha * y))
      (((Num.log lambda) - ((1.0 + (1.0 / alpha)) * lya1)) - (Num.exp ((-lya1) / alpha)))

/-- `esl_gev_cdf` (esl_gev.c:117) -/
def esl_gev_cdf (x mu lambda alpha : α) : α :=
  let y := (lambda * (x - mu))
  let ya1 := (1.0 + (alpha * y))
  if ((Num.fabs (y * alpha)) < 1.0e-12) then
    (Num.exp (-(Num.exp (-y))))
  else
    if (ya1 ≤ 0.0) then
      if (x < mu) then
        0.0
      else
        1.0
    else
      let lya1 := (Num.log1p (alpha * y))
      (Num.exp (-(Num.exp ((-lya1) / alpha))))

/-- `esl_gev_logcdf` (esl_gev.c:144) -/
def esl_gev_logcdf (x mu lambda alpha : α) : α :=
  let y := (lambda * (x - mu))
  let ya1 := (1.0 + (alpha * y))
  if ((Num.fabs (y * alpha)) < 1.0e-12) then
    (-(Num.exp (-y)))
  else
    if (ya1 ≤ 0.0) then
      if (x < mu) then
        (-Num.inf)
      else
        0.0
    else
      let lya1 := (Num.log1p (alpha * y))
      (-(Num.exp ((-lya1) / alpha)))

/-- `esl_gev_surv` (esl_gev.c:170) -/
def esl_gev_surv (x mu lambda alpha : α) : α :=
  let y := (lambda * (x - mu))
  let ya1 := (1.0 + (alpha * y))
  if ((Num.fabs (y * alpha)) < 1.0e-12) then
    (if (((-0.5) * (Num.log (2.2204460492503131e-16))) < y) then (Num.exp (-y)) else (1.0 - (Num.exp (-(Num.exp (-y))))))
  else
    if (ya1 ≤ 0.0) then
      if (x < mu) then
        1.0
      else
        0.0
    else
      let lya1 := ((Num.log1p (alpha * y)) / alpha)
      (if (((-0.5) * (Num.log (2.2204460492503131e-16))) < lya1) then (Num.exp (-lya1)) else (1.0 - (Num.exp (-(Num.exp (-lya1))))))

/-- `esl_gev_logsurv` (esl_gev.c:198) -/
def esl_gev_logsurv (x mu lambda alpha : α) : α :=
  let y := (lambda * (x - mu))
  let ya1 := (1.0 + (alpha * y))
  if ((Num.fabs (y * alpha)) < 1.0e-12) then
    if (((-0.5) * (Num.log (2.2204460492503131e-16))) < y) then
      (-y)
    else
      if (y < (-2.9)) then
        (-(Num.exp (-(Num.exp (-y)))))
      else
        (Num.log (1.0 - (Num.exp (-(Num.exp (-y))))))
  else
    if (ya1 ≤ 0.0) then
      if (x < mu) then
        0.0
      else
        (-Num.inf)
    else
      let lya1 := ((Num.log1p (alpha * y)) / alpha)
      if (((-0.5) * (Num.log (2.2204460492503131e-16))) < lya1) then
        (-lya1)
      else
        if (lya1 < (-2.9)) then
          (-(Num.exp (-(Num.exp (-lya1)))))
        else
          (Num.log (1.0 - (Num.exp (-(Num.exp (-lya1))))))

/-- `esl_gev_invcdf` (esl_gev.c:234) -/
def esl_gev_invcdf (p mu lambda alpha : α) : α :=
  if ((Num.fabs alpha) < 1.0e-12) then
    (mu - ((Num.log ((-1.0) * (Num.log p))) / lambda))
  else
    (mu + ((Num.expm1 ((-alpha) * (Num.log (-(Num.log p))))) / (alpha * lambda)))

/-- `esl_gev_Sample` (esl_gev.c:336) -/
def esl_gev_Sample (u mu lambda alpha : α) : α :=
  let p := u
  (esl_gev_invcdf p mu lambda alpha)

/-- `esl_wei_pdf` (esl_weibull.c:52) -/
def esl_wei_pdf (x mu lambda tau : α) : α :=
  let y := (lambda * (x - mu))
  if (x < mu) then
    0.0
  else
    if (Num.eqb x mu = true) then
      if (tau < 1.0) then
        Num.inf
      else
        if (1.0 < tau) then
          0.0
        else
          if (Num.eqb tau (1.0) = true) then
            lambda
          else
            let val := (((lambda * tau) * (Num.exp ((tau - 1.0) * (Num.log y)))) * (Num.exp (-(Num.exp (tau * (Num.log y))))))
            val
    else
      let val := (((lambda * tau) * (Num.exp ((tau - 1.0) * (Num.log y)))) * (Num.exp (-(Num.exp (tau * (Num.log y))))))
      val

/-- `esl_wei_logpdf` (esl_weibull.c:77) -/
def esl_wei_logpdf (x mu lambda tau : α) : α :=
  let y := (lambda * (x - mu))
  if (x < mu) then
    (-Num.inf)
  else
    if (Num.eqb x mu = true) then
      if (tau < 1.0) then
        Num.inf
      else
        if (1.0 < tau) then
          (-Num.inf)
        else
          if (Num.eqb tau (1.0) = true) then
            (Num.log lambda)
          else
            let val := ((((Num.log tau) + (tau * (Num.log lambda))) + ((tau - 1.0) * (Num.log (x - mu)))) - (Num.exp (tau * (Num.log y))))
            val
    else
      let val := ((((Num.log tau) + (tau * (Num.log lambda))) + ((tau - 1.0) * (Num.log (x - mu)))) - (Num.exp (tau * (Num.log y))))
      val

/-- `esl_wei_cdf` (esl_weibull.c:100) -/
def esl_wei_cdf (x mu lambda tau : α) : α :=
  let y := (lambda * (x - mu))
  let tly := (tau * (Num.log y))
  if (x ≤ mu) then
    0.0
  else
    if ((Num.exp tly) < 5.0e-9) then
      (Num.exp tly)
    else
      (1.0 - (Num.exp (-(Num.exp tly))))

/-- `esl_wei_logcdf` (esl_weibull.c:117) -/
def esl_wei_logcdf (x mu lambda tau : α) : α :=
  let y := (lambda * (x - mu))
  let tly := (tau * (Num.log y))
  if (x ≤ mu) then
    (-Num.inf)
  else
    if ((Num.exp tly) < 5.0e-9) then
      tly
    else
      if ((Num.fabs (Num.exp (-(Num.exp tly)))) < 5.0e-9) then
        (-(Num.exp (-(Num.exp tly))))
      else
        (Num.log (1.0 - (Num.exp (-(Num.exp tly)))))

/-- `esl_wei_surv` (esl_weibull.c:138) -/
def esl_wei_surv (x mu lambda tau : α) : α :=
  let y := (lambda * (x - mu))
  let tly := (tau * (Num.log y))
  if (x ≤ mu) then
    1.0
  else
    (Num.exp (-(Num.exp tly)))

/-- `esl_wei_logsurv` (esl_weibull.c:156) -/
def esl_wei_logsurv (x mu lambda tau : α) : α :=
  let y := (lambda * (x - mu))
  let tly := (tau * (Num.log y))
  if (x ≤ mu) then
    0.0
  else
    (-(Num.exp tly))

/-- `esl_wei_invcdf` (esl_weibull.c:173) -/
def esl_wei_invcdf (p mu lambda tau : α) : α :=
  (mu + ((1.0 / lambda) * (Num.exp ((1.0 / tau) * (Num.log (-(Num.log (1.0 - p))))))))

/-- `esl_wei_Sample` (esl_weibull.c:284) -/
def esl_wei_Sample (u mu lambda tau : α) : α :=
  let p := u
  (esl_wei_invcdf p mu lambda tau)

/-- `esl_sxp_pdf` (esl_stretchexp.c:51) -/
def esl_sxp_pdf (x mu lambda tau : α) : α :=
  let y := (lambda * (x - mu))
  if (x < mu) then
    0.0
  else
    let gt := Num.logGamma (1.0 / tau)
    if (Num.eqb x mu = true) then
      let val := ((lambda * tau) / (Num.exp gt))
      val
    else
      let val := (((lambda * tau) / (Num.exp gt)) * (Num.exp (-(Num.exp (tau * (Num.log y))))))
      val

/-- `esl_sxp_logpdf` (esl_stretchexp.c:73) -/
def esl_sxp_logpdf (x mu lambda tau : α) : α :=
  let y := (lambda * (x - mu))
  if (x < mu) then
    (-Num.inf)
  else
    let gt := Num.logGamma (1.0 / tau)
    if (Num.eqb x mu = true) then
      let val := (((Num.log lambda) + (Num.log tau)) - gt)
      val
    else
      let val := ((((Num.log lambda) + (Num.log tau)) - gt) - (Num.exp (tau * (Num.log y))))
      val

/-- `esl_sxp_cdf` (esl_stretchexp.c:94) -/
def esl_sxp_cdf (x mu lambda tau : α) : α :=
  let y := (lambda * (x - mu))
  if (x ≤ mu) then
    0.0
  else
    let val := Num.incGammaP (1.0 / tau) (Num.exp (tau * (Num.log y)))
    val

/-- `esl_sxp_logcdf` (esl_stretchexp.c:113) -/
def esl_sxp_logcdf (x mu lambda tau : α) : α :=
  let y := (lambda * (x - mu))
  if (x ≤ mu) then
    (-Num.inf)
  else
    let val := Num.incGammaP (1.0 / tau) (Num.exp (tau * (Num.log y)))
    (Num.log val)

/-- `esl_sxp_surv` (esl_stretchexp.c:130) -/
def esl_sxp_surv (x mu lambda tau : α) : α :=
  let y := (lambda * (x - mu))
  if (x ≤ mu) then
    1.0
  else
    let val := Num.incGammaQ (1.0 / tau) (Num.exp (tau * (Num.log y)))
    val

/-- `esl_sxp_logsurv` (esl_stretchexp.c:148) -/
def esl_sxp_logsurv (x mu lambda tau : α) : α :=
  let y := (lambda * (x - mu))
  if (x ≤ mu) then
    0.0
  else
    let val := Num.incGammaQ (1.0 / tau) (Num.exp (tau * (Num.log y)))
    (Num.log val)

/-- `esl_gam_pdf` (esl_gamma.c:49) -/
def esl_gam_pdf (x mu lambda tau : α) : α :=
  let y := (lambda * (x - mu))
  if (y < 0.0) then
    0.0
  else
    if (Num.eqb x mu = true) then
      if (tau < 1.0) then
        Num.inf
      else
        if (1.0 < tau) then
          0.0
        else
          if (Num.eqb tau (1.0) = true) then
            lambda
          else
            let gamtau := Num.logGamma tau
            let val := ((((tau * (Num.log lambda)) + ((tau - 1.0) * (Num.log (x - mu)))) - gamtau) - y)
            (Num.exp val)
    else
      let gamtau := Num.logGamma tau
      let val := ((((tau * (Num.log lambda)) + ((tau - 1.0) * (Num.log (x - mu)))) - gamtau) - y)
      (Num.exp val)

/-- `esl_gam_logpdf` (esl_gamma.c:76) -/
def esl_gam_logpdf (x mu lambda tau : α) : α :=
  let y := (lambda * (x - mu))
  if (y < 0.0) then
    (-Num.inf)
  else
    if (Num.eqb x mu = true) then
      if (tau < 1.0) then
        Num.inf
      else
        if (1.0 < tau) then
          (-Num.inf)
        else
          if (Num.eqb tau (1.0) = true) then
            (Num.log lambda)
          else
            let gamtau := Num.logGamma tau
            let val := ((((tau * (Num.log lambda)) + ((tau - 1.0) * (Num.log (x - mu)))) - gamtau) - y)
            val
    else
      let gamtau := Num.logGamma tau
      let val := ((((tau * (Num.log lambda)) + ((tau - 1.0) * (Num.log (x - mu)))) - gamtau) - y)
      val

/-- `esl_gam_cdf` (esl_gamma.c:106) -/
def esl_gam_cdf (x mu lambda tau : α) : α :=
  let y := (lambda * (x - mu))
  if (y ≤ 0.0) then
    0.0
  else
    let val := Num.incGammaP tau y
    val

/-- `esl_gam_logcdf` (esl_gamma.c:125) -/
def esl_gam_logcdf (x mu lambda tau : α) : α :=
  let y := (lambda * (x - mu))
  if (y ≤ 0.0) then
    (-Num.inf)
  else
    let val := Num.incGammaP tau y
    (Num.log val)

/-- `esl_gam_surv` (esl_gamma.c:143) -/
def esl_gam_surv (x mu lambda tau : α) : α :=
  let y := (lambda * (x - mu))
  if (y ≤ 0.0) then
    1.0
  else
    let val := Num.incGammaQ tau y
    val

/-- `esl_gam_logsurv` (esl_gamma.c:166) -/
def esl_gam_logsurv (x mu lambda tau : α) : α :=
  let y := (lambda * (x - mu))
  if (y ≤ 0.0) then
    0.0
  else
    let val := Num.incGammaQ tau y
    (Num.log val)

/-- `esl_normal_pdf` (esl_normal.c:53) -/
def esl_normal_pdf (x mu sigma : α) : α :=
  let z := ((x - mu) / sigma)
  ((Num.exp (((-z) * z) * 0.5)) / (sigma * (Num.sqrt (2.0 * 3.14159265358979323846264338328))))

/-- `esl_normal_logpdf` (esl_normal.c:71) -/
def esl_normal_logpdf (x mu sigma : α) : α :=
  let z := ((x - mu) / sigma)
  (((((-z) * z) * 0.5) - (Num.log sigma)) - (Num.log (Num.sqrt (2.0 * 3.14159265358979323846264338328))))

/-- `esl_normal_cdf` (esl_normal.c:89) -/
def esl_normal_cdf (x mu sigma : α) : α :=
  let z := ((x - mu) / sigma)
  (0.5 * (Num.erfc (((-1.0) * z) / (Num.sqrt 2.0))))

/-- `esl_normal_surv` (esl_normal.c:113) -/
def esl_normal_surv (x mu sigma : α) : α :=
  let z := ((x - mu) / sigma)
  (0.5 * (Num.erfc (z / (Num.sqrt 2.0))))

/-- `esl_lognormal_pdf` (esl_lognormal.c:20) -/
def esl_lognormal_pdf (x mu sigma : α) : α :=
  if (Num.eqb x (0.0) = true) then
    0.0
  else
    let z := (((Num.log x) - mu) / sigma)
    ((Num.exp (((-z) * z) * 0.5)) / ((x * sigma) * (Num.sqrt (2.0 * 3.14159265358979323846264338328))))

/-- `esl_lognormal_logpdf` (esl_lognormal.c:32) -/
def esl_lognormal_logpdf (x mu sigma : α) : α :=
  if (Num.eqb x (0.0) = true) then
    (-Num.inf)
  else
    let z := (((Num.log x) - mu) / sigma)
    (((-(Num.log (x * sigma))) - (0.5 * (Num.log (2.0 * 3.14159265358979323846264338328)))) - ((0.5 * z) * z))

/-- name → translated function (a generator parameter is the leading deviate `u`) -/
def dispatch (name : String) (a : List α) : Option α :=
  match name, a with
  | "esl_exp_pdf", [x0, x1, x2] => some (esl_exp_pdf x0 x1 x2)
  | "esl_exp_logpdf", [x0, x1, x2] => some (esl_exp_logpdf x0 x1 x2)
  | "esl_exp_cdf", [x0, x1, x2] => some (esl_exp_cdf x0 x1 x2)
  | "esl_exp_logcdf", [x0, x1, x2] => some (esl_exp_logcdf x0 x1 x2)
  | "esl_exp_surv", [x0, x1, x2] => some (esl_exp_surv x0 x1 x2)
  | "esl_exp_logsurv", [x0, x1, x2] => some (esl_exp_logsurv x0 x1 x2)
  | "esl_exp_invcdf", [x0, x1, x2] => some (esl_exp_invcdf x0 x1 x2)
  | "esl_exp_invsurv", [x0, x1, x2] => some (esl_exp_invsurv x0 x1 x2)
  | "esl_exp_Sample", [x0, x1, x2] => some (esl_exp_Sample x0 x1 x2)
  | "esl_gumbel_pdf", [x0, x1, x2] => some (esl_gumbel_pdf x0 x1 x2)
  | "esl_gumbel_logpdf", [x0, x1, x2] => some (esl_gumbel_logpdf x0 x1 x2)
  | "esl_gumbel_cdf", [x0, x1, x2] => some (esl_gumbel_cdf x0 x1 x2)
  | "esl_gumbel_logcdf", [x0, x1, x2] => some (esl_gumbel_logcdf x0 x1 x2)
  | "esl_gumbel_surv", [x0, x1, x2] => some (esl_gumbel_surv x0 x1 x2)
  | "esl_gumbel_logsurv", [x0, x1, x2] => some (esl_gumbel_logsurv x0 x1 x2)
  | "esl_gumbel_invcdf", [x0, x1, x2] => some (esl_gumbel_invcdf x0 x1 x2)
  | "esl_gumbel_invsurv", [x0, x1, x2] => some (esl_gumbel_invsurv x0 x1 x2)
  | "esl_gumbel_Sample", [x0, x1, x2] => some (esl_gumbel_Sample x0 x1 x2)
  | "esl_gev_pdf", [x0, x1, x2, x3] => some (esl_gev_pdf x0 x1 x2 x3)
  | "esl_gev_logpdf", [x0, x1, x2, x3] => some (esl_gev_logpdf x0 x1 x2 x3)
  | "esl_gev_cdf", [x0, x1, x2, x3] => some (esl_gev_cdf x0 x1 x2 x3)
  | "esl_gev_logcdf", [x0, x1, x2, x3] => some (esl_gev_logcdf x0 x1 x2 x3)
  | "esl_gev_surv", [x0, x1, x2, x3] => some (esl_gev_surv x0 x1 x2 x3)
  | "esl_gev_logsurv", [x0, x1, x2, x3] => some (esl_gev_logsurv x0 x1 x2 x3)
  | "esl_gev_invcdf", [x0, x1, x2, x3] => some (esl_gev_invcdf x0 x1 x2 x3)
  | "esl_gev_Sample", [x0, x1, x2, x3] => some (esl_gev_Sample x0 x1 x2 x3)
  | "esl_wei_pdf", [x0, x1, x2, x3] => some (esl_wei_pdf x0 x1 x2 x3)
  | "esl_wei_logpdf", [x0, x1, x2, x3] => some (esl_wei_logpdf x0 x1 x2 x3)
  | "esl_wei_cdf", [x0, x1, x2, x3] => some (esl_wei_cdf x0 x1 x2 x3)
  | "esl_wei_logcdf", [x0, x1, x2, x3] => some (esl_wei_logcdf x0 x1 x2 x3)
  | "esl_wei_surv", [x0, x1, x2, x3] => some (esl_wei_surv x0 x1 x2 x3)
  | "esl_wei_logsurv", [x0, x1, x2, x3] => some (esl_wei_logsurv x0 x1 x2 x3)
  | "esl_wei_invcdf", [x0, x1, x2, x3] => some (esl_wei_invcdf x0 x1 x2 x3)
  | "esl_wei_Sample", [x0, x1, x2, x3] => some (esl_wei_Sample x0 x1 x2 x3)
  | "esl_sxp_pdf", [x0, x1, x2, x3] => some (esl_sxp_pdf x0 x1 x2 x3)
  | "esl_sxp_logpdf", [x0, x1, x2, x3] => some (esl_sxp_logpdf x0 x1 x2 x3)
  | "esl_sxp_cdf", [x0, x1, x2, x3] => some (esl_sxp_cdf x0 x1 x2 x3)
  | "esl_sxp_logcdf", [x0, x1, x2, x3] => some (esl_sxp_logcdf x0 x1 x2 x3)
  | "esl_sxp_surv", [x0, x1, x2, x3] => some (esl_sxp_surv x0 x1 x2 x3)
  | "esl_sxp_logsurv", [x0, x1, x2, x3] => some (esl_sxp_logsurv x0 x1 x2 x3)
  | "esl_gam_pdf", [x0, x1, x2, x3] => some (esl_gam_pdf x0 x1 x2 x3)
  | "esl_gam_logpdf", [x0, x1, x2, x3] => some (esl_gam_logpdf x0 x1 x2 x3)
  | "esl_gam_cdf", [x0, x1, x2, x3] => some (esl_gam_cdf x0 x1 x2 x3)
  | "esl_gam_logcdf", [x0, x1, x2, x3] => some (esl_gam_logcdf x0 x1 x2 x3)
  | "esl_gam_surv", [x0, x1, x2, x3] => some (esl_gam_surv x0 x1 x2 x3)
  | "esl_gam_logsurv", [x0, x1, x2, x3] => some (esl_gam_logsurv x0 x1 x2 x3)
  | "esl_normal_pdf", [x0, x1, x2] => some (esl_normal_pdf x0 x1 x2)
  | "esl_normal_logpdf", [x0, x1, x2] => some (esl_normal_logpdf x0 x1 x2)
  | "esl_normal_cdf", [x0, x1, x2] => some (esl_normal_cdf x0 x1 x2)
  | "esl_normal_surv", [x0, x1, x2] => some (esl_normal_surv x0 x1 x2)
  | "esl_lognormal_pdf", [x0, x1, x2] => some (esl_lognormal_pdf x0 x1 x2)
  | "esl_lognormal_logpdf", [x0, x1, x2] => some (esl_lognormal_logpdf x0 x1 x2)
  | _, _ => none

end EaselModel.Dist.Gen
