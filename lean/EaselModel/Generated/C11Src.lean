/-! Regenerated from the working tree's esl_gumbel.c by props/c11.py (`SPEC.generated`) on every run. -/
namespace EaselModel.Stats
/-- does `esl_gumbel_FitComplete()` evaluate the first bracketing test of its bisection fallback at `right` (as `FitCensored` does)
    or at the lambda left over by Newton/Raphson? (read off the source: `lawless416(x, n, right|lambda, &fx, &dfx)` before `while (fx > 0.)`) -/
def fitCompleteBracketsAtRight : Bool := true
end EaselModel.Stats
