import EaselModel.Vec.CSem
/-! GENERATED on every run by translate/vec2lean.py from the working tree's esl_vectorops.c / esl_matrixops.c — do not edit.
    Each definition is the C function of the same name as clang-14 parsed it: arrays are `Array α` with bounds-checked access
    (`rd`/`wr`: out of bounds = `none`), element operations are those of `CElem α` (`none` = signed overflow), index arithmetic
    is on `Int`, counted loops are `loop lo hi state body`. -/
set_option linter.unusedVariables false
namespace EaselModel.Vec.Gen
open EaselModel.Vec
variable {α : Type} [CElem α]

/-- `esl_vec_DSet` (esl_vectorops.c:31) -/
def esl_vec_DSet (vec : Array α) (n : Int) (value : α) : Option (Array α) := do
  let vec ← loop 0 n vec fun i vec => do
      let vec ← wr vec i value
      pure vec
  pure vec

/-- `esl_vec_FSet` (esl_vectorops.c:37) -/
def esl_vec_FSet (vec : Array α) (n : Int) (value : α) : Option (Array α) := do
  let vec ← loop 0 n vec fun i vec => do
      let vec ← wr vec i value
      pure vec
  pure vec

/-- `esl_vec_ISet` (esl_vectorops.c:43) -/
def esl_vec_ISet (vec : Array α) (n : Int) (value : α) : Option (Array α) := do
  let vec ← loop 0 n vec fun i vec => do
      let vec ← wr vec i value
      pure vec
  pure vec

/-- `esl_vec_LSet` (esl_vectorops.c:49) -/
def esl_vec_LSet (vec : Array α) (n : Int) (value : α) : Option (Array α) := do
  let vec ← loop 0 n vec fun i vec => do
      let vec ← wr vec i value
      pure vec
  pure vec

/-- `esl_vec_DScale` (esl_vectorops.c:62) -/
def esl_vec_DScale (vec : Array α) (n : Int) (scale : α) : Option (Array α) := do
  let vec ← loop 0 n vec fun i vec => do
      let t1 ← rd vec i
      let t2 ← CElem.mul t1 scale
      let vec ← wr vec i t2
      pure vec
  pure vec

/-- `esl_vec_FScale` (esl_vectorops.c:68) -/
def esl_vec_FScale (vec : Array α) (n : Int) (scale : α) : Option (Array α) := do
  let vec ← loop 0 n vec fun i vec => do
      let t1 ← rd vec i
      let t2 ← CElem.mul t1 scale
      let vec ← wr vec i t2
      pure vec
  pure vec

/-- `esl_vec_IScale` (esl_vectorops.c:74) -/
def esl_vec_IScale (vec : Array α) (n : Int) (scale : α) : Option (Array α) := do
  let vec ← loop 0 n vec fun i vec => do
      let t1 ← rd vec i
      let t2 ← CElem.mul t1 scale
      let vec ← wr vec i t2
      pure vec
  pure vec

/-- `esl_vec_LScale` (esl_vectorops.c:80) -/
def esl_vec_LScale (vec : Array α) (n : Int) (scale : α) : Option (Array α) := do
  let vec ← loop 0 n vec fun i vec => do
      let t1 ← rd vec i
      let t2 ← CElem.mul t1 scale
      let vec ← wr vec i t2
      pure vec
  pure vec

/-- `esl_vec_DIncrement` (esl_vectorops.c:94) -/
def esl_vec_DIncrement (v : Array α) (n : Int) (x : α) : Option (Array α) := do
  let v ← loop 0 n v fun i v => do
      let t1 ← rd v i
      let t2 ← CElem.add t1 x
      let v ← wr v i t2
      pure v
  pure v

/-- `esl_vec_FIncrement` (esl_vectorops.c:100) -/
def esl_vec_FIncrement (v : Array α) (n : Int) (x : α) : Option (Array α) := do
  let v ← loop 0 n v fun i v => do
      let t1 ← rd v i
      let t2 ← CElem.add t1 x
      let v ← wr v i t2
      pure v
  pure v

/-- `esl_vec_IIncrement` (esl_vectorops.c:106) -/
def esl_vec_IIncrement (v : Array α) (n : Int) (x : α) : Option (Array α) := do
  let v ← loop 0 n v fun i v => do
      let t1 ← rd v i
      let t2 ← CElem.add t1 x
      let v ← wr v i t2
      pure v
  pure v

/-- `esl_vec_LIncrement` (esl_vectorops.c:112) -/
def esl_vec_LIncrement (v : Array α) (n : Int) (x : α) : Option (Array α) := do
  let v ← loop 0 n v fun i v => do
      let t1 ← rd v i
      let t2 ← CElem.add t1 x
      let v ← wr v i t2
      pure v
  pure v

/-- `esl_vec_DAdd` (esl_vectorops.c:127) -/
def esl_vec_DAdd (vec1 : Array α) (vec2 : Array α) (n : Int) : Option (Array α) := do
  let vec1 ← loop 0 n vec1 fun i vec1 => do
      let t1 ← rd vec1 i
      let t2 ← rd vec2 i
      let t3 ← CElem.add t1 t2
      let vec1 ← wr vec1 i t3
      pure vec1
  pure vec1

/-- `esl_vec_FAdd` (esl_vectorops.c:133) -/
def esl_vec_FAdd (vec1 : Array α) (vec2 : Array α) (n : Int) : Option (Array α) := do
  let vec1 ← loop 0 n vec1 fun i vec1 => do
      let t1 ← rd vec1 i
      let t2 ← rd vec2 i
      let t3 ← CElem.add t1 t2
      let vec1 ← wr vec1 i t3
      pure vec1
  pure vec1

/-- `esl_vec_IAdd` (esl_vectorops.c:139) -/
def esl_vec_IAdd (vec1 : Array α) (vec2 : Array α) (n : Int) : Option (Array α) := do
  let vec1 ← loop 0 n vec1 fun i vec1 => do
      let t1 ← rd vec1 i
      let t2 ← rd vec2 i
      let t3 ← CElem.add t1 t2
      let vec1 ← wr vec1 i t3
      pure vec1
  pure vec1

/-- `esl_vec_LAdd` (esl_vectorops.c:145) -/
def esl_vec_LAdd (vec1 : Array α) (vec2 : Array α) (n : Int) : Option (Array α) := do
  let vec1 ← loop 0 n vec1 fun i vec1 => do
      let t1 ← rd vec1 i
      let t2 ← rd vec2 i
      let t3 ← CElem.add t1 t2
      let vec1 ← wr vec1 i t3
      pure vec1
  pure vec1

/-- `esl_vec_DAddScaled` (esl_vectorops.c:159) -/
def esl_vec_DAddScaled (vec1 : Array α) (vec2 : Array α) (a : α) (n : Int) : Option (Array α) := do
  let vec1 ← loop 0 n vec1 fun i vec1 => do
      let t1 ← rd vec1 i
      let t2 ← rd vec2 i
      let t3 ← CElem.mul t2 a
      let t4 ← CElem.add t1 t3
      let vec1 ← wr vec1 i t4
      pure vec1
  pure vec1

/-- `esl_vec_FAddScaled` (esl_vectorops.c:165) -/
def esl_vec_FAddScaled (vec1 : Array α) (vec2 : Array α) (a : α) (n : Int) : Option (Array α) := do
  let vec1 ← loop 0 n vec1 fun i vec1 => do
      let t1 ← rd vec1 i
      let t2 ← rd vec2 i
      let t3 ← CElem.mul t2 a
      let t4 ← CElem.add t1 t3
      let vec1 ← wr vec1 i t4
      pure vec1
  pure vec1

/-- `esl_vec_IAddScaled` (esl_vectorops.c:171) -/
def esl_vec_IAddScaled (vec1 : Array α) (vec2 : Array α) (a : α) (n : Int) : Option (Array α) := do
  let vec1 ← loop 0 n vec1 fun i vec1 => do
      let t1 ← rd vec1 i
      let t2 ← rd vec2 i
      let t3 ← CElem.mul t2 a
      let t4 ← CElem.add t1 t3
      let vec1 ← wr vec1 i t4
      pure vec1
  pure vec1

/-- `esl_vec_LAddScaled` (esl_vectorops.c:177) -/
def esl_vec_LAddScaled (vec1 : Array α) (vec2 : Array α) (a : α) (n : Int) : Option (Array α) := do
  let vec1 ← loop 0 n vec1 fun i vec1 => do
      let t1 ← rd vec1 i
      let t2 ← rd vec2 i
      let t3 ← CElem.mul t2 a
      let t4 ← CElem.add t1 t3
      let vec1 ← wr vec1 i t4
      pure vec1
  pure vec1

/-- `esl_vec_DSum` (esl_vectorops.c:198) -/
def esl_vec_DSum (vec : Array α) (n : Int) : Option (α) := do
  let sum := (CElem.ofNat 0 : α)
  let c := (CElem.ofNat 0 : α)
  let s ← loop 0 n (c, sum) fun i s => do
      let c := s.1
      let sum := s.2
      let t1 ← rd vec i
      let y ← CElem.sub t1 c
      let t ← CElem.add sum y
      let t2 ← CElem.sub t sum
      let c ← CElem.sub t2 y
      let sum := t
      pure (c, sum)
  let c := s.1
  let sum := s.2
  pure sum

/-- `esl_vec_FSum` (esl_vectorops.c:211) -/
def esl_vec_FSum (vec : Array α) (n : Int) : Option (α) := do
  let sum := (CElem.ofNat 0 : α)
  let c := (CElem.ofNat 0 : α)
  let s ← loop 0 n (c, sum) fun i s => do
      let c := s.1
      let sum := s.2
      let t1 ← rd vec i
      let y ← CElem.sub t1 c
      let t ← CElem.add sum y
      let t2 ← CElem.sub t sum
      let c ← CElem.sub t2 y
      let sum := t
      pure (c, sum)
  let c := s.1
  let sum := s.2
  pure sum

/-- `esl_vec_ISum` (esl_vectorops.c:224) -/
def esl_vec_ISum (vec : Array α) (n : Int) : Option (α) := do
  let sum := (CElem.ofNat 0 : α)
  let sum ← loop 0 n sum fun i sum => do
      let t1 ← rd vec i
      let sum ← CElem.add sum t1
      pure sum
  pure sum

/-- `esl_vec_LSum` (esl_vectorops.c:232) -/
def esl_vec_LSum (vec : Array α) (n : Int) : Option (α) := do
  let sum := (CElem.ofNat 0 : α)
  let sum ← loop 0 n sum fun i sum => do
      let t1 ← rd vec i
      let sum ← CElem.add sum t1
      pure sum
  pure sum

/-- `esl_vec_DDot` (esl_vectorops.c:248) -/
def esl_vec_DDot (vec1 : Array α) (vec2 : Array α) (n : Int) : Option (α) := do
  let result := (CElem.ofNat 0 : α)
  let result ← loop 0 n result fun i result => do
      let t1 ← rd vec1 i
      let t2 ← rd vec2 i
      let t3 ← CElem.mul t1 t2
      let result ← CElem.add result t3
      pure result
  pure result

/-- `esl_vec_FDot` (esl_vectorops.c:256) -/
def esl_vec_FDot (vec1 : Array α) (vec2 : Array α) (n : Int) : Option (α) := do
  let result := (CElem.ofNat 0 : α)
  let result ← loop 0 n result fun i result => do
      let t1 ← rd vec1 i
      let t2 ← rd vec2 i
      let t3 ← CElem.mul t1 t2
      let result ← CElem.add result t3
      pure result
  pure result

/-- `esl_vec_IDot` (esl_vectorops.c:264) -/
def esl_vec_IDot (vec1 : Array α) (vec2 : Array α) (n : Int) : Option (α) := do
  let result := (CElem.ofNat 0 : α)
  let result ← loop 0 n result fun i result => do
      let t1 ← rd vec1 i
      let t2 ← rd vec2 i
      let t3 ← CElem.mul t1 t2
      let result ← CElem.add result t3
      pure result
  pure result

/-- `esl_vec_LDot` (esl_vectorops.c:272) -/
def esl_vec_LDot (vec1 : Array α) (vec2 : Array α) (n : Int) : Option (α) := do
  let result := (CElem.ofNat 0 : α)
  let result ← loop 0 n result fun i result => do
      let t1 ← rd vec1 i
      let t2 ← rd vec2 i
      let t3 ← CElem.mul t1 t2
      let result ← CElem.add result t3
      pure result
  pure result

/-- `esl_vec_DMax` (esl_vectorops.c:289) -/
def esl_vec_DMax (vec : Array α) (n : Int) : Option (α) := do
  let best ← rd vec 0
  let best ← loop 1 n best fun i best => do
      let t1 ← rd vec i
      let best ← if (VOrd.lt best t1) then do
          let best ← rd vec i
          pure best
        else pure best
      pure best
  pure best

/-- `esl_vec_FMax` (esl_vectorops.c:299) -/
def esl_vec_FMax (vec : Array α) (n : Int) : Option (α) := do
  let best ← rd vec 0
  let best ← loop 1 n best fun i best => do
      let t1 ← rd vec i
      let best ← if (VOrd.lt best t1) then do
          let best ← rd vec i
          pure best
        else pure best
      pure best
  pure best

/-- `esl_vec_IMax` (esl_vectorops.c:309) -/
def esl_vec_IMax (vec : Array α) (n : Int) : Option (α) := do
  let best ← rd vec 0
  let best ← loop 1 n best fun i best => do
      let t1 ← rd vec i
      let best ← if (VOrd.lt best t1) then do
          let best ← rd vec i
          pure best
        else pure best
      pure best
  pure best

/-- `esl_vec_LMax` (esl_vectorops.c:319) -/
def esl_vec_LMax (vec : Array α) (n : Int) : Option (α) := do
  let best ← rd vec 0
  let best ← loop 1 n best fun i best => do
      let t1 ← rd vec i
      let best ← if (VOrd.lt best t1) then do
          let best ← rd vec i
          pure best
        else pure best
      pure best
  pure best

/-- `esl_vec_DMin` (esl_vectorops.c:338) -/
def esl_vec_DMin (vec : Array α) (n : Int) : Option (α) := do
  let best ← rd vec 0
  let best ← loop 1 n best fun i best => do
      let t1 ← rd vec i
      let best ← if (VOrd.lt t1 best) then do
          let best ← rd vec i
          pure best
        else pure best
      pure best
  pure best

/-- `esl_vec_FMin` (esl_vectorops.c:348) -/
def esl_vec_FMin (vec : Array α) (n : Int) : Option (α) := do
  let best ← rd vec 0
  let best ← loop 1 n best fun i best => do
      let t1 ← rd vec i
      let best ← if (VOrd.lt t1 best) then do
          let best ← rd vec i
          pure best
        else pure best
      pure best
  pure best

/-- `esl_vec_IMin` (esl_vectorops.c:358) -/
def esl_vec_IMin (vec : Array α) (n : Int) : Option (α) := do
  let best ← rd vec 0
  let best ← loop 1 n best fun i best => do
      let t1 ← rd vec i
      let best ← if (VOrd.lt t1 best) then do
          let best ← rd vec i
          pure best
        else pure best
      pure best
  pure best

/-- `esl_vec_LMin` (esl_vectorops.c:368) -/
def esl_vec_LMin (vec : Array α) (n : Int) : Option (α) := do
  let best ← rd vec 0
  let best ← loop 1 n best fun i best => do
      let t1 ← rd vec i
      let best ← if (VOrd.lt t1 best) then do
          let best ← rd vec i
          pure best
        else pure best
      pure best
  pure best

/-- `esl_vec_DArgMax` (esl_vectorops.c:393) -/
def esl_vec_DArgMax (vec : Array α) (n : Int) : Option (Int) := do
  let best : Int := 0
  let best ← loop 1 n best fun i best => do
      let t1 ← rd vec i
      let t2 ← rd vec best
      let best ← if (VOrd.lt t2 t1) then do
          let best : Int := i
          pure best
        else pure best
      pure best
  pure (best : Int)

/-- `esl_vec_FArgMax` (esl_vectorops.c:403) -/
def esl_vec_FArgMax (vec : Array α) (n : Int) : Option (Int) := do
  let best : Int := 0
  let best ← loop 1 n best fun i best => do
      let t1 ← rd vec i
      let t2 ← rd vec best
      let best ← if (VOrd.lt t2 t1) then do
          let best : Int := i
          pure best
        else pure best
      pure best
  pure (best : Int)

/-- `esl_vec_IArgMax` (esl_vectorops.c:413) -/
def esl_vec_IArgMax (vec : Array α) (n : Int) : Option (Int) := do
  let best : Int := 0
  let best ← loop 1 n best fun i best => do
      let t1 ← rd vec i
      let t2 ← rd vec best
      let best ← if (VOrd.lt t2 t1) then do
          let best : Int := i
          pure best
        else pure best
      pure best
  pure (best : Int)

/-- `esl_vec_LArgMax` (esl_vectorops.c:423) -/
def esl_vec_LArgMax (vec : Array α) (n : Int) : Option (Int) := do
  let best : Int := 0
  let best ← loop 1 n best fun i best => do
      let t1 ← rd vec i
      let t2 ← rd vec best
      let best ← if (VOrd.lt t2 t1) then do
          let best : Int := i
          pure best
        else pure best
      pure best
  pure (best : Int)

/-- `esl_vec_DArgMin` (esl_vectorops.c:440) -/
def esl_vec_DArgMin (vec : Array α) (n : Int) : Option (Int) := do
  let best : Int := 0
  let best ← loop 1 n best fun i best => do
      let t1 ← rd vec i
      let t2 ← rd vec best
      let best ← if (VOrd.lt t1 t2) then do
          let best : Int := i
          pure best
        else pure best
      pure best
  pure (best : Int)

/-- `esl_vec_FArgMin` (esl_vectorops.c:450) -/
def esl_vec_FArgMin (vec : Array α) (n : Int) : Option (Int) := do
  let best : Int := 0
  let best ← loop 1 n best fun i best => do
      let t1 ← rd vec i
      let t2 ← rd vec best
      let best ← if (VOrd.lt t1 t2) then do
          let best : Int := i
          pure best
        else pure best
      pure best
  pure (best : Int)

/-- `esl_vec_IArgMin` (esl_vectorops.c:460) -/
def esl_vec_IArgMin (vec : Array α) (n : Int) : Option (Int) := do
  let best : Int := 0
  let best ← loop 1 n best fun i best => do
      let t1 ← rd vec i
      let t2 ← rd vec best
      let best ← if (VOrd.lt t1 t2) then do
          let best : Int := i
          pure best
        else pure best
      pure best
  pure (best : Int)

/-- `esl_vec_LArgMin` (esl_vectorops.c:470) -/
def esl_vec_LArgMin (vec : Array α) (n : Int) : Option (Int) := do
  let best : Int := 0
  let best ← loop 1 n best fun i best => do
      let t1 ← rd vec i
      let t2 ← rd vec best
      let best ← if (VOrd.lt t1 t2) then do
          let best : Int := i
          pure best
        else pure best
      pure best
  pure (best : Int)

/-- `esl_vec_DCopy` (esl_vectorops.c:489) -/
def esl_vec_DCopy (src : Array α) (n : Int) (dest : Array α) : Option (Array α) := do
  let dest ← loop 0 n dest fun i dest => do
      let t1 ← rd src i
      let dest ← wr dest i t1
      pure dest
  pure dest

/-- `esl_vec_FCopy` (esl_vectorops.c:495) -/
def esl_vec_FCopy (src : Array α) (n : Int) (dest : Array α) : Option (Array α) := do
  let dest ← loop 0 n dest fun i dest => do
      let t1 ← rd src i
      let dest ← wr dest i t1
      pure dest
  pure dest

/-- `esl_vec_ICopy` (esl_vectorops.c:501) -/
def esl_vec_ICopy (src : Array α) (n : Int) (dest : Array α) : Option (Array α) := do
  let dest ← loop 0 n dest fun i dest => do
      let t1 ← rd src i
      let dest ← wr dest i t1
      pure dest
  pure dest

/-- `esl_vec_LCopy` (esl_vectorops.c:507) -/
def esl_vec_LCopy (src : Array α) (n : Int) (dest : Array α) : Option (Array α) := do
  let dest ← loop 0 n dest fun i dest => do
      let t1 ← rd src i
      let dest ← wr dest i t1
      pure dest
  pure dest

/-- `esl_vec_DSwap` (esl_vectorops.c:537) -/
def esl_vec_DSwap (vec1 : Array α) (vec2 : Array α) (n : Int) : Option (Array α × Array α) := do
  let s ← loop 0 n (vec1, vec2) fun i s => do
      let vec1 := s.1
      let vec2 := s.2
      let tmp ← rd vec1 i
      let t1 ← rd vec2 i
      let vec1 ← wr vec1 i t1
      let vec2 ← wr vec2 i tmp
      pure (vec1, vec2)
  let vec1 := s.1
  let vec2 := s.2
  pure (vec1, vec2)

/-- `esl_vec_FSwap` (esl_vectorops.c:546) -/
def esl_vec_FSwap (vec1 : Array α) (vec2 : Array α) (n : Int) : Option (Array α × Array α) := do
  let s ← loop 0 n (vec1, vec2) fun i s => do
      let vec1 := s.1
      let vec2 := s.2
      let tmp ← rd vec1 i
      let t1 ← rd vec2 i
      let vec1 ← wr vec1 i t1
      let vec2 ← wr vec2 i tmp
      pure (vec1, vec2)
  let vec1 := s.1
  let vec2 := s.2
  pure (vec1, vec2)

/-- `esl_vec_ISwap` (esl_vectorops.c:555) -/
def esl_vec_ISwap (vec1 : Array α) (vec2 : Array α) (n : Int) : Option (Array α × Array α) := do
  let s ← loop 0 n (vec1, vec2) fun i s => do
      let vec1 := s.1
      let vec2 := s.2
      let tmp ← rd vec1 i
      let t1 ← rd vec2 i
      let vec1 ← wr vec1 i t1
      let vec2 ← wr vec2 i tmp
      pure (vec1, vec2)
  let vec1 := s.1
  let vec2 := s.2
  pure (vec1, vec2)

/-- `esl_vec_LSwap` (esl_vectorops.c:564) -/
def esl_vec_LSwap (vec1 : Array α) (vec2 : Array α) (n : Int) : Option (Array α × Array α) := do
  let s ← loop 0 n (vec1, vec2) fun i s => do
      let vec1 := s.1
      let vec2 := s.2
      let tmp ← rd vec1 i
      let t1 ← rd vec2 i
      let vec1 ← wr vec1 i t1
      let vec2 ← wr vec2 i tmp
      pure (vec1, vec2)
  let vec1 := s.1
  let vec2 := s.2
  pure (vec1, vec2)

/-- `esl_vec_DReverse` (esl_vectorops.c:593) -/
def esl_vec_DReverse (vec : Array α) (rev : Array α) (n : Int) : Option (Array α) := do
  let rev ← loop 0 (Int.tdiv n 2) rev fun i rev => do
      let x ← rd vec ((n - i) - 1)
      let t1 ← rd vec i
      let rev ← wr rev ((n - i) - 1) t1
      let rev ← wr rev i x
      pure rev
  let i : Int := if 0 ≤ (Int.tdiv n 2) then (Int.tdiv n 2) else 0
  let rev ← if (decide ((Int.tmod n 2) ≠ 0)) then do
      let t2 ← rd vec i
      let rev ← wr rev i t2
      pure rev
    else pure rev
  pure rev

/-- `esl_vec_DReverse` (esl_vectorops.c:593) with rev = vec -/
def esl_vec_DReverse_inplace (vec : Array α) (n : Int) : Option (Array α) := do
  let vec ← loop 0 (Int.tdiv n 2) vec fun i vec => do
      let x ← rd vec ((n - i) - 1)
      let t1 ← rd vec i
      let vec ← wr vec ((n - i) - 1) t1
      let vec ← wr vec i x
      pure vec
  let i : Int := if 0 ≤ (Int.tdiv n 2) then (Int.tdiv n 2) else 0
  let vec ← if (decide ((Int.tmod n 2) ≠ 0)) then do
      let t2 ← rd vec i
      let vec ← wr vec i t2
      pure vec
    else pure vec
  pure vec

/-- `esl_vec_FReverse` (esl_vectorops.c:607) -/
def esl_vec_FReverse (vec : Array α) (rev : Array α) (n : Int) : Option (Array α) := do
  let rev ← loop 0 (Int.tdiv n 2) rev fun i rev => do
      let x ← rd vec ((n - i) - 1)
      let t1 ← rd vec i
      let rev ← wr rev ((n - i) - 1) t1
      let rev ← wr rev i x
      pure rev
  let i : Int := if 0 ≤ (Int.tdiv n 2) then (Int.tdiv n 2) else 0
  let rev ← if (decide ((Int.tmod n 2) ≠ 0)) then do
      let t2 ← rd vec i
      let rev ← wr rev i t2
      pure rev
    else pure rev
  pure rev

/-- `esl_vec_FReverse` (esl_vectorops.c:607) with rev = vec -/
def esl_vec_FReverse_inplace (vec : Array α) (n : Int) : Option (Array α) := do
  let vec ← loop 0 (Int.tdiv n 2) vec fun i vec => do
      let x ← rd vec ((n - i) - 1)
      let t1 ← rd vec i
      let vec ← wr vec ((n - i) - 1) t1
      let vec ← wr vec i x
      pure vec
  let i : Int := if 0 ≤ (Int.tdiv n 2) then (Int.tdiv n 2) else 0
  let vec ← if (decide ((Int.tmod n 2) ≠ 0)) then do
      let t2 ← rd vec i
      let vec ← wr vec i t2
      pure vec
    else pure vec
  pure vec

/-- `esl_vec_IReverse` (esl_vectorops.c:621) -/
def esl_vec_IReverse (vec : Array α) (rev : Array α) (n : Int) : Option (Array α) := do
  let rev ← loop 0 (Int.tdiv n 2) rev fun i rev => do
      let x ← rd vec ((n - i) - 1)
      let t1 ← rd vec i
      let rev ← wr rev ((n - i) - 1) t1
      let rev ← wr rev i x
      pure rev
  let i : Int := if 0 ≤ (Int.tdiv n 2) then (Int.tdiv n 2) else 0
  let rev ← if (decide ((Int.tmod n 2) ≠ 0)) then do
      let t2 ← rd vec i
      let rev ← wr rev i t2
      pure rev
    else pure rev
  pure rev

/-- `esl_vec_IReverse` (esl_vectorops.c:621) with rev = vec -/
def esl_vec_IReverse_inplace (vec : Array α) (n : Int) : Option (Array α) := do
  let vec ← loop 0 (Int.tdiv n 2) vec fun i vec => do
      let x ← rd vec ((n - i) - 1)
      let t1 ← rd vec i
      let vec ← wr vec ((n - i) - 1) t1
      let vec ← wr vec i x
      pure vec
  let i : Int := if 0 ≤ (Int.tdiv n 2) then (Int.tdiv n 2) else 0
  let vec ← if (decide ((Int.tmod n 2) ≠ 0)) then do
      let t2 ← rd vec i
      let vec ← wr vec i t2
      pure vec
    else pure vec
  pure vec

/-- `esl_vec_LReverse` (esl_vectorops.c:635) -/
def esl_vec_LReverse (vec : Array α) (rev : Array α) (n : Int) : Option (Array α) := do
  let rev ← loop 0 (Int.tdiv n 2) rev fun i rev => do
      let x ← rd vec ((n - i) - 1)
      let t1 ← rd vec i
      let rev ← wr rev ((n - i) - 1) t1
      let rev ← wr rev i x
      pure rev
  let i : Int := if 0 ≤ (Int.tdiv n 2) then (Int.tdiv n 2) else 0
  let rev ← if (decide ((Int.tmod n 2) ≠ 0)) then do
      let t2 ← rd vec i
      let rev ← wr rev i t2
      pure rev
    else pure rev
  pure rev

/-- `esl_vec_LReverse` (esl_vectorops.c:635) with rev = vec -/
def esl_vec_LReverse_inplace (vec : Array α) (n : Int) : Option (Array α) := do
  let vec ← loop 0 (Int.tdiv n 2) vec fun i vec => do
      let x ← rd vec ((n - i) - 1)
      let t1 ← rd vec i
      let vec ← wr vec ((n - i) - 1) t1
      let vec ← wr vec i x
      pure vec
  let i : Int := if 0 ≤ (Int.tdiv n 2) then (Int.tdiv n 2) else 0
  let vec ← if (decide ((Int.tmod n 2) ≠ 0)) then do
      let t2 ← rd vec i
      let vec ← wr vec i t2
      pure vec
    else pure vec
  pure vec

/-- `esl_vec_DCompare` (esl_vectorops.c:969) -/
def esl_vec_DCompare [VCmp α] (vec1 : Array α) (vec2 : Array α) (n : Int) (tol : α) : Option (Int) := do
  let t3 ← loopAny 0 n fun i => do
      let t1 ← rd vec1 i
      let t2 ← rd vec2 i
      pure (decide (compareOldStatus t1 t2 tol = 1))
  if t3 then
    pure (1 : Int)
  else
    pure (0 : Int)

/-- `esl_vec_FCompare` (esl_vectorops.c:976) -/
def esl_vec_FCompare [VCmp α] (vec1 : Array α) (vec2 : Array α) (n : Int) (tol : α) : Option (Int) := do
  let t3 ← loopAny 0 n fun i => do
      let t1 ← rd vec1 i
      let t2 ← rd vec2 i
      pure (decide (compareOldStatus t1 t2 tol = 1))
  if t3 then
    pure (1 : Int)
  else
    pure (0 : Int)

/-- `esl_vec_ICompare` (esl_vectorops.c:983) -/
def esl_vec_ICompare (vec1 : Array α) (vec2 : Array α) (n : Int) : Option (Int) := do
  let t3 ← loopAny 0 n fun i => do
      let t1 ← rd vec1 i
      let t2 ← rd vec2 i
      pure (!(CElem.eq t1 t2))
  if t3 then
    pure (1 : Int)
  else
    pure (0 : Int)

/-- `esl_vec_LCompare` (esl_vectorops.c:990) -/
def esl_vec_LCompare (vec1 : Array α) (vec2 : Array α) (n : Int) : Option (Int) := do
  let t3 ← loopAny 0 n fun i => do
      let t1 ← rd vec1 i
      let t2 ← rd vec2 i
      pure (!(CElem.eq t1 t2))
  if t3 then
    pure (1 : Int)
  else
    pure (0 : Int)

/-- `esl_vec_CReverse` (esl_vectorops.c:649) -/
def esl_vec_CReverse (vec : Array α) (rev : Array α) (n : Int) : Option (Array α) := do
  let rev ← loop 0 (Int.tdiv n 2) rev fun i rev => do
      let x ← rd vec ((n - i) - 1)
      let t1 ← rd vec i
      let rev ← wr rev ((n - i) - 1) t1
      let rev ← wr rev i x
      pure rev
  let i : Int := if 0 ≤ (Int.tdiv n 2) then (Int.tdiv n 2) else 0
  let rev ← if (decide ((Int.tmod n 2) ≠ 0)) then do
      let t2 ← rd vec i
      let rev ← wr rev i t2
      pure rev
    else pure rev
  pure rev

/-- `esl_vec_CReverse` (esl_vectorops.c:649) with rev = vec -/
def esl_vec_CReverse_inplace (vec : Array α) (n : Int) : Option (Array α) := do
  let vec ← loop 0 (Int.tdiv n 2) vec fun i vec => do
      let x ← rd vec ((n - i) - 1)
      let t1 ← rd vec i
      let vec ← wr vec ((n - i) - 1) t1
      let vec ← wr vec i x
      pure vec
  let i : Int := if 0 ≤ (Int.tdiv n 2) then (Int.tdiv n 2) else 0
  let vec ← if (decide ((Int.tmod n 2) ≠ 0)) then do
      let t2 ← rd vec i
      let vec ← wr vec i t2
      pure vec
    else pure vec
  pure vec

/-- `esl_vec_WCopy` (esl_vectorops.c:513) -/
def esl_vec_WCopy (src : Array α) (n : Int) (dest : Array α) : Option (Array α) := do
  let dest ← loop 0 n dest fun i dest => do
      let t1 ← rd src i
      let dest ← wr dest i t1
      pure dest
  pure dest

/-- `esl_vec_BCopy` (esl_vectorops.c:519) -/
def esl_vec_BCopy (src : Array α) (n : Int) (dest : Array α) : Option (Array α) := do
  let dest ← loop 0 n dest fun i dest => do
      let t1 ← rd src i
      let dest ← wr dest i t1
      pure dest
  pure dest

/-- `esl_vec_DNorm` (esl_vectorops.c:1142) -/
def esl_vec_DNorm [VNum α] (vec : Array α) (n : Int) : Option (Array α) := do
  let t1 ← esl_vec_DSum vec n
  let sum := t1
  let vec ← if (!(CElem.eq sum (CElem.ofNat 0 : α))) then do
      let vec ← loop 0 n vec fun i vec => do
          let t2 ← rd vec i
          let t3 := t2 / sum
          let vec ← wr vec i t3
          pure vec
      pure vec
    else do
      let vec ← loop 0 n vec fun i vec => do
          let t4 := (CElem.ofNat 1 : α) / (VNum.ofNat (n).toNat : α)
          let vec ← wr vec i t4
          pure vec
      pure vec
  pure vec

/-- `esl_vec_DLog` (esl_vectorops.c:1229) -/
def esl_vec_DLog [VInf α] (vec : Array α) (n : Int) : Option (Array α) := do
  let vec ← loop 0 n vec fun i vec => do
      let t1 ← rd vec i
      let t3 ← if (VOrd.lt (CElem.ofNat 0 : α) t1) then do
          let t2 ← rd vec i
          pure (VInf.log t2)
        else do
          pure (VInf.neg (VInf.inf : α))
      let vec ← wr vec i t3
      pure vec
  pure vec

/-- `esl_vec_DLog2` (esl_vectorops.c:1243) -/
def esl_vec_DLog2 [VInf α] (vec : Array α) (n : Int) : Option (Array α) := do
  let vec ← loop 0 n vec fun i vec => do
      let t1 ← rd vec i
      let t3 ← if (VOrd.lt (CElem.ofNat 0 : α) t1) then do
          let t2 ← rd vec i
          pure (VNum.log2 t2)
        else do
          pure (VInf.neg (VInf.inf : α))
      let vec ← wr vec i t3
      pure vec
  pure vec

/-- `esl_vec_DExp` (esl_vectorops.c:1271) -/
def esl_vec_DExp [VInf α] (vec : Array α) (n : Int) : Option (Array α) := do
  let vec ← loop 0 n vec fun i vec => do
      let t1 ← rd vec i
      let vec ← wr vec i (VInf.exp t1)
      pure vec
  pure vec

/-- `esl_vec_DExp2` (esl_vectorops.c:1283) -/
def esl_vec_DExp2 [VInf α] (vec : Array α) (n : Int) : Option (Array α) := do
  let vec ← loop 0 n vec fun i vec => do
      let t1 ← rd vec i
      let vec ← wr vec i (VInf.exp2 t1)
      pure vec
  pure vec

/-- `esl_vec_DLogSum` (esl_vectorops.c:1318) -/
def esl_vec_DLogSum [VInf α] (vec : Array α) (n : Int) : Option (α) := do
  let t1 ← esl_vec_DMax vec n
  let max_ := t1
  if (CElem.eq max_ (VInf.inf : α)) then
    pure (VInf.inf : α)
  else
    let sum := (CElem.ofNat 0 : α)
    let sum ← loop 0 n sum fun i sum => do
        let t2 ← rd vec i
        let t3 ← CElem.sub max_ (CElem.ofNat 500 : α)
        let sum ← if (VOrd.lt t3 t2) then do
            let t4 ← rd vec i
            let t5 ← CElem.sub t4 max_
            let sum ← CElem.add sum (VInf.exp t5)
            pure sum
          else pure sum
        pure sum
    let sum ← CElem.add (VInf.log sum) max_
    pure sum

/-- `esl_vec_DLog2Sum` (esl_vectorops.c:1348) -/
def esl_vec_DLog2Sum [VInf α] (vec : Array α) (n : Int) : Option (α) := do
  let t1 ← esl_vec_DMax vec n
  let max_ := t1
  if (CElem.eq max_ (VInf.inf : α)) then
    pure (VInf.inf : α)
  else
    let sum := (CElem.ofNat 0 : α)
    let sum ← loop 0 n sum fun i sum => do
        let t2 ← rd vec i
        let t3 ← CElem.sub max_ (CElem.ofNat 500 : α)
        let sum ← if (VOrd.lt t3 t2) then do
            let t4 ← rd vec i
            let t5 ← CElem.sub t4 max_
            let sum ← CElem.add sum (VInf.exp2 t5)
            pure sum
          else pure sum
        pure sum
    let sum ← CElem.add (VNum.log2 sum) max_
    pure sum

/-- `esl_vec_DLogNorm` (esl_vectorops.c:1174) -/
def esl_vec_DLogNorm [VInf α] (vec : Array α) (n : Int) : Option (Array α) := do
  let t1 ← esl_vec_DLogSum vec n
  let denom := t1
  let t2 ← CElem.mul (VInf.neg (CElem.ofNat 1 : α)) denom
  let vec ← esl_vec_DIncrement vec n t2
  let vec ← esl_vec_DExp vec n
  let vec ← esl_vec_DNorm vec n
  pure vec

/-- `esl_vec_DLog2Norm` (esl_vectorops.c:1194) -/
def esl_vec_DLog2Norm [VInf α] (vec : Array α) (n : Int) : Option (Array α) := do
  let t1 ← esl_vec_DLog2Sum vec n
  let denom := t1
  let t2 ← CElem.mul (VInf.neg (CElem.ofNat 1 : α)) denom
  let vec ← esl_vec_DIncrement vec n t2
  let vec ← esl_vec_DExp2 vec n
  let vec ← esl_vec_DNorm vec n
  pure vec

/-- `esl_vec_DEntropy` (esl_vectorops.c:1389) -/
def esl_vec_DEntropy [VNum α] (p : Array α) (n : Int) : Option (α) := do
  let H := (CElem.ofNat 0 : α)
  let H ← loop 0 n H fun i H => do
      let t1 ← rd p i
      let H ← if (VOrd.lt (CElem.ofNat 0 : α) t1) then do
          let t2 ← rd p i
          let t3 ← rd p i
          let t4 ← CElem.mul t2 (VNum.log2 t3)
          let H ← CElem.sub H t4
          pure H
        else pure H
      pure H
  pure H

/-- `esl_vec_FNorm` (esl_vectorops.c:1152) -/
def esl_vec_FNorm [VNum α] {ω : Type} [VMix α ω] [VNum ω] (vec : Array α) (n : Int) : Option (Array α) := do
  let t1 ← esl_vec_FSum vec n
  let sum := t1
  let vec ← if (!(VNum.eq (VMix.widen sum : ω) (VNum.ofNat 0 : ω))) then do
      let vec ← loop 0 n vec fun i vec => do
          let t2 ← rd vec i
          let t3 := t2 / sum
          let vec ← wr vec i t3
          pure vec
      pure vec
    else do
      let vec ← loop 0 n vec fun i vec => do
          let t4 : ω := (VNum.ofNat 1 : ω) / (VMix.widen (VNum.ofNat (n).toNat : α) : ω)
          let vec ← wr vec i (VMix.narrow t4)
          pure vec
      pure vec
  pure vec

/-- `esl_vec_FLog` (esl_vectorops.c:1236) -/
def esl_vec_FLog [VInf α] {ω : Type} [VMix α ω] [VNum ω] (vec : Array α) (n : Int) : Option (Array α) := do
  let vec ← loop 0 n vec fun i vec => do
      let t1 ← rd vec i
      let t3 ← if (VOrd.lt (VNum.ofNat 0 : ω) (VMix.widen t1 : ω)) then do
          let t2 ← rd vec i
          pure (VInf.log t2)
        else do
          pure (VInf.neg (VInf.inf : α))
      let vec ← wr vec i t3
      pure vec
  pure vec

/-- `esl_vec_FLog2` (esl_vectorops.c:1250) -/
def esl_vec_FLog2 [VInf α] {ω : Type} [VMix α ω] [VNum ω] (vec : Array α) (n : Int) : Option (Array α) := do
  let vec ← loop 0 n vec fun i vec => do
      let t1 ← rd vec i
      let t3 ← if (VOrd.lt (VNum.ofNat 0 : ω) (VMix.widen t1 : ω)) then do
          let t2 ← rd vec i
          pure (VNum.log2 t2)
        else do
          pure (VInf.neg (VInf.inf : α))
      let vec ← wr vec i t3
      pure vec
  pure vec

/-- `esl_vec_FExp` (esl_vectorops.c:1277) -/
def esl_vec_FExp [VInf α] (vec : Array α) (n : Int) : Option (Array α) := do
  let vec ← loop 0 n vec fun i vec => do
      let t1 ← rd vec i
      let vec ← wr vec i (VInf.exp t1)
      pure vec
  pure vec

/-- `esl_vec_FExp2` (esl_vectorops.c:1289) -/
def esl_vec_FExp2 [VInf α] (vec : Array α) (n : Int) : Option (Array α) := do
  let vec ← loop 0 n vec fun i vec => do
      let t1 ← rd vec i
      let vec ← wr vec i (VInf.exp2 t1)
      pure vec
  pure vec

/-- `esl_vec_FLogSum` (esl_vectorops.c:1333) -/
def esl_vec_FLogSum [VInf α] {ω : Type} [VMix α ω] [VNum ω] (vec : Array α) (n : Int) : Option (α) := do
  let t1 ← esl_vec_FMax vec n
  let max_ := t1
  if (CElem.eq max_ (VInf.inf : α)) then
    pure (VInf.inf : α)
  else
    let sum := (CElem.ofNat 0 : α)
    let sum ← loop 0 n sum fun i sum => do
        let t2 ← rd vec i
        let t3 : ω := (VMix.widen max_ : ω) - (VNum.ofNat 50 : ω)
        let sum ← if (VOrd.lt t3 (VMix.widen t2 : ω)) then do
            let t4 ← rd vec i
            let t5 ← CElem.sub t4 max_
            let sum ← CElem.add sum (VInf.exp t5)
            pure sum
          else pure sum
        pure sum
    let sum ← CElem.add (VInf.log sum) max_
    pure sum

/-- `esl_vec_FLog2Sum` (esl_vectorops.c:1363) -/
def esl_vec_FLog2Sum [VInf α] {ω : Type} [VMix α ω] [VNum ω] (vec : Array α) (n : Int) : Option (α) := do
  let t1 ← esl_vec_FMax vec n
  let max_ := t1
  if (CElem.eq max_ (VInf.inf : α)) then
    pure (VInf.inf : α)
  else
    let sum := (CElem.ofNat 0 : α)
    let sum ← loop 0 n sum fun i sum => do
        let t2 ← rd vec i
        let t3 : ω := (VMix.widen max_ : ω) - (VNum.ofNat 50 : ω)
        let sum ← if (VOrd.lt t3 (VMix.widen t2 : ω)) then do
            let t4 ← rd vec i
            let t5 ← CElem.sub t4 max_
            let sum ← CElem.add sum (VInf.exp2 t5)
            pure sum
          else pure sum
        pure sum
    let sum ← CElem.add (VNum.log2 sum) max_
    pure sum

/-- `esl_vec_FLogNorm` (esl_vectorops.c:1184) -/
def esl_vec_FLogNorm [VInf α] {ω : Type} [VMix α ω] [VInf ω] (vec : Array α) (n : Int) : Option (Array α) := do
  let t1 ← esl_vec_FLogSum vec n
  let denom := t1
  let t2 : ω := (VInf.neg (VNum.ofNat 1 : ω)) * (VMix.widen denom : ω)
  let vec ← esl_vec_FIncrement vec n (VMix.narrow t2)
  let vec ← esl_vec_FExp vec n
  let vec ← esl_vec_FNorm vec n
  pure vec

/-- `esl_vec_FLog2Norm` (esl_vectorops.c:1204) -/
def esl_vec_FLog2Norm [VInf α] {ω : Type} [VMix α ω] [VInf ω] (vec : Array α) (n : Int) : Option (Array α) := do
  let t1 ← esl_vec_FLog2Sum vec n
  let denom := t1
  let t2 : ω := (VInf.neg (VNum.ofNat 1 : ω)) * (VMix.widen denom : ω)
  let vec ← esl_vec_FIncrement vec n (VMix.narrow t2)
  let vec ← esl_vec_FExp2 vec n
  let vec ← esl_vec_FNorm vec n
  pure vec

/-- `esl_vec_FEntropy` (esl_vectorops.c:1399) -/
def esl_vec_FEntropy [VNum α] {ω : Type} [VMix α ω] [VNum ω] (p : Array α) (n : Int) : Option (α) := do
  let H := (CElem.ofNat 0 : α)
  let H ← loop 0 n H fun i H => do
      let t1 ← rd p i
      let H ← if (VOrd.lt (VNum.ofNat 0 : ω) (VMix.widen t1 : ω)) then do
          let t2 ← rd p i
          let t3 ← rd p i
          let t4 ← CElem.mul t2 (VNum.log2 t3)
          let H ← CElem.sub H t4
          pure H
        else pure H
      pure H
  pure H

/-- `esl_vec_D2F` (esl_vectorops.c:1106) -/
def esl_vec_D2F {ω : Type} [VMix α ω] [VNum ω] (src : Array ω) (n : Int) (dst : Array α) : Option (Array α) := do
  let dst ← loop 0 n dst fun i dst => do
      let t1 ← rd src i
      let dst ← wr dst i (VMix.narrow t1)
      pure dst
  pure dst

/-- `esl_vec_F2D` (esl_vectorops.c:1112) -/
def esl_vec_F2D {ω : Type} [VMix α ω] [VNum ω] (src : Array α) (n : Int) (dst : Array ω) : Option (Array ω) := do
  let dst ← loop 0 n dst fun i dst => do
      let t1 ← rd src i
      let dst ← wr dst i (VMix.widen t1 : ω)
      pure dst
  pure dst

/-- `esl_vec_I2F` (esl_vectorops.c:1118) -/
def esl_vec_I2F {ι : Type} [VInt α ι] (src : Array ι) (n : Int) (dst : Array α) : Option (Array α) := do
  let dst ← loop 0 n dst fun i dst => do
      let t1 ← rd src i
      let dst ← wr dst i (VInt.ofInt t1)
      pure dst
  pure dst

/-- `esl_vec_I2D` (esl_vectorops.c:1124) -/
def esl_vec_I2D {ι : Type} [VInt α ι] (src : Array ι) (n : Int) (dst : Array α) : Option (Array α) := do
  let dst ← loop 0 n dst fun i dst => do
      let t1 ← rd src i
      let dst ← wr dst i (VInt.ofInt t1)
      pure dst
  pure dst

/-- `esl_vec_DRelEntropy` (esl_vectorops.c:1425) -/
def esl_vec_DRelEntropy [VInf α] (p : Array α) (q : Array α) (n : Int) : Option (α) := do
  let kl := (CElem.ofNat 0 : α)
  let t8 ← loopRet 0 n kl fun i kl => do
      let t1 ← rd p i
      if (VOrd.lt (CElem.ofNat 0 : α) t1) then
        let t2 ← rd q i
        if (CElem.eq t2 (CElem.ofNat 0 : α)) then
          pure (Sum.inl (VInf.inf : α))
        else
          let t3 ← rd p i
          let t4 ← rd p i
          let t5 ← rd q i
          let t6 := t4 / t5
          let t7 ← CElem.mul t3 (VNum.log2 t6)
          let kl ← CElem.add kl t7
          pure (Sum.inr kl)
      else
        pure (Sum.inr kl)
  match t8 with
  | Sum.inl t9 =>
    pure t9
  | Sum.inr kl =>
    pure kl

/-- `esl_vec_FRelEntropy` (esl_vectorops.c:1439) -/
def esl_vec_FRelEntropy [VInf α] {ω : Type} [VMix α ω] [VNum ω] (p : Array α) (q : Array α) (n : Int) : Option (α) := do
  let kl := (CElem.ofNat 0 : α)
  let t9 ← loopRet 0 n kl fun i kl => do
      let t1 ← rd p i
      if (VOrd.lt (VNum.ofNat 0 : ω) (VMix.widen t1 : ω)) then
        let t2 ← rd q i
        if (VNum.eq (VMix.widen t2 : ω) (VNum.ofNat 0 : ω)) then
          pure (Sum.inl (VInf.inf : α))
        else
          let t3 ← rd p i
          let t4 ← rd p i
          let t5 ← rd q i
          let t6 := t4 / t5
          let t7 : ω := (VMix.widen t3 : ω) * (VNum.log2 (VMix.widen t6 : ω))
          let t8 : ω := (VMix.widen kl : ω) + t7
          let kl := VMix.narrow t8
          pure (Sum.inr kl)
      else
        pure (Sum.inr kl)
  match t9 with
  | Sum.inl t10 =>
    pure t10
  | Sum.inr kl =>
    pure kl

/-- `esl_vec_DValidate` (esl_vectorops.c:1522) -/
def esl_vec_DValidate [VFin α] (vec : Array α) (n : Int) (tol : α) : Option (Int) := do
  let sum := (CElem.ofNat 0 : α)
  if (decide (n = 0)) then
    pure (0 : Int)
  else
    let t7 ← loopRet 0 n sum fun i sum => do
        let t1 ← rd vec i
        let t3 ← if (!(VFin.isFinite t1)) then pure true else do
            let t2 ← rd vec i
            pure (VOrd.lt t2 (CElem.ofNat 0 : α))
        let t5 ← if t3 then pure true else do
            let t4 ← rd vec i
            pure (VOrd.lt (CElem.ofNat 1 : α) t4)
        if t5 then
          pure (Sum.inl (1 : Int))
        else
          let t6 ← rd vec i
          let sum ← CElem.add sum t6
          pure (Sum.inr sum)
    match t7 with
    | Sum.inl t8 =>
      pure t8
    | Sum.inr sum =>
      let t9 ← CElem.sub sum (CElem.ofNat 1 : α)
      if (VOrd.lt tol (VFin.abs t9)) then
        pure (1 : Int)
      else
        pure (0 : Int)

/-- `esl_vec_FValidate` (esl_vectorops.c:1540) -/
def esl_vec_FValidate [VFin α] {ω : Type} [VMix α ω] [VNum ω] [VFin ω] (vec : Array α) (n : Int) (tol : α) : Option (Int) := do
  let sum := (CElem.ofNat 0 : α)
  if (decide (n = 0)) then
    pure (0 : Int)
  else
    let t7 ← loopRet 0 n sum fun x sum => do
        let t1 ← rd vec x
        let t3 ← if (!(VFin.isFinite t1)) then pure true else do
            let t2 ← rd vec x
            pure (VOrd.lt (VMix.widen t2 : ω) (VNum.ofNat 0 : ω))
        let t5 ← if t3 then pure true else do
            let t4 ← rd vec x
            pure (VOrd.lt (VNum.ofNat 1 : ω) (VMix.widen t4 : ω))
        if t5 then
          let status : Int := 1
          pure (Sum.inl (status : Int))
        else
          let t6 ← rd vec x
          let sum ← CElem.add sum t6
          pure (Sum.inr sum)
    match t7 with
    | Sum.inl t8 =>
      pure t8
    | Sum.inr sum =>
      let t9 : ω := (VMix.widen sum : ω) - (VNum.ofNat 1 : ω)
      if (VOrd.lt (VMix.widen tol : ω) (VFin.abs t9)) then
        let status : Int := 1
        pure (status : Int)
      else
        pure (0 : Int)

/-- `esl_vec_DLogValidate` (esl_vectorops.c:1584) -/
def esl_vec_DLogValidate [VInf α] [VFin α] (vec : Array α) (n : Int) (tol : α) : Option (Int) := do
  if (decide (n = 0)) then
    pure (0 : Int)
  else
    let expvec ← allocM (n) (CElem.ofNat 0 : α)
    let expvec ← esl_vec_DCopy vec n expvec
    let expvec ← esl_vec_DExp expvec n
    let t1 ← esl_vec_DValidate expvec n tol
    let status : Int := t1
    if (decide (status ≠ 0)) then
      pure (status : Int)
    else
      pure (0 : Int)

/-- `esl_vec_FLogValidate` (esl_vectorops.c:1604) -/
def esl_vec_FLogValidate [VInf α] [VFin α] {ω : Type} [VMix α ω] [VNum ω] [VFin ω] (vec : Array α) (n : Int) (tol : α) : Option (Int) := do
  if (decide (n = 0)) then
    pure (0 : Int)
  else
    let expvec ← allocM (n) (CElem.ofNat 0 : α)
    let expvec ← esl_vec_FCopy vec n expvec
    let expvec ← esl_vec_FExp expvec n
    let t1 ← esl_vec_FValidate expvec n tol
    let status : Int := t1
    if (decide (status ≠ 0)) then
      pure (status : Int)
    else
      pure (0 : Int)

/-- `esl_vec_DLog2Validate` (esl_vectorops.c:1624) -/
def esl_vec_DLog2Validate [VInf α] [VFin α] (vec : Array α) (n : Int) (tol : α) : Option (Int) := do
  if (decide (n = 0)) then
    pure (0 : Int)
  else
    let expvec ← allocM (n) (CElem.ofNat 0 : α)
    let expvec ← esl_vec_DCopy vec n expvec
    let expvec ← esl_vec_DExp2 expvec n
    let t1 ← esl_vec_DValidate expvec n tol
    let status : Int := t1
    if (decide (status ≠ 0)) then
      pure (status : Int)
    else
      pure (0 : Int)

/-- `esl_vec_FLog2Validate` (esl_vectorops.c:1644) -/
def esl_vec_FLog2Validate [VInf α] [VFin α] {ω : Type} [VMix α ω] [VNum ω] [VFin ω] (vec : Array α) (n : Int) (tol : α) : Option (Int) := do
  if (decide (n = 0)) then
    pure (0 : Int)
  else
    let expvec ← allocM (n) (CElem.ofNat 0 : α)
    let expvec ← esl_vec_FCopy vec n expvec
    let expvec ← esl_vec_FExp2 expvec n
    let t1 ← esl_vec_FValidate expvec n tol
    let status : Int := t1
    if (decide (status ≠ 0)) then
      pure (status : Int)
    else
      pure (0 : Int)

/-- `esl_vec_DCDF` (esl_vectorops.c:1482) -/
def esl_vec_DCDF (p : Array α) (n : Int) (cdf : Array α) : Option (Array α) := do
  let t1 ← rd p 0
  let cdf ← wr cdf 0 t1
  let cdf ← loop 1 n cdf fun i cdf => do
      let t2 ← rd p i
      let t3 ← rd cdf (i - 1)
      let t4 ← CElem.add t2 t3
      let cdf ← wr cdf i t4
      pure cdf
  pure cdf

/-- `esl_vec_DCDF` (esl_vectorops.c:1482) with cdf = p -/
def esl_vec_DCDF_inplace (p : Array α) (n : Int) : Option (Array α) := do
  let t1 ← rd p 0
  let p ← wr p 0 t1
  let p ← loop 1 n p fun i p => do
      let t2 ← rd p i
      let t3 ← rd p (i - 1)
      let t4 ← CElem.add t2 t3
      let p ← wr p i t4
      pure p
  pure p

/-- `esl_vec_FCDF` (esl_vectorops.c:1491) -/
def esl_vec_FCDF (p : Array α) (n : Int) (cdf : Array α) : Option (Array α) := do
  let t1 ← rd p 0
  let cdf ← wr cdf 0 t1
  let cdf ← loop 1 n cdf fun i cdf => do
      let t2 ← rd p i
      let t3 ← rd cdf (i - 1)
      let t4 ← CElem.add t2 t3
      let cdf ← wr cdf i t4
      pure cdf
  pure cdf

/-- `esl_vec_FCDF` (esl_vectorops.c:1491) with cdf = p -/
def esl_vec_FCDF_inplace (p : Array α) (n : Int) : Option (Array α) := do
  let t1 ← rd p 0
  let p ← wr p 0 t1
  let p ← loop 1 n p fun i p => do
      let t2 ← rd p i
      let t3 ← rd p (i - 1)
      let t4 ← CElem.add t2 t3
      let p ← wr p i t4
      pure p
  pure p

/-- `qsort_DIncreasing` (esl_vectorops.c:672) -/
def qsort_DIncreasing (xp1 : α) (xp2 : α) : Int :=
  let x1 := xp1
  let x2 := xp2
  if (VOrd.lt x1 x2) then
    ((-1) : Int)
  else
    if (VOrd.lt x2 x1) then
      (1 : Int)
    else
      (0 : Int)

/-- `qsort_FIncreasing` (esl_vectorops.c:681) -/
def qsort_FIncreasing (xp1 : α) (xp2 : α) : Int :=
  let x1 := xp1
  let x2 := xp2
  if (VOrd.lt x1 x2) then
    ((-1) : Int)
  else
    if (VOrd.lt x2 x1) then
      (1 : Int)
    else
      (0 : Int)

/-- `qsort_IIncreasing` (esl_vectorops.c:690) -/
def qsort_IIncreasing (xp1 : α) (xp2 : α) : Int :=
  let x1 := xp1
  let x2 := xp2
  if (VOrd.lt x1 x2) then
    ((-1) : Int)
  else
    if (VOrd.lt x2 x1) then
      (1 : Int)
    else
      (0 : Int)

/-- `qsort_LIncreasing` (esl_vectorops.c:699) -/
def qsort_LIncreasing (xp1 : α) (xp2 : α) : Int :=
  let x1 := xp1
  let x2 := xp2
  if (VOrd.lt x1 x2) then
    ((-1) : Int)
  else
    if (VOrd.lt x2 x1) then
      (1 : Int)
    else
      (0 : Int)

/-- `qsort_DDecreasing` (esl_vectorops.c:708) -/
def qsort_DDecreasing (xp1 : α) (xp2 : α) : Int :=
  let x1 := xp1
  let x2 := xp2
  if (VOrd.lt x2 x1) then
    ((-1) : Int)
  else
    if (VOrd.lt x1 x2) then
      (1 : Int)
    else
      (0 : Int)

/-- `qsort_FDecreasing` (esl_vectorops.c:717) -/
def qsort_FDecreasing (xp1 : α) (xp2 : α) : Int :=
  let x1 := xp1
  let x2 := xp2
  if (VOrd.lt x2 x1) then
    ((-1) : Int)
  else
    if (VOrd.lt x1 x2) then
      (1 : Int)
    else
      (0 : Int)

/-- `qsort_IDecreasing` (esl_vectorops.c:726) -/
def qsort_IDecreasing (xp1 : α) (xp2 : α) : Int :=
  let x1 := xp1
  let x2 := xp2
  if (VOrd.lt x2 x1) then
    ((-1) : Int)
  else
    if (VOrd.lt x1 x2) then
      (1 : Int)
    else
      (0 : Int)

/-- `qsort_LDecreasing` (esl_vectorops.c:735) -/
def qsort_LDecreasing (xp1 : α) (xp2 : α) : Int :=
  let x1 := xp1
  let x2 := xp2
  if (VOrd.lt x2 x1) then
    ((-1) : Int)
  else
    if (VOrd.lt x1 x2) then
      (1 : Int)
    else
      (0 : Int)

/-- `esl_vec_DSortIncreasing` (esl_vectorops.c:754) -/
def esl_vec_DSortIncreasing (vec : Array α) (n : Int) : Option (Array α) := do
  let vec ← qsortM vec n qsort_DIncreasing
  pure vec

/-- `esl_vec_FSortIncreasing` (esl_vectorops.c:759) -/
def esl_vec_FSortIncreasing (vec : Array α) (n : Int) : Option (Array α) := do
  let vec ← qsortM vec n qsort_FIncreasing
  pure vec

/-- `esl_vec_ISortIncreasing` (esl_vectorops.c:764) -/
def esl_vec_ISortIncreasing (vec : Array α) (n : Int) : Option (Array α) := do
  let vec ← qsortM vec n qsort_IIncreasing
  pure vec

/-- `esl_vec_LSortIncreasing` (esl_vectorops.c:769) -/
def esl_vec_LSortIncreasing (vec : Array α) (n : Int) : Option (Array α) := do
  let vec ← qsortM vec n qsort_LIncreasing
  pure vec

/-- `esl_vec_DSortDecreasing` (esl_vectorops.c:785) -/
def esl_vec_DSortDecreasing (vec : Array α) (n : Int) : Option (Array α) := do
  let vec ← qsortM vec n qsort_DDecreasing
  pure vec

/-- `esl_vec_FSortDecreasing` (esl_vectorops.c:790) -/
def esl_vec_FSortDecreasing (vec : Array α) (n : Int) : Option (Array α) := do
  let vec ← qsortM vec n qsort_FDecreasing
  pure vec

/-- `esl_vec_ISortDecreasing` (esl_vectorops.c:795) -/
def esl_vec_ISortDecreasing (vec : Array α) (n : Int) : Option (Array α) := do
  let vec ← qsortM vec n qsort_IDecreasing
  pure vec

/-- `esl_vec_LSortDecreasing` (esl_vectorops.c:800) -/
def esl_vec_LSortDecreasing (vec : Array α) (n : Int) : Option (Array α) := do
  let vec ← qsortM vec n qsort_LDecreasing
  pure vec

/-- `esl_mat_DSet` (esl_matrixops.c:302) -/
def esl_mat_DSet (A : Array α) (M : Int) (N : Int) (value : α) : Option (Array α) := do
  let A ← esl_vec_DSet A (M * N) value
  pure A

/-- `esl_mat_FSet` (esl_matrixops.c:307) -/
def esl_mat_FSet (A : Array α) (M : Int) (N : Int) (value : α) : Option (Array α) := do
  let A ← esl_vec_FSet A (M * N) value
  pure A

/-- `esl_mat_ISet` (esl_matrixops.c:312) -/
def esl_mat_ISet (A : Array α) (M : Int) (N : Int) (value : α) : Option (Array α) := do
  let A ← esl_vec_ISet A (M * N) value
  pure A

/-- `esl_mat_DScale` (esl_matrixops.c:323) -/
def esl_mat_DScale (A : Array α) (M : Int) (N : Int) (x : α) : Option (Array α) := do
  let A ← esl_vec_DScale A (M * N) x
  pure A

/-- `esl_mat_FScale` (esl_matrixops.c:328) -/
def esl_mat_FScale (A : Array α) (M : Int) (N : Int) (x : α) : Option (Array α) := do
  let A ← esl_vec_FScale A (M * N) x
  pure A

/-- `esl_mat_IScale` (esl_matrixops.c:333) -/
def esl_mat_IScale (A : Array α) (M : Int) (N : Int) (x : α) : Option (Array α) := do
  let A ← esl_vec_IScale A (M * N) x
  pure A

/-- `esl_mat_DCopy` (esl_matrixops.c:344) -/
def esl_mat_DCopy (src : Array α) (M : Int) (N : Int) (dest : Array α) : Option (Array α) := do
  let dest ← esl_vec_DCopy src (M * N) dest
  pure dest

/-- `esl_mat_FCopy` (esl_matrixops.c:349) -/
def esl_mat_FCopy (src : Array α) (M : Int) (N : Int) (dest : Array α) : Option (Array α) := do
  let dest ← esl_vec_FCopy src (M * N) dest
  pure dest

/-- `esl_mat_ICopy` (esl_matrixops.c:354) -/
def esl_mat_ICopy (src : Array α) (M : Int) (N : Int) (dest : Array α) : Option (Array α) := do
  let dest ← esl_vec_ICopy src (M * N) dest
  pure dest

/-- `esl_mat_WCopy` (esl_matrixops.c:359) -/
def esl_mat_WCopy (src : Array α) (M : Int) (N : Int) (dest : Array α) : Option (Array α) := do
  let dest ← esl_vec_WCopy src (M * N) dest
  pure dest

/-- `esl_mat_BCopy` (esl_matrixops.c:364) -/
def esl_mat_BCopy (src : Array α) (M : Int) (N : Int) (dest : Array α) : Option (Array α) := do
  let dest ← esl_vec_BCopy src (M * N) dest
  pure dest

/-- `esl_mat_DMax` (esl_matrixops.c:374) -/
def esl_mat_DMax (A : Array α) (M : Int) (N : Int) : Option (α) := do
  let t1 ← esl_vec_DMax A (M * N)
  pure t1

/-- `esl_mat_FMax` (esl_matrixops.c:379) -/
def esl_mat_FMax (A : Array α) (M : Int) (N : Int) : Option (α) := do
  let t1 ← esl_vec_FMax A (M * N)
  pure t1

/-- `esl_mat_IMax` (esl_matrixops.c:384) -/
def esl_mat_IMax (A : Array α) (M : Int) (N : Int) : Option (α) := do
  let t1 ← esl_vec_IMax A (M * N)
  pure t1

/-- `esl_mat_DCompare` (esl_matrixops.c:401) -/
def esl_mat_DCompare [VCmp α] (A : Array α) (B : Array α) (M : Int) (N : Int) (tol : α) : Option (Int) := do
  let t1 ← esl_vec_DCompare A B (M * N) tol
  pure t1

/-- `esl_mat_FCompare` (esl_matrixops.c:406) -/
def esl_mat_FCompare [VCmp α] (A : Array α) (B : Array α) (M : Int) (N : Int) (tol : α) : Option (Int) := do
  let t1 ← esl_vec_FCompare A B (M * N) tol
  pure t1

/-- `esl_mat_ICompare` (esl_matrixops.c:411) -/
def esl_mat_ICompare (A : Array α) (B : Array α) (M : Int) (N : Int) : Option (Int) := do
  let t1 ← esl_vec_ICompare A B (M * N)
  pure t1

/-- name → translated function; arguments grouped by kind in parameter order (arrays, indices, elements);
    outer `none` = unknown name / wrong arity, inner `none` = the routine faults -/
def dispatch (name : String) (A : List (Array α)) (I : List Int) (E : List α) : Option (Option (Res α)) :=
  match name, A, I, E with
  | "esl_vec_DSet", [vec], [n], [value] => some ((esl_vec_DSet vec n value).map fun r => ⟨none, none, [r]⟩)
  | "esl_vec_FSet", [vec], [n], [value] => some ((esl_vec_FSet vec n value).map fun r => ⟨none, none, [r]⟩)
  | "esl_vec_ISet", [vec], [n], [value] => some ((esl_vec_ISet vec n value).map fun r => ⟨none, none, [r]⟩)
  | "esl_vec_LSet", [vec], [n], [value] => some ((esl_vec_LSet vec n value).map fun r => ⟨none, none, [r]⟩)
  | "esl_vec_DScale", [vec], [n], [scale] => some ((esl_vec_DScale vec n scale).map fun r => ⟨none, none, [r]⟩)
  | "esl_vec_FScale", [vec], [n], [scale] => some ((esl_vec_FScale vec n scale).map fun r => ⟨none, none, [r]⟩)
  | "esl_vec_IScale", [vec], [n], [scale] => some ((esl_vec_IScale vec n scale).map fun r => ⟨none, none, [r]⟩)
  | "esl_vec_LScale", [vec], [n], [scale] => some ((esl_vec_LScale vec n scale).map fun r => ⟨none, none, [r]⟩)
  | "esl_vec_DIncrement", [v], [n], [x] => some ((esl_vec_DIncrement v n x).map fun r => ⟨none, none, [r]⟩)
  | "esl_vec_FIncrement", [v], [n], [x] => some ((esl_vec_FIncrement v n x).map fun r => ⟨none, none, [r]⟩)
  | "esl_vec_IIncrement", [v], [n], [x] => some ((esl_vec_IIncrement v n x).map fun r => ⟨none, none, [r]⟩)
  | "esl_vec_LIncrement", [v], [n], [x] => some ((esl_vec_LIncrement v n x).map fun r => ⟨none, none, [r]⟩)
  | "esl_vec_DAdd", [vec1, vec2], [n], [] => some ((esl_vec_DAdd vec1 vec2 n).map fun r => ⟨none, none, [r]⟩)
  | "esl_vec_FAdd", [vec1, vec2], [n], [] => some ((esl_vec_FAdd vec1 vec2 n).map fun r => ⟨none, none, [r]⟩)
  | "esl_vec_IAdd", [vec1, vec2], [n], [] => some ((esl_vec_IAdd vec1 vec2 n).map fun r => ⟨none, none, [r]⟩)
  | "esl_vec_LAdd", [vec1, vec2], [n], [] => some ((esl_vec_LAdd vec1 vec2 n).map fun r => ⟨none, none, [r]⟩)
  | "esl_vec_DAddScaled", [vec1, vec2], [n], [a] => some ((esl_vec_DAddScaled vec1 vec2 a n).map fun r => ⟨none, none, [r]⟩)
  | "esl_vec_FAddScaled", [vec1, vec2], [n], [a] => some ((esl_vec_FAddScaled vec1 vec2 a n).map fun r => ⟨none, none, [r]⟩)
  | "esl_vec_IAddScaled", [vec1, vec2], [n], [a] => some ((esl_vec_IAddScaled vec1 vec2 a n).map fun r => ⟨none, none, [r]⟩)
  | "esl_vec_LAddScaled", [vec1, vec2], [n], [a] => some ((esl_vec_LAddScaled vec1 vec2 a n).map fun r => ⟨none, none, [r]⟩)
  | "esl_vec_DSum", [vec], [n], [] => some ((esl_vec_DSum vec n).map fun r => ⟨some r, none, []⟩)
  | "esl_vec_FSum", [vec], [n], [] => some ((esl_vec_FSum vec n).map fun r => ⟨some r, none, []⟩)
  | "esl_vec_ISum", [vec], [n], [] => some ((esl_vec_ISum vec n).map fun r => ⟨some r, none, []⟩)
  | "esl_vec_LSum", [vec], [n], [] => some ((esl_vec_LSum vec n).map fun r => ⟨some r, none, []⟩)
  | "esl_vec_DDot", [vec1, vec2], [n], [] => some ((esl_vec_DDot vec1 vec2 n).map fun r => ⟨some r, none, []⟩)
  | "esl_vec_FDot", [vec1, vec2], [n], [] => some ((esl_vec_FDot vec1 vec2 n).map fun r => ⟨some r, none, []⟩)
  | "esl_vec_IDot", [vec1, vec2], [n], [] => some ((esl_vec_IDot vec1 vec2 n).map fun r => ⟨some r, none, []⟩)
  | "esl_vec_LDot", [vec1, vec2], [n], [] => some ((esl_vec_LDot vec1 vec2 n).map fun r => ⟨some r, none, []⟩)
  | "esl_vec_DMax", [vec], [n], [] => some ((esl_vec_DMax vec n).map fun r => ⟨some r, none, []⟩)
  | "esl_vec_FMax", [vec], [n], [] => some ((esl_vec_FMax vec n).map fun r => ⟨some r, none, []⟩)
  | "esl_vec_IMax", [vec], [n], [] => some ((esl_vec_IMax vec n).map fun r => ⟨some r, none, []⟩)
  | "esl_vec_LMax", [vec], [n], [] => some ((esl_vec_LMax vec n).map fun r => ⟨some r, none, []⟩)
  | "esl_vec_DMin", [vec], [n], [] => some ((esl_vec_DMin vec n).map fun r => ⟨some r, none, []⟩)
  | "esl_vec_FMin", [vec], [n], [] => some ((esl_vec_FMin vec n).map fun r => ⟨some r, none, []⟩)
  | "esl_vec_IMin", [vec], [n], [] => some ((esl_vec_IMin vec n).map fun r => ⟨some r, none, []⟩)
  | "esl_vec_LMin", [vec], [n], [] => some ((esl_vec_LMin vec n).map fun r => ⟨some r, none, []⟩)
  | "esl_vec_DArgMax", [vec], [n], [] => some ((esl_vec_DArgMax vec n).map fun r => ⟨none, some r, []⟩)
  | "esl_vec_FArgMax", [vec], [n], [] => some ((esl_vec_FArgMax vec n).map fun r => ⟨none, some r, []⟩)
  | "esl_vec_IArgMax", [vec], [n], [] => some ((esl_vec_IArgMax vec n).map fun r => ⟨none, some r, []⟩)
  | "esl_vec_LArgMax", [vec], [n], [] => some ((esl_vec_LArgMax vec n).map fun r => ⟨none, some r, []⟩)
  | "esl_vec_DArgMin", [vec], [n], [] => some ((esl_vec_DArgMin vec n).map fun r => ⟨none, some r, []⟩)
  | "esl_vec_FArgMin", [vec], [n], [] => some ((esl_vec_FArgMin vec n).map fun r => ⟨none, some r, []⟩)
  | "esl_vec_IArgMin", [vec], [n], [] => some ((esl_vec_IArgMin vec n).map fun r => ⟨none, some r, []⟩)
  | "esl_vec_LArgMin", [vec], [n], [] => some ((esl_vec_LArgMin vec n).map fun r => ⟨none, some r, []⟩)
  | "esl_vec_DCopy", [src, dest], [n], [] => some ((esl_vec_DCopy src n dest).map fun r => ⟨none, none, [r]⟩)
  | "esl_vec_FCopy", [src, dest], [n], [] => some ((esl_vec_FCopy src n dest).map fun r => ⟨none, none, [r]⟩)
  | "esl_vec_ICopy", [src, dest], [n], [] => some ((esl_vec_ICopy src n dest).map fun r => ⟨none, none, [r]⟩)
  | "esl_vec_LCopy", [src, dest], [n], [] => some ((esl_vec_LCopy src n dest).map fun r => ⟨none, none, [r]⟩)
  | "esl_vec_DSwap", [vec1, vec2], [n], [] => some ((esl_vec_DSwap vec1 vec2 n).map fun r => ⟨none, none, [r.1, r.2]⟩)
  | "esl_vec_FSwap", [vec1, vec2], [n], [] => some ((esl_vec_FSwap vec1 vec2 n).map fun r => ⟨none, none, [r.1, r.2]⟩)
  | "esl_vec_ISwap", [vec1, vec2], [n], [] => some ((esl_vec_ISwap vec1 vec2 n).map fun r => ⟨none, none, [r.1, r.2]⟩)
  | "esl_vec_LSwap", [vec1, vec2], [n], [] => some ((esl_vec_LSwap vec1 vec2 n).map fun r => ⟨none, none, [r.1, r.2]⟩)
  | "esl_vec_DReverse", [vec, rev], [n], [] => some ((esl_vec_DReverse vec rev n).map fun r => ⟨none, none, [r]⟩)
  | "esl_vec_DReverse_inplace", [vec], [n], [] => some ((esl_vec_DReverse_inplace vec n).map fun r => ⟨none, none, [r]⟩)
  | "esl_vec_FReverse", [vec, rev], [n], [] => some ((esl_vec_FReverse vec rev n).map fun r => ⟨none, none, [r]⟩)
  | "esl_vec_FReverse_inplace", [vec], [n], [] => some ((esl_vec_FReverse_inplace vec n).map fun r => ⟨none, none, [r]⟩)
  | "esl_vec_IReverse", [vec, rev], [n], [] => some ((esl_vec_IReverse vec rev n).map fun r => ⟨none, none, [r]⟩)
  | "esl_vec_IReverse_inplace", [vec], [n], [] => some ((esl_vec_IReverse_inplace vec n).map fun r => ⟨none, none, [r]⟩)
  | "esl_vec_LReverse", [vec, rev], [n], [] => some ((esl_vec_LReverse vec rev n).map fun r => ⟨none, none, [r]⟩)
  | "esl_vec_LReverse_inplace", [vec], [n], [] => some ((esl_vec_LReverse_inplace vec n).map fun r => ⟨none, none, [r]⟩)
  | "esl_vec_ICompare", [vec1, vec2], [n], [] => some ((esl_vec_ICompare vec1 vec2 n).map fun r => ⟨none, some r, []⟩)
  | "esl_vec_LCompare", [vec1, vec2], [n], [] => some ((esl_vec_LCompare vec1 vec2 n).map fun r => ⟨none, some r, []⟩)
  | "esl_vec_CReverse", [vec, rev], [n], [] => some ((esl_vec_CReverse vec rev n).map fun r => ⟨none, none, [r]⟩)
  | "esl_vec_CReverse_inplace", [vec], [n], [] => some ((esl_vec_CReverse_inplace vec n).map fun r => ⟨none, none, [r]⟩)
  | "esl_vec_WCopy", [src, dest], [n], [] => some ((esl_vec_WCopy src n dest).map fun r => ⟨none, none, [r]⟩)
  | "esl_vec_BCopy", [src, dest], [n], [] => some ((esl_vec_BCopy src n dest).map fun r => ⟨none, none, [r]⟩)
  | "esl_vec_DCDF", [p, cdf], [n], [] => some ((esl_vec_DCDF p n cdf).map fun r => ⟨none, none, [r]⟩)
  | "esl_vec_DCDF_inplace", [p], [n], [] => some ((esl_vec_DCDF_inplace p n).map fun r => ⟨none, none, [r]⟩)
  | "esl_vec_FCDF", [p, cdf], [n], [] => some ((esl_vec_FCDF p n cdf).map fun r => ⟨none, none, [r]⟩)
  | "esl_vec_FCDF_inplace", [p], [n], [] => some ((esl_vec_FCDF_inplace p n).map fun r => ⟨none, none, [r]⟩)
  | "qsort_DIncreasing", [], [], [xp1, xp2] => some (some (let r := qsort_DIncreasing xp1 xp2; ⟨none, some r, []⟩))
  | "qsort_FIncreasing", [], [], [xp1, xp2] => some (some (let r := qsort_FIncreasing xp1 xp2; ⟨none, some r, []⟩))
  | "qsort_IIncreasing", [], [], [xp1, xp2] => some (some (let r := qsort_IIncreasing xp1 xp2; ⟨none, some r, []⟩))
  | "qsort_LIncreasing", [], [], [xp1, xp2] => some (some (let r := qsort_LIncreasing xp1 xp2; ⟨none, some r, []⟩))
  | "qsort_DDecreasing", [], [], [xp1, xp2] => some (some (let r := qsort_DDecreasing xp1 xp2; ⟨none, some r, []⟩))
  | "qsort_FDecreasing", [], [], [xp1, xp2] => some (some (let r := qsort_FDecreasing xp1 xp2; ⟨none, some r, []⟩))
  | "qsort_IDecreasing", [], [], [xp1, xp2] => some (some (let r := qsort_IDecreasing xp1 xp2; ⟨none, some r, []⟩))
  | "qsort_LDecreasing", [], [], [xp1, xp2] => some (some (let r := qsort_LDecreasing xp1 xp2; ⟨none, some r, []⟩))
  | "esl_vec_DSortIncreasing", [vec], [n], [] => some ((esl_vec_DSortIncreasing vec n).map fun r => ⟨none, none, [r]⟩)
  | "esl_vec_FSortIncreasing", [vec], [n], [] => some ((esl_vec_FSortIncreasing vec n).map fun r => ⟨none, none, [r]⟩)
  | "esl_vec_ISortIncreasing", [vec], [n], [] => some ((esl_vec_ISortIncreasing vec n).map fun r => ⟨none, none, [r]⟩)
  | "esl_vec_LSortIncreasing", [vec], [n], [] => some ((esl_vec_LSortIncreasing vec n).map fun r => ⟨none, none, [r]⟩)
  | "esl_vec_DSortDecreasing", [vec], [n], [] => some ((esl_vec_DSortDecreasing vec n).map fun r => ⟨none, none, [r]⟩)
  | "esl_vec_FSortDecreasing", [vec], [n], [] => some ((esl_vec_FSortDecreasing vec n).map fun r => ⟨none, none, [r]⟩)
  | "esl_vec_ISortDecreasing", [vec], [n], [] => some ((esl_vec_ISortDecreasing vec n).map fun r => ⟨none, none, [r]⟩)
  | "esl_vec_LSortDecreasing", [vec], [n], [] => some ((esl_vec_LSortDecreasing vec n).map fun r => ⟨none, none, [r]⟩)
  | "esl_mat_DSet", [A], [M, N], [value] => some ((esl_mat_DSet A M N value).map fun r => ⟨none, none, [r]⟩)
  | "esl_mat_FSet", [A], [M, N], [value] => some ((esl_mat_FSet A M N value).map fun r => ⟨none, none, [r]⟩)
  | "esl_mat_ISet", [A], [M, N], [value] => some ((esl_mat_ISet A M N value).map fun r => ⟨none, none, [r]⟩)
  | "esl_mat_DScale", [A], [M, N], [x] => some ((esl_mat_DScale A M N x).map fun r => ⟨none, none, [r]⟩)
  | "esl_mat_FScale", [A], [M, N], [x] => some ((esl_mat_FScale A M N x).map fun r => ⟨none, none, [r]⟩)
  | "esl_mat_IScale", [A], [M, N], [x] => some ((esl_mat_IScale A M N x).map fun r => ⟨none, none, [r]⟩)
  | "esl_mat_DCopy", [src, dest], [M, N], [] => some ((esl_mat_DCopy src M N dest).map fun r => ⟨none, none, [r]⟩)
  | "esl_mat_FCopy", [src, dest], [M, N], [] => some ((esl_mat_FCopy src M N dest).map fun r => ⟨none, none, [r]⟩)
  | "esl_mat_ICopy", [src, dest], [M, N], [] => some ((esl_mat_ICopy src M N dest).map fun r => ⟨none, none, [r]⟩)
  | "esl_mat_WCopy", [src, dest], [M, N], [] => some ((esl_mat_WCopy src M N dest).map fun r => ⟨none, none, [r]⟩)
  | "esl_mat_BCopy", [src, dest], [M, N], [] => some ((esl_mat_BCopy src M N dest).map fun r => ⟨none, none, [r]⟩)
  | "esl_mat_DMax", [A], [M, N], [] => some ((esl_mat_DMax A M N).map fun r => ⟨some r, none, []⟩)
  | "esl_mat_FMax", [A], [M, N], [] => some ((esl_mat_FMax A M N).map fun r => ⟨some r, none, []⟩)
  | "esl_mat_IMax", [A], [M, N], [] => some ((esl_mat_IMax A M N).map fun r => ⟨some r, none, []⟩)
  | "esl_mat_ICompare", [A, B], [M, N], [] => some ((esl_mat_ICompare A B M N).map fun r => ⟨none, some r, []⟩)
  | _, _, _, _ => none

end EaselModel.Vec.Gen
