import EaselModel.Threads.Model
namespace EaselModel.Threads

structure Inv (s : Sys) : Prop where
  part : s.notStarted.length + s.wWait.length + s.passed.length = s.count
  pre : s.master ≠ .released → s.startThread = s.wWait.length ∧ s.passed = []
  post : s.master = .released → s.startThread = 0 ∧ s.notStarted = []
  nlwM : s.master = .waiting false → s.startThread < s.count
  nlwW : s.master = .released → ∀ e ∈ s.wWait, e.2 = true

theorem inv_create : Inv Sys.create := by
  refine ⟨rfl, fun _ => ⟨rfl, rfl⟩, ?_, ?_, ?_⟩ <;> simp [Sys.create]

theorem inv_masterTest (s : Sys) (h : Inv s) (hm : s.master ≠ .released) : Inv (masterTest s) := by
  have hp := h.pre hm
  have hpart := h.part
  unfold masterTest
  split
  · rename_i hlt
    exact ⟨h.part, fun _ => hp, by simp, fun _ => hlt, by simp⟩
  · rename_i hge
    have hns : s.notStarted = [] := by
      apply List.eq_nil_of_length_eq_zero
      rw [hp.2] at hpart; simp at hpart; omega
    refine ⟨by simpa [broadcast] using h.part, by simp, fun _ => ⟨rfl, hns⟩, by simp, ?_⟩
    intro _ e he
    simp [broadcast] at he
    obtain ⟨a, b, _, rfl⟩ := he; rfl

theorem step_inv (s s' : Sys) (l : Label) (h : Inv s) (hs : step s l = some s') : Inv s' := by
  cases l with
  | add =>
    simp only [step] at hs
    split at hs
    · rename_i hm; cases hs
      have hne : s.master ≠ .released := by rw [hm]; simp
      refine ⟨by have := h.part; simp; omega, fun _ => h.pre hne, by simp [hm], by simp [hm], by simp [hm]⟩
    · cases hs
  | masterWait =>
    simp only [step] at hs
    split at hs
    · rename_i hm; cases hs; exact inv_masterTest s h (by rw [hm]; simp)
    · cases hs
  | masterWake =>
    simp only [step] at hs
    split at hs
    · rename_i sg hm; cases hs; exact inv_masterTest s h (by rw [hm]; simp)
    · cases hs
  | arrive w =>
    simp only [step] at hs
    split at hs
    · rename_i hw; cases hs
      have hnr : s.master ≠ .released := by
        intro hr; have := (h.post hr).2; rw [this] at hw; simp at hw
      have hp := h.pre hnr
      have hl := List.length_erase_of_mem hw
      have hpos := List.length_pos_of_mem hw
      have hmaster : ∀ m, (match s.master with | .waiting _ => MSt.waiting true | m => m) = m → m ≠ .released := by
        intro m hm hr; subst hr; cases hsm : s.master <;> simp [hsm] at hm; exact hnr hsm
      refine ⟨?_, ?_, ?_, ?_, ?_⟩
      · have := h.part; simp [broadcast, hl]; omega
      · intro _; simp [broadcast, hp.1, hp.2]
      · intro hr; exact absurd hr (hmaster _ rfl)
      · intro hmw; simp only [broadcast] at hmw
        cases hsm : s.master <;> simp [hsm] at hmw
      · intro hr; exact absurd hr (hmaster _ rfl)
    · cases hs
  | workerWake w =>
    simp only [step] at hs
    split at hs
    · cases hs
    · rename_i e hf
      have he := List.mem_of_find?_eq_some hf
      have hl := List.length_erase_of_mem he
      have hpos := List.length_pos_of_mem he
      split at hs
      · rename_i hne; cases hs
        have hnr : s.master ≠ .released := fun hr => hne (h.post hr).1
        have hp := h.pre hnr
        refine ⟨by have := h.part; simp [hl]; omega, fun _ => ⟨by simp [hl, hp.1]; omega, hp.2⟩,
          fun hr => absurd hr hnr, h.nlwM, fun hr => absurd hr hnr⟩
      · rename_i hz; cases hs
        simp only [ne_eq, Decidable.not_not] at hz
        have hr : s.master = .released := by
          apply Classical.byContradiction; intro hnr
          have := (h.pre hnr).1; omega
        refine ⟨by have := h.part; simp [hl]; omega, fun hnr => absurd hr hnr, h.post, by simp [hr], ?_⟩
        intro _ x hx; exact h.nlwW hr x (List.mem_of_mem_erase hx)
  | finish =>
    simp only [step] at hs
    split at hs
    · cases hs; exact inv_create
    · cases hs

inductive Reachable : Sys → Prop
  | create : Reachable Sys.create
  | step {s s' : Sys} {l : Label} : Reachable s → step s l = some s' → Reachable s'

theorem reachable_inv {s : Sys} (h : Reachable s) : Inv s := by
  induction h with
  | create => exact inv_create
  | step _ hs ih => exact step_inv _ _ _ ih hs

theorem run_reachable (s : Sys) (ls : List Label) (s' : Sys) (h : Reachable s) (hr : run s ls = some s') : Reachable s' := by
  induction ls generalizing s with
  | nil => simp [run] at hr; subst hr; exact h
  | cons l ls ih =>
    simp only [run] at hr
    split at hr
    · rename_i s1 hs1; exact ih s1 (Reachable.step h hs1) hr
    · cases hr

/-- after the release every sleeping worker passes at its wake step -/
theorem wake_passes (s : Sys) (h : Inv s) (hr : s.master = .released) (w : Nat) (sg : Bool) (hw : (w, sg) ∈ s.wWait) :
    ∃ s', step s (.workerWake w) = some s' ∧ w ∈ s'.passed := by
  cases hf : s.wWait.find? (fun e => e.1 == w) with
  | none => rw [List.find?_eq_none] at hf; exact absurd (by simp) (hf _ hw)
  | some e =>
    refine ⟨_, by simp only [step, hf]; rw [if_neg (by simp [(h.post hr).1])], by simp⟩

/-- once everybody has arrived the master's wake step releases -/
theorem master_releases (s : Sys) (h : Inv s) (sg : Bool) (hm : s.master = .waiting sg) (hn : s.notStarted = []) :
    ∃ s', step s .masterWake = some s' ∧ s'.master = .released := by
  have hp := h.pre (by rw [hm]; simp)
  have := h.part
  rw [hn, hp.2] at this
  refine ⟨masterTest s, by simp only [step, hm], ?_⟩
  unfold masterTest
  rw [if_neg (by simp at this; omega)]

end EaselModel.Threads
