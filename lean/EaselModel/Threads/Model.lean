/-! # esl_threads.c start rendezvous as a transition system (executable model, core Lean only)

`esl_threads_AddThread` (master, no lock), `esl_threads_WaitForStart` (master), `esl_threads_Started` (workers):
one shared counter `startThread`, one mutex, ONE condition variable used in both directions.
One step per mutex-protected region; a sleeping thread may take its wake step at any time (spurious wake-ups);
the flag in a wait-set entry records "broadcast since it went to sleep" and is only used to state no-lost-wake-up.
Workers are numbered in creation order; any number of workers. -/
namespace EaselModel.Threads

inductive MSt
  | adding                      -- still calling AddThread (or not yet in WaitForStart)
  | waiting (signalled : Bool)  -- asleep in WaitForStart
  | released                    -- WaitForStart returned
deriving Repr, DecidableEq

structure Sys where
  count : Nat                   -- threadCount
  startThread : Nat
  master : MSt
  notStarted : List Nat         -- created, have not yet entered esl_threads_Started
  wWait : List (Nat × Bool)     -- asleep in esl_threads_Started (id, signalled since)
  passed : List Nat             -- esl_threads_Started returned
deriving Repr, DecidableEq

def Sys.create : Sys := { count := 0, startThread := 0, master := .adding, notStarted := [], wWait := [], passed := [] }

inductive Label
  | add                 -- esl_threads_AddThread
  | masterWait          -- esl_threads_WaitForStart, first region
  | masterWake          -- … after pthread_cond_wait returned
  | arrive (w : Nat)    -- esl_threads_Started, first region (always ends in pthread_cond_wait: startThread ≥ 1)
  | workerWake (w : Nat)
  | finish              -- esl_threads_WaitForFinish after every worker has returned: threadCount = 0
deriving Repr, DecidableEq

/-- `pthread_cond_broadcast(&startCond)` -/
def broadcast (s : Sys) : Sys :=
  { s with wWait := s.wWait.map (fun e => (e.1, true)),
           master := match s.master with | .waiting _ => .waiting true | m => m }

/-- the loop test and exit of `esl_threads_WaitForStart` -/
def masterTest (s : Sys) : Sys :=
  if s.startThread < s.count then { s with master := .waiting false }
  else { broadcast { s with startThread := 0 } with master := .released }

def step (s : Sys) : Label → Option Sys
  | .add => if s.master = .adding then some { s with count := s.count + 1, notStarted := s.count :: s.notStarted } else none
  | .masterWait => if s.master = .adding then some (masterTest s) else none
  | .masterWake => match s.master with
    | .waiting _ => some (masterTest s)
    | _ => none
  | .arrive w =>
    if w ∈ s.notStarted then
      let s1 := broadcast { s with startThread := s.startThread + 1, notStarted := s.notStarted.erase w }
      some { s1 with wWait := (w, false) :: s1.wWait }      -- `while (obj->startThread)`: ≥ 1, so it waits
    else none
  | .workerWake w =>
    match s.wWait.find? (fun e => e.1 == w) with
    | none => none
    | some e =>
      if s.startThread ≠ 0 then some { s with wWait := (w, false) :: s.wWait.erase e }
      else some { s with wWait := s.wWait.erase e, passed := w :: s.passed }
  | .finish =>
    if s.master = .released ∧ s.wWait = [] ∧ s.notStarted = [] then some Sys.create else none

def run (s : Sys) : List Label → Option Sys
  | [] => some s
  | l :: ls => match step s l with
    | some s' => run s' ls
    | none => none

def masterStr : MSt → String
  | .adding => "a" | .waiting _ => "w" | .released => "r"

end EaselModel.Threads
