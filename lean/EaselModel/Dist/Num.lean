/-! # `Num` — the numeric vocabulary of the translated distribution code (DESIGN §2.1, §3.4)

The C functions of `esl_exponential.c`, `esl_gumbel.c`, … are translated (by `translate/c2lean.py`, on every run,
from the working tree) into Lean definitions that are polymorphic over a carrier `α` providing
`+ - * /`, unary minus, decimal literals (`OfScientific`), `<`/`≤` (decidable, as the C code executes them) and the
operations of this class.  Two instances exist:

* `Float` (`Dist/FloatInst.lean`, core Lean only): executable; the compiled driver calls the same libm as the C code,
  and the correspondence run compares bit patterns;
* `ℝ` (`Dist/RealInst.lean`, Mathlib): noncomputable; the theorems are stated on it.

Core Lean only — this file is imported by the driver. -/
namespace EaselModel.Dist

/-- Operations the translated code uses beyond ring arithmetic and comparisons.
    `eqb` is C's `==` on doubles. `inf` is `eslINFINITY`. `erfc` is libm's.
    `logGamma`, `incGammaP`, `incGammaQ` are the results of `esl_stats_LogGamma(x,&r)` and
    `esl_stats_IncompleteGamma(a,x,&p,&q)` (function symbols; see `Dist/Special.lean` for the executable model). -/
class Num (α : Type) where
  exp : α → α
  log : α → α
  log1p : α → α
  expm1 : α → α
  pow : α → α → α
  sqrt : α → α
  floor : α → α
  fabs : α → α
  erfc : α → α
  eqb : α → α → Bool
  inf : α
  /-- C's `x < eslINFINITY` (the translator emits this for a comparison against the infinity macro):
      `x < inf` on binary64, `true` on ℝ, where `inf` itself is opaque -/
  ltInf : α → Bool
  logGamma : α → α
  incGammaP : α → α → α
  incGammaQ : α → α → α

end EaselModel.Dist
