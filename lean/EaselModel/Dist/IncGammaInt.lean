import Mathlib.Analysis.SpecialFunctions.Gamma.Basic
import Mathlib.MeasureTheory.Integral.IntervalIntegral.FundThmCalculus
import Mathlib.MeasureTheory.Integral.IntegralEqImproper
/-! The regularised incomplete gamma functions AS INTEGRALS over Mathlib's Gamma kernel `e^{-t} t^{a-1}`
    (`Real.Gamma_eq_integral`, `Real.GammaIntegral_convergent`; Mathlib 4.33 has no incomplete gamma function):
    `P a x = (∫_0^x e^{-t} t^{a-1} dt) / Γ(a)`, `Q a x = (∫_x^∞ …) / Γ(a)`.
    Proved: `P + Q = 1`, `P 0 = 0`, `0 ≤ P, Q ≤ 1`, `P` non-decreasing / `Q` non-increasing on `[0, ∞)`, `P → 1`, `Q → 0`,
    `HasDerivAt (P a) (e^{-x} x^{a-1} / Γ a) x` for `x > 0`.  The gamma and stretched-exponential laws of
    `Dist/GamSxpThm.lean` are stated relative to THESE functions, not relative to the series / continued fraction of
    `esl_stats_IncompleteGamma`. -/
noncomputable section
namespace EaselModel.Dist.IncGammaInt
open Real MeasureTheory Set Filter

/-- the Gamma kernel, in the shape of `Real.Gamma_eq_integral` -/
def kern (a t : ℝ) : ℝ := exp (-t) * t ^ (a - 1)

/-- lower regularised incomplete gamma function -/
def P (a x : ℝ) : ℝ := (∫ t in Ioc 0 x, kern a t) / Gamma a
/-- upper regularised incomplete gamma function -/
def Q (a x : ℝ) : ℝ := (∫ t in Ioi x, kern a t) / Gamma a

theorem kern_nonneg {a t : ℝ} (ht : 0 ≤ t) : 0 ≤ kern a t := mul_nonneg (exp_pos _).le (rpow_nonneg ht _)
theorem kern_pos {a t : ℝ} (ht : 0 < t) : 0 < kern a t := mul_pos (exp_pos _) (rpow_pos_of_pos ht _)

theorem kern_integrable {a : ℝ} (ha : 0 < a) : IntegrableOn (kern a) (Ioi 0) := Real.GammaIntegral_convergent ha

theorem kern_total {a : ℝ} (ha : 0 < a) : ∫ t in Ioi 0, kern a t = Gamma a := (Real.Gamma_eq_integral ha).symm

theorem kern_integrable_Ioi {a x : ℝ} (ha : 0 < a) (hx : 0 ≤ x) : IntegrableOn (kern a) (Ioi x) :=
  (kern_integrable ha).mono_set (Ioi_subset_Ioi hx)

theorem kern_integrable_Ioc {a x : ℝ} (ha : 0 < a) : IntegrableOn (kern a) (Ioc 0 x) :=
  (kern_integrable ha).mono_set Ioc_subset_Ioi_self

theorem split {a x : ℝ} (ha : 0 < a) (hx : 0 ≤ x) : (∫ t in Ioc 0 x, kern a t) + ∫ t in Ioi x, kern a t = Gamma a := by
  rw [← setIntegral_union (Ioc_disjoint_Ioi le_rfl) measurableSet_Ioi (kern_integrable_Ioc ha) (kern_integrable_Ioi ha hx),
    Ioc_union_Ioi_eq_Ioi hx, kern_total ha]

/-- `P + Q = 1` -/
theorem P_add_Q {a x : ℝ} (ha : 0 < a) (hx : 0 ≤ x) : P a x + Q a x = 1 := by
  unfold P Q
  rw [← add_div, split ha hx, div_self (Gamma_pos_of_pos ha).ne']

theorem P_zero (a : ℝ) : P a 0 = 0 := by simp [P]

theorem Q_zero {a : ℝ} (ha : 0 < a) : Q a 0 = 1 := by
  have := P_add_Q ha (le_refl 0); rw [P_zero] at this; linarith

theorem Q_nonneg {a x : ℝ} (ha : 0 < a) (hx : 0 ≤ x) : 0 ≤ Q a x :=
  div_nonneg (setIntegral_nonneg measurableSet_Ioi fun _ ht => kern_nonneg (hx.trans (le_of_lt ht))) (Gamma_pos_of_pos ha).le

theorem P_nonneg {a x : ℝ} (ha : 0 < a) : 0 ≤ P a x :=
  div_nonneg (setIntegral_nonneg measurableSet_Ioc fun _ ht => kern_nonneg ht.1.le) (Gamma_pos_of_pos ha).le

theorem P_le_one {a x : ℝ} (ha : 0 < a) (hx : 0 ≤ x) : P a x ≤ 1 := by
  have := P_add_Q ha hx; have := Q_nonneg ha hx; linarith

theorem Q_le_one {a x : ℝ} (ha : 0 < a) (hx : 0 ≤ x) : Q a x ≤ 1 := by
  have := P_add_Q ha hx; have := P_nonneg (x := x) ha; linarith

/-- `Q` is non-increasing on `[0, ∞)` -/
theorem Q_anti {a s t : ℝ} (ha : 0 < a) (hs : 0 ≤ s) (hst : s ≤ t) : Q a t ≤ Q a s := by
  unfold Q
  refine div_le_div_of_nonneg_right ?_ (Gamma_pos_of_pos ha).le
  exact setIntegral_mono_set (kern_integrable_Ioi ha hs)
    ((ae_restrict_iff' measurableSet_Ioi).mpr (Eventually.of_forall fun u hu => kern_nonneg (hs.trans (le_of_lt hu))))
    (Ioi_subset_Ioi hst).eventuallyLE

/-- `P` is non-decreasing on `[0, ∞)` -/
theorem P_mono {a s t : ℝ} (ha : 0 < a) (hs : 0 ≤ s) (hst : s ≤ t) : P a s ≤ P a t := by
  have h1 := P_add_Q ha hs; have h2 := P_add_Q ha (hs.trans hst); have := Q_anti ha hs hst; linarith

/-- `∫_x^∞ = ∫_c^∞ − ∫_c^x` for `0 < c` -/
theorem tail_eq {a c x : ℝ} (ha : 0 < a) (hc : 0 ≤ c) (hx : 0 ≤ x) :
    ∫ t in Ioi x, kern a t = (∫ t in Ioi c, kern a t) - ∫ t in c..x, kern a t := by
  have := intervalIntegral.integral_Ioi_sub_Ioi' (f := kern a) (a := c) (b := x) (kern_integrable_Ioi ha hc) (kern_integrable_Ioi ha hx)
  linarith

theorem kern_continuousAt {a x : ℝ} (hx : 0 < x) : ContinuousAt (kern a) x := by
  unfold kern
  exact (continuous_exp.comp continuous_neg).continuousAt.mul (continuousAt_rpow_const _ _ (Or.inl hx.ne'))

theorem kern_measurable (a : ℝ) : Measurable (kern a) := by
  unfold kern
  exact (measurable_exp.comp measurable_neg).mul (measurable_id.pow_const _)

/-- `Q` has derivative `−e^{-x} x^{a-1} / Γ(a)` at every `x > 0` -/
theorem Q_hasDerivAt {a x : ℝ} (ha : 0 < a) (hx : 0 < x) : HasDerivAt (Q a) (-(kern a x / Gamma a)) x := by
  have hc : (0 : ℝ) < x / 2 := by linarith
  have hii : IntervalIntegrable (kern a) volume (x / 2) x :=
    (intervalIntegrable_iff_integrableOn_Ioc_of_le (by linarith)).mpr
      ((kern_integrable ha).mono_set fun t ht => lt_trans hc ht.1)
  have h1 : HasDerivAt (fun u => ∫ t in (x / 2)..u, kern a t) (kern a x) x :=
    intervalIntegral.integral_hasDerivAt_right hii (kern_measurable a).stronglyMeasurable.stronglyMeasurableAtFilter
      (kern_continuousAt hx)
  have h2 : HasDerivAt (fun u => ((∫ t in Ioi (x / 2), kern a t) - ∫ t in (x / 2)..u, kern a t) / Gamma a)
      ((0 - kern a x) / Gamma a) x := ((hasDerivAt_const x _).sub h1).div_const _
  have e : Q a =ᶠ[nhds x] fun u => ((∫ t in Ioi (x / 2), kern a t) - ∫ t in (x / 2)..u, kern a t) / Gamma a := by
    filter_upwards [lt_mem_nhds hx] with u hu
    unfold Q; rw [tail_eq ha hc.le hu.le]
  refine (h2.congr_of_eventuallyEq e).congr_deriv ?_
  ring

/-- `P` has derivative `e^{-x} x^{a-1} / Γ(a)` at every `x > 0` -/
theorem P_hasDerivAt {a x : ℝ} (ha : 0 < a) (hx : 0 < x) : HasDerivAt (P a) (kern a x / Gamma a) x := by
  have h2 : HasDerivAt (fun u => 1 - Q a u) (0 - -(kern a x / Gamma a)) x := (hasDerivAt_const x _).sub (Q_hasDerivAt ha hx)
  have e : P a =ᶠ[nhds x] fun u => 1 - Q a u := by
    filter_upwards [lt_mem_nhds hx] with u hu
    have := P_add_Q ha hu.le; linarith
  refine (h2.congr_of_eventuallyEq e).congr_deriv ?_
  ring

theorem Q_tendsto_atTop {a : ℝ} (ha : 0 < a) : Tendsto (Q a) atTop (nhds 0) := by
  have h := intervalIntegral_tendsto_integral_Ioi (f := kern a) 0 (kern_integrable ha) tendsto_id
  have h2 : Tendsto (fun u : ℝ => ((∫ t in Ioi 0, kern a t) - ∫ t in (0 : ℝ)..u, kern a t) / Gamma a) atTop
      (nhds (((∫ t in Ioi 0, kern a t) - ∫ t in Ioi 0, kern a t) / Gamma a)) := (tendsto_const_nhds.sub h).div_const _
  rw [sub_self, zero_div] at h2
  refine h2.congr' ?_
  filter_upwards [eventually_ge_atTop (0 : ℝ)] with u hu
  unfold Q; rw [tail_eq ha le_rfl hu]

theorem P_tendsto_atTop {a : ℝ} (ha : 0 < a) : Tendsto (P a) atTop (nhds 1) := by
  have h : Tendsto (fun u => 1 - Q a u) atTop (nhds (1 - 0)) := tendsto_const_nhds.sub (Q_tendsto_atTop ha)
  rw [sub_zero] at h
  refine h.congr' ?_
  filter_upwards [eventually_ge_atTop (0 : ℝ)] with u hu
  have := P_add_Q ha hu; linarith

end EaselModel.Dist.IncGammaInt
