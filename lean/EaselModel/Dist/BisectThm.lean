import EaselModel.Dist.RealInst
import EaselModel.Dist.Bisect
import Mathlib.Tactic.Linarith
/-! The bracketing + bisection inverses over `ℝ`: whatever the loops do, a returned value lies inside a bracket
    `[a, b]` with `cdf a ≤ p ≤ cdf b` — so for a monotone cdf, `cdf` of the returned point is squeezed between two cdf
    values that bracket `p`.  (Termination is not claimed: `none` = fuel exhausted.) -/
noncomputable section
namespace EaselModel.Dist.BisectThm
open EaselModel.Dist EaselModel.Dist.Bisect

theorem lit_two : (2.0 : ℝ) = 2 := by norm_num

/-- what a bisection inverse guarantees about its result `r`, given the entry bracket `[x1, x2]` -/
def Brackets (cdf : ℝ → ℝ) (p x1 x2 r : ℝ) : Prop :=
  ∃ a b, x1 ≤ a ∧ a ≤ r ∧ r ≤ b ∧ b ≤ x2 ∧ cdf a ≤ p ∧ p ≤ cdf b

theorem mid_mem {x1 x2 : ℝ} (h : x1 ≤ x2) : x1 ≤ (x1 + x2) / 2 ∧ (x1 + x2) / 2 ≤ x2 := by
  constructor <;> linarith

theorem bisect_brackets (cdf : ℝ → ℝ) (p mu : ℝ) : ∀ (n : Nat) (x1 x2 r : ℝ), x1 ≤ x2 → cdf x1 ≤ p → p ≤ cdf x2 →
    bisect cdf p mu n x1 x2 = some r → Brackets cdf p x1 x2 r := by
  intro n
  induction n with
  | zero => intro x1 x2 r _ _ _ h; simp [bisect] at h
  | succ n ih =>
    intro x1 x2 r h12 h1 h2 h
    simp only [bisect, lit_two] at h
    obtain ⟨hm1, hm2⟩ := mid_mem h12
    split_ifs at h with hbrk hgt hc1 hlt hc2
    · -- break
      have : (x1 + x2) / 2 = r := by simpa using h
      exact ⟨x1, x2, le_refl _, this ▸ hm1, this ▸ hm2, le_refl _, h1, h2⟩
    · -- fm > p, continue on [x1, xm]
      obtain ⟨a, b, ha, har, hrb, hb, hca, hcb⟩ := ih x1 ((x1 + x2) / 2) r hm1 h1 hgt.le h
      exact ⟨a, b, ha, har, hrb, le_trans hb hm2, hca, hcb⟩
    · -- fm > p, stop: midpoint of [x1, xm]
      have hr : (x1 + (x1 + x2) / 2) / 2 = r := by simpa using h
      obtain ⟨k1, k2⟩ := mid_mem hm1
      exact ⟨x1, (x1 + x2) / 2, le_refl _, hr ▸ k1, hr ▸ k2, hm2, h1, hgt.le⟩
    · -- fm < p, continue on [xm, x2]
      obtain ⟨a, b, ha, har, hrb, hb, hca, hcb⟩ := ih ((x1 + x2) / 2) x2 r hm2 hlt.le h2 h
      exact ⟨a, b, le_trans hm1 ha, har, hrb, hb, hca, hcb⟩
    · have hr : ((x1 + x2) / 2 + x2) / 2 = r := by simpa using h
      obtain ⟨k1, k2⟩ := mid_mem hm2
      exact ⟨(x1 + x2) / 2, x2, hm1, hr ▸ k1, hr ▸ k2, le_refl _, hlt.le, h2⟩
    · -- fm = p exactly
      have hr : (x1 + x2) / 2 = r := by simpa using h
      have heq : cdf ((x1 + x2) / 2) = p := le_antisymm (not_lt.mp hgt) (not_lt.mp hlt)
      exact ⟨(x1 + x2) / 2, (x1 + x2) / 2, hm1, hr ▸ le_refl _, hr ▸ le_refl _, hm2, heq.le, heq.ge⟩

theorem bisectMix_brackets (cdf : ℝ → ℝ) (p : ℝ) : ∀ (n : Nat) (x1 x2 r : ℝ), x1 ≤ x2 → cdf x1 ≤ p → p ≤ cdf x2 →
    bisectMix cdf p n x1 x2 = some r → Brackets cdf p x1 x2 r := by
  intro n
  induction n with
  | zero => intro x1 x2 r _ _ _ h; simp [bisectMix] at h
  | succ n ih =>
    intro x1 x2 r h12 h1 h2 h
    simp only [bisectMix, lit_two] at h
    obtain ⟨hm1, hm2⟩ := mid_mem h12
    split_ifs at h with hgt hc1 hlt hc2
    · obtain ⟨a, b, ha, har, hrb, hb, hca, hcb⟩ := ih x1 ((x1 + x2) / 2) r hm1 h1 hgt.le h
      exact ⟨a, b, ha, har, hrb, le_trans hb hm2, hca, hcb⟩
    · have hr : (x1 + (x1 + x2) / 2) / 2 = r := by simpa using h
      obtain ⟨k1, k2⟩ := mid_mem hm1
      exact ⟨x1, (x1 + x2) / 2, le_refl _, hr ▸ k1, hr ▸ k2, hm2, h1, hgt.le⟩
    · obtain ⟨a, b, ha, har, hrb, hb, hca, hcb⟩ := ih ((x1 + x2) / 2) x2 r hm2 hlt.le h2 h
      exact ⟨a, b, le_trans hm1 ha, har, hrb, hb, hca, hcb⟩
    · have hr : ((x1 + x2) / 2 + x2) / 2 = r := by simpa using h
      obtain ⟨k1, k2⟩ := mid_mem hm2
      exact ⟨(x1 + x2) / 2, x2, hm1, hr ▸ k1, hr ▸ k2, le_refl _, hlt.le, h2⟩
    · have hr : (x1 + x2) / 2 = r := by simpa using h
      have heq : cdf ((x1 + x2) / 2) = p := le_antisymm (not_lt.mp hgt) (not_lt.mp hlt)
      exact ⟨(x1 + x2) / 2, (x1 + x2) / 2, hm1, hr ▸ le_refl _, hr ▸ le_refl _, hm2, heq.le, heq.ge⟩

/-- on ℝ the `x2 < eslINFINITY` test of the hxp / mixgev bracketing loop is always true -/
theorem bracketRightLim_real (cdf : ℝ → ℝ) (p x1 : ℝ) : ∀ (n : Nat) (x2 : ℝ),
    bracketRightLim cdf p x1 n x2 = bracketRight cdf p x1 n x2 := by
  intro n
  induction n with
  | zero => intro x2; rfl
  | succ n ih => intro x2; simp only [bracketRightLim, bracketRight, num_ltInf, and_true, ih]

theorem invcdfRightLim_real (fuel : Nat) (cdf : ℝ → ℝ) (p mu : ℝ) : invcdfRightLim fuel cdf p mu = invcdfRight fuel cdf p mu := by
  simp only [invcdfRightLim, invcdfRight, bracketRightLim_real]

/-- the right bracketing loop ends on a point `≥` its start with `p ≤ cdf` there (start at or right of `x1`) -/
theorem bracketRight_spec (cdf : ℝ → ℝ) (p x1 : ℝ) : ∀ (n : Nat) (x2 r : ℝ), x1 ≤ x2 →
    bracketRight cdf p x1 n x2 = some r → x2 ≤ r ∧ p ≤ cdf r := by
  intro n
  induction n with
  | zero => intro x2 r _ h; simp [bracketRight] at h
  | succ n ih =>
    intro x2 r h12 h
    simp only [bracketRight, lit_two] at h
    have hstep : x2 ≤ x2 + 2 * (x2 - x1) := by linarith
    split_ifs at h with hc
    · obtain ⟨k1, k2⟩ := ih _ r (le_trans h12 hstep) h
      exact ⟨le_trans hstep k1, k2⟩
    · have hr : x2 + 2 * (x2 - x1) = r := by simpa using h
      exact ⟨hr ▸ hstep, hr ▸ not_lt.mp hc⟩

theorem bracketLeft_spec (cdf : ℝ → ℝ) (p x2 : ℝ) : ∀ (n : Nat) (x1 r : ℝ), x1 ≤ x2 →
    bracketLeft cdf p x2 n x1 = some r → r ≤ x1 ∧ cdf r ≤ p := by
  intro n
  induction n with
  | zero => intro x1 r _ h; simp [bracketLeft] at h
  | succ n ih =>
    intro x1 r h12 h
    simp only [bracketLeft, lit_two] at h
    have hstep : x1 - 2 * (x2 - x1) ≤ x1 := by linarith
    split_ifs at h with hc
    · obtain ⟨k1, k2⟩ := ih _ r (le_trans hstep h12) h
      exact ⟨le_trans k1 hstep, k2⟩
    · have hr : x1 - 2 * (x2 - x1) = r := by simpa using h
      exact ⟨hr ▸ hstep, hr ▸ not_lt.mp hc⟩

theorem bracketGam_spec (cdf : ℝ → ℝ) (p mu : ℝ) : ∀ (n : Nat) (x2 r : ℝ), 0 ≤ x2 →
    bracketGam cdf p mu n x2 = some r → 0 ≤ r ∧ p ≤ cdf (mu + r) := by
  intro n
  induction n with
  | zero => intro x2 r _ h; simp [bracketGam] at h
  | succ n ih =>
    intro x2 r h0 h
    simp only [bracketGam, lit_two] at h
    have hstep : 0 ≤ x2 * 2 := by linarith
    split_ifs at h with hc
    · exact ih _ r hstep h
    · have hr : x2 * 2 = r := by simpa using h
      exact ⟨hr ▸ hstep, hr ▸ not_lt.mp hc⟩

/-- `esl_sxp_invcdf` / `esl_hxp_invcdf`: a returned value lies in a bracket right of `mu` whose cdf values bracket `p` -/
theorem invcdfRight_brackets {fuel : Nat} {cdf : ℝ → ℝ} {p mu r : ℝ} (h0 : cdf mu ≤ p) (h : invcdfRight fuel cdf p mu = some r) :
    ∃ a b, mu ≤ a ∧ a ≤ r ∧ r ≤ b ∧ cdf a ≤ p ∧ p ≤ cdf b := by
  unfold invcdfRight at h
  split at h
  · exact absurd h (by simp)
  · rename_i x2 hb
    obtain ⟨k1, k2⟩ := bracketRight_spec cdf p mu fuel (mu + 1.0) x2 (by norm_num) hb
    have hmx : mu ≤ x2 := le_trans (by norm_num) k1
    obtain ⟨a, b, ha, har, hrb, _, hca, hcb⟩ := bisect_brackets cdf p mu fuel mu x2 r hmx h0 k2 h
    exact ⟨a, b, ha, har, hrb, hca, hcb⟩

/-- `esl_gam_invcdf` (repaired: brackets relative to `mu`) -/
theorem invcdfGam_brackets {fuel : Nat} {cdf : ℝ → ℝ} {p mu l t r : ℝ} (h0 : cdf mu ≤ p) (hlt : 0 ≤ t / l)
    (h : invcdfGam fuel cdf p mu l t = some r) : ∃ a b, mu ≤ a ∧ a ≤ r ∧ r ≤ b ∧ cdf a ≤ p ∧ p ≤ cdf b := by
  unfold invcdfGam at h
  split at h
  · exact absurd h (by simp)
  · rename_i x2 hb
    obtain ⟨k1, k2⟩ := bracketGam_spec cdf p mu fuel (t / l) x2 hlt hb
    have hmx : mu ≤ x2 + mu := by linarith
    have k2' : p ≤ cdf (x2 + mu) := by rwa [add_comm] at k2
    obtain ⟨a, b, ha, har, hrb, _, hca, hcb⟩ := bisect_brackets cdf p mu fuel mu (x2 + mu) r hmx h0 k2' h
    exact ⟨a, b, ha, har, hrb, hca, hcb⟩

/-- `esl_mixgev_invcdf` (repaired: the left bracket moves left) — no assumption on `cdf` at all -/
theorem invcdfMix_brackets {fuel : Nat} {cdf : ℝ → ℝ} {p m r : ℝ} (h : invcdfMix fuel cdf p m = some r) :
    ∃ a b, a ≤ r ∧ r ≤ b ∧ cdf a ≤ p ∧ p ≤ cdf b := by
  unfold invcdfMix at h
  simp only [bracketRightLim_real] at h
  split at h
  · exact absurd h (by simp)
  · rename_i x1 hb1
    obtain ⟨k1, k2⟩ := bracketLeft_spec cdf p m fuel (m - 1.0) x1 (by norm_num) hb1
    have hx1m : x1 ≤ m := le_trans k1 (by norm_num)
    split at h
    · exact absurd h (by simp)
    · rename_i x2 hb2
      obtain ⟨j1, j2⟩ := bracketRight_spec cdf p x1 fuel m x2 hx1m hb2
      obtain ⟨a, b, _, har, hrb, _, hca, hcb⟩ := bisectMix_brackets cdf p fuel x1 x2 r (le_trans hx1m j1) k2 j2 h
      exact ⟨a, b, har, hrb, hca, hcb⟩

end EaselModel.Dist.BisectThm
