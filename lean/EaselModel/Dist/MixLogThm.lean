import EaselModel.Dist.MixThm
/-! Mixture log versions: `esl_vec_DLogSum` over `ℝ` and the `log q_k + log f_k` vectors the mixture code feeds it. -/
noncomputable section
namespace EaselModel.Dist.MixLogThm
open Real EaselModel.Dist EaselModel.Dist.Gen EaselModel.Dist.Mix

theorem lit_500 : (500.0 : ℝ) = 500 := by norm_num

theorem foldl_window (m : ℝ) : ∀ (l : List ℝ) (a : ℝ), (∀ v ∈ l, m - 500 < v) →
    l.foldl (fun s v => if m - 500 < v then s + exp (v - m) else s) a = a + exp (-m) * (l.map exp).sum := by
  intro l
  induction l with
  | nil => intro a _; simp
  | cons h t ih =>
    intro a hw
    simp only [List.foldl_cons, List.map_cons, List.sum_cons]
    rw [if_pos (hw h (List.mem_cons_self ..)), ih _ (fun v hv => hw v (List.mem_cons_of_mem _ hv))]
    rw [sub_eq_add_neg h m, exp_add]; ring

theorem sum_exp_pos : ∀ (l : List ℝ), l ≠ [] → 0 < (l.map exp).sum := by
  intro l
  induction l with
  | nil => intro h; exact absurd rfl h
  | cons h t ih =>
    intro _
    simp only [List.map_cons, List.sum_cons]
    by_cases ht : t = []
    · subst ht; simp [exp_pos]
    · have := ih ht; have := exp_pos h; linarith

/-- `esl_vec_DLogSum` is `log Σ exp v_i` exactly when every entry lies within the 500-window below the maximum
    (entries below the window are dropped by the code: each is smaller than `e^{-500}` times the largest term). -/
theorem dlogsum_eq (vec : List ℝ) (hne : vec ≠ []) (hfin : dmax vec ≠ (Num.inf : ℝ))
    (hwin : ∀ v ∈ vec, dmax vec - 500 < v) : dlogsum vec = log ((vec.map exp).sum) := by
  unfold dlogsum
  simp only [num_eqb, num_exp, num_log, lit_zero, lit_500]
  rw [if_neg hfin, foldl_window (dmax vec) vec 0 hwin, zero_add]
  rw [log_mul (exp_ne_zero _) (ne_of_gt (sum_exp_pos vec hne)), log_exp]; ring

/-- the vector the mixture code hands to `DLogSum`, for positive coefficients -/
theorem lsum_eq {β : Type} (f g : β → ℝ) (qs : List (ℝ × β)) (hne : qs ≠ [])
    (hq : ∀ qp ∈ qs, 0 < qp.1 ∧ 0 < g qp.2 ∧ f qp.2 = log (g qp.2))
    (hfin : dmax (qs.map fun qp => log qp.1 + f qp.2) ≠ (Num.inf : ℝ))
    (hwin : ∀ v ∈ (qs.map fun qp => log qp.1 + f qp.2), dmax (qs.map fun qp => log qp.1 + f qp.2) - 500 < v) :
    lsum f qs = log (wsum g qs) := by
  have hvec : (qs.map fun qp => if Num.eqb qp.1 (0.0 : ℝ) = true then -(Num.inf : ℝ) else Num.log qp.1 + f qp.2) =
      qs.map fun qp => log qp.1 + f qp.2 := by
    apply List.map_congr_left
    intro qp hm
    rw [if_neg (by rw [num_eqb, lit_zero]; exact ne_of_gt (hq qp hm).1)]; rfl
  unfold lsum
  rw [hvec, dlogsum_eq _ (by simpa using hne) hfin hwin, MixThm.wsum_eq, List.map_map]
  congr 1
  apply congrArg
  apply List.map_congr_left
  intro qp hm
  obtain ⟨h1, h2, h3⟩ := hq qp hm
  simp only [Function.comp]
  rw [h3, exp_add, exp_log h1, exp_log h2]

/-- hyperexponential, `x ≥ μ`, positive coefficients: `esl_hxp_logsurv = log (esl_hxp_surv)` exactly (inside the
    DLogSum window), because `esl_exp_logsurv` is exactly `log esl_exp_surv`. -/
theorem hxp_logsurv_eq {x mu : ℝ} (hx : mu ≤ x) (qs : List (ℝ × ℝ)) (hne : qs ≠ []) (hq : ∀ qp ∈ qs, 0 < qp.1)
    (hfin : dmax (qs.map fun qp => log qp.1 + esl_exp_logsurv x mu qp.2) ≠ (Num.inf : ℝ))
    (hwin : ∀ v ∈ (qs.map fun qp => log qp.1 + esl_exp_logsurv x mu qp.2),
      dmax (qs.map fun qp => log qp.1 + esl_exp_logsurv x mu qp.2) - 500 < v) :
    hxp_logsurv x mu qs = log (hxp_surv x mu qs) := by
  unfold hxp_logsurv hxp_surv
  rw [if_neg (not_lt.mpr hx), if_neg (not_lt.mpr hx)]
  refine lsum_eq (fun l => esl_exp_logsurv x mu l) (fun l => esl_exp_surv x mu l) qs hne ?_ hfin hwin
  intro qp hm
  refine ⟨hq qp hm, ?_, ?_⟩
  · rw [ExpThm.code_surv]; unfold Spec.expSurv; rw [if_neg (not_lt.mpr hx)]; exact exp_pos _
  · rw [ExpThm.code_logsurv hx, ExpThm.code_surv]

end EaselModel.Dist.MixLogThm
