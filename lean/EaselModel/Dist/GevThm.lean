import EaselModel.Dist.RealInst
import EaselModel.Dist.Spec
import EaselModel.Dist.Lemmas
import EaselModel.Generated.Dist
import Mathlib.Tactic.Ring
import Mathlib.Tactic.FieldSimp
/-! Generalised extreme value distribution: L2 and L1 of the translated `esl_gev_*` at `ℝ`, outside the
    `|α y| < 1e-12` Gumbel branch (inside it the code IS the Gumbel code, see `gumbel_branch_*`). -/
noncomputable section
namespace EaselModel.Dist.GevThm
open Real EaselModel.Dist EaselModel.Dist.Gen EaselModel.Dist.Spec

/-- below/above the support the side is decided equally by `x < μ` (code) and by the sign of `α` (textbook) -/
theorem side_iff {μ l α x : ℝ} (hl : 0 < l) (h : gevArg μ l α x ≤ 0) : x < μ ↔ 0 < α := by
  unfold gevArg at h
  constructor
  · intro hx
    by_contra hα
    have h1 : l * (x - μ) < 0 := mul_neg_of_pos_of_neg hl (by linarith)
    have : 0 ≤ α * (l * (x - μ)) := mul_nonneg_of_nonpos_of_nonpos (not_lt.mp hα) h1.le
    linarith
  · intro hα
    by_contra hx
    have h1 : 0 ≤ l * (x - μ) := mul_nonneg hl.le (by linarith)
    have : 0 ≤ α * (l * (x - μ)) := mul_nonneg hα.le h1
    linarith

/-! ## L2 -/
theorem gevCdf_add_gevSurv (μ l α x : ℝ) : gevCdf μ l α x + gevSurv μ l α x = 1 := by unfold gevSurv; ring

theorem gevInvCdf_gevCdf {μ l α x : ℝ} (hl : l ≠ 0) (hα : α ≠ 0) (hx : 0 < gevArg μ l α x) :
    gevInvCdf μ l α (gevCdf μ l α x) = x := by
  unfold gevInvCdf gevCdf
  rw [if_neg (not_le.mpr hx), log_exp, neg_neg, log_exp]
  have e : -α * -(log (gevArg μ l α x) / α) = log (gevArg μ l α x) := by field_simp
  rw [e, exp_log hx]
  unfold gevArg; field_simp; ring

/-! ## L1, GEV branch -/
section
variable {x μ l α : ℝ}

theorem code_cdf (hl : 0 < l) (hg : ¬ |l * (x - μ) * α| < 1e-12) : esl_gev_cdf x μ l α = gevCdf μ l α x := by
  unfold esl_gev_cdf gevCdf
  simp only [num_exp, num_log, num_log1p, num_expm1, num_fabs, lit_one, lit_zero]
  rw [if_neg (by norm_num at hg ⊢; exact hg)]
  by_cases h : gevArg μ l α x ≤ 0
  · have h' : 1 + α * (l * (x - μ)) ≤ 0 := h
    rw [if_pos h', if_pos h]
    by_cases hx : x < μ
    · rw [if_pos hx, if_pos ((side_iff hl h).mp hx)]
    · rw [if_neg hx, if_neg (fun hα => hx ((side_iff hl h).mpr hα))]
  · have h' : ¬ 1 + α * (l * (x - μ)) ≤ 0 := h
    rw [if_neg h', if_neg h]
    unfold gevArg; rw [neg_div]

theorem code_logcdf (hg : ¬ |l * (x - μ) * α| < 1e-12) (hx : 0 < gevArg μ l α x) :
    esl_gev_logcdf x μ l α = log (gevCdf μ l α x) := by
  unfold esl_gev_logcdf gevCdf
  simp only [num_exp, num_log, num_log1p, num_expm1, num_fabs, lit_one, lit_zero]
  rw [if_neg (by norm_num at hg ⊢; exact hg)]
  have h' : ¬ 1 + α * (l * (x - μ)) ≤ 0 := not_le.mpr hx
  rw [if_neg h', if_neg (not_le.mpr hx), log_exp]
  unfold gevArg; rw [neg_div]

theorem code_pdf (hg : ¬ |l * (x - μ) * α| < 1e-12) : esl_gev_pdf x μ l α = gevPdf μ l α x := by
  unfold esl_gev_pdf gevPdf
  simp only [num_exp, num_log, num_log1p, num_expm1, num_fabs, lit_one, lit_zero]
  rw [if_neg (by norm_num at hg ⊢; exact hg)]
  by_cases h : gevArg μ l α x ≤ 0
  · have h' : 1 + α * (l * (x - μ)) ≤ 0 := h
    rw [if_pos h', if_pos h]
  · have h' : ¬ 1 + α * (l * (x - μ)) ≤ 0 := h
    rw [if_neg h', if_neg h]
    unfold gevArg; rw [neg_div]

theorem code_logpdf (hl : 0 < l) (hg : ¬ |l * (x - μ) * α| < 1e-12) (hx : 0 < gevArg μ l α x) :
    esl_gev_logpdf x μ l α = log (gevPdf μ l α x) := by
  unfold esl_gev_logpdf gevPdf
  simp only [num_exp, num_log, num_log1p, num_expm1, num_fabs, lit_one, lit_zero]
  rw [if_neg (by norm_num at hg ⊢; exact hg)]
  have h' : ¬ 1 + α * (l * (x - μ)) ≤ 0 := not_le.mpr hx
  rw [if_neg h', if_neg (not_le.mpr hx), log_mul (ne_of_gt hl) (exp_ne_zero _), log_exp]
  unfold gevArg; rw [neg_div]; ring

/-- the switch point `-0.5 log(DBL_EPSILON)`: beyond it `t = e^{-lya1}` satisfies `t² < DBL_EPSILON` and `t < 1` -/
theorem beyond_switch {s : ℝ} (h : -0.5 * log 2.2204460492503131e-16 < s) :
    exp (-s) ^ 2 < 2.2204460492503131e-16 ∧ exp (-s) < 1 := by
  have hε : (0 : ℝ) < 2.2204460492503131e-16 := by norm_num
  have hneg : log (2.2204460492503131e-16 : ℝ) < 0 := log_neg hε (by norm_num)
  constructor
  · rw [sq, ← exp_add]
    have : -s + -s < log 2.2204460492503131e-16 := by linarith
    calc exp (-s + -s) < exp (log 2.2204460492503131e-16) := exp_lt_exp.mpr this
      _ = 2.2204460492503131e-16 := exp_log hε
  · rw [exp_lt_one_iff]; linarith

/-- `esl_gev_surv` is within `2.3e-16` of `1 - cdf` (beyond the switch it returns `e^{-lya1}` for `1 - exp(-e^{-lya1})`). -/
theorem code_surv (hl : 0 < l) (hg : ¬ |l * (x - μ) * α| < 1e-12) : |esl_gev_surv x μ l α - gevSurv μ l α x| ≤ 2.3e-16 := by
  unfold esl_gev_surv gevSurv gevCdf
  simp only [num_exp, num_log, num_log1p, num_expm1, num_fabs, lit_one, lit_zero]
  rw [if_neg (by norm_num at hg ⊢; exact hg)]
  by_cases h : gevArg μ l α x ≤ 0
  · have h' : 1 + α * (l * (x - μ)) ≤ 0 := h
    rw [if_pos h', if_pos h]
    by_cases hx : x < μ
    · rw [if_pos hx, if_pos ((side_iff hl h).mp hx)]; norm_num
    · rw [if_neg hx, if_neg (fun hα => hx ((side_iff hl h).mpr hα))]; norm_num
  · have h' : ¬ 1 + α * (l * (x - μ)) ≤ 0 := h
    rw [if_neg h', if_neg h]
    have e : gevArg μ l α x = 1 + α * (l * (x - μ)) := rfl
    rw [e]
    set s := log (1 + α * (l * (x - μ))) / α with hs
    split_ifs with hsw
    · obtain ⟨h2, h1⟩ := beyond_switch hsw
      have hpos : 0 < exp (-s) := exp_pos _
      have := one_sub_exp_neg_approx (t := exp (-s)) (by rw [abs_of_pos hpos]; linarith)
      have e2 : exp (-s) - (1 - exp (-exp (-s))) = exp (-s) - (1 - exp (-exp (-s))) := rfl
      linarith
    · simp; norm_num

theorem code_invcdf {p : ℝ} (hα : ¬ |α| < 1e-12) : esl_gev_invcdf p μ l α = gevInvCdf μ l α p := by
  unfold esl_gev_invcdf gevInvCdf
  simp only [num_exp, num_log, num_expm1, num_fabs, lit_one]
  rw [if_neg (by norm_num at hα ⊢; exact hα)]

end

/-! ## Gumbel branch: the code there is literally the Gumbel code -/
theorem gumbel_branch_cdf {x μ l α : ℝ} (hg : |l * (x - μ) * α| < 1e-12) : esl_gev_cdf x μ l α = esl_gumbel_cdf x μ l := by
  unfold esl_gev_cdf esl_gumbel_cdf
  simp only [num_exp, num_fabs]
  rw [if_pos (by norm_num at hg ⊢; exact hg)]

theorem gumbel_branch_logcdf {x μ l α : ℝ} (hg : |l * (x - μ) * α| < 1e-12) : esl_gev_logcdf x μ l α = esl_gumbel_logcdf x μ l := by
  unfold esl_gev_logcdf esl_gumbel_logcdf
  simp only [num_exp, num_fabs]
  rw [if_pos (by norm_num at hg ⊢; exact hg)]

theorem gumbel_branch_pdf {x μ l α : ℝ} (hg : |l * (x - μ) * α| < 1e-12) : esl_gev_pdf x μ l α = esl_gumbel_pdf x μ l := by
  unfold esl_gev_pdf esl_gumbel_pdf
  simp only [num_exp, num_fabs]
  rw [if_pos (by norm_num at hg ⊢; exact hg)]

theorem gumbel_branch_logpdf {x μ l α : ℝ} (hg : |l * (x - μ) * α| < 1e-12) : esl_gev_logpdf x μ l α = esl_gumbel_logpdf x μ l := by
  unfold esl_gev_logpdf esl_gumbel_logpdf
  simp only [num_exp, num_log, num_fabs]
  rw [if_pos (by norm_num at hg ⊢; exact hg)]

theorem gumbel_branch_invcdf {p μ l α : ℝ} (hα : |α| < 1e-12) : esl_gev_invcdf p μ l α = esl_gumbel_invcdf p μ l := by
  unfold esl_gev_invcdf esl_gumbel_invcdf
  simp only [num_exp, num_log, num_fabs]
  rw [if_pos (by norm_num at hα ⊢; exact hα)]

end EaselModel.Dist.GevThm
