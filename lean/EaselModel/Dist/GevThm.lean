import EaselModel.Dist.RealInst
import EaselModel.Dist.Spec
import EaselModel.Dist.Lemmas
import EaselModel.Generated.Dist
import Mathlib.Analysis.SpecialFunctions.Log.Deriv
import Mathlib.Tactic.Ring
import Mathlib.Tactic.FieldSimp
/-! Generalised extreme value distribution: L2 and L1 of the translated `esl_gev_*` at `ℝ`, outside the
    `|α y| < 1e-12` Gumbel branch (inside it the code IS the Gumbel code, see `gumbel_branch_*`). -/
noncomputable section
namespace EaselModel.Dist.GevThm
open Real EaselModel.Dist EaselModel.Dist.Gen EaselModel.Dist.Spec

/-- below/above the support the side is decided equally by `x < μ` (code) and by the sign of `α` (textbook) -/
theorem side_iff {μ l α x : ℝ} (hl : 0 < l) (h : gevArg μ l α x ≤ 0) : x < μ ↔ 0 < α := by
  unfold gevArg at h
  constructor
  · intro hx
    by_contra hα
    have h1 : l * (x - μ) < 0 := mul_neg_of_pos_of_neg hl (by linarith)
    have : 0 ≤ α * (l * (x - μ)) := mul_nonneg_of_nonpos_of_nonpos (not_lt.mp hα) h1.le
    linarith
  · intro hα
    by_contra hx
    have h1 : 0 ≤ l * (x - μ) := mul_nonneg hl.le (by linarith)
    have : 0 ≤ α * (l * (x - μ)) := mul_nonneg hα.le h1
    linarith

/-! ## L2 -/
theorem gevCdf_add_gevSurv (μ l α x : ℝ) : gevCdf μ l α x + gevSurv μ l α x = 1 := by unfold gevSurv; ring

theorem gevInvCdf_gevCdf {μ l α x : ℝ} (hl : l ≠ 0) (hα : α ≠ 0) (hx : 0 < gevArg μ l α x) :
    gevInvCdf μ l α (gevCdf μ l α x) = x := by
  unfold gevInvCdf gevCdf
  rw [if_neg (not_le.mpr hx), log_exp, neg_neg, log_exp]
  have e : -α * -(log (gevArg μ l α x) / α) = log (gevArg μ l α x) := by field_simp
  rw [e, exp_log hx]
  unfold gevArg; field_simp; ring

theorem gevCdf_nonneg (μ l α x : ℝ) : 0 ≤ gevCdf μ l α x := by
  unfold gevCdf; split_ifs <;> first | exact le_refl _ | exact zero_le_one | exact (exp_pos _).le

theorem gevCdf_le_one (μ l α x : ℝ) : gevCdf μ l α x ≤ 1 := by
  unfold gevCdf; split_ifs
  · exact zero_le_one
  · exact le_refl _
  · rw [exp_le_one_iff]; have := exp_pos (-(log (gevArg μ l α x) / α)); linarith

/-- the GEV cdf is non-decreasing (either sign of `α`), across both ends of its support -/
theorem gevCdf_mono {μ l α : ℝ} (hl : 0 < l) (hα : α ≠ 0) : Monotone (gevCdf μ l α) := by
  intro a b hab
  have hlin : l * (a - μ) ≤ l * (b - μ) := mul_le_mul_of_nonneg_left (by linarith) hl.le
  rcases lt_or_gt_of_ne hα with hneg | hpos
  · -- α < 0: the argument 1 + α y decreases
    have harg : gevArg μ l α b ≤ gevArg μ l α a := by
      unfold gevArg; have := mul_le_mul_of_nonpos_left hlin hneg.le; linarith
    by_cases hb : gevArg μ l α b ≤ 0
    · have : gevCdf μ l α b = 1 := by unfold gevCdf; rw [if_pos hb, if_neg (not_lt.mpr hneg.le)]
      rw [this]; exact gevCdf_le_one μ l α a
    · have hb' : 0 < gevArg μ l α b := not_le.mp hb
      have ha' : 0 < gevArg μ l α a := lt_of_lt_of_le hb' harg
      unfold gevCdf
      rw [if_neg (not_le.mpr ha'), if_neg hb]
      apply exp_le_exp.mpr
      have hlog : log (gevArg μ l α b) ≤ log (gevArg μ l α a) := log_le_log hb' harg
      have hdiv : log (gevArg μ l α a) / α ≤ log (gevArg μ l α b) / α := div_le_div_of_nonpos_of_le hneg.le hlog
      have : exp (-(log (gevArg μ l α b) / α)) ≤ exp (-(log (gevArg μ l α a) / α)) := exp_le_exp.mpr (by linarith)
      linarith
  · -- α > 0: the argument increases
    have harg : gevArg μ l α a ≤ gevArg μ l α b := by
      unfold gevArg; have := mul_le_mul_of_nonneg_left hlin hpos.le; linarith
    by_cases ha : gevArg μ l α a ≤ 0
    · have : gevCdf μ l α a = 0 := by unfold gevCdf; rw [if_pos ha, if_pos hpos]
      rw [this]; exact gevCdf_nonneg μ l α b
    · have ha' : 0 < gevArg μ l α a := not_le.mp ha
      have hb' : 0 < gevArg μ l α b := lt_of_lt_of_le ha' harg
      unfold gevCdf
      rw [if_neg ha, if_neg (not_le.mpr hb')]
      apply exp_le_exp.mpr
      have hlog : log (gevArg μ l α a) ≤ log (gevArg μ l α b) := log_le_log ha' harg
      have hdiv : log (gevArg μ l α a) / α ≤ log (gevArg μ l α b) / α := div_le_div_of_nonneg_right hlog hpos.le
      have : exp (-(log (gevArg μ l α b) / α)) ≤ exp (-(log (gevArg μ l α a) / α)) := exp_le_exp.mpr (by linarith)
      linarith

/-- the pdf is the derivative of the cdf on the interior of the support -/
theorem gevCdf_hasDerivAt {μ l α x : ℝ} (hα : α ≠ 0) (hx : 0 < gevArg μ l α x) :
    HasDerivAt (gevCdf μ l α) (gevPdf μ l α x) x := by
  have hx' : 0 < 1 + α * (l * (x - μ)) := hx
  have h0 : HasDerivAt (fun z : ℝ => 1 + α * (l * (z - μ))) (α * l) x := by
    have h := ((((hasDerivAt_id x).sub_const μ).const_mul l).const_mul α).const_add 1
    simpa using h
  have h1 := h0.log (ne_of_gt hx')
  have h2 : HasDerivAt (fun z : ℝ => -(log (1 + α * (l * (z - μ))) / α)) (-(α * l / (1 + α * (l * (x - μ))) / α)) x := by
    have h := h1.const_mul (-1 / α)
    have e : (fun z : ℝ => -(log (1 + α * (l * (z - μ))) / α)) = fun z => -1 / α * log (1 + α * (l * (z - μ))) := by
      funext z; ring
    rw [e]; exact h.congr_deriv (by ring)
  have h3 := h2.exp
  have h3n : HasDerivAt (fun z : ℝ => -exp (-(log (1 + α * (l * (z - μ))) / α)))
      (-(exp (-(log (1 + α * (l * (x - μ))) / α)) * -(α * l / (1 + α * (l * (x - μ))) / α))) x := by
    have h := h3.const_mul (-1)
    have e : (fun z : ℝ => -exp (-(log (1 + α * (l * (z - μ))) / α))) =
        fun z => -1 * exp (-(log (1 + α * (l * (z - μ))) / α)) := by funext z; ring
    rw [e]; exact h.congr_deriv (by ring)
  have h4 := h3n.exp
  have hcont : ContinuousAt (fun z : ℝ => 1 + α * (l * (z - μ))) x := h0.continuousAt
  have hev : gevCdf μ l α =ᶠ[nhds x] fun z => exp (-exp (-(log (1 + α * (l * (z - μ))) / α))) := by
    have : ∀ᶠ z in nhds x, 0 < 1 + α * (l * (z - μ)) := hcont.eventually (lt_mem_nhds hx')
    filter_upwards [this] with z hz
    simp [gevCdf, gevArg, not_le.mpr hz]
  have hp : gevPdf μ l α x = exp (-exp (-(log (1 + α * (l * (x - μ))) / α))) *
      -(exp (-(log (1 + α * (l * (x - μ))) / α)) * -(α * l / (1 + α * (l * (x - μ))) / α)) := by
    unfold gevPdf
    rw [if_neg (not_le.mpr hx)]
    have e : gevArg μ l α x = 1 + α * (l * (x - μ)) := rfl
    rw [e]
    have e1 : -(1 + 1 / α) * log (1 + α * (l * (x - μ))) - exp (-(log (1 + α * (l * (x - μ))) / α)) =
        -log (1 + α * (l * (x - μ))) + (-(log (1 + α * (l * (x - μ))) / α) + -exp (-(log (1 + α * (l * (x - μ))) / α))) := by
      field_simp; ring
    rw [e1, exp_add, exp_add, exp_neg (log _), exp_log hx']
    field_simp
  rw [hp]
  exact h4.congr_of_eventuallyEq hev

/-! ## L1, GEV branch -/
section
variable {x μ l α : ℝ}

theorem code_cdf (hl : 0 < l) (hg : ¬ |l * (x - μ) * α| < 1e-12) : esl_gev_cdf x μ l α = gevCdf μ l α x := by
  unfold esl_gev_cdf gevCdf
  simp only [num_exp, num_log, num_log1p, num_expm1, num_fabs, lit_one, lit_zero]
  rw [if_neg (by norm_num at hg ⊢; exact hg)]
  by_cases h : gevArg μ l α x ≤ 0
  · have h' : 1 + α * (l * (x - μ)) ≤ 0 := h
    rw [if_pos h', if_pos h]
    by_cases hx : x < μ
    · rw [if_pos hx, if_pos ((side_iff hl h).mp hx)]
    · rw [if_neg hx, if_neg (fun hα => hx ((side_iff hl h).mpr hα))]
  · have h' : ¬ 1 + α * (l * (x - μ)) ≤ 0 := h
    rw [if_neg h', if_neg h]
    unfold gevArg; rw [neg_div]

theorem code_logcdf (hg : ¬ |l * (x - μ) * α| < 1e-12) (hx : 0 < gevArg μ l α x) :
    esl_gev_logcdf x μ l α = log (gevCdf μ l α x) := by
  unfold esl_gev_logcdf gevCdf
  simp only [num_exp, num_log, num_log1p, num_expm1, num_fabs, lit_one, lit_zero]
  rw [if_neg (by norm_num at hg ⊢; exact hg)]
  have h' : ¬ 1 + α * (l * (x - μ)) ≤ 0 := not_le.mpr hx
  rw [if_neg h', if_neg (not_le.mpr hx), log_exp]
  unfold gevArg; rw [neg_div]

theorem code_pdf (hg : ¬ |l * (x - μ) * α| < 1e-12) : esl_gev_pdf x μ l α = gevPdf μ l α x := by
  unfold esl_gev_pdf gevPdf
  simp only [num_exp, num_log, num_log1p, num_expm1, num_fabs, lit_one, lit_zero]
  rw [if_neg (by norm_num at hg ⊢; exact hg)]
  by_cases h : gevArg μ l α x ≤ 0
  · have h' : 1 + α * (l * (x - μ)) ≤ 0 := h
    rw [if_pos h', if_pos h]
  · have h' : ¬ 1 + α * (l * (x - μ)) ≤ 0 := h
    rw [if_neg h', if_neg h]
    unfold gevArg; rw [neg_div]

theorem code_logpdf (hl : 0 < l) (hg : ¬ |l * (x - μ) * α| < 1e-12) (hx : 0 < gevArg μ l α x) :
    esl_gev_logpdf x μ l α = log (gevPdf μ l α x) := by
  unfold esl_gev_logpdf gevPdf
  simp only [num_exp, num_log, num_log1p, num_expm1, num_fabs, lit_one, lit_zero]
  rw [if_neg (by norm_num at hg ⊢; exact hg)]
  have h' : ¬ 1 + α * (l * (x - μ)) ≤ 0 := not_le.mpr hx
  rw [if_neg h', if_neg (not_le.mpr hx), log_mul (ne_of_gt hl) (exp_ne_zero _), log_exp]
  unfold gevArg; rw [neg_div]; ring

/-- the switch point `-0.5 log(DBL_EPSILON)`: beyond it `t = e^{-lya1}` satisfies `t² < DBL_EPSILON` and `t < 1` -/
theorem beyond_switch {s : ℝ} (h : -0.5 * log 2.2204460492503131e-16 < s) :
    exp (-s) ^ 2 < 2.2204460492503131e-16 ∧ exp (-s) < 1 := by
  have hε : (0 : ℝ) < 2.2204460492503131e-16 := by norm_num
  have hneg : log (2.2204460492503131e-16 : ℝ) < 0 := log_neg hε (by norm_num)
  constructor
  · rw [sq, ← exp_add]
    have : -s + -s < log 2.2204460492503131e-16 := by linarith
    calc exp (-s + -s) < exp (log 2.2204460492503131e-16) := exp_lt_exp.mpr this
      _ = 2.2204460492503131e-16 := exp_log hε
  · rw [exp_lt_one_iff]; linarith

/-- `esl_gev_surv` is within `2.3e-16` of `1 - cdf` (beyond the switch it returns `e^{-lya1}` for `1 - exp(-e^{-lya1})`). -/
theorem code_surv (hl : 0 < l) (hg : ¬ |l * (x - μ) * α| < 1e-12) : |esl_gev_surv x μ l α - gevSurv μ l α x| ≤ 2.3e-16 := by
  unfold esl_gev_surv gevSurv gevCdf
  simp only [num_exp, num_log, num_log1p, num_expm1, num_fabs, lit_one, lit_zero]
  rw [if_neg (by norm_num at hg ⊢; exact hg)]
  by_cases h : gevArg μ l α x ≤ 0
  · have h' : 1 + α * (l * (x - μ)) ≤ 0 := h
    rw [if_pos h', if_pos h]
    by_cases hx : x < μ
    · rw [if_pos hx, if_pos ((side_iff hl h).mp hx)]; norm_num
    · rw [if_neg hx, if_neg (fun hα => hx ((side_iff hl h).mpr hα))]; norm_num
  · have h' : ¬ 1 + α * (l * (x - μ)) ≤ 0 := h
    rw [if_neg h', if_neg h]
    have e : gevArg μ l α x = 1 + α * (l * (x - μ)) := rfl
    rw [e]
    set s := log (1 + α * (l * (x - μ))) / α with hs
    split_ifs with hsw
    · obtain ⟨h2, h1⟩ := beyond_switch hsw
      have hpos : 0 < exp (-s) := exp_pos _
      have := one_sub_exp_neg_approx (t := exp (-s)) (by rw [abs_of_pos hpos]; linarith)
      have e2 : exp (-s) - (1 - exp (-exp (-s))) = exp (-s) - (1 - exp (-exp (-s))) := rfl
      linarith
    · simp; norm_num

/-- `e^{2.9} ≥ 17` and `e^{-17} ≤ 5e-8`: numbers behind the `lya1 < -2.9` switch of `esl_gev_logsurv` -/
theorem exp_29_ge : (17 : ℝ) ≤ exp 2.9 := by
  have h2 : (1 : ℝ) + 0.29 + 0.29 ^ 2 / 2 ≤ exp 0.29 := Real.quadratic_le_exp_of_nonneg (by norm_num)
  have h3 : ((1 : ℝ) + 0.29 + 0.29 ^ 2 / 2) ^ 10 ≤ exp 0.29 ^ 10 := pow_le_pow_left₀ (by norm_num) h2 10
  have h4 : exp 0.29 ^ 10 = exp 2.9 := by rw [← exp_nat_mul]; norm_num
  rw [← h4]; refine le_trans ?_ h3; norm_num

theorem exp_neg_17_le : exp (-17 : ℝ) ≤ 5e-8 := by
  have h2 : (1 : ℝ) + 0.17 + 0.17 ^ 2 / 2 ≤ exp 0.17 := Real.quadratic_le_exp_of_nonneg (by norm_num)
  have h3 : ((1 : ℝ) + 0.17 + 0.17 ^ 2 / 2) ^ 100 ≤ exp 0.17 ^ 100 := pow_le_pow_left₀ (by norm_num) h2 100
  have h4 : exp 0.17 ^ 100 = exp 17 := by rw [← exp_nat_mul]; norm_num
  have h5 : (2e7 : ℝ) ≤ exp 17 := by rw [← h4]; refine le_trans ?_ h3; norm_num
  rw [exp_neg, inv_le_comm₀ (exp_pos _) (by norm_num)]
  refine le_trans ?_ h5; norm_num

/-- `esl_gev_logsurv` on the support, GEV branch: within `3e-8` of `log (1 - cdf)` in each of its three branches
    (`-lya1` beyond `-½ log DBL_EPSILON`; `-exp(-e^{-lya1})` below `-2.9`; the plain formula between). -/
theorem code_logsurv (hg : ¬ |l * (x - μ) * α| < 1e-12) (hx : 0 < gevArg μ l α x) :
    |esl_gev_logsurv x μ l α - log (gevSurv μ l α x)| ≤ 3e-8 := by
  unfold esl_gev_logsurv gevSurv gevCdf
  simp only [num_exp, num_log, num_log1p, num_fabs, lit_one, lit_zero]
  rw [if_neg (by norm_num at hg ⊢; exact hg)]
  have h' : ¬ 1 + α * (l * (x - μ)) ≤ 0 := not_le.mpr hx
  rw [if_neg h', if_neg (not_le.mpr hx)]
  have e : gevArg μ l α x = 1 + α * (l * (x - μ)) := rfl
  rw [e]
  set s := log (1 + α * (l * (x - μ))) / α with hs
  set t := exp (-s) with ht
  have htpos : 0 < t := exp_pos _
  have hlogt : log t = -s := by rw [ht, log_exp]
  split_ifs with h1 h2
  · obtain ⟨hsq, _⟩ := beyond_switch h1
    have ht15 : t < 1.5e-8 := by
      by_contra hc
      have : (1.5e-8 : ℝ) ^ 2 ≤ t ^ 2 := pow_le_pow_left₀ (by norm_num) (not_lt.mp hc) 2
      norm_num at this hsq; linarith
    have := log_one_sub_exp_neg_approx htpos (by linarith)
    rw [hlogt] at this
    have : |-s - log (1 - exp (-t))| ≤ 2 * t := this
    linarith
  · have ht17 : 17 ≤ t := by
      have : exp 2.9 ≤ t := by rw [ht]; apply exp_le_exp.mpr; norm_num at h2 ⊢; linarith
      exact le_trans exp_29_ge this
    have hc0 : 0 < exp (-t) := exp_pos _
    have hc1 : exp (-t) ≤ 5e-8 := le_trans (exp_le_exp.mpr (by linarith)) exp_neg_17_le
    have := log_one_sub_approx hc0.le (by linarith)
    have e2 : -exp (-t) - log (1 - exp (-t)) = -(log (1 - exp (-t)) + exp (-t)) := by ring
    rw [e2, abs_neg]
    have : 2 * exp (-t) ^ 2 ≤ 3e-8 := by nlinarith
    linarith
  · simp; norm_num

theorem code_invcdf {p : ℝ} (hα : ¬ |α| < 1e-12) : esl_gev_invcdf p μ l α = gevInvCdf μ l α p := by
  unfold esl_gev_invcdf gevInvCdf
  simp only [num_exp, num_log, num_expm1, num_fabs, lit_one]
  rw [if_neg (by norm_num at hα ⊢; exact hα)]

end

/-! ## Gumbel branch: the code there is literally the Gumbel code -/
theorem gumbel_branch_cdf {x μ l α : ℝ} (hg : |l * (x - μ) * α| < 1e-12) : esl_gev_cdf x μ l α = esl_gumbel_cdf x μ l := by
  unfold esl_gev_cdf esl_gumbel_cdf
  simp only [num_exp, num_fabs]
  rw [if_pos (by norm_num at hg ⊢; exact hg)]

theorem gumbel_branch_logcdf {x μ l α : ℝ} (hg : |l * (x - μ) * α| < 1e-12) : esl_gev_logcdf x μ l α = esl_gumbel_logcdf x μ l := by
  unfold esl_gev_logcdf esl_gumbel_logcdf
  simp only [num_exp, num_fabs]
  rw [if_pos (by norm_num at hg ⊢; exact hg)]

theorem gumbel_branch_pdf {x μ l α : ℝ} (hg : |l * (x - μ) * α| < 1e-12) : esl_gev_pdf x μ l α = esl_gumbel_pdf x μ l := by
  unfold esl_gev_pdf esl_gumbel_pdf
  simp only [num_exp, num_fabs]
  rw [if_pos (by norm_num at hg ⊢; exact hg)]

theorem gumbel_branch_logpdf {x μ l α : ℝ} (hg : |l * (x - μ) * α| < 1e-12) : esl_gev_logpdf x μ l α = esl_gumbel_logpdf x μ l := by
  unfold esl_gev_logpdf esl_gumbel_logpdf
  simp only [num_exp, num_log, num_fabs]
  rw [if_pos (by norm_num at hg ⊢; exact hg)]

/-- Gumbel branch of `esl_gev_surv` (its own switch at `-½ log DBL_EPSILON`): within `2.3e-16` of the Gumbel survival -/
theorem gumbel_branch_surv {x μ l α : ℝ} (hg : |l * (x - μ) * α| < 1e-12) :
    |esl_gev_surv x μ l α - gumbelSurv μ l x| ≤ 2.3e-16 := by
  unfold esl_gev_surv gumbelSurv gumbelCdf
  simp only [num_exp, num_log, num_fabs, lit_one]
  rw [if_pos (by norm_num at hg ⊢; exact hg)]
  set s := l * (x - μ) with hs
  split_ifs with hsw
  · obtain ⟨h2, h1⟩ := beyond_switch hsw
    have hpos : 0 < exp (-s) := exp_pos _
    have := one_sub_exp_neg_approx (t := exp (-s)) (by rw [abs_of_pos hpos]; linarith)
    linarith
  · simp; norm_num

/-- Gumbel branch of `esl_gev_logsurv` (three-way switch): within `3e-8` of the log Gumbel survival -/
theorem gumbel_branch_logsurv {x μ l α : ℝ} (hg : |l * (x - μ) * α| < 1e-12) :
    |esl_gev_logsurv x μ l α - log (gumbelSurv μ l x)| ≤ 3e-8 := by
  unfold esl_gev_logsurv gumbelSurv gumbelCdf
  simp only [num_exp, num_log, num_fabs, lit_one]
  rw [if_pos (by norm_num at hg ⊢; exact hg)]
  set s := l * (x - μ) with hs
  set t := exp (-s) with ht
  have htpos : 0 < t := exp_pos _
  have hlogt : log t = -s := by rw [ht, log_exp]
  split_ifs with h1 h2
  · obtain ⟨hsq, _⟩ := beyond_switch h1
    have ht15 : t < 1.5e-8 := by
      by_contra hc
      have : (1.5e-8 : ℝ) ^ 2 ≤ t ^ 2 := pow_le_pow_left₀ (by norm_num) (not_lt.mp hc) 2
      norm_num at this hsq; linarith
    have := log_one_sub_exp_neg_approx htpos (by linarith)
    rw [hlogt] at this
    have : |-s - log (1 - exp (-t))| ≤ 2 * t := this
    linarith
  · have ht17 : 17 ≤ t := by
      have : exp 2.9 ≤ t := by rw [ht]; apply exp_le_exp.mpr; norm_num at h2 ⊢; linarith
      exact le_trans exp_29_ge this
    have hc0 : 0 < exp (-t) := exp_pos _
    have hc1 : exp (-t) ≤ 5e-8 := le_trans (exp_le_exp.mpr (by linarith)) exp_neg_17_le
    have := log_one_sub_approx hc0.le (by linarith)
    have e2 : -exp (-t) - log (1 - exp (-t)) = -(log (1 - exp (-t)) + exp (-t)) := by ring
    rw [e2, abs_neg]
    have : 2 * exp (-t) ^ 2 ≤ 3e-8 := by nlinarith
    linarith
  · simp; norm_num

/-- `log(1+u) ≈ u`: error at most `2u²` for `|u| ≤ 1/2` -/
theorem log_one_add_approx {u : ℝ} (hu : |u| ≤ 1 / 2) : |log (1 + u) - u| ≤ 2 * u ^ 2 := by
  have hu' := abs_le.mp hu
  have hpos : 0 < 1 + u := by linarith
  have hup : log (1 + u) ≤ (1 + u) - 1 := log_le_sub_one_of_pos hpos
  have hlo : 1 - (1 + u)⁻¹ ≤ log (1 + u) := one_sub_inv_le_log_of_pos hpos
  have hinv : (1 + u)⁻¹ ≤ 1 - u + 2 * u ^ 2 := by
    rw [inv_le_iff_one_le_mul₀ hpos]; nlinarith [sq_nonneg u, hu'.1, hu'.2]
  rw [abs_le]; constructor <;> nlinarith [sq_nonneg u]

/-- Inside the Gumbel branch (`|α y| < 1e-12`, `α ≠ 0`) the exponent the GEV prescribes, `log(1+αy)/α`, is within
    `2e-12·|y|` of the `y` the code uses. -/
theorem gumbel_branch_exponent {y α : ℝ} (hα : α ≠ 0) (hg : |y * α| < 1e-12) :
    |log (1 + α * y) / α - y| ≤ 2e-12 * |y| := by
  have hu : |α * y| ≤ 1 / 2 := by rw [mul_comm]; linarith
  have h := log_one_add_approx hu
  have e : log (1 + α * y) / α - y = (log (1 + α * y) - α * y) / α := by field_simp
  rw [e, abs_div]
  rw [div_le_iff₀ (abs_pos.mpr hα)]
  have h2 : 2 * (α * y) ^ 2 = 2 * |α * y| * |y| * |α| := by
    rw [← sq_abs (α * y), abs_mul]; ring
  have h3 : |α * y| < 1e-12 := by rw [mul_comm]; exact hg
  have : 2 * |α * y| * |y| * |α| ≤ 2e-12 * |y| * |α| := by
    have := mul_nonneg (abs_nonneg y) (abs_nonneg α)
    nlinarith [abs_nonneg y, abs_nonneg α, abs_nonneg (α * y)]
  linarith

/-- **Gumbel-vs-GEV distance inside the Gumbel branch**, log cdf: the code returns the Gumbel value `-e^{-y}`; the GEV
    with the actual `α ≠ 0` has `log cdf = -e^{-s}`, `s = log(1+αy)/α`; they differ by at most `4e-12·|y|·e^{-y}`
    (relative `4e-12·|y|`), for `|y| ≤ 1e11`. -/
theorem gumbel_branch_logcdf_dist {x μ l α : ℝ} (hα : α ≠ 0) (hg : |l * (x - μ) * α| < 1e-12) (hy : |l * (x - μ)| ≤ 1e11) :
    |esl_gev_logcdf x μ l α - log (gevCdf μ l α x)| ≤ 4e-12 * |l * (x - μ)| * exp (-(l * (x - μ))) := by
  set y := l * (x - μ) with hyd
  have hu : |α * y| < 1e-12 := by rw [mul_comm]; exact hg
  have harg : 0 < gevArg μ l α x := by
    unfold gevArg; have := (abs_lt.mp hu).1; norm_num at this; linarith
  rw [gumbel_branch_logcdf hg]
  unfold esl_gumbel_logcdf gevCdf
  simp only [num_exp]
  rw [if_neg (not_le.mpr harg), log_exp]
  have e0 : gevArg μ l α x = 1 + α * y := rfl
  rw [e0]
  set d := log (1 + α * y) / α - y with hd
  have hdb : |d| ≤ 2e-12 * |y| := gumbel_branch_exponent hα hg
  have hd1 : |d| ≤ 1 := by nlinarith [abs_nonneg y]
  have e1 : -(log (1 + α * y) / α) = -y + -d := by rw [hd]; ring
  rw [e1, exp_add]
  have e2 : -exp (-y) - -(exp (-y) * exp (-d)) = exp (-y) * (exp (-d) - 1) := by ring
  rw [e2, abs_mul, abs_of_pos (exp_pos _)]
  have h3 := Real.abs_exp_sub_one_sub_id_le (x := -d) (by rwa [abs_neg])
  have h4 : |exp (-d) - 1| ≤ |d| + d ^ 2 := by
    have : exp (-d) - 1 = (exp (-d) - 1 - -d) + -d := by ring
    rw [this]
    refine le_trans (abs_add_le _ _) ?_
    rw [abs_neg]; have : (-d) ^ 2 = d ^ 2 := by ring
    linarith [this ▸ h3]
  have h5 : d ^ 2 ≤ |d| := by rw [← sq_abs]; nlinarith [abs_nonneg d]
  have h6 : |exp (-d) - 1| ≤ 4e-12 * |y| := by linarith
  calc exp (-y) * |exp (-d) - 1| ≤ exp (-y) * (4e-12 * |y|) := mul_le_mul_of_nonneg_left h6 (exp_pos _).le
    _ = 4e-12 * |y| * exp (-y) := by ring

theorem gumbel_branch_invcdf {p μ l α : ℝ} (hα : |α| < 1e-12) : esl_gev_invcdf p μ l α = esl_gumbel_invcdf p μ l := by
  unfold esl_gev_invcdf esl_gumbel_invcdf
  simp only [num_exp, num_log, num_fabs]
  rw [if_pos (by norm_num at hα ⊢; exact hα)]

end EaselModel.Dist.GevThm
