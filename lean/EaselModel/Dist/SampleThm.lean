import EaselModel.Dist.GamSxpThm
import EaselModel.Dist.NormalThm
import EaselModel.Dist.Mix
/-! The samplers that do not go by inversion of a uniform deviate — `esl_sxp_Sample` (change of variable from a Gamma
    variate), `esl_lognormal_Sample` (exponential of a Gaussian variate), `esl_gam_Sample` (location-scale of a Gamma
    variate, with a redraw loop): the TRANSLATED function applied to the primitive variate `t` the generator yields lands
    at the point whose cdf equals the primitive family's cdf at `t` — the transformation is the right one, so the sample
    has the family's distribution whenever the primitive variate has its own. -/
noncomputable section
namespace EaselModel.Dist.SampleThm
open Real EaselModel.Dist EaselModel.Dist.Gen EaselModel.Dist.IncGammaInt EaselModel.Dist.GamSxpThm

/-- `esl_sxp_Sample t = μ + t^{1/τ}/λ` for a Gamma variate `t > 0` -/
theorem sxp_sample_eq {t μ l τ : ℝ} (ht : 0 < t) : esl_sxp_Sample t μ l τ = μ + 1 / l * t ^ (1 / τ) := by
  unfold esl_sxp_Sample
  simp only [lit_one, num_exp, num_log]
  rw [Real.rpow_def_of_pos ht, mul_comm (1 / τ)]

/-- stretched exponential: the sample made from the Gamma(1/τ) variate `t` sits where the sxp cdf equals the
    Gamma(1/τ) cdf at `t`: `F_sxp(Sample t) = P(1/τ, t)` (textbook), and the same for the translated cdf:
    `esl_sxp_cdf (Sample t) = esl_gam_cdf t 0 1 (1/τ)`. -/
theorem sxp_sample_cdf {t μ l τ : ℝ} (ht : 0 < t) (hl : 0 < l) (hτ : 0 < τ) :
    sxpCdf μ l τ (esl_sxp_Sample t μ l τ) = P (1 / τ) t ∧ μ < esl_sxp_Sample t μ l τ ∧
    esl_sxp_cdf (esl_sxp_Sample t μ l τ) μ l τ = esl_gam_cdf t 0 1 (1 / τ) := by
  have hp : 0 < t ^ (1 / τ) := rpow_pos_of_pos ht _
  have hx : μ < esl_sxp_Sample t μ l τ := by
    rw [sxp_sample_eq ht]; have := mul_pos (one_div_pos.mpr hl) hp; linarith
  have hy : l * (esl_sxp_Sample t μ l τ - μ) = t ^ (1 / τ) := by
    rw [sxp_sample_eq ht]; field_simp; ring
  have hz : (t ^ (1 / τ)) ^ τ = t := by
    rw [← rpow_mul ht.le, one_div, inv_mul_cancel₀ hτ.ne', rpow_one]
  refine ⟨?_, hx, ?_⟩
  · rw [sxpCdf, if_neg (not_le.mpr hx), hy, hz]
  · have h1 : esl_sxp_cdf (esl_sxp_Sample t μ l τ) μ l τ = Num.incGammaP (1 / τ) t := by
      unfold esl_sxp_cdf; simp only [lit_one, num_exp, num_log]
      rw [if_neg (not_le.mpr hx), hy, mul_comm τ, ← Real.rpow_def_of_pos hp, hz]
    have h2 : esl_gam_cdf t 0 1 (1 / τ) = Num.incGammaP (1 / τ) t := by
      unfold esl_gam_cdf; simp only [lit_zero]
      rw [if_neg (by simpa using ht)]; simp
    rw [h1, h2]

/-- log-normal: `esl_lognormal_Sample g = e^{μ + σ g}` and the textbook log-normal cdf there is the standard normal cdf at
    the Gaussian variate `g` -/
theorem lognormal_sample_cdf {g μ σ : ℝ} (hσ : 0 < σ) :
    esl_lognormal_Sample g μ σ = exp (μ + σ * g) ∧ 0 < esl_lognormal_Sample g μ σ ∧
    NormalThm.lognormalCdf μ σ (esl_lognormal_Sample g μ σ) = NormalThm.normalCdf 0 1 g := by
  have e : esl_lognormal_Sample g μ σ = exp (μ + σ * g) := by unfold esl_lognormal_Sample; simp only [num_exp]
  refine ⟨e, e ▸ exp_pos _, ?_⟩
  rw [e, NormalThm.lognormalCdf, log_exp, NormalThm.normalCdf, NormalThm.normalCdf]
  congr 3
  field_simp; ring

/-- gamma (hand model of the redraw loop): the result is `μ + t/λ` for the FIRST variate `t` of the stream with
    `μ + t/λ ≠ μ` — never `μ` itself — and the textbook gamma cdf there is `P(τ, t)`, the Gamma(τ) cdf at that variate. -/
theorem gam_sample_spec {μ l : ℝ} : ∀ (ts : List ℝ) (x : ℝ), Mix.gamSample μ l ts = some x →
    x ≠ μ ∧ ∃ t ∈ ts, x = μ + t / l := by
  intro ts
  induction ts with
  | nil => intro x h; simp [Mix.gamSample] at h
  | cons t ts ih =>
    intro x h
    simp only [Mix.gamSample, num_eqb] at h
    split_ifs at h with heq
    · obtain ⟨h1, t', ht', h2⟩ := ih x h
      exact ⟨h1, t', List.mem_cons_of_mem _ ht', h2⟩
    · simp only [Option.some.injEq] at h
      subst h
      exact ⟨heq, t, List.mem_cons_self, rfl⟩

theorem gam_sample_cdf {t μ l τ : ℝ} (ht : 0 < t) (hl : 0 < l) : gamCdf μ l τ (μ + t / l) = P τ t := by
  have hx : μ < μ + t / l := by have := div_pos ht hl; linarith
  rw [gamCdf, if_neg (not_le.mpr hx)]
  congr 1; field_simp; ring

end EaselModel.Dist.SampleThm
