import EaselModel.Dist.MixLogGen
/-! `esl_hxp_logcdf` (TRANSLATED; the loop stores `log q_k + esl_exp_logcdf(x, μ, λ_k)`, `esl_vec_DLogSum` sums): within `1e-8`
    of the logarithm of the textbook mixture cdf — log-sum-exp is 1-Lipschitz in the sup norm, so the components'
    `1e-8` (their `eslSMALLX1` switches) is inherited, not accumulated. -/
noncomputable section
namespace EaselModel.Dist.MixLogClose
open Real Finset EaselModel.Dist EaselModel.Dist.Gen EaselModel.Dist.Spec EaselModel.Dist.MixGen EaselModel.Dist.MixLogGen

/-- weighted log-sum-exp against the weighted sum of the exact terms: `|c_k − log t_k| ≤ ε` for all `k` ⇒
    `|log Σ q_k e^{c_k} − log Σ q_k t_k| ≤ ε` -/
theorem log_wsum_close (n : ℕ) (hn : 1 ≤ n) (q c t : ℕ → ℝ) (ε : ℝ) (hq : ∀ k < n, 0 < q k) (ht : ∀ k < n, 0 < t k)
    (hc : ∀ k < n, |c k - log (t k)| ≤ ε) :
    |log (∑ k ∈ range n, q k * exp (c k)) - log (∑ k ∈ range n, q k * t k)| ≤ ε := by
  have hne : (range n).Nonempty := nonempty_range_iff.mpr (by omega)
  have hT : 0 < ∑ k ∈ range n, q k * t k := sum_pos (fun k hk => mul_pos (hq k (mem_range.mp hk)) (ht k (mem_range.mp hk))) hne
  have hS : 0 < ∑ k ∈ range n, q k * exp (c k) := sum_pos (fun k hk => mul_pos (hq k (mem_range.mp hk)) (exp_pos _)) hne
  have hup : ∑ k ∈ range n, q k * exp (c k) ≤ exp ε * ∑ k ∈ range n, q k * t k := by
    rw [mul_sum]
    refine sum_le_sum fun k hk => ?_
    have hk' := mem_range.mp hk
    have h1 : c k ≤ ε + log (t k) := by have := (abs_le.mp (hc k hk')).2; linarith
    have h2 : exp (c k) ≤ exp ε * t k := by
      calc exp (c k) ≤ exp (ε + log (t k)) := exp_le_exp.mpr h1
        _ = exp ε * t k := by rw [exp_add, exp_log (ht k hk')]
    calc q k * exp (c k) ≤ q k * (exp ε * t k) := mul_le_mul_of_nonneg_left h2 (hq k hk').le
      _ = exp ε * (q k * t k) := by ring
  have hlo : exp (-ε) * ∑ k ∈ range n, q k * t k ≤ ∑ k ∈ range n, q k * exp (c k) := by
    rw [mul_sum]
    refine sum_le_sum fun k hk => ?_
    have hk' := mem_range.mp hk
    have h1 : -ε + log (t k) ≤ c k := by have := (abs_le.mp (hc k hk')).1; linarith
    have h2 : exp (-ε) * t k ≤ exp (c k) := by
      calc exp (-ε) * t k = exp (-ε + log (t k)) := by rw [exp_add, exp_log (ht k hk')]
        _ ≤ exp (c k) := exp_le_exp.mpr h1
    calc exp (-ε) * (q k * t k) = q k * (exp (-ε) * t k) := by ring
      _ ≤ q k * exp (c k) := mul_le_mul_of_nonneg_left h2 (hq k hk').le
  have h1 := log_le_log hS hup
  rw [log_mul (exp_pos _).ne' hT.ne', log_exp] at h1
  have h2 := log_le_log (mul_pos (exp_pos _) hT) hlo
  rw [log_mul (exp_pos _).ne' hT.ne', log_exp] at h2
  rw [abs_le]; constructor <;> linarith

/-- `esl_hxp_logcdf` is within `1e-8` of `log` of the textbook mixture cdf on `x > μ` (positive coefficients and rates whose
    stored log-terms lie within the 500-window of `esl_vec_DLogSum`) -/
theorem hxp_logcdf_close {h : ESL_HYPEREXP ℝ} {x : ℝ} (hx : h.mu < x) (hK : 1 ≤ h.K) (hw : h.K ≤ h.wrk.length)
    (hpos : ∀ k < h.K, 0 < hq h k ∧ 0 < hl h k)
    (hfin : ∀ k < h.K, entry h (fun l => esl_exp_logcdf x h.mu l) k ≠ (Num.inf : ℝ))
    (hwin : ∀ i < h.K, ∀ j < h.K, entry h (fun l => esl_exp_logcdf x h.mu l) j - 500 < entry h (fun l => esl_exp_logcdf x h.mu l) i) :
    |esl_hxp_logcdf x h - log (hxpCdf h x)| ≤ 1e-8 := by
  have e : esl_hxp_logcdf x h = log (∑ k ∈ range h.K, hq h k * exp (esl_exp_logcdf x h.mu (hl h k))) := by
    simp only [esl_hxp_logcdf]
    rw [if_neg (not_lt.mpr hx.le), fold_struct h (fun m l => esl_exp_logcdf x m l) h.K]
    exact hxp_lsum h _ (fun l => exp (esl_exp_logcdf x h.mu l)) hK hw
      (fun k hk => ⟨(hpos k hk).1, exp_pos _, (log_exp _).symm⟩) hfin hwin
  rw [e]
  unfold hxpCdf
  refine log_wsum_close h.K hK (hq h) (fun k => esl_exp_logcdf x h.mu (hl h k)) (fun k => expCdf h.mu (hl h k) x) 1e-8
    (fun k hk => (hpos k hk).1) (fun k hk => ?_) (fun k hk => ExpThm.code_logcdf (hpos k hk).2 hx)
  unfold expCdf
  rw [if_neg (not_lt.mpr hx.le)]
  have : exp (-(hl h k * (x - h.mu))) < 1 := by
    rw [exp_lt_one_iff]; have := mul_pos (hpos k hk).2 (sub_pos.mpr hx); linarith
  linarith

end EaselModel.Dist.MixLogClose
