import EaselModel.Dist.IncGammaInt
/-! Quantiles of the regularised incomplete gamma function (as an integral): `P a` is continuous and strictly increasing on
    `[0, ∞)` from `0` to `1`, so every `p ∈ (0,1)` has exactly one `y > 0` with `P a y = p`. -/
noncomputable section
namespace EaselModel.Dist.IncGammaInt
open Real MeasureTheory Set Filter

theorem kern_intervalIntegrable {a : ℝ} (ha : 0 < a) {s t : ℝ} (hs : 0 ≤ s) (ht : 0 ≤ t) : IntervalIntegrable (kern a) volume s t := by
  rw [intervalIntegrable_iff]
  exact (kern_integrable ha).mono_set fun u hu => by
    rcases le_total s t with h | h
    · rw [uIoc_of_le h] at hu; exact lt_of_le_of_lt hs hu.1
    · rw [uIoc_of_ge h] at hu; exact lt_of_le_of_lt ht hu.1

/-- `P` as an interval integral on `x ≥ 0` -/
theorem P_eq_interval {a x : ℝ} (hx : 0 ≤ x) : P a x = (∫ t in (0 : ℝ)..x, kern a t) / Gamma a := by
  unfold P; rw [intervalIntegral.integral_of_le hx]

theorem P_sub {a s t : ℝ} (ha : 0 < a) (hs : 0 ≤ s) (hst : s ≤ t) : P a t - P a s = (∫ u in s..t, kern a u) / Gamma a := by
  rw [P_eq_interval hs, P_eq_interval (hs.trans hst), ← sub_div,
    intervalIntegral.integral_interval_sub_left (kern_intervalIntegrable ha le_rfl (hs.trans hst)) (kern_intervalIntegrable ha le_rfl hs)]

/-- `P` is strictly increasing on `[0, ∞)` -/
theorem P_strictMono {a s t : ℝ} (ha : 0 < a) (hs : 0 ≤ s) (hst : s < t) : P a s < P a t := by
  have h := P_sub ha hs hst.le
  have hpos : 0 < ∫ u in s..t, kern a u :=
    intervalIntegral.intervalIntegral_pos_of_pos_on (kern_intervalIntegrable ha hs (hs.trans hst.le))
      (fun u hu => kern_pos (lt_of_le_of_lt hs hu.1)) hst
  have : 0 < P a t - P a s := by rw [h]; exact div_pos hpos (Gamma_pos_of_pos ha)
  linarith

theorem P_continuousOn {a X : ℝ} (ha : 0 < a) (hX : 0 ≤ X) : ContinuousOn (P a) (Icc 0 X) := by
  have h := intervalIntegral.continuousOn_primitive_interval' (μ := volume) (kern_intervalIntegrable ha le_rfl hX)
    (a := 0) (by rw [uIcc_of_le hX]; exact ⟨le_rfl, hX⟩)
  rw [uIcc_of_le hX] at h
  refine (h.div_const (Gamma a)).congr fun x hx => ?_
  exact P_eq_interval hx.1

/-- every `p ∈ (0,1)` has exactly one quantile `y > 0` -/
theorem P_quantile {a p : ℝ} (ha : 0 < a) (hp0 : 0 < p) (hp1 : p < 1) : ∃! y, 0 < y ∧ P a y = p := by
  obtain ⟨X, hX0, hXp⟩ : ∃ X, 0 ≤ X ∧ p < P a X := by
    have := (P_tendsto_atTop ha).eventually (lt_mem_nhds hp1)
    obtain ⟨X, hX⟩ := (this.and (eventually_ge_atTop 0)).exists
    exact ⟨X, hX.2, hX.1⟩
  obtain ⟨y, hy, hyp⟩ := intermediate_value_Icc hX0 (P_continuousOn ha hX0) (show p ∈ Icc (P a 0) (P a X) by
    rw [P_zero]; exact ⟨hp0.le, hXp.le⟩)
  have hy0 : 0 < y := by
    rcases hy.1.lt_or_eq with h | h
    · exact h
    · rw [← h, P_zero] at hyp; linarith
  refine ⟨y, ⟨hy0, hyp⟩, ?_⟩
  rintro z ⟨hz0, hzp⟩
  rcases lt_trichotomy z y with h | h | h
  · have := P_strictMono ha hz0.le h; linarith
  · exact h
  · have := P_strictMono ha hy0.le h; linarith

end EaselModel.Dist.IncGammaInt
