import EaselModel.Dist.ExpThm
import EaselModel.Dist.GumbelThm
import EaselModel.Dist.WeiThm
import EaselModel.Dist.GevThm
/-! The other direction of "the inverse cdf inverts the cdf": `cdf (invcdf p) = p` for `p ∈ (0,1)` (the closed-form families),
    hence a sample made by inversion from the deviate `u ∈ (0,1)` sits where the cdf is `u` (exponential: where the survival
    is `u`, the sampler uses `log u`) — a uniform deviate gives the family's distribution. -/
noncomputable section
namespace EaselModel.Dist.InvRight
open Real EaselModel.Dist EaselModel.Dist.Gen EaselModel.Dist.Spec

theorem neg_log_one_sub_pos {p : ℝ} (hp0 : 0 < p) (hp1 : p < 1) : 0 < -log (1 - p) := by
  have : log (1 - p) < 0 := log_neg (by linarith) (by linarith)
  linarith

theorem neg_log_pos {p : ℝ} (hp0 : 0 < p) (hp1 : p < 1) : 0 < -log p := by
  have : log p < 0 := log_neg hp0 hp1
  linarith

theorem exp_cdf_invcdf {μ l p : ℝ} (hl : 0 < l) (hp0 : 0 < p) (hp1 : p < 1) : expCdf μ l (expInvCdf μ l p) = p := by
  have h := neg_log_one_sub_pos hp0 hp1
  have hx : ¬ expInvCdf μ l p < μ := by
    unfold expInvCdf; have := div_pos h hl; rw [neg_div] at this; linarith
  unfold expCdf; rw [if_neg hx]; unfold expInvCdf
  have e : -(l * (μ - log (1 - p) / l - μ)) = log (1 - p) := by field_simp; ring
  rw [e, exp_log (by linarith)]; ring

theorem exp_surv_invsurv {μ l p : ℝ} (hl : 0 < l) (hp0 : 0 < p) (hp1 : p < 1) : expSurv μ l (expInvSurv μ l p) = p := by
  have h := neg_log_pos hp0 hp1
  have hx : ¬ expInvSurv μ l p < μ := by
    unfold expInvSurv; have := div_pos h hl; rw [neg_div] at this; linarith
  unfold expSurv; rw [if_neg hx]; unfold expInvSurv
  have e : -(l * (μ - log p / l - μ)) = log p := by field_simp; ring
  rw [e, exp_log hp0]

theorem gumbel_cdf_invcdf {μ l p : ℝ} (hl : l ≠ 0) (hp0 : 0 < p) (hp1 : p < 1) : gumbelCdf μ l (gumbelInvCdf μ l p) = p := by
  have h := neg_log_pos hp0 hp1
  unfold gumbelCdf gumbelInvCdf
  have e : -(l * (μ - log (-log p) / l - μ)) = log (-log p) := by field_simp; ring
  rw [e, exp_log h, neg_neg, exp_log hp0]

theorem wei_cdf_invcdf {μ l τ p : ℝ} (hl : 0 < l) (hτ : τ ≠ 0) (hp0 : 0 < p) (hp1 : p < 1) : weiCdf μ l τ (weiInvCdf μ l τ p) = p := by
  have h := neg_log_one_sub_pos hp0 hp1
  have hpos : 0 < exp (log (-log (1 - p)) / τ) / l := div_pos (exp_pos _) hl
  have hx : ¬ weiInvCdf μ l τ p ≤ μ := by unfold weiInvCdf; linarith
  unfold weiCdf; rw [if_neg hx]; unfold weiZ weiInvCdf
  have e : l * (μ + exp (log (-log (1 - p)) / τ) / l - μ) = exp (log (-log (1 - p)) / τ) := by field_simp; ring
  rw [e, log_exp]
  have e2 : τ * (log (-log (1 - p)) / τ) = log (-log (1 - p)) := by field_simp
  rw [e2, exp_log h, neg_neg, exp_log (by linarith)]; ring

theorem gev_cdf_invcdf {μ l α p : ℝ} (hl : 0 < l) (hα : α ≠ 0) (hp0 : 0 < p) (hp1 : p < 1) : gevCdf μ l α (gevInvCdf μ l α p) = p := by
  have h := neg_log_pos hp0 hp1
  have harg : gevArg μ l α (gevInvCdf μ l α p) = exp (-α * log (-log p)) := by
    unfold gevArg gevInvCdf; field_simp; ring
  unfold gevCdf
  rw [harg, if_neg (not_le.mpr (exp_pos _)), log_exp]
  have e : -(-α * log (-log p) / α) = log (-log p) := by field_simp
  rw [e, exp_log h, neg_neg, exp_log hp0]

/-- the inversion samplers: the (translated) sample made from a deviate `u ∈ (0,1)` sits where the textbook cdf equals `u`
    (exponential: where the survival equals `u`) -/
theorem samples_at_deviate {μ l t u : ℝ} (hl : 0 < l) (hu0 : 0 < u) (hu1 : u < 1) :
    expSurv μ l (esl_exp_Sample u μ l) = u ∧ gumbelCdf μ l (esl_gumbel_Sample u μ l) = u ∧
    (t ≠ 0 → weiCdf μ l t (esl_wei_Sample u μ l t) = u) ∧ (¬ |t| < 1e-12 → gevCdf μ l t (esl_gev_Sample u μ l t) = u) := by
  refine ⟨?_, ?_, fun ht => ?_, fun ht => ?_⟩
  · rw [ExpThm.code_sample, ExpThm.code_invsurv]; exact exp_surv_invsurv hl hu0 hu1
  · show gumbelCdf μ l (esl_gumbel_invcdf u μ l) = u
    rw [GumbelThm.code_invcdf]; exact gumbel_cdf_invcdf hl.ne' hu0 hu1
  · show weiCdf μ l t (esl_wei_invcdf u μ l t) = u
    rw [WeiThm.code_invcdf]; exact wei_cdf_invcdf hl ht hu0 hu1
  · show gevCdf μ l t (esl_gev_invcdf u μ l t) = u
    rw [GevThm.code_invcdf ht]
    exact gev_cdf_invcdf hl (fun h0 => ht (by rw [h0]; norm_num)) hu0 hu1

end EaselModel.Dist.InvRight
