import EaselModel.Dist.RealInst
import EaselModel.Dist.Lemmas
import EaselModel.Generated.Dist
import Mathlib.Analysis.SpecialFunctions.Sqrt
import Mathlib.Tactic.Ring
import Mathlib.Tactic.FieldSimp
/-! Families built on the special functions (`esl_gam_*`, `esl_sxp_*`, `esl_normal_*`, `esl_lognormal_*`), translated
    code at `ℝ`.  What is proved is what follows from the *structure* of the code: cdf + surv = 1 (the code forms
    `Q = 1 - P` / `P = 1 - Q`; for the normal, given `erfc (-t) = 2 - erfc t`), the log versions are the logarithms,
    monotonicity of the normal cdf given antitone `erfc`.  That `incGamma`/`erfc` approximate the true special
    functions is NOT proved (L0 monitors only). -/
noncomputable section
namespace EaselModel.Dist.SpecialFamThm
open Real EaselModel.Dist EaselModel.Dist.Gen

/-! ## gamma -/
theorem gam_cdf_add_surv {x μ l τ : ℝ} (h : 0 < l * (x - μ) → (realIncGamma τ (l * (x - μ))).isSome) :
    esl_gam_cdf x μ l τ + esl_gam_surv x μ l τ = 1 := by
  unfold esl_gam_cdf esl_gam_surv
  simp only [lit_zero, lit_one]
  split_ifs with hy
  · norm_num
  · exact incGammaP_add_Q (h (not_le.mp hy))

theorem gam_logcdf {x μ l τ : ℝ} (hy : 0 < l * (x - μ)) : esl_gam_logcdf x μ l τ = log (esl_gam_cdf x μ l τ) := by
  unfold esl_gam_logcdf esl_gam_cdf
  simp only [lit_zero, num_log]
  rw [if_neg (not_le.mpr hy), if_neg (not_le.mpr hy)]

theorem gam_logsurv {x μ l τ : ℝ} : esl_gam_logsurv x μ l τ = log (esl_gam_surv x μ l τ) := by
  unfold esl_gam_logsurv esl_gam_surv
  simp only [lit_zero, lit_one, num_log]
  split_ifs <;> simp

theorem gam_pdf_eq_exp_logpdf {x μ l τ : ℝ} (hy : 0 < l * (x - μ)) :
    esl_gam_pdf x μ l τ = exp (esl_gam_logpdf x μ l τ) := by
  have hx : x ≠ μ := by
    intro h; rw [h, sub_self, mul_zero] at hy; exact lt_irrefl _ hy
  unfold esl_gam_pdf esl_gam_logpdf
  simp only [lit_zero, lit_one, num_log, num_exp, num_eqb]
  rw [if_neg (not_lt.mpr hy.le), if_neg (not_lt.mpr hy.le), if_neg hx, if_neg hx]

/-- at the support edge `x = μ` with `τ = 1` (the exponential case) the density is `λ` and the log density `log λ`
    (repaired: was `0·log 0 = NaN`) -/
theorem gam_pdf_at_mu_tau1 (μ l : ℝ) : esl_gam_pdf μ μ l 1 = l ∧ esl_gam_logpdf μ μ l 1 = log l := by
  unfold esl_gam_pdf esl_gam_logpdf
  simp [lit_zero, lit_one]

/-! ## stretched exponential -/
theorem sxp_cdf_add_surv {x μ l τ : ℝ}
    (h : μ < x → (realIncGamma (1 / τ) (exp (τ * log (l * (x - μ))))).isSome) :
    esl_sxp_cdf x μ l τ + esl_sxp_surv x μ l τ = 1 := by
  unfold esl_sxp_cdf esl_sxp_surv
  simp only [lit_zero, lit_one, num_exp, num_log]
  split_ifs with hx
  · norm_num
  · exact incGammaP_add_Q (h (not_le.mp hx))

theorem sxp_logcdf {x μ l τ : ℝ} (hx : μ < x) : esl_sxp_logcdf x μ l τ = log (esl_sxp_cdf x μ l τ) := by
  unfold esl_sxp_logcdf esl_sxp_cdf
  simp only [lit_one, num_log, num_exp]
  rw [if_neg (not_le.mpr hx), if_neg (not_le.mpr hx)]

theorem sxp_logsurv {x μ l τ : ℝ} : esl_sxp_logsurv x μ l τ = log (esl_sxp_surv x μ l τ) := by
  unfold esl_sxp_logsurv esl_sxp_surv
  simp only [lit_zero, lit_one, num_log, num_exp]
  split_ifs <;> simp

theorem sxp_logpdf {x μ l τ : ℝ} (hl : 0 < l) (hτ : 0 < τ) (hx : μ ≤ x) :
    esl_sxp_logpdf x μ l τ = log (esl_sxp_pdf x μ l τ) := by
  unfold esl_sxp_logpdf esl_sxp_pdf
  simp only [lit_one, num_log, num_exp, num_eqb]
  rw [if_neg (not_lt.mpr hx), if_neg (not_lt.mpr hx)]
  have hlt : l * τ ≠ 0 := ne_of_gt (mul_pos hl hτ)
  split_ifs
  · rw [log_div hlt (exp_ne_zero _), log_mul (ne_of_gt hl) (ne_of_gt hτ), log_exp]
  · rw [log_mul (div_ne_zero hlt (exp_ne_zero _)) (exp_ne_zero _), log_div hlt (exp_ne_zero _),
      log_mul (ne_of_gt hl) (ne_of_gt hτ), log_exp, log_exp]; ring

/-! ## closed forms of the densities, up to the `LogGamma` symbol -/

/-- gamma density on the interior of the support: `pdf · e^{LogGamma τ} = λ^τ (x−μ)^{τ−1} e^{−λ(x−μ)}` (the textbook
    density times `Γ(τ)`); what `esl_stats_LogGamma` approximates (`log Γ`) is L0 -/
theorem gam_pdf_closed {x μ l τ : ℝ} (hl : 0 < l) (hx : μ < x) :
    esl_gam_pdf x μ l τ * exp (Num.logGamma τ) = l ^ τ * (x - μ) ^ (τ - 1) * exp (-(l * (x - μ))) := by
  have hy : 0 < l * (x - μ) := mul_pos hl (by linarith)
  have hxm : 0 < x - μ := by linarith
  unfold esl_gam_pdf
  simp only [lit_zero, lit_one, num_log, num_exp, num_eqb]
  rw [if_neg (not_lt.mpr hy.le), if_neg (ne_of_gt hx)]
  rw [Real.rpow_def_of_pos hl, Real.rpow_def_of_pos hxm, ← exp_add, ← exp_add, ← exp_add]
  congr 1; ring

/-- stretched-exponential density on the interior of the support: `pdf · e^{LogGamma(1/τ)} = λ τ e^{−(λ(x−μ))^τ}` -/
theorem sxp_pdf_closed {x μ l τ : ℝ} (hl : 0 < l) (hx : μ < x) :
    esl_sxp_pdf x μ l τ * exp (Num.logGamma (1 / τ)) = l * τ * exp (-(l * (x - μ)) ^ τ) := by
  have hy : 0 < l * (x - μ) := mul_pos hl (by linarith)
  unfold esl_sxp_pdf
  simp only [lit_one, num_log, num_exp, num_eqb]
  rw [if_neg (not_lt.mpr hx.le), if_neg (ne_of_gt hx), Real.rpow_def_of_pos hy]
  have he : exp (Num.logGamma (1 / τ)) ≠ 0 := exp_ne_zero _
  field_simp

/-! ## `esl_stats_IncompleteGamma`: what needs no analysis -/

/-- the C function throws `eslERANGE` for `a ≤ 0` or `x < 0` (the model yields `none`) -/
theorem realIncGamma_range_error {a x : ℝ} (h : a ≤ 0 ∨ x < 0) : realIncGamma a x = none := by
  unfold realIncGamma Special.incGamma
  rcases h with h | h
  · simp only [lit_zero]; rw [if_pos h]
  · simp only [lit_zero]; split_ifs <;> rfl

/-- a result implies valid arguments; which of the two it forms as `1 −` the other depends on the branch `x > a + 1` -/
theorem realIncGamma_branches {a x P Q : ℝ} (h : realIncGamma a x = some (P, Q)) :
    0 < a ∧ 0 ≤ x ∧ P + Q = 1 ∧ (a + 1 < x → P = 1 - Q) ∧ (¬ a + 1 < x → Q = 1 - P) := by
  have hs := realIncGamma_sum h
  refine ⟨?_, ?_, hs, fun _ => by linarith, fun _ => by linarith⟩
  · by_contra hc
    rw [realIncGamma_range_error (Or.inl (not_lt.mp hc))] at h; exact absurd h (by simp)
  · by_contra hc
    rw [realIncGamma_range_error (Or.inr (not_le.mp hc))] at h; exact absurd h (by simp)

/-! ## normal -/
theorem normal_cdf_add_surv (herfc : ∀ t : ℝ, Num.erfc (-t) = 2 - Num.erfc t) (x μ σ : ℝ) :
    esl_normal_cdf x μ σ + esl_normal_surv x μ σ = 1 := by
  unfold esl_normal_cdf esl_normal_surv
  simp only [lit_one, num_sqrt]
  have e : -1 * ((x - μ) / σ) / √2.0 = -((x - μ) / σ / √2.0) := by ring
  rw [e, herfc]; ring

theorem normal_cdf_mono (hanti : Antitone (Num.erfc : ℝ → ℝ)) {μ σ : ℝ} (hσ : 0 < σ) : Monotone (fun x => esl_normal_cdf x μ σ) := by
  intro a b hab
  unfold esl_normal_cdf
  simp only [lit_one, num_sqrt]
  have hs : (0 : ℝ) < √2.0 := by rw [Real.sqrt_pos]; norm_num
  have h1 : (a - μ) / σ ≤ (b - μ) / σ := div_le_div_of_nonneg_right (by linarith) hσ.le
  have h2 : -1 * ((b - μ) / σ) / √2.0 ≤ -1 * ((a - μ) / σ) / √2.0 :=
    div_le_div_of_nonneg_right (by linarith) hs.le
  have := hanti h2
  linarith

theorem normal_logpdf {x μ σ : ℝ} (hσ : 0 < σ) : esl_normal_logpdf x μ σ = log (esl_normal_pdf x μ σ) := by
  unfold esl_normal_logpdf esl_normal_pdf
  simp only [num_log, num_exp, num_sqrt]
  have hs : (0 : ℝ) < √(2.0 * 3.14159265358979323846264338328) := by rw [Real.sqrt_pos]; norm_num
  rw [log_div (exp_ne_zero _) (ne_of_gt (mul_pos hσ hs)), log_exp, log_mul (ne_of_gt hσ) (ne_of_gt hs)]; ring

/-! ## log-normal -/
theorem lognormal_logpdf {x μ σ : ℝ} (hx : 0 < x) (hσ : 0 < σ) : esl_lognormal_logpdf x μ σ = log (esl_lognormal_pdf x μ σ) := by
  unfold esl_lognormal_logpdf esl_lognormal_pdf
  simp only [num_log, num_exp, num_sqrt, num_eqb, lit_zero]
  rw [if_neg (ne_of_gt hx), if_neg (ne_of_gt hx)]
  have hc : (0 : ℝ) < 2.0 * 3.14159265358979323846264338328 := by norm_num
  have hs : (0 : ℝ) < √(2.0 * 3.14159265358979323846264338328) := Real.sqrt_pos.mpr hc
  have hxs : 0 < x * σ := mul_pos hx hσ
  rw [log_div (exp_ne_zero _) (ne_of_gt (mul_pos hxs hs)), log_exp, log_mul (ne_of_gt hxs) (ne_of_gt hs),
    Real.log_sqrt hc.le]; ring

end EaselModel.Dist.SpecialFamThm
