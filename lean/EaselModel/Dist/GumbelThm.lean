import EaselModel.Dist.RealInst
import EaselModel.Dist.Spec
import EaselModel.Dist.Lemmas
import EaselModel.Generated.Dist
import Mathlib.Analysis.SpecialFunctions.ExpDeriv
import Mathlib.Tactic.Ring
import Mathlib.Tactic.FieldSimp
/-! Gumbel distribution: L2 (textbook laws) and L1 (translated `esl_gumbel_*` at `ℝ` vs textbook). -/
noncomputable section
namespace EaselModel.Dist.GumbelThm
open Real EaselModel.Dist EaselModel.Dist.Gen EaselModel.Dist.Spec

/-! ## L2 -/
theorem gumbelCdf_pos (μ l x : ℝ) : 0 < gumbelCdf μ l x := exp_pos _
theorem gumbelCdf_lt_one (μ l x : ℝ) : gumbelCdf μ l x < 1 := by
  unfold gumbelCdf; rw [exp_lt_one_iff]; have := exp_pos (-(l * (x - μ))); linarith

theorem gumbelCdf_mono {μ l : ℝ} (hl : 0 ≤ l) : Monotone (gumbelCdf μ l) := by
  intro a b hab
  unfold gumbelCdf
  apply exp_le_exp.mpr
  have : l * (a - μ) ≤ l * (b - μ) := mul_le_mul_of_nonneg_left (by linarith) hl
  have : exp (-(l * (b - μ))) ≤ exp (-(l * (a - μ))) := exp_le_exp.mpr (by linarith)
  linarith

theorem gumbelCdf_add_surv (μ l x : ℝ) : gumbelCdf μ l x + gumbelSurv μ l x = 1 := by unfold gumbelSurv; ring

theorem lin_tendsto_atTop {μ l : ℝ} (hl : 0 < l) : Filter.Tendsto (fun x : ℝ => l * (x - μ)) Filter.atTop Filter.atTop :=
  Filter.Tendsto.const_mul_atTop hl (Filter.tendsto_atTop_add_const_right _ _ Filter.tendsto_id)

theorem lin_tendsto_atBot {μ l : ℝ} (hl : 0 < l) : Filter.Tendsto (fun x : ℝ => l * (x - μ)) Filter.atBot Filter.atBot :=
  Filter.Tendsto.const_mul_atBot hl (Filter.tendsto_atBot_add_const_right _ _ Filter.tendsto_id)

theorem gumbelCdf_tendsto_one {μ l : ℝ} (hl : 0 < l) : Filter.Tendsto (gumbelCdf μ l) Filter.atTop (nhds 1) := by
  have h2 : Filter.Tendsto (fun x : ℝ => exp (-(l * (x - μ)))) Filter.atTop (nhds 0) :=
    Real.tendsto_exp_neg_atTop_nhds_zero.comp (lin_tendsto_atTop hl)
  have h3 : Filter.Tendsto (fun x : ℝ => exp (-exp (-(l * (x - μ))))) Filter.atTop (nhds (exp (-0))) :=
    (Real.continuous_exp.tendsto _).comp h2.neg
  have e : gumbelCdf μ l = fun x : ℝ => exp (-exp (-(l * (x - μ)))) := rfl
  rw [e]; simpa using h3

theorem gumbelCdf_tendsto_zero {μ l : ℝ} (hl : 0 < l) : Filter.Tendsto (gumbelCdf μ l) Filter.atBot (nhds 0) := by
  have h1 : Filter.Tendsto (fun x : ℝ => -(l * (x - μ))) Filter.atBot Filter.atTop :=
    Filter.tendsto_neg_atBot_atTop.comp (lin_tendsto_atBot hl)
  have h2 : Filter.Tendsto (fun x : ℝ => exp (-(l * (x - μ)))) Filter.atBot Filter.atTop :=
    Real.tendsto_exp_atTop.comp h1
  exact Real.tendsto_exp_neg_atTop_nhds_zero.comp h2

theorem gumbelCdf_hasDerivAt (μ l x : ℝ) : HasDerivAt (gumbelCdf μ l) (gumbelPdf μ l x) x := by
  have h1 : HasDerivAt (fun x : ℝ => -(l * (x - μ))) (-l) x := by
    have h := ((hasDerivAt_id x).sub_const μ).const_mul (-l)
    have e : (fun x : ℝ => -(l * (x - μ))) = fun x => -l * (id x - μ) := by funext z; simp
    rw [e]; simpa using h
  have h2 : HasDerivAt (fun x : ℝ => -exp (-(l * (x - μ)))) (-(exp (-(l * (x - μ))) * -l)) x := by
    have h := (h1.exp).const_mul (-1)
    have e : (fun x : ℝ => -exp (-(l * (x - μ)))) = fun x => -1 * exp (-(l * (x - μ))) := by funext z; ring
    rw [e]; exact h.congr_deriv (by ring)
  have h3 := h2.exp
  have e : gumbelCdf μ l = fun x : ℝ => exp (-exp (-(l * (x - μ)))) := rfl
  rw [e]
  refine h3.congr_deriv ?_
  unfold gumbelPdf
  rw [sub_eq_add_neg (-(l * (x - μ))), exp_add]; ring

theorem gumbelInvCdf_cdf {μ l : ℝ} (hl : l ≠ 0) (x : ℝ) : gumbelInvCdf μ l (gumbelCdf μ l x) = x := by
  unfold gumbelInvCdf gumbelCdf
  rw [log_exp, neg_neg, log_exp]; field_simp; ring

theorem gumbelInvSurv_surv {μ l : ℝ} (hl : l ≠ 0) (x : ℝ) : gumbelInvSurv μ l (gumbelSurv μ l x) = x := by
  unfold gumbelInvSurv gumbelSurv
  have : (1 : ℝ) - (1 - gumbelCdf μ l x) = gumbelCdf μ l x := by ring
  rw [this]; exact gumbelInvCdf_cdf hl x

/-! ## L1 -/
theorem code_cdf (x μ l : ℝ) : esl_gumbel_cdf x μ l = gumbelCdf μ l x := by
  unfold esl_gumbel_cdf gumbelCdf; simp

theorem code_pdf (x μ l : ℝ) : esl_gumbel_pdf x μ l = gumbelPdf μ l x := by
  unfold esl_gumbel_pdf gumbelPdf; simp

theorem code_logcdf (x μ l : ℝ) : esl_gumbel_logcdf x μ l = log (gumbelCdf μ l x) := by
  unfold esl_gumbel_logcdf gumbelCdf; simp

theorem code_logpdf {l : ℝ} (hl : 0 < l) (x μ : ℝ) : esl_gumbel_logpdf x μ l = log (gumbelPdf μ l x) := by
  unfold esl_gumbel_logpdf gumbelPdf
  simp only [num_log, num_exp]
  rw [log_mul (ne_of_gt hl) (exp_ne_zero _), log_exp]; ring

/-- `esl_gumbel_surv`: within `2.5e-17` of `1 - cdf` (the `|e^{-y}| < eslSMALLX1` branch returns `e^{-y}`). -/
theorem code_surv (x μ l : ℝ) : |esl_gumbel_surv x μ l - gumbelSurv μ l x| ≤ 2.5e-17 := by
  unfold esl_gumbel_surv gumbelSurv gumbelCdf
  simp only [num_exp, num_fabs, lit_one, neg_neg, abs_neg]
  set t := exp (-(l * (x - μ))) with ht
  have htpos : 0 < t := exp_pos _
  split_ifs with h
  · have ht1 : t ≤ 5e-9 := by rw [abs_of_pos htpos] at h; norm_num at h ⊢; first | exact h | exact le_of_lt h
    have := one_sub_exp_neg_approx (t := t) (by rw [abs_of_pos htpos]; linarith)
    have hsq : t ^ 2 ≤ 2.5e-17 := by nlinarith
    exact le_trans this hsq
  · simp; norm_num

/-- `esl_gumbel_logsurv`: within `1e-8` of `log (1 - cdf)` in each of its three branches. -/
theorem code_logsurv (x μ l : ℝ) : |esl_gumbel_logsurv x μ l - log (gumbelSurv μ l x)| ≤ 1e-8 := by
  unfold esl_gumbel_logsurv gumbelSurv gumbelCdf
  simp only [num_exp, num_fabs, num_log, lit_one, abs_neg]
  set t := exp (-(l * (x - μ))) with ht
  have htpos : 0 < t := exp_pos _
  have hlogt : log t = -(l * (x - μ)) := by rw [ht, log_exp]
  split_ifs with h1 h2
  · have ht1 : t ≤ 5e-9 := by rw [abs_of_pos htpos] at h1; norm_num at h1 ⊢; first | exact h1 | exact le_of_lt h1
    have := log_one_sub_exp_neg_approx htpos (by linarith)
    rw [hlogt] at this
    linarith
  · have hc0 : 0 < exp (-t) := exp_pos _
    have hc1 : exp (-t) ≤ 5e-9 := by rw [abs_of_pos hc0] at h2; norm_num at h2 ⊢; first | exact h2 | exact le_of_lt h2
    have := log_one_sub_approx hc0.le (by linarith)
    have e : -exp (-t) - log (1 - exp (-t)) = -(log (1 - exp (-t)) + exp (-t)) := by ring
    rw [e, abs_neg]
    have : 2 * exp (-t) ^ 2 ≤ 1e-8 := by nlinarith
    linarith
  · simp; norm_num

theorem code_invcdf (p μ l : ℝ) : esl_gumbel_invcdf p μ l = gumbelInvCdf μ l p := by
  unfold esl_gumbel_invcdf gumbelInvCdf; simp

/-- `-log(1-p) ≈ p`: `log(-log(1-p))` is within `2p` of `log p` for `0 < p ≤ 1/2`. -/
theorem log_neg_log_one_sub_approx {p : ℝ} (hp : 0 < p) (hp2 : p ≤ 1 / 2) : |log p - log (-log (1 - p))| ≤ 2 * p := by
  have h1p : 0 < 1 - p := by linarith
  have hup : log (1 - p) ≤ (1 - p) - 1 := log_le_sub_one_of_pos h1p
  have hlo : 1 - (1 - p)⁻¹ ≤ log (1 - p) := one_sub_inv_le_log_of_pos h1p
  have hinv : (1 - p)⁻¹ ≤ 1 + 2 * p := by
    rw [inv_le_iff_one_le_mul₀ h1p]; nlinarith
  have hq : p ≤ -log (1 - p) := by linarith
  have hq2 : -log (1 - p) ≤ 2 * p := by linarith
  have hqpos : 0 < -log (1 - p) := by linarith
  rw [abs_sub_comm, ← log_div (ne_of_gt hqpos) (ne_of_gt hp)]
  have hge1 : 1 ≤ -log (1 - p) / p := by rw [le_div_iff₀ hp]; linarith
  rw [abs_of_nonneg (log_nonneg hge1)]
  have h3 : log (-log (1 - p) / p) ≤ -log (1 - p) / p - 1 := log_le_sub_one_of_pos (by positivity)
  have h4 : -log (1 - p) / p - 1 ≤ 2 * p := by
    rw [sub_le_iff_le_add, div_le_iff₀ hp]
    have : -log (1 - p) ≤ (1 - p)⁻¹ - 1 := by linarith
    have h5 : (1 - p)⁻¹ - 1 ≤ (2 * p + 1) * p := by
      have : (1 - p)⁻¹ ≤ 1 + p + 2 * p ^ 2 := by
        rw [inv_le_iff_one_le_mul₀ h1p]; nlinarith
      nlinarith
    linarith
  linarith

/-- `esl_gumbel_invsurv` (repaired: `log p` below `eslSMALLX1`) is within `1e-8 / l` of the textbook inverse survival. -/
theorem code_invsurv {p μ l : ℝ} (hl : 0 < l) (hp : 0 < p) : |esl_gumbel_invsurv p μ l - gumbelInvSurv μ l p| ≤ 1e-8 / l := by
  unfold esl_gumbel_invsurv gumbelInvSurv
  simp only [num_log, lit_one]
  split_ifs with h
  · have hp1 : p ≤ 5e-9 := by norm_num at h ⊢; first | exact h | exact le_of_lt h
    have := log_neg_log_one_sub_approx hp (by linarith)
    have e : μ - log p / l - (μ - log (-log (1 - p)) / l) = -((log p - log (-log (1 - p))) / l) := by ring
    rw [e, abs_neg, abs_div, abs_of_pos hl]
    apply div_le_div_of_nonneg_right _ hl.le
    linarith
  · have e : (-1 : ℝ) * log (1 - p) = -log (1 - p) := by ring
    rw [e, sub_self, abs_zero]; positivity

end EaselModel.Dist.GumbelThm
