import EaselModel.Dist.ExpThm
import EaselModel.Dist.GevThm
import Mathlib.Algebra.BigOperators.Group.Finset.Basic
import Mathlib.Algebra.Order.BigOperators.Group.Finset
import Mathlib.Topology.Algebra.Monoid
/-! The mixture code as TRANSLATED from the working tree (`Generated/Dist.lean`: `esl_hxp_*`, `esl_mixgev_*`,
    `esl_vec_DMax/DMin/DLogSum`; their counted loops are `List.foldl`s over `List.range`) read over `ℝ`:
    the loops are finite sums `Σ_{k<K} q_k · f_k(x)`, so convex combinations inherit the component laws. -/
noncomputable section
namespace EaselModel.Dist.MixGen
open Real Finset EaselModel.Dist EaselModel.Dist.Gen EaselModel.Dist.Spec

/-! ## counted loops are finite sums -/

theorem fold_sum (g : ℕ → ℝ) (n : ℕ) (a : ℝ) : (List.range n).foldl (fun acc k => acc + g k) a = a + ∑ k ∈ range n, g k := by
  induction n with
  | zero => simp
  | succ n ih => rw [List.range_succ, List.foldl_append, ih, sum_range_succ]; simp; ring

/-- coefficients, rates … of component `k` (the C arrays, read like the translated code reads them) -/
abbrev hq (h : ESL_HYPEREXP ℝ) (k : ℕ) : ℝ := h.q.getD k 0
abbrev hl (h : ESL_HYPEREXP ℝ) (k : ℕ) : ℝ := h.lambda.getD k 0
abbrev gq (g : ESL_MIXGEV ℝ) (k : ℕ) : ℝ := g.q.getD k 0
abbrev gm (g : ESL_MIXGEV ℝ) (k : ℕ) : ℝ := g.mu.getD k 0
abbrev gl (g : ESL_MIXGEV ℝ) (k : ℕ) : ℝ := g.lambda.getD k 0
abbrev ga (g : ESL_MIXGEV ℝ) (k : ℕ) : ℝ := g.alpha.getD k 0

theorem hxp_pdf_sum (x : ℝ) (h : ESL_HYPEREXP ℝ) :
    esl_hxp_pdf x h = if x < h.mu then 0 else ∑ k ∈ range h.K, hq h k * esl_exp_pdf x h.mu (hl h k) := by
  simp only [esl_hxp_pdf, fold_sum, lit_zero, zero_add]
theorem hxp_cdf_sum (x : ℝ) (h : ESL_HYPEREXP ℝ) :
    esl_hxp_cdf x h = if x < h.mu then 0 else ∑ k ∈ range h.K, hq h k * esl_exp_cdf x h.mu (hl h k) := by
  simp only [esl_hxp_cdf, fold_sum, lit_zero, zero_add]
theorem hxp_surv_sum (x : ℝ) (h : ESL_HYPEREXP ℝ) :
    esl_hxp_surv x h = if x < h.mu then 1 else ∑ k ∈ range h.K, hq h k * esl_exp_surv x h.mu (hl h k) := by
  simp only [esl_hxp_surv, fold_sum, lit_zero, lit_one, zero_add]
theorem mixgev_pdf_sum (x : ℝ) (g : ESL_MIXGEV ℝ) :
    esl_mixgev_pdf x g = ∑ k ∈ range g.K, gq g k * esl_gev_pdf x (gm g k) (gl g k) (ga g k) := by
  simp only [esl_mixgev_pdf, fold_sum, lit_zero, zero_add]
theorem mixgev_cdf_sum (x : ℝ) (g : ESL_MIXGEV ℝ) :
    esl_mixgev_cdf x g = ∑ k ∈ range g.K, gq g k * esl_gev_cdf x (gm g k) (gl g k) (ga g k) := by
  simp only [esl_mixgev_cdf, fold_sum, lit_zero, zero_add]
theorem mixgev_surv_sum (x : ℝ) (g : ESL_MIXGEV ℝ) :
    esl_mixgev_surv x g = ∑ k ∈ range g.K, gq g k * esl_gev_surv x (gm g k) (gl g k) (ga g k) := by
  simp only [esl_mixgev_surv, fold_sum, lit_zero, zero_add]

/-! ## convex combinations inherit the laws -/

theorem wsum_close (n : ℕ) (q c t : ℕ → ℝ) (ε : ℝ) (hq : ∀ k < n, 0 ≤ q k) (hc : ∀ k < n, |c k - t k| ≤ ε) :
    |∑ k ∈ range n, q k * c k - ∑ k ∈ range n, q k * t k| ≤ ε * ∑ k ∈ range n, q k := by
  rw [← sum_sub_distrib, mul_sum]
  refine le_trans (abs_sum_le_sum_abs _ _) (sum_le_sum fun k hk => ?_)
  have hk' := mem_range.mp hk
  rw [← mul_sub, abs_mul, abs_of_nonneg (hq k hk'), mul_comm ε]
  exact mul_le_mul_of_nonneg_left (hc k hk') (hq k hk')

theorem wsum_add_close (n : ℕ) (q c s : ℕ → ℝ) (ε : ℝ) (hq : ∀ k < n, 0 ≤ q k) (hc : ∀ k < n, |c k + s k - 1| ≤ ε) :
    |∑ k ∈ range n, q k * c k + ∑ k ∈ range n, q k * s k - ∑ k ∈ range n, q k| ≤ ε * ∑ k ∈ range n, q k := by
  have e : ∑ k ∈ range n, q k * c k + ∑ k ∈ range n, q k * s k = ∑ k ∈ range n, q k * (c k + s k) := by
    rw [← sum_add_distrib]; exact sum_congr rfl fun k _ => by ring
  have e1 : ∑ k ∈ range n, q k = ∑ k ∈ range n, q k * 1 := by simp
  rw [e]; nth_rewrite 1 [e1]
  exact wsum_close n q (fun k => c k + s k) (fun _ => 1) ε hq hc

theorem wsum_mono (n : ℕ) (q : ℕ → ℝ) (c : ℕ → ℝ → ℝ) (hq : ∀ k < n, 0 ≤ q k) (hc : ∀ k < n, Monotone (c k)) :
    Monotone fun x => ∑ k ∈ range n, q k * c k x := fun _ _ hab =>
  sum_le_sum fun k hk => mul_le_mul_of_nonneg_left (hc k (mem_range.mp hk) hab) (hq k (mem_range.mp hk))

theorem wsum_tendsto (n : ℕ) (q : ℕ → ℝ) (c : ℕ → ℝ → ℝ) (L : ℝ) (F : Filter ℝ)
    (hc : ∀ k < n, Filter.Tendsto (c k) F (nhds L)) :
    Filter.Tendsto (fun x => ∑ k ∈ range n, q k * c k x) F (nhds (∑ k ∈ range n, q k * L)) :=
  tendsto_finsetSum _ fun k hk => (hc k (mem_range.mp hk)).const_mul (q k)

/-! ## hyperexponential -/

/-- the textbook hyperexponential: `Σ q_k · Exp(μ, λ_k)` -/
def hxpCdf (h : ESL_HYPEREXP ℝ) (x : ℝ) : ℝ := ∑ k ∈ range h.K, hq h k * expCdf h.mu (hl h k) x
def hxpSurv (h : ESL_HYPEREXP ℝ) (x : ℝ) : ℝ := ∑ k ∈ range h.K, hq h k * expSurv h.mu (hl h k) x
def hxpPdf (h : ESL_HYPEREXP ℝ) (x : ℝ) : ℝ := ∑ k ∈ range h.K, hq h k * expPdf h.mu (hl h k) x
def hxpQ (h : ESL_HYPEREXP ℝ) : ℝ := ∑ k ∈ range h.K, hq h k

/-- admissible parameters: non-negative coefficients, positive rates (for the `K` components in use) -/
def HxpOK (h : ESL_HYPEREXP ℝ) : Prop := ∀ k < h.K, 0 ≤ hq h k ∧ 0 < hl h k

theorem hxp_cdf_add_surv {h : ESL_HYPEREXP ℝ} (ok : HxpOK h) (x : ℝ) :
    (x < h.mu → esl_hxp_cdf x h + esl_hxp_surv x h = 1) ∧
      (h.mu ≤ x → |esl_hxp_cdf x h + esl_hxp_surv x h - hxpQ h| ≤ 2.5e-17 * hxpQ h) := by
  rw [hxp_cdf_sum, hxp_surv_sum]
  constructor
  · intro hx; rw [if_pos hx, if_pos hx]; norm_num
  · intro hx
    rw [if_neg (not_lt.mpr hx), if_neg (not_lt.mpr hx)]
    exact wsum_add_close h.K (hq h) _ _ 2.5e-17 (fun k hk => (ok k hk).1) fun k hk => ExpThm.code_cdf_add_surv (ok k hk).2.le x

/-- L1 for the mixture: the code's cdf is within `2.5e-17 · Σq` of the textbook mixture cdf; survival and density exact -/
theorem hxp_code_eq_textbook {h : ESL_HYPEREXP ℝ} (ok : HxpOK h) (x : ℝ) :
    |esl_hxp_cdf x h - hxpCdf h x| ≤ 2.5e-17 * hxpQ h ∧ esl_hxp_surv x h = (if x < h.mu then 1 else hxpSurv h x) ∧
      esl_hxp_pdf x h = hxpPdf h x := by
  refine ⟨?_, ?_, ?_⟩
  · rw [hxp_cdf_sum]
    have hQ : 0 ≤ hxpQ h := sum_nonneg fun k hk => (ok k (mem_range.mp hk)).1
    split_ifs with hx
    · have : hxpCdf h x = 0 := by
        unfold hxpCdf; apply sum_eq_zero; intro k _; rw [ExpThm.expCdf_below hx]; ring
      rw [this]; simp only [sub_self, abs_zero]; positivity
    · exact wsum_close h.K (hq h) _ _ 2.5e-17 (fun k hk => (ok k hk).1) fun k hk => ExpThm.code_cdf (ok k hk).2.le x
  · rw [hxp_surv_sum]; unfold hxpSurv; simp only [ExpThm.code_surv]
  · rw [hxp_pdf_sum]; unfold hxpPdf; simp only [ExpThm.code_pdf]
    split_ifs with hx
    · symm; apply sum_eq_zero; intro k _; unfold expPdf; rw [if_pos hx]; ring
    · rfl

/-- L2 for the mixture: non-decreasing, `0` below `μ`, between `0` and `Σq`, tends to `Σq` (= 1 when normalised),
    cdf + surv = `Σq` exactly -/
theorem hxp_textbook_laws {h : ESL_HYPEREXP ℝ} (ok : HxpOK h) :
    Monotone (hxpCdf h) ∧ (∀ x, x < h.mu → hxpCdf h x = 0) ∧ (∀ x, 0 ≤ hxpCdf h x ∧ hxpCdf h x ≤ hxpQ h) ∧
      Filter.Tendsto (hxpCdf h) Filter.atTop (nhds (hxpQ h)) ∧ (∀ x, hxpCdf h x + hxpSurv h x = hxpQ h) := by
  refine ⟨wsum_mono h.K (hq h) _ (fun k hk => (ok k hk).1) fun k hk => ExpThm.expCdf_mono (ok k hk).2.le, ?_, ?_, ?_, ?_⟩
  · intro x hx; unfold hxpCdf; apply sum_eq_zero; intro k _; rw [ExpThm.expCdf_below hx]; ring
  · intro x
    constructor
    · exact sum_nonneg fun k hk => mul_nonneg (ok k (mem_range.mp hk)).1 (ExpThm.expCdf_nonneg (ok k (mem_range.mp hk)).2.le x)
    · unfold hxpCdf hxpQ
      refine sum_le_sum fun k hk => ?_
      have := (ExpThm.expCdf_lt_one h.mu (hl h k) x).le
      have hq0 := (ok k (mem_range.mp hk)).1
      nlinarith
  · have := wsum_tendsto h.K (hq h) (fun k => expCdf h.mu (hl h k)) 1 Filter.atTop fun k hk => ExpThm.expCdf_tendsto_one (ok k hk).2
    have e : (∑ k ∈ range h.K, hq h k * 1) = hxpQ h := by unfold hxpQ; simp
    rw [e] at this; exact this
  · intro x; unfold hxpCdf hxpSurv hxpQ
    rw [← sum_add_distrib]; refine sum_congr rfl fun k _ => ?_
    rw [← mul_add, ExpThm.expCdf_add_expSurv, mul_one]

/-- the cdf at the support edge is `0`: the entry condition `cdf μ ≤ p` of `esl_hxp_invcdf` holds for every `p ≥ 0` -/
theorem hxp_cdf_at_mu (h : ESL_HYPEREXP ℝ) : esl_hxp_cdf h.mu h = 0 := by
  rw [hxp_cdf_sum, if_neg (lt_irrefl _)]
  apply sum_eq_zero; intro k _
  have : esl_exp_cdf h.mu h.mu (hl h k) = 0 := by
    unfold esl_exp_cdf; simp only [sub_self, mul_zero, lt_irrefl, if_false]; norm_num
  rw [this]; ring

/-! ## mixture of GEVs -/

def mixgevCdf (g : ESL_MIXGEV ℝ) (x : ℝ) : ℝ := ∑ k ∈ range g.K, gq g k * gevCdf (gm g k) (gl g k) (ga g k) x
def mixgevSurv (g : ESL_MIXGEV ℝ) (x : ℝ) : ℝ := ∑ k ∈ range g.K, gq g k * gevSurv (gm g k) (gl g k) (ga g k) x
def mixgevPdf (g : ESL_MIXGEV ℝ) (x : ℝ) : ℝ := ∑ k ∈ range g.K, gq g k * gevPdf (gm g k) (gl g k) (ga g k) x
def mixgevQ (g : ESL_MIXGEV ℝ) : ℝ := ∑ k ∈ range g.K, gq g k

/-- admissible parameters: non-negative coefficients, positive scales, shapes `≠ 0` -/
def MixgevOK (g : ESL_MIXGEV ℝ) : Prop := ∀ k < g.K, 0 ≤ gq g k ∧ 0 < gl g k ∧ ga g k ≠ 0

/-- `x` is in the GEV branch of every component (`¬ |α_k λ_k (x − μ_k)| < 1e-12`; inside that sliver the code evaluates
    the Gumbel, see `gev_gumbel_branch_distance`) -/
def GevBranch (g : ESL_MIXGEV ℝ) (x : ℝ) : Prop := ∀ k < g.K, ¬ |gl g k * (x - gm g k) * ga g k| < 1e-12

theorem mixgev_code_eq_textbook {g : ESL_MIXGEV ℝ} (ok : MixgevOK g) {x : ℝ} (hb : GevBranch g x) :
    esl_mixgev_cdf x g = mixgevCdf g x ∧ esl_mixgev_pdf x g = mixgevPdf g x ∧
      |esl_mixgev_surv x g - mixgevSurv g x| ≤ 2.3e-16 * mixgevQ g ∧
      |esl_mixgev_cdf x g + esl_mixgev_surv x g - mixgevQ g| ≤ 2.3e-16 * mixgevQ g := by
  have hc : esl_mixgev_cdf x g = mixgevCdf g x := by
    rw [mixgev_cdf_sum]; exact sum_congr rfl fun k hk => by rw [GevThm.code_cdf (ok k (mem_range.mp hk)).2.1 (hb k (mem_range.mp hk))]
  have hs : |esl_mixgev_surv x g - mixgevSurv g x| ≤ 2.3e-16 * mixgevQ g := by
    rw [mixgev_surv_sum]
    exact wsum_close g.K (gq g) _ _ 2.3e-16 (fun k hk => (ok k hk).1) fun k hk => GevThm.code_surv (ok k hk).2.1 (hb k hk)
  refine ⟨hc, ?_, hs, ?_⟩
  · rw [mixgev_pdf_sum]; exact sum_congr rfl fun k hk => by rw [GevThm.code_pdf (hb k (mem_range.mp hk))]
  · have e : mixgevCdf g x + mixgevSurv g x = mixgevQ g := by
      unfold mixgevCdf mixgevSurv mixgevQ
      rw [← sum_add_distrib]; refine sum_congr rfl fun k _ => ?_
      rw [← mul_add, GevThm.gevCdf_add_gevSurv, mul_one]
    rw [hc]
    have : mixgevCdf g x + esl_mixgev_surv x g - mixgevQ g = esl_mixgev_surv x g - mixgevSurv g x := by rw [← e]; ring
    rw [this]; exact hs

theorem mixgev_textbook_laws {g : ESL_MIXGEV ℝ} (ok : MixgevOK g) :
    Monotone (mixgevCdf g) ∧ (∀ x, 0 ≤ mixgevCdf g x ∧ mixgevCdf g x ≤ mixgevQ g) ∧
      (∀ x, mixgevCdf g x + mixgevSurv g x = mixgevQ g) := by
  refine ⟨wsum_mono g.K (gq g) _ (fun k hk => (ok k hk).1) fun k hk => GevThm.gevCdf_mono (ok k hk).2.1 (ok k hk).2.2, ?_, ?_⟩
  · intro x
    constructor
    · exact sum_nonneg fun k hk => mul_nonneg (ok k (mem_range.mp hk)).1 (GevThm.gevCdf_nonneg _ _ _ x)
    · unfold mixgevCdf mixgevQ
      refine sum_le_sum fun k hk => ?_
      have := GevThm.gevCdf_le_one (gm g k) (gl g k) (ga g k) x
      have hq0 := (ok k (mem_range.mp hk)).1
      nlinarith
  · intro x; unfold mixgevCdf mixgevSurv mixgevQ
    rw [← sum_add_distrib]; refine sum_congr rfl fun k _ => ?_
    rw [← mul_add, GevThm.gevCdf_add_gevSurv, mul_one]

/-! ## `esl_vec_DMax`, `esl_vec_DMin`: the extreme entry of `vec[0..n-1]` -/

theorem foldl_range'_succ {β : Type} (f : β → ℕ → β) (a : β) (s m : ℕ) :
    (List.range' s (m + 1)).foldl f a = f ((List.range' s m).foldl f a) (s + m) := by
  rw [List.range'_concat, List.foldl_append]; simp

theorem dmax_spec (vec : List ℝ) : ∀ m : ℕ,
    let r := (List.range' 1 m).foldl (fun best i => if best < vec.getD i 0 then vec.getD i 0 else best) (vec.getD 0 0)
    (∀ i ≤ m, vec.getD i 0 ≤ r) ∧ ∃ i ≤ m, r = vec.getD i 0 := by
  intro m
  induction m with
  | zero => simp
  | succ m ih =>
    simp only [foldl_range'_succ]
    obtain ⟨h1, i0, hi0, h2⟩ := ih
    set r := (List.range' 1 m).foldl (fun best i => if best < vec.getD i 0 then vec.getD i 0 else best) (vec.getD 0 0)
    split_ifs with hc
    · refine ⟨fun i hi => ?_, 1 + m, by omega, rfl⟩
      rcases Nat.lt_or_ge i (m + 1) with hlt | hge
      · exact le_trans (h1 i (by omega)) hc.le
      · have : i = 1 + m := by omega
        rw [this]
    · refine ⟨fun i hi => ?_, i0, by omega, h2⟩
      rcases Nat.lt_or_ge i (m + 1) with hlt | hge
      · exact h1 i (by omega)
      · have : i = 1 + m := by omega
        rw [this]; exact not_lt.mp hc

theorem dmin_spec (vec : List ℝ) : ∀ m : ℕ,
    let r := (List.range' 1 m).foldl (fun best i => if vec.getD i 0 < best then vec.getD i 0 else best) (vec.getD 0 0)
    (∀ i ≤ m, r ≤ vec.getD i 0) ∧ ∃ i ≤ m, r = vec.getD i 0 := by
  intro m
  induction m with
  | zero => simp
  | succ m ih =>
    simp only [foldl_range'_succ]
    obtain ⟨h1, i0, hi0, h2⟩ := ih
    set r := (List.range' 1 m).foldl (fun best i => if vec.getD i 0 < best then vec.getD i 0 else best) (vec.getD 0 0)
    split_ifs with hc
    · refine ⟨fun i hi => ?_, 1 + m, by omega, rfl⟩
      rcases Nat.lt_or_ge i (m + 1) with hlt | hge
      · exact le_trans hc.le (h1 i (by omega))
      · have : i = 1 + m := by omega
        rw [this]
    · refine ⟨fun i hi => ?_, i0, by omega, h2⟩
      rcases Nat.lt_or_ge i (m + 1) with hlt | hge
      · exact h1 i (by omega)
      · have : i = 1 + m := by omega
        rw [this]; exact not_lt.mp hc

/-- `esl_vec_DMax(vec, n)` (`n ≥ 1`) is an entry of `vec[0..n-1]` and no entry exceeds it; `esl_vec_DMin` dually -/
theorem vec_dmax_dmin (vec : List ℝ) {n : ℕ} (hn : 1 ≤ n) :
    ((∀ i < n, vec.getD i 0 ≤ esl_vec_DMax vec n) ∧ ∃ i < n, esl_vec_DMax vec n = vec.getD i 0) ∧
    ((∀ i < n, esl_vec_DMin vec n ≤ vec.getD i 0) ∧ ∃ i < n, esl_vec_DMin vec n = vec.getD i 0) := by
  obtain ⟨a1, i1, hi1, a2⟩ := dmax_spec vec (n - 1)
  obtain ⟨b1, j1, hj1, b2⟩ := dmin_spec vec (n - 1)
  simp only [esl_vec_DMax, esl_vec_DMin, lit_zero]
  exact ⟨⟨fun i hi => a1 i (by omega), i1, by omega, a2⟩, ⟨fun i hi => b1 i (by omega), j1, by omega, b2⟩⟩

/-! ## `esl_vec_DLogSum` -/

theorem lit_500 : (500.0 : ℝ) = 500 := by norm_num

theorem fold_window (v : ℕ → ℝ) (m : ℝ) (n : ℕ) (a : ℝ) (hw : ∀ i < n, m - 500 < v i) :
    (List.range n).foldl (fun s i => if m - 500 < v i then s + exp (v i - m) else s) a =
      a + exp (-m) * ∑ i ∈ range n, exp (v i) := by
  induction n with
  | zero => simp
  | succ n ih =>
    rw [List.range_succ, List.foldl_append, ih fun i hi => hw i (by omega), sum_range_succ]
    simp only [List.foldl_cons, List.foldl_nil]
    rw [if_pos (hw n (by omega)), sub_eq_add_neg (v n) m, exp_add]; ring

/-- `esl_vec_DLogSum(vec, n)` is `log Σ_{i<n} exp vec[i]` when every entry lies within the 500-window below the maximum
    (entries below the window are dropped by the code: each is smaller than `e^{-500}` times the largest term) -/
theorem vec_dlogsum (vec : List ℝ) {n : ℕ} (hn : 1 ≤ n) (hfin : esl_vec_DMax vec n ≠ (Num.inf : ℝ))
    (hwin : ∀ i < n, esl_vec_DMax vec n - 500 < vec.getD i 0) :
    esl_vec_DLogSum vec n = log (∑ i ∈ range n, exp (vec.getD i 0)) := by
  have hpos : 0 < ∑ i ∈ range n, exp (vec.getD i 0) :=
    sum_pos (fun i _ => exp_pos _) ⟨0, mem_range.mpr (by omega)⟩
  simp only [esl_vec_DLogSum, num_eqb, num_exp, num_log, lit_zero, lit_500]
  rw [if_neg hfin, fold_window (fun i => vec.getD i 0) _ n 0 hwin, zero_add,
    log_mul (exp_ne_zero _) (ne_of_gt hpos), log_exp]; ring

end EaselModel.Dist.MixGen
