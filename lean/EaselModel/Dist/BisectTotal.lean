import EaselModel.Dist.HxpQuantile
import EaselModel.Dist.QuantileThm
import EaselModel.Dist.BisectReal
import Mathlib.Analysis.SpecialFunctions.Log.Base
/-! Round 6: the bracketing + bisection inverses as TOTAL functions over `ℝ`.

The four translated `esl_*_invcdf` carry a fuel argument (`none` = the C loop would still be running).  Here the number of
loop passes is bounded by an explicit function of the bracket and of the tolerance of the code's own stop rule:

* the bracketing loop triples (gamma: doubles) its reach: `passes 3 reach` passes reach a point `X = μ + reach`;
* every bisection pass halves the bracket, and the loop can only continue while the bracket is wider than
  `1e-6 · (x1 + x2 − 2μ) > 1e-6 · δ` (`δ` = a distance from the support edge on which the cdf is still below `p`):
  `passes 2 (width / (1e-6 δ))` passes;

so for every `fuel ≥ fuelRight reach δ` (resp. `fuelGam`, `fuelMix`) the function returns `some r`, with ONE `r` for all
such fuels — the fuel argument no longer matters and `none` cannot occur.  The cdf in use (`cdf`: the translated code's own
cdf) need not be monotone: it is compared with a monotone reference `F` (the textbook cdf) within `ε`; the returned `r` is the
midpoint of a final bracket `[a, b]` no wider than the stop rule with `F a ≤ p + ε` and `p − ε ≤ F b`. -/
noncomputable section
namespace EaselModel.Dist.BisectTotal
open Real EaselModel.Dist EaselModel.Dist.Gen EaselModel.Dist.Bisect EaselModel.Dist.BisectThm EaselModel.Dist.BisectTerm

/-- number of passes after which a reach multiplied by `b` per pass has grown by the factor `R`: `⌈log_b R⌉` -/
def passes (b R : ℝ) : ℕ := ⌈Real.logb b R⌉₊

theorem le_pow_passes {b R : ℝ} (hb : 1 < b) : R ≤ b ^ passes b R := by
  rcases le_or_gt R 0 with h | h
  · exact h.trans (pow_pos (by linarith) _).le
  · have h1 : Real.logb b R ≤ (passes b R : ℝ) := Nat.le_ceil _
    calc R = b ^ (Real.logb b R) := (Real.rpow_logb (by linarith) (by linarith) h).symm
      _ ≤ b ^ ((passes b R : ℕ) : ℝ) := Real.rpow_le_rpow_of_exponent_le hb.le h1
      _ = b ^ passes b R := Real.rpow_natCast _ _

/-- fuel that suffices for `esl_sxp_invcdf` / `esl_hxp_invcdf`: `reach` = distance from `μ` to a point from which on
    `p ≤ cdf`; `δ` = a distance from `μ` on which `cdf < p`; `1e-6` = the tolerance of the C stop rule -/
def fuelRight (reach δ : ℝ) : ℕ :=
  max (passes 3 reach) (passes 2 (3 ^ (passes 3 reach + 1) / (1e-6 * δ))) + 1

/-- fuel that suffices for `esl_gam_invcdf` (`s = τ/λ`, the starting reach, doubled per pass) -/
def fuelGam (reach δ s : ℝ) : ℕ :=
  max (passes 2 (reach / s)) (passes 2 (2 ^ (passes 2 (reach / s) + 1) * s / (1e-6 * δ))) + 1

/-- fuel that suffices for `esl_mixgev_invcdf` (`left`/`right` = distances from `min μ_k` to points left / right of which the
    cdf is on the correct side of `p`; `1e-15` = `1e-6 · 1e-9`, the absolute floor of its stop rule) -/
def fuelMix (left right : ℝ) : ℕ :=
  max (passes 3 left) (max (passes 3 (right + 1))
    (passes 2 (3 ^ (passes 3 (right + 1) + 1) * 3 ^ (passes 3 left + 1) / 1e-15))) + 1

/-! ## fuel monotonicity of the whole inverses -/

theorem invcdfRight_fuel_mono (cdf : ℝ → ℝ) (p mu : ℝ) {n m : Nat} {r : ℝ} (hnm : n ≤ m)
    (h : invcdfRight n cdf p mu = some r) : invcdfRight m cdf p mu = some r := by
  unfold invcdfRight at h ⊢
  split at h
  · exact absurd h (by simp)
  · rename_i x2 hb
    rw [bracketRight_fuel_mono cdf p mu n m _ x2 hnm hb]
    exact bisect_fuel_mono cdf p mu n m mu x2 r hnm h

theorem invcdfGam_fuel_mono (cdf : ℝ → ℝ) (p mu l t : ℝ) {n m : Nat} {r : ℝ} (hnm : n ≤ m)
    (h : invcdfGam n cdf p mu l t = some r) : invcdfGam m cdf p mu l t = some r := by
  unfold invcdfGam at h ⊢
  split at h
  · exact absurd h (by simp)
  · rename_i x2 hb
    rw [bracketGam_fuel_mono cdf p mu n m _ x2 hnm hb]
    exact bisect_fuel_mono cdf p mu n m mu (x2 + mu) r hnm h

theorem invcdfMix_fuel_mono (cdf : ℝ → ℝ) (p mm : ℝ) {n m : Nat} {r : ℝ} (hnm : n ≤ m)
    (h : invcdfMix n cdf p mm = some r) : invcdfMix m cdf p mm = some r := by
  unfold invcdfMix at h ⊢
  simp only [bracketRightLim_real] at h ⊢
  split at h
  · exact absurd h (by simp)
  · rename_i x1 hb1
    rw [bracketLeft_fuel_mono cdf p mm n m _ x1 hnm hb1]
    simp only
    split at h
    · exact absurd h (by simp)
    · rename_i x2 hb2
      rw [bracketRight_fuel_mono cdf p x1 n m _ x2 hnm hb2]
      exact bisectMix_fuel_mono cdf p n m x1 x2 r hnm h

/-! ## total + accurate, generic in the cdf -/

/-- what the returned value satisfies, relative to the monotone reference `F` -/
def Result (F : ℝ → ℝ) (p μ ε r : ℝ) : Prop :=
  ∃ a b, μ ≤ a ∧ a ≤ b ∧ r = (a + b) / 2 ∧ b - a ≤ 1e-6 * ((a + b) - 2 * μ) ∧ F a ≤ p + ε ∧ p - ε ≤ F b

theorem result_of_final {cdf F : ℝ → ℝ} {p μ ε x2 r : ℝ} (hclose : ∀ x, |cdf x - F x| ≤ ε) (hf : Final cdf p μ μ x2 r) :
    Result F p μ ε r := by
  obtain ⟨a, b, ha, hab, _, hca, hcb, hr, hw⟩ := hf
  have h1 := abs_le.mp (hclose a)
  have h2 := abs_le.mp (hclose b)
  exact ⟨a, b, ha, hab, hr, hw, by linarith, by linarith⟩

theorem low_of_close {cdf F : ℝ → ℝ} {p ε c : ℝ} (hclose : ∀ x, |cdf x - F x| ≤ ε) (hF : Monotone F) (h : F c < p - ε) :
    ∀ x, x ≤ c → cdf x < p := fun x hx => by
  have h1 := abs_le.mp (hclose x)
  have := hF hx
  linarith

theorem high_of_close {cdf F : ℝ → ℝ} {p ε X : ℝ} (hclose : ∀ x, |cdf x - F x| ≤ ε) (hF : Monotone F) (h : p + ε ≤ F X) :
    ∀ x, X ≤ x → p ≤ cdf x := fun x hx => by
  have h1 := abs_le.mp (hclose x)
  have := hF hx
  linarith

theorem fuelRight_spec (reach δ : ℝ) (hδ : 0 < δ) :
    reach ≤ 3 ^ (passes 3 reach + 1) ∧
      (3 : ℝ) ^ (passes 3 reach + 1) ≤ 1e-6 * δ * 2 ^ passes 2 (3 ^ (passes 3 reach + 1) / (1e-6 * δ)) := by
  constructor
  · have h1 : reach ≤ (3 : ℝ) ^ passes 3 reach := le_pow_passes (by norm_num)
    have h2 : (3 : ℝ) ^ passes 3 reach ≤ 3 ^ (passes 3 reach + 1) := pow_le_pow_right₀ (by norm_num) (Nat.le_succ _)
    linarith
  · have hpos : (0 : ℝ) < 1e-6 * δ := by positivity
    have := le_pow_passes (b := 2) (R := 3 ^ (passes 3 reach + 1) / (1e-6 * δ)) (by norm_num)
    rw [div_le_iff₀ hpos] at this
    linarith

/-- `esl_sxp_invcdf` / `esl_hxp_invcdf` (generic form): total for every fuel from `fuelRight (X − μ) δ` on, one value -/
theorem invcdfRight_total {cdf F : ℝ → ℝ} {μ p ε δ X : ℝ} (hclose : ∀ x, |cdf x - F x| ≤ ε) (hF : Monotone F)
    (h0 : cdf μ ≤ p) (hδ : 0 < δ) (hlow : F (μ + δ) < p - ε) (hX : p + ε ≤ F X) :
    ∃ r, (∀ fuel, fuelRight (X - μ) δ ≤ fuel → invcdfRight fuel cdf p μ = some r) ∧ Result F p μ ε r := by
  obtain ⟨s1, s2⟩ := fuelRight_spec (X - μ) δ hδ
  have hsome := invcdfRight_terminates (cdf := cdf) (p := p) (mu := μ) (X := X) (N1 := passes 3 (X - μ))
    (N2 := passes 2 (3 ^ (passes 3 (X - μ) + 1) / (1e-6 * δ))) (fuel := fuelRight (X - μ) δ) hδ
    (low_of_close hclose hF hlow) (high_of_close hclose hF hX) (by linarith) s2
    (by unfold fuelRight; omega) (by unfold fuelRight; omega)
  obtain ⟨r, hr⟩ := Option.isSome_iff_exists.mp hsome
  obtain ⟨x2, hfin⟩ := invcdfRight_final h0 hr
  exact ⟨r, fun fuel hf => invcdfRight_fuel_mono cdf p μ hf hr, result_of_final hclose hfin⟩

theorem fuelGam_spec (reach δ s : ℝ) (hδ : 0 < δ) (hs : 0 < s) :
    reach ≤ 2 ^ (passes 2 (reach / s) + 1) * s ∧
      (2 : ℝ) ^ (passes 2 (reach / s) + 1) * s ≤ 1e-6 * δ * 2 ^ passes 2 (2 ^ (passes 2 (reach / s) + 1) * s / (1e-6 * δ)) := by
  constructor
  · have h1 : reach / s ≤ (2 : ℝ) ^ passes 2 (reach / s) := le_pow_passes (by norm_num)
    have h2 : (2 : ℝ) ^ passes 2 (reach / s) ≤ 2 ^ (passes 2 (reach / s) + 1) := pow_le_pow_right₀ (by norm_num) (Nat.le_succ _)
    have := (div_le_iff₀ hs).mp (h1.trans h2)
    linarith
  · have hpos : (0 : ℝ) < 1e-6 * δ := by positivity
    have := le_pow_passes (b := 2) (R := 2 ^ (passes 2 (reach / s) + 1) * s / (1e-6 * δ)) (by norm_num)
    rw [div_le_iff₀ hpos] at this
    linarith

/-- `esl_gam_invcdf` (generic form): total for every fuel from `fuelGam (X − μ) δ (τ/λ)` on, one value -/
theorem invcdfGam_total {cdf F : ℝ → ℝ} {μ l t p ε δ X : ℝ} (hclose : ∀ x, |cdf x - F x| ≤ ε) (hF : Monotone F)
    (h0 : cdf μ ≤ p) (hs : 0 < t / l) (hδ : 0 < δ) (hlow : F (μ + δ) < p - ε) (hX : p + ε ≤ F X) :
    ∃ r, (∀ fuel, fuelGam (X - μ) δ (t / l) ≤ fuel → invcdfGam fuel cdf p μ l t = some r) ∧ Result F p μ ε r := by
  obtain ⟨s1, s2⟩ := fuelGam_spec (X - μ) δ (t / l) hδ hs
  have hsome := invcdfGam_terminates (cdf := cdf) (p := p) (mu := μ) (l := l) (t := t) (X := X) (N1 := passes 2 ((X - μ) / (t / l)))
    (N2 := passes 2 (2 ^ (passes 2 ((X - μ) / (t / l)) + 1) * (t / l) / (1e-6 * δ))) (fuel := fuelGam (X - μ) δ (t / l)) hδ hs.le
    (low_of_close hclose hF hlow) (high_of_close hclose hF hX) (by linarith) s2
    (by unfold fuelGam; omega) (by unfold fuelGam; omega)
  obtain ⟨r, hr⟩ := Option.isSome_iff_exists.mp hsome
  obtain ⟨x2, hfin⟩ := invcdfGam_final h0 hs.le hr
  exact ⟨r, fun fuel hf => invcdfGam_fuel_mono cdf p μ l t hf hr, result_of_final hclose hfin⟩

/-- `esl_mixgev_invcdf` (generic form), for ANY cdf: total for every fuel from `fuelMix (m − XL) (XR − m)` on, one value,
    the midpoint of a final bracket obeying the stop rule.  (No edge hypothesis: the stop rule has an absolute floor.) -/
theorem invcdfMix_total {cdf : ℝ → ℝ} {p m XL XR : ℝ} (hL : ∀ x, x ≤ XL → cdf x ≤ p) (hR : ∀ x, XR ≤ x → p ≤ cdf x) :
    ∃ r, (∀ fuel, fuelMix (m - XL) (XR - m) ≤ fuel → invcdfMix fuel cdf p m = some r) ∧
      ∃ x1 x2, FinalMix cdf p x1 x2 r := by
  have hb3 : (1 : ℝ) < 3 := by norm_num
  have a0 : m - XL ≤ (3 : ℝ) ^ (passes 3 (m - XL) + 1) :=
    (le_pow_passes hb3).trans (pow_le_pow_right₀ (by norm_num) (Nat.le_succ _))
  have a1 : XR - m + 1 ≤ (3 : ℝ) ^ (passes 3 (XR - m + 1) + 1) :=
    (le_pow_passes hb3).trans (pow_le_pow_right₀ (by norm_num) (Nat.le_succ _))
  have a2 := le_pow_passes (b := 2) (R := 3 ^ (passes 3 (XR - m + 1) + 1) * 3 ^ (passes 3 (m - XL) + 1) / 1e-15) (by norm_num)
  rw [div_le_iff₀ (by norm_num)] at a2
  have a2' : (3 : ℝ) ^ (passes 3 (XR - m + 1) + 1) * 3 ^ (passes 3 (m - XL) + 1) ≤
      1e-15 * 2 ^ passes 2 (3 ^ (passes 3 (XR - m + 1) + 1) * 3 ^ (passes 3 (m - XL) + 1) / 1e-15) := by linarith
  have hsome := invcdfMix_terminates (cdf := cdf) (p := p) (m := m) (XL := XL) (XR := XR) (N0 := passes 3 (m - XL))
    (N1 := passes 3 (XR - m + 1)) (N2 := passes 2 (3 ^ (passes 3 (XR - m + 1) + 1) * 3 ^ (passes 3 (m - XL) + 1) / 1e-15))
    (fuel := fuelMix (m - XL) (XR - m)) hL hR (by linarith) (by linarith) a2'
    (by unfold fuelMix; omega) (by unfold fuelMix; omega) (by unfold fuelMix; omega)
  obtain ⟨r, hr⟩ := Option.isSome_iff_exists.mp hsome
  exact ⟨r, fun fuel hf => invcdfMix_fuel_mono cdf p m hf hr, invcdfMix_final hr⟩

/-! ## what `Result` says about quantiles of a reference that is strictly increasing right of `μ` -/

theorem result_band {F : ℝ → ℝ} {p μ ε r qlo qhi : ℝ} (hres : Result F p μ ε r)
    (hstrict : ∀ s t, μ ≤ s → s < t → F s < F t) (_hqlo : μ ≤ qlo) (hlo : F qlo = p - ε) (hqhi : μ ≤ qhi) (hhi : F qhi = p + ε) :
    qlo - 1e-6 * (r - μ) ≤ r ∧ r ≤ qhi + 1e-6 * (r - μ) ∧ μ ≤ r := by
  obtain ⟨a, b, ha, hab, hr, hw, hFa, hFb⟩ := hres
  have haq : a ≤ qhi := not_lt.mp fun h => by
    have := hstrict qhi a hqhi h
    linarith
  have hbq : qlo ≤ b := not_lt.mp fun h => by
    have := hstrict b qlo (ha.trans hab) h
    linarith
  subst hr
  refine ⟨by linarith, by linarith, by linarith⟩

/-! ## the driver's fuel covers every binary64-sized bracket -/

theorem passes_le {b R : ℝ} {n : ℕ} (hb : 1 < b) (hR : 0 < R) (h : R ≤ b ^ n) : passes b R ≤ n := by
  unfold passes
  rw [Nat.ceil_le, Real.logb_le_iff_le_rpow hb hR, Real.rpow_natCast]
  exact h

set_option exponentiation.threshold 4000 in
theorem pow_facts : (2 : ℝ) ^ 1024 ≤ 3 ^ 647 ∧ (3 : ℝ) ^ 648 ≤ 2 ^ 1028 ∧ (1e6 : ℝ) ≤ 2 ^ 20 := by
  refine ⟨?_, ?_, ?_⟩
  · exact_mod_cast (by norm_num : (2 : ℕ) ^ 1024 ≤ 3 ^ 647)
  · exact_mod_cast (by norm_num : (3 : ℕ) ^ 648 ≤ 2 ^ 1028)
  · norm_num

/-- a bracket that fits binary64 — reach at most `2^1024` (the largest finite double is below it), distance `δ` from the
    support edge at least `2^-1074` (the smallest positive double) — needs at most `2123` passes per loop: the driver's
    `Bisect.defaultFuel = 5000` is enough for `esl_sxp_invcdf` / `esl_hxp_invcdf` on every such input -/
theorem fuelRight_le {reach δ : ℝ} (h0 : 0 < reach) (hr : reach ≤ 2 ^ 1024) (hδ : 1 ≤ δ * 2 ^ 1074) :
    fuelRight reach δ ≤ 2123 ∧ fuelRight reach δ ≤ Bisect.defaultFuel := by
  obtain ⟨f1, f2, f3⟩ := pow_facts
  have hδ0 : 0 < δ := by
    by_contra h
    have h2 : δ * 2 ^ 1074 ≤ 0 := mul_nonpos_of_nonpos_of_nonneg (not_lt.mp h) (by positivity)
    exact absurd (hδ.trans h2) (by norm_num)
  have hN1 : passes 3 reach ≤ 647 := passes_le (by norm_num) h0 (hr.trans f1)
  have h3 : (3 : ℝ) ^ (passes 3 reach + 1) ≤ 3 ^ 648 := pow_le_pow_right₀ (by norm_num) (by omega)
  have hpos : (0 : ℝ) < 1e-6 * δ := by positivity
  have hN2 : passes 2 (3 ^ (passes 3 reach + 1) / (1e-6 * δ)) ≤ 2122 := by
    refine passes_le (by norm_num) (by positivity) ?_
    rw [div_le_iff₀ hpos]
    have e : (2 : ℝ) ^ 2122 = 2 ^ 1028 * 2 ^ 20 * 2 ^ 1074 := by rw [← pow_add, ← pow_add]
    have hA : (0 : ℝ) ≤ 2 ^ 1028 := by positivity
    calc (3 : ℝ) ^ (passes 3 reach + 1) ≤ 2 ^ 1028 := h3.trans f2
      _ = 2 ^ 1028 * (1e6 * 1e-6) * 1 := by norm_num
      _ ≤ 2 ^ 1028 * (2 ^ 20 * 1e-6) * (δ * 2 ^ 1074) := by
          apply mul_le_mul _ hδ (by norm_num) (by positivity)
          exact mul_le_mul_of_nonneg_left (mul_le_mul_of_nonneg_right f3 (by norm_num)) hA
      _ = 2 ^ 2122 * (1e-6 * δ) := by rw [e]; ring
  have hle : fuelRight reach δ ≤ 2123 := by unfold fuelRight; omega
  exact ⟨hle, hle.trans (by unfold Bisect.defaultFuel; omega)⟩

/-- the same for `esl_mixgev_invcdf`: bracketing points within `2^1024` of `min μ_k` on either side need at most `2107`
    passes per loop (no edge distance enters: the stop rule has the absolute floor `1e-15`) -/
theorem fuelMix_le {left right : ℝ} (hl0 : 0 < left) (hl : left ≤ 2 ^ 1024) (hr0 : 0 ≤ right) (hr : right + 1 ≤ 2 ^ 1024) :
    fuelMix left right ≤ 2107 ∧ fuelMix left right ≤ Bisect.defaultFuel := by
  obtain ⟨f1, f2, _⟩ := pow_facts
  have hN0 : passes 3 left ≤ 647 := passes_le (by norm_num) hl0 (hl.trans f1)
  have hN1 : passes 3 (right + 1) ≤ 647 := passes_le (by norm_num) (by linarith) (hr.trans f1)
  have h30 : (3 : ℝ) ^ (passes 3 left + 1) ≤ 3 ^ 648 := pow_le_pow_right₀ (by norm_num) (by omega)
  have h31 : (3 : ℝ) ^ (passes 3 (right + 1) + 1) ≤ 3 ^ 648 := pow_le_pow_right₀ (by norm_num) (by omega)
  have hN2 : passes 2 (3 ^ (passes 3 (right + 1) + 1) * 3 ^ (passes 3 left + 1) / 1e-15) ≤ 2106 := by
    refine passes_le (by norm_num) (by positivity) ?_
    rw [div_le_iff₀ (by norm_num)]
    have e : (2 : ℝ) ^ 2106 = 2 ^ 1028 * 2 ^ 1028 * 2 ^ 50 := by rw [← pow_add, ← pow_add]
    have h50 : (1 : ℝ) ≤ 2 ^ 50 * 1e-15 := by norm_num
    have hA : (0 : ℝ) ≤ 2 ^ 1028 * 2 ^ 1028 := by positivity
    calc (3 : ℝ) ^ (passes 3 (right + 1) + 1) * 3 ^ (passes 3 left + 1) ≤ 2 ^ 1028 * 2 ^ 1028 :=
          mul_le_mul (h31.trans f2) (h30.trans f2) (by positivity) (by positivity)
      _ = 2 ^ 1028 * 2 ^ 1028 * 1 := by rw [mul_one]
      _ ≤ 2 ^ 1028 * 2 ^ 1028 * (2 ^ 50 * 1e-15) := mul_le_mul_of_nonneg_left h50 hA
      _ = 2 ^ 2106 * 1e-15 := by rw [e]; ring
  have hle : fuelMix left right ≤ 2107 := by unfold fuelMix; omega
  exact ⟨hle, hle.trans (by unfold Bisect.defaultFuel; omega)⟩

theorem pow_passes_le {b R : ℝ} (hb : 1 < b) (hR : 0 < R) : b ^ passes b R ≤ 1 + b * R := by
  have hb0 : 0 < b := by linarith
  rcases le_or_gt (Real.logb b R) 0 with h | h
  · have : passes b R = 0 := by unfold passes; exact Nat.ceil_eq_zero.mpr h
    rw [this, pow_zero]; nlinarith
  · have h1 : ((passes b R : ℕ) : ℝ) < Real.logb b R + 1 := Nat.ceil_lt_add_one h.le
    calc b ^ passes b R = b ^ ((passes b R : ℕ) : ℝ) := (Real.rpow_natCast _ _).symm
      _ ≤ b ^ (Real.logb b R + 1) := Real.rpow_le_rpow_of_exponent_le hb.le h1.le
      _ = R * b := by rw [Real.rpow_add hb0, Real.rpow_logb hb0 (ne_of_gt hb) hR, Real.rpow_one]
      _ ≤ 1 + b * R := by nlinarith

/-- the same for `esl_gam_invcdf` (`s = τ/λ`, the starting reach): reach and `s` at most `2^1024`, `s` and `δ` at least
    `2^-1074` — at most `2122` passes per loop -/
theorem fuelGam_le {reach δ s : ℝ} (h0 : 0 < reach) (hr : reach ≤ 2 ^ 1024) (hδ : 1 ≤ δ * 2 ^ 1074)
    (hs1 : 1 ≤ s * 2 ^ 1074) (hs2 : s ≤ 2 ^ 1024) :
    fuelGam reach δ s ≤ 2122 ∧ fuelGam reach δ s ≤ Bisect.defaultFuel := by
  obtain ⟨_, _, f3⟩ := pow_facts
  have pos_of : ∀ t : ℝ, 1 ≤ t * 2 ^ 1074 → 0 < t := fun t ht => by
    by_contra h
    have h2 : t * 2 ^ 1074 ≤ 0 := mul_nonpos_of_nonpos_of_nonneg (not_lt.mp h) (by positivity)
    exact absurd (ht.trans h2) (by norm_num)
  have hδ0 := pos_of δ hδ
  have hs0 := pos_of s hs1
  have hq : 0 < reach / s := div_pos h0 hs0
  have hN1 : passes 2 (reach / s) ≤ 2098 := by
    refine passes_le (by norm_num) hq ?_
    rw [div_le_iff₀ hs0]
    have e : (2 : ℝ) ^ 2098 = 2 ^ 1024 * 2 ^ 1074 := by rw [← pow_add]
    calc reach ≤ 2 ^ 1024 := hr
      _ = 2 ^ 1024 * 1 := by rw [mul_one]
      _ ≤ 2 ^ 1024 * (s * 2 ^ 1074) := mul_le_mul_of_nonneg_left hs1 (by positivity)
      _ = 2 ^ 2098 * s := by rw [e]; ring
  have hpos : (0 : ℝ) < 1e-6 * δ := by positivity
  have hnum : (2 : ℝ) ^ (passes 2 (reach / s) + 1) * s ≤ 2 ^ 1027 := by
    have h1 := pow_passes_le (b := 2) (R := reach / s) (by norm_num) hq
    have h2 : (2 : ℝ) ^ (passes 2 (reach / s) + 1) * s = 2 * (2 ^ passes 2 (reach / s) * s) := by rw [pow_succ]; ring
    have h3 : (2 : ℝ) ^ passes 2 (reach / s) * s ≤ s + 2 * reach := by
      have := mul_le_mul_of_nonneg_right h1 hs0.le
      have e : (1 + 2 * (reach / s)) * s = s + 2 * reach := by field_simp
      linarith
    have e27 : (2 : ℝ) ^ 1027 = 8 * 2 ^ 1024 := by rw [show (1027 : ℕ) = 3 + 1024 by norm_num, pow_add]; norm_num
    have key : ∀ T : ℝ, reach ≤ T → s ≤ T → 2 * (s + 2 * reach) ≤ 8 * T := fun T a b => by linarith
    rw [h2, e27]
    exact (mul_le_mul_of_nonneg_left h3 (by norm_num)).trans (key _ hr hs2)
  have hN2 : passes 2 (2 ^ (passes 2 (reach / s) + 1) * s / (1e-6 * δ)) ≤ 2121 := by
    refine passes_le (by norm_num) (by positivity) ?_
    rw [div_le_iff₀ hpos]
    have e : (2 : ℝ) ^ 2121 = 2 ^ 1027 * 2 ^ 20 * 2 ^ 1074 := by rw [← pow_add, ← pow_add]
    have hA : (0 : ℝ) ≤ 2 ^ 1027 := by positivity
    calc (2 : ℝ) ^ (passes 2 (reach / s) + 1) * s ≤ 2 ^ 1027 := hnum
      _ = 2 ^ 1027 * (1e6 * 1e-6) * 1 := by norm_num
      _ ≤ 2 ^ 1027 * (2 ^ 20 * 1e-6) * (δ * 2 ^ 1074) := by
          apply mul_le_mul _ hδ (by norm_num) (by positivity)
          exact mul_le_mul_of_nonneg_left (mul_le_mul_of_nonneg_right f3 (by norm_num)) hA
      _ = 2 ^ 2121 * (1e-6 * δ) := by rw [e]; ring
  have hle : fuelGam reach δ s ≤ 2122 := by unfold fuelGam; omega
  exact ⟨hle, hle.trans (by unfold Bisect.defaultFuel; omega)⟩

end EaselModel.Dist.BisectTotal
