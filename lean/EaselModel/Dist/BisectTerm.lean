import EaselModel.Dist.BisectThm
import Mathlib.Tactic.Positivity
import Mathlib.Tactic.FieldSimp
/-! Termination, final-bracket width and accuracy of the bracketing + bisection loops (`Dist/Bisect.lean`, the generic
    form of the four generated `esl_*_invcdf` functions) over `ℝ`.

* every bisection step halves the bracket; the loop of `esl_sxp/hxp/gam_invcdf` can only continue while the bracket is
  wider than `1e-6 · (x1 + x2 − 2μ)`, and `x2` stays right of any point where the cdf is still below `p`; so with
  `cdf < p` on `[μ, μ+δ]` it stops within `log₂ (W / (1e-6 δ)) + 1` steps — **without that hypothesis (e.g. `p = 0`) the
  real-number loop never stops**, which is the defect class of 3a05169 (the C code now also breaks when the midpoint
  stops moving, a binary64 event that has no counterpart over `ℝ`);
* the loop of `esl_mixgev_invcdf` stops within `log₂ (W · 1e15) + 1` steps for every cdf whatsoever;
* each bracketing loop triples (gamma: doubles) its reach and stops as soon as it passes a point beyond which the cdf is
  on the right side of `p`;
* the returned value is the midpoint of a final bracket `[a, b]`, `cdf a ≤ p ≤ cdf b`, no wider than the stop rule. -/
noncomputable section
namespace EaselModel.Dist.BisectTerm
open EaselModel.Dist EaselModel.Dist.Bisect EaselModel.Dist.BisectThm

theorem lit_tol : (1.0e-6 : ℝ) = 1e-6 := by norm_num
theorem lit_eps : (1.0e-9 : ℝ) = 1e-9 := by norm_num

/-! ## what a returned value is -/

/-- result of the `sxp/hxp/gam` bisection: midpoint of a final bracket inside the entry bracket whose width obeys the
    stop rule (`a = b` covers the exact hit and the no-progress `break`) -/
def Final (cdf : ℝ → ℝ) (p mu x1 x2 r : ℝ) : Prop :=
  ∃ a b, x1 ≤ a ∧ a ≤ b ∧ b ≤ x2 ∧ cdf a ≤ p ∧ p ≤ cdf b ∧ r = (a + b) / 2 ∧ b - a ≤ 1e-6 * ((a + b) - 2 * mu)

theorem stop_width {a b mu : ℝ} (hmu : mu ≤ a) (hab : a < b) (h : ¬ (1e-6 : ℝ) < (b - a) / ((a + b) - 2 * mu)) :
    b - a ≤ 1e-6 * ((a + b) - 2 * mu) := by
  have hD : 0 < (a + b) - 2 * mu := by linarith
  have := not_lt.mp h
  rwa [div_le_iff₀ hD] at this

theorem bisect_final (cdf : ℝ → ℝ) (p mu : ℝ) : ∀ (n : Nat) (x1 x2 r : ℝ), mu ≤ x1 → x1 ≤ x2 → cdf x1 ≤ p → p ≤ cdf x2 →
    bisect cdf p mu n x1 x2 = some r → Final cdf p mu x1 x2 r := by
  intro n
  induction n with
  | zero => intro x1 x2 r _ _ _ _ h; simp [bisect] at h
  | succ n ih =>
    intro x1 x2 r hmu h12 h1 h2 h
    simp only [bisect, lit_two, lit_tol] at h
    obtain ⟨hm1, hm2⟩ := mid_mem h12
    split_ifs at h with hbrk hgt hc1 hlt hc2
    · -- break: over ℝ only when x1 = x2
      have hr : (x1 + x2) / 2 = r := by simpa using h
      have heq : x1 = x2 := by
        rcases hbrk with hb | hb <;> linarith
      subst heq
      exact ⟨x1, x1, le_refl _, le_refl _, le_refl _, h1, h2, by rw [← hr], by nlinarith⟩
    · obtain ⟨a, b, ha, hab, hb, hca, hcb, hr, hw⟩ := ih x1 ((x1 + x2) / 2) r hmu hm1 h1 hgt.le h
      exact ⟨a, b, ha, hab, le_trans hb hm2, hca, hcb, hr, hw⟩
    · have hr : (x1 + (x1 + x2) / 2) / 2 = r := by simpa using h
      have hlt' : x1 < (x1 + x2) / 2 := lt_of_not_ge (fun hh => hbrk (Or.inl hh))
      exact ⟨x1, (x1 + x2) / 2, le_refl _, hm1, hm2, h1, hgt.le, hr.symm, stop_width hmu hlt' hc1⟩
    · obtain ⟨a, b, ha, hab, hb, hca, hcb, hr, hw⟩ := ih ((x1 + x2) / 2) x2 r (le_trans hmu hm1) hm2 hlt.le h2 h
      exact ⟨a, b, le_trans hm1 ha, hab, hb, hca, hcb, hr, hw⟩
    · have hr : ((x1 + x2) / 2 + x2) / 2 = r := by simpa using h
      have hlt' : (x1 + x2) / 2 < x2 := lt_of_not_ge (fun hh => hbrk (Or.inr hh))
      exact ⟨(x1 + x2) / 2, x2, hm1, hm2, le_refl _, hlt.le, h2, hr.symm, stop_width (le_trans hmu hm1) hlt' hc2⟩
    · have hr : (x1 + x2) / 2 = r := by simpa using h
      have heq : cdf ((x1 + x2) / 2) = p := le_antisymm (not_lt.mp hgt) (not_lt.mp hlt)
      refine ⟨(x1 + x2) / 2, (x1 + x2) / 2, hm1, le_refl _, hm2, heq.le, heq.ge, by rw [← hr]; ring, ?_⟩
      have : mu ≤ (x1 + x2) / 2 := le_trans hmu hm1
      nlinarith

/-- accuracy: any `q` that the final bracket must contain — in particular the unique point where the cdf crosses `p` —
    is within `1e-6 · (r − μ)` of the returned `r`: six significant digits of the offset from `μ` -/
theorem final_accuracy {cdf : ℝ → ℝ} {p mu x1 x2 r q : ℝ} (hf : Final cdf p mu x1 x2 r)
    (hlo : ∀ x, x < q → cdf x < p) (hhi : ∀ x, q < x → p < cdf x) : |r - q| ≤ 1e-6 * (r - mu) := by
  obtain ⟨a, b, _, _, _, hca, hcb, hr, hw⟩ := hf
  have haq : a ≤ q := not_lt.mp fun h => absurd (hhi a h) (not_lt.mpr hca)
  have hqb : q ≤ b := not_lt.mp fun h => absurd (hlo b h) (not_lt.mpr hcb)
  rw [abs_le]; subst hr
  constructor <;> linarith

/-- result of the `mixgev` bisection: stop rule `(b − a) ≤ 1e-6 (|a| + |b| + 1e-9)` -/
def FinalMix (cdf : ℝ → ℝ) (p x1 x2 r : ℝ) : Prop :=
  ∃ a b, x1 ≤ a ∧ a ≤ b ∧ b ≤ x2 ∧ cdf a ≤ p ∧ p ≤ cdf b ∧ r = (a + b) / 2 ∧ b - a ≤ 1e-6 * ((|a| + |b|) + 1e-9)

theorem bisectMix_final (cdf : ℝ → ℝ) (p : ℝ) : ∀ (n : Nat) (x1 x2 r : ℝ), x1 ≤ x2 → cdf x1 ≤ p → p ≤ cdf x2 →
    bisectMix cdf p n x1 x2 = some r → FinalMix cdf p x1 x2 r := by
  intro n
  induction n with
  | zero => intro x1 x2 r _ _ _ h; simp [bisectMix] at h
  | succ n ih =>
    intro x1 x2 r h12 h1 h2 h
    simp only [bisectMix, lit_two, lit_tol, lit_eps, num_fabs] at h
    obtain ⟨hm1, hm2⟩ := mid_mem h12
    split_ifs at h with hgt hc1 hlt hc2
    · obtain ⟨a, b, ha, hab, hb, hca, hcb, hr, hw⟩ := ih x1 ((x1 + x2) / 2) r hm1 h1 hgt.le h
      exact ⟨a, b, ha, hab, le_trans hb hm2, hca, hcb, hr, hw⟩
    · have hr : (x1 + (x1 + x2) / 2) / 2 = r := by simpa using h
      exact ⟨x1, (x1 + x2) / 2, le_refl _, hm1, hm2, h1, hgt.le, hr.symm, not_lt.mp hc1⟩
    · obtain ⟨a, b, ha, hab, hb, hca, hcb, hr, hw⟩ := ih ((x1 + x2) / 2) x2 r hm2 hlt.le h2 h
      exact ⟨a, b, le_trans hm1 ha, hab, hb, hca, hcb, hr, hw⟩
    · have hr : ((x1 + x2) / 2 + x2) / 2 = r := by simpa using h
      exact ⟨(x1 + x2) / 2, x2, hm1, hm2, le_refl _, hlt.le, h2, hr.symm, not_lt.mp hc2⟩
    · have hr : (x1 + x2) / 2 = r := by simpa using h
      have heq : cdf ((x1 + x2) / 2) = p := le_antisymm (not_lt.mp hgt) (not_lt.mp hlt)
      refine ⟨(x1 + x2) / 2, (x1 + x2) / 2, hm1, le_refl _, hm2, heq.le, heq.ge, by rw [← hr]; ring, ?_⟩
      have := abs_nonneg ((x1 + x2) / 2)
      nlinarith

theorem finalMix_accuracy {cdf : ℝ → ℝ} {p x1 x2 r q : ℝ} (hf : FinalMix cdf p x1 x2 r)
    (hlo : ∀ x, x < q → cdf x < p) (hhi : ∀ x, q < x → p < cdf x) : |r - q| ≤ 1.01e-6 * (|r| + 1e-9) := by
  obtain ⟨a, b, _, hab, _, hca, hcb, hr, hw⟩ := hf
  have haq : a ≤ q := not_lt.mp fun h => absurd (hhi a h) (not_lt.mpr hca)
  have hqb : q ≤ b := not_lt.mp fun h => absurd (hlo b h) (not_lt.mpr hcb)
  -- |a|, |b| ≤ |r| + (b-a)/2
  have h1 : |a| ≤ |r| + (b - a) / 2 := by
    rw [abs_le]; constructor <;> linarith [le_abs_self r, neg_abs_le r]
  have h2 : |b| ≤ |r| + (b - a) / 2 := by
    rw [abs_le]; constructor <;> linarith [le_abs_self r, neg_abs_le r]
  have hr0 := abs_nonneg r
  have hwid : b - a ≤ 2.02e-6 * (|r| + 1e-9) := by nlinarith
  rw [abs_le]; subst hr
  constructor <;> nlinarith

/-! ## termination -/

/-- The `sxp/hxp/gam` bisection loop stops within `n + 1` iterations once the entry bracket is no wider than
    `1e-6 · δ · 2ⁿ`, where `cdf < p` on `(-∞, μ+δ]` (so `p` is not attained at the support edge).  -/
theorem bisect_terminates {cdf : ℝ → ℝ} {p mu δ : ℝ} (hδ : 0 < δ) (hlow : ∀ x, x ≤ mu + δ → cdf x < p) :
    ∀ (n : Nat) (x1 x2 : ℝ), mu ≤ x1 → x1 ≤ x2 → p ≤ cdf x2 → x2 - x1 ≤ 1e-6 * δ * 2 ^ n →
      (bisect cdf p mu (n + 1) x1 x2).isSome := by
  have key : ∀ a b : ℝ, mu ≤ a → p ≤ cdf b → δ < (a + b) - 2 * mu := by
    intro a b ha hb
    have : mu + δ < b := not_le.mp fun h => absurd (hlow b h) (not_lt.mpr hb)
    linarith
  intro n
  induction n with
  | zero =>
    intro x1 x2 hmu h12 h2 hw
    simp only [bisect, lit_two, lit_tol]
    obtain ⟨hm1, hm2⟩ := mid_mem h12
    simp only [pow_zero, mul_one] at hw
    split_ifs with hbrk hgt hc1 hlt hc2 <;> try simp
    · have hD := key x1 ((x1 + x2) / 2) hmu hgt.le
      have : ((x1 + x2) / 2 - x1) / ((x1 + (x1 + x2) / 2) - 2 * mu) ≤ 1e-6 := by
        rw [div_le_iff₀ (by linarith)]; nlinarith
      exact absurd hc1 (not_lt.mpr this)
    · have hD := key ((x1 + x2) / 2) x2 (le_trans hmu hm1) h2
      have : (x2 - (x1 + x2) / 2) / (((x1 + x2) / 2 + x2) - 2 * mu) ≤ 1e-6 := by
        rw [div_le_iff₀ (by linarith)]; nlinarith
      exact absurd hc2 (not_lt.mpr this)
  | succ n ih =>
    intro x1 x2 hmu h12 h2 hw
    rw [bisect]
    simp only [lit_two, lit_tol]
    obtain ⟨hm1, hm2⟩ := mid_mem h12
    have hw' : (x2 - x1) / 2 ≤ 1e-6 * δ * 2 ^ n := by
      rw [pow_succ] at hw; linarith
    split_ifs with hbrk hgt hc1 hlt hc2 <;> try simp
    · exact ih x1 ((x1 + x2) / 2) hmu hm1 hgt.le (by linarith)
    · exact ih ((x1 + x2) / 2) x2 (le_trans hmu hm1) hm2 h2 (by linarith)

/-- The `mixgev` bisection loop stops within `n + 1` iterations once the entry bracket is no wider than `1e-15 · 2ⁿ`,
    for EVERY function `cdf` (its stop rule has the absolute floor `1e-6 · 1e-9`). -/
theorem bisectMix_terminates (cdf : ℝ → ℝ) (p : ℝ) : ∀ (n : Nat) (x1 x2 : ℝ), x1 ≤ x2 → x2 - x1 ≤ 1e-15 * 2 ^ n →
    (bisectMix cdf p (n + 1) x1 x2).isSome := by
  intro n
  induction n with
  | zero =>
    intro x1 x2 h12 hw
    simp only [bisectMix, lit_two, lit_tol, lit_eps, num_fabs]
    simp only [pow_zero, mul_one] at hw
    split_ifs with hgt hc1 hlt hc2 <;> try simp
    · have := abs_nonneg x1; have := abs_nonneg ((x1 + x2) / 2); nlinarith
    · have := abs_nonneg x2; have := abs_nonneg ((x1 + x2) / 2); nlinarith
  | succ n ih =>
    intro x1 x2 h12 hw
    rw [bisectMix]
    simp only [lit_two, lit_tol, lit_eps, num_fabs]
    obtain ⟨hm1, hm2⟩ := mid_mem h12
    have hw' : (x2 - x1) / 2 ≤ 1e-15 * 2 ^ n := by
      rw [pow_succ] at hw; linarith
    split_ifs with hgt hc1 hlt hc2 <;> try simp
    · exact ih x1 ((x1 + x2) / 2) hm1 (by linarith)
    · exact ih ((x1 + x2) / 2) x2 hm2 (by linarith)

/-- right bracketing (`x2 ← x2 + 2 (x2 − x1)`: the reach `x2 − x1` triples): stops within `n + 1` iterations once
    `x1 + 3ⁿ⁺¹ (x2 − x1)` passes a point `X` beyond which `p ≤ cdf` -/
theorem bracketRight_terminates {cdf : ℝ → ℝ} {p x1 X : ℝ} (hX : ∀ x, X ≤ x → p ≤ cdf x) :
    ∀ (n : Nat) (x2 : ℝ), X ≤ x1 + 3 ^ (n + 1) * (x2 - x1) → (bracketRight cdf p x1 (n + 1) x2).isSome := by
  intro n
  induction n with
  | zero =>
    intro x2 h
    simp only [bracketRight, lit_two]
    split_ifs with hc <;> try simp
    exact absurd hc (not_lt.mpr (hX _ (by simp only [zero_add, pow_one] at h; linarith)))
  | succ n ih =>
    intro x2 h
    rw [bracketRight]
    simp only [lit_two]
    split_ifs with hc <;> try simp
    refine ih _ ?_
    have e : x1 + 3 ^ (n + 1) * (x2 + 2 * (x2 - x1) - x1) = x1 + 3 ^ (n + 1 + 1) * (x2 - x1) := by
      rw [pow_succ 3 (n + 1)]; ring
    rw [e]; exact h

/-- how far the right bracketing can have gone with `n` iterations allowed -/
theorem bracketRight_reach (cdf : ℝ → ℝ) (p x1 : ℝ) : ∀ (n : Nat) (x2 r : ℝ), x1 ≤ x2 →
    bracketRight cdf p x1 n x2 = some r → r - x1 ≤ 3 ^ n * (x2 - x1) := by
  intro n
  induction n with
  | zero => intro x2 r _ h; simp [bracketRight] at h
  | succ n ih =>
    intro x2 r h12 h
    simp only [bracketRight, lit_two] at h
    have h3 : (1 : ℝ) ≤ 3 ^ n := one_le_pow₀ (by norm_num)
    split_ifs at h with hc
    · have := ih _ r (by linarith) h
      have e : (3 : ℝ) ^ n * (x2 + 2 * (x2 - x1) - x1) = 3 ^ (n + 1) * (x2 - x1) := by rw [pow_succ]; ring
      linarith
    · have hr : x2 + 2 * (x2 - x1) = r := by simpa using h
      rw [pow_succ]; nlinarith

/-- left bracketing of `esl_mixgev_invcdf` (`x1 ← x1 − 2 (x2 − x1)`) -/
theorem bracketLeft_terminates {cdf : ℝ → ℝ} {p x2 X : ℝ} (hX : ∀ x, x ≤ X → cdf x ≤ p) :
    ∀ (n : Nat) (x1 : ℝ), x2 - 3 ^ (n + 1) * (x2 - x1) ≤ X → (bracketLeft cdf p x2 (n + 1) x1).isSome := by
  intro n
  induction n with
  | zero =>
    intro x1 h
    simp only [bracketLeft, lit_two]
    split_ifs with hc <;> try simp
    exact absurd hc (not_lt.mpr (hX _ (by simp only [zero_add, pow_one] at h; linarith)))
  | succ n ih =>
    intro x1 h
    rw [bracketLeft]
    simp only [lit_two]
    split_ifs with hc <;> try simp
    refine ih _ ?_
    have e : x2 - 3 ^ (n + 1) * (x2 - (x1 - 2 * (x2 - x1))) = x2 - 3 ^ (n + 1 + 1) * (x2 - x1) := by
      rw [pow_succ 3 (n + 1)]; ring
    rw [e]; exact h

theorem bracketLeft_reach (cdf : ℝ → ℝ) (p x2 : ℝ) : ∀ (n : Nat) (x1 r : ℝ), x1 ≤ x2 →
    bracketLeft cdf p x2 n x1 = some r → x2 - r ≤ 3 ^ n * (x2 - x1) := by
  intro n
  induction n with
  | zero => intro x1 r _ h; simp [bracketLeft] at h
  | succ n ih =>
    intro x1 r h12 h
    simp only [bracketLeft, lit_two] at h
    have h3 : (1 : ℝ) ≤ 3 ^ n := one_le_pow₀ (by norm_num)
    split_ifs at h with hc
    · have := ih _ r (by linarith) h
      have e : (3 : ℝ) ^ n * (x2 - (x1 - 2 * (x2 - x1))) = 3 ^ (n + 1) * (x2 - x1) := by rw [pow_succ]; ring
      linarith
    · have hr : x1 - 2 * (x2 - x1) = r := by simpa using h
      rw [pow_succ]; nlinarith

/-- gamma's bracketing (`x2 ← 2 x2`, relative to `μ`) -/
theorem bracketGam_terminates {cdf : ℝ → ℝ} {p mu X : ℝ} (hX : ∀ x, X ≤ x → p ≤ cdf x) :
    ∀ (n : Nat) (x2 : ℝ), X ≤ mu + 2 ^ (n + 1) * x2 → (bracketGam cdf p mu (n + 1) x2).isSome := by
  intro n
  induction n with
  | zero =>
    intro x2 h
    simp only [bracketGam, lit_two]
    split_ifs with hc <;> try simp
    exact absurd hc (not_lt.mpr (hX _ (by simp only [zero_add, pow_one] at h; linarith)))
  | succ n ih =>
    intro x2 h
    rw [bracketGam]
    simp only [lit_two]
    split_ifs with hc <;> try simp
    refine ih _ ?_
    have e : mu + 2 ^ (n + 1) * (x2 * 2) = mu + 2 ^ (n + 1 + 1) * x2 := by rw [pow_succ 2 (n + 1)]; ring
    rw [e]; exact h

theorem bracketGam_reach (cdf : ℝ → ℝ) (p mu : ℝ) : ∀ (n : Nat) (x2 r : ℝ), 0 ≤ x2 →
    bracketGam cdf p mu n x2 = some r → r ≤ 2 ^ n * x2 := by
  intro n
  induction n with
  | zero => intro x2 r _ h; simp [bracketGam] at h
  | succ n ih =>
    intro x2 r h0 h
    simp only [bracketGam, lit_two] at h
    have h2 : (1 : ℝ) ≤ 2 ^ n := one_le_pow₀ (by norm_num)
    split_ifs at h with hc
    · have := ih _ r (by linarith) h
      have e : (2 : ℝ) ^ n * (x2 * 2) = 2 ^ (n + 1) * x2 := by rw [pow_succ]; ring
      linarith
    · have hr : x2 * 2 = r := by simpa using h
      rw [pow_succ]; nlinarith

/-- …and when `p` lies above every value of the cdf the right bracketing loop never ends, whatever the fuel
    (known finding `C10:mixture_invcdf:p-above-cdf-max`: a mixture whose coefficients sum to `1 − 2⁻⁵³`, `p = 1`) -/
theorem bracketRight_never {cdf : ℝ → ℝ} {p x1 : ℝ} (h : ∀ x, cdf x < p) : ∀ (n : Nat) (x2 : ℝ), bracketRight cdf p x1 n x2 = none := by
  intro n
  induction n with
  | zero => intro x2; rfl
  | succ n ih => intro x2; simp only [bracketRight]; rw [if_pos (h _)]; exact ih _

theorem invcdfRight_never {cdf : ℝ → ℝ} {p mu : ℝ} (h : ∀ x, cdf x < p) (fuel : Nat) : invcdfRight fuel cdf p mu = none := by
  unfold invcdfRight; rw [bracketRight_never h]

/-! ## fuel is only a bound: more of it never changes a result -/

theorem bisect_fuel_mono (cdf : ℝ → ℝ) (p mu : ℝ) : ∀ (n m : Nat) (x1 x2 r : ℝ), n ≤ m →
    bisect cdf p mu n x1 x2 = some r → bisect cdf p mu m x1 x2 = some r := by
  intro n
  induction n with
  | zero => intro m x1 x2 r _ h; simp [bisect] at h
  | succ n ih =>
    intro m x1 x2 r hnm h
    obtain ⟨m, rfl⟩ : ∃ k, m = k + 1 := ⟨m - 1, by omega⟩
    simp only [bisect] at h ⊢
    split_ifs at h ⊢ with h1 h2 h3 h4 h5
    · exact h
    · exact ih m _ _ r (by omega) h
    · exact h
    · exact ih m _ _ r (by omega) h
    · exact h
    · exact h

theorem bisectMix_fuel_mono (cdf : ℝ → ℝ) (p : ℝ) : ∀ (n m : Nat) (x1 x2 r : ℝ), n ≤ m →
    bisectMix cdf p n x1 x2 = some r → bisectMix cdf p m x1 x2 = some r := by
  intro n
  induction n with
  | zero => intro m x1 x2 r _ h; simp [bisectMix] at h
  | succ n ih =>
    intro m x1 x2 r hnm h
    obtain ⟨m, rfl⟩ : ∃ k, m = k + 1 := ⟨m - 1, by omega⟩
    simp only [bisectMix] at h ⊢
    split_ifs at h ⊢ with h2 h3 h4 h5
    · exact ih m _ _ r (by omega) h
    · exact h
    · exact ih m _ _ r (by omega) h
    · exact h
    · exact h

theorem bracketRight_fuel_mono (cdf : ℝ → ℝ) (p x1 : ℝ) : ∀ (n m : Nat) (x2 r : ℝ), n ≤ m →
    bracketRight cdf p x1 n x2 = some r → bracketRight cdf p x1 m x2 = some r := by
  intro n
  induction n with
  | zero => intro m x2 r _ h; simp [bracketRight] at h
  | succ n ih =>
    intro m x2 r hnm h
    obtain ⟨m, rfl⟩ : ∃ k, m = k + 1 := ⟨m - 1, by omega⟩
    simp only [bracketRight] at h ⊢
    split_ifs at h ⊢ with h1
    · exact ih m _ r (by omega) h
    · exact h

theorem bracketLeft_fuel_mono (cdf : ℝ → ℝ) (p x2 : ℝ) : ∀ (n m : Nat) (x1 r : ℝ), n ≤ m →
    bracketLeft cdf p x2 n x1 = some r → bracketLeft cdf p x2 m x1 = some r := by
  intro n
  induction n with
  | zero => intro m x1 r _ h; simp [bracketLeft] at h
  | succ n ih =>
    intro m x1 r hnm h
    obtain ⟨m, rfl⟩ : ∃ k, m = k + 1 := ⟨m - 1, by omega⟩
    simp only [bracketLeft] at h ⊢
    split_ifs at h ⊢ with h1
    · exact ih m _ r (by omega) h
    · exact h

theorem bracketGam_fuel_mono (cdf : ℝ → ℝ) (p mu : ℝ) : ∀ (n m : Nat) (x2 r : ℝ), n ≤ m →
    bracketGam cdf p mu n x2 = some r → bracketGam cdf p mu m x2 = some r := by
  intro n
  induction n with
  | zero => intro m x2 r _ h; simp [bracketGam] at h
  | succ n ih =>
    intro m x2 r hnm h
    obtain ⟨m, rfl⟩ : ∃ k, m = k + 1 := ⟨m - 1, by omega⟩
    simp only [bracketGam] at h ⊢
    split_ifs at h ⊢ with h1
    · exact ih m _ r (by omega) h
    · exact h

/-! ## the whole inverses -/

theorem isSome_of_fuel_le {f : Nat → Option ℝ} (mono : ∀ n m r, n ≤ m → f n = some r → f m = some r) {n m : Nat}
    (hnm : n ≤ m) (h : (f n).isSome) : (f m).isSome := by
  obtain ⟨r, hr⟩ := Option.isSome_iff_exists.mp h
  rw [mono n m r hnm hr]; rfl

theorem invcdfRight_final {fuel : Nat} {cdf : ℝ → ℝ} {p mu r : ℝ} (h0 : cdf mu ≤ p) (h : invcdfRight fuel cdf p mu = some r) :
    ∃ x2, Final cdf p mu mu x2 r := by
  unfold invcdfRight at h
  split at h
  · exact absurd h (by simp)
  · rename_i x2 hb
    obtain ⟨k1, k2⟩ := bracketRight_spec cdf p mu fuel (mu + 1.0) x2 (by norm_num) hb
    exact ⟨x2, bisect_final cdf p mu fuel mu x2 r (le_refl _) (le_trans (by norm_num) k1) h0 k2 h⟩

theorem invcdfGam_final {fuel : Nat} {cdf : ℝ → ℝ} {p mu l t r : ℝ} (h0 : cdf mu ≤ p) (hlt : 0 ≤ t / l)
    (h : invcdfGam fuel cdf p mu l t = some r) : ∃ x2, Final cdf p mu mu x2 r := by
  unfold invcdfGam at h
  split at h
  · exact absurd h (by simp)
  · rename_i x2 hb
    obtain ⟨k1, k2⟩ := bracketGam_spec cdf p mu fuel (t / l) x2 hlt hb
    exact ⟨x2 + mu, bisect_final cdf p mu fuel mu (x2 + mu) r (le_refl _) (by linarith) h0 (by rwa [add_comm] at k2) h⟩

theorem invcdfMix_final {fuel : Nat} {cdf : ℝ → ℝ} {p m r : ℝ} (h : invcdfMix fuel cdf p m = some r) :
    ∃ x1 x2, FinalMix cdf p x1 x2 r := by
  unfold invcdfMix at h
  simp only [bracketRightLim_real] at h
  split at h
  · exact absurd h (by simp)
  · rename_i x1 hb1
    obtain ⟨k1, k2⟩ := bracketLeft_spec cdf p m fuel (m - 1.0) x1 (by norm_num) hb1
    have hx1m : x1 ≤ m := le_trans k1 (by norm_num)
    split at h
    · exact absurd h (by simp)
    · rename_i x2 hb2
      obtain ⟨j1, j2⟩ := bracketRight_spec cdf p x1 fuel m x2 hx1m hb2
      exact ⟨x1, x2, bisectMix_final cdf p fuel x1 x2 r (le_trans hx1m j1) k2 j2 h⟩

/-- `esl_sxp_invcdf` / `esl_hxp_invcdf` return within `fuel` iterations per loop as soon as `fuel > N1, N2` with
    `3^(N1+1)` reaching the point `X` beyond which `p ≤ cdf`, and `2^N2 ≥ 3^(N1+1) / (1e-6 δ)` -/
theorem invcdfRight_terminates {cdf : ℝ → ℝ} {p mu δ X : ℝ} {N1 N2 fuel : Nat} (hδ : 0 < δ)
    (hlow : ∀ x, x ≤ mu + δ → cdf x < p) (hX : ∀ x, X ≤ x → p ≤ cdf x) (h1 : X ≤ mu + 3 ^ (N1 + 1))
    (h2 : (3 : ℝ) ^ (N1 + 1) ≤ 1e-6 * δ * 2 ^ N2) (hf1 : N1 + 1 ≤ fuel) (hf2 : N2 + 1 ≤ fuel) :
    (invcdfRight fuel cdf p mu).isSome := by
  have hb := bracketRight_terminates (cdf := cdf) (p := p) (x1 := mu) hX N1 (mu + 1.0) (by norm_num; linarith)
  obtain ⟨x2, hx2⟩ := Option.isSome_iff_exists.mp hb
  have hx2' := bracketRight_fuel_mono cdf p mu _ fuel _ _ hf1 hx2
  obtain ⟨k1, k2⟩ := bracketRight_spec cdf p mu _ (mu + 1.0) x2 (by norm_num) hx2
  have hreach := bracketRight_reach cdf p mu _ (mu + 1.0) x2 (by norm_num) hx2
  have hw : x2 - mu ≤ 1e-6 * δ * 2 ^ N2 := by
    have : (3 : ℝ) ^ (N1 + 1) * (mu + 1.0 - mu) = 3 ^ (N1 + 1) := by norm_num
    linarith
  have hbis := bisect_terminates hδ hlow N2 mu x2 (le_refl _) (le_trans (by norm_num) k1) k2 hw
  unfold invcdfRight
  rw [hx2']
  exact isSome_of_fuel_le (f := fun n => bisect cdf p mu n mu x2) (fun n m r => bisect_fuel_mono cdf p mu n m mu x2 r) hf2 hbis

theorem invcdfGam_terminates {cdf : ℝ → ℝ} {p mu l t δ X : ℝ} {N1 N2 fuel : Nat} (hδ : 0 < δ) (hlt : 0 ≤ t / l)
    (hlow : ∀ x, x ≤ mu + δ → cdf x < p) (hX : ∀ x, X ≤ x → p ≤ cdf x) (h1 : X ≤ mu + 2 ^ (N1 + 1) * (t / l))
    (h2 : (2 : ℝ) ^ (N1 + 1) * (t / l) ≤ 1e-6 * δ * 2 ^ N2) (hf1 : N1 + 1 ≤ fuel) (hf2 : N2 + 1 ≤ fuel) :
    (invcdfGam fuel cdf p mu l t).isSome := by
  have hX' : ∀ x, X - mu ≤ x → p ≤ (fun y => cdf y) (mu + x) := fun x hx => hX _ (by linarith)
  have hb := bracketGam_terminates (cdf := cdf) (p := p) (mu := mu) (X := X) hX N1 (t / l) h1
  obtain ⟨x2, hx2⟩ := Option.isSome_iff_exists.mp hb
  have hx2' := bracketGam_fuel_mono cdf p mu _ fuel _ _ hf1 hx2
  obtain ⟨k1, k2⟩ := bracketGam_spec cdf p mu _ (t / l) x2 hlt hx2
  have hreach := bracketGam_reach cdf p mu _ (t / l) x2 hlt hx2
  have hbis := bisect_terminates hδ hlow N2 mu (x2 + mu) (le_refl _) (by linarith) (by rwa [add_comm] at k2) (by linarith)
  unfold invcdfGam
  rw [hx2']
  exact isSome_of_fuel_le (f := fun n => bisect cdf p mu n mu (x2 + mu)) (fun n m r => bisect_fuel_mono cdf p mu n m mu (x2 + mu) r) hf2 hbis

/-- `esl_mixgev_invcdf`: needs only a point `XL` left of which `cdf ≤ p` and a point `XR` right of which `p ≤ cdf` -/
theorem invcdfMix_terminates {cdf : ℝ → ℝ} {p m XL XR : ℝ} {N0 N1 N2 fuel : Nat}
    (hL : ∀ x, x ≤ XL → cdf x ≤ p) (hR : ∀ x, XR ≤ x → p ≤ cdf x) (h0 : m - 3 ^ (N0 + 1) ≤ XL)
    (h1 : XR ≤ m + 3 ^ (N1 + 1) - 1) (h2 : (3 : ℝ) ^ (N1 + 1) * 3 ^ (N0 + 1) ≤ 1e-15 * 2 ^ N2)
    (hf0 : N0 + 1 ≤ fuel) (hf1 : N1 + 1 ≤ fuel) (hf2 : N2 + 1 ≤ fuel) : (invcdfMix fuel cdf p m).isSome := by
  have hbl := bracketLeft_terminates (cdf := cdf) (p := p) (x2 := m) hL N0 (m - 1.0) (by norm_num; linarith)
  obtain ⟨x1, hx1⟩ := Option.isSome_iff_exists.mp hbl
  have hx1' := bracketLeft_fuel_mono cdf p m _ fuel _ _ hf0 hx1
  obtain ⟨k1, k2⟩ := bracketLeft_spec cdf p m _ (m - 1.0) x1 (by norm_num) hx1
  have hreachL := bracketLeft_reach cdf p m _ (m - 1.0) x1 (by norm_num) hx1
  have hx1m : x1 ≤ m - 1 := by have : (m - 1.0 : ℝ) = m - 1 := by norm_num
                               linarith
  have h3 : (1 : ℝ) ≤ 3 ^ (N1 + 1) := one_le_pow₀ (by norm_num)
  have hbr := bracketRight_terminates (cdf := cdf) (p := p) (x1 := x1) hR N1 m (by nlinarith)
  obtain ⟨x2, hx2⟩ := Option.isSome_iff_exists.mp hbr
  have hx2' := bracketRight_fuel_mono cdf p x1 _ fuel _ _ hf1 hx2
  obtain ⟨j1, j2⟩ := bracketRight_spec cdf p x1 _ m x2 (by linarith) hx2
  have hreachR := bracketRight_reach cdf p x1 _ m x2 (by linarith) hx2
  have hw : x2 - x1 ≤ 1e-15 * 2 ^ N2 := by
    have e : (3 : ℝ) ^ (N0 + 1) * (m - (m - 1.0)) = 3 ^ (N0 + 1) := by norm_num
    have : (3 : ℝ) ^ (N1 + 1) * (m - x1) ≤ 3 ^ (N1 + 1) * 3 ^ (N0 + 1) := by
      apply mul_le_mul_of_nonneg_left _ (by positivity); linarith
    linarith
  have hbis := bisectMix_terminates cdf p N2 x1 x2 (by linarith) hw
  unfold invcdfMix
  rw [hx1']; simp only []
  rw [bracketRightLim_real, hx2']
  exact isSome_of_fuel_le (f := fun n => bisectMix cdf p n x1 x2) (fun n m r => bisectMix_fuel_mono cdf p n m x1 x2 r) hf2 hbis

end EaselModel.Dist.BisectTerm
