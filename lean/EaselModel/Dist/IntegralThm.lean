import EaselModel.Dist.GumbelThm
import EaselModel.Dist.ExpThm
import EaselModel.Dist.WeiThm
import EaselModel.Dist.GevThm
import EaselModel.Dist.MixGen
import Mathlib.MeasureTheory.Integral.IntervalIntegral.FundThmCalculus
/-! "The pdf integrates to cdf differences": fundamental theorem of calculus on the proved `HasDerivAt cdf pdf`. -/
noncomputable section
namespace EaselModel.Dist.IntegralThm
open Real EaselModel.Dist.Spec

theorem gumbelPdf_continuous (μ l : ℝ) : Continuous (gumbelPdf μ l) := by
  unfold gumbelPdf; fun_prop

/-- Gumbel: `∫_a^b pdf = cdf b - cdf a` for all `a b`. -/
theorem gumbel_integral_pdf (μ l a b : ℝ) : ∫ x in a..b, gumbelPdf μ l x = gumbelCdf μ l b - gumbelCdf μ l a :=
  intervalIntegral.integral_eq_sub_of_hasDerivAt (fun x _ => GumbelThm.gumbelCdf_hasDerivAt μ l x)
    ((gumbelPdf_continuous μ l).intervalIntegrable a b)

/-- exponential: `∫_a^b pdf = cdf b - cdf a` for `μ < a ≤ b` (inside the support, where the pdf is `l e^{-l(x-μ)}`). -/
theorem exp_integral_pdf {μ l a b : ℝ} (ha : μ < a) (hab : a ≤ b) :
    ∫ x in a..b, expPdf μ l x = expCdf μ l b - expCdf μ l a := by
  have hderiv : ∀ x ∈ Set.uIcc a b, HasDerivAt (expCdf μ l) (expPdf μ l x) x := by
    intro x hx
    rw [Set.uIcc_of_le hab] at hx
    exact ExpThm.expCdf_hasDerivAt (lt_of_lt_of_le ha hx.1)
  have hcont : ContinuousOn (expPdf μ l) (Set.uIcc a b) := by
    have h1 : ContinuousOn (fun x : ℝ => l * exp (-(l * (x - μ)))) (Set.uIcc a b) := by fun_prop
    refine h1.congr ?_
    intro x hx
    rw [Set.uIcc_of_le hab] at hx
    simp [expPdf, not_lt.mpr (le_of_lt (lt_of_lt_of_le ha hx.1))]
  exact intervalIntegral.integral_eq_sub_of_hasDerivAt hderiv hcont.intervalIntegrable

/-- FTC for a cdf with a non-negative density: `HasDerivAt F (f x) x` and `0 ≤ f x` on `[a, b]` give
    `∫_a^b f = F b − F a` (a non-negative derivative is automatically integrable). -/
theorem ftc_of_nonneg {F f : ℝ → ℝ} {a b : ℝ} (hab : a ≤ b) (hd : ∀ x ∈ Set.Icc a b, HasDerivAt F (f x) x)
    (h0 : ∀ x ∈ Set.Icc a b, 0 ≤ f x) : ∫ x in a..b, f x = F b - F a := by
  have hd' : ∀ x ∈ Set.uIcc a b, HasDerivAt F (f x) x := by rwa [Set.uIcc_of_le hab]
  have hcont : ContinuousOn F (Set.uIcc a b) := fun x hx => (hd' x hx).continuousAt.continuousWithinAt
  refine intervalIntegral.integral_eq_sub_of_hasDerivAt hd' (intervalIntegral.intervalIntegrable_deriv_of_nonneg hcont ?_ ?_)
  · intro x hx; rw [min_eq_left hab, max_eq_right hab] at hx; exact hd x (Set.Ioo_subset_Icc_self hx)
  · intro x hx; rw [min_eq_left hab, max_eq_right hab] at hx; exact h0 x (Set.Ioo_subset_Icc_self hx)

theorem weiPdf_nonneg {μ l τ : ℝ} (hl : 0 ≤ l) (hτ : 0 ≤ τ) (x : ℝ) : 0 ≤ weiPdf μ l τ x := by
  unfold weiPdf; split_ifs
  · exact le_refl _
  · exact mul_nonneg (mul_nonneg (mul_nonneg hl hτ) (exp_pos _).le) (exp_pos _).le

/-- Weibull: `∫_a^b pdf = cdf b - cdf a` for `μ < a ≤ b` (the density is unbounded at `μ` for `τ < 1`) -/
theorem wei_integral_pdf {μ l τ a b : ℝ} (hl : 0 < l) (hτ : 0 ≤ τ) (ha : μ < a) (hab : a ≤ b) :
    ∫ x in a..b, weiPdf μ l τ x = weiCdf μ l τ b - weiCdf μ l τ a :=
  ftc_of_nonneg hab (fun _ hx => WeiThm.weiCdf_hasDerivAt hl (lt_of_lt_of_le ha hx.1)) fun x _ => weiPdf_nonneg hl.le hτ x

theorem gevPdf_nonneg {μ l α : ℝ} (hl : 0 ≤ l) (x : ℝ) : 0 ≤ gevPdf μ l α x := by
  unfold gevPdf; split_ifs
  · exact le_refl _
  · exact mul_nonneg hl (exp_pos _).le

/-- GEV (`α ≠ 0`): `∫_a^b pdf = cdf b - cdf a` whenever `[a, b]` lies inside the support (`1 + α l (x-μ) > 0` at both
    ends; the support is an interval because that expression is affine in `x`) -/
theorem gev_integral_pdf {μ l α a b : ℝ} (hl : 0 ≤ l) (hα : α ≠ 0) (hab : a ≤ b) (ha : 0 < gevArg μ l α a) (hb : 0 < gevArg μ l α b) :
    ∫ x in a..b, gevPdf μ l α x = gevCdf μ l α b - gevCdf μ l α a := by
  refine ftc_of_nonneg hab (fun x hx => GevThm.gevCdf_hasDerivAt hα ?_) fun x _ => gevPdf_nonneg hl x
  -- an affine function positive at both ends of `[a,b]` is positive inside
  unfold gevArg at ha hb ⊢
  obtain ⟨h1, h2⟩ := hx
  rcases le_total 0 (α * l) with hs | hs
  · have : α * (l * (a - μ)) ≤ α * (l * (x - μ)) := by
      have := mul_le_mul_of_nonneg_left (sub_le_sub_right h1 μ) hs; nlinarith
    linarith
  · have : α * (l * (b - μ)) ≤ α * (l * (x - μ)) := by
      have := mul_le_mul_of_nonpos_left (sub_le_sub_right h2 μ) hs; nlinarith
    linarith

theorem expPdf_nonneg {μ l : ℝ} (hl : 0 ≤ l) (x : ℝ) : 0 ≤ expPdf μ l x := by
  unfold expPdf; split_ifs
  · exact le_refl _
  · exact mul_nonneg hl (exp_pos _).le

/-! mixtures: the derivative of a finite sum is the sum of the derivatives -/
open Finset EaselModel.Dist.MixGen in
theorem hxp_hasDerivAt (h : EaselModel.Dist.Gen.ESL_HYPEREXP ℝ) {x : ℝ} (hx : h.mu < x) : HasDerivAt (hxpCdf h) (hxpPdf h x) x := by
  unfold hxpCdf hxpPdf
  exact HasDerivAt.fun_sum fun k _ => (ExpThm.expCdf_hasDerivAt hx).const_mul (hq h k)

open Finset EaselModel.Dist.MixGen in
theorem hxp_integral_pdf {h : EaselModel.Dist.Gen.ESL_HYPEREXP ℝ} (ok : HxpOK h) {a b : ℝ} (ha : h.mu < a) (hab : a ≤ b) :
    ∫ x in a..b, hxpPdf h x = hxpCdf h b - hxpCdf h a :=
  ftc_of_nonneg hab (fun _ hx => hxp_hasDerivAt h (lt_of_lt_of_le ha hx.1)) fun x _ =>
    sum_nonneg fun k hk => mul_nonneg (ok k (mem_range.mp hk)).1 (expPdf_nonneg (ok k (mem_range.mp hk)).2.le x)

open Finset EaselModel.Dist.MixGen in
/-- mixture of GEVs on an interval inside every component's support -/
theorem mixgev_integral_pdf {g : EaselModel.Dist.Gen.ESL_MIXGEV ℝ} (ok : MixgevOK g) {a b : ℝ} (hab : a ≤ b)
    (hs : ∀ k < g.K, 0 < gevArg (gm g k) (gl g k) (ga g k) a ∧ 0 < gevArg (gm g k) (gl g k) (ga g k) b) :
    ∫ x in a..b, mixgevPdf g x = mixgevCdf g b - mixgevCdf g a := by
  refine ftc_of_nonneg hab (fun x hx => ?_) fun x _ =>
    sum_nonneg fun k hk => mul_nonneg (ok k (mem_range.mp hk)).1 (gevPdf_nonneg (ok k (mem_range.mp hk)).2.1.le x)
  unfold mixgevCdf mixgevPdf
  refine HasDerivAt.fun_sum fun k hk => (GevThm.gevCdf_hasDerivAt (ok k (mem_range.mp hk)).2.2 ?_).const_mul (gq g k)
  -- positivity of the affine support expression inside [a, b]
  obtain ⟨pa, pb⟩ := hs k (mem_range.mp hk)
  unfold gevArg at pa pb ⊢
  obtain ⟨h1, h2⟩ := hx
  rcases le_total 0 (ga g k * gl g k) with hs' | hs'
  · have : ga g k * (gl g k * (a - gm g k)) ≤ ga g k * (gl g k * (x - gm g k)) := by
      have := mul_le_mul_of_nonneg_left (sub_le_sub_right h1 (gm g k)) hs'; nlinarith
    linarith
  · have : ga g k * (gl g k * (b - gm g k)) ≤ ga g k * (gl g k * (x - gm g k)) := by
      have := mul_le_mul_of_nonpos_left (sub_le_sub_right h2 (gm g k)) hs'; nlinarith
    linarith

end EaselModel.Dist.IntegralThm
