import EaselModel.Dist.GumbelThm
import EaselModel.Dist.ExpThm
import Mathlib.MeasureTheory.Integral.IntervalIntegral.FundThmCalculus
/-! "The pdf integrates to cdf differences": fundamental theorem of calculus on the proved `HasDerivAt cdf pdf`. -/
noncomputable section
namespace EaselModel.Dist.IntegralThm
open Real EaselModel.Dist.Spec

theorem gumbelPdf_continuous (μ l : ℝ) : Continuous (gumbelPdf μ l) := by
  unfold gumbelPdf; fun_prop

/-- Gumbel: `∫_a^b pdf = cdf b - cdf a` for all `a b`. -/
theorem gumbel_integral_pdf (μ l a b : ℝ) : ∫ x in a..b, gumbelPdf μ l x = gumbelCdf μ l b - gumbelCdf μ l a :=
  intervalIntegral.integral_eq_sub_of_hasDerivAt (fun x _ => GumbelThm.gumbelCdf_hasDerivAt μ l x)
    ((gumbelPdf_continuous μ l).intervalIntegrable a b)

/-- exponential: `∫_a^b pdf = cdf b - cdf a` for `μ < a ≤ b` (inside the support, where the pdf is `l e^{-l(x-μ)}`). -/
theorem exp_integral_pdf {μ l a b : ℝ} (ha : μ < a) (hab : a ≤ b) :
    ∫ x in a..b, expPdf μ l x = expCdf μ l b - expCdf μ l a := by
  have hderiv : ∀ x ∈ Set.uIcc a b, HasDerivAt (expCdf μ l) (expPdf μ l x) x := by
    intro x hx
    rw [Set.uIcc_of_le hab] at hx
    exact ExpThm.expCdf_hasDerivAt (lt_of_lt_of_le ha hx.1)
  have hcont : ContinuousOn (expPdf μ l) (Set.uIcc a b) := by
    have h1 : ContinuousOn (fun x : ℝ => l * exp (-(l * (x - μ)))) (Set.uIcc a b) := by fun_prop
    refine h1.congr ?_
    intro x hx
    rw [Set.uIcc_of_le hab] at hx
    simp [expPdf, not_lt.mpr (le_of_lt (lt_of_lt_of_le ha hx.1))]
  exact intervalIntegral.integral_eq_sub_of_hasDerivAt hderiv hcont.intervalIntegrable

end EaselModel.Dist.IntegralThm
