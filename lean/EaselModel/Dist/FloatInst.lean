import EaselModel.Dist.Num
import EaselModel.Dist.Special
import EaselModel.Generated.ErfcCoef
/-! `Float` instance of `Num`: every operation is the libm function the C code calls (Lean's `Float.exp`, `Float.log`, …
    are `@[extern]` bindings to `exp`, `log`, …; `erfc` is bound the same way here).  Core Lean only.
    The special functions of `esl_stats.c` are hand models (`Dist/Special.lean`), tied bit-for-bit by the
    correspondence run. -/
namespace EaselModel.Dist

/-- libm `erfc` (the C code of `esl_normal.c` calls exactly this symbol). -/
@[extern "erfc"] opaque erfcFloat : Float → Float

/-- libm `log1p`, `expm1` (Lean's `Float` has no binding for them; same symbols the C code calls) -/
@[extern "log1p"] opaque log1pFloat : Float → Float
@[extern "expm1"] opaque expm1Float : Float → Float

def floatInf : Float := 1.0 / 0.0

/-- Hand model (kind H) of `esl_stats_erfc` (the Sun/FreeBSD `erfc`, which `esl_normal.c` uses when `HAVE_ERFC` is not
    defined — the case in this build): branch structure mirrored on the high word of `x`; coefficients from
    `Generated/ErfcCoef.lean`.  Tied bit-for-bit by the correspondence run (`f fn=esl_stats_erfc`). -/
def erfcSun (x : Float) : Float :=
  open ErfcCoef in
  let bits := x.toBits
  let hxu : UInt64 := bits >>> 32                 -- high word, as unsigned
  let neg : Bool := hxu >= 0x80000000             -- hx < 0
  let ix : UInt64 := hxu &&& 0x7fffffff
  if ix >= 0x7ff00000 then (if neg then 2.0 else 0.0) + 1.0 / x
  else if ix < 0x3feb0000 then
    if ix < 0x3c700000 then 1.0 - x
    else
      let z := x * x
      let r := pp0 + z * (pp1 + z * (pp2 + z * (pp3 + z * pp4)))
      let s := 1.0 + z * (qq1 + z * (qq2 + z * (qq3 + z * (qq4 + z * qq5))))
      let y := r / s
      if neg || hxu < 0x3fd00000 then 1.0 - (x + x * y)       -- signed `hx < 0x3fd00000`
      else
        let r := x * y
        let r := r + (x - 0.5)
        0.5 - r
  else if ix < 0x3ff40000 then
    let s := x.abs - 1.0
    let P := pa0 + s * (pa1 + s * (pa2 + s * (pa3 + s * (pa4 + s * (pa5 + s * pa6)))))
    let Q := 1.0 + s * (qa1 + s * (qa2 + s * (qa3 + s * (qa4 + s * (qa5 + s * qa6)))))
    if !neg then (1.0 - erx) - P / Q else 1.0 + (erx + P / Q)
  else if ix < 0x403c0000 then
    let ax := x.abs
    let s := 1.0 / (ax * ax)
    if ix >= 0x4006DB6D && neg && ix >= 0x40180000 then 2.0
    else
      let RS : Float × Float :=
        if ix < 0x4006DB6D then
          (ra0 + s * (ra1 + s * (ra2 + s * (ra3 + s * (ra4 + s * (ra5 + s * (ra6 + s * ra7)))))),
           1.0 + s * (sa1 + s * (sa2 + s * (sa3 + s * (sa4 + s * (sa5 + s * (sa6 + s * (sa7 + s * sa8))))))))
        else
          (rb0 + s * (rb1 + s * (rb2 + s * (rb3 + s * (rb4 + s * (rb5 + s * rb6))))),
           1.0 + s * (sb1 + s * (sb2 + s * (sb3 + s * (sb4 + s * (sb5 + s * (sb6 + s * sb7)))))))
      let z := Float.ofBits (ax.toBits &&& 0xffffffff00000000)      -- ESL_SET_LOWWORD(z, 0)
      let r := Float.exp ((-z) * z - 0.5625) * Float.exp ((z - ax) * (z + ax) + RS.1 / RS.2)
      if !neg && hxu > 0 then r / ax else 2.0 - r / ax
  else if !neg then 0.0 else 2.0

instance : Num Float where
  exp := Float.exp
  log := Float.log
  log1p := log1pFloat
  expm1 := expm1Float
  pow := Float.pow
  sqrt := Float.sqrt
  floor := Float.floor
  fabs := Float.abs
  erfc := erfcSun
  eqb := fun a b => a == b
  inf := floatInf
  ltInf := fun x => decide (x < floatInf)
  logGamma := fun x => if x ≤ 0.0 then 0.0 / 0.0 else Special.logGamma Float.log x
  incGammaP := fun a x => match Special.incGamma Float.exp Float.log Float.abs (fun a b => a == b) a x with
    | some pq => pq.1 | none => 0.0 / 0.0
  incGammaQ := fun a x => match Special.incGamma Float.exp Float.log Float.abs (fun a b => a == b) a x with
    | some pq => pq.2 | none => 0.0 / 0.0

end EaselModel.Dist
