import EaselModel.Dist.Num
/-! `Float` instance of `Num`: every operation is the libm function the C code calls (Lean's `Float.exp`, `Float.log`, …
    are `@[extern]` bindings to `exp`, `log`, …; `erfc` is bound the same way here).  Core Lean only.
    The special functions of `esl_stats.c` are hand models (`Dist/Special.lean`), tied bit-for-bit by the
    correspondence run. -/
namespace EaselModel.Dist

/-- libm `erfc` (the C code of `esl_normal.c` calls exactly this symbol). -/
@[extern "erfc"] opaque erfcFloat : Float → Float

def floatInf : Float := 1.0 / 0.0

instance : Num Float where
  exp := Float.exp
  log := Float.log
  pow := Float.pow
  sqrt := Float.sqrt
  floor := Float.floor
  fabs := Float.abs
  erfc := erfcFloat
  eqb := fun a b => a == b
  inf := floatInf
  logGamma := fun _ => 0.0 / 0.0
  incGammaP := fun _ _ => 0.0 / 0.0
  incGammaQ := fun _ _ => 0.0 / 0.0

end EaselModel.Dist
