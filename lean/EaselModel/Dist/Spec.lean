import Mathlib.Analysis.SpecialFunctions.Exp
import Mathlib.Analysis.SpecialFunctions.Log.Basic
import Mathlib.Analysis.SpecialFunctions.Pow.Real
/-! Textbook closed forms of the distributions (location `μ`, scale/rate `l`, shape `τ` or `α`), over `ℝ`.
    These are the *specifications*: nothing here mentions the C code. -/
noncomputable section
namespace EaselModel.Dist.Spec
open Real

/-! ### exponential: support `x ≥ μ` -/
def expPdf (μ l x : ℝ) : ℝ := if x < μ then 0 else l * exp (-(l * (x - μ)))
def expCdf (μ l x : ℝ) : ℝ := if x < μ then 0 else 1 - exp (-(l * (x - μ)))
def expSurv (μ l x : ℝ) : ℝ := if x < μ then 1 else exp (-(l * (x - μ)))
def expInvCdf (μ l p : ℝ) : ℝ := μ - log (1 - p) / l
def expInvSurv (μ l p : ℝ) : ℝ := μ - log p / l

/-! ### Gumbel (type I extreme value): support all of `ℝ` -/
def gumbelPdf (μ l x : ℝ) : ℝ := l * exp (-(l * (x - μ)) - exp (-(l * (x - μ))))
def gumbelCdf (μ l x : ℝ) : ℝ := exp (-exp (-(l * (x - μ))))
def gumbelSurv (μ l x : ℝ) : ℝ := 1 - gumbelCdf μ l x
def gumbelInvCdf (μ l p : ℝ) : ℝ := μ - log (-log p) / l
def gumbelInvSurv (μ l p : ℝ) : ℝ := μ - log (-log (1 - p)) / l

/-! ### generalised extreme value, `α ≠ 0`: support `1 + α l (x-μ) > 0`; below it (Fréchet, `α>0`) cdf `0`,
    above it (Weibull type, `α<0`) cdf `1`.  `α = 0` is the Gumbel. -/
def gevArg (μ l α x : ℝ) : ℝ := 1 + α * (l * (x - μ))
def gevCdf (μ l α x : ℝ) : ℝ :=
  if gevArg μ l α x ≤ 0 then (if 0 < α then 0 else 1) else exp (-exp (-(log (gevArg μ l α x) / α)))
def gevSurv (μ l α x : ℝ) : ℝ := 1 - gevCdf μ l α x
def gevPdf (μ l α x : ℝ) : ℝ :=
  if gevArg μ l α x ≤ 0 then 0
  else l * exp (-(1 + 1 / α) * log (gevArg μ l α x) - exp (-(log (gevArg μ l α x) / α)))
def gevInvCdf (μ l α p : ℝ) : ℝ := μ + (exp (-α * log (-log p)) - 1) / (α * l)

/-! ### Weibull: support `x > μ` (cdf `0` at and below `μ`) -/
def weiZ (μ l τ x : ℝ) : ℝ := exp (τ * log (l * (x - μ)))        -- (l (x-μ))^τ for x > μ
def weiCdf (μ l τ x : ℝ) : ℝ := if x ≤ μ then 0 else 1 - exp (-weiZ μ l τ x)
def weiSurv (μ l τ x : ℝ) : ℝ := if x ≤ μ then 1 else exp (-weiZ μ l τ x)
def weiPdf (μ l τ x : ℝ) : ℝ :=
  if x ≤ μ then 0 else l * τ * exp ((τ - 1) * log (l * (x - μ))) * exp (-weiZ μ l τ x)
def weiInvCdf (μ l τ p : ℝ) : ℝ := μ + exp (log (-log (1 - p)) / τ) / l

end EaselModel.Dist.Spec
