import EaselModel.Generated.Dist
/-! Support-edge behaviour of the translated code, for EVERY carrier (`Float` included, as far as its `<`, `≤` go):
    outside the support the density is `0`, the cdf `0` or `1`, the log versions `-inf`/`0` — exactly, by the
    branch the code takes.  Core Lean only. -/
set_option linter.unusedSectionVars false
namespace EaselModel.Dist.Edge
open EaselModel.Dist EaselModel.Dist.Gen
variable {α : Type} [Add α] [Sub α] [Mul α] [Div α] [Neg α] [OfScientific α] [LT α] [LE α]
  [DecidableLT α] [DecidableLE α] [Num α]

/-! exponential: `x < μ` -/
theorem exp_pdf_below {x mu l : α} (h : x < mu) : esl_exp_pdf x mu l = 0.0 := by simp [esl_exp_pdf, h]
theorem exp_logpdf_below {x mu l : α} (h : x < mu) : esl_exp_logpdf x mu l = -Num.inf := by simp [esl_exp_logpdf, h]
theorem exp_cdf_below {x mu l : α} (h : x < mu) : esl_exp_cdf x mu l = 0.0 := by simp [esl_exp_cdf, h]
theorem exp_logcdf_below {x mu l : α} (h : x < mu) : esl_exp_logcdf x mu l = -Num.inf := by simp [esl_exp_logcdf, h]
theorem exp_surv_below {x mu l : α} (h : x < mu) : esl_exp_surv x mu l = 1.0 := by simp [esl_exp_surv, h]
theorem exp_logsurv_below {x mu l : α} (h : x < mu) : esl_exp_logsurv x mu l = 0.0 := by simp [esl_exp_logsurv, h]

/-! Weibull: `x ≤ μ` for the distribution functions, `x < μ` for the density -/
theorem wei_pdf_below {x mu l t : α} (h : x < mu) : esl_wei_pdf x mu l t = 0.0 := by simp [esl_wei_pdf, h]
theorem wei_logpdf_below {x mu l t : α} (h : x < mu) : esl_wei_logpdf x mu l t = -Num.inf := by simp [esl_wei_logpdf, h]
theorem wei_cdf_below {x mu l t : α} (h : x ≤ mu) : esl_wei_cdf x mu l t = 0.0 := by simp [esl_wei_cdf, h]
theorem wei_logcdf_below {x mu l t : α} (h : x ≤ mu) : esl_wei_logcdf x mu l t = -Num.inf := by simp [esl_wei_logcdf, h]
theorem wei_surv_below {x mu l t : α} (h : x ≤ mu) : esl_wei_surv x mu l t = 1.0 := by simp [esl_wei_surv, h]
theorem wei_logsurv_below {x mu l t : α} (h : x ≤ mu) : esl_wei_logsurv x mu l t = 0.0 := by simp [esl_wei_logsurv, h]

/-! GEV: outside the Gumbel branch (`¬ |α y| < 1e-12`) with `1 + α y ≤ 0`: Fréchet side (`x < μ`) and Weibull side -/
section gev
variable {x mu l a : α}
local notation "y" => l * (x - mu)
theorem gev_pdf_out (hg : ¬ Num.fabs (y * a) < 1.0e-12) (h : 1.0 + a * y ≤ 0.0) : esl_gev_pdf x mu l a = 0.0 := by
  simp [esl_gev_pdf, hg, h]
theorem gev_logpdf_out (hg : ¬ Num.fabs (y * a) < 1.0e-12) (h : 1.0 + a * y ≤ 0.0) : esl_gev_logpdf x mu l a = -Num.inf := by
  simp [esl_gev_logpdf, hg, h]
theorem gev_cdf_frechet (hg : ¬ Num.fabs (y * a) < 1.0e-12) (h : 1.0 + a * y ≤ 0.0) (hx : x < mu) : esl_gev_cdf x mu l a = 0.0 := by
  simp [esl_gev_cdf, hg, h, hx]
theorem gev_cdf_weibull (hg : ¬ Num.fabs (y * a) < 1.0e-12) (h : 1.0 + a * y ≤ 0.0) (hx : ¬ x < mu) : esl_gev_cdf x mu l a = 1.0 := by
  simp [esl_gev_cdf, hg, h, hx]
theorem gev_logcdf_frechet (hg : ¬ Num.fabs (y * a) < 1.0e-12) (h : 1.0 + a * y ≤ 0.0) (hx : x < mu) : esl_gev_logcdf x mu l a = -Num.inf := by
  simp [esl_gev_logcdf, hg, h, hx]
theorem gev_logcdf_weibull (hg : ¬ Num.fabs (y * a) < 1.0e-12) (h : 1.0 + a * y ≤ 0.0) (hx : ¬ x < mu) : esl_gev_logcdf x mu l a = 0.0 := by
  simp [esl_gev_logcdf, hg, h, hx]
theorem gev_surv_frechet (hg : ¬ Num.fabs (y * a) < 1.0e-12) (h : 1.0 + a * y ≤ 0.0) (hx : x < mu) : esl_gev_surv x mu l a = 1.0 := by
  simp [esl_gev_surv, hg, h, hx]
theorem gev_surv_weibull (hg : ¬ Num.fabs (y * a) < 1.0e-12) (h : 1.0 + a * y ≤ 0.0) (hx : ¬ x < mu) : esl_gev_surv x mu l a = 0.0 := by
  simp [esl_gev_surv, hg, h, hx]
/-- the repaired defect (DESIGN §7 item 13): below a Fréchet lower bound `log surv = 0`, not `1` -/
theorem gev_logsurv_frechet (hg : ¬ Num.fabs (y * a) < 1.0e-12) (h : 1.0 + a * y ≤ 0.0) (hx : x < mu) : esl_gev_logsurv x mu l a = 0.0 := by
  simp [esl_gev_logsurv, hg, h, hx]
theorem gev_logsurv_weibull (hg : ¬ Num.fabs (y * a) < 1.0e-12) (h : 1.0 + a * y ≤ 0.0) (hx : ¬ x < mu) : esl_gev_logsurv x mu l a = -Num.inf := by
  simp [esl_gev_logsurv, hg, h, hx]
end gev

/-! gamma: outside `y = λ(x-μ) ≥ 0` (repaired: `esl_gam_logpdf` now tests `y`, not `x`) -/
theorem gam_pdf_below {x mu l t : α} (h : l * (x - mu) < 0.0) : esl_gam_pdf x mu l t = 0.0 := by simp [esl_gam_pdf, h]
theorem gam_logpdf_below {x mu l t : α} (h : l * (x - mu) < 0.0) : esl_gam_logpdf x mu l t = -Num.inf := by simp [esl_gam_logpdf, h]
theorem gam_cdf_below {x mu l t : α} (h : l * (x - mu) ≤ 0.0) : esl_gam_cdf x mu l t = 0.0 := by simp [esl_gam_cdf, h]
theorem gam_logcdf_below {x mu l t : α} (h : l * (x - mu) ≤ 0.0) : esl_gam_logcdf x mu l t = -Num.inf := by simp [esl_gam_logcdf, h]
theorem gam_surv_below {x mu l t : α} (h : l * (x - mu) ≤ 0.0) : esl_gam_surv x mu l t = 1.0 := by simp [esl_gam_surv, h]
theorem gam_logsurv_below {x mu l t : α} (h : l * (x - mu) ≤ 0.0) : esl_gam_logsurv x mu l t = 0.0 := by simp [esl_gam_logsurv, h]

/-! stretched exponential: `x < μ` for the density, `x ≤ μ` for the distribution functions -/
theorem sxp_pdf_below {x mu l t : α} (h : x < mu) : esl_sxp_pdf x mu l t = 0.0 := by simp [esl_sxp_pdf, h]
theorem sxp_logpdf_below {x mu l t : α} (h : x < mu) : esl_sxp_logpdf x mu l t = -Num.inf := by simp [esl_sxp_logpdf, h]
theorem sxp_cdf_below {x mu l t : α} (h : x ≤ mu) : esl_sxp_cdf x mu l t = 0.0 := by simp [esl_sxp_cdf, h]
theorem sxp_logcdf_below {x mu l t : α} (h : x ≤ mu) : esl_sxp_logcdf x mu l t = -Num.inf := by simp [esl_sxp_logcdf, h]
theorem sxp_surv_below {x mu l t : α} (h : x ≤ mu) : esl_sxp_surv x mu l t = 1.0 := by simp [esl_sxp_surv, h]
theorem sxp_logsurv_below {x mu l t : α} (h : x ≤ mu) : esl_sxp_logsurv x mu l t = 0.0 := by simp [esl_sxp_logsurv, h]

/-! log-normal: density `0` at `x = 0` -/
theorem lognormal_pdf_zero {x mu s : α} (h : Num.eqb x 0.0 = true) : esl_lognormal_pdf x mu s = 0.0 := by simp [esl_lognormal_pdf, h]
theorem lognormal_logpdf_zero {x mu s : α} (h : Num.eqb x 0.0 = true) : esl_lognormal_logpdf x mu s = -Num.inf := by simp [esl_lognormal_logpdf, h]

/-! sampling = inverse cdf of the positive uniform deviate the generator yields (definitional after translation) -/
theorem exp_sample (u mu l : α) : esl_exp_Sample u mu l = esl_exp_invsurv u mu l := rfl
theorem gumbel_sample (u mu l : α) : esl_gumbel_Sample u mu l = esl_gumbel_invcdf u mu l := rfl
theorem gev_sample (u mu l a : α) : esl_gev_Sample u mu l a = esl_gev_invcdf u mu l a := rfl
theorem wei_sample (u mu l t : α) : esl_wei_Sample u mu l t = esl_wei_invcdf u mu l t := rfl

end EaselModel.Dist.Edge
