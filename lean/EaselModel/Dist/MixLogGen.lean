import EaselModel.Dist.MixGen
/-! Log versions of the TRANSLATED hyperexponential: the counted loop stores `log q_k + log f_k(x)` into the scratch vector
    `h->wrk` (a fold over the structure value), `esl_vec_DLogSum` sums it. -/
noncomputable section
namespace EaselModel.Dist.MixLogGen
open Real Finset EaselModel.Dist EaselModel.Dist.Gen EaselModel.Dist.Spec EaselModel.Dist.MixGen

/-- what the loop body stores for component `k` -/
def entry (h : ESL_HYPEREXP ℝ) (f : ℝ → ℝ) (k : ℕ) : ℝ :=
  if hq h k = 0 then -(Num.inf : ℝ) else log (hq h k) + f (hl h k)

theorem fold_struct (h : ESL_HYPEREXP ℝ) (F : ℝ → ℝ → ℝ) (n : ℕ) :
    (List.range n).foldl (fun (h : ESL_HYPEREXP ℝ) k =>
        if (Num.eqb (h.q.getD k 0.0) (0.0) = true) then { h with wrk := h.wrk.set k (-Num.inf) }
        else { h with wrk := h.wrk.set k ((Num.log (h.q.getD k 0.0)) + F h.mu (h.lambda.getD k 0.0)) }) h =
      { h with wrk := (List.range n).foldl (fun w k => w.set k (entry h (F h.mu) k)) h.wrk } := by
  induction n with
  | zero => rfl
  | succ n ih =>
    rw [List.range_succ, List.foldl_append, List.foldl_append, ih]
    simp only [List.foldl_cons, List.foldl_nil, entry, hq, hl, num_eqb, num_log, lit_zero]
    split_ifs <;> rfl

theorem fold_set_length (v : ℕ → ℝ) (n : ℕ) (w : List ℝ) : ((List.range n).foldl (fun w k => w.set k (v k)) w).length = w.length := by
  induction n with
  | zero => rfl
  | succ n ih => rw [List.range_succ, List.foldl_append]; simp [ih]

theorem fold_set_getD (v : ℕ → ℝ) (w : List ℝ) : ∀ n, n ≤ w.length → ∀ i < n,
    ((List.range n).foldl (fun w k => w.set k (v k)) w).getD i 0 = v i := by
  intro n
  induction n with
  | zero => intro _ i hi; omega
  | succ n ih =>
    intro hn i hi
    rw [List.range_succ, List.foldl_append]
    simp only [List.foldl_cons, List.foldl_nil]
    have hlen := fold_set_length v n w
    rw [List.getD_eq_getElem?_getD, List.getElem?_set]
    by_cases hin : n = i
    · subst hin
      have : n < ((List.range n).foldl (fun w k => w.set k (v k)) w).length := by rw [hlen]; omega
      simp [this]
    · rw [if_neg hin, ← List.getD_eq_getElem?_getD]; exact ih (by omega) i (by omega)

/-- the loop + `esl_vec_DLogSum`: for positive coefficients whose log-terms lie within 500 of each other,
    `log Σ_k q_k g_k` where `f = log g` componentwise -/
theorem hxp_lsum (h : ESL_HYPEREXP ℝ) (f g : ℝ → ℝ) (hK : 1 ≤ h.K) (hw : h.K ≤ h.wrk.length)
    (hpos : ∀ k < h.K, 0 < hq h k ∧ 0 < g (hl h k) ∧ f (hl h k) = log (g (hl h k)))
    (hfin : ∀ k < h.K, entry h f k ≠ (Num.inf : ℝ)) (hwin : ∀ i < h.K, ∀ j < h.K, entry h f j - 500 < entry h f i) :
    esl_vec_DLogSum ({ h with wrk := (List.range h.K).foldl (fun w k => w.set k (entry h f k)) h.wrk } : ESL_HYPEREXP ℝ).wrk h.K =
      log (∑ k ∈ range h.K, hq h k * g (hl h k)) := by
  set w := (List.range h.K).foldl (fun w k => w.set k (entry h f k)) h.wrk with hwdef
  have hget : ∀ i < h.K, w.getD i 0 = entry h f i := fold_set_getD (entry h f) h.wrk h.K hw
  obtain ⟨⟨_, j, hj, hmax⟩, _⟩ := vec_dmax_dmin w hK
  rw [hget j hj] at hmax
  rw [vec_dlogsum w hK (by rw [hmax]; exact hfin j hj) (fun i hi => by rw [hmax, hget i hi]; exact hwin i hi j hj)]
  congr 1
  refine sum_congr rfl fun k hk => ?_
  obtain ⟨h1, h2, h3⟩ := hpos k (mem_range.mp hk)
  rw [hget k (mem_range.mp hk), entry, if_neg (ne_of_gt h1), h3, exp_add, exp_log h1, exp_log h2]

/-- `esl_hxp_logsurv = log esl_hxp_surv` exactly and `esl_hxp_logpdf = log esl_hxp_pdf` exactly (finite rates) on
    `x ≥ μ`, for positive coefficients whose log-terms lie within the 500-window of `esl_vec_DLogSum` -/
theorem hxp_logsurv_eq {h : ESL_HYPEREXP ℝ} {x : ℝ} (hx : h.mu ≤ x) (hK : 1 ≤ h.K) (hw : h.K ≤ h.wrk.length)
    (hpos : ∀ k < h.K, 0 < hq h k)
    (hfin : ∀ k < h.K, entry h (fun l => esl_exp_logsurv x h.mu l) k ≠ (Num.inf : ℝ))
    (hwin : ∀ i < h.K, ∀ j < h.K, entry h (fun l => esl_exp_logsurv x h.mu l) j - 500 < entry h (fun l => esl_exp_logsurv x h.mu l) i) :
    esl_hxp_logsurv x h = log (esl_hxp_surv x h) := by
  rw [hxp_surv_sum, if_neg (not_lt.mpr hx)]
  simp only [esl_hxp_logsurv]
  rw [if_neg (not_lt.mpr hx), fold_struct h (fun m l => esl_exp_logsurv x m l) h.K]
  refine hxp_lsum h _ (fun l => esl_exp_surv x h.mu l) hK hw (fun k hk => ⟨hpos k hk, ?_, ?_⟩) hfin hwin
  · rw [ExpThm.code_surv]; unfold expSurv; rw [if_neg (not_lt.mpr hx)]; exact exp_pos _
  · show esl_exp_logsurv x h.mu (hl h k) = log (esl_exp_surv x h.mu (hl h k)); rw [ExpThm.code_logsurv hx, ExpThm.code_surv]

theorem hxp_logpdf_eq {h : ESL_HYPEREXP ℝ} {x : ℝ} (hx : h.mu ≤ x) (hK : 1 ≤ h.K) (hw : h.K ≤ h.wrk.length)
    (hpos : ∀ k < h.K, 0 < hq h k ∧ 0 < hl h k ∧ hl h k ≠ (Num.inf : ℝ))
    (hfin : ∀ k < h.K, entry h (fun l => esl_exp_logpdf x h.mu l) k ≠ (Num.inf : ℝ))
    (hwin : ∀ i < h.K, ∀ j < h.K, entry h (fun l => esl_exp_logpdf x h.mu l) j - 500 < entry h (fun l => esl_exp_logpdf x h.mu l) i) :
    esl_hxp_logpdf x h = log (esl_hxp_pdf x h) := by
  rw [hxp_pdf_sum, if_neg (not_lt.mpr hx)]
  simp only [esl_hxp_logpdf]
  rw [if_neg (not_lt.mpr hx), fold_struct h (fun m l => esl_exp_logpdf x m l) h.K]
  refine hxp_lsum h _ (fun l => esl_exp_pdf x h.mu l) hK hw (fun k hk => ⟨(hpos k hk).1, ?_, ?_⟩) hfin hwin
  · rw [ExpThm.code_pdf]; unfold expPdf; rw [if_neg (not_lt.mpr hx)]; exact mul_pos (hpos k hk).2.1 (exp_pos _)
  · show esl_exp_logpdf x h.mu (hl h k) = log (esl_exp_pdf x h.mu (hl h k)); rw [ExpThm.code_logpdf (hpos k hk).2.1 (hpos k hk).2.2 hx, ExpThm.code_pdf]

end EaselModel.Dist.MixLogGen
