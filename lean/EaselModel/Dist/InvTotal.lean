import EaselModel.Dist.BisectTotal
import EaselModel.Dist.Edge
import EaselModel.Dist.GamSxpThm
/-! Round 6: the four TRANSLATED bracketing + bisection inverses (`esl_hxp_invcdf`, `esl_sxp_invcdf`, `esl_gam_invcdf`,
    `esl_mixgev_invcdf`, each with its own TRANSLATED cdf) as total functions over `ℝ` with an explicit fuel bound
    (`BisectTotal.fuelRight / fuelGam / fuelMix`), and the accuracy of the returned quantile relative to the TEXTBOOK cdf.

* hyperexponential: unconditional (`|esl_hxp_cdf − textbook| ≤ 2.5e-17·Σq` is proved);
* stretched exponential, gamma: conditional on ONE named special-function fact, `IncGammaPWithin a δ`
  (`esl_stats_IncompleteGamma`'s `P`, read over `ℝ`, is within `δ` of the regularised incomplete gamma integral on `y > 0`);
* GEV mixture: for its own cdf given two bracketing points (no edge hypothesis is needed there). -/
noncomputable section
namespace EaselModel.Dist.InvTotal
open Real EaselModel.Dist EaselModel.Dist.Gen EaselModel.Dist.Bisect EaselModel.Dist.BisectTotal EaselModel.Dist.MixGen
  EaselModel.Dist.GamSxpThm

/-- the discrepancy bound of `hxp_code_eq_textbook` -/
def hxpEps (h : ESL_HYPEREXP ℝ) : ℝ := 2.5e-17 * hxpQ h

/-- `esl_hxp_invcdf` (translated, on its translated cdf): for `p` strictly between `ε = 2.5e-17·Σq` and `Σq − ε`, with
    `d`, `q₋`, `q₊` the textbook quantiles of `(p−ε)/2`, `p − ε`, `p + ε`: ONE value `r` is returned for every
    `fuel ≥ fuelRight (q₊ − μ) (d − μ)`, and `q₋ − 1e-6 (r−μ) ≤ r ≤ q₊ + 1e-6 (r−μ)`. -/
theorem hxp_invcdf_total {h : ESL_HYPEREXP ℝ} (ok : HxpOK h) (hsome : ∃ k < h.K, 0 < hq h k) {p : ℝ}
    (hp0 : hxpEps h < p) (hp1 : p + hxpEps h < hxpQ h) :
    ∃ d qlo qhi r, (h.mu < d ∧ hxpCdf h d = (p - hxpEps h) / 2) ∧ (h.mu < qlo ∧ hxpCdf h qlo = p - hxpEps h) ∧
      (h.mu < qhi ∧ hxpCdf h qhi = p + hxpEps h) ∧
      (∀ fuel, fuelRight (qhi - h.mu) (d - h.mu) ≤ fuel → esl_hxp_invcdf fuel p h = some r) ∧
      qlo - 1e-6 * (r - h.mu) ≤ r ∧ r ≤ qhi + 1e-6 * (r - h.mu) ∧ h.mu ≤ r := by
  have hQ : 0 ≤ hxpQ h := Finset.sum_nonneg fun k hk => (ok k (Finset.mem_range.mp hk)).1
  have hε : 0 ≤ hxpEps h := by unfold hxpEps; positivity
  obtain ⟨d, ⟨hd, hFd⟩, _⟩ := HxpQuantile.hxp_quantile ok hsome (p := (p - hxpEps h) / 2) (by linarith) (by linarith)
  obtain ⟨qlo, ⟨hqlo, hFlo⟩, _⟩ := HxpQuantile.hxp_quantile ok hsome (p := p - hxpEps h) (by linarith) (by linarith)
  obtain ⟨qhi, ⟨hqhi, hFhi⟩, _⟩ := HxpQuantile.hxp_quantile ok hsome (p := p + hxpEps h) (by linarith) hp1
  have hclose : ∀ x, |(fun x => esl_hxp_cdf x h) x - hxpCdf h x| ≤ hxpEps h := fun x => (hxp_code_eq_textbook ok x).1
  obtain ⟨r, hr, hres⟩ := invcdfRight_total (cdf := fun x => esl_hxp_cdf x h) (F := hxpCdf h) (μ := h.mu) (p := p)
    (ε := hxpEps h) (δ := d - h.mu) (X := qhi) hclose (hxp_textbook_laws ok).1
    (by show esl_hxp_cdf h.mu h ≤ p; rw [hxp_cdf_at_mu]; linarith) (by linarith)
    (by rw [show h.mu + (d - h.mu) = d by ring, hFd]; linarith) hFhi.ge
  refine ⟨d, qlo, qhi, r, ⟨hd, hFd⟩, ⟨hqlo, hFlo⟩, ⟨hqhi, hFhi⟩, fun fuel hf => ?_, ?_⟩
  · rw [BisectReal.hxp_invcdf_real]; exact hr fuel hf
  · exact result_band hres (fun s t hs hst => HxpQuantile.hxpCdf_strictMono ok hsome hs hst) hqlo.le hFlo hqhi.le hFhi

/-! ## stretched exponential and gamma: conditional on one named fact about `esl_stats_IncompleteGamma` -/

/-- NAMED special-function hypothesis: the `P` that the algorithm of `esl_stats_IncompleteGamma` (hand model, read over `ℝ`)
    yields at shape `a` is within `δ` of the regularised lower incomplete gamma function (the integral `IncGammaInt.P`) for
    every argument `y > 0`. -/
def IncGammaPWithin (a δ : ℝ) : Prop := ∀ y, 0 < y → |Num.incGammaP a y - IncGammaInt.P a y| ≤ δ

theorem IncGammaPWithin.nonneg {a δ : ℝ} (h : IncGammaPWithin a δ) : 0 ≤ δ := (abs_nonneg _).trans (h 1 one_pos)

theorem gam_cdf_close {μ l τ δ : ℝ} (hl : 0 < l) (hτ : 0 < τ) (hIG : IncGammaPWithin τ δ) (x : ℝ) :
    |esl_gam_cdf x μ l τ - gamCdf μ l τ x| ≤ δ := by
  rcases le_or_gt x μ with hx | hx
  · have h0 : l * (x - μ) ≤ (0.0 : ℝ) := by
      have : l * (x - μ) ≤ 0 := mul_nonpos_of_nonneg_of_nonpos hl.le (by linarith)
      norm_num; exact this
    rw [Edge.gam_cdf_below h0, gamCdf, if_pos hx]; norm_num; exact hIG.nonneg
  · rw [(gam_code_vs_textbook hl hτ hx).2.1]; exact hIG _ (mul_pos hl (by linarith))

theorem sxp_cdf_close {μ l τ δ : ℝ} (hl : 0 < l) (hτ : 0 < τ) (hIG : IncGammaPWithin (1 / τ) δ) (x : ℝ) :
    |esl_sxp_cdf x μ l τ - sxpCdf μ l τ x| ≤ δ := by
  rcases le_or_gt x μ with hx | hx
  · rw [Edge.sxp_cdf_below hx, sxpCdf, if_pos hx]; norm_num; exact hIG.nonneg
  · rw [(sxp_code_vs_textbook hl hτ hx).2.1]; exact hIG _ (rpow_pos_of_pos (mul_pos hl (by linarith)) τ)

/-- `esl_sxp_invcdf` (translated, on its translated cdf), given `IncGammaPWithin (1/τ) ε`: with `d`, `q₋`, `q₊` the textbook
    quantiles of `(p−ε)/2`, `p−ε`, `p+ε` — ONE value for every `fuel ≥ fuelRight (q₊−μ) (d−μ)`, inside the six-digit band. -/
theorem sxp_invcdf_total {μ l τ p ε : ℝ} (hl : 0 < l) (hτ : 0 < τ) (hIG : IncGammaPWithin (1 / τ) ε) (hp0 : ε < p) (hp1 : p + ε < 1) :
    ∃ d qlo qhi r, (μ < d ∧ sxpCdf μ l τ d = (p - ε) / 2) ∧ (μ < qlo ∧ sxpCdf μ l τ qlo = p - ε) ∧
      (μ < qhi ∧ sxpCdf μ l τ qhi = p + ε) ∧
      (∀ fuel, fuelRight (qhi - μ) (d - μ) ≤ fuel → esl_sxp_invcdf fuel p μ l τ = some r) ∧
      qlo - 1e-6 * (r - μ) ≤ r ∧ r ≤ qhi + 1e-6 * (r - μ) ∧ μ ≤ r := by
  have hε := hIG.nonneg
  obtain ⟨d, ⟨hd, hFd⟩, _⟩ := QuantileThm.sxp_quantile (μ := μ) hl hτ (p := (p - ε) / 2) (by linarith) (by linarith)
  obtain ⟨qlo, ⟨hqlo, hFlo⟩, _⟩ := QuantileThm.sxp_quantile (μ := μ) hl hτ (p := p - ε) (by linarith) (by linarith)
  obtain ⟨qhi, ⟨hqhi, hFhi⟩, _⟩ := QuantileThm.sxp_quantile (μ := μ) hl hτ (p := p + ε) (by linarith) hp1
  obtain ⟨r, hr, hres⟩ := invcdfRight_total (cdf := fun x => esl_sxp_cdf x μ l τ) (F := sxpCdf μ l τ) (μ := μ) (p := p)
    (ε := ε) (δ := d - μ) (X := qhi) (sxp_cdf_close hl hτ hIG) (sxpCdf_mono hl hτ μ)
    (by show esl_sxp_cdf μ μ l τ ≤ p; rw [Edge.sxp_cdf_below (le_refl μ)]; norm_num; linarith) (by linarith)
    (by rw [show μ + (d - μ) = d by ring, hFd]; linarith) hFhi.ge
  refine ⟨d, qlo, qhi, r, ⟨hd, hFd⟩, ⟨hqlo, hFlo⟩, ⟨hqhi, hFhi⟩, fun fuel hf => ?_, ?_⟩
  · rw [BisectGen.sxp_invcdf]; exact hr fuel hf
  · exact result_band hres (fun s t hs hst => QuantileThm.sxpCdf_strictMonoOn hl hτ hs hst) hqlo.le hFlo hqhi.le hFhi

/-- `esl_gam_invcdf` (translated, on its translated cdf), given `IncGammaPWithin τ ε`: ONE value for every
    `fuel ≥ fuelGam (q₊−μ) (d−μ) (τ/λ)`, inside the six-digit band around the textbook quantiles of `p ∓ ε`. -/
theorem gam_invcdf_total {μ l τ p ε : ℝ} (hl : 0 < l) (hτ : 0 < τ) (hIG : IncGammaPWithin τ ε) (hp0 : ε < p) (hp1 : p + ε < 1) :
    ∃ d qlo qhi r, (μ < d ∧ gamCdf μ l τ d = (p - ε) / 2) ∧ (μ < qlo ∧ gamCdf μ l τ qlo = p - ε) ∧
      (μ < qhi ∧ gamCdf μ l τ qhi = p + ε) ∧
      (∀ fuel, fuelGam (qhi - μ) (d - μ) (τ / l) ≤ fuel → esl_gam_invcdf fuel p μ l τ = some r) ∧
      qlo - 1e-6 * (r - μ) ≤ r ∧ r ≤ qhi + 1e-6 * (r - μ) ∧ μ ≤ r := by
  have hε := hIG.nonneg
  obtain ⟨d, ⟨hd, hFd⟩, _⟩ := QuantileThm.gam_quantile (μ := μ) hl hτ (p := (p - ε) / 2) (by linarith) (by linarith)
  obtain ⟨qlo, ⟨hqlo, hFlo⟩, _⟩ := QuantileThm.gam_quantile (μ := μ) hl hτ (p := p - ε) (by linarith) (by linarith)
  obtain ⟨qhi, ⟨hqhi, hFhi⟩, _⟩ := QuantileThm.gam_quantile (μ := μ) hl hτ (p := p + ε) (by linarith) hp1
  obtain ⟨r, hr, hres⟩ := invcdfGam_total (cdf := fun x => esl_gam_cdf x μ l τ) (F := gamCdf μ l τ) (μ := μ) (l := l) (t := τ) (p := p)
    (ε := ε) (δ := d - μ) (X := qhi) (gam_cdf_close hl hτ hIG) (gamCdf_mono hl hτ μ)
    (by show esl_gam_cdf μ μ l τ ≤ p; rw [Edge.gam_cdf_below (by simp)]; norm_num; linarith) (div_pos hτ hl) (by linarith)
    (by rw [show μ + (d - μ) = d by ring, hFd]; linarith) hFhi.ge
  refine ⟨d, qlo, qhi, r, ⟨hd, hFd⟩, ⟨hqlo, hFlo⟩, ⟨hqhi, hFhi⟩, fun fuel hf => ?_, ?_⟩
  · rw [BisectGen.gam_invcdf]; exact hr fuel hf
  · exact result_band hres (fun s t hs hst => QuantileThm.gamCdf_strictMonoOn hl hτ hs hst) hqlo.le hFlo hqhi.le hFhi

/-- `esl_mixgev_invcdf` (translated, on its translated cdf): given a point `XL` left of which the cdf is `≤ p` and a point
    `XR` right of which it is `≥ p`, ONE value for every `fuel ≥ fuelMix (m − XL) (XR − m)` (`m = min μ_k`), the midpoint of
    a final bracket `[a, b]`, `cdf a ≤ p ≤ cdf b`, `b − a ≤ 1e-6 (|a| + |b| + 1e-9)`. -/
theorem mixgev_invcdf_total (mg : ESL_MIXGEV ℝ) {p XL XR : ℝ} (hL : ∀ x, x ≤ XL → esl_mixgev_cdf x mg ≤ p)
    (hR : ∀ x, XR ≤ x → p ≤ esl_mixgev_cdf x mg) :
    ∃ r, (∀ fuel, fuelMix (esl_vec_DMin mg.mu mg.K - XL) (XR - esl_vec_DMin mg.mu mg.K) ≤ fuel → esl_mixgev_invcdf fuel p mg = some r) ∧
      ∃ a b, a ≤ b ∧ r = (a + b) / 2 ∧ esl_mixgev_cdf a mg ≤ p ∧ p ≤ esl_mixgev_cdf b mg ∧ b - a ≤ 1e-6 * ((|a| + |b|) + 1e-9) := by
  obtain ⟨r, hr, x1, x2, a, b, _, hab, _, hca, hcb, hrm, hw⟩ := invcdfMix_total (cdf := fun x => esl_mixgev_cdf x mg) (p := p)
    (m := esl_vec_DMin mg.mu mg.K) hL hR
  exact ⟨r, fun fuel hf => by rw [BisectGen.mixgev_invcdf]; exact hr fuel hf, a, b, hab, hrm, hca, hcb, hw⟩

end EaselModel.Dist.InvTotal
