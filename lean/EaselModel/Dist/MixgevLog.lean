import EaselModel.Dist.MixLogClose
/-! Log versions of the TRANSLATED mixture of GEVs (`esl_mixgev_logpdf`, `_logcdf`, `_logsurv`): the loop stores
    `log q_k + esl_gev_log*(x; μ_k, λ_k, α_k)` into `mg->wrk`, `esl_vec_DLogSum` sums.  At every `x` in all components'
    GEV branch and inside all supports, with positive coefficients whose stored terms lie in the 500-window:
    `logcdf = log cdf` and `logpdf = log pdf` of the textbook mixture exactly, `logsurv` within `3e-8` of `log surv`. -/
noncomputable section
namespace EaselModel.Dist.MixgevLog
open Real Finset EaselModel.Dist EaselModel.Dist.Gen EaselModel.Dist.Spec EaselModel.Dist.MixGen EaselModel.Dist.MixLogGen

/-- what the loop body stores for component `k` -/
def entryG (g : ESL_MIXGEV ℝ) (f : ℕ → ℝ) (k : ℕ) : ℝ :=
  if gq g k = 0 then -(Num.inf : ℝ) else log (gq g k) + f k

theorem fold_struct_g (g : ESL_MIXGEV ℝ) (F : ℝ → ℝ → ℝ → ℝ) (n : ℕ) :
    (List.range n).foldl (fun (mg : ESL_MIXGEV ℝ) k =>
        if (Num.eqb (mg.q.getD k 0.0) (0.0) = true) then { mg with wrk := mg.wrk.set k (-Num.inf) }
        else { mg with wrk := mg.wrk.set k ((Num.log (mg.q.getD k 0.0)) +
          F (mg.mu.getD k 0.0) (mg.lambda.getD k 0.0) (mg.alpha.getD k 0.0)) }) g =
      { g with wrk := (List.range n).foldl (fun w k => w.set k (entryG g (fun k => F (gm g k) (gl g k) (ga g k)) k)) g.wrk } := by
  induction n with
  | zero => rfl
  | succ n ih =>
    rw [List.range_succ, List.foldl_append, List.foldl_append, ih]
    simp only [List.foldl_cons, List.foldl_nil, entryG, gq, gm, gl, ga, num_eqb, num_log, lit_zero]
    split_ifs <;> rfl

theorem set_set_getD (w : List ℝ) (n : ℕ) (a b : ℝ) (h : n < w.length) :
    (w.set n a).set n ((w.set n a).getD n 0 + b) = w.set n (a + b) := by
  rw [List.set_set]; congr 1
  rw [List.getD_eq_getElem?_getD, List.getElem?_set_self h]; rfl

/-- the loop of `esl_mixgev_logsurv` (`wrk[k] = log q[k]; wrk[k] += …;`, no `q == 0` test): the same stored vector, provided
    the scratch vector really has `K` slots (the read-back `wrk[k]` must see the value just written) and `q_k ≠ 0` -/
theorem fold_struct_g2 (g : ESL_MIXGEV ℝ) (F : ℝ → ℝ → ℝ → ℝ) : ∀ n, n ≤ g.wrk.length → (∀ k < n, gq g k ≠ 0) →
    (List.range n).foldl (fun (mg : ESL_MIXGEV ℝ) k =>
        { mg with wrk := (mg.wrk.set k (Num.log (mg.q.getD k 0.0))).set k ((mg.wrk.set k (Num.log (mg.q.getD k 0.0))).getD k 0.0 + F (mg.mu.getD k 0.0) (mg.lambda.getD k 0.0) (mg.alpha.getD k 0.0)) }) g =
      { g with wrk := (List.range n).foldl (fun w k => w.set k (entryG g (fun k => F (gm g k) (gl g k) (ga g k)) k)) g.wrk } := by
  intro n
  induction n with
  | zero => intro _ _; rfl
  | succ n ih =>
    intro hn hq
    rw [List.range_succ, List.foldl_append, List.foldl_append, ih (by omega) (fun k hk => hq k (by omega))]
    simp only [List.foldl_cons, List.foldl_nil, entryG, gq, gm, gl, ga, num_log, lit_zero]
    have hlen := fold_set_length (entryG g (fun k => F (gm g k) (gl g k) (ga g k))) n g.wrk
    have hq' : ¬ g.q.getD n 0 = 0 := hq n (by omega)
    rw [if_neg hq']
    simp only [entryG, gq, gm, gl, ga] at hlen
    revert hlen
    generalize List.foldl (fun w k => w.set k (if g.q.getD k 0 = 0 then -(Num.inf : ℝ) else
      log (g.q.getD k 0) + F (g.mu.getD k 0) (g.lambda.getD k 0) (g.alpha.getD k 0))) g.wrk (List.range n) = W
    intro hlen
    rw [set_set_getD W n _ _ (by omega)]

/-- loop + `esl_vec_DLogSum` = `log Σ q_k e^{c_k}` -/
theorem mixgev_lsum (g : ESL_MIXGEV ℝ) (c : ℕ → ℝ) (hK : 1 ≤ g.K) (hw : g.K ≤ g.wrk.length)
    (hpos : ∀ k < g.K, 0 < gq g k) (hfin : ∀ k < g.K, entryG g c k ≠ (Num.inf : ℝ))
    (hwin : ∀ i < g.K, ∀ j < g.K, entryG g c j - 500 < entryG g c i) :
    esl_vec_DLogSum ({ g with wrk := (List.range g.K).foldl (fun w k => w.set k (entryG g c k)) g.wrk } : ESL_MIXGEV ℝ).wrk g.K =
      log (∑ k ∈ range g.K, gq g k * exp (c k)) := by
  set w := (List.range g.K).foldl (fun w k => w.set k (entryG g c k)) g.wrk with hwdef
  have hget : ∀ i < g.K, w.getD i 0 = entryG g c i := fold_set_getD (entryG g c) g.wrk g.K hw
  obtain ⟨⟨_, j, hj, hmax⟩, _⟩ := vec_dmax_dmin w hK
  rw [hget j hj] at hmax
  rw [vec_dlogsum w hK (by rw [hmax]; exact hfin j hj) (fun i hi => by rw [hmax, hget i hi]; exact hwin i hi j hj)]
  congr 1
  refine sum_congr rfl fun k hk => ?_
  have h1 := hpos k (mem_range.mp hk)
  rw [hget k (mem_range.mp hk), entryG, if_neg (ne_of_gt h1), exp_add, exp_log h1]

/-- hypotheses shared by the three statements: all components in their GEV branch and `x` inside every support,
    coefficients and scales positive -/
structure Inside (g : ESL_MIXGEV ℝ) (x : ℝ) : Prop where
  K1 : 1 ≤ g.K
  wrk : g.K ≤ g.wrk.length
  pos : ∀ k < g.K, 0 < gq g k ∧ 0 < gl g k
  branch : GevBranch g x
  supp : ∀ k < g.K, 0 < gevArg (gm g k) (gl g k) (ga g k) x

theorem gevCdf_pos_in {μ l α x : ℝ} (h : 0 < gevArg μ l α x) : 0 < gevCdf μ l α x := by
  unfold gevCdf; rw [if_neg (not_le.mpr h)]; exact exp_pos _
theorem gevPdf_pos_in {μ l α x : ℝ} (hl : 0 < l) (h : 0 < gevArg μ l α x) : 0 < gevPdf μ l α x := by
  unfold gevPdf; rw [if_neg (not_le.mpr h)]; exact mul_pos hl (exp_pos _)
theorem gevSurv_pos_in {μ l α x : ℝ} (h : 0 < gevArg μ l α x) : 0 < gevSurv μ l α x := by
  unfold gevSurv gevCdf; rw [if_neg (not_le.mpr h)]
  have : exp (-exp (-(log (gevArg μ l α x) / α))) < 1 := by rw [exp_lt_one_iff]; have := exp_pos (-(log (gevArg μ l α x) / α)); linarith
  linarith

theorem mixgev_logcdf_close {g : ESL_MIXGEV ℝ} {x : ℝ} (hi : Inside g x)
    (hfin : ∀ k < g.K, entryG g (fun k => esl_gev_logcdf x (gm g k) (gl g k) (ga g k)) k ≠ (Num.inf : ℝ))
    (hwin : ∀ i < g.K, ∀ j < g.K, entryG g (fun k => esl_gev_logcdf x (gm g k) (gl g k) (ga g k)) j - 500 <
      entryG g (fun k => esl_gev_logcdf x (gm g k) (gl g k) (ga g k)) i) :
    esl_mixgev_logcdf x g = log (mixgevCdf g x) := by
  simp only [esl_mixgev_logcdf]
  rw [fold_struct_g g (fun m l a => esl_gev_logcdf x m l a) g.K,
    mixgev_lsum g _ hi.K1 hi.wrk (fun k hk => (hi.pos k hk).1) hfin hwin]
  unfold mixgevCdf
  congr 1
  refine sum_congr rfl fun k hk => ?_
  have hk' := mem_range.mp hk
  show gq g k * exp (esl_gev_logcdf x (gm g k) (gl g k) (ga g k)) = _
  rw [GevThm.code_logcdf (hi.branch k hk') (hi.supp k hk'), exp_log (gevCdf_pos_in (hi.supp k hk'))]

theorem mixgev_logpdf_close {g : ESL_MIXGEV ℝ} {x : ℝ} (hi : Inside g x)
    (hfin : ∀ k < g.K, entryG g (fun k => esl_gev_logpdf x (gm g k) (gl g k) (ga g k)) k ≠ (Num.inf : ℝ))
    (hwin : ∀ i < g.K, ∀ j < g.K, entryG g (fun k => esl_gev_logpdf x (gm g k) (gl g k) (ga g k)) j - 500 <
      entryG g (fun k => esl_gev_logpdf x (gm g k) (gl g k) (ga g k)) i) :
    esl_mixgev_logpdf x g = log (mixgevPdf g x) := by
  simp only [esl_mixgev_logpdf]
  rw [fold_struct_g g (fun m l a => esl_gev_logpdf x m l a) g.K,
    mixgev_lsum g _ hi.K1 hi.wrk (fun k hk => (hi.pos k hk).1) hfin hwin]
  unfold mixgevPdf
  congr 1
  refine sum_congr rfl fun k hk => ?_
  have hk' := mem_range.mp hk
  show gq g k * exp (esl_gev_logpdf x (gm g k) (gl g k) (ga g k)) = _
  rw [GevThm.code_logpdf (hi.pos k hk').2 (hi.branch k hk') (hi.supp k hk'), exp_log (gevPdf_pos_in (hi.pos k hk').2 (hi.supp k hk'))]

theorem mixgev_logsurv_close {g : ESL_MIXGEV ℝ} {x : ℝ} (hi : Inside g x)
    (hfin : ∀ k < g.K, entryG g (fun k => esl_gev_logsurv x (gm g k) (gl g k) (ga g k)) k ≠ (Num.inf : ℝ))
    (hwin : ∀ i < g.K, ∀ j < g.K, entryG g (fun k => esl_gev_logsurv x (gm g k) (gl g k) (ga g k)) j - 500 <
      entryG g (fun k => esl_gev_logsurv x (gm g k) (gl g k) (ga g k)) i) :
    |esl_mixgev_logsurv x g - log (mixgevSurv g x)| ≤ 3e-8 := by
  simp only [esl_mixgev_logsurv]
  rw [fold_struct_g2 g (fun m l a => esl_gev_logsurv x m l a) g.K hi.wrk (fun k hk => ne_of_gt (hi.pos k hk).1),
    mixgev_lsum g _ hi.K1 hi.wrk (fun k hk => (hi.pos k hk).1) hfin hwin]
  unfold mixgevSurv
  exact MixLogClose.log_wsum_close g.K hi.K1 (gq g) _ (fun k => gevSurv (gm g k) (gl g k) (ga g k) x) 3e-8
    (fun k hk => (hi.pos k hk).1) (fun k hk => gevSurv_pos_in (hi.supp k hk))
    (fun k hk => GevThm.code_logsurv (hi.branch k hk) (hi.supp k hk))

end EaselModel.Dist.MixgevLog
