import EaselModel.Dist.MixGen
import EaselModel.Dist.MixLogGen
import EaselModel.Dist.MixgevLog
import EaselModel.Dist.MixLogClose
/-! Round 6: `esl_vec_DLogSum` for EVERY vector (no window hypothesis).  The code adds `exp (v_i − max)` only for the
    entries inside the 500-window below the maximum; the dropped terms are each at most `e^{-500}` (relative to the largest
    term, which is always inside), so the result is below `log Σ exp v_i` by at most `n · e^{-500}`. -/
noncomputable section
namespace EaselModel.Dist.DLogSumAll
open Real Finset EaselModel.Dist EaselModel.Dist.Gen EaselModel.Dist.MixGen

/-- the fold of the translated loop is the filtered sum -/
theorem fold_filter (v : ℕ → ℝ) (m : ℝ) (n : ℕ) (a : ℝ) :
    (List.range n).foldl (fun s i => if m - 500 < v i then s + exp (v i - m) else s) a =
      a + ∑ i ∈ range n, (if m - 500 < v i then exp (v i - m) else 0) := by
  induction n with
  | zero => simp
  | succ n ih =>
    rw [List.range_succ, List.foldl_append, ih, sum_range_succ]
    simp only [List.foldl_cons, List.foldl_nil]
    split_ifs <;> ring

theorem dlogsum_bound (vec : List ℝ) {n : ℕ} (hn : 1 ≤ n) (hfin : esl_vec_DMax vec n ≠ (Num.inf : ℝ)) :
    esl_vec_DLogSum vec n ≤ log (∑ i ∈ range n, exp (vec.getD i 0)) ∧
      log (∑ i ∈ range n, exp (vec.getD i 0)) ≤ esl_vec_DLogSum vec n + n * exp (-500) := by
  obtain ⟨⟨hmax, j, hj, hjm⟩, _⟩ := vec_dmax_dmin vec hn
  set M := esl_vec_DMax vec n with hM
  set v : ℕ → ℝ := fun i => vec.getD i 0 with hv
  -- inside / outside sums, relative to the maximum
  set Sin := ∑ i ∈ range n, (if M - 500 < v i then exp (v i - M) else 0) with hSin
  set Sout := ∑ i ∈ range n, (if M - 500 < v i then 0 else exp (v i - M)) with hSout
  have hsplit : ∑ i ∈ range n, exp (v i - M) = Sin + Sout := by
    rw [hSin, hSout, ← sum_add_distrib]
    refine sum_congr rfl fun i _ => ?_
    split_ifs <;> ring
  have hSin1 : 1 ≤ Sin := by
    have hterm : (if M - 500 < v j then exp (v j - M) else 0) = 1 := by
      have : v j = M := hjm.symm
      rw [this, if_pos (by linarith), sub_self, exp_zero]
    calc (1 : ℝ) = (if M - 500 < v j then exp (v j - M) else 0) := hterm.symm
      _ ≤ Sin := single_le_sum (f := fun i => if M - 500 < v i then exp (v i - M) else 0)
          (fun i _ => by positivity) (mem_range.mpr hj)
  have hSout0 : 0 ≤ Sout := sum_nonneg fun i _ => by positivity
  have hSoutN : Sout ≤ n * exp (-500) := by
    have : ∀ i ∈ range n, (if M - 500 < v i then 0 else exp (v i - M)) ≤ exp (-500) := by
      intro i _
      split_ifs with h
      · positivity
      · exact exp_le_exp.mpr (by linarith [not_lt.mp h])
    calc Sout ≤ ∑ _i ∈ range n, exp (-500) := sum_le_sum this
      _ = n * exp (-500) := by simp
  have htot : ∑ i ∈ range n, exp (v i) = exp M * (Sin + Sout) := by
    rw [← hsplit, mul_sum]
    refine sum_congr rfl fun i _ => ?_
    rw [← exp_add]; congr 1; ring
  have hcode : esl_vec_DLogSum vec n = log Sin + M := by
    simp only [esl_vec_DLogSum, num_eqb, num_exp, num_log, lit_zero, lit_500]
    rw [if_neg hfin, fold_filter (fun i => vec.getD i 0) _ n 0, zero_add]
  have hSinpos : 0 < Sin := by linarith
  rw [hcode, htot, log_mul (exp_ne_zero _) (by positivity), log_exp]
  constructor
  · have := log_le_log hSinpos (by linarith : Sin ≤ Sin + Sout)
    linarith
  · have h1 : log (Sin + Sout) ≤ log Sin + Sout := by
      have e : Sin + Sout = Sin * (1 + Sout / Sin) := by field_simp
      rw [e, log_mul (ne_of_gt hSinpos) (by positivity)]
      have h2 : log (1 + Sout / Sin) ≤ Sout / Sin := by
        have := log_le_sub_one_of_pos (show 0 < 1 + Sout / Sin by positivity)
        linarith
      have h3 : Sout / Sin ≤ Sout := div_le_self hSout0 hSin1
      linarith
    linarith

end EaselModel.Dist.DLogSumAll

namespace EaselModel.Dist.DLogSumAll
open Real Finset EaselModel.Dist EaselModel.Dist.Gen EaselModel.Dist.Spec EaselModel.Dist.MixGen EaselModel.Dist.MixLogGen

/-- the loop + `esl_vec_DLogSum`, NO window hypothesis: within `K·e^{-500}` below `log Σ_k q_k g_k` -/
theorem hxp_lsum_all (h : ESL_HYPEREXP ℝ) (f g : ℝ → ℝ) (hK : 1 ≤ h.K) (hw : h.K ≤ h.wrk.length)
    (hpos : ∀ k < h.K, 0 < hq h k ∧ 0 < g (hl h k) ∧ f (hl h k) = log (g (hl h k)))
    (hfin : ∀ k < h.K, entry h f k ≠ (Num.inf : ℝ)) :
    esl_vec_DLogSum ({ h with wrk := (List.range h.K).foldl (fun w k => w.set k (entry h f k)) h.wrk } : ESL_HYPEREXP ℝ).wrk h.K ≤
        log (∑ k ∈ range h.K, hq h k * g (hl h k)) ∧
      log (∑ k ∈ range h.K, hq h k * g (hl h k)) ≤
        esl_vec_DLogSum ({ h with wrk := (List.range h.K).foldl (fun w k => w.set k (entry h f k)) h.wrk } : ESL_HYPEREXP ℝ).wrk h.K +
          h.K * exp (-500) := by
  set w := (List.range h.K).foldl (fun w k => w.set k (entry h f k)) h.wrk with hwdef
  have hget : ∀ i < h.K, w.getD i 0 = entry h f i := fold_set_getD (entry h f) h.wrk h.K hw
  obtain ⟨⟨_, j, hj, hmax⟩, _⟩ := vec_dmax_dmin w hK
  rw [hget j hj] at hmax
  have hb := dlogsum_bound w hK (by rw [hmax]; exact hfin j hj)
  have e : ∑ i ∈ range h.K, exp (w.getD i 0) = ∑ k ∈ range h.K, hq h k * g (hl h k) := by
    refine sum_congr rfl fun k hk => ?_
    obtain ⟨h1, h2, h3⟩ := hpos k (mem_range.mp hk)
    rw [hget k (mem_range.mp hk), entry, if_neg (ne_of_gt h1), h3, exp_add, exp_log h1, exp_log h2]
  rw [e] at hb
  exact hb

/-- `esl_hxp_logsurv` vs `log esl_hxp_surv` on `x ≥ μ` for positive coefficients, EVERY spread of the rates -/
theorem hxp_logsurv_all {h : ESL_HYPEREXP ℝ} {x : ℝ} (hx : h.mu ≤ x) (hK : 1 ≤ h.K) (hw : h.K ≤ h.wrk.length)
    (hpos : ∀ k < h.K, 0 < hq h k)
    (hfin : ∀ k < h.K, entry h (fun l => esl_exp_logsurv x h.mu l) k ≠ (Num.inf : ℝ)) :
    esl_hxp_logsurv x h ≤ log (esl_hxp_surv x h) ∧ log (esl_hxp_surv x h) ≤ esl_hxp_logsurv x h + h.K * exp (-500) := by
  rw [hxp_surv_sum, if_neg (not_lt.mpr hx)]
  simp only [esl_hxp_logsurv]
  rw [if_neg (not_lt.mpr hx), fold_struct h (fun m l => esl_exp_logsurv x m l) h.K]
  refine hxp_lsum_all h _ (fun l => esl_exp_surv x h.mu l) hK hw (fun k hk => ⟨hpos k hk, ?_, ?_⟩) hfin
  · rw [ExpThm.code_surv]; unfold expSurv; rw [if_neg (not_lt.mpr hx)]; exact exp_pos _
  · show esl_exp_logsurv x h.mu (hl h k) = log (esl_exp_surv x h.mu (hl h k)); rw [ExpThm.code_logsurv hx, ExpThm.code_surv]

theorem hxp_logpdf_all {h : ESL_HYPEREXP ℝ} {x : ℝ} (hx : h.mu ≤ x) (hK : 1 ≤ h.K) (hw : h.K ≤ h.wrk.length)
    (hpos : ∀ k < h.K, 0 < hq h k ∧ 0 < hl h k ∧ hl h k ≠ (Num.inf : ℝ))
    (hfin : ∀ k < h.K, entry h (fun l => esl_exp_logpdf x h.mu l) k ≠ (Num.inf : ℝ)) :
    esl_hxp_logpdf x h ≤ log (esl_hxp_pdf x h) ∧ log (esl_hxp_pdf x h) ≤ esl_hxp_logpdf x h + h.K * exp (-500) := by
  rw [hxp_pdf_sum, if_neg (not_lt.mpr hx)]
  simp only [esl_hxp_logpdf]
  rw [if_neg (not_lt.mpr hx), fold_struct h (fun m l => esl_exp_logpdf x m l) h.K]
  refine hxp_lsum_all h _ (fun l => esl_exp_pdf x h.mu l) hK hw (fun k hk => ⟨(hpos k hk).1, ?_, ?_⟩) hfin
  · rw [ExpThm.code_pdf]; unfold expPdf; rw [if_neg (not_lt.mpr hx)]; exact mul_pos (hpos k hk).2.1 (exp_pos _)
  · show esl_exp_logpdf x h.mu (hl h k) = log (esl_exp_pdf x h.mu (hl h k)); rw [ExpThm.code_logpdf (hpos k hk).2.1 (hpos k hk).2.2 hx, ExpThm.code_pdf]

end EaselModel.Dist.DLogSumAll

namespace EaselModel.Dist.DLogSumAll
open Real Finset EaselModel.Dist EaselModel.Dist.Gen EaselModel.Dist.Spec EaselModel.Dist.MixGen EaselModel.Dist.MixLogGen
  EaselModel.Dist.MixgevLog

/-- GEV mixture: loop + `esl_vec_DLogSum`, NO window hypothesis -/
theorem mixgev_lsum_all (g : ESL_MIXGEV ℝ) (c : ℕ → ℝ) (hK : 1 ≤ g.K) (hw : g.K ≤ g.wrk.length)
    (hpos : ∀ k < g.K, 0 < gq g k) (hfin : ∀ k < g.K, entryG g c k ≠ (Num.inf : ℝ)) :
    esl_vec_DLogSum ({ g with wrk := (List.range g.K).foldl (fun w k => w.set k (entryG g c k)) g.wrk } : ESL_MIXGEV ℝ).wrk g.K ≤
        log (∑ k ∈ range g.K, gq g k * exp (c k)) ∧
      log (∑ k ∈ range g.K, gq g k * exp (c k)) ≤
        esl_vec_DLogSum ({ g with wrk := (List.range g.K).foldl (fun w k => w.set k (entryG g c k)) g.wrk } : ESL_MIXGEV ℝ).wrk g.K +
          g.K * exp (-500) := by
  set w := (List.range g.K).foldl (fun w k => w.set k (entryG g c k)) g.wrk with hwdef
  have hget : ∀ i < g.K, w.getD i 0 = entryG g c i := fold_set_getD (entryG g c) g.wrk g.K hw
  obtain ⟨⟨_, j, hj, hmax⟩, _⟩ := vec_dmax_dmin w hK
  rw [hget j hj] at hmax
  have hb := dlogsum_bound w hK (by rw [hmax]; exact hfin j hj)
  have e : ∑ i ∈ range g.K, exp (w.getD i 0) = ∑ k ∈ range g.K, gq g k * exp (c k) := by
    refine sum_congr rfl fun k hk => ?_
    have h1 := hpos k (mem_range.mp hk)
    rw [hget k (mem_range.mp hk), entryG, if_neg (ne_of_gt h1), exp_add, exp_log h1]
  rw [e] at hb
  exact hb

/-- `esl_mixgev_logcdf` / `esl_mixgev_logpdf` within `K e^{-500}` below the logarithm of the textbook mixture, and
    `esl_mixgev_logsurv` within `3e-8 + K e^{-500}` of it, for EVERY spread of the stored log-terms -/
theorem mixgev_log_all {g : ESL_MIXGEV ℝ} {x : ℝ} (hi : Inside g x) :
    ((∀ k < g.K, entryG g (fun k => esl_gev_logcdf x (gm g k) (gl g k) (ga g k)) k ≠ (Num.inf : ℝ)) →
      esl_mixgev_logcdf x g ≤ log (mixgevCdf g x) ∧ log (mixgevCdf g x) ≤ esl_mixgev_logcdf x g + g.K * exp (-500)) ∧
    ((∀ k < g.K, entryG g (fun k => esl_gev_logpdf x (gm g k) (gl g k) (ga g k)) k ≠ (Num.inf : ℝ)) →
      esl_mixgev_logpdf x g ≤ log (mixgevPdf g x) ∧ log (mixgevPdf g x) ≤ esl_mixgev_logpdf x g + g.K * exp (-500)) ∧
    ((∀ k < g.K, entryG g (fun k => esl_gev_logsurv x (gm g k) (gl g k) (ga g k)) k ≠ (Num.inf : ℝ)) →
      |esl_mixgev_logsurv x g - log (mixgevSurv g x)| ≤ 3e-8 + g.K * exp (-500)) := by
  refine ⟨fun hfin => ?_, fun hfin => ?_, fun hfin => ?_⟩
  · simp only [esl_mixgev_logcdf]
    rw [fold_struct_g g (fun m l a => esl_gev_logcdf x m l a) g.K]
    have hb := mixgev_lsum_all g _ hi.K1 hi.wrk (fun k hk => (hi.pos k hk).1) hfin
    have e : ∑ k ∈ range g.K, gq g k * exp (esl_gev_logcdf x (gm g k) (gl g k) (ga g k)) = mixgevCdf g x := by
      unfold mixgevCdf
      refine sum_congr rfl fun k hk => ?_
      have hk' := mem_range.mp hk
      rw [GevThm.code_logcdf (hi.branch k hk') (hi.supp k hk'), exp_log (gevCdf_pos_in (hi.supp k hk'))]
    rw [e] at hb; exact hb
  · simp only [esl_mixgev_logpdf]
    rw [fold_struct_g g (fun m l a => esl_gev_logpdf x m l a) g.K]
    have hb := mixgev_lsum_all g _ hi.K1 hi.wrk (fun k hk => (hi.pos k hk).1) hfin
    have e : ∑ k ∈ range g.K, gq g k * exp (esl_gev_logpdf x (gm g k) (gl g k) (ga g k)) = mixgevPdf g x := by
      unfold mixgevPdf
      refine sum_congr rfl fun k hk => ?_
      have hk' := mem_range.mp hk
      rw [GevThm.code_logpdf (hi.pos k hk').2 (hi.branch k hk') (hi.supp k hk'), exp_log (gevPdf_pos_in (hi.pos k hk').2 (hi.supp k hk'))]
    rw [e] at hb; exact hb
  · simp only [esl_mixgev_logsurv]
    rw [fold_struct_g2 g (fun m l a => esl_gev_logsurv x m l a) g.K hi.wrk (fun k hk => ne_of_gt (hi.pos k hk).1)]
    have hb := mixgev_lsum_all g (fun k => esl_gev_logsurv x (gm g k) (gl g k) (ga g k)) hi.K1 hi.wrk (fun k hk => (hi.pos k hk).1) hfin
    have hc := MixLogClose.log_wsum_close g.K hi.K1 (gq g) (fun k => esl_gev_logsurv x (gm g k) (gl g k) (ga g k))
      (fun k => gevSurv (gm g k) (gl g k) (ga g k) x) 3e-8
      (fun k hk => (hi.pos k hk).1) (fun k hk => gevSurv_pos_in (hi.supp k hk))
      (fun k hk => GevThm.code_logsurv (hi.branch k hk) (hi.supp k hk))
    unfold mixgevSurv
    have hK0 : (0 : ℝ) ≤ g.K * exp (-500) := by positivity
    rw [abs_le] at hc ⊢
    constructor <;> linarith [hb.1, hb.2, hc.1, hc.2]

end EaselModel.Dist.DLogSumAll

namespace EaselModel.Dist.DLogSumAll
open Real Finset EaselModel.Dist EaselModel.Dist.Gen EaselModel.Dist.Spec EaselModel.Dist.MixGen EaselModel.Dist.MixLogGen

/-- `esl_hxp_logcdf` against the logarithm of the TEXTBOOK mixture cdf on `x > μ`, every spread of the rates: the components'
    `1e-8` (their `eslSMALLX1` switches) plus what the window drops -/
theorem hxp_logcdf_all {h : ESL_HYPEREXP ℝ} {x : ℝ} (hx : h.mu < x) (hK : 1 ≤ h.K) (hw : h.K ≤ h.wrk.length)
    (hpos : ∀ k < h.K, 0 < hq h k ∧ 0 < hl h k)
    (hfin : ∀ k < h.K, entry h (fun l => esl_exp_logcdf x h.mu l) k ≠ (Num.inf : ℝ)) :
    |esl_hxp_logcdf x h - log (hxpCdf h x)| ≤ 1e-8 + h.K * exp (-500) := by
  have hb : esl_hxp_logcdf x h ≤ log (∑ k ∈ range h.K, hq h k * exp (esl_exp_logcdf x h.mu (hl h k))) ∧
      log (∑ k ∈ range h.K, hq h k * exp (esl_exp_logcdf x h.mu (hl h k))) ≤ esl_hxp_logcdf x h + h.K * exp (-500) := by
    simp only [esl_hxp_logcdf]
    rw [if_neg (not_lt.mpr hx.le), fold_struct h (fun m l => esl_exp_logcdf x m l) h.K]
    exact hxp_lsum_all h _ (fun l => exp (esl_exp_logcdf x h.mu l)) hK hw
      (fun k hk => ⟨(hpos k hk).1, exp_pos _, (log_exp _).symm⟩) hfin
  have hc : |log (∑ k ∈ range h.K, hq h k * exp (esl_exp_logcdf x h.mu (hl h k))) - log (hxpCdf h x)| ≤ 1e-8 := by
    unfold hxpCdf
    refine MixLogClose.log_wsum_close h.K hK (hq h) (fun k => esl_exp_logcdf x h.mu (hl h k)) (fun k => expCdf h.mu (hl h k) x) 1e-8
      (fun k hk => (hpos k hk).1) (fun k hk => ?_) (fun k hk => ExpThm.code_logcdf (hpos k hk).2 hx)
    unfold expCdf
    rw [if_neg (not_lt.mpr hx.le)]
    have : exp (-(hl h k * (x - h.mu))) < 1 := by
      rw [exp_lt_one_iff]; have := mul_pos (hpos k hk).2 (sub_pos.mpr hx); linarith
    linarith
  have hK0 : (0 : ℝ) ≤ h.K * exp (-500) := by positivity
  rw [abs_le] at hc ⊢
  constructor <;> linarith [hb.1, hb.2, hc.1, hc.2]

end EaselModel.Dist.DLogSumAll
