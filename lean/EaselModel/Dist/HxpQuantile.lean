import EaselModel.Dist.MixGen
import EaselModel.Dist.BisectTerm
/-! Hyperexponential, "the inverse cdf inverts the cdf" at L2, any `K`: with rates `> 0`, coefficients `≥ 0` and at least one
    `> 0`, the textbook mixture cdf is continuous and strictly increasing on `[μ, ∞)` from `0` to `Σq`; every `p ∈ (0, Σq)`
    has exactly one quantile `q > μ`; the bracketing + bisection algorithm of `esl_hxp_invcdf` run on the textbook cdf
    terminates for all sufficiently large fuel within `1e-6·(r − μ)` of it. -/
noncomputable section
namespace EaselModel.Dist.HxpQuantile
open Real Finset Set EaselModel.Dist EaselModel.Dist.Gen EaselModel.Dist.Spec EaselModel.Dist.MixGen

/-- generic: a cdf with a separating point `q > μ` — the bracketing + bisection of `esl_sxp_invcdf` / `esl_hxp_invcdf` is total
    and accurate -/
theorem invcdfRight_total {cdf : ℝ → ℝ} {μ p q : ℝ} (hq : μ < q) (h0 : cdf μ ≤ p) (hqp : p ≤ cdf q)
    (hlo : ∀ x, x < q → cdf x < p) (hhi : ∀ x, q < x → p < cdf x) :
    ∃ N : Nat, ∀ fuel, N ≤ fuel → ∃ r, Bisect.invcdfRight fuel cdf p μ = some r ∧ |r - q| ≤ 1e-6 * (r - μ) := by
  have hδ : 0 < (q - μ) / 2 := by linarith
  obtain ⟨n1, hn1⟩ := pow_unbounded_of_one_lt (q - μ) (by norm_num : (1 : ℝ) < 3)
  obtain ⟨n2, hn2⟩ := pow_unbounded_of_one_lt ((3 : ℝ) ^ (n1 + 1) / (1e-6 * ((q - μ) / 2))) (by norm_num : (1 : ℝ) < 2)
  refine ⟨max n1 n2 + 1, fun fuel hf => ?_⟩
  have hsome := BisectTerm.invcdfRight_terminates (cdf := cdf) (p := p) (mu := μ) (X := q) (N1 := n1) (N2 := n2) (fuel := fuel) hδ
    (fun x hx => hlo x (by linarith)) (fun x hx => (eq_or_lt_of_le hx).elim (fun e => e ▸ hqp) fun h => (hhi x h).le)
    (by have : (3 : ℝ) ^ n1 ≤ 3 ^ (n1 + 1) := pow_le_pow_right₀ (by norm_num) (Nat.le_succ _); linarith)
    (by
      have hpos : (0 : ℝ) < 1e-6 * ((q - μ) / 2) := by positivity
      have := (div_lt_iff₀ hpos).mp hn2
      linarith)
    (by omega) (by omega)
  obtain ⟨r, hr⟩ := Option.isSome_iff_exists.mp hsome
  obtain ⟨x2, hfin⟩ := BisectTerm.invcdfRight_final h0 hr
  exact ⟨r, hr, BisectTerm.final_accuracy hfin hlo hhi⟩

theorem expCdf_strictMono {μ l s t : ℝ} (hl : 0 < l) (hs : μ ≤ s) (hst : s < t) : expCdf μ l s < expCdf μ l t := by
  unfold expCdf
  rw [if_neg (not_lt.mpr hs), if_neg (not_lt.mpr (hs.trans hst.le))]
  have : exp (-(l * (t - μ))) < exp (-(l * (s - μ))) := exp_lt_exp.mpr (by nlinarith)
  linarith

theorem hxpCdf_strictMono {h : ESL_HYPEREXP ℝ} (ok : HxpOK h) (hsome : ∃ k < h.K, 0 < hq h k) {s t : ℝ} (hs : h.mu ≤ s) (hst : s < t) :
    hxpCdf h s < hxpCdf h t := by
  obtain ⟨k0, hk0, hq0⟩ := hsome
  unfold hxpCdf
  refine sum_lt_sum (fun k hk => mul_le_mul_of_nonneg_left (ExpThm.expCdf_mono (ok k (mem_range.mp hk)).2.le hst.le) (ok k (mem_range.mp hk)).1)
    ⟨k0, mem_range.mpr hk0, mul_lt_mul_of_pos_left (expCdf_strictMono (ok k0 hk0).2 hs hst) hq0⟩

theorem hxpCdf_continuousOn (h : ESL_HYPEREXP ℝ) (X : ℝ) : ContinuousOn (hxpCdf h) (Icc h.mu X) := by
  have hc : Continuous fun x : ℝ => ∑ k ∈ range h.K, hq h k * (1 - exp (-(hl h k * (x - h.mu)))) := by fun_prop
  refine hc.continuousOn.congr fun x hx => ?_
  unfold hxpCdf
  refine sum_congr rfl fun k _ => ?_
  unfold expCdf; rw [if_neg (not_lt.mpr hx.1)]

theorem hxpCdf_at_mu (h : ESL_HYPEREXP ℝ) : hxpCdf h h.mu = 0 := by
  unfold hxpCdf
  refine sum_eq_zero fun k _ => ?_
  unfold expCdf; rw [if_neg (lt_irrefl _)]; simp

theorem hxp_quantile {h : ESL_HYPEREXP ℝ} (ok : HxpOK h) (hsome : ∃ k < h.K, 0 < hq h k) {p : ℝ} (hp0 : 0 < p) (hp1 : p < hxpQ h) :
    ∃! q, h.mu < q ∧ hxpCdf h q = p := by
  obtain ⟨_, _, _, htend, _⟩ := hxp_textbook_laws ok
  obtain ⟨X, hXμ, hXp⟩ : ∃ X, h.mu ≤ X ∧ p < hxpCdf h X := by
    obtain ⟨X, hX⟩ := ((htend.eventually (lt_mem_nhds hp1)).and (Filter.eventually_ge_atTop h.mu)).exists
    exact ⟨X, hX.2, hX.1⟩
  obtain ⟨y, hy, hyp⟩ := intermediate_value_Icc hXμ (hxpCdf_continuousOn h X) (show p ∈ Icc (hxpCdf h h.mu) (hxpCdf h X) by
    rw [hxpCdf_at_mu]; exact ⟨hp0.le, hXp.le⟩)
  have hy0 : h.mu < y := by
    rcases hy.1.lt_or_eq with e | e
    · exact e
    · rw [← e, hxpCdf_at_mu] at hyp; linarith
  refine ⟨y, ⟨hy0, hyp⟩, ?_⟩
  rintro z ⟨hz, hzp⟩
  rcases lt_trichotomy z y with e | e | e
  · have := hxpCdf_strictMono ok hsome hz.le e; linarith
  · exact e
  · have := hxpCdf_strictMono ok hsome hy0.le e; linarith

/-- total + accurate: the algorithm of `esl_hxp_invcdf` on the textbook mixture cdf -/
theorem hxp_bisection_inverts {h : ESL_HYPEREXP ℝ} (ok : HxpOK h) (hsome : ∃ k < h.K, 0 < hq h k) {p : ℝ} (hp0 : 0 < p) (hp1 : p < hxpQ h) :
    ∃ q, (h.mu < q ∧ hxpCdf h q = p) ∧ ∃ N : Nat, ∀ fuel, N ≤ fuel →
      ∃ r, Bisect.invcdfRightLim fuel (hxpCdf h) p h.mu = some r ∧ |r - q| ≤ 1e-6 * (r - h.mu) := by
  obtain ⟨q, ⟨hq, hqp⟩, _⟩ := hxp_quantile ok hsome hp0 hp1
  refine ⟨q, ⟨hq, hqp⟩, ?_⟩
  obtain ⟨_, hbelow, _, _, _⟩ := hxp_textbook_laws ok
  have hlo : ∀ x, x < q → hxpCdf h x < p := fun x hx => by
    rcases lt_or_ge x h.mu with e | e
    · rw [hbelow x e]; exact hp0
    · exact hqp ▸ hxpCdf_strictMono ok hsome e hx
  have hhi : ∀ x, q < x → p < hxpCdf h x := fun x hx => hqp ▸ hxpCdf_strictMono ok hsome hq.le hx
  obtain ⟨N, hN⟩ := invcdfRight_total hq (by rw [hxpCdf_at_mu]; exact hp0.le) hqp.ge hlo hhi
  exact ⟨N, fun fuel hf => by rw [BisectThm.invcdfRightLim_real]; exact hN fuel hf⟩

end EaselModel.Dist.HxpQuantile
