import EaselModel.Dist.SampleThm
import EaselModel.Dist.IncGammaInv
import EaselModel.Dist.BisectTerm
/-! Gamma and stretched exponential: the textbook cdf (on the incomplete gamma INTEGRAL) is strictly increasing on the
    support, every `p ∈ (0,1)` has exactly one quantile `q > μ`, and that `q` separates the cdf values strictly — which are
    the hypotheses `bisection_inverses_accuracy` asks of the crossing point. -/
noncomputable section
namespace EaselModel.Dist.QuantileThm
open Real EaselModel.Dist EaselModel.Dist.Gen EaselModel.Dist.IncGammaInt EaselModel.Dist.GamSxpThm

theorem gamCdf_strictMonoOn {μ l τ : ℝ} (hl : 0 < l) (hτ : 0 < τ) {s t : ℝ} (hs : μ ≤ s) (hst : s < t) :
    gamCdf μ l τ s < gamCdf μ l τ t := by
  have ht : μ < t := lt_of_le_of_lt hs hst
  rcases hs.lt_or_eq with h | h
  · rw [gamCdf, gamCdf, if_neg (not_le.mpr h), if_neg (not_le.mpr ht)]
    exact P_strictMono hτ (mul_nonneg hl.le (by linarith)) (mul_lt_mul_of_pos_left (by linarith) hl)
  · rw [gamCdf, gamCdf, if_pos (le_of_eq h.symm), if_neg (not_le.mpr ht)]
    have := P_strictMono hτ (le_refl 0) (mul_pos hl (sub_pos.mpr ht)); rwa [P_zero] at this

theorem gam_quantile {μ l τ p : ℝ} (hl : 0 < l) (hτ : 0 < τ) (hp0 : 0 < p) (hp1 : p < 1) :
    ∃! q, μ < q ∧ gamCdf μ l τ q = p := by
  obtain ⟨y, ⟨hy0, hyp⟩, _⟩ := P_quantile hτ hp0 hp1
  refine ⟨μ + y / l, ⟨by have := div_pos hy0 hl; linarith, by rw [SampleThm.gam_sample_cdf hy0 hl, hyp]⟩, ?_⟩
  rintro z ⟨hz, hzp⟩
  have hq : μ < μ + y / l := by have := div_pos hy0 hl; linarith
  have hqp : gamCdf μ l τ (μ + y / l) = p := by rw [SampleThm.gam_sample_cdf hy0 hl, hyp]
  rcases lt_trichotomy z (μ + y / l) with h | h | h
  · have := gamCdf_strictMonoOn hl hτ hz.le h; linarith
  · exact h
  · have := gamCdf_strictMonoOn hl hτ hq.le h; linarith

/-- the quantile separates: strictly below `p` left of it, strictly above right of it (all `x`, also outside the support) -/
theorem gam_quantile_separates {μ l τ p q : ℝ} (hl : 0 < l) (hτ : 0 < τ) (hp0 : 0 < p) (hq : μ < q) (hqp : gamCdf μ l τ q = p) :
    (∀ x, x < q → gamCdf μ l τ x < p) ∧ (∀ x, q < x → p < gamCdf μ l τ x) := by
  refine ⟨fun x hx => ?_, fun x hx => hqp ▸ gamCdf_strictMonoOn hl hτ hq.le hx⟩
  rcases le_or_gt x μ with h | h
  · rw [gamCdf, if_pos h]; exact hp0
  · exact hqp ▸ gamCdf_strictMonoOn hl hτ h.le hx

theorem sxpCdf_strictMonoOn {μ l τ : ℝ} (hl : 0 < l) (hτ : 0 < τ) {s t : ℝ} (hs : μ ≤ s) (hst : s < t) :
    sxpCdf μ l τ s < sxpCdf μ l τ t := by
  have ht : μ < t := lt_of_le_of_lt hs hst
  have ha : 0 < 1 / τ := one_div_pos.mpr hτ
  rcases hs.lt_or_eq with h | h
  · rw [sxpCdf, sxpCdf, if_neg (not_le.mpr h), if_neg (not_le.mpr ht)]
    have h0 : 0 ≤ l * (s - μ) := mul_nonneg hl.le (by linarith)
    exact P_strictMono ha (rpow_nonneg h0 τ) (rpow_lt_rpow h0 (mul_lt_mul_of_pos_left (by linarith) hl) hτ)
  · rw [sxpCdf, sxpCdf, if_pos (le_of_eq h.symm), if_neg (not_le.mpr ht)]
    have := P_strictMono ha (le_refl 0) (rpow_pos_of_pos (mul_pos hl (sub_pos.mpr ht)) τ); rwa [P_zero] at this

theorem sxp_quantile {μ l τ p : ℝ} (hl : 0 < l) (hτ : 0 < τ) (hp0 : 0 < p) (hp1 : p < 1) :
    ∃! q, μ < q ∧ sxpCdf μ l τ q = p := by
  obtain ⟨y, ⟨hy0, hyp⟩, _⟩ := P_quantile (one_div_pos.mpr hτ) hp0 hp1
  obtain ⟨h1, h2, _⟩ := SampleThm.sxp_sample_cdf (μ := μ) hy0 hl hτ
  refine ⟨esl_sxp_Sample y μ l τ, ⟨h2, by rw [h1, hyp]⟩, ?_⟩
  rintro z ⟨hz, hzp⟩
  have hqp : sxpCdf μ l τ (esl_sxp_Sample y μ l τ) = p := by rw [h1, hyp]
  rcases lt_trichotomy z (esl_sxp_Sample y μ l τ) with h | h | h
  · have := sxpCdf_strictMonoOn hl hτ hz.le h; linarith
  · exact h
  · have := sxpCdf_strictMonoOn hl hτ h2.le h; linarith

theorem sxp_quantile_separates {μ l τ p q : ℝ} (hl : 0 < l) (hτ : 0 < τ) (hp0 : 0 < p) (hq : μ < q) (hqp : sxpCdf μ l τ q = p) :
    (∀ x, x < q → sxpCdf μ l τ x < p) ∧ (∀ x, q < x → p < sxpCdf μ l τ x) := by
  refine ⟨fun x hx => ?_, fun x hx => hqp ▸ sxpCdf_strictMonoOn hl hτ hq.le hx⟩
  rcases le_or_gt x μ with h | h
  · rw [sxpCdf, if_pos h]; exact hp0
  · exact hqp ▸ sxpCdf_strictMonoOn hl hτ h.le hx

/-! ## the bracketing + bisection algorithm of `esl_sxp_invcdf` / `esl_gam_invcdf`, run on the textbook cdf, is total on
    `p ∈ (0,1)` and returns within six digits (of the offset from `μ`) of THE quantile -/

theorem sxp_bisection_inverts {μ l τ p : ℝ} (hl : 0 < l) (hτ : 0 < τ) (hp0 : 0 < p) (hp1 : p < 1) :
    ∃ q, (μ < q ∧ sxpCdf μ l τ q = p) ∧ ∃ N : Nat, ∀ fuel, N ≤ fuel →
      ∃ r, Bisect.invcdfRight fuel (sxpCdf μ l τ) p μ = some r ∧ |r - q| ≤ 1e-6 * (r - μ) := by
  obtain ⟨q, ⟨hq, hqp⟩, _⟩ := sxp_quantile (μ := μ) hl hτ hp0 hp1
  obtain ⟨hlo, hhi⟩ := sxp_quantile_separates hl hτ hp0 hq hqp
  refine ⟨q, ⟨hq, hqp⟩, ?_⟩
  have hδ : 0 < (q - μ) / 2 := by linarith
  obtain ⟨n1, hn1⟩ := pow_unbounded_of_one_lt (q - μ) (by norm_num : (1 : ℝ) < 3)
  obtain ⟨n2, hn2⟩ := pow_unbounded_of_one_lt ((3 : ℝ) ^ (n1 + 1) / (1e-6 * ((q - μ) / 2))) (by norm_num : (1 : ℝ) < 2)
  refine ⟨max n1 n2 + 1, fun fuel hf => ?_⟩
  have h0 : sxpCdf μ l τ μ ≤ p := by rw [sxpCdf, if_pos le_rfl]; exact hp0.le
  have hsome := BisectTerm.invcdfRight_terminates (cdf := sxpCdf μ l τ) (p := p) (mu := μ) (X := q) (N1 := n1) (N2 := n2) (fuel := fuel) hδ
    (fun x hx => hlo x (by linarith)) (fun x hx => (eq_or_lt_of_le hx).elim (fun e => e ▸ hqp.ge) fun h => (hhi x h).le)
    (by have : (3 : ℝ) ^ n1 ≤ 3 ^ (n1 + 1) := pow_le_pow_right₀ (by norm_num) (Nat.le_succ _); linarith)
    (by
      have hpos : (0 : ℝ) < 1e-6 * ((q - μ) / 2) := by positivity
      have := (div_lt_iff₀ hpos).mp hn2
      linarith)
    (by omega) (by omega)
  obtain ⟨r, hr⟩ := Option.isSome_iff_exists.mp hsome
  obtain ⟨x2, hfin⟩ := BisectTerm.invcdfRight_final h0 hr
  exact ⟨r, hr, BisectTerm.final_accuracy hfin hlo hhi⟩

theorem gam_bisection_inverts {μ l τ p : ℝ} (hl : 0 < l) (hτ : 0 < τ) (hp0 : 0 < p) (hp1 : p < 1) :
    ∃ q, (μ < q ∧ gamCdf μ l τ q = p) ∧ ∃ N : Nat, ∀ fuel, N ≤ fuel →
      ∃ r, Bisect.invcdfGam fuel (gamCdf μ l τ) p μ l τ = some r ∧ |r - q| ≤ 1e-6 * (r - μ) := by
  obtain ⟨q, ⟨hq, hqp⟩, _⟩ := gam_quantile (μ := μ) hl hτ hp0 hp1
  obtain ⟨hlo, hhi⟩ := gam_quantile_separates hl hτ hp0 hq hqp
  refine ⟨q, ⟨hq, hqp⟩, ?_⟩
  have hδ : 0 < (q - μ) / 2 := by linarith
  have hs : 0 < τ / l := div_pos hτ hl
  obtain ⟨n1, hn1⟩ := pow_unbounded_of_one_lt ((q - μ) / (τ / l)) (by norm_num : (1 : ℝ) < 2)
  obtain ⟨n2, hn2⟩ := pow_unbounded_of_one_lt ((2 : ℝ) ^ (n1 + 1) * (τ / l) / (1e-6 * ((q - μ) / 2))) (by norm_num : (1 : ℝ) < 2)
  refine ⟨max n1 n2 + 1, fun fuel hf => ?_⟩
  have h0 : gamCdf μ l τ μ ≤ p := by rw [gamCdf, if_pos le_rfl]; exact hp0.le
  have hsome := BisectTerm.invcdfGam_terminates (cdf := gamCdf μ l τ) (p := p) (mu := μ) (l := l) (t := τ) (X := q) (N1 := n1) (N2 := n2)
    (fuel := fuel) hδ hs.le
    (fun x hx => hlo x (by linarith)) (fun x hx => (eq_or_lt_of_le hx).elim (fun e => e ▸ hqp.ge) fun h => (hhi x h).le)
    (by
      have h1 := (div_lt_iff₀ hs).mp hn1
      have : (2 : ℝ) ^ n1 ≤ 2 ^ (n1 + 1) := pow_le_pow_right₀ (by norm_num) (Nat.le_succ _)
      nlinarith)
    (by
      have hpos : (0 : ℝ) < 1e-6 * ((q - μ) / 2) := by positivity
      have := (div_lt_iff₀ hpos).mp hn2
      linarith)
    (by omega) (by omega)
  obtain ⟨r, hr⟩ := Option.isSome_iff_exists.mp hsome
  obtain ⟨x2, hfin⟩ := BisectTerm.invcdfGam_final h0 hs.le hr
  exact ⟨r, hr, BisectTerm.final_accuracy hfin hlo hhi⟩

end EaselModel.Dist.QuantileThm
