import EaselModel.Dist.Num
/-! Hand model (kind H) of the component choice of the mixture samplers `esl_hxp_Sample` / `esl_mixgev_Sample`
    (`esl_rnd_DChoose`).  Everything else of the mixture code — `esl_hxp_*`, `esl_mixgev_*`, `esl_vec_DMax/DMin/DLogSum` —
    is TRANSLATED since round 3 (`Generated/Dist.lean`; theorems in `Dist/MixGen.lean`, `Dist/MixLogGen.lean`).
    Core Lean only. -/
namespace EaselModel.Dist.Mix
open EaselModel.Dist
variable {α : Type} [Add α] [Sub α] [Mul α] [Div α] [Neg α] [OfScientific α] [LT α] [LE α]
  [DecidableLT α] [DecidableLE α] [Num α]

/-- `esl_rnd_DChoose(r, p, N)` given the deviate `roll = esl_random(r)`: index of the chosen component -/
def dchoose (roll : α) (p : List α) : Option Nat :=
  let norm := p.foldl (· + ·) (0.0 : α)
  let rec go (ps : List α) (sum : α) (i : Nat) : Option Nat :=
    match ps with
    | [] => none
    | q :: rest => let sum := sum + q; if roll < sum / norm then some i else go rest sum (i + 1)
  go p 0.0 0

/-- `esl_gam_Sample` (hand model; the only sampler with a redraw loop):
    `do { x = esl_rnd_Gamma(r, tau); x = mu + x / lambda; } while (x == mu);` over the stream `ts` of variates the
    generator yields (`none` = stream exhausted, the C loop would draw again). -/
def gamSample (mu lambda : α) : List α → Option α
  | [] => none
  | t :: ts =>
    let x := mu + t / lambda
    if Num.eqb x mu = true then gamSample mu lambda ts else some x

end EaselModel.Dist.Mix
