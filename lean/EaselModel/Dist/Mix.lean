import EaselModel.Generated.Dist
/-! Hand model (kind H) of the mixture code: `esl_hxp_*` (hyperexponential: components `exp(μ, λ_k)`, coefficients `q_k`)
    and `esl_mixgev_*` (components `GEV(μ_k, λ_k, α_k)`), including `esl_vec_DMax` / `esl_vec_DLogSum` which the log
    versions go through.  The short C loops are `List.foldl`s in the same order with the same accumulator; the component
    functions are the TRANSLATED `esl_exp_*` / `esl_gev_*`.  Tied by the bit-exact correspondence run (`mix`, `mixsample`).
    Core Lean only. -/
namespace EaselModel.Dist.Mix
open EaselModel.Dist EaselModel.Dist.Gen
variable {α : Type} [Add α] [Sub α] [Mul α] [Div α] [Neg α] [OfScientific α] [LT α] [LE α]
  [DecidableLT α] [DecidableLE α] [Num α]

/-- `esl_vec_DMax` (n ≥ 1) -/
def dmax : List α → α
  | [] => 0.0
  | v :: vs => vs.foldl (fun best w => if best < w then w else best) v

/-- `esl_vec_DLogSum` -/
def dlogsum (vec : List α) : α :=
  let max := dmax vec
  if Num.eqb max Num.inf = true then Num.inf
  else
    let sum := vec.foldl (fun s v => if (max - 500.0) < v then s + Num.exp (v - max) else s) (0.0 : α)
    Num.log sum + max

/-- `pdf += q[k] * f(x, …[k])` over the components, starting from `0.` -/
def wsum (f : β → α) (qs : List (α × β)) : α := qs.foldl (fun acc qp => acc + qp.1 * f qp.2) (0.0 : α)

/-- `wrk[k] = (q[k] == 0.0) ? -inf : log(q[k]) + f(…)` then `esl_vec_DLogSum(wrk)` -/
def lsum (f : β → α) (qs : List (α × β)) : α :=
  dlogsum (qs.map fun qp => if Num.eqb qp.1 0.0 = true then -Num.inf else Num.log qp.1 + f qp.2)

/-! hyperexponential: `qs` = `[(q_k, λ_k)]` -/
def hxp_pdf (x mu : α) (qs : List (α × α)) : α := if x < mu then 0.0 else wsum (fun l => esl_exp_pdf x mu l) qs
def hxp_cdf (x mu : α) (qs : List (α × α)) : α := if x < mu then 0.0 else wsum (fun l => esl_exp_cdf x mu l) qs
def hxp_surv (x mu : α) (qs : List (α × α)) : α := if x < mu then 1.0 else wsum (fun l => esl_exp_surv x mu l) qs
def hxp_logpdf (x mu : α) (qs : List (α × α)) : α := if x < mu then -Num.inf else lsum (fun l => esl_exp_logpdf x mu l) qs
def hxp_logcdf (x mu : α) (qs : List (α × α)) : α := if x < mu then -Num.inf else lsum (fun l => esl_exp_logcdf x mu l) qs
def hxp_logsurv (x mu : α) (qs : List (α × α)) : α := if x < mu then 0.0 else lsum (fun l => esl_exp_logsurv x mu l) qs

/-! mixture of GEVs: `qs` = `[(q_k, (μ_k, λ_k, α_k))]` -/
def mixgev_pdf (x : α) (qs : List (α × (α × α × α))) : α := wsum (fun p => esl_gev_pdf x p.1 p.2.1 p.2.2) qs
def mixgev_cdf (x : α) (qs : List (α × (α × α × α))) : α := wsum (fun p => esl_gev_cdf x p.1 p.2.1 p.2.2) qs
def mixgev_surv (x : α) (qs : List (α × (α × α × α))) : α := wsum (fun p => esl_gev_surv x p.1 p.2.1 p.2.2) qs
def mixgev_logpdf (x : α) (qs : List (α × (α × α × α))) : α := lsum (fun p => esl_gev_logpdf x p.1 p.2.1 p.2.2) qs
def mixgev_logcdf (x : α) (qs : List (α × (α × α × α))) : α := lsum (fun p => esl_gev_logcdf x p.1 p.2.1 p.2.2) qs
/-- `esl_mixgev_logsurv` has no `q == 0` guard: `wrk[k] = log(q[k]); wrk[k] += logsurv` -/
def mixgev_logsurv (x : α) (qs : List (α × (α × α × α))) : α :=
  dlogsum (qs.map fun qp => Num.log qp.1 + esl_gev_logsurv x qp.2.1 qp.2.2.1 qp.2.2.2)

/-- `esl_rnd_DChoose(r, p, N)` given the deviate `roll = esl_random(r)`: index of the chosen component -/
def dchoose (roll : α) (p : List α) : Option Nat :=
  let norm := p.foldl (· + ·) (0.0 : α)
  let rec go (ps : List α) (sum : α) (i : Nat) : Option Nat :=
    match ps with
    | [] => none
    | q :: rest => let sum := sum + q; if roll < sum / norm then some i else go rest sum (i + 1)
  go p 0.0 0

end EaselModel.Dist.Mix
