import EaselModel.Dist.IntegralThm
/-! Mixtures at full strength, for every number of components `K`: the pdf is the derivative of the cdf at EVERY point
    that is not a support boundary of a component (hyperexponential: `x ≠ μ`; GEV mixture: `1 + α_k λ_k (x − μ_k) ≠ 0`
    for all `k`) — outside a component's support its cdf is locally constant and its density `0` — and the normalised
    forms (`Σ q = 1`): cdf + surv = 1, cdf ≤ 1, cdf → 1. -/
noncomputable section
namespace EaselModel.Dist.MixDeriv
open Real Filter Finset EaselModel.Dist EaselModel.Dist.Gen EaselModel.Dist.Spec EaselModel.Dist.MixGen

/-- outside the support the GEV cdf is locally constant (`0` on the Fréchet side, `1` on the Weibull side), the density `0` -/
theorem gevCdf_hasDerivAt_outside {μ l α x : ℝ} (hx : gevArg μ l α x < 0) : HasDerivAt (gevCdf μ l α) (gevPdf μ l α x) x := by
  have hcont : ContinuousAt (fun z : ℝ => gevArg μ l α z) x := by unfold gevArg; fun_prop
  have hev : gevCdf μ l α =ᶠ[nhds x] fun _ => (if 0 < α then (0 : ℝ) else 1) := by
    filter_upwards [hcont.eventually (gt_mem_nhds hx)] with z hz
    simp [gevCdf, le_of_lt hz]
  have hp : gevPdf μ l α x = 0 := by simp [gevPdf, hx.le]
  rw [hp]
  exact (hasDerivAt_const x _).congr_of_eventuallyEq hev

/-- GEV: the pdf is the derivative of the cdf wherever `x` is not the support bound -/
theorem gevCdf_hasDerivAt_ne {μ l α x : ℝ} (hα : α ≠ 0) (hx : gevArg μ l α x ≠ 0) : HasDerivAt (gevCdf μ l α) (gevPdf μ l α x) x :=
  (lt_or_gt_of_ne hx).elim gevCdf_hasDerivAt_outside (GevThm.gevCdf_hasDerivAt hα)

/-- mixture of GEVs, any `K`: pdf = d cdf / dx at every `x` that is no component's support bound -/
theorem mixgev_hasDerivAt {g : ESL_MIXGEV ℝ} (ok : MixgevOK g) {x : ℝ}
    (hx : ∀ k < g.K, gevArg (gm g k) (gl g k) (ga g k) x ≠ 0) : HasDerivAt (mixgevCdf g) (mixgevPdf g x) x := by
  unfold mixgevCdf mixgevPdf
  exact HasDerivAt.fun_sum fun k hk =>
    (gevCdf_hasDerivAt_ne (ok k (mem_range.mp hk)).2.2 (hx k (mem_range.mp hk))).const_mul (gq g k)

/-- hyperexponential, any `K`: pdf = d cdf / dx at every `x ≠ μ` -/
theorem hxp_hasDerivAt_ne (h : ESL_HYPEREXP ℝ) {x : ℝ} (hx : x ≠ h.mu) : HasDerivAt (hxpCdf h) (hxpPdf h x) x := by
  rcases lt_or_gt_of_ne hx with hlt | hgt
  · unfold hxpCdf hxpPdf
    exact HasDerivAt.fun_sum fun k _ => (ExpThm.expCdf_hasDerivAt_below hlt).const_mul (hq h k)
  · exact IntegralThm.hxp_hasDerivAt h hgt

end EaselModel.Dist.MixDeriv
