import EaselModel.Dist.RealInst
import EaselModel.Dist.Edge
import EaselModel.Generated.Dist
import Mathlib.Analysis.SpecialFunctions.Log.Basic
/-! Round 6b: the EXACT values of every translated x-function at the support edge `x == μ` of the three families whose density
    has a shape-dependent edge (gamma, Weibull, stretched exponential), for `τ < 1`, `τ = 1`, `τ > 1` — the code's own branch
    values (`esl_gam_pdf`, `esl_wei_pdf`: `+inf`, `λ`, `0`; their log versions `+inf`, `log λ`, `-inf`; `esl_sxp_pdf = λτ/e^{LogGamma(1/τ)}`)
    — and `logpdf = log pdf` there wherever the density is finite and positive. -/
set_option linter.unusedSectionVars false
noncomputable section
namespace EaselModel.Dist.EdgeAtMu
open Real EaselModel.Dist EaselModel.Dist.Gen

section generic
variable {α : Type} [Add α] [Sub α] [Mul α] [Div α] [Neg α] [OfScientific α] [LT α] [LE α]
  [DecidableLT α] [DecidableLE α] [Num α]

/-- every carrier: what the code's `x == mu` branch returns (hypotheses = the tests the C code makes, as it makes them) -/
theorem gam_pdf_edge {x mu l t : α} (hy : ¬ l * (x - mu) < 0.0) (he : Num.eqb x mu = true) :
    (t < 1.0 → esl_gam_pdf x mu l t = Num.inf ∧ esl_gam_logpdf x mu l t = Num.inf) ∧
    (¬ t < 1.0 → 1.0 < t → esl_gam_pdf x mu l t = 0.0 ∧ esl_gam_logpdf x mu l t = -Num.inf) ∧
    (¬ t < 1.0 → ¬ 1.0 < t → Num.eqb t 1.0 = true → esl_gam_pdf x mu l t = l ∧ esl_gam_logpdf x mu l t = Num.log l) := by
  refine ⟨fun h => ?_, fun h1 h2 => ?_, fun h1 h2 h3 => ?_⟩ <;> simp [esl_gam_pdf, esl_gam_logpdf, *]

theorem wei_pdf_edge {x mu l t : α} (hx : ¬ x < mu) (he : Num.eqb x mu = true) :
    (t < 1.0 → esl_wei_pdf x mu l t = Num.inf ∧ esl_wei_logpdf x mu l t = Num.inf) ∧
    (¬ t < 1.0 → 1.0 < t → esl_wei_pdf x mu l t = 0.0 ∧ esl_wei_logpdf x mu l t = -Num.inf) ∧
    (¬ t < 1.0 → ¬ 1.0 < t → Num.eqb t 1.0 = true → esl_wei_pdf x mu l t = l ∧ esl_wei_logpdf x mu l t = Num.log l) := by
  refine ⟨fun h => ?_, fun h1 h2 => ?_, fun h1 h2 h3 => ?_⟩ <;> simp [esl_wei_pdf, esl_wei_logpdf, *]

theorem sxp_pdf_edge {x mu l t : α} (hx : ¬ x < mu) (he : Num.eqb x mu = true) :
    esl_sxp_pdf x mu l t = (l * t) / Num.exp (Num.logGamma (1.0 / t)) ∧
    esl_sxp_logpdf x mu l t = (Num.log l + Num.log t) - Num.logGamma (1.0 / t) := by
  simp [esl_sxp_pdf, esl_sxp_logpdf, *]

end generic

/-! ## over `ℝ`, at `x = μ` exactly -/

/-- gamma at `x = μ`: density `+inf` / `λ` / `0` and log density `+inf` / `log λ` / `-inf` for `τ < 1` / `= 1` / `> 1`;
    cdf `0`, survival `1`, `logcdf = -inf`, `logsurv = 0` -/
theorem gam_at_mu (μ l τ : ℝ) :
    (τ < 1 → esl_gam_pdf μ μ l τ = Num.inf ∧ esl_gam_logpdf μ μ l τ = Num.inf) ∧
    (1 < τ → esl_gam_pdf μ μ l τ = 0 ∧ esl_gam_logpdf μ μ l τ = -Num.inf) ∧
    (τ = 1 → esl_gam_pdf μ μ l τ = l ∧ esl_gam_logpdf μ μ l τ = log l ∧ (0 < l → esl_gam_logpdf μ μ l τ = log (esl_gam_pdf μ μ l τ))) ∧
    (esl_gam_cdf μ μ l τ = 0 ∧ esl_gam_surv μ μ l τ = 1 ∧ esl_gam_logcdf μ μ l τ = -Num.inf ∧ esl_gam_logsurv μ μ l τ = 0) := by
  have hy : ¬ l * (μ - μ) < (0.0 : ℝ) := by simp
  have he : Num.eqb μ μ = true := by simp
  obtain ⟨a, b, c⟩ := gam_pdf_edge (t := τ) hy he
  have h0 : l * (μ - μ) ≤ (0.0 : ℝ) := by simp
  refine ⟨fun h => a (by simpa using h), fun h => ?_, fun h => ?_, ?_⟩
  · have := b (by simp; linarith) (by simpa using h); simpa using this
  · subst h
    have := c (by simp) (by simp) (by simp)
    exact ⟨this.1, by simpa using this.2, fun _ => by rw [this.1]; simpa using this.2⟩
  · exact ⟨by simpa using Edge.gam_cdf_below (t := τ) h0, by simpa using Edge.gam_surv_below (t := τ) h0,
      Edge.gam_logcdf_below h0, by simpa using Edge.gam_logsurv_below (t := τ) h0⟩

/-- Weibull at `x = μ` -/
theorem wei_at_mu (μ l τ : ℝ) :
    (τ < 1 → esl_wei_pdf μ μ l τ = Num.inf ∧ esl_wei_logpdf μ μ l τ = Num.inf) ∧
    (1 < τ → esl_wei_pdf μ μ l τ = 0 ∧ esl_wei_logpdf μ μ l τ = -Num.inf) ∧
    (τ = 1 → esl_wei_pdf μ μ l τ = l ∧ esl_wei_logpdf μ μ l τ = log l ∧ (0 < l → esl_wei_logpdf μ μ l τ = log (esl_wei_pdf μ μ l τ))) := by
  have hx : ¬ μ < μ := lt_irrefl μ
  have he : Num.eqb μ μ = true := by simp
  obtain ⟨a, b, c⟩ := wei_pdf_edge (l := l) (t := τ) hx he
  refine ⟨fun h => a (by simpa using h), fun h => ?_, fun h => ?_⟩
  · have := b (by simp; linarith) (by simpa using h); simpa using this
  · subst h
    have := c (by simp) (by simp) (by simp)
    exact ⟨this.1, by simpa using this.2, fun _ => by rw [this.1]; simpa using this.2⟩

/-- stretched exponential at `x = μ`: the density is `λτ / e^{LogGamma(1/τ)}` (finite for every shape) and
    `logpdf = log pdf` exactly for `λ, τ > 0` -/
theorem sxp_at_mu {μ l τ : ℝ} (hl : 0 < l) (hτ : 0 < τ) :
    esl_sxp_pdf μ μ l τ = l * τ / exp (Num.logGamma (1 / τ)) ∧
    esl_sxp_logpdf μ μ l τ = log l + log τ - Num.logGamma (1 / τ) ∧
    esl_sxp_logpdf μ μ l τ = log (esl_sxp_pdf μ μ l τ) ∧ 0 < esl_sxp_pdf μ μ l τ := by
  obtain ⟨a, b⟩ := sxp_pdf_edge (l := l) (t := τ) (lt_irrefl μ) (by simp : Num.eqb μ μ = true)
  have a' : esl_sxp_pdf μ μ l τ = l * τ / exp (Num.logGamma (1 / τ)) := by simpa using a
  have b' : esl_sxp_logpdf μ μ l τ = log l + log τ - Num.logGamma (1 / τ) := by simpa using b
  refine ⟨a', b', ?_, by rw [a']; positivity⟩
  rw [a', b', log_div (by positivity) (exp_ne_zero _), log_mul (ne_of_gt hl) (ne_of_gt hτ), log_exp]

end EaselModel.Dist.EdgeAtMu
