import EaselModel.Dist.Num
/-! Generic form of the bracketing + bisection inverses `esl_sxp_invcdf`, `esl_hxp_invcdf`, `esl_gam_invcdf`,
    `esl_mixgev_invcdf`, with the cdf as a parameter.  Since round 3 the four C functions themselves are TRANSLATED on
    every run (`Generated/Dist.lean`: `esl_*_invcdf`, `…_loop<k>`, `…_exit<k>`); `Dist/BisectGen.lean` proves that each
    generated function IS the instance of these definitions at its own cdf, so the theorems proved once here
    (`BisectThm`, `BisectTerm`) are theorems about the current C source.
    Each C `do { … } while (c)` is a function recursing on fuel (`none` = fuel exhausted: the C loop would still be
    running); statements and tests in the C order.  Core Lean only. -/
namespace EaselModel.Dist.Bisect
variable {α : Type} [Add α] [Sub α] [Mul α] [Div α] [Neg α] [OfScientific α] [LT α] [LE α]
  [DecidableLT α] [DecidableLE α] [Num α]

/-- `do { x2 = x2 + 2.*(x2-x1); f2 = cdf(x2); } while (f2 < p);` (sxp) -/
def bracketRight (cdf : α → α) (p x1 : α) : Nat → α → Option α
  | 0, _ => none
  | n + 1, x2 =>
    let x2 := x2 + 2.0 * (x2 - x1)
    if cdf x2 < p then bracketRight cdf p x1 n x2 else some x2

/-- `do { x2 = x2 + 2.*(x2-x1); f2 = cdf(x2); } while (f2 < p && x2 < eslINFINITY);` (hxp, mixgev since 55bbf88:
    in binary64 the loop stops at `+inf` when `p` exceeds the largest value the cdf attains).  On ℝ the second test is
    always true (`BisectThm.bracketRightLim_real`). -/
def bracketRightLim (cdf : α → α) (p x1 : α) : Nat → α → Option α
  | 0, _ => none
  | n + 1, x2 =>
    let x2 := x2 + 2.0 * (x2 - x1)
    if cdf x2 < p ∧ Num.ltInf x2 = true then bracketRightLim cdf p x1 n x2 else some x2

/-- `do { x1 = x1 - 2.*(x2-x1); f1 = cdf(x1); } while (f1 > p);` (mixgev, left side) -/
def bracketLeft (cdf : α → α) (p x2 : α) : Nat → α → Option α
  | 0, _ => none
  | n + 1, x1 =>
    let x1 := x1 - 2.0 * (x2 - x1)
    if p < cdf x1 then bracketLeft cdf p x2 n x1 else some x1

/-- `do { x2 = x2*2.; f2 = cdf(mu+x2); } while (f2 < p);` (gamma: `x2` relative to `mu`) -/
def bracketGam (cdf : α → α) (p mu : α) : Nat → α → Option α
  | 0, _ => none
  | n + 1, x2 =>
    let x2 := x2 * 2.0
    if cdf (mu + x2) < p then bracketGam cdf p mu n x2 else some x2

/-- the bisection loop of sxp / hxp / gam (with the no-progress `break`), followed by `xm = (x1+x2)/2; return xm` -/
def bisect (cdf : α → α) (p mu : α) : Nat → α → α → Option α
  | 0, _, _ => none
  | n + 1, x1, x2 =>
    let xm := (x1 + x2) / 2.0
    if xm ≤ x1 ∨ x2 ≤ xm then some ((x1 + x2) / 2.0)
    else
      let fm := cdf xm
      if p < fm then
        (if 1.0e-6 < (xm - x1) / ((x1 + xm) - 2.0 * mu) then bisect cdf p mu n x1 xm else some ((x1 + xm) / 2.0))
      else if fm < p then
        (if 1.0e-6 < (x2 - xm) / ((xm + x2) - 2.0 * mu) then bisect cdf p mu n xm x2 else some ((xm + x2) / 2.0))
      else some xm

/-- the bisection loop of mixgev (no `break`; stop rule `(x2-x1) > tol*(|x1|+|x2|+1e-9)`) -/
def bisectMix (cdf : α → α) (p : α) : Nat → α → α → Option α
  | 0, _, _ => none
  | n + 1, x1, x2 =>
    let xm := (x1 + x2) / 2.0
    let fm := cdf xm
    if p < fm then
      (if 1.0e-6 * ((Num.fabs x1 + Num.fabs xm) + 1.0e-9) < xm - x1 then bisectMix cdf p n x1 xm else some ((x1 + xm) / 2.0))
    else if fm < p then
      (if 1.0e-6 * ((Num.fabs xm + Num.fabs x2) + 1.0e-9) < x2 - xm then bisectMix cdf p n xm x2 else some ((xm + x2) / 2.0))
    else some xm

/-- iteration allowance per loop used by the driver.  In binary64 a bracketing loop cannot run more than ~2100 times
    (its reach doubles or triples from at least the smallest subnormal until `cdf(+inf) = 1 ≥ p`), a bisection no more than
    ~2100 times (the bracket halves until the midpoint equals an endpoint); `BisectTerm` has the real-number bounds. -/
def defaultFuel : Nat := 5000

/-- `esl_sxp_invcdf`: `x1 = mu; x2 = mu + 1.;` bracket right, bisect -/
def invcdfRight (fuel : Nat) (cdf : α → α) (p mu : α) : Option α :=
  match bracketRight cdf p mu fuel (mu + 1.0) with
  | none => none
  | some x2 => bisect cdf p mu fuel mu x2

/-- `esl_hxp_invcdf`: the same with the `x2 < eslINFINITY` test in the bracketing loop -/
def invcdfRightLim (fuel : Nat) (cdf : α → α) (p mu : α) : Option α :=
  match bracketRightLim cdf p mu fuel (mu + 1.0) with
  | none => none
  | some x2 => bisect cdf p mu fuel mu x2

/-- `esl_gam_invcdf`: `x1 = mu; x2 = tau/lambda;` bracket (relative), `x2 += mu;` bisect -/
def invcdfGam (fuel : Nat) (cdf : α → α) (p mu lambda tau : α) : Option α :=
  match bracketGam cdf p mu fuel (tau / lambda) with
  | none => none
  | some x2 => bisect cdf p mu fuel mu (x2 + mu)

/-- `esl_mixgev_invcdf`: `x2 = min mu_k; x1 = x2 - 1.;` bracket left, bracket right, bisect -/
def invcdfMix (fuel : Nat) (cdf : α → α) (p mumin : α) : Option α :=
  match bracketLeft cdf p mumin fuel (mumin - 1.0) with
  | none => none
  | some x1 =>
    match bracketRightLim cdf p x1 fuel mumin with
    | none => none
    | some x2 => bisectMix cdf p fuel x1 x2

/-- `esl_vec_DMin` (n ≥ 1) -/
def dmin : List α → α
  | [] => 0.0
  | v :: vs => vs.foldl (fun best w => if w < best then w else best) v

end EaselModel.Dist.Bisect
