import EaselModel.Dist.SpecialFamThm
import EaselModel.Dist.IntegralThm
import Mathlib.Analysis.Real.Pi.Bounds
/-! The normal family with `erfc` interpreted as the complementary error function (`Dist/ErfcGauss.lean`):
    textbook `Φ(x) = ½ erfc(−(x−μ)/(σ√2))`, density `e^{−z²/2}/(σ√(2π))`; L2 laws, and L1: the translated
    `esl_normal_cdf`/`surv` ARE the textbook functions, `esl_normal_pdf` differs only by the decimal literal
    `eslCONST_PI` standing for `π`. -/
noncomputable section
namespace EaselModel.Dist.NormalThm
open Real Filter EaselModel.Dist EaselModel.Dist.Gen

def normalCdf (μ σ x : ℝ) : ℝ := ErfcGauss.erfc (-((x - μ) / σ / √2)) / 2
def normalSurv (μ σ x : ℝ) : ℝ := ErfcGauss.erfc ((x - μ) / σ / √2) / 2
def normalPdf (μ σ x : ℝ) : ℝ := exp (-((x - μ) / σ) ^ 2 / 2) / (σ * √(2 * π))

theorem lit_two' : (2.0 : ℝ) = 2 := by norm_num
theorem sqrt2_pos : (0 : ℝ) < √2 := sqrt_pos.mpr two_pos

theorem normalCdf_add_surv (μ σ x : ℝ) : normalCdf μ σ x + normalSurv μ σ x = 1 := by
  unfold normalCdf normalSurv; rw [ErfcGauss.erfc_neg]; ring

theorem normalCdf_mono {μ σ : ℝ} (hσ : 0 < σ) : Monotone (normalCdf μ σ) := by
  intro a b hab
  unfold normalCdf
  have h1 : (a - μ) / σ / √2 ≤ (b - μ) / σ / √2 :=
    div_le_div_of_nonneg_right (div_le_div_of_nonneg_right (by linarith) hσ.le) sqrt2_pos.le
  have := ErfcGauss.erfc_antitone (neg_le_neg h1)
  linarith

theorem arg_tendsto_atTop {μ σ : ℝ} (hσ : 0 < σ) : Tendsto (fun x : ℝ => (x - μ) / σ / √2) atTop atTop := by
  have h : Tendsto (fun x : ℝ => x - μ) atTop atTop := tendsto_atTop_add_const_right _ _ tendsto_id
  exact (h.atTop_div_const hσ).atTop_div_const sqrt2_pos

theorem arg_tendsto_atBot {μ σ : ℝ} (hσ : 0 < σ) : Tendsto (fun x : ℝ => (x - μ) / σ / √2) atBot atBot := by
  have h : Tendsto (fun x : ℝ => x - μ) atBot atBot := tendsto_atBot_add_const_right _ _ tendsto_id
  exact (h.atBot_div_const hσ).atBot_div_const sqrt2_pos

theorem normalCdf_tendsto_one {μ σ : ℝ} (hσ : 0 < σ) : Tendsto (normalCdf μ σ) atTop (nhds 1) := by
  have h := (ErfcGauss.erfc_tendsto_atBot.comp (tendsto_neg_atTop_atBot.comp (arg_tendsto_atTop (μ := μ) hσ))).div_const 2
  have e : normalCdf μ σ = fun a => ErfcGauss.erfc (-((a - μ) / σ / √2)) / 2 := rfl
  rw [e]; simpa [Function.comp] using h

theorem normalCdf_tendsto_zero {μ σ : ℝ} (hσ : 0 < σ) : Tendsto (normalCdf μ σ) atBot (nhds 0) := by
  have h := (ErfcGauss.erfc_tendsto_atTop.comp (tendsto_neg_atBot_atTop.comp (arg_tendsto_atBot (μ := μ) hσ))).div_const 2
  have e : normalCdf μ σ = fun a => ErfcGauss.erfc (-((a - μ) / σ / √2)) / 2 := rfl
  rw [e]; simpa [Function.comp] using h

theorem normalCdf_range (μ σ x : ℝ) : 0 ≤ normalCdf μ σ x ∧ normalCdf μ σ x ≤ 1 := by
  have h1 : 0 ≤ normalCdf μ σ x := div_nonneg (ErfcGauss.erfc_nonneg _) zero_le_two
  have h2 : 0 ≤ normalSurv μ σ x := div_nonneg (ErfcGauss.erfc_nonneg _) zero_le_two
  have := normalCdf_add_surv μ σ x
  exact ⟨h1, by linarith⟩

theorem normalCdf_hasDerivAt {μ σ : ℝ} (hσ : σ ≠ 0) (x : ℝ) : HasDerivAt (normalCdf μ σ) (normalPdf μ σ x) x := by
  have h0 : HasDerivAt (fun y : ℝ => -((y - μ) / σ / √2)) (-(1 / σ / √2)) x := by
    have h := ((((hasDerivAt_id x).sub_const μ).div_const σ).div_const (√2)).const_mul (-1)
    have e1 : (fun y : ℝ => -((y - μ) / σ / √2)) = fun y => -1 * ((id y - μ) / σ / √2) := by funext y; simp
    have e2 : -(1 / σ / √2) = -1 * (1 / σ / √2) := by ring
    rw [e1, e2]; exact h
  have h1 := ((ErfcGauss.erfc_hasDerivAt (-((x - μ) / σ / √2))).comp x h0).div_const 2
  have e : normalPdf μ σ x = -(2 / √π) * ErfcGauss.gauss (-((x - μ) / σ / √2)) * -(1 / σ / √2) / 2 := by
    unfold normalPdf ErfcGauss.gauss
    have hs2 : √2 ≠ 0 := ne_of_gt sqrt2_pos
    have hsp : √π ≠ 0 := ne_of_gt ErfcGauss.sqrt_pi_pos
    have e1 : √(2 * π) = √2 * √π := Real.sqrt_mul zero_le_two π
    have e2 : -(-((x - μ) / σ / √2)) ^ 2 = -((x - μ) / σ) ^ 2 / 2 := by
      rw [neg_sq, div_pow, Real.sq_sqrt zero_le_two]; ring
    rw [e1, e2]
    field_simp
  rw [e]; exact h1

theorem normalPdf_nonneg {μ σ : ℝ} (hσ : 0 ≤ σ) (x : ℝ) : 0 ≤ normalPdf μ σ x :=
  div_nonneg (exp_pos _).le (mul_nonneg hσ (Real.sqrt_nonneg _))

theorem normal_integral_pdf {μ σ a b : ℝ} (hσ : 0 < σ) (hab : a ≤ b) :
    ∫ x in a..b, normalPdf μ σ x = normalCdf μ σ b - normalCdf μ σ a :=
  IntegralThm.ftc_of_nonneg hab (fun x _ => normalCdf_hasDerivAt (ne_of_gt hσ) x) fun x _ => normalPdf_nonneg hσ.le x

/-! ## L1: the translated code -/

theorem code_cdf (x μ σ : ℝ) : esl_normal_cdf x μ σ = normalCdf μ σ x := by
  unfold esl_normal_cdf normalCdf
  simp only [num_erfc, num_sqrt, lit_one, lit_two']
  have e : -1 * ((x - μ) / σ) / √2 = -((x - μ) / σ / √2) := by ring
  rw [e]; norm_num; ring

theorem code_surv (x μ σ : ℝ) : esl_normal_surv x μ σ = normalSurv μ σ x := by
  unfold esl_normal_surv normalSurv
  simp only [num_erfc, num_sqrt, lit_two']
  norm_num; ring

/-- the decimal literal `eslCONST_PI` is within `1e-20` of `π` -/
theorem pi_literal : |(3.14159265358979323846264338328 : ℝ) - π| ≤ 1e-20 := by
  have h1 := Real.pi_gt_d20
  have h2 := Real.pi_lt_d20
  rw [abs_le]; constructor <;> norm_num at h1 h2 ⊢ <;> linarith

/-- `esl_normal_pdf` is the textbook density up to the factor `√(π / eslCONST_PI)` -/
theorem code_pdf (x μ σ : ℝ) :
    esl_normal_pdf x μ σ * √(2 * 3.14159265358979323846264338328) = normalPdf μ σ x * √(2 * π) := by
  unfold esl_normal_pdf normalPdf
  simp only [num_exp, num_sqrt, lit_two']
  have h1 : (0 : ℝ) < √(2 * 3.14159265358979323846264338328) := sqrt_pos.mpr (by norm_num)
  have h2 : (0 : ℝ) < √(2 * π) := sqrt_pos.mpr (by positivity)
  have e : -((x - μ) / σ) * ((x - μ) / σ) * 0.5 = -((x - μ) / σ) ^ 2 / 2 := by ring
  rw [e]
  by_cases hσ : σ = 0
  · subst hσ; simp
  · field_simp

/-! ## log-normal: `X = e^N`, cdf `Φ((ln x − μ)/σ)` on `x > 0` (the C library has only its density) -/

def lognormalCdf (μ σ x : ℝ) : ℝ := normalCdf μ σ (log x)
def lognormalPdf (μ σ x : ℝ) : ℝ := normalPdf μ σ (log x) / x

theorem lognormalCdf_hasDerivAt {μ σ x : ℝ} (hσ : σ ≠ 0) (hx : 0 < x) :
    HasDerivAt (lognormalCdf μ σ) (lognormalPdf μ σ x) x := by
  have h := (normalCdf_hasDerivAt (μ := μ) hσ (log x)).comp x (Real.hasDerivAt_log (ne_of_gt hx))
  have e : lognormalPdf μ σ x = normalPdf μ σ (log x) * x⁻¹ := by unfold lognormalPdf; rw [div_eq_mul_inv]
  rw [e]; exact h

theorem lognormalCdf_mono_on {μ σ : ℝ} (hσ : 0 < σ) : MonotoneOn (lognormalCdf μ σ) (Set.Ioi 0) := by
  intro a ha b _ hab
  exact normalCdf_mono hσ (Real.log_le_log ha hab)

theorem lognormal_integral_pdf {μ σ a b : ℝ} (hσ : 0 < σ) (ha : 0 < a) (hab : a ≤ b) :
    ∫ x in a..b, lognormalPdf μ σ x = lognormalCdf μ σ b - lognormalCdf μ σ a :=
  IntegralThm.ftc_of_nonneg hab (fun x hx => lognormalCdf_hasDerivAt (ne_of_gt hσ) (lt_of_lt_of_le ha hx.1))
    fun x hx => div_nonneg (normalPdf_nonneg hσ.le _) (le_trans ha.le hx.1)

/-- `esl_lognormal_pdf` is the textbook log-normal density up to the factor `√(π / eslCONST_PI)` -/
theorem code_lognormal_pdf {x μ σ : ℝ} (hx : 0 < x) :
    esl_lognormal_pdf x μ σ * √(2 * 3.14159265358979323846264338328) = lognormalPdf μ σ x * √(2 * π) := by
  unfold esl_lognormal_pdf lognormalPdf normalPdf
  simp only [num_exp, num_log, num_sqrt, num_eqb, lit_zero, lit_two']
  rw [if_neg (ne_of_gt hx)]
  have h1 : (0 : ℝ) < √(2 * 3.14159265358979323846264338328) := sqrt_pos.mpr (by norm_num)
  have h2 : (0 : ℝ) < √(2 * π) := sqrt_pos.mpr (by positivity)
  have e : -((log x - μ) / σ) * ((log x - μ) / σ) * 0.5 = -((log x - μ) / σ) ^ 2 / 2 := by ring
  rw [e]
  by_cases hσ : σ = 0
  · subst hσ; simp
  · field_simp

end EaselModel.Dist.NormalThm
