import Mathlib.Analysis.SpecialFunctions.Exp
import Mathlib.Analysis.SpecialFunctions.Log.Basic
import Mathlib.Analysis.SpecialFunctions.Pow.Real
import Mathlib.Tactic.NormNum
import EaselModel.Dist.Num
import EaselModel.Dist.Special
import EaselModel.Dist.ErfcGauss
/-! `ℝ` instance of `Num` (noncomputable): the carrier on which the C10 theorems are stated.

* `exp log pow sqrt floor fabs` are Mathlib's real functions. **Caution**: `Real.log` is total (`log 0 = 0`,
  `log (-x) = log x`) whereas C's `log` yields `-inf`/NaN there; every theorem that goes through a `log` therefore
  carries the guard under which the C argument is positive, or covers the C branch that handles the edge.
* `inf` (`eslINFINITY`) has no real value: it is an **opaque** constant, so no theorem can depend on its value;
  the branches returning `±inf` are stated symbolically (`= -Num.inf`), for every carrier at once.
* `erfc` is the complementary error function `(2/√π) ∫_t^∞ e^{-x²} dx` (`Dist/ErfcGauss.lean`, on Mathlib's Gaussian
  integral; Mathlib has no `erf`/`erfc` of its own) — the same idealisation as `exp := Real.exp`: the code calls
  `esl_stats_erfc` (Sun's rational approximation, hand model `erfcSun`, bit-exact at `Float`) or libm's `erfc`; that
  those agree with the mathematical function to `1e-9` relative is L0 (monitored against mpmath), not proved.
* `logGamma`, `incGammaP`, `incGammaQ` are the hand model of `esl_stats_LogGamma` / `esl_stats_IncompleteGamma`
  (`Dist/Special.lean`, the same definition the `Float` instance executes) read over `ℝ`; where the C function throws
  (`none`) the value is the opaque `realJunk`.  What they *approximate* (Γ, P, Q) is not proved — only what follows
  from how the code forms them (`Q = 1 - P` or `P = 1 - Q`). -/
noncomputable section
namespace EaselModel.Dist

opaque realInf : ℝ
def realErfc : ℝ → ℝ := ErfcGauss.erfc
opaque realJunk : ℝ

/-- `esl_stats_IncompleteGamma` as a real function: `some (P, Q)` where the C code returns `eslOK` -/
def realIncGamma (a x : ℝ) : Option (ℝ × ℝ) :=
  Special.incGamma Real.exp Real.log (fun t => |t|) (fun s t => decide (s = t)) a x

instance instNumReal : Num ℝ where
  exp := Real.exp
  log := Real.log
  log1p := fun x => Real.log (1 + x)
  expm1 := fun x => Real.exp x - 1
  pow := fun x y => x ^ y
  sqrt := Real.sqrt
  floor := fun x => (⌊x⌋ : ℝ)
  fabs := fun x => |x|
  erfc := realErfc
  eqb := fun a b => decide (a = b)
  inf := realInf
  ltInf := fun _ => true
  logGamma := Special.logGamma Real.log
  incGammaP := fun a x => match realIncGamma a x with | some pq => pq.1 | none => realJunk
  incGammaQ := fun a x => match realIncGamma a x with | some pq => pq.2 | none => realJunk

@[simp] theorem num_ltInf (x : ℝ) : Num.ltInf x = true := rfl
@[simp] theorem num_exp (x : ℝ) : Num.exp x = Real.exp x := rfl
@[simp] theorem num_log (x : ℝ) : Num.log x = Real.log x := rfl
@[simp] theorem num_log1p (x : ℝ) : Num.log1p x = Real.log (1 + x) := rfl
@[simp] theorem num_expm1 (x : ℝ) : Num.expm1 x = Real.exp x - 1 := rfl
@[simp] theorem num_pow (x y : ℝ) : Num.pow x y = x ^ y := rfl
@[simp] theorem num_sqrt (x : ℝ) : Num.sqrt x = Real.sqrt x := rfl
theorem num_erfc (x : ℝ) : Num.erfc x = ErfcGauss.erfc x := rfl
@[simp] theorem num_fabs (x : ℝ) : Num.fabs x = |x| := rfl
@[simp] theorem num_eqb (a b : ℝ) : (Num.eqb a b = true) ↔ a = b := by
  show decide (a = b) = true ↔ a = b
  simp
@[simp] theorem num_eqb_false (a b : ℝ) : (Num.eqb a b = false) ↔ a ≠ b := by
  show decide (a = b) = false ↔ a ≠ b
  simp

theorem num_incGammaP (a x : ℝ) : Num.incGammaP a x = match realIncGamma a x with | some pq => pq.1 | none => realJunk := rfl
theorem num_incGammaQ (a x : ℝ) : Num.incGammaQ a x = match realIncGamma a x with | some pq => pq.2 | none => realJunk := rfl

/-- However the code arrives at them, `P + Q = 1`: it forms one as `1 -` the other. -/
theorem realIncGamma_sum {a x p q : ℝ} (h : realIncGamma a x = some (p, q)) : p + q = 1 := by
  unfold realIncGamma Special.incGamma at h
  split_ifs at h
  · split at h
    · exact absurd h (by simp)
    · simp only [Option.some.injEq, Prod.mk.injEq] at h
      obtain ⟨h1, h2⟩ := h
      rw [← h1, ← h2]; norm_num
  · split at h
    · exact absurd h (by simp)
    · simp only [Option.some.injEq, Prod.mk.injEq] at h
      obtain ⟨h1, h2⟩ := h
      rw [← h1, ← h2]; norm_num

theorem incGammaP_add_Q {a x : ℝ} (h : (realIncGamma a x).isSome) : Num.incGammaP a x + Num.incGammaQ a x = 1 := by
  rw [num_incGammaP, num_incGammaQ]
  obtain ⟨⟨p, q⟩, hpq⟩ := Option.isSome_iff_exists.mp h
  rw [hpq]; exact realIncGamma_sum hpq

/-- decimal literals of the generated code that denote integers -/
@[simp] theorem lit_one : (1.0 : ℝ) = 1 := by norm_num
@[simp] theorem lit_zero : (0.0 : ℝ) = 0 := by norm_num

end EaselModel.Dist
