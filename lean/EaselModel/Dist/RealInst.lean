import Mathlib.Analysis.SpecialFunctions.Exp
import Mathlib.Analysis.SpecialFunctions.Log.Basic
import Mathlib.Analysis.SpecialFunctions.Pow.Real
import Mathlib.Tactic.NormNum
import EaselModel.Dist.Num
/-! `ℝ` instance of `Num` (noncomputable): the carrier on which the C10 theorems are stated.

* `exp log pow sqrt floor fabs` are Mathlib's real functions. **Caution**: `Real.log` is total (`log 0 = 0`,
  `log (-x) = log x`) whereas C's `log` yields `-inf`/NaN there; every theorem that goes through a `log` therefore
  carries the guard under which the C argument is positive, or covers the C branch that handles the edge.
* `inf` (`eslINFINITY`) has no real value: it is an **opaque** constant, so no theorem can depend on its value;
  the branches returning `±inf` are stated symbolically (`= -Num.inf`), for every carrier at once.
* `erfc`, `logGamma`, `incGammaP`, `incGammaQ` are **opaque function symbols**: theorems about the families built
  on them take the needed facts (`P + Q = 1`, …) as hypotheses, never as axioms. -/
noncomputable section
namespace EaselModel.Dist

opaque realInf : ℝ
opaque realErfc : ℝ → ℝ
opaque realLogGamma : ℝ → ℝ
opaque realIncGammaP : ℝ → ℝ → ℝ
opaque realIncGammaQ : ℝ → ℝ → ℝ

instance instNumReal : Num ℝ where
  exp := Real.exp
  log := Real.log
  pow := fun x y => x ^ y
  sqrt := Real.sqrt
  floor := fun x => (⌊x⌋ : ℝ)
  fabs := fun x => |x|
  erfc := realErfc
  eqb := fun a b => decide (a = b)
  inf := realInf
  logGamma := realLogGamma
  incGammaP := realIncGammaP
  incGammaQ := realIncGammaQ

@[simp] theorem num_exp (x : ℝ) : Num.exp x = Real.exp x := rfl
@[simp] theorem num_log (x : ℝ) : Num.log x = Real.log x := rfl
@[simp] theorem num_pow (x y : ℝ) : Num.pow x y = x ^ y := rfl
@[simp] theorem num_sqrt (x : ℝ) : Num.sqrt x = Real.sqrt x := rfl
@[simp] theorem num_fabs (x : ℝ) : Num.fabs x = |x| := rfl
@[simp] theorem num_eqb (a b : ℝ) : (Num.eqb a b = true) ↔ a = b := by
  show decide (a = b) = true ↔ a = b
  simp
@[simp] theorem num_eqb_false (a b : ℝ) : (Num.eqb a b = false) ↔ a ≠ b := by
  show decide (a = b) = false ↔ a ≠ b
  simp

/-- decimal literals of the generated code that denote integers -/
@[simp] theorem lit_one : (1.0 : ℝ) = 1 := by norm_num
@[simp] theorem lit_zero : (0.0 : ℝ) = 0 := by norm_num

end EaselModel.Dist
