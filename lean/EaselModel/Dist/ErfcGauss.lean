import Mathlib.Analysis.SpecialFunctions.Gaussian.GaussianIntegral
import Mathlib.MeasureTheory.Integral.IntervalIntegral.FundThmCalculus
import Mathlib.MeasureTheory.Integral.IntegralEqImproper
/-! The complementary error function, defined through Mathlib's Gaussian integral (Mathlib 4.33 has `integral_gaussian`
    but no `erf`/`erfc`): `erfc t = (2/√π) ∫_t^∞ e^{-x²} dx`, with the facts the normal family needs: reflection
    `erfc (-t) = 2 - erfc t`, antitone, limits `2` and `0`, derivative `-(2/√π) e^{-t²}`. -/
noncomputable section
namespace EaselModel.Dist.ErfcGauss
open Real MeasureTheory Set Filter

def gauss (x : ℝ) : ℝ := exp (-x ^ 2)

/-- `erfc t = (2/√π) ∫_t^∞ e^{-x²} dx` -/
def erfc (t : ℝ) : ℝ := 2 / √π * ∫ x in Ioi t, gauss x

theorem gauss_continuous : Continuous gauss := by unfold gauss; fun_prop
theorem gauss_pos (x : ℝ) : 0 < gauss x := exp_pos _
theorem gauss_even (x : ℝ) : gauss (-x) = gauss x := by unfold gauss; rw [neg_sq]

theorem gauss_integrable : Integrable gauss := by
  have h := integrable_exp_neg_mul_sq (b := 1) one_pos
  have e : gauss = fun x : ℝ => exp (-1 * x ^ 2) := by funext x; simp [gauss]
  rw [e]; exact h

theorem gauss_total : ∫ x : ℝ, gauss x = √π := by
  have h := integral_gaussian 1
  have e : gauss = fun x : ℝ => exp (-1 * x ^ 2) := by funext x; simp [gauss]
  rw [e, h]; simp

theorem sqrt_pi_pos : 0 < √π := sqrt_pos.mpr pi_pos

theorem erfc_neg (t : ℝ) : erfc (-t) = 2 - erfc t := by
  have h1 : ∫ x in Ioi (-t), gauss x = ∫ x in Iic t, gauss x := by
    have := integral_comp_neg_Ioi (-t) gauss
    simp only [gauss_even, neg_neg] at this
    exact this
  have h2 : (∫ x in Iic t, gauss x) + ∫ x in Ioi t, gauss x = √π := by
    rw [intervalIntegral.integral_Iic_add_Ioi gauss_integrable.integrableOn gauss_integrable.integrableOn, gauss_total]
  unfold erfc
  rw [h1]
  have hp := sqrt_pi_pos
  field_simp
  linarith

theorem erfc_antitone : Antitone erfc := by
  intro s t hst
  unfold erfc
  refine mul_le_mul_of_nonneg_left ?_ (div_nonneg zero_le_two sqrt_pi_pos.le)
  exact setIntegral_mono_set gauss_integrable.integrableOn (Eventually.of_forall fun x => (gauss_pos x).le)
    (Ioi_subset_Ioi hst).eventuallyLE

theorem erfc_nonneg (t : ℝ) : 0 ≤ erfc t :=
  mul_nonneg (div_nonneg zero_le_two sqrt_pi_pos.le) (setIntegral_nonneg measurableSet_Ioi fun x _ => (gauss_pos x).le)

/-- `∫_t^∞ = ∫_0^∞ − ∫_0^t` -/
theorem tail_eq (t : ℝ) : ∫ x in Ioi t, gauss x = (∫ x in Ioi 0, gauss x) - ∫ x in (0 : ℝ)..t, gauss x := by
  have := intervalIntegral.integral_Ioi_sub_Ioi' (f := gauss) (a := 0) (b := t) gauss_integrable.integrableOn gauss_integrable.integrableOn
  linarith

theorem erfc_hasDerivAt (t : ℝ) : HasDerivAt erfc (-(2 / √π) * gauss t) t := by
  have h1 : HasDerivAt (fun u => ∫ x in (0 : ℝ)..u, gauss x) (gauss t) t :=
    (gauss_continuous.integral_hasStrictDerivAt 0 t).hasDerivAt
  have h2 : HasDerivAt (fun u => 2 / √π * ((∫ x in Ioi 0, gauss x) - ∫ x in (0 : ℝ)..u, gauss x)) (2 / √π * (0 - gauss t)) t :=
    ((hasDerivAt_const t _).sub h1).const_mul _
  have e : erfc = fun u => 2 / √π * ((∫ x in Ioi 0, gauss x) - ∫ x in (0 : ℝ)..u, gauss x) := by
    funext u; unfold erfc; rw [tail_eq]
  rw [e]; convert h2 using 1; ring

theorem erfc_tendsto_atTop : Tendsto erfc atTop (nhds 0) := by
  have h := intervalIntegral_tendsto_integral_Ioi (f := gauss) 0 gauss_integrable.integrableOn tendsto_id
  have h2 : Tendsto (fun u : ℝ => 2 / √π * ((∫ x in Ioi 0, gauss x) - ∫ x in (0 : ℝ)..u, gauss x)) atTop
      (nhds (2 / √π * ((∫ x in Ioi 0, gauss x) - ∫ x in Ioi 0, gauss x))) := (tendsto_const_nhds.sub h).const_mul _
  rw [sub_self, mul_zero] at h2
  refine h2.congr fun u => ?_
  show _ = erfc u
  unfold erfc; rw [tail_eq u]

theorem erfc_tendsto_atBot : Tendsto erfc atBot (nhds 2) := by
  have h : Tendsto (fun t => 2 - erfc (-t)) atBot (nhds (2 - 0)) :=
    tendsto_const_nhds.sub (erfc_tendsto_atTop.comp tendsto_neg_atBot_atTop)
  rw [sub_zero] at h
  refine h.congr fun t => ?_
  rw [erfc_neg]; ring

theorem erfc_zero : erfc 0 = 1 := by
  have := erfc_neg 0
  rw [neg_zero] at this; linarith

end EaselModel.Dist.ErfcGauss
