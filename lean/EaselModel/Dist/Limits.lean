import EaselModel.Dist.MixGen
import EaselModel.Dist.WeiThm
import EaselModel.Dist.GumbelThm
import EaselModel.Dist.BisectTotal
import EaselModel.Dist.InvTotal
/-! Round 6: "the cdf is non-decreasing FROM 0 TO 1" — the limits that were still missing: Weibull (`→ 1`; it is `0` at and
    below `μ`), GEV with either sign of `α` (`→ 0` at `−∞`, `→ 1` at `+∞`; on the bounded side the value is attained), the GEV
    mixture for every number of components (`→ 0`, `→ Σq`); and what the limits give for the GEV mixture's inverse: the
    bracketing + bisection of `esl_mixgev_invcdf` run on the textbook mixture cdf is total for every `p ∈ (0, Σq)`. -/
noncomputable section
namespace EaselModel.Dist.Limits
open Real Filter Finset EaselModel.Dist EaselModel.Dist.Gen EaselModel.Dist.Spec EaselModel.Dist.MixGen

theorem weiCdf_tendsto_one {μ l τ : ℝ} (hl : 0 < l) (hτ : 0 < τ) : Tendsto (weiCdf μ l τ) atTop (nhds 1) := by
  have h1 := GumbelThm.lin_tendsto_atTop (μ := μ) hl
  have h2 : Tendsto (fun x : ℝ => τ * log (l * (x - μ))) atTop atTop := (tendsto_log_atTop.comp h1).const_mul_atTop hτ
  have h3 : Tendsto (fun x : ℝ => exp (-exp (τ * log (l * (x - μ))))) atTop (nhds 0) :=
    tendsto_exp_neg_atTop_nhds_zero.comp (tendsto_exp_atTop.comp h2)
  have h4 : Tendsto (fun x : ℝ => 1 - exp (-exp (τ * log (l * (x - μ))))) atTop (nhds (1 - 0)) := tendsto_const_nhds.sub h3
  rw [sub_zero] at h4
  refine h4.congr' ?_
  filter_upwards [eventually_gt_atTop μ] with x hx
  simp [weiCdf, weiZ, not_le.mpr hx]

theorem arg_atTop_pos {μ l α : ℝ} (hl : 0 < l) (hα : 0 < α) : Tendsto (gevArg μ l α) atTop atTop := by
  unfold gevArg
  exact tendsto_atTop_add_const_left _ _ ((GumbelThm.lin_tendsto_atTop (μ := μ) hl).const_mul_atTop hα)

theorem arg_atBot_pos {μ l α : ℝ} (hl : 0 < l) (hα : 0 < α) : Tendsto (gevArg μ l α) atBot atBot := by
  unfold gevArg
  exact tendsto_atBot_add_const_left _ _ ((GumbelThm.lin_tendsto_atBot (μ := μ) hl).const_mul_atBot hα)

theorem arg_atTop_neg {μ l α : ℝ} (hl : 0 < l) (hα : α < 0) : Tendsto (gevArg μ l α) atTop atBot := by
  unfold gevArg
  exact tendsto_atBot_add_const_left _ _ ((GumbelThm.lin_tendsto_atTop (μ := μ) hl).const_mul_atTop_of_neg hα)

theorem arg_atBot_neg {μ l α : ℝ} (hl : 0 < l) (hα : α < 0) : Tendsto (gevArg μ l α) atBot atTop := by
  unfold gevArg
  exact tendsto_atTop_add_const_left _ _ ((GumbelThm.lin_tendsto_atBot (μ := μ) hl).const_mul_atBot_of_neg hα)

/-- the GEV cdf tends to `1` at `+∞` (for `α < 0` it IS `1` beyond the support bound) -/
theorem gevCdf_tendsto_one {μ l α : ℝ} (hl : 0 < l) (hα : α ≠ 0) : Tendsto (gevCdf μ l α) atTop (nhds 1) := by
  rcases lt_or_gt_of_ne hα with hneg | hpos
  · refine (tendsto_const_nhds (x := (1 : ℝ))).congr' ?_
    filter_upwards [(arg_atTop_neg (μ := μ) hl hneg).eventually (eventually_le_atBot 0)] with x hx
    simp [gevCdf, hx, not_lt.mpr hneg.le]
  · have h1 := arg_atTop_pos (μ := μ) hl hpos
    have h2 : Tendsto (fun x : ℝ => log (gevArg μ l α x) / α) atTop atTop :=
      (tendsto_log_atTop.comp h1).atTop_div_const hpos
    have h3 : Tendsto (fun x : ℝ => exp (-exp (-(log (gevArg μ l α x) / α)))) atTop (nhds (exp (-0))) :=
      (continuous_exp.tendsto _).comp (tendsto_exp_neg_atTop_nhds_zero.comp h2).neg
    rw [neg_zero, exp_zero] at h3
    refine h3.congr' ?_
    filter_upwards [h1.eventually (eventually_gt_atTop 0)] with x hx
    simp [gevCdf, not_le.mpr hx]

/-- the GEV cdf tends to `0` at `−∞` (for `α > 0` it IS `0` below the support bound) -/
theorem gevCdf_tendsto_zero {μ l α : ℝ} (hl : 0 < l) (hα : α ≠ 0) : Tendsto (gevCdf μ l α) atBot (nhds 0) := by
  rcases lt_or_gt_of_ne hα with hneg | hpos
  · have h1 := arg_atBot_neg (μ := μ) hl hneg
    have h2 : Tendsto (fun x : ℝ => -(log (gevArg μ l α x) / α)) atBot atTop := by
      have : Tendsto (fun x : ℝ => log (gevArg μ l α x) * (-α)⁻¹) atBot atTop :=
        (tendsto_log_atTop.comp h1).atTop_mul_const (inv_pos.mpr (neg_pos.mpr hneg))
      refine this.congr fun x => ?_
      rw [inv_neg, mul_neg, div_eq_mul_inv]
    have h3 : Tendsto (fun x : ℝ => exp (-exp (-(log (gevArg μ l α x) / α)))) atBot (nhds 0) :=
      tendsto_exp_neg_atTop_nhds_zero.comp (tendsto_exp_atTop.comp h2)
    refine h3.congr' ?_
    filter_upwards [h1.eventually (eventually_gt_atTop 0)] with x hx
    simp [gevCdf, not_le.mpr hx]
  · refine (tendsto_const_nhds (x := (0 : ℝ))).congr' ?_
    filter_upwards [(arg_atBot_pos (μ := μ) hl hpos).eventually (eventually_le_atBot 0)] with x hx
    simp [gevCdf, hx, hpos]

/-- GEV mixture, every `K`: `→ 0` at `−∞`, `→ Σq` at `+∞` -/
theorem mixgevCdf_tendsto {g : ESL_MIXGEV ℝ} (ok : MixgevOK g) :
    Tendsto (mixgevCdf g) atBot (nhds 0) ∧ Tendsto (mixgevCdf g) atTop (nhds (mixgevQ g)) := by
  constructor
  · have := wsum_tendsto g.K (gq g) (fun k => gevCdf (gm g k) (gl g k) (ga g k)) 0 atBot
      fun k hk => gevCdf_tendsto_zero (ok k hk).2.1 (ok k hk).2.2
    simp only [mul_zero, sum_const_zero] at this
    exact this
  · have := wsum_tendsto g.K (gq g) (fun k => gevCdf (gm g k) (gl g k) (ga g k)) 1 atTop
      fun k hk => gevCdf_tendsto_one (ok k hk).2.1 (ok k hk).2.2
    simp only [mul_one] at this
    exact this

/-- `esl_mixgev_invcdf`'s algorithm (`Bisect.invcdfMix`) on the textbook mixture cdf is TOTAL for every `p ∈ (0, Σq)`, every
    `K`, every starting point `m`: bracketing points exist by the limits, the fuel bound is `BisectTotal.fuelMix`, the value
    is the midpoint of a final bracket `[a, b]` with `cdf a ≤ p ≤ cdf b`, `b − a ≤ 1e-6 (|a| + |b| + 1e-9)`. -/
theorem mixgev_bisection_total {g : ESL_MIXGEV ℝ} (ok : MixgevOK g) {p : ℝ} (hp0 : 0 < p) (hp1 : p < mixgevQ g) (m : ℝ) :
    ∃ XL XR r, (∀ x, x ≤ XL → mixgevCdf g x ≤ p) ∧ (∀ x, XR ≤ x → p ≤ mixgevCdf g x) ∧
      (∀ fuel, BisectTotal.fuelMix (m - XL) (XR - m) ≤ fuel → Bisect.invcdfMix fuel (mixgevCdf g) p m = some r) ∧
      ∃ a b, a ≤ b ∧ r = (a + b) / 2 ∧ mixgevCdf g a ≤ p ∧ p ≤ mixgevCdf g b ∧ b - a ≤ 1e-6 * ((|a| + |b|) + 1e-9) := by
  obtain ⟨h0, h1⟩ := mixgevCdf_tendsto ok
  obtain ⟨hmono, _, _⟩ := mixgev_textbook_laws ok
  obtain ⟨XL, hXL⟩ := (h0.eventually (gt_mem_nhds hp0)).exists
  obtain ⟨XR, hXR⟩ := (h1.eventually (lt_mem_nhds hp1)).exists
  have hL : ∀ x, x ≤ XL → mixgevCdf g x ≤ p := fun x hx => (hmono hx).trans hXL.le
  have hR : ∀ x, XR ≤ x → p ≤ mixgevCdf g x := fun x hx => hXR.le.trans (hmono hx)
  obtain ⟨r, hr, x1, x2, a, b, _, hab, _, hca, hcb, hrm, hw⟩ := BisectTotal.invcdfMix_total (cdf := mixgevCdf g) (p := p) (m := m) hL hR
  exact ⟨XL, XR, r, hL, hR, hr, a, b, hab, hrm, hca, hcb, hw⟩

/-! ## the TRANSLATED `esl_mixgev_invcdf` on its TRANSLATED cdf, unconditionally -/

theorem branch_atBot {μ l α : ℝ} (hl : 0 < l) (hα : α ≠ 0) : ∀ᶠ x in atBot, ¬ |l * (x - μ) * α| < 1e-12 := by
  have h1 : Tendsto (fun x : ℝ => |l * (x - μ)| * |α|) atBot atTop :=
    (tendsto_abs_atBot_atTop.comp (GumbelThm.lin_tendsto_atBot (μ := μ) hl)).atTop_mul_const (abs_pos.mpr hα)
  filter_upwards [h1.eventually (eventually_ge_atTop 1)] with x hx
  rw [abs_mul]; exact not_lt.mpr (le_trans (by norm_num) hx)

theorem branch_atTop {μ l α : ℝ} (hl : 0 < l) (hα : α ≠ 0) : ∀ᶠ x in atTop, ¬ |l * (x - μ) * α| < 1e-12 := by
  have h1 : Tendsto (fun x : ℝ => |l * (x - μ)| * |α|) atTop atTop :=
    (tendsto_abs_atTop_atTop.comp (GumbelThm.lin_tendsto_atTop (μ := μ) hl)).atTop_mul_const (abs_pos.mpr hα)
  filter_upwards [h1.eventually (eventually_ge_atTop 1)] with x hx
  rw [abs_mul]; exact not_lt.mpr (le_trans (by norm_num) hx)

/-- far enough out on either side every component is in its GEV branch, where the translated mixture cdf IS the textbook one -/
theorem gevBranch_eventually {g : ESL_MIXGEV ℝ} (ok : MixgevOK g) :
    (∀ᶠ x in atBot, GevBranch g x) ∧ (∀ᶠ x in atTop, GevBranch g x) := by
  constructor
  · have := (eventually_all_finset (range g.K)).mpr fun k hk =>
      branch_atBot (μ := gm g k) (ok k (mem_range.mp hk)).2.1 (ok k (mem_range.mp hk)).2.2
    filter_upwards [this] with x hx k hk using hx k (mem_range.mpr hk)
  · have := (eventually_all_finset (range g.K)).mpr fun k hk =>
      branch_atTop (μ := gm g k) (ok k (mem_range.mp hk)).2.1 (ok k (mem_range.mp hk)).2.2
    filter_upwards [this] with x hx k hk using hx k (mem_range.mpr hk)

/-- **`esl_mixgev_invcdf` is total** (TRANSLATED function on its TRANSLATED cdf), every `K`, every `p ∈ (0, Σq)`, no hypothesis
    on the cdf: bracketing points exist (limits of the textbook mixture + the code IS the textbook mixture outside the
    components' Gumbel slivers), the fuel bound is `fuelMix`, the value is the midpoint of a final bracket of the code's own cdf
    obeying the C stop rule. -/
theorem mixgev_invcdf_total_all {g : ESL_MIXGEV ℝ} (ok : MixgevOK g) {p : ℝ} (hp0 : 0 < p) (hp1 : p < mixgevQ g) :
    ∃ XL XR r, (∀ x, x ≤ XL → esl_mixgev_cdf x g ≤ p) ∧ (∀ x, XR ≤ x → p ≤ esl_mixgev_cdf x g) ∧
      (∀ fuel, BisectTotal.fuelMix (esl_vec_DMin g.mu g.K - XL) (XR - esl_vec_DMin g.mu g.K) ≤ fuel →
        esl_mixgev_invcdf fuel p g = some r) ∧
      ∃ a b, a ≤ b ∧ r = (a + b) / 2 ∧ esl_mixgev_cdf a g ≤ p ∧ p ≤ esl_mixgev_cdf b g ∧ b - a ≤ 1e-6 * ((|a| + |b|) + 1e-9) := by
  obtain ⟨h0, h1⟩ := mixgevCdf_tendsto ok
  obtain ⟨b0, b1⟩ := gevBranch_eventually ok
  obtain ⟨XL, hXL⟩ := eventually_atBot.mp ((h0.eventually (gt_mem_nhds hp0)).and b0)
  obtain ⟨XR, hXR⟩ := eventually_atTop.mp ((h1.eventually (lt_mem_nhds hp1)).and b1)
  have hL : ∀ x, x ≤ XL → esl_mixgev_cdf x g ≤ p := fun x hx => by
    rw [(mixgev_code_eq_textbook ok (hXL x hx).2).1]; exact (hXL x hx).1.le
  have hR : ∀ x, XR ≤ x → p ≤ esl_mixgev_cdf x g := fun x hx => by
    rw [(mixgev_code_eq_textbook ok (hXR x hx).2).1]; exact (hXR x hx).1.le
  obtain ⟨r, hr, hfin⟩ := InvTotal.mixgev_invcdf_total g hL hR
  exact ⟨XL, XR, r, hL, hR, hr, hfin⟩

end EaselModel.Dist.Limits
