import EaselModel.Dist.SpecialFamThm
import Mathlib.Tactic.Positivity
import Mathlib.Tactic.FieldSimp
/-! Round 6: one of the named special-function hypotheses DISCHARGED on half of its domain.
    `esl_stats_IncompleteGamma(a, x)` uses the series `Σ_n x^n / (a (a+1) ⋯ (a+n))` for `x ≤ a + 1` and stops when the last
    term is below `1e-7` of the sum (at most 9999 terms).  Over `ℝ`, for `0 < a ≤ 20` (the property's shape range: `τ` for
    the gamma, `1/τ` for the stretched exponential, `τ ∈ [0.05, 20]`) and `0 ≤ x ≤ a + 1` the loop RETURNS within 45 terms:
    the `k`-th term relative to the sum is at most `Π_{j≤k} x/(a+j)`, every factor is `≤ 1` and from `j = 22` on `≤ 1/2`.
    So `(realIncGamma a x).isSome` there, and `esl_gam_cdf + esl_gam_surv = 1`, `esl_sxp_cdf + esl_sxp_surv = 1` hold
    UNCONDITIONALLY on that part of the support (left of the series / continued-fraction switch). -/
noncomputable section
namespace EaselModel.Dist.SeriesConv
open Real EaselModel.Dist EaselModel.Dist.Gen

/-- bound on `a · val_k` -/
def beta (k : ℕ) : ℝ := if k ≤ 21 then 1 else (1 / 2) ^ (k - 21)

theorem beta_pos (k : ℕ) : 0 < beta k := by unfold beta; split_ifs <;> positivity

theorem beta_step (k : ℕ) {c : ℝ} (_hc0 : 0 ≤ c) (hc1 : c ≤ 1) (hc2 : 22 ≤ k + 1 → c ≤ 1 / 2) : beta k * c ≤ beta (k + 1) := by
  unfold beta
  by_cases h : k + 1 ≤ 21
  · rw [if_pos (by omega), if_pos h]; linarith
  · have h22 : 22 ≤ k + 1 := by omega
    rw [if_neg h]
    by_cases hk : k ≤ 21
    · rw [if_pos hk]
      have : k + 1 - 21 = 1 := by omega
      rw [this, pow_one, one_mul]; exact hc2 h22
    · rw [if_neg hk]
      have : k + 1 - 21 = (k - 21) + 1 := by omega
      rw [this, pow_succ]
      exact mul_le_mul_of_nonneg_left (hc2 h22) (by positivity)

theorem beta_45 : beta 45 < 1e-7 := by
  unfold beta; norm_num

theorem lit7 : (1.0e-7 : ℝ) = 1e-7 := by norm_num

/-- the series loop returns: invariant `it = k + 1`, `val ≥ 0`, `p ≥ 1/a`, `a · val ≤ beta k` -/
theorem series_returns {a x : ℝ} (ha : 0 < a) (ha20 : a ≤ 20) (hx0 : 0 ≤ x) (hx : x ≤ a + 1) :
    ∀ (n k : ℕ) (val p : ℝ), k ≤ 44 → 45 ≤ n + k → 0 ≤ val → 1 / a ≤ p → a * val ≤ beta k →
      (Special.seriesLoop (fun t : ℝ => |t|) a x n ((k : ℝ) + 1) val p).isSome := by
  intro n
  induction n with
  | zero => intro k _ _ hk hnk; omega
  | succ n ih =>
    intro k val p hk hnk hval hp hb
    have hden : 0 < a + ((k : ℝ) + 1) := by positivity
    have hc0 : 0 ≤ x / (a + ((k : ℝ) + 1)) := div_nonneg hx0 hden.le
    have hc1 : x / (a + ((k : ℝ) + 1)) ≤ 1 := by
      rw [div_le_one hden]
      have : (0 : ℝ) ≤ k := Nat.cast_nonneg k
      linarith
    have hc2 : 22 ≤ k + 1 → x / (a + ((k : ℝ) + 1)) ≤ 1 / 2 := by
      intro h22
      rw [div_le_iff₀ hden]
      have : (22 : ℝ) ≤ (k : ℝ) + 1 := by exact_mod_cast h22
      linarith
    have hval' : 0 ≤ val * (x / (a + ((k : ℝ) + 1))) := mul_nonneg hval hc0
    have hp' : 1 / a ≤ p + val * (x / (a + ((k : ℝ) + 1))) := by linarith
    have hb' : a * (val * (x / (a + ((k : ℝ) + 1)))) ≤ beta (k + 1) := by
      have h1 : a * (val * (x / (a + ((k : ℝ) + 1)))) = (a * val) * (x / (a + ((k : ℝ) + 1))) := by ring
      rw [h1]
      exact (mul_le_mul_of_nonneg_right hb hc0).trans (beta_step k hc0 hc1 hc2)
    have hppos : 0 < p + val * (x / (a + ((k : ℝ) + 1))) := lt_of_lt_of_le (by positivity) hp'
    -- the relative size of the new term
    have hrel : |val * (x / (a + ((k : ℝ) + 1))) / (p + val * (x / (a + ((k : ℝ) + 1))))| ≤ beta (k + 1) := by
      rw [abs_of_nonneg (div_nonneg hval' hppos.le), div_le_iff₀ hppos]
      have h1 : beta (k + 1) * (1 / a) ≤ beta (k + 1) * (p + val * (x / (a + ((k : ℝ) + 1)))) :=
        mul_le_mul_of_nonneg_left hp' (beta_pos _).le
      have h2 : val * (x / (a + ((k : ℝ) + 1))) ≤ beta (k + 1) * (1 / a) := by
        rw [mul_one_div, le_div_iff₀ ha]; linarith
      linarith
    simp only [Special.seriesLoop, lit7]
    split_ifs with htest
    · rfl
    · -- the test failed: the relative term is still ≥ 1e-7, so `k + 1 < 45`
      have hk1 : k + 1 ≤ 44 := by
        by_contra hcon
        have h45 : k + 1 = 45 := by omega
        rw [h45] at hrel
        exact htest (lt_of_le_of_lt hrel beta_45)
      have e : (k : ℝ) + 1 + 1.0 = ((k + 1 : ℕ) : ℝ) + 1 := by push_cast; norm_num
      rw [e]
      exact ih (k + 1) _ _ hk1 (by omega) hval' hp' hb'

/-- `esl_stats_IncompleteGamma` converges on the series branch for shapes up to 20 -/
theorem realIncGamma_isSome_series {a x : ℝ} (ha : 0 < a) (ha20 : a ≤ 20) (hx0 : 0 ≤ x) (hx : x ≤ a + 1) :
    (realIncGamma a x).isSome := by
  have hs := series_returns ha ha20 hx0 hx 9999 0 (1 / a) (1 / a) (by norm_num) (by norm_num) (by positivity) le_rfl
    (by rw [mul_one_div, div_self (ne_of_gt ha)]; unfold beta; norm_num)
  have e : ((0 : ℕ) : ℝ) + 1 = 1.0 := by norm_num
  rw [e] at hs
  obtain ⟨p, hp⟩ := Option.isSome_iff_exists.mp hs
  unfold realIncGamma Special.incGamma
  have l0 : (0.0 : ℝ) = 0 := by norm_num
  have l1 : (1.0 : ℝ) = 1 := by norm_num
  simp only [l0]
  rw [if_neg (not_le.mpr ha), if_neg (not_lt.mpr hx0), if_neg (by rw [l1]; exact not_lt.mpr hx)]
  have hp' : Special.seriesLoop (fun t : ℝ => |t|) a x 9999 1.0 (1.0 / a) (1.0 / a) = some p := by
    rw [l1] at hp ⊢; exact hp
  rw [hp']
  rfl

/-- gamma: `cdf + surv = 1` unconditionally for `τ ≤ 20` left of the switch `λ(x−μ) ≤ τ + 1` (and below the support) -/
theorem gam_cdf_add_surv_series {x μ l τ : ℝ} (hτ : 0 < τ) (hτ20 : τ ≤ 20) (hy : l * (x - μ) ≤ τ + 1) :
    esl_gam_cdf x μ l τ + esl_gam_surv x μ l τ = 1 :=
  SpecialFamThm.gam_cdf_add_surv fun h => realIncGamma_isSome_series hτ hτ20 h.le hy

/-- stretched exponential: `cdf + surv = 1` unconditionally for `τ ≥ 1/20` where `(λ(x−μ))^τ ≤ 1/τ + 1` (and at / below `μ`) -/
theorem sxp_cdf_add_surv_series {x μ l τ : ℝ} (hτ : 0 < τ) (hτ20 : 1 / τ ≤ 20)
    (hy : μ < x → exp (τ * log (l * (x - μ))) ≤ 1 / τ + 1) :
    esl_sxp_cdf x μ l τ + esl_sxp_surv x μ l τ = 1 :=
  SpecialFamThm.sxp_cdf_add_surv fun h => realIncGamma_isSome_series (one_div_pos.mpr hτ) hτ20 (exp_pos _).le (hy h)

end EaselModel.Dist.SeriesConv
