import EaselModel.Dist.RealInst
import EaselModel.Dist.Spec
import EaselModel.Dist.Lemmas
import EaselModel.Generated.Dist
import Mathlib.Analysis.SpecialFunctions.ExpDeriv
import Mathlib.Tactic.Ring
import Mathlib.Tactic.FieldSimp
/-! Exponential distribution: L2 (textbook laws) and L1 (translated `esl_exp_*` at `ℝ` vs textbook). -/
noncomputable section
namespace EaselModel.Dist.ExpThm
open Real EaselModel.Dist EaselModel.Dist.Gen EaselModel.Dist.Spec

/-! ## L2 -/
theorem expCdf_add_expSurv (μ l x : ℝ) : expCdf μ l x + expSurv μ l x = 1 := by
  unfold expCdf expSurv; split_ifs <;> ring

theorem expCdf_mono {μ l : ℝ} (hl : 0 ≤ l) : Monotone (expCdf μ l) := by
  intro a b hab
  unfold expCdf
  split_ifs with h1 h2 h2
  · exact le_refl _
  · have : 0 ≤ l * (b - μ) := mul_nonneg hl (by linarith)
    have : exp (-(l * (b - μ))) ≤ 1 := by rw [exp_le_one_iff]; linarith
    linarith
  · exfalso; linarith
  · have : l * (a - μ) ≤ l * (b - μ) := mul_le_mul_of_nonneg_left (by linarith) hl
    have : exp (-(l * (b - μ))) ≤ exp (-(l * (a - μ))) := exp_le_exp.mpr (by linarith)
    linarith

theorem expCdf_nonneg {μ l : ℝ} (hl : 0 ≤ l) (x : ℝ) : 0 ≤ expCdf μ l x := by
  unfold expCdf; split_ifs with h
  · exact le_refl _
  · have : 0 ≤ l * (x - μ) := mul_nonneg hl (by linarith)
    have : exp (-(l * (x - μ))) ≤ 1 := by rw [exp_le_one_iff]; linarith
    linarith

theorem expCdf_lt_one (μ l x : ℝ) : expCdf μ l x < 1 := by
  unfold expCdf; split_ifs
  · exact one_pos
  · have := exp_pos (-(l * (x - μ))); linarith

theorem expCdf_below {μ l x : ℝ} (h : x < μ) : expCdf μ l x = 0 := by simp [expCdf, h]

theorem expCdf_tendsto_one {μ l : ℝ} (hl : 0 < l) : Filter.Tendsto (expCdf μ l) Filter.atTop (nhds 1) := by
  have h1 : Filter.Tendsto (fun x : ℝ => l * (x - μ)) Filter.atTop Filter.atTop :=
    Filter.Tendsto.const_mul_atTop hl (Filter.tendsto_atTop_add_const_right _ _ Filter.tendsto_id)
  have h2 : Filter.Tendsto (fun x : ℝ => exp (-(l * (x - μ)))) Filter.atTop (nhds 0) :=
    Real.tendsto_exp_neg_atTop_nhds_zero.comp h1
  have h3 : Filter.Tendsto (fun x : ℝ => 1 - exp (-(l * (x - μ)))) Filter.atTop (nhds (1 - 0)) :=
    tendsto_const_nhds.sub h2
  rw [sub_zero] at h3
  refine h3.congr' ?_
  filter_upwards [Filter.eventually_ge_atTop μ] with x hx
  simp [expCdf, not_lt.mpr hx]

theorem expInvCdf_expCdf {μ l x : ℝ} (hl : l ≠ 0) (hx : μ ≤ x) : expInvCdf μ l (expCdf μ l x) = x := by
  unfold expInvCdf expCdf
  rw [if_neg (not_lt.mpr hx)]
  have : (1 : ℝ) - (1 - exp (-(l * (x - μ)))) = exp (-(l * (x - μ))) := by ring
  rw [this, log_exp]; field_simp; ring

theorem expInvSurv_expSurv {μ l x : ℝ} (hl : l ≠ 0) (hx : μ ≤ x) : expInvSurv μ l (expSurv μ l x) = x := by
  unfold expInvSurv expSurv
  rw [if_neg (not_lt.mpr hx), log_exp]; field_simp; ring

theorem expCdf_hasDerivAt {μ l x : ℝ} (hx : μ < x) : HasDerivAt (expCdf μ l) (expPdf μ l x) x := by
  have hd : HasDerivAt (fun x : ℝ => 1 - exp (-(l * (x - μ)))) (l * exp (-(l * (x - μ)))) x := by
    have h1 : HasDerivAt (fun x : ℝ => -(l * (x - μ))) (-l) x := by
      have h := ((hasDerivAt_id x).sub_const μ).const_mul (-l)
      have e : (fun x : ℝ => -(l * (x - μ))) = fun x => -l * (id x - μ) := by funext z; simp
      rw [e]; simpa using h
    have h2 := (h1.exp).const_sub 1
    exact h2.congr_deriv (by ring)
  have hev : (expCdf μ l) =ᶠ[nhds x] (fun x : ℝ => 1 - exp (-(l * (x - μ)))) := by
    filter_upwards [lt_mem_nhds hx] with z hz
    simp [expCdf, not_lt.mpr (le_of_lt hz)]
  have hp : expPdf μ l x = l * exp (-(l * (x - μ))) := by simp [expPdf, not_lt.mpr (le_of_lt hx)]
  rw [hp]; exact hd.congr_of_eventuallyEq hev

theorem expCdf_hasDerivAt_below {μ l x : ℝ} (hx : x < μ) : HasDerivAt (expCdf μ l) (expPdf μ l x) x := by
  have hev : (expCdf μ l) =ᶠ[nhds x] (fun _ : ℝ => (0 : ℝ)) := by
    filter_upwards [gt_mem_nhds hx] with z hz
    simp [expCdf, hz]
  have hp : expPdf μ l x = 0 := by simp [expPdf, hx]
  rw [hp]; exact (hasDerivAt_const x (0 : ℝ)).congr_of_eventuallyEq hev

/-! ## L1: the translated code at `ℝ` -/
theorem code_pdf (x μ l : ℝ) : esl_exp_pdf x μ l = expPdf μ l x := by
  unfold esl_exp_pdf expPdf; split_ifs <;> simp [neg_mul]

theorem code_surv (x μ l : ℝ) : esl_exp_surv x μ l = expSurv μ l x := by
  unfold esl_exp_surv expSurv; split_ifs <;> simp [neg_mul]

/-- `esl_exp_cdf` equals the textbook cdf up to `2.5e-17` (exactly, outside the `y < eslSMALLX1` branch). -/
theorem code_cdf {μ l : ℝ} (hl : 0 ≤ l) (x : ℝ) : |esl_exp_cdf x μ l - expCdf μ l x| ≤ 2.5e-17 := by
  unfold esl_exp_cdf expCdf
  simp only [num_exp, lit_one, lit_zero]
  split_ifs with h1 h2
  · norm_num
  · have hy0 : 0 ≤ l * (x - μ) := mul_nonneg hl (by linarith)
    have hy1 : l * (x - μ) ≤ 5e-9 := by norm_num at h2 ⊢; first | exact h2 | exact le_of_lt h2
    have := one_sub_exp_neg_approx (t := l * (x - μ)) (by rw [abs_of_nonneg hy0]; linarith)
    have hsq : (l * (x - μ)) ^ 2 ≤ 2.5e-17 := by nlinarith
    exact le_trans this hsq
  · norm_num

theorem code_cdf_add_surv {μ l : ℝ} (hl : 0 ≤ l) (x : ℝ) :
    |esl_exp_cdf x μ l + esl_exp_surv x μ l - 1| ≤ 2.5e-17 := by
  have h := code_cdf (μ := μ) hl x
  rw [code_surv]
  have e : esl_exp_cdf x μ l + expSurv μ l x - 1 = esl_exp_cdf x μ l - expCdf μ l x := by
    have := expCdf_add_expSurv μ l x; linarith
  rw [e]; exact h

theorem code_logsurv {μ l x : ℝ} (hx : μ ≤ x) : esl_exp_logsurv x μ l = log (expSurv μ l x) := by
  unfold esl_exp_logsurv expSurv
  rw [if_neg (not_lt.mpr hx), if_neg (not_lt.mpr hx), log_exp]; ring

theorem code_logsurv_below {μ l x : ℝ} (hx : x < μ) : esl_exp_logsurv x μ l = log (expSurv μ l x) := by
  unfold esl_exp_logsurv expSurv
  rw [if_pos hx, if_pos hx]; simp

theorem code_logpdf {μ l x : ℝ} (hl : 0 < l) (hfin : l ≠ (Num.inf : ℝ)) (hx : μ ≤ x) :
    esl_exp_logpdf x μ l = log (expPdf μ l x) := by
  unfold esl_exp_logpdf expPdf
  rw [if_neg (not_lt.mpr hx), if_neg (not_lt.mpr hx)]
  rw [if_neg (by simpa using hfin)]
  simp only [num_log]
  rw [log_mul (ne_of_gt hl) (exp_ne_zero _), log_exp]; ring

/-- `esl_exp_logcdf` vs `log (cdf)`: within `1e-8` on the whole support interior (three branches). -/
theorem code_logcdf {μ l x : ℝ} (hl : 0 < l) (hx : μ < x) :
    |esl_exp_logcdf x μ l - log (expCdf μ l x)| ≤ 1e-8 := by
  have hy : 0 < l * (x - μ) := mul_pos hl (by linarith)
  unfold esl_exp_logcdf expCdf
  simp only [num_exp, num_log, lit_one, lit_zero]
  rw [if_neg (not_lt.mpr (le_of_lt hx)), if_neg (not_lt.mpr (le_of_lt hx))]
  rw [if_neg (by rw [num_eqb]; exact ne_of_gt hy)]
  split_ifs with h2 h3
  · have hy1 : l * (x - μ) ≤ 5e-9 := by norm_num at h2 ⊢; first | exact h2 | exact le_of_lt h2
    have := log_one_sub_exp_neg_approx hy (by linarith)
    linarith
  · have hc1 : exp (-(l * (x - μ))) ≤ 5e-9 := by norm_num at h3 ⊢; first | exact h3 | exact le_of_lt h3
    have hc0 : 0 ≤ exp (-(l * (x - μ))) := le_of_lt (exp_pos _)
    have := log_one_sub_approx hc0 (by linarith)
    have e : -exp (-(l * (x - μ))) - log (1 - exp (-(l * (x - μ)))) = -(log (1 - exp (-(l * (x - μ)))) + exp (-(l * (x - μ)))) := by ring
    rw [e, abs_neg]
    have : 2 * exp (-(l * (x - μ))) ^ 2 ≤ 1e-8 := by nlinarith
    linarith
  · simp; norm_num

theorem code_invcdf {μ l : ℝ} (p : ℝ) : esl_exp_invcdf p μ l = expInvCdf μ l p := by
  unfold esl_exp_invcdf expInvCdf; simp only [num_log, lit_one]; ring

theorem code_invsurv {μ l : ℝ} (p : ℝ) : esl_exp_invsurv p μ l = expInvSurv μ l p := by
  unfold esl_exp_invsurv expInvSurv; simp only [num_log, lit_one]; ring

theorem code_sample (u μ l : ℝ) : esl_exp_Sample u μ l = esl_exp_invsurv u μ l := rfl

end EaselModel.Dist.ExpThm
