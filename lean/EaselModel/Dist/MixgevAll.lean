import EaselModel.Dist.MixGen
import EaselModel.Dist.GevDist
/-! Mixture of GEVs at EVERY argument (no `GevBranch` hypothesis): a component inside its `|α y| < 1e-12` Gumbel sliver
    contributes the Gumbel-vs-GEV distance of `Dist/GevDist.lean`, a component outside it contributes nothing, so the
    translated mixture cdf is within `Σ_k q_k · 4e-12·|y_k|·e^{-y_k}` of the textbook mixture cdf, the survival within that
    plus `2.3e-16·Σq`. -/
noncomputable section
namespace EaselModel.Dist.MixgevAll
open Real Finset EaselModel.Dist EaselModel.Dist.Gen EaselModel.Dist.Spec EaselModel.Dist.MixGen

/-- standardised argument of component `k` -/
def yk (g : ESL_MIXGEV ℝ) (x : ℝ) (k : ℕ) : ℝ := gl g k * (x - gm g k)

theorem gev_cdf_close_any {x μ l α : ℝ} (hl : 0 < l) (hα : α ≠ 0) (hy : |l * (x - μ)| ≤ 1e11) :
    |esl_gev_cdf x μ l α - gevCdf μ l α x| ≤ 4e-12 * |l * (x - μ)| * exp (-(l * (x - μ))) := by
  by_cases hg : |l * (x - μ) * α| < 1e-12
  · exact GevDist.gumbel_branch_cdf_dist hα hg hy
  · rw [GevThm.code_cdf hl hg, sub_self, abs_zero]; positivity

theorem gev_surv_close_any {x μ l α : ℝ} (hl : 0 < l) (hα : α ≠ 0) (hy : |l * (x - μ)| ≤ 1e11) :
    |esl_gev_surv x μ l α - gevSurv μ l α x| ≤ 2.3e-16 + 4e-12 * |l * (x - μ)| * exp (-(l * (x - μ))) := by
  by_cases hg : |l * (x - μ) * α| < 1e-12
  · exact GevDist.gumbel_branch_surv_dist hα hg hy
  · have := GevThm.code_surv (x := x) (μ := μ) (α := α) hl hg
    have h0 : 0 ≤ 4e-12 * |l * (x - μ)| * exp (-(l * (x - μ))) := by positivity
    linarith

theorem mixgev_close_everywhere {g : ESL_MIXGEV ℝ} (ok : MixgevOK g) {x : ℝ} (hy : ∀ k < g.K, |yk g x k| ≤ 1e11) :
    |esl_mixgev_cdf x g - mixgevCdf g x| ≤ ∑ k ∈ range g.K, gq g k * (4e-12 * |yk g x k| * exp (-(yk g x k))) ∧
    |esl_mixgev_surv x g - mixgevSurv g x| ≤
      2.3e-16 * mixgevQ g + ∑ k ∈ range g.K, gq g k * (4e-12 * |yk g x k| * exp (-(yk g x k))) := by
  constructor
  · rw [mixgev_cdf_sum]; unfold mixgevCdf
    rw [← sum_sub_distrib]
    refine (abs_sum_le_sum_abs _ _).trans (sum_le_sum fun k hk => ?_)
    have hk' := mem_range.mp hk
    rw [← mul_sub, abs_mul, abs_of_nonneg (ok k hk').1]
    exact mul_le_mul_of_nonneg_left (gev_cdf_close_any (ok k hk').2.1 (ok k hk').2.2 (hy k hk')) (ok k hk').1
  · rw [mixgev_surv_sum]; unfold mixgevSurv mixgevQ
    rw [← sum_sub_distrib, mul_sum, ← sum_add_distrib]
    refine (abs_sum_le_sum_abs _ _).trans (sum_le_sum fun k hk => ?_)
    have hk' := mem_range.mp hk
    rw [← mul_sub, abs_mul, abs_of_nonneg (ok k hk').1]
    have := mul_le_mul_of_nonneg_left (gev_surv_close_any (ok k hk').2.1 (ok k hk').2.2 (hy k hk')) (ok k hk').1
    unfold yk; linarith

end EaselModel.Dist.MixgevAll
