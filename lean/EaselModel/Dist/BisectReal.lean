import EaselModel.Dist.BisectGen
import EaselModel.Dist.BisectThm
/-! On ℝ the translated `esl_hxp_invcdf` (whose bracketing loop also tests `x2 < eslINFINITY` since 55bbf88) is the
    unguarded generic inverse: every real number is below +infinity. -/
noncomputable section
namespace EaselModel.Dist.BisectReal
open EaselModel.Dist EaselModel.Dist.Gen EaselModel.Dist.Bisect

theorem hxp_invcdf_real (fuel : Nat) (p : ℝ) (h : ESL_HYPEREXP ℝ) :
    esl_hxp_invcdf fuel p h = invcdfRight fuel (fun x => esl_hxp_cdf x h) p h.mu :=
  (BisectGen.hxp_invcdf fuel p h).trans (BisectThm.invcdfRightLim_real fuel _ p h.mu)

end EaselModel.Dist.BisectReal
