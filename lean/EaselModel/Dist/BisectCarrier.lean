import EaselModel.Dist.Bisect
/-! The repaired right bracketing loop of `esl_hxp_invcdf` / `esl_mixgev_invcdf` (55bbf88:
    `do { x2 = x2 + 2.*(x2-x1); f2 = cdf(x2); } while (f2 < p && x2 < eslINFINITY);`) RETURNS on every carrier whose
    tripling sequence `x2 ← x2 + 2·(x2 − x1)` reaches, within the fuel, a point that is not below `eslINFINITY` —
    whatever the cdf does, in particular when `cdf < p` everywhere (`p` above the largest value the cdf attains), the
    case in which the unguarded loop (and the ℝ reading of the guarded one, `BisectTerm.invcdfRight_never`) runs forever.
    The carrier facts are hypotheses, never assumed: (R) `reach`: `Num.ltInf (tripled^[k+1] x2) = false` for some `k < fuel`;
    (A) `absorb`: `x2 ≤ (x1 + x2) / 2` at that point (in binary64 `(x1 + inf)/2 = inf`).  `reachInf` computes the `k` of (R)
    and the driver evaluates it, and (A), at `Float` against the C loop (`bracketlim` op) — the non-vacuity check for
    binary64.  Core Lean only (imported by the driver). -/
set_option linter.unusedSectionVars false
namespace EaselModel.Dist.BisectCarrier
open EaselModel.Dist EaselModel.Dist.Bisect
variable {α : Type} [Add α] [Sub α] [Mul α] [Div α] [Neg α] [OfScientific α] [LT α] [LE α]
  [DecidableLT α] [DecidableLE α] [Num α]

/-- one pass of the loop body: `x2 = x2 + 2.*(x2-x1)` -/
def triple (x1 x2 : α) : α := x2 + 2.0 * (x2 - x1)

/-- the bracket after `n` passes -/
def tripled (x1 : α) : Nat → α → α
  | 0, x2 => x2
  | n + 1, x2 => tripled x1 n (triple x1 x2)

/-- number of passes (counted from 0) after which the bracket is no longer below `eslINFINITY`; `none` = not within `fuel` -/
def reachInf (x1 : α) : Nat → α → Option Nat
  | 0, _ => none
  | n + 1, x2 =>
    if Num.ltInf (triple x1 x2) = true then (reachInf x1 n (triple x1 x2)).map (· + 1) else some 0

theorem reachInf_spec (x1 : α) : ∀ (fuel : Nat) (x2 : α) (k : Nat), reachInf x1 fuel x2 = some k →
    k < fuel ∧ Num.ltInf (tripled x1 (k + 1) x2) = false ∧ ∀ j < k, Num.ltInf (tripled x1 (j + 1) x2) = true := by
  intro fuel
  induction fuel with
  | zero => intro x2 k h; simp [reachInf] at h
  | succ n ih =>
    intro x2 k h
    simp only [reachInf] at h
    split at h
    · rename_i hlt
      cases hr : reachInf x1 n (triple x1 x2) with
      | none => simp [hr] at h
      | some k' =>
        simp only [hr, Option.map_some, Option.some.injEq] at h
        subst h
        obtain ⟨h1, h2, h3⟩ := ih _ _ hr
        refine ⟨by omega, h2, ?_⟩
        intro j hj
        cases j with
        | zero => exact hlt
        | succ j => exact h3 j (by omega)
    · rename_i hlt
      simp only [Option.some.injEq] at h
      subst h
      exact ⟨by omega, by simpa [tripled] using hlt, fun j hj => absurd hj (by omega)⟩

/-- **The repaired bracketing loop returns** (every carrier, every cdf, every `p`): if the tripling sequence leaves
    `< eslINFINITY` after `k + 1 ≤ fuel` passes, the loop stops after at most `k + 1` passes, at a point `r` of the
    sequence where `¬ cdf r < p` or `r` is not below `eslINFINITY`. -/
theorem bracketRightLim_returns (cdf : α → α) (p x1 : α) : ∀ (fuel k : Nat) (x2 : α), k < fuel →
    Num.ltInf (tripled x1 (k + 1) x2) = false →
    ∃ j r, j ≤ k ∧ r = tripled x1 (j + 1) x2 ∧ bracketRightLim cdf p x1 fuel x2 = some r ∧
      (¬ cdf r < p ∨ Num.ltInf r = false) := by
  intro fuel
  induction fuel with
  | zero => intro k x2 hk; omega
  | succ n ih =>
    intro k x2 hk hinf
    simp only [bracketRightLim]
    by_cases hc : cdf (x2 + 2.0 * (x2 - x1)) < p ∧ Num.ltInf (x2 + 2.0 * (x2 - x1)) = true
    · rw [if_pos hc]
      cases k with
      | zero => exact absurd hc.2 (by simpa [tripled, triple] using hinf)
      | succ k =>
        obtain ⟨j, r, hj, hr, hb, hstop⟩ := ih k (x2 + 2.0 * (x2 - x1)) (by omega) (by simpa [tripled, triple] using hinf)
        exact ⟨j + 1, r, by omega, by simpa [tripled, triple] using hr, hb, hstop⟩
    · rw [if_neg hc]
      refine ⟨0, _, by omega, by simp [tripled, triple], rfl, ?_⟩
      by_cases h1 : cdf (x2 + 2.0 * (x2 - x1)) < p
      · right
        cases hb : Num.ltInf (x2 + 2.0 * (x2 - x1)) with
        | false => rfl
        | true => exact absurd ⟨h1, hb⟩ hc
      · left; exact h1

/-- when the cdf stays below `p` everywhere (the input class of 55bbf88), the loop returns exactly the first point of
    the tripling sequence that is not below `eslINFINITY` -/
theorem bracketRightLim_above_sup (cdf : α → α) (p x1 : α) (hsup : ∀ x, cdf x < p) : ∀ (fuel k : Nat) (x2 : α),
    reachInf x1 fuel x2 = some k → bracketRightLim cdf p x1 fuel x2 = some (tripled x1 (k + 1) x2) := by
  intro fuel
  induction fuel with
  | zero => intro k x2 h; simp [reachInf] at h
  | succ n ih =>
    intro k x2 h
    simp only [reachInf] at h
    simp only [bracketRightLim]
    split at h
    · rename_i hlt
      cases hr : reachInf x1 n (triple x1 x2) with
      | none => simp [hr] at h
      | some k' =>
        simp only [hr, Option.map_some, Option.some.injEq] at h
        subst h
        rw [if_pos ⟨hsup _, hlt⟩]
        exact ih k' _ hr
    · rename_i hlt
      simp only [Option.some.injEq] at h
      subst h
      rw [if_neg (fun hc => hlt hc.2)]
      simp [tripled, triple]

/-- the bisection that follows stops in its first pass when the midpoint is not below the right end (carrier fact (A):
    in binary64 `(x1 + inf)/2 = inf`) — the C loop's no-progress `break` -/
theorem bisect_absorbed (cdf : α → α) (p mu x1 x2 : α) (n : Nat) (h : x2 ≤ (x1 + x2) / 2.0) :
    bisect cdf p mu (n + 1) x1 x2 = some ((x1 + x2) / 2.0) := by
  simp only [bisect]; rw [if_pos (Or.inr h)]

/-- **`esl_hxp_invcdf`'s generic form returns where the unguarded loop hung**: `cdf < p` everywhere, carrier facts (R)
    (as computed by `reachInf`) and (A) at the point reached ⇒ the result is the midpoint of `[mu, that point]`
    (binary64: `+inf`, the quantile of a `p` no finite `x` attains). -/
theorem invcdfRightLim_above_sup (cdf : α → α) (p mu : α) (hsup : ∀ x, cdf x < p) {fuel k : Nat}
    (hreach : reachInf mu (fuel + 1) (mu + 1.0) = some k)
    (habsorb : tripled mu (k + 1) (mu + 1.0) ≤ (mu + tripled mu (k + 1) (mu + 1.0)) / 2.0) :
    invcdfRightLim (fuel + 1) cdf p mu = some ((mu + tripled mu (k + 1) (mu + 1.0)) / 2.0) := by
  unfold invcdfRightLim
  rw [bracketRightLim_above_sup cdf p mu hsup _ _ _ hreach]
  exact bisect_absorbed cdf p mu mu _ fuel habsorb

/-! ### a four-point carrier on which the hypotheses hold (kernel-checked non-vacuity; binary64 is checked by the driver)

`Sat4 = {0, 1, 2, ∞}` with saturating addition, `x − y = x` when `y = 0`, `∞` otherwise absorbing; every other operation is
irrelevant to the loop and set to a constant. -/

/-- numbers `0, 1, 2` and `3 = ∞` -/
structure Sat4 where
  v : Fin 4
deriving DecidableEq, Repr

namespace Sat4
def sat (n : Nat) : Sat4 := ⟨⟨min n 3, by omega⟩⟩
instance : Add Sat4 := ⟨fun a b => sat (a.v.val + b.v.val)⟩
instance : Sub Sat4 := ⟨fun a b => if a.v.val = 3 then a else sat (a.v.val - b.v.val)⟩
instance : Mul Sat4 := ⟨fun a b => sat (a.v.val * b.v.val)⟩
instance : Div Sat4 := ⟨fun a b => if a.v.val = 3 then a else sat (a.v.val / max b.v.val 1)⟩
instance : Neg Sat4 := ⟨fun a => a⟩
instance : OfScientific Sat4 := ⟨fun m s e => if s then sat (m / 10 ^ e) else sat (m * 10 ^ e)⟩
instance : LT Sat4 := ⟨fun a b => a.v.val < b.v.val⟩
instance : LE Sat4 := ⟨fun a b => a.v.val ≤ b.v.val⟩
instance : DecidableLT Sat4 := fun a b => inferInstanceAs (Decidable (a.v.val < b.v.val))
instance : DecidableLE Sat4 := fun a b => inferInstanceAs (Decidable (a.v.val ≤ b.v.val))
instance : Num Sat4 where
  exp := id
  log := id
  log1p := id
  expm1 := id
  pow := fun a _ => a
  sqrt := id
  floor := id
  fabs := id
  erfc := id
  eqb := fun a b => decide (a = b)
  inf := sat 3
  ltInf := fun a => decide (a.v.val < 3)
  logGamma := id
  incGammaP := fun a _ => a
  incGammaQ := fun a _ => a
end Sat4

/-- non-vacuity of `invcdfRightLim_above_sup`: on `Sat4`, `mu = 0`, the constant cdf `0 < p = 1`: one pass reaches `∞`,
    (A) holds there, and the guarded inverse returns `∞` with fuel 1 -/
example : invcdfRightLim 1 (fun _ : Sat4 => (0.0 : Sat4)) 1.0 0.0 = some (Sat4.sat 3) := by
  have h := invcdfRightLim_above_sup (fun _ : Sat4 => (0.0 : Sat4)) 1.0 0.0 (fun _ => by decide) (fuel := 0) (k := 0)
    (by decide) (by decide)
  rw [h]; decide

end EaselModel.Dist.BisectCarrier
