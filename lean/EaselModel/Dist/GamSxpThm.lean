import EaselModel.Dist.IncGammaInt
import EaselModel.Dist.SpecialFamThm
import EaselModel.Dist.IntegralThm
/-! Gamma and stretched-exponential families: the textbook forms, built on the incomplete gamma function defined as an
    INTEGRAL (`Dist/IncGammaInt.lean`, over Mathlib's Gamma kernel), satisfy the laws of the property (L2, no hypothesis on
    any special function); and the translated `esl_gam_*` / `esl_sxp_*` differ from those textbook forms ONLY through the
    two function symbols: density = textbook × `e^{log Γ(a) − esl_stats_LogGamma(a)}`, cdf/surv = textbook +
    (`esl_stats_IncompleteGamma(a, y)` − `(P a y, Q a y)`) — unconditional identities; the size of those two
    discrepancies is L0 (monitored against mpmath), and enters the `…_close` theorems as explicit `ε`, `δ`. -/
noncomputable section
namespace EaselModel.Dist.GamSxpThm
open Real Filter EaselModel.Dist EaselModel.Dist.Gen EaselModel.Dist.IncGammaInt

/-! ## gamma -/

def gamCdf (μ l τ x : ℝ) : ℝ := if x ≤ μ then 0 else P τ (l * (x - μ))
def gamSurv (μ l τ x : ℝ) : ℝ := if x ≤ μ then 1 else Q τ (l * (x - μ))
/-- `λ^τ (x−μ)^{τ−1} e^{−λ(x−μ)} / Γ(τ)` on `x > μ` -/
def gamPdf (μ l τ x : ℝ) : ℝ := if x ≤ μ then 0 else l ^ τ * (x - μ) ^ (τ - 1) * exp (-(l * (x - μ))) / Gamma τ

theorem gamCdf_add_surv {l τ : ℝ} (hl : 0 < l) (hτ : 0 < τ) (μ x : ℝ) : gamCdf μ l τ x + gamSurv μ l τ x = 1 := by
  unfold gamCdf gamSurv
  split_ifs with h
  · norm_num
  · exact P_add_Q hτ (mul_nonneg hl.le (by linarith))

theorem gamCdf_range {l τ : ℝ} (hl : 0 < l) (hτ : 0 < τ) (μ x : ℝ) : 0 ≤ gamCdf μ l τ x ∧ gamCdf μ l τ x ≤ 1 := by
  unfold gamCdf
  split_ifs with h
  · exact ⟨le_rfl, zero_le_one⟩
  · exact ⟨P_nonneg hτ, P_le_one hτ (mul_nonneg hl.le (by linarith))⟩

theorem gamCdf_mono {l τ : ℝ} (hl : 0 < l) (hτ : 0 < τ) (μ : ℝ) : Monotone (gamCdf μ l τ) := by
  intro s t hst
  unfold gamCdf
  split_ifs with h1 h2 h2
  · exact le_rfl
  · exact P_nonneg hτ
  · exact absurd (hst.trans h2) h1
  · exact P_mono hτ (mul_nonneg hl.le (by linarith)) (mul_le_mul_of_nonneg_left (by linarith) hl.le)

theorem gamCdf_tendsto_one {l τ : ℝ} (hl : 0 < l) (hτ : 0 < τ) (μ : ℝ) : Tendsto (gamCdf μ l τ) atTop (nhds 1) := by
  have h : Tendsto (fun x => l * (x - μ)) atTop atTop :=
    (tendsto_atTop_add_const_right _ (-μ) tendsto_id).const_mul_atTop hl
  refine ((P_tendsto_atTop hτ).comp h).congr' ?_
  filter_upwards [eventually_gt_atTop μ] with x hx
  simp [gamCdf, not_le.mpr hx]

theorem kern_scaled {l τ y : ℝ} (hl : 0 < l) (hy : 0 < y) :
    kern τ (l * y) / Gamma τ * l = l ^ τ * y ^ (τ - 1) * exp (-(l * y)) / Gamma τ := by
  unfold kern
  rw [mul_rpow hl.le hy.le]
  have : l ^ τ = l ^ (τ - 1) * l := by
    rw [← rpow_add_one hl.ne']; ring_nf
  rw [this]; ring

theorem gamCdf_hasDerivAt {μ l τ x : ℝ} (hl : 0 < l) (hτ : 0 < τ) (hx : μ < x) : HasDerivAt (gamCdf μ l τ) (gamPdf μ l τ x) x := by
  have hy : 0 < l * (x - μ) := mul_pos hl (by linarith)
  have hin : HasDerivAt (fun u => l * (u - μ)) (l * 1) x := ((hasDerivAt_id x).sub_const μ).const_mul l
  have h := (P_hasDerivAt hτ hy).comp x hin
  have e : gamCdf μ l τ =ᶠ[nhds x] (P τ ∘ fun u => l * (u - μ)) := by
    filter_upwards [lt_mem_nhds hx] with u hu
    simp [gamCdf, not_le.mpr hu]
  refine (h.congr_of_eventuallyEq e).congr_deriv ?_
  rw [gamPdf, if_neg (not_le.mpr hx), mul_one, kern_scaled hl (by linarith)]

theorem gamPdf_nonneg {l τ : ℝ} (hl : 0 < l) (hτ : 0 < τ) (μ x : ℝ) : 0 ≤ gamPdf μ l τ x := by
  unfold gamPdf
  split_ifs with h
  · exact le_rfl
  · exact div_nonneg (mul_nonneg (mul_nonneg (rpow_nonneg hl.le _) (rpow_nonneg (by linarith) _)) (exp_pos _).le) (Gamma_pos_of_pos hτ).le

theorem gam_integral_pdf {μ l τ a b : ℝ} (hl : 0 < l) (hτ : 0 < τ) (ha : μ < a) (hab : a ≤ b) :
    ∫ x in a..b, gamPdf μ l τ x = gamCdf μ l τ b - gamCdf μ l τ a :=
  IntegralThm.ftc_of_nonneg hab (fun _ hx => gamCdf_hasDerivAt hl hτ (lt_of_lt_of_le ha hx.1)) fun x _ => gamPdf_nonneg hl hτ μ x

/-- `|e^d − 1| ≤ e^ε − 1` for `|d| ≤ ε` -/
theorem abs_exp_sub_one_le' {d ε : ℝ} (h : |d| ≤ ε) : |exp d - 1| ≤ exp ε - 1 := by
  have h1 : exp d ≤ exp ε := exp_le_exp.mpr ((le_abs_self d).trans h)
  have h2 : exp (-d) ≤ exp ε := exp_le_exp.mpr ((neg_le_abs d).trans h)
  have h3 := add_one_le_exp d
  have h4 := add_one_le_exp (-d)
  rw [abs_le]; constructor <;> linarith

/-- L1, UNCONDITIONAL: on `x > μ` the translated gamma density is the textbook density times `e^{log Γ(τ) − LogGamma(τ)}`,
    and the translated cdf / survival differ from the textbook ones exactly by the difference between the
    `esl_stats_IncompleteGamma` symbol and the integral `P` / `Q` — the two special-function discrepancies are the
    ONLY way the code can differ from the textbook (outside the support: `Edge.gam_*`, exact). -/
theorem gam_code_vs_textbook {x μ l τ : ℝ} (hl : 0 < l) (hτ : 0 < τ) (hx : μ < x) :
    esl_gam_pdf x μ l τ = gamPdf μ l τ x * exp (log (Gamma τ) - Num.logGamma τ) ∧
    esl_gam_cdf x μ l τ - gamCdf μ l τ x = Num.incGammaP τ (l * (x - μ)) - P τ (l * (x - μ)) ∧
    esl_gam_surv x μ l τ - gamSurv μ l τ x = Num.incGammaQ τ (l * (x - μ)) - Q τ (l * (x - μ)) := by
  have hy : 0 < l * (x - μ) := mul_pos hl (by linarith)
  have hG := Gamma_pos_of_pos hτ
  refine ⟨?_, ?_, ?_⟩
  · have h := SpecialFamThm.gam_pdf_closed (τ := τ) hl hx
    have he : esl_gam_pdf x μ l τ = l ^ τ * (x - μ) ^ (τ - 1) * exp (-(l * (x - μ))) * exp (-Num.logGamma τ) := by
      rw [← h, mul_assoc, ← exp_add, add_neg_cancel, exp_zero, mul_one]
    rw [he, gamPdf, if_neg (not_le.mpr hx), exp_sub, exp_log hG, exp_neg]
    have := exp_ne_zero (Num.logGamma τ)
    field_simp
    rw [mul_assoc, ← exp_add, neg_add_cancel, exp_zero, mul_one]
  · unfold esl_gam_cdf gamCdf; simp only [lit_zero]
    rw [if_neg (not_le.mpr hy), if_neg (not_le.mpr hx)]
  · unfold esl_gam_surv gamSurv; simp only [lit_zero]
    rw [if_neg (not_le.mpr hy), if_neg (not_le.mpr hx)]

/-- L1 with explicit tolerances: if `LogGamma` is within `ε` of `log Γ` and `IncompleteGamma`'s `P`, `Q` within `δ` of the
    integrals at the argument used, the translated density is within the relative error `e^ε − 1` of the textbook density,
    cdf and survival within `δ`, and the code's cdf + surv within `2δ` of 1. -/
theorem gam_code_close {x μ l τ ε δ : ℝ} (hl : 0 < l) (hτ : 0 < τ) (hx : μ < x)
    (hLG : |Num.logGamma τ - log (Gamma τ)| ≤ ε)
    (hP : |Num.incGammaP τ (l * (x - μ)) - P τ (l * (x - μ))| ≤ δ) (hQ : |Num.incGammaQ τ (l * (x - μ)) - Q τ (l * (x - μ))| ≤ δ) :
    |esl_gam_pdf x μ l τ - gamPdf μ l τ x| ≤ (exp ε - 1) * gamPdf μ l τ x ∧ |esl_gam_cdf x μ l τ - gamCdf μ l τ x| ≤ δ ∧
    |esl_gam_surv x μ l τ - gamSurv μ l τ x| ≤ δ ∧ |esl_gam_cdf x μ l τ + esl_gam_surv x μ l τ - 1| ≤ 2 * δ := by
  obtain ⟨h1, h2, h3⟩ := gam_code_vs_textbook hl hτ hx
  have hs := gamCdf_add_surv hl hτ μ x
  refine ⟨?_, h2 ▸ hP, h3 ▸ hQ, ?_⟩
  · rw [h1]
    have : gamPdf μ l τ x * exp (log (Gamma τ) - Num.logGamma τ) - gamPdf μ l τ x
        = gamPdf μ l τ x * (exp (log (Gamma τ) - Num.logGamma τ) - 1) := by ring
    rw [this, abs_mul, abs_of_nonneg (gamPdf_nonneg hl hτ μ x), mul_comm]
    exact mul_le_mul_of_nonneg_right (abs_exp_sub_one_le' (by rw [abs_sub_comm]; exact hLG)) (gamPdf_nonneg hl hτ μ x)
  · have e : esl_gam_cdf x μ l τ + esl_gam_surv x μ l τ - 1
        = (esl_gam_cdf x μ l τ - gamCdf μ l τ x) + (esl_gam_surv x μ l τ - gamSurv μ l τ x) := by linarith
    rw [e]
    exact (abs_add_le _ _).trans (by rw [h2, h3]; linarith)

/-! ## stretched exponential -/

def sxpCdf (μ l τ x : ℝ) : ℝ := if x ≤ μ then 0 else P (1 / τ) ((l * (x - μ)) ^ τ)
def sxpSurv (μ l τ x : ℝ) : ℝ := if x ≤ μ then 1 else Q (1 / τ) ((l * (x - μ)) ^ τ)
/-- `λ τ e^{−(λ(x−μ))^τ} / Γ(1/τ)` on `x > μ` -/
def sxpPdf (μ l τ x : ℝ) : ℝ := if x ≤ μ then 0 else l * τ * exp (-(l * (x - μ)) ^ τ) / Gamma (1 / τ)

theorem sxpCdf_add_surv {l τ : ℝ} (hl : 0 < l) (hτ : 0 < τ) (μ x : ℝ) : sxpCdf μ l τ x + sxpSurv μ l τ x = 1 := by
  unfold sxpCdf sxpSurv
  split_ifs with h
  · norm_num
  · exact P_add_Q (one_div_pos.mpr hτ) (rpow_nonneg (mul_nonneg hl.le (by linarith)) τ)

theorem sxpCdf_range {l τ : ℝ} (hl : 0 < l) (hτ : 0 < τ) (μ x : ℝ) : 0 ≤ sxpCdf μ l τ x ∧ sxpCdf μ l τ x ≤ 1 := by
  unfold sxpCdf
  split_ifs with h
  · exact ⟨le_rfl, zero_le_one⟩
  · exact ⟨P_nonneg (one_div_pos.mpr hτ), P_le_one (one_div_pos.mpr hτ) (rpow_nonneg (mul_nonneg hl.le (by linarith)) τ)⟩

theorem sxpCdf_mono {l τ : ℝ} (hl : 0 < l) (hτ : 0 < τ) (μ : ℝ) : Monotone (sxpCdf μ l τ) := by
  intro s t hst
  unfold sxpCdf
  split_ifs with h1 h2 h2
  · exact le_rfl
  · exact P_nonneg (one_div_pos.mpr hτ)
  · exact absurd (hst.trans h2) h1
  · have h0 : 0 ≤ l * (s - μ) := mul_nonneg hl.le (by linarith)
    exact P_mono (one_div_pos.mpr hτ) (rpow_nonneg h0 τ)
      (rpow_le_rpow h0 (mul_le_mul_of_nonneg_left (by linarith) hl.le) hτ.le)

theorem sxpCdf_tendsto_one {l τ : ℝ} (hl : 0 < l) (hτ : 0 < τ) (μ : ℝ) : Tendsto (sxpCdf μ l τ) atTop (nhds 1) := by
  have h : Tendsto (fun x => l * (x - μ)) atTop atTop :=
    (tendsto_atTop_add_const_right _ (-μ) tendsto_id).const_mul_atTop hl
  have h2 : Tendsto (fun x => (l * (x - μ)) ^ τ) atTop atTop := (tendsto_rpow_atTop hτ).comp h
  refine ((P_tendsto_atTop (one_div_pos.mpr hτ)).comp h2).congr' ?_
  filter_upwards [eventually_gt_atTop μ] with x hx
  simp [sxpCdf, not_le.mpr hx]

theorem sxpCdf_hasDerivAt {μ l τ x : ℝ} (hl : 0 < l) (hτ : 0 < τ) (hx : μ < x) : HasDerivAt (sxpCdf μ l τ) (sxpPdf μ l τ x) x := by
  have hy : 0 < l * (x - μ) := mul_pos hl (by linarith)
  have hz : 0 < (l * (x - μ)) ^ τ := rpow_pos_of_pos hy τ
  have hin : HasDerivAt (fun u => l * (u - μ)) (l * 1) x := ((hasDerivAt_id x).sub_const μ).const_mul l
  have hpow : HasDerivAt (fun u => (l * (u - μ)) ^ τ) (l * 1 * τ * (l * (x - μ)) ^ (τ - 1)) x :=
    hin.rpow_const (Or.inl hy.ne')
  have h := (P_hasDerivAt (one_div_pos.mpr hτ) hz).comp x hpow
  have e : sxpCdf μ l τ =ᶠ[nhds x] (P (1 / τ) ∘ fun u => (l * (u - μ)) ^ τ) := by
    filter_upwards [lt_mem_nhds hx] with u hu
    simp [sxpCdf, not_le.mpr hu]
  refine (h.congr_of_eventuallyEq e).congr_deriv ?_
  rw [sxpPdf, if_neg (not_le.mpr hx)]
  unfold kern
  have e1 : ((l * (x - μ)) ^ τ) ^ (1 / τ - 1) = (l * (x - μ)) ^ (1 - τ) := by
    rw [← rpow_mul hy.le]; congr 1; field_simp
  have e2 : (l * (x - μ)) ^ (1 - τ) * (l * (x - μ)) ^ (τ - 1) = 1 := by
    rw [← rpow_add hy]; simp
  rw [e1]
  calc exp (-(l * (x - μ)) ^ τ) * (l * (x - μ)) ^ (1 - τ) / Gamma (1 / τ) * (l * 1 * τ * (l * (x - μ)) ^ (τ - 1))
      = l * τ * exp (-(l * (x - μ)) ^ τ) / Gamma (1 / τ) * ((l * (x - μ)) ^ (1 - τ) * (l * (x - μ)) ^ (τ - 1)) := by ring
    _ = l * τ * exp (-(l * (x - μ)) ^ τ) / Gamma (1 / τ) := by rw [e2, mul_one]

theorem sxpPdf_nonneg {l τ : ℝ} (hl : 0 < l) (hτ : 0 < τ) (μ x : ℝ) : 0 ≤ sxpPdf μ l τ x := by
  unfold sxpPdf
  split_ifs with h
  · exact le_rfl
  · exact div_nonneg (mul_nonneg (mul_nonneg hl.le hτ.le) (exp_pos _).le) (Gamma_pos_of_pos (one_div_pos.mpr hτ)).le

theorem sxp_integral_pdf {μ l τ a b : ℝ} (hl : 0 < l) (hτ : 0 < τ) (ha : μ < a) (hab : a ≤ b) :
    ∫ x in a..b, sxpPdf μ l τ x = sxpCdf μ l τ b - sxpCdf μ l τ a :=
  IntegralThm.ftc_of_nonneg hab (fun _ hx => sxpCdf_hasDerivAt hl hτ (lt_of_lt_of_le ha hx.1)) fun x _ => sxpPdf_nonneg hl hτ μ x

/-- L1, UNCONDITIONAL (stretched exponential, `x > μ`): density = textbook density × `e^{log Γ(1/τ) − LogGamma(1/τ)}`;
    cdf / survival differ from the textbook exactly by `IncompleteGamma − (P, Q)` at `(1/τ, (λ(x−μ))^τ)`. -/
theorem sxp_code_vs_textbook {x μ l τ : ℝ} (hl : 0 < l) (hτ : 0 < τ) (hx : μ < x) :
    esl_sxp_pdf x μ l τ = sxpPdf μ l τ x * exp (log (Gamma (1 / τ)) - Num.logGamma (1 / τ)) ∧
    esl_sxp_cdf x μ l τ - sxpCdf μ l τ x = Num.incGammaP (1 / τ) ((l * (x - μ)) ^ τ) - P (1 / τ) ((l * (x - μ)) ^ τ) ∧
    esl_sxp_surv x μ l τ - sxpSurv μ l τ x = Num.incGammaQ (1 / τ) ((l * (x - μ)) ^ τ) - Q (1 / τ) ((l * (x - μ)) ^ τ) := by
  have hy : 0 < l * (x - μ) := mul_pos hl (by linarith)
  have hG := Gamma_pos_of_pos (one_div_pos.mpr hτ)
  refine ⟨?_, ?_, ?_⟩
  · have h := SpecialFamThm.sxp_pdf_closed (τ := τ) hl hx
    have he : esl_sxp_pdf x μ l τ = l * τ * exp (-(l * (x - μ)) ^ τ) * exp (-Num.logGamma (1 / τ)) := by
      rw [← h, mul_assoc, ← exp_add, add_neg_cancel, exp_zero, mul_one]
    rw [he, sxpPdf, if_neg (not_le.mpr hx), exp_sub, exp_log hG, exp_neg]
    have := exp_ne_zero (Num.logGamma (1 / τ))
    field_simp
    rw [← exp_add, neg_add_cancel, exp_zero]
  · unfold esl_sxp_cdf sxpCdf; simp only [lit_one, num_exp, num_log]
    rw [if_neg (not_le.mpr hx), if_neg (not_le.mpr hx), Real.rpow_def_of_pos hy, mul_comm τ]
  · unfold esl_sxp_surv sxpSurv; simp only [lit_one, num_exp, num_log]
    rw [if_neg (not_le.mpr hx), if_neg (not_le.mpr hx), Real.rpow_def_of_pos hy, mul_comm τ]

theorem sxp_code_close {x μ l τ ε δ : ℝ} (hl : 0 < l) (hτ : 0 < τ) (hx : μ < x)
    (hLG : |Num.logGamma (1 / τ) - log (Gamma (1 / τ))| ≤ ε)
    (hP : |Num.incGammaP (1 / τ) ((l * (x - μ)) ^ τ) - P (1 / τ) ((l * (x - μ)) ^ τ)| ≤ δ)
    (hQ : |Num.incGammaQ (1 / τ) ((l * (x - μ)) ^ τ) - Q (1 / τ) ((l * (x - μ)) ^ τ)| ≤ δ) :
    |esl_sxp_pdf x μ l τ - sxpPdf μ l τ x| ≤ (exp ε - 1) * sxpPdf μ l τ x ∧ |esl_sxp_cdf x μ l τ - sxpCdf μ l τ x| ≤ δ ∧
    |esl_sxp_surv x μ l τ - sxpSurv μ l τ x| ≤ δ ∧ |esl_sxp_cdf x μ l τ + esl_sxp_surv x μ l τ - 1| ≤ 2 * δ := by
  obtain ⟨h1, h2, h3⟩ := sxp_code_vs_textbook hl hτ hx
  have hs := sxpCdf_add_surv hl hτ μ x
  refine ⟨?_, h2 ▸ hP, h3 ▸ hQ, ?_⟩
  · rw [h1]
    have : sxpPdf μ l τ x * exp (log (Gamma (1 / τ)) - Num.logGamma (1 / τ)) - sxpPdf μ l τ x
        = sxpPdf μ l τ x * (exp (log (Gamma (1 / τ)) - Num.logGamma (1 / τ)) - 1) := by ring
    rw [this, abs_mul, abs_of_nonneg (sxpPdf_nonneg hl hτ μ x), mul_comm]
    exact mul_le_mul_of_nonneg_right (abs_exp_sub_one_le' (by rw [abs_sub_comm]; exact hLG)) (sxpPdf_nonneg hl hτ μ x)
  · have e : esl_sxp_cdf x μ l τ + esl_sxp_surv x μ l τ - 1
        = (esl_sxp_cdf x μ l τ - sxpCdf μ l τ x) + (esl_sxp_surv x μ l τ - sxpSurv μ l τ x) := by linarith
    rw [e]
    exact (abs_add_le _ _).trans (by rw [h2, h3]; linarith)

end EaselModel.Dist.GamSxpThm
