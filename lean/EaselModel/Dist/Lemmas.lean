import Mathlib.Analysis.SpecialFunctions.Exp
import Mathlib.Analysis.SpecialFunctions.Log.Basic
import Mathlib.Tactic.Linarith
import Mathlib.Tactic.NormNum
import Mathlib.Tactic.Positivity
/-! Real-analysis facts behind the small-argument switches of the distribution code (`eslSMALLX1` branches). -/
namespace EaselModel.Dist
open Real

/-- `1 - e^{-t} ≈ t`: the error of replacing `1 - exp(-t)` by `t` is at most `t²`. -/
theorem one_sub_exp_neg_approx {t : ℝ} (ht : |t| ≤ 1) : |t - (1 - exp (-t))| ≤ t ^ 2 := by
  have h := Real.abs_exp_sub_one_sub_id_le (x := -t) (by simpa using ht)
  have e : t - (1 - exp (-t)) = exp (-t) - 1 - (-t) := by ring
  rw [e]; simpa using h

/-- `0 < 1 - e^{-t} ≤ t` for `t > 0`. -/
theorem one_sub_exp_neg_pos {t : ℝ} (ht : 0 < t) : 0 < 1 - exp (-t) := by
  have : exp (-t) < 1 := by rw [exp_lt_one_iff]; linarith
  linarith

theorem one_sub_exp_neg_le {t : ℝ} : 1 - exp (-t) ≤ t := by
  have := add_one_le_exp (-t); linarith

/-- `log(1 - e^{-t}) ≈ log t` for small `t > 0`: error at most `2t`. -/
theorem log_one_sub_exp_neg_approx {t : ℝ} (ht : 0 < t) (ht2 : t ≤ 1 / 2) :
    |log t - log (1 - exp (-t))| ≤ 2 * t := by
  have hw := one_sub_exp_neg_pos ht
  have hle : 1 - exp (-t) ≤ t := one_sub_exp_neg_le
  have habs := one_sub_exp_neg_approx (t := t) (by rw [abs_of_pos ht]; linarith)
  have hlow : t - t ^ 2 ≤ 1 - exp (-t) := by
    have := (abs_le.mp habs).2; linarith
  have hpos : 0 < t - t ^ 2 := by nlinarith
  rw [← log_div (ne_of_gt ht) (ne_of_gt hw)]
  have hge1 : 1 ≤ t / (1 - exp (-t)) := by rw [le_div_iff₀ hw]; linarith
  have h0 : 0 ≤ log (t / (1 - exp (-t))) := log_nonneg hge1
  rw [abs_of_nonneg h0]
  have h1 : log (t / (1 - exp (-t))) ≤ t / (1 - exp (-t)) - 1 := log_le_sub_one_of_pos (by positivity)
  have h2 : t / (1 - exp (-t)) - 1 ≤ 2 * t := by
    rw [sub_le_iff_le_add, div_le_iff₀ hw]
    nlinarith
  linarith

/-- `log(1 - c) ≈ -c` for small `c ≥ 0`: error at most `2c²`. -/
theorem log_one_sub_approx {c : ℝ} (hc : 0 ≤ c) (hc2 : c ≤ 1 / 2) : |log (1 - c) + c| ≤ 2 * c ^ 2 := by
  have hpos : 0 < 1 - c := by linarith
  have hup : log (1 - c) ≤ (1 - c) - 1 := log_le_sub_one_of_pos hpos
  have hlo : 1 - (1 - c)⁻¹ ≤ log (1 - c) := one_sub_inv_le_log_of_pos hpos
  have hinv : (1 - c)⁻¹ ≤ 1 + c + 2 * c ^ 2 := by
    rw [inv_le_iff_one_le_mul₀ hpos]
    nlinarith
  rw [abs_le]; constructor <;> nlinarith

end EaselModel.Dist
