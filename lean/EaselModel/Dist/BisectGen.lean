import EaselModel.Generated.Dist
import EaselModel.Dist.Bisect
/-! The four bracketing + bisection inverses as TRANSLATED from the working tree (`Generated/Dist.lean`:
    `esl_{sxp,gam,hxp,mixgev}_invcdf` with their `_loop<k>` / `_exit<k>` helpers) are the instances of the generic
    definitions of `Dist/Bisect.lean` at their own cdf — for every carrier (so also at `Float`, where the driver runs the
    generated functions against the C code).  If a loop of the C source changes, these equalities stop being provable
    and the run reports a failed obligation.  Core Lean only. -/
set_option linter.unusedSectionVars false
namespace EaselModel.Dist.BisectGen
open EaselModel.Dist EaselModel.Dist.Gen EaselModel.Dist.Bisect
variable {α : Type} [Add α] [Sub α] [Mul α] [Div α] [Neg α] [OfScientific α] [LT α] [LE α]
  [DecidableLT α] [DecidableLE α] [Num α]

/-! ### stretched exponential -/

theorem sxp_loop2 (fuel : Nat) (p mu l t : α) : ∀ (n : Nat) (x1 x2 : α),
    esl_sxp_invcdf_loop2 fuel p mu l t 1.0e-6 x1 x2 n = bisect (fun x => esl_sxp_cdf x mu l t) p mu n x1 x2 := by
  intro n
  induction n with
  | zero => intro x1 x2; rfl
  | succ n ih => intro x1 x2; simp only [esl_sxp_invcdf_loop2, esl_sxp_invcdf_exit2, bisect, ih]

theorem sxp_loop1 (fuel : Nat) (p mu l t x1 : α) : ∀ (n : Nat) (x2 : α),
    esl_sxp_invcdf_loop1 fuel p mu l t 1.0e-6 x1 x2 n =
      (bracketRight (fun x => esl_sxp_cdf x mu l t) p x1 n x2).bind
        fun x2 => bisect (fun x => esl_sxp_cdf x mu l t) p mu fuel x1 x2 := by
  intro n
  induction n with
  | zero => intro x2; rfl
  | succ n ih =>
    intro x2
    simp only [esl_sxp_invcdf_loop1, esl_sxp_invcdf_exit1, bracketRight, ih, sxp_loop2]
    split <;> rfl

theorem sxp_invcdf (fuel : Nat) (p mu l t : α) :
    esl_sxp_invcdf fuel p mu l t = invcdfRight fuel (fun x => esl_sxp_cdf x mu l t) p mu := by
  simp only [esl_sxp_invcdf, sxp_loop1, invcdfRight]
  cases bracketRight (fun x => esl_sxp_cdf x mu l t) p mu fuel (mu + 1.0) <;> rfl

/-! ### gamma -/

theorem gam_loop2 (fuel : Nat) (p mu l t : α) : ∀ (n : Nat) (x1 x2 : α),
    esl_gam_invcdf_loop2 fuel p mu l t 1.0e-6 x1 x2 n = bisect (fun x => esl_gam_cdf x mu l t) p mu n x1 x2 := by
  intro n
  induction n with
  | zero => intro x1 x2; rfl
  | succ n ih => intro x1 x2; simp only [esl_gam_invcdf_loop2, esl_gam_invcdf_exit2, bisect, ih]

theorem gam_loop1 (fuel : Nat) (p mu l t x1 : α) : ∀ (n : Nat) (x2 : α),
    esl_gam_invcdf_loop1 fuel p mu l t 1.0e-6 x1 x2 n =
      (bracketGam (fun x => esl_gam_cdf x mu l t) p mu n x2).bind
        fun x2 => bisect (fun x => esl_gam_cdf x mu l t) p mu fuel x1 (x2 + mu) := by
  intro n
  induction n with
  | zero => intro x2; rfl
  | succ n ih =>
    intro x2
    simp only [esl_gam_invcdf_loop1, esl_gam_invcdf_exit1, bracketGam, ih, gam_loop2]
    split <;> rfl

theorem gam_invcdf (fuel : Nat) (p mu l t : α) :
    esl_gam_invcdf fuel p mu l t = invcdfGam fuel (fun x => esl_gam_cdf x mu l t) p mu l t := by
  simp only [esl_gam_invcdf, gam_loop1, invcdfGam]
  cases bracketGam (fun x => esl_gam_cdf x mu l t) p mu fuel (t / l) <;> rfl

/-! ### hyperexponential -/

theorem hxp_loop2 (fuel : Nat) (p : α) (h : ESL_HYPEREXP α) : ∀ (n : Nat) (x1 x2 : α),
    esl_hxp_invcdf_loop2 fuel p h 1.0e-6 x1 x2 n = bisect (fun x => esl_hxp_cdf x h) p h.mu n x1 x2 := by
  intro n
  induction n with
  | zero => intro x1 x2; rfl
  | succ n ih => intro x1 x2; simp only [esl_hxp_invcdf_loop2, esl_hxp_invcdf_exit2, bisect, ih]

theorem hxp_loop1 (fuel : Nat) (p : α) (h : ESL_HYPEREXP α) (x1 : α) : ∀ (n : Nat) (x2 : α),
    esl_hxp_invcdf_loop1 fuel p h 1.0e-6 x1 x2 n =
      (bracketRightLim (fun x => esl_hxp_cdf x h) p x1 n x2).bind fun x2 => bisect (fun x => esl_hxp_cdf x h) p h.mu fuel x1 x2 := by
  intro n
  induction n with
  | zero => intro x2; rfl
  | succ n ih =>
    intro x2
    simp only [esl_hxp_invcdf_loop1, esl_hxp_invcdf_exit1, bracketRightLim, ih, hxp_loop2]
    split <;> rfl

theorem hxp_invcdf (fuel : Nat) (p : α) (h : ESL_HYPEREXP α) :
    esl_hxp_invcdf fuel p h = invcdfRightLim fuel (fun x => esl_hxp_cdf x h) p h.mu := by
  simp only [esl_hxp_invcdf, hxp_loop1, invcdfRightLim]
  cases bracketRightLim (fun x => esl_hxp_cdf x h) p h.mu fuel (h.mu + 1.0) <;> rfl

/-! ### mixture of GEVs -/

theorem mixgev_loop3 (fuel : Nat) (p : α) (mg : ESL_MIXGEV α) : ∀ (n : Nat) (x1 x2 : α),
    esl_mixgev_invcdf_loop3 fuel p mg 1.0e-6 x2 x1 n = bisectMix (fun x => esl_mixgev_cdf x mg) p n x1 x2 := by
  intro n
  induction n with
  | zero => intro x1 x2; rfl
  | succ n ih => intro x1 x2; simp only [esl_mixgev_invcdf_loop3, esl_mixgev_invcdf_exit3, bisectMix, ih]

theorem mixgev_loop2 (fuel : Nat) (p : α) (mg : ESL_MIXGEV α) (x1 : α) : ∀ (n : Nat) (x2 : α),
    esl_mixgev_invcdf_loop2 fuel p mg 1.0e-6 x2 x1 n =
      (bracketRightLim (fun x => esl_mixgev_cdf x mg) p x1 n x2).bind fun x2 => bisectMix (fun x => esl_mixgev_cdf x mg) p fuel x1 x2 := by
  intro n
  induction n with
  | zero => intro x2; rfl
  | succ n ih =>
    intro x2
    simp only [esl_mixgev_invcdf_loop2, esl_mixgev_invcdf_exit2, bracketRightLim, ih, mixgev_loop3]
    split <;> rfl

theorem mixgev_loop1 (fuel : Nat) (p : α) (mg : ESL_MIXGEV α) (x2 : α) : ∀ (n : Nat) (x1 : α),
    esl_mixgev_invcdf_loop1 fuel p mg 1.0e-6 x2 x1 n =
      (bracketLeft (fun x => esl_mixgev_cdf x mg) p x2 n x1).bind fun x1 =>
        (bracketRightLim (fun x => esl_mixgev_cdf x mg) p x1 fuel x2).bind fun x2 => bisectMix (fun x => esl_mixgev_cdf x mg) p fuel x1 x2 := by
  intro n
  induction n with
  | zero => intro x1; rfl
  | succ n ih =>
    intro x1
    simp only [esl_mixgev_invcdf_loop1, esl_mixgev_invcdf_exit1, bracketLeft, ih, mixgev_loop2]
    split <;> rfl

theorem mixgev_invcdf (fuel : Nat) (p : α) (mg : ESL_MIXGEV α) :
    esl_mixgev_invcdf fuel p mg = invcdfMix fuel (fun x => esl_mixgev_cdf x mg) p (esl_vec_DMin mg.mu mg.K) := by
  simp only [esl_mixgev_invcdf, mixgev_loop1, invcdfMix]
  cases bracketLeft (fun x => esl_mixgev_cdf x mg) p (esl_vec_DMin mg.mu mg.K) fuel (esl_vec_DMin mg.mu mg.K - 1.0) with
  | none => rfl
  | some x1 =>
    simp only [Option.bind]
    cases bracketRightLim (fun x => esl_mixgev_cdf x mg) p x1 fuel (esl_vec_DMin mg.mu mg.K) <;> rfl

/-! ### the generic-API wrappers forward to the scalar functions -/

theorem generic_invcdf_forward (fuel : Nat) (p : α) (v : List α) (h : ESL_HYPEREXP α) (mg : ESL_MIXGEV α) :
    esl_sxp_generic_invcdf fuel p v = esl_sxp_invcdf fuel p (v.getD 0 0.0) (v.getD 1 0.0) (v.getD 2 0.0) ∧
    esl_gam_generic_invcdf fuel p v = esl_gam_invcdf fuel p (v.getD 0 0.0) (v.getD 1 0.0) (v.getD 2 0.0) ∧
    esl_hxp_generic_invcdf fuel p h = esl_hxp_invcdf fuel p h ∧ esl_mixgev_generic_invcdf fuel p mg = esl_mixgev_invcdf fuel p mg :=
  ⟨rfl, rfl, rfl, rfl⟩

end EaselModel.Dist.BisectGen
