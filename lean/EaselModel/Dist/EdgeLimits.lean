import EaselModel.Dist.Spec
import Mathlib.Analysis.SpecialFunctions.Log.Basic
import Mathlib.Analysis.SpecialFunctions.Exp
/-! Round 6b: the values the code returns AT the support edge are the right-hand limits of the textbook density.
    Weibull (`weiPdf μ λ τ x = λ τ (λ(x−μ))^{τ−1} e^{−(λ(x−μ))^τ}` on `x > μ`): as `x ↓ μ` the density tends to `+∞` for `τ < 1`,
    to `λ` for `τ = 1`, to `0` for `τ > 1` — exactly `esl_wei_pdf(μ) = +inf / λ / 0`. -/
noncomputable section
namespace EaselModel.Dist.EdgeLimits
open Real Filter Topology EaselModel.Dist.Spec

theorem arg_tendsto {μ l : ℝ} (hl : 0 < l) : Tendsto (fun x : ℝ => l * (x - μ)) (𝓝[>] μ) (𝓝[>] 0) := by
  refine tendsto_nhdsWithin_of_tendsto_nhds_of_eventually_within _ ?_ ?_
  · have : Tendsto (fun x : ℝ => l * (x - μ)) (𝓝 μ) (𝓝 (l * (μ - μ))) := by
      apply Continuous.tendsto; fun_prop
    rw [sub_self, mul_zero] at this
    exact this.mono_left nhdsWithin_le_nhds
  · filter_upwards [self_mem_nhdsWithin] with x hx
    exact mul_pos hl (sub_pos.mpr hx)

theorem log_arg_tendsto {μ l : ℝ} (hl : 0 < l) : Tendsto (fun x : ℝ => log (l * (x - μ))) (𝓝[>] μ) atBot :=
  tendsto_log_nhdsGT_zero.comp (arg_tendsto hl)

/-- `e^{−(λ(x−μ))^τ} → 1` -/
theorem tail_tendsto {μ l τ : ℝ} (hl : 0 < l) (hτ : 0 < τ) :
    Tendsto (fun x : ℝ => exp (-exp (τ * log (l * (x - μ))))) (𝓝[>] μ) (𝓝 1) := by
  have h1 : Tendsto (fun x : ℝ => exp (τ * log (l * (x - μ)))) (𝓝[>] μ) (𝓝 0) :=
    tendsto_exp_atBot.comp ((log_arg_tendsto hl).const_mul_atBot hτ)
  have h2 : Tendsto (fun x : ℝ => exp (-exp (τ * log (l * (x - μ))))) (𝓝[>] μ) (𝓝 (exp (-0))) :=
    (continuous_exp.tendsto (-0)).comp h1.neg
  rwa [neg_zero, exp_zero] at h2

theorem weiPdf_interior {μ l τ x : ℝ} (hx : μ < x) :
    weiPdf μ l τ x = l * τ * exp ((τ - 1) * log (l * (x - μ))) * exp (-exp (τ * log (l * (x - μ)))) := by
  simp [weiPdf, weiZ, not_le.mpr hx]

/-- `τ > 1`: the density vanishes at the edge -/
theorem weiPdf_edge_zero {μ l τ : ℝ} (hl : 0 < l) (hτ : 1 < τ) : Tendsto (weiPdf μ l τ) (𝓝[>] μ) (𝓝 0) := by
  have h1 : Tendsto (fun x : ℝ => exp ((τ - 1) * log (l * (x - μ)))) (𝓝[>] μ) (𝓝 0) :=
    tendsto_exp_atBot.comp ((log_arg_tendsto hl).const_mul_atBot (by linarith))
  have h2 := ((h1.const_mul (l * τ)).mul (tail_tendsto (μ := μ) hl (by linarith : 0 < τ)))
  rw [mul_zero, zero_mul] at h2
  refine h2.congr' ?_
  filter_upwards [self_mem_nhdsWithin] with x hx
  exact (weiPdf_interior hx).symm

/-- `τ = 1`: the density tends to `λ` -/
theorem weiPdf_edge_one {μ l : ℝ} (hl : 0 < l) : Tendsto (weiPdf μ l 1) (𝓝[>] μ) (𝓝 l) := by
  have h2 := (tail_tendsto (μ := μ) hl (by norm_num : (0 : ℝ) < 1)).const_mul l
  rw [mul_one] at h2
  refine h2.congr' ?_
  filter_upwards [self_mem_nhdsWithin] with x hx
  rw [weiPdf_interior hx]; simp

/-- `τ < 1`: the density is unbounded at the edge -/
theorem weiPdf_edge_top {μ l τ : ℝ} (hl : 0 < l) (hτ0 : 0 < τ) (hτ : τ < 1) : Tendsto (weiPdf μ l τ) (𝓝[>] μ) atTop := by
  have h1 : Tendsto (fun x : ℝ => exp ((τ - 1) * log (l * (x - μ)))) (𝓝[>] μ) atTop :=
    tendsto_exp_atTop.comp ((log_arg_tendsto hl).const_mul_atBot_of_neg (by linarith))
  have h2 : Tendsto (fun x : ℝ => exp ((τ - 1) * log (l * (x - μ))) * exp (-exp (τ * log (l * (x - μ))))) (𝓝[>] μ) atTop :=
    h1.atTop_mul_pos one_pos (tail_tendsto hl hτ0)
  have h3 := h2.const_mul_atTop (mul_pos hl hτ0)
  refine h3.congr' ?_
  filter_upwards [self_mem_nhdsWithin] with x hx
  rw [weiPdf_interior hx]; ring

end EaselModel.Dist.EdgeLimits
