import EaselModel.Dist.ExpThm
import EaselModel.Dist.Mix
/-! Mixtures: convex combinations inherit the laws.  Hyperexponential: cdf + surv = Σ q within `2.5e-17 · Σ q`. -/
noncomputable section
namespace EaselModel.Dist.MixThm
open Real EaselModel.Dist EaselModel.Dist.Gen EaselModel.Dist.Mix

theorem foldl_wsum {β : Type} (f : β → ℝ) (qs : List (ℝ × β)) (a : ℝ) :
    qs.foldl (fun acc qp => acc + qp.1 * f qp.2) a = a + (qs.map fun qp => qp.1 * f qp.2).sum := by
  induction qs generalizing a with
  | nil => simp
  | cons h t ih => simp only [List.foldl_cons, List.map_cons, List.sum_cons]; rw [ih]; ring

theorem wsum_eq {β : Type} (f : β → ℝ) (qs : List (ℝ × β)) : wsum f qs = (qs.map fun qp => qp.1 * f qp.2).sum := by
  unfold wsum; rw [foldl_wsum]; simp

theorem sum_bound {β : Type} (c s : β → ℝ) (ε : ℝ) (qs : List (ℝ × β))
    (hq : ∀ qp ∈ qs, 0 ≤ qp.1 ∧ |c qp.2 + s qp.2 - 1| ≤ ε) :
    |(qs.map fun qp => qp.1 * c qp.2).sum + (qs.map fun qp => qp.1 * s qp.2).sum - (qs.map Prod.fst).sum|
      ≤ ε * (qs.map Prod.fst).sum := by
  induction qs with
  | nil => simp
  | cons h t ih =>
    simp only [List.map_cons, List.sum_cons]
    have hh := hq h (List.mem_cons_self ..)
    have ht := ih (fun qp hm => hq qp (List.mem_cons_of_mem _ hm))
    have e : h.1 * c h.2 + (t.map fun qp => qp.1 * c qp.2).sum + (h.1 * s h.2 + (t.map fun qp => qp.1 * s qp.2).sum) -
        (h.1 + (t.map Prod.fst).sum) =
        h.1 * (c h.2 + s h.2 - 1) + ((t.map fun qp => qp.1 * c qp.2).sum + (t.map fun qp => qp.1 * s qp.2).sum - (t.map Prod.fst).sum) := by
      ring
    rw [e]
    refine le_trans (abs_add_le _ _) ?_
    rw [abs_mul, abs_of_nonneg hh.1]
    have : h.1 * |c h.2 + s h.2 - 1| ≤ h.1 * ε := mul_le_mul_of_nonneg_left hh.2 hh.1
    nlinarith

/-- hyperexponential: with non-negative coefficients and rates, cdf + surv equals the coefficient sum (`= 1` for a
    normalised mixture) within `2.5e-17` of it, for every argument. -/
theorem hxp_cdf_add_surv (x mu : ℝ) (qs : List (ℝ × ℝ)) (hq : ∀ qp ∈ qs, 0 ≤ qp.1 ∧ 0 ≤ qp.2) :
    (x < mu → hxp_cdf x mu qs + hxp_surv x mu qs = 1) ∧
      (mu ≤ x → |hxp_cdf x mu qs + hxp_surv x mu qs - (qs.map Prod.fst).sum| ≤ 2.5e-17 * (qs.map Prod.fst).sum) := by
  constructor
  · intro hx; unfold hxp_cdf hxp_surv; rw [if_pos hx, if_pos hx]; norm_num
  · intro hx
    unfold hxp_cdf hxp_surv
    rw [if_neg (not_lt.mpr hx), if_neg (not_lt.mpr hx), wsum_eq, wsum_eq]
    exact sum_bound (fun l => esl_exp_cdf x mu l) (fun l => esl_exp_surv x mu l) 2.5e-17 qs
      (fun qp hm => ⟨(hq qp hm).1, ExpThm.code_cdf_add_surv (hq qp hm).2 x⟩)

end EaselModel.Dist.MixThm
