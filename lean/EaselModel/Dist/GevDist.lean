import EaselModel.Dist.GevThm
import EaselModel.Dist.GumbelThm
/-! Gumbel-vs-GEV distance inside the Gumbel branch (`α ≠ 0`, `|α y| < 1e-12`), cdf and survival: the code returns the
    Gumbel value; the GEV with the actual `α` differs from it by at most `4e-12·|y|·e^{-y}` (cdf), resp. that plus the
    `2.3e-16` of the survival switch — from the log-cdf distance `GevThm.gumbel_branch_logcdf_dist` and `|e^a − e^b| ≤ |a − b|`
    on `a, b ≤ 0`. -/
noncomputable section
namespace EaselModel.Dist.GevDist
open Real EaselModel.Dist EaselModel.Dist.Gen EaselModel.Dist.Spec

/-- `exp` is 1-Lipschitz on `(-∞, 0]` -/
theorem abs_exp_sub_exp_le {a b : ℝ} (ha : a ≤ 0) (hb : b ≤ 0) : |exp a - exp b| ≤ |a - b| := by
  wlog h : a ≤ b generalizing a b
  · rw [abs_sub_comm, abs_sub_comm a]; exact this hb ha (le_of_not_ge h)
  have h1 : exp a ≤ exp b := exp_le_exp.mpr h
  have h2 : exp b ≤ 1 := exp_le_one_iff.mpr hb
  have h3 : 1 - exp (a - b) ≤ b - a := by have := add_one_le_exp (a - b); linarith
  have h4 : exp b - exp a = exp b * (1 - exp (a - b)) := by rw [mul_sub, mul_one, ← exp_add]; ring_nf
  have h5 : 0 ≤ 1 - exp (a - b) := by have := exp_le_one_iff.mpr (sub_nonpos.mpr h); linarith
  rw [abs_sub_comm, abs_of_nonneg (by linarith), abs_sub_comm, abs_of_nonneg (by linarith), h4]
  calc exp b * (1 - exp (a - b)) ≤ 1 * (1 - exp (a - b)) := mul_le_mul_of_nonneg_right h2 h5
    _ ≤ b - a := by linarith

theorem gumbel_branch_cdf_dist {x μ l α : ℝ} (hα : α ≠ 0) (hg : |l * (x - μ) * α| < 1e-12) (hy : |l * (x - μ)| ≤ 1e11) :
    |esl_gev_cdf x μ l α - gevCdf μ l α x| ≤ 4e-12 * |l * (x - μ)| * exp (-(l * (x - μ))) := by
  have hd := GevThm.gumbel_branch_logcdf_dist hα hg hy
  have harg : 0 < gevArg μ l α x := by
    unfold gevArg
    have hu : |α * (l * (x - μ))| < 1e-12 := by rw [mul_comm]; exact hg
    have := (abs_lt.mp hu).1; norm_num at this; linarith
  have hpos : 0 < gevCdf μ l α x := by unfold gevCdf; rw [if_neg (not_le.mpr harg)]; exact exp_pos _
  have hle : gevCdf μ l α x ≤ 1 := GevThm.gevCdf_le_one μ l α x
  have e1 : esl_gev_cdf x μ l α = exp (esl_gev_logcdf x μ l α) := by
    rw [GevThm.gumbel_branch_cdf hg, GevThm.gumbel_branch_logcdf hg, GumbelThm.code_cdf, GumbelThm.code_logcdf,
      exp_log (GumbelThm.gumbelCdf_pos μ l x)]
  have e2 : gevCdf μ l α x = exp (log (gevCdf μ l α x)) := (exp_log hpos).symm
  have hn1 : esl_gev_logcdf x μ l α ≤ 0 := by
    rw [GevThm.gumbel_branch_logcdf hg, GumbelThm.code_logcdf]
    exact log_nonpos (GumbelThm.gumbelCdf_pos μ l x).le (GumbelThm.gumbelCdf_lt_one μ l x).le
  rw [e1, e2]
  exact (abs_exp_sub_exp_le hn1 (log_nonpos hpos.le hle)).trans hd

theorem gumbel_branch_surv_dist {x μ l α : ℝ} (hα : α ≠ 0) (hg : |l * (x - μ) * α| < 1e-12) (hy : |l * (x - μ)| ≤ 1e11) :
    |esl_gev_surv x μ l α - gevSurv μ l α x| ≤ 2.3e-16 + 4e-12 * |l * (x - μ)| * exp (-(l * (x - μ))) := by
  have h1 := GevThm.gumbel_branch_surv (x := x) (μ := μ) (l := l) (α := α) hg
  have h2 := gumbel_branch_cdf_dist hα hg hy
  rw [GevThm.gumbel_branch_cdf hg, GumbelThm.code_cdf] at h2
  have e : esl_gev_surv x μ l α - gevSurv μ l α x
      = (esl_gev_surv x μ l α - gumbelSurv μ l x) + -(gumbelCdf μ l x - gevCdf μ l α x) := by
    unfold gevSurv gumbelSurv; ring
  rw [e]
  refine (abs_add_le _ _).trans ?_
  rw [abs_neg]; linarith

/-- `|log(1+u)| ≤ 2|u|` for `|u| ≤ 1/2` -/
theorem abs_log_one_add_le {u : ℝ} (hu : |u| ≤ 1 / 2) : |log (1 + u)| ≤ 2 * |u| := by
  have h1 : -1 / 2 ≤ u := by have := (abs_le.mp hu).1; linarith
  have hpos : 0 < 1 + u := by linarith
  have hup : log (1 + u) ≤ u := by have := log_le_sub_one_of_pos hpos; linarith
  have hlo : 1 - (1 + u)⁻¹ ≤ log (1 + u) := one_sub_inv_le_log_of_pos hpos
  have e : 1 - (1 + u)⁻¹ = u / (1 + u) := by field_simp; ring
  have hb : -(2 * |u|) ≤ u / (1 + u) := by
    rw [le_div_iff₀ hpos]
    rcases le_total 0 u with h | h
    · rw [abs_of_nonneg h]; nlinarith
    · rw [abs_of_nonpos h]; nlinarith
  rw [abs_le]; constructor
  · linarith
  · exact hup.trans ((le_abs_self u).trans (by linarith [abs_nonneg u]))

/-- log density: the code returns the Gumbel `log λ − y − e^{-y}`; the GEV with the actual `α` has
    `log λ − (1+α)s − e^{-s}`, `s = log(1+αy)/α`; they differ by at most `2e-12·|y| + 4e-12·|y|·e^{-y} + 2e-12`. -/
theorem gumbel_branch_logpdf_dist {x μ l α : ℝ} (hl : 0 < l) (hα : α ≠ 0) (hg : |l * (x - μ) * α| < 1e-12) (hy : |l * (x - μ)| ≤ 1e11) :
    |esl_gev_logpdf x μ l α - log (gevPdf μ l α x)| ≤
      2e-12 * |l * (x - μ)| + 4e-12 * |l * (x - μ)| * exp (-(l * (x - μ))) + 2e-12 := by
  have hu : |α * (l * (x - μ))| < 1e-12 := by rw [mul_comm]; exact hg
  have harg : 0 < gevArg μ l α x := by
    unfold gevArg; have := (abs_lt.mp hu).1; norm_num at this; linarith
  have hs := GevThm.gumbel_branch_exponent hα hg
  have hc := GevThm.gumbel_branch_logcdf_dist hα hg hy
  rw [GevThm.gumbel_branch_logcdf hg] at hc
  unfold esl_gumbel_logcdf gevCdf at hc
  simp only [num_exp] at hc
  rw [if_neg (not_le.mpr harg), log_exp] at hc
  have hlog : |log (1 + α * (l * (x - μ)))| ≤ 2e-12 := by
    have := abs_log_one_add_le (u := α * (l * (x - μ))) (by linarith)
    linarith
  rw [GevThm.gumbel_branch_logpdf hg, GumbelThm.code_logpdf hl]
  unfold gumbelPdf gevPdf
  rw [if_neg (not_le.mpr harg), log_mul hl.ne' (exp_ne_zero _), log_exp, log_mul hl.ne' (exp_ne_zero _), log_exp]
  have e0 : gevArg μ l α x = 1 + α * (l * (x - μ)) := rfl
  rw [e0] at hc ⊢
  set y := l * (x - μ) with hyd
  set L := log (1 + α * y) with hL
  have e1 : (1 + 1 / α) * L = L / α + L := by field_simp; ring
  have e : log l + (-y - exp (-y)) - (log l + (-(1 + 1 / α) * L - exp (-(L / α))))
      = (L / α - y) + (-exp (-y) - -exp (-(L / α))) + L := by
    have : -(1 + 1 / α) * L = -((1 + 1 / α) * L) := by ring
    rw [this, e1]; ring
  rw [e]
  refine (abs_add_le _ _).trans (add_le_add ((abs_add_le _ _).trans (add_le_add hs hc)) hlog)

/-- `|e^d − 1| ≤ e^ε − 1` for `|d| ≤ ε` -/
theorem abs_exp_sub_one_le_of_abs_le {d ε : ℝ} (h : |d| ≤ ε) : |exp d - 1| ≤ exp ε - 1 := by
  have h1 : exp d ≤ exp ε := exp_le_exp.mpr ((le_abs_self d).trans h)
  have h2 : exp (-d) ≤ exp ε := exp_le_exp.mpr ((neg_le_abs d).trans h)
  have h3 := add_one_le_exp d
  have h4 := add_one_le_exp (-d)
  rw [abs_le]; constructor <;> linarith

/-- density: relative distance `e^ε − 1` with `ε` the log-density bound -/
theorem gumbel_branch_pdf_dist {x μ l α : ℝ} (hl : 0 < l) (hα : α ≠ 0) (hg : |l * (x - μ) * α| < 1e-12) (hy : |l * (x - μ)| ≤ 1e11) :
    |esl_gev_pdf x μ l α - gevPdf μ l α x| ≤
      (exp (2e-12 * |l * (x - μ)| + 4e-12 * |l * (x - μ)| * exp (-(l * (x - μ))) + 2e-12) - 1) * gevPdf μ l α x := by
  have hd := gumbel_branch_logpdf_dist hl hα hg hy
  have harg : 0 < gevArg μ l α x := by
    unfold gevArg
    have hu : |α * (l * (x - μ))| < 1e-12 := by rw [mul_comm]; exact hg
    have := (abs_lt.mp hu).1; norm_num at this; linarith
  have hpos : 0 < gevPdf μ l α x := by unfold gevPdf; rw [if_neg (not_le.mpr harg)]; exact mul_pos hl (exp_pos _)
  have hgp : 0 < gumbelPdf μ l x := by unfold gumbelPdf; exact mul_pos hl (exp_pos _)
  have e1 : esl_gev_pdf x μ l α = exp (esl_gev_logpdf x μ l α) := by
    rw [GevThm.gumbel_branch_pdf hg, GevThm.gumbel_branch_logpdf hg, GumbelThm.code_pdf, GumbelThm.code_logpdf hl, exp_log hgp]
  have e2 : exp (esl_gev_logpdf x μ l α) = gevPdf μ l α x * exp (esl_gev_logpdf x μ l α - log (gevPdf μ l α x)) := by
    rw [exp_sub, exp_log hpos]; field_simp
  rw [e1, e2]
  have : gevPdf μ l α x * exp (esl_gev_logpdf x μ l α - log (gevPdf μ l α x)) - gevPdf μ l α x
      = gevPdf μ l α x * (exp (esl_gev_logpdf x μ l α - log (gevPdf μ l α x)) - 1) := by ring
  rw [this, abs_mul, abs_of_pos hpos, mul_comm]
  exact mul_le_mul_of_nonneg_right (abs_exp_sub_one_le_of_abs_le hd) hpos.le

/-- `t ↦ log(1 − e^{−t})` on `t > 0`: `|f a − f b| ≤ |a − b| / min a b` (its derivative `1/(e^t − 1)` is at most `1/t`) -/
theorem abs_log_one_sub_exp_neg_sub {a b : ℝ} (ha : 0 < a) (hb : 0 < b) :
    |log (1 - exp (-a)) - log (1 - exp (-b))| ≤ |a - b| / min a b := by
  wlog h : a ≤ b generalizing a b
  · rw [abs_sub_comm, abs_sub_comm a, min_comm]; exact this hb ha (le_of_not_ge h)
  rw [min_eq_left h]
  have hA1 : exp (-a) < 1 := by rw [exp_lt_one_iff]; linarith
  have hB1 : exp (-b) < 1 := by rw [exp_lt_one_iff]; linarith
  have hA : 0 < 1 - exp (-a) := by linarith
  have hB : 0 < 1 - exp (-b) := by linarith
  have hmono : 1 - exp (-a) ≤ 1 - exp (-b) := by have := exp_le_exp.mpr (neg_le_neg h); linarith
  have h0 : log (1 - exp (-a)) ≤ log (1 - exp (-b)) := log_le_log hA hmono
  rw [abs_sub_comm, abs_of_nonneg (by linarith), abs_sub_comm, abs_of_nonneg (by linarith), ← log_div hB.ne' hA.ne']
  -- (1 - e^{-b}) / (1 - e^{-a}) ≤ 1 + (b - a) / a
  have hnum : exp (-a) - exp (-b) ≤ exp (-a) * (b - a) := by
    have : exp (-b) = exp (-a) * exp (-(b - a)) := by rw [← exp_add]; ring_nf
    have h1 := add_one_le_exp (-(b - a))
    have hpos := exp_pos (-a)
    rw [this]; nlinarith
  have hden : exp (-a) * a ≤ 1 - exp (-a) := by
    have h1 := add_one_le_exp a
    have : exp (-a) * exp a = 1 := by rw [← exp_add]; simp
    have hpos := exp_pos (-a)
    nlinarith
  have hratio : (1 - exp (-b)) / (1 - exp (-a)) ≤ 1 + (b - a) / a := by
    rw [div_le_iff₀ hA]
    have e : (1 + (b - a) / a) * (1 - exp (-a)) = (1 - exp (-a)) + (b - a) / a * (1 - exp (-a)) := by ring
    rw [e]
    have h2 : exp (-a) * (b - a) ≤ (b - a) / a * (1 - exp (-a)) := by
      have hba : 0 ≤ b - a := by linarith
      have : (b - a) / a * (exp (-a) * a) = exp (-a) * (b - a) := by field_simp
      rw [← this]
      exact mul_le_mul_of_nonneg_left hden (div_nonneg hba ha.le)
    linarith
  have hpos : 0 < (1 - exp (-b)) / (1 - exp (-a)) := div_pos hB hA
  calc log ((1 - exp (-b)) / (1 - exp (-a))) ≤ log (1 + (b - a) / a) := log_le_log hpos hratio
    _ ≤ (b - a) / a := by
      have : 0 < 1 + (b - a) / a := by have := div_nonneg (sub_nonneg.mpr h) ha.le; linarith
      have := log_le_sub_one_of_pos this; linarith

/-- log survival: the code is within `3e-8` of the Gumbel's `log surv` (its own three-way switch), and the GEV's `log surv`
    with the actual `α` is within `7e-12·|y|` of the Gumbel's -/
theorem gumbel_branch_logsurv_dist {x μ l α : ℝ} (hα : α ≠ 0) (hg : |l * (x - μ) * α| < 1e-12) (hy : |l * (x - μ)| ≤ 1e11) :
    |esl_gev_logsurv x μ l α - log (gevSurv μ l α x)| ≤ 3e-8 + 7e-12 * |l * (x - μ)| := by
  have h1 := GevThm.gumbel_branch_logsurv (x := x) (μ := μ) (l := l) (α := α) hg
  have hu : |α * (l * (x - μ))| < 1e-12 := by rw [mul_comm]; exact hg
  have harg : 0 < gevArg μ l α x := by
    unfold gevArg; have := (abs_lt.mp hu).1; norm_num at this; linarith
  have hc := GevThm.gumbel_branch_logcdf_dist hα hg hy
  rw [GevThm.gumbel_branch_logcdf hg] at hc
  unfold esl_gumbel_logcdf gevCdf at hc
  simp only [num_exp] at hc
  rw [if_neg (not_le.mpr harg), log_exp] at hc
  have e0 : gevArg μ l α x = 1 + α * (l * (x - μ)) := rfl
  have hS : gevSurv μ l α x = 1 - exp (-exp (-(log (gevArg μ l α x) / α))) := by
    unfold gevSurv gevCdf; rw [if_neg (not_le.mpr harg)]
  have hG : gumbelSurv μ l x = 1 - exp (-exp (-(l * (x - μ)))) := by unfold gumbelSurv gumbelCdf; rfl
  set y := l * (x - μ) with hyd
  set a := exp (-y) with had
  set b := exp (-(log (gevArg μ l α x) / α)) with hbd
  have ha : 0 < a := exp_pos _
  have hb : 0 < b := exp_pos _
  have hab : |a - b| ≤ 4e-12 * |y| * a := by
    have : -a - -b = -(a - b) := by ring
    rw [this, abs_neg] at hc; exact hc
  have hη : 4e-12 * |y| ≤ 0.4 := by nlinarith [abs_nonneg y]
  have hmin : 0.6 * a ≤ min a b := by
    refine le_min (by nlinarith) ?_
    have := (abs_le.mp hab).2
    nlinarith [abs_nonneg y]
  have h2 := abs_log_one_sub_exp_neg_sub ha hb
  have h3 : |a - b| / min a b ≤ 7e-12 * |y| := by
    rw [div_le_iff₀ (lt_of_lt_of_le (by positivity) hmin)]
    have : 7e-12 * |y| * (0.6 * a) ≤ 7e-12 * |y| * min a b :=
      mul_le_mul_of_nonneg_left hmin (by positivity)
    nlinarith [abs_nonneg y]
  rw [hS]
  have e : esl_gev_logsurv x μ l α - log (1 - exp (-b))
      = (esl_gev_logsurv x μ l α - log (gumbelSurv μ l x)) + (log (1 - exp (-a)) - log (1 - exp (-b))) := by rw [hG]; ring
  rw [e]
  exact (abs_add_le _ _).trans (add_le_add h1 (h2.trans h3))

end EaselModel.Dist.GevDist
