import EaselModel.Dist.RealInst
import EaselModel.Dist.Spec
import EaselModel.Dist.Lemmas
import EaselModel.Generated.Dist
import Mathlib.Analysis.SpecialFunctions.Log.Deriv
import Mathlib.Tactic.Ring
import Mathlib.Tactic.FieldSimp
/-! Weibull distribution: L2 and L1 (translated `esl_wei_*` at `ℝ`, with the repaired `exp(tly) < eslSMALLX1` guard). -/
noncomputable section
namespace EaselModel.Dist.WeiThm
open Real EaselModel.Dist EaselModel.Dist.Gen EaselModel.Dist.Spec

/-! ## L2 -/
theorem weiZ_pos (μ l τ x : ℝ) : 0 < weiZ μ l τ x := exp_pos _

theorem weiCdf_add_weiSurv (μ l τ x : ℝ) : weiCdf μ l τ x + weiSurv μ l τ x = 1 := by
  unfold weiCdf weiSurv; split_ifs <;> ring

theorem weiCdf_nonneg (μ l τ x : ℝ) : 0 ≤ weiCdf μ l τ x := by
  unfold weiCdf; split_ifs
  · exact le_refl _
  · have : exp (-weiZ μ l τ x) ≤ 1 := by rw [exp_le_one_iff]; have := weiZ_pos μ l τ x; linarith
    linarith

theorem weiCdf_lt_one (μ l τ x : ℝ) : weiCdf μ l τ x < 1 := by
  unfold weiCdf; split_ifs
  · exact one_pos
  · have := exp_pos (-weiZ μ l τ x); linarith

theorem weiCdf_mono {μ l τ : ℝ} (hl : 0 < l) (hτ : 0 ≤ τ) : Monotone (weiCdf μ l τ) := by
  intro a b hab
  unfold weiCdf
  split_ifs with h1 h2 h2
  · exact le_refl _
  · have := weiCdf_nonneg μ l τ b; unfold weiCdf at this; rw [if_neg h2] at this; exact this
  · exfalso; linarith
  · have ha : 0 < l * (a - μ) := mul_pos hl (by linarith)
    have hb : l * (a - μ) ≤ l * (b - μ) := mul_le_mul_of_nonneg_left (by linarith) hl.le
    have hlog : log (l * (a - μ)) ≤ log (l * (b - μ)) := log_le_log ha hb
    have hz : weiZ μ l τ a ≤ weiZ μ l τ b := by
      unfold weiZ; exact exp_le_exp.mpr (mul_le_mul_of_nonneg_left hlog hτ)
    have : exp (-weiZ μ l τ b) ≤ exp (-weiZ μ l τ a) := exp_le_exp.mpr (by linarith)
    linarith

theorem weiInvCdf_weiCdf {μ l τ x : ℝ} (hl : 0 < l) (hτ : τ ≠ 0) (hx : μ < x) : weiInvCdf μ l τ (weiCdf μ l τ x) = x := by
  unfold weiInvCdf weiCdf
  rw [if_neg (not_le.mpr hx)]
  have h1 : (1 : ℝ) - (1 - exp (-weiZ μ l τ x)) = exp (-weiZ μ l τ x) := by ring
  have hy : 0 < l * (x - μ) := mul_pos hl (by linarith)
  rw [h1, log_exp, neg_neg]
  unfold weiZ
  rw [log_exp, mul_div_cancel_left₀ _ hτ, exp_log hy]
  field_simp; ring

/-- the pdf is the derivative of the cdf on the interior of the support -/
theorem weiCdf_hasDerivAt {μ l τ x : ℝ} (hl : 0 < l) (hx : μ < x) : HasDerivAt (weiCdf μ l τ) (weiPdf μ l τ x) x := by
  have hy : 0 < l * (x - μ) := mul_pos hl (by linarith)
  have h0 : HasDerivAt (fun z : ℝ => l * (z - μ)) l x := by
    have h := ((hasDerivAt_id x).sub_const μ).const_mul l
    simpa using h
  have h1 := h0.log (ne_of_gt hy)
  have h2 := (h1.const_mul τ).exp
  have h2n : HasDerivAt (fun z : ℝ => -exp (τ * log (l * (z - μ))))
      (-(exp (τ * log (l * (x - μ))) * (τ * (l / (l * (x - μ)))))) x := by
    have h := h2.const_mul (-1)
    have e : (fun z : ℝ => -exp (τ * log (l * (z - μ)))) = fun z => -1 * exp (τ * log (l * (z - μ))) := by
      funext z; ring
    rw [e]; exact h.congr_deriv (by ring)
  have h3 := (h2n.exp).const_sub 1
  have hev : weiCdf μ l τ =ᶠ[nhds x] fun z => 1 - exp (-exp (τ * log (l * (z - μ)))) := by
    filter_upwards [lt_mem_nhds hx] with z hz
    simp [weiCdf, weiZ, not_le.mpr hz]
  have hp : weiPdf μ l τ x =
      -(exp (-exp (τ * log (l * (x - μ)))) * -(exp (τ * log (l * (x - μ))) * (τ * (l / (l * (x - μ)))))) := by
    unfold weiPdf weiZ
    rw [if_neg (not_le.mpr hx)]
    have e1 : exp ((τ - 1) * log (l * (x - μ))) = exp (τ * log (l * (x - μ))) / (l * (x - μ)) := by
      rw [sub_mul, one_mul, exp_sub, exp_log hy]
    rw [e1]; field_simp
  rw [hp]
  exact (h3.congr_of_eventuallyEq hev)

/-! ## L1 -/
theorem code_surv (x μ l τ : ℝ) : esl_wei_surv x μ l τ = weiSurv μ l τ x := by
  unfold esl_wei_surv weiSurv weiZ; split_ifs <;> simp

/-- `esl_wei_cdf` (repaired guard) is within `2.5e-17` of the textbook cdf, for every argument. -/
theorem code_cdf (x μ l τ : ℝ) : |esl_wei_cdf x μ l τ - weiCdf μ l τ x| ≤ 2.5e-17 := by
  unfold esl_wei_cdf weiCdf weiZ
  simp only [num_exp, num_log, lit_one, lit_zero]
  set z := exp (τ * log (l * (x - μ))) with hz
  have hzpos : 0 < z := exp_pos _
  split_ifs with h1 h2
  · norm_num
  · have hz1 : z ≤ 5e-9 := by norm_num at h2 ⊢; first | exact h2 | exact le_of_lt h2
    have := one_sub_exp_neg_approx (t := z) (by rw [abs_of_pos hzpos]; linarith)
    have hsq : z ^ 2 ≤ 2.5e-17 := by nlinarith
    exact le_trans this hsq
  · simp; norm_num

theorem code_cdf_add_surv (x μ l τ : ℝ) : |esl_wei_cdf x μ l τ + esl_wei_surv x μ l τ - 1| ≤ 2.5e-17 := by
  have h := code_cdf x μ l τ
  rw [code_surv]
  have e : esl_wei_cdf x μ l τ + weiSurv μ l τ x - 1 = esl_wei_cdf x μ l τ - weiCdf μ l τ x := by
    have := weiCdf_add_weiSurv μ l τ x; linarith
  rw [e]; exact h

theorem code_logsurv (x μ l τ : ℝ) : esl_wei_logsurv x μ l τ = log (weiSurv μ l τ x) := by
  unfold esl_wei_logsurv weiSurv weiZ; split_ifs <;> simp

/-- `esl_wei_logcdf` (repaired guard): within `1e-8` of `log cdf` on `x > μ`, in each of its three branches. -/
theorem code_logcdf {x μ : ℝ} (l τ : ℝ) (hx : μ < x) : |esl_wei_logcdf x μ l τ - log (weiCdf μ l τ x)| ≤ 1e-8 := by
  unfold esl_wei_logcdf weiCdf weiZ
  simp only [num_exp, num_log, num_fabs, lit_one]
  rw [if_neg (not_le.mpr hx), if_neg (not_le.mpr hx)]
  set z := exp (τ * log (l * (x - μ))) with hz
  have hzpos : 0 < z := exp_pos _
  have hlogz : log z = τ * log (l * (x - μ)) := by rw [hz, log_exp]
  split_ifs with h2 h3
  · have hz1 : z ≤ 5e-9 := by norm_num at h2 ⊢; first | exact h2 | exact le_of_lt h2
    have := log_one_sub_exp_neg_approx hzpos (by linarith)
    rw [hlogz] at this; linarith
  · have hc0 : 0 < exp (-z) := exp_pos _
    have hc1 : exp (-z) ≤ 5e-9 := by rw [abs_of_pos hc0] at h3; norm_num at h3 ⊢; first | exact h3 | exact le_of_lt h3
    have := log_one_sub_approx hc0.le (by linarith)
    have e : -exp (-z) - log (1 - exp (-z)) = -(log (1 - exp (-z)) + exp (-z)) := by ring
    rw [e, abs_neg]
    have : 2 * exp (-z) ^ 2 ≤ 1e-8 := by nlinarith
    linarith
  · simp; norm_num

theorem code_invcdf (p μ l τ : ℝ) : esl_wei_invcdf p μ l τ = weiInvCdf μ l τ p := by
  unfold esl_wei_invcdf weiInvCdf; simp only [num_exp, num_log, lit_one]; ring_nf

theorem code_pdf {x μ : ℝ} (l τ : ℝ) (hx : x ≠ μ) : esl_wei_pdf x μ l τ = weiPdf μ l τ x := by
  unfold esl_wei_pdf weiPdf weiZ
  simp only [num_exp, num_log, num_eqb, lit_one, lit_zero]
  rcases lt_or_gt_of_ne hx with h | h
  · rw [if_pos h, if_pos (le_of_lt h)]
  · rw [if_neg (not_lt.mpr h.le), if_neg hx, if_neg (not_le.mpr h)]

theorem code_logpdf {x μ l τ : ℝ} (hl : 0 < l) (hτ : 0 < τ) (hx : μ < x) :
    esl_wei_logpdf x μ l τ = log (weiPdf μ l τ x) := by
  have hxm : 0 < x - μ := by linarith
  have hy : 0 < l * (x - μ) := mul_pos hl hxm
  unfold esl_wei_logpdf weiPdf weiZ
  simp only [num_exp, num_log, num_eqb, lit_one]
  rw [if_neg (not_lt.mpr hx.le), if_neg (ne_of_gt hx), if_neg (not_le.mpr hx)]
  rw [log_mul (by positivity) (exp_ne_zero _), log_mul (by positivity) (exp_ne_zero _), log_mul (ne_of_gt hl) (ne_of_gt hτ),
    log_exp, log_exp, log_mul (ne_of_gt hl) (ne_of_gt hxm)]
  ring

end EaselModel.Dist.WeiThm
