import EaselModel.Generated.Dist
import EaselModel.Dist.Mix
import EaselModel.Dist.RealInst
/-! Round 6: `esl_gam_Sample` is TRANSLATED (translate/c2lean.py: a primitive draw inside a `do … while` loop makes the
    generator parameter the stream `u : Nat → α` of variates, iteration `i` reads `u i`).  The generated function IS the
    former hand model `Mix.gamSample` run on the first `fuel` variates of the stream — for every carrier — and over `ℝ` it
    returns `μ + u i / λ` for the FIRST index `i` whose value differs from `μ`. -/
set_option linter.unusedSectionVars false
namespace EaselModel.Dist.GamSampleGen
open EaselModel.Dist EaselModel.Dist.Gen

section generic
variable {α : Type} [Add α] [Sub α] [Mul α] [Div α] [Neg α] [OfScientific α] [LT α] [LE α]
  [DecidableLT α] [DecidableLE α] [Num α]

theorem loop_eq (fuel : Nat) (u : Nat → α) (mu l t : α) : ∀ gas, gas ≤ fuel →
    esl_gam_Sample_loop1 fuel u mu l t gas = Mix.gamSample mu l ((List.range' (fuel - gas) gas).map u) := by
  intro gas
  induction gas with
  | zero => intro _; rfl
  | succ g ih =>
    intro hg
    have e : fuel - g = (fuel - (g + 1)) + 1 := by omega
    simp only [esl_gam_Sample_loop1, esl_gam_Sample_exit1, List.range'_succ, List.map_cons, Mix.gamSample]
    rw [ih (by omega), e]

/-- the generated sampler = the redraw loop over the first `fuel` variates of the stream -/
theorem gam_sample_eq (fuel : Nat) (u : Nat → α) (mu l t : α) :
    esl_gam_Sample fuel u mu l t = Mix.gamSample mu l ((List.range fuel).map u) := by
  unfold esl_gam_Sample
  rw [loop_eq fuel u mu l t fuel (le_refl _), Nat.sub_self, List.range_eq_range']

end generic

/-- over `ℝ`: what the redraw loop returns -/
theorem gamSample_first {μ l : ℝ} : ∀ (ts : List ℝ) (x : ℝ), Mix.gamSample μ l ts = some x →
    ∃ i, ∃ h : i < ts.length, x = μ + ts[i] / l ∧ x ≠ μ ∧ ∀ j, ∀ hj : j < i, μ + ts[j]'(Nat.lt_trans hj h) / l = μ := by
  intro ts
  induction ts with
  | nil => intro x h; simp [Mix.gamSample] at h
  | cons t ts ih =>
    intro x h
    simp only [Mix.gamSample, num_eqb] at h
    split at h
    · rename_i heq
      have heq' : μ + t / l = μ := by simpa using heq
      obtain ⟨i, hi, h1, h2, h3⟩ := ih x h
      refine ⟨i + 1, by simp; omega, by simpa using h1, h2, ?_⟩
      intro j hj
      cases j with
      | zero => simpa using heq'
      | succ j => simpa using h3 j (by omega)
    · rename_i hne
      have hne' : μ + t / l ≠ μ := by simpa using hne
      simp only [Option.some.injEq] at h
      subst h
      exact ⟨0, by simp, by simp, hne', fun j hj => absurd hj (Nat.not_lt_zero _)⟩

theorem gamSample_none {μ l : ℝ} : ∀ (ts : List ℝ), Mix.gamSample μ l ts = none ↔ ∀ t ∈ ts, μ + t / l = μ := by
  intro ts
  induction ts with
  | nil => simp [Mix.gamSample]
  | cons t ts ih =>
    simp only [Mix.gamSample, num_eqb, List.mem_cons, forall_eq_or_imp]
    split
    · rename_i heq
      have heq' : μ + t / l = μ := by simpa using heq
      rw [ih]; exact ⟨fun h => ⟨heq', h⟩, fun h => h.2⟩
    · rename_i hne
      have hne' : μ + t / l ≠ μ := by simpa using hne
      simp [hne']

/-- the TRANSLATED `esl_gam_Sample` over `ℝ`: `some x` ⇒ `x = μ + u i / λ ≠ μ` for the first such index `i < fuel`;
    `none` (the C loop would draw again) ⇔ every one of the first `fuel` variates is absorbed (`μ + u i / λ = μ`,
    over `ℝ`: `u i = 0`) -/
theorem gam_sample_real {μ l τ : ℝ} (fuel : Nat) (u : Nat → ℝ) :
    (∀ x, esl_gam_Sample fuel u μ l τ = some x →
      ∃ i, i < fuel ∧ x = μ + u i / l ∧ x ≠ μ ∧ ∀ j, j < i → μ + u j / l = μ) ∧
    (esl_gam_Sample fuel u μ l τ = none ↔ ∀ i, i < fuel → μ + u i / l = μ) := by
  rw [gam_sample_eq]
  constructor
  · intro x h
    obtain ⟨i, hi, h1, h2, h3⟩ := gamSample_first _ x h
    have hi' : i < fuel := by simpa using hi
    refine ⟨i, hi', by simpa using h1, h2, fun j hj => ?_⟩
    have := h3 j hj
    simpa using this
  · rw [gamSample_none]
    simp only [List.mem_map, List.mem_range, forall_exists_index, and_imp]
    exact ⟨fun h i hi => h (u i) i hi rfl, fun h t i hi e => e ▸ h i hi⟩

end EaselModel.Dist.GamSampleGen
