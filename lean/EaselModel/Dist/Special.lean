import EaselModel.Dist.Num
/-! Hand model (kind H) of the two special functions of `esl_stats.c` that the gamma and stretched-exponential families
    call: `esl_stats_LogGamma` (Lanczos, 11 coefficients) and `esl_stats_IncompleteGamma` (series for `x ≤ a+1`,
    continued fraction otherwise, both stopped at relative change `1e-7`).  Mirrors the C loops statement by statement;
    written once over an arbitrary carrier, parameterised by the elementary operations it needs (so that the `Num`
    instances can be built from it).  Tied to the C functions by the bit-exact correspondence run
    (`f fn=esl_stats_LogGamma`, `esl_stats_IncGammaP`, `esl_stats_IncGammaQ`).  Core Lean only. -/
namespace EaselModel.Dist.Special
variable {α : Type} [Add α] [Sub α] [Mul α] [Div α] [Neg α] [OfScientific α] [LT α] [LE α]
  [DecidableLT α] [DecidableLE α]

/-- `cof[10], cof[9], …, cof[0]`: the order in which the C loop (`for (i = 10; i >= 0; i--)`) consumes them -/
def cofRev : List α :=
  [1.251639670050933e-10, -(2.319827630494973e-04), 2.908143421162229e-01, -(3.155153906098611e+01),
   8.785855930895250e+02, -(9.601592329182778e+03), 5.031796415085709e+04, -(1.388934775095388e+05),
   2.065049568014106e+05, -(1.560605207784446e+05), 4.694580336184385e+04]

/-- `esl_stats_LogGamma(x, &r)` for `x > 0` (the C function throws `eslERANGE` otherwise and leaves `r` alone) -/
def logGamma (log : α → α) (x : α) : α :=
  let xx := x - 1.0
  let tmp0 := xx + 11.0
  let vt := (cofRev (α := α)).foldl (fun (vt : α × α) c => (vt.1 + c / vt.2, vt.2 - 1.0)) (1.0, tmp0)
  let value := log vt.1
  let tx := tmp0 + 0.5
  value + ((0.918938533 + (xx + 0.5) * log tx) - tx)

/-- continued-fraction loop of `esl_stats_IncompleteGamma` (`x > a+1`): `some nu1` at convergence, `none` = `eslENOHALT` -/
def cfLoop (fabs : α → α) (eqb : α → α → Bool) (a x : α) : Nat → α → α → α → α → α → α → Option α
  | 0, _, _, _, _, _, _ => none
  | n + 1, it, nu0, de0, nu1, de1, oldp =>
    let nu0 := nu1 + (it - a) * nu0
    let de0 := de1 + (it - a) * de0
    let nu1 := x * nu0 + it * nu1
    let de1 := x * de0 + it * de1
    let r : α × α × α × α := if eqb de1 0.0 = false then (nu0 / de1, de0 / de1, nu1 / de1, 1.0) else (nu0, de0, nu1, de1)
    if fabs ((r.2.2.1 - oldp) / r.2.2.1) < 1.0e-7 then some r.2.2.1
    else cfLoop fabs eqb a x n (it + 1.0) r.1 r.2.1 r.2.2.1 r.2.2.2 r.2.2.1

/-- series loop (`x ≤ a+1`): `some p` at convergence -/
def seriesLoop (fabs : α → α) (a x : α) : Nat → α → α → α → Option α
  | 0, _, _, _ => none
  | n + 1, it, val, p =>
    let val := val * (x / (a + it))
    let p := p + val
    if fabs (val / p) < 1.0e-7 then some p else seriesLoop fabs a x n (it + 1.0) val p

/-- `esl_stats_IncompleteGamma(a, x, &P, &Q)`: `some (P, Q)`, or `none` where the C function throws
    (`a ≤ 0`, `x < 0`, no convergence in 99 resp. 9999 iterations). -/
def incGamma (exp log fabs : α → α) (eqb : α → α → Bool) (a x : α) : Option (α × α) :=
  if a ≤ 0.0 then none
  else if x < 0.0 then none
  else if a + 1.0 < x then
    match cfLoop fabs eqb a x 99 1.0 0.0 1.0 1.0 x 1.0 with
    | none => none
    | some nu1 =>
      let qax := nu1 * exp ((a * log x - x) - logGamma log a)
      some (1.0 - qax, qax)
  else
    match seriesLoop fabs a x 9999 1.0 (1.0 / a) (1.0 / a) with
    | none => none
    | some p =>
      let pax := p * exp ((a * log x - x) - logGamma log a)
      some (pax, 1.0 - pax)

end EaselModel.Dist.Special
