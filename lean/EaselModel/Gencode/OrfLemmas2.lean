import EaselModel.Gencode.OrfLemmas
import Mathlib.Tactic.Ring
/-! # C17 — the three interleaved frames of the streaming machine = three independent per-frame ORF finders -/
namespace EaselModel.Gencode
open EaselModel.Alphabet

def labelOff (isRev : Bool) : Nat := if isRev then 3 else 0
def dirOf (isRev : Bool) : Int := if isRev then -1 else 1

/-- frame `k`'s growing ORF -/
def fK (c : Core) (k : Nat) : FrameSt := if k = 0 then c.f0 else if k = 1 then c.f1 else c.f2

/-- frame `k`'s view of the machine: its growing ORF and the ORFs emitted for it -/
def proj (c : Core) (k : Nat) : FrameSt × List Rec := (fK c k, recsOf c.out (k + 1 + labelOff c.isRev))

section fields
variable (c : Core) (f : FrameSt)

@[simp] theorem setF_frame : (c.setF f).frame = c.frame := by
  unfold Core.setF; by_cases h0 : c.frame = 0 <;> by_cases h1 : c.frame = 1 <;> simp [h0, h1]
@[simp] theorem setF_isRev : (c.setF f).isRev = c.isRev := by
  unfold Core.setF; by_cases h0 : c.frame = 0 <;> by_cases h1 : c.frame = 1 <;> simp [h0, h1]
@[simp] theorem setF_apos : (c.setF f).apos = c.apos := by
  unfold Core.setF; by_cases h0 : c.frame = 0 <;> by_cases h1 : c.frame = 1 <;> simp [h0, h1]
@[simp] theorem setF_orfcount : (c.setF f).orfcount = c.orfcount := by
  unfold Core.setF; by_cases h0 : c.frame = 0 <;> by_cases h1 : c.frame = 1 <;> simp [h0, h1]
@[simp] theorem setF_out : (c.setF f).out = c.out := by
  unfold Core.setF; by_cases h0 : c.frame = 0 <;> by_cases h1 : c.frame = 1 <;> simp [h0, h1]
@[simp] theorem setF_getF : (c.setF f).getF = f := by
  unfold Core.setF Core.getF; by_cases h0 : c.frame = 0 <;> by_cases h1 : c.frame = 1 <;> simp [h0, h1]

theorem getF_eq_fK : c.getF = fK c (if c.frame = 0 then 0 else if c.frame = 1 then 1 else 2) := by
  unfold Core.getF fK; by_cases h0 : c.frame = 0 <;> by_cases h1 : c.frame = 1 <;> simp [h0, h1]

theorem getF_fK (h : c.frame < 3) : c.getF = fK c c.frame := by
  unfold Core.getF fK; rfl

theorem fK_setF (h : c.frame < 3) (k : Nat) (hk : k < 3) :
    fK (c.setF f) k = if k = c.frame then f else fK c k := by
  unfold Core.setF fK
  by_cases h0 : c.frame = 0
  · by_cases k0 : k = 0 <;> by_cases k1 : k = 1 <;> simp [h0, k0, k1]
  · by_cases h1 : c.frame = 1
    · by_cases k0 : k = 0 <;> by_cases k1 : k = 1 <;> simp [h1, k0, k1]
    · have h2 : c.frame = 2 := by omega
      by_cases k0 : k = 0 <;> by_cases k1 : k = 1
      · omega
      · simp [h2, k0]
      · simp [h2, k1]
      · have : k = 2 := by omega
        simp [h2, this]

end fields

/-- the record `ProcessOrf` emits for the current frame -/
def orfRec (c : Core) : Orf :=
  { num := c.orfcount + 1, start := c.getF.start, stop := c.apos - dirOf c.isRev,
    frame := c.frame + 1 + labelOff c.isRev, aa := c.getF.rev.reverse }

def emits (cfg : Cfg) (c : Core) : Bool := c.getF.inOrf && decide ((c.getF.rev.length : Int) ≥ cfg.minlen)

theorem processOrf_eq (cfg : Cfg) (c : Core) :
    processOrf cfg c =
      (if emits cfg c then { c with orfcount := c.orfcount + 1, out := orfRec c :: c.out } else c).setF {} := by
  unfold processOrf emits orfRec dirOf labelOff
  cases hr : c.isRev <;> simp [hr] <;> rfl

end EaselModel.Gencode

namespace EaselModel.Gencode
open EaselModel.Alphabet

theorem fK_adv (c : Core) (a : Int) (fr : Nat) (k : Nat) : fK { c with apos := a, frame := fr } k = fK c k := rfl

theorem fK_fields (X : Core) (ap : Int) (fr : Nat) (ir : Bool) (oc : Nat) (out : List Orf) (k : Nat) :
    fK { f0 := X.f0, f1 := X.f1, f2 := X.f2, apos := ap, frame := fr, isRev := ir, orfcount := oc, out := out } k = fK X k := rfl

theorem recsOf_cons (o : Orf) (out : List Orf) (label : Nat) :
    recsOf (o :: out) label =
      if o.frame = label then { start := o.start, stop := o.stop, aa := o.aa } :: recsOf out label else recsOf out label := by
  unfold recsOf
  by_cases h : o.frame = label <;> simp [h]

/-- the machine's step, seen from the frame it is in, is the per-frame finder's step on that codon -/
theorem cstep_proj_same (aa : Alphabet) (cfg : Cfg) (c : Core) (res0 : Nat) (ini : Bool) (h : c.frame < 3) :
    proj (cstep aa cfg c res0 ini) c.frame = fstep aa cfg (dirOf c.isRev) (proj c c.frame) ⟨c.apos, res0, ini⟩ := by
  unfold cstep finishStep fstep proj
  simp only [processOrf_eq, getF_fK c h, emits, orfRec]
  cases hin : (fK c c.frame).inOrf <;> cases ini <;> cases hu : cfg.usingInit <;>
    cases hs0 : aa.xIsNonresidue res0 <;> cases hsm : aa.xIsNonresidue (aa.inmapAt 77) <;>
    by_cases hm : cfg.minlen ≤ ((fK c c.frame).rev.length : Int) <;>
    simp [hin, hu, hs0, hsm, hm, fK_setF, h, getF_fK, fK_adv, recsOf_cons, fK_fields]

/-- … and invisible from the two other frames -/
theorem cstep_proj_other (aa : Alphabet) (cfg : Cfg) (c : Core) (res0 : Nat) (ini : Bool) (h : c.frame < 3)
    (j : Nat) (hj : j < 3) (hne : j ≠ c.frame) :
    proj (cstep aa cfg c res0 ini) j = proj c j := by
  have hne' : ¬ (c.frame + 1 + labelOff c.isRev = j + 1 + labelOff c.isRev) := by omega
  have hne2 : ¬ c.frame = j := fun e => hne e.symm
  unfold cstep finishStep proj
  simp only [processOrf_eq, getF_fK c h, emits, orfRec]
  cases hin : (fK c c.frame).inOrf <;> cases ini <;> cases hu : cfg.usingInit <;>
    cases hs0 : aa.xIsNonresidue res0 <;> cases hsm : aa.xIsNonresidue (aa.inmapAt 77) <;>
    by_cases hm : cfg.minlen ≤ ((fK c c.frame).rev.length : Int) <;>
    simp [hin, hu, hs0, hsm, hm, fK_setF, h, hj, hne, hne', hne2, getF_fK, fK_adv, recsOf_cons, fK_fields]

theorem processOrf_fields (cfg : Cfg) (c : Core) :
    (processOrf cfg c).frame = c.frame ∧ (processOrf cfg c).isRev = c.isRev ∧ (processOrf cfg c).apos = c.apos := by
  rw [processOrf_eq]
  by_cases h : emits cfg c = true <;> simp [h]

theorem ite_setF_fields (b : Bool) (c : Core) (f : FrameSt) :
    (if b = true then c.setF f else c).frame = c.frame ∧ (if b = true then c.setF f else c).isRev = c.isRev ∧
    (if b = true then c.setF f else c).apos = c.apos := by
  cases b <;> simp

theorem ite_processOrf_fields (b : Bool) (cfg : Cfg) (c : Core) :
    (if b = true then processOrf cfg c else c).frame = c.frame ∧
    (if b = true then processOrf cfg c else c).isRev = c.isRev ∧
    (if b = true then processOrf cfg c else c).apos = c.apos := by
  cases b
  · simp
  · simpa using processOrf_fields cfg c

theorem finishStep_fields (aa : Alphabet) (cfg : Cfg) (c : Core) (res : Nat) :
    (finishStep aa cfg c res).frame = (c.frame + 1) % 3 ∧ (finishStep aa cfg c res).isRev = c.isRev ∧
    (finishStep aa cfg c res).apos = c.apos + dirOf c.isRev := by
  obtain ⟨p1, p2, p3⟩ := ite_processOrf_fields (aa.xIsNonresidue res) cfg c
  generalize hc1 : (if aa.xIsNonresidue res = true then processOrf cfg c else c) = c1 at p1 p2 p3
  have hfin : finishStep aa cfg c res =
      { (if c1.getF.inOrf = true then c1.setF { c1.getF with rev := res :: c1.getF.rev } else c1) with
        apos := if (if c1.getF.inOrf = true then c1.setF { c1.getF with rev := res :: c1.getF.rev } else c1).isRev
                then (if c1.getF.inOrf = true then c1.setF { c1.getF with rev := res :: c1.getF.rev } else c1).apos - 1
                else (if c1.getF.inOrf = true then c1.setF { c1.getF with rev := res :: c1.getF.rev } else c1).apos + 1,
        frame := ((if c1.getF.inOrf = true then c1.setF { c1.getF with rev := res :: c1.getF.rev } else c1).frame + 1) % 3 } := by
    unfold finishStep; rw [hc1]
  obtain ⟨q1, q2, q3⟩ := ite_setF_fields c1.getF.inOrf c1 { c1.getF with rev := res :: c1.getF.rev }
  rw [hfin]
  simp only [q1, q2, q3, p1, p2, p3, dirOf]
  refine ⟨trivial, trivial, ?_⟩
  cases c.isRev <;> simp <;> omega

theorem cstep_frame (aa : Alphabet) (cfg : Cfg) (c : Core) (res0 : Nat) (ini : Bool) :
    (cstep aa cfg c res0 ini).frame = (c.frame + 1) % 3 ∧ (cstep aa cfg c res0 ini).isRev = c.isRev ∧
    (cstep aa cfg c res0 ini).apos = c.apos + dirOf c.isRev := by
  unfold cstep
  by_cases h : (!c.getF.inOrf && ini) = true
  · simp only [h, if_true]
    have := finishStep_fields aa cfg (c.setF { c.getF with inOrf := true, start := c.apos })
      (if cfg.usingInit then aa.inmapAt 77 else res0)
    simpa using this
  · simp only [h, if_false]
    exact finishStep_fields aa cfg c res0

theorem sub_cons (k f : Nat) (it : Item) (rest : List Item) :
    sub k f (it :: rest) = if f = k then it :: sub k ((f + 1) % 3) rest else sub k ((f + 1) % 3) rest := rfl

/-- after the whole strand: frame `k`'s view = the per-frame finder folded over frame `k`'s codons -/
theorem coreRun_proj (nt aa : Alphabet) (g : Gencode) (cfg : Cfg) :
    ∀ (d : List Nat) (c : Core), c.frame < 3 → ∀ k, k < 3 →
      proj (coreRun nt aa g cfg c d) k =
        (sub k c.frame (itemsFrom nt aa g (dirOf c.isRev) c.apos d)).foldl (fstep aa cfg (dirOf c.isRev)) (proj c k) := by
  intro d
  induction d with
  | nil => intro c _ k _; simp [coreRun, itemsFrom, sub]
  | cons a t ih =>
    intro c hf k hk
    match t, ih with
    | [], _ => simp [coreRun, itemsFrom, sub]
    | [b], _ => simp [coreRun, itemsFrom, sub]
    | b :: c' :: rest, ih =>
      obtain ⟨e1, e2, e3⟩ := cstep_frame aa cfg c (codonAa nt aa g a b c') (specInitiator nt g a b c')
      have ih' := ih (cstep aa cfg c (codonAa nt aa g a b c') (specInitiator nt g a b c')) (by rw [e1]; omega) k hk
      rw [e1, e2, e3] at ih'
      simp only [coreRun, itemsFrom, sub_cons]
      rw [ih']
      by_cases hkf : c.frame = k
      · subst hkf
        rw [if_pos rfl, List.foldl_cons, cstep_proj_same aa cfg c _ _ hf]
      · rw [if_neg hkf, cstep_proj_other aa cfg c _ _ hf k hk (fun e => hkf e.symm)]

theorem coreRun_pos (nt aa : Alphabet) (g : Gencode) (cfg : Cfg) :
    ∀ (d : List Nat) (c : Core), c.frame < 3 →
      (coreRun nt aa g cfg c d).frame = (c.frame + (itemsFrom nt aa g (dirOf c.isRev) c.apos d).length) % 3 ∧
      (coreRun nt aa g cfg c d).isRev = c.isRev ∧
      (coreRun nt aa g cfg c d).apos = c.apos + ((itemsFrom nt aa g (dirOf c.isRev) c.apos d).length : Int) * dirOf c.isRev := by
  intro d
  induction d with
  | nil => intro c h; simp [coreRun, itemsFrom, Nat.mod_eq_of_lt h]
  | cons a t ih =>
    intro c h
    match t, ih with
    | [], _ => simp [coreRun, itemsFrom, Nat.mod_eq_of_lt h]
    | [b], _ => simp [coreRun, itemsFrom, Nat.mod_eq_of_lt h]
    | b :: c' :: rest, ih =>
      obtain ⟨e1, e2, e3⟩ := cstep_frame aa cfg c (codonAa nt aa g a b c') (specInitiator nt g a b c')
      obtain ⟨i1, i2, i3⟩ := ih (cstep aa cfg c (codonAa nt aa g a b c') (specInitiator nt g a b c')) (by rw [e1]; omega)
      simp only [e1, e2, e3] at i1 i2 i3
      simp only [coreRun, itemsFrom, List.length_cons]
      refine ⟨?_, i2, ?_⟩
      · rw [i1]; omega
      · rw [i3]; push_cast; ring

end EaselModel.Gencode
