import EaselModel.Gencode.Model
/-! # C17 — `esl_gencode_Write` never reads out of bounds on a well-formed code object -/
namespace EaselModel.Gencode
open EaselModel.Alphabet

theorem mapM_isSome {β : Type} (f : Nat → Option β) : ∀ (l : List Nat), (∀ x ∈ l, (f x).isSome = true) → (l.mapM f).isSome = true
  | [], _ => rfl
  | a :: t, h => by
    have ha := h a (by simp)
    have ht := mapM_isSome f t (fun x hx => h x (by simp [hx]))
    cases hfa : f a with
    | none => rw [hfa] at ha; cases ha
    | some v =>
      cases hft : t.mapM f with
      | none => rw [hft] at ht; cases ht
      | some vs => simp [List.mapM_cons, hfa, hft]

theorem order_getD_mem (i : Nat) (h : i < 4) : order.getD i 0 ∈ order := by
  have : i < order.length := by simpa [order] using h
  rw [List.getD_eq_getElem?_getD, List.getElem?_eq_getElem this]; exact List.getElem_mem _

theorem ncbiCodon_lt (nt : Alphabet) (hn : ∀ c ∈ order, nt.inmapAt c < 4) (x : Nat) (hx : x < 64) : ncbiCodon nt x < 64 := by
  unfold ncbiCodon
  have a := hn _ (order_getD_mem (x / 16) (by omega))
  have b := hn _ (order_getD_mem ((x % 16) / 4) (by omega))
  have c := hn _ (order_getD_mem (x % 4) (by omega))
  omega

/-- `esl_gencode_Write` on a well-formed code object — 64 entries in both arrays, every translation an index into
    `aa_abc->sym`, a nucleotide alphabet that digitizes T (U), C, A, G to 0..3 — reads only inside its arrays and always
    produces the text (with or without the comment line) -/
theorem write_isSome (nt aa : Alphabet) (g : Gencode) (cm : Bool) (h1 : g.basic.length = 64) (h2 : g.isInit.length = 64)
    (hb : ∀ b ∈ g.basic, b < aa.sym.length) (hn : ∀ c ∈ order, nt.inmapAt c < 4) : (write nt aa g cm).isSome = true := by
  have e1 : ((List.range 64).mapM fun x => do
      let b ← g.basic[ncbiCodon nt x]?
      aa.sym[b]?).isSome = true := by
    apply mapM_isSome
    intro x hx
    have hc := ncbiCodon_lt nt hn x (List.mem_range.mp hx)
    have hl : ncbiCodon nt x < g.basic.length := by omega
    rw [List.getElem?_eq_getElem hl]
    have := hb _ (List.getElem_mem hl)
    simp [List.getElem?_eq_getElem this]
  have e2 : ((List.range 64).mapM fun x => do
      let f ← g.isInit[ncbiCodon nt x]?
      some (if f ≠ 0 then 77 else 45)).isSome = true := by
    apply mapM_isSome
    intro x hx
    have hc := ncbiCodon_lt nt hn x (List.mem_range.mp hx)
    have hl : ncbiCodon nt x < g.isInit.length := by omega
    rw [List.getElem?_eq_getElem hl]
    simp
  unfold write
  cases h3 : ((List.range 64).mapM fun x => do
      let b ← g.basic[ncbiCodon nt x]?
      aa.sym[b]?) with
  | none => rw [h3] at e1; cases e1
  | some aas =>
    cases h4 : ((List.range 64).mapM fun x => do
        let f ← g.isInit[ncbiCodon nt x]?
        some (if f ≠ 0 then 77 else 45)) with
    | none => rw [h4] at e2; cases e2
    | some starts => simp [h3, h4]

end EaselModel.Gencode
