/-! # C17 — pinned copy of the NCBI translation tables (hand-maintained; NOT generated)

Each entry: NCBI `transl_table` id, the `AAs` line and the `Starts` line of the NCBI genetic-code file, both in NCBI's
column order (Base1/Base2/Base3 running over T, C, A, G):

    Base1 = TTTTTTTTTTTTTTTTCCCCCCCCCCCCCCCCAAAAAAAAAAAAAAAAGGGGGGGGGGGGGGGG
    Base2 = TTTTCCCCAAAAGGGGTTTTCCCCAAAAGGGGTTTTCCCCAAAAGGGGTTTTCCCCAAAAGGGG
    Base3 = TCAGTCAGTCAGTCAGTCAGTCAGTCAGTCAGTCAGTCAGTCAGTCAGTCAGTCAGTCAGTCAG

Taken from the unchanged tree and cross-read against the NCBI definitions (differences from the standard code:
2: AGA/AGG stop, ATA Met, TGA Trp; 3: CTN Thr, ATA Met, TGA Trp; 4: TGA Trp; 5: AGA/AGG Ser, ATA Met, TGA Trp;
6: TAA/TAG Gln; 9: AAA Asn, AGA/AGG Ser, TGA Trp; 10: TGA Cys; 11: standard; 12: CTG Ser; 13: AGA/AGG Gly, ATA Met, TGA Trp;
14: AAA Asn, AGA/AGG Ser, TAA Tyr, TGA Trp; 16: TAG Leu; 21: TGA Trp, ATA Met, AGA/AGG Ser, AAA Asn;
22: TCA stop, TAG Leu; 23: TTA stop; 24: AGA Ser, AGG Lys, TGA Trp; 25: TGA Gly).
"That table's amino acid" in property C17 means these strings. -/
namespace EaselModel.Gencode.Ncbi

def pinned : List (Int × String × String) := [
  (1, "FFLLSSSSYY**CC*WLLLLPPPPHHQQRRRRIIIMTTTTNNKKSSRRVVVVAAAADDEEGGGG",
       "---M---------------M---------------M----------------------------"),
  (2, "FFLLSSSSYY**CCWWLLLLPPPPHHQQRRRRIIMMTTTTNNKKSS**VVVVAAAADDEEGGGG",
       "--------------------------------MMMM---------------M------------"),
  (3, "FFLLSSSSYY**CCWWTTTTPPPPHHQQRRRRIIMMTTTTNNKKSSRRVVVVAAAADDEEGGGG",
       "----------------------------------MM----------------------------"),
  (4, "FFLLSSSSYY**CCWWLLLLPPPPHHQQRRRRIIIMTTTTNNKKSSRRVVVVAAAADDEEGGGG",
       "--MM---------------M------------MMMM---------------M------------"),
  (5, "FFLLSSSSYY**CCWWLLLLPPPPHHQQRRRRIIMMTTTTNNKKSSSSVVVVAAAADDEEGGGG",
       "---M----------------------------MMMM---------------M------------"),
  (6, "FFLLSSSSYYQQCC*WLLLLPPPPHHQQRRRRIIIMTTTTNNKKSSRRVVVVAAAADDEEGGGG",
       "-----------------------------------M----------------------------"),
  (9, "FFLLSSSSYY**CCWWLLLLPPPPHHQQRRRRIIIMTTTTNNNKSSSSVVVVAAAADDEEGGGG",
       "-----------------------------------M---------------M------------"),
  (10, "FFLLSSSSYY**CCCWLLLLPPPPHHQQRRRRIIIMTTTTNNKKSSRRVVVVAAAADDEEGGGG",
       "-----------------------------------M----------------------------"),
  (11, "FFLLSSSSYY**CC*WLLLLPPPPHHQQRRRRIIIMTTTTNNKKSSRRVVVVAAAADDEEGGGG",
       "---M---------------M------------MMMM---------------M------------"),
  (12, "FFLLSSSSYY**CC*WLLLSPPPPHHQQRRRRIIIMTTTTNNKKSSRRVVVVAAAADDEEGGGG",
       "-------------------M---------------M----------------------------"),
  (13, "FFLLSSSSYY**CCWWLLLLPPPPHHQQRRRRIIMMTTTTNNKKSSGGVVVVAAAADDEEGGGG",
       "---M------------------------------MM---------------M------------"),
  (14, "FFLLSSSSYYY*CCWWLLLLPPPPHHQQRRRRIIIMTTTTNNNKSSSSVVVVAAAADDEEGGGG",
       "-----------------------------------M----------------------------"),
  (16, "FFLLSSSSYY*LCC*WLLLLPPPPHHQQRRRRIIIMTTTTNNKKSSRRVVVVAAAADDEEGGGG",
       "-----------------------------------M----------------------------"),
  (21, "FFLLSSSSYY**CCWWLLLLPPPPHHQQRRRRIIMMTTTTNNNKSSSSVVVVAAAADDEEGGGG",
       "-----------------------------------M---------------M------------"),
  (22, "FFLLSS*SYY*LCC*WLLLLPPPPHHQQRRRRIIIMTTTTNNKKSSRRVVVVAAAADDEEGGGG",
       "-----------------------------------M----------------------------"),
  (23, "FF*LSSSSYY**CC*WLLLLPPPPHHQQRRRRIIIMTTTTNNKKSSRRVVVVAAAADDEEGGGG",
       "--------------------------------M--M---------------M------------"),
  (24, "FFLLSSSSYY**CCWWLLLLPPPPHHQQRRRRIIIMTTTTNNKKSSSKVVVVAAAADDEEGGGG",
       "---M---------------M---------------M---------------M------------"),
  (25, "FFLLSSSSYY**CCGWLLLLPPPPHHQQRRRRIIIMTTTTNNKKSSRRVVVVAAAADDEEGGGG",
       "---M-------------------------------M---------------M------------")]

/-- Easel's amino alphabet order (code of a letter = its index); `*` = 27 is the stop / nonresidue code -/
def aminoSyms : List Char := "ACDEFGHIKLMNPQRSTVWY-BJZOUX*~".toList

/-- NCBI column `p` (0..63) ↦ codon index `16x + 4y + z` over A,C,G,T = 0,1,2,3 -/
def tcag : List Nat := [3, 1, 0, 2]      -- T, C, A, G as digital codes
def columnCodon (p : Nat) : Nat := 16 * tcag.getD (p / 16) 0 + 4 * tcag.getD ((p % 16) / 4) 0 + tcag.getD (p % 4) 0

/-- inverse: codon index ↦ NCBI column -/
def tcagInv : List Nat := [2, 1, 3, 0]   -- A, C, G, T ↦ position in "TCAG"
def codonColumn (c : Nat) : Nat := 16 * tcagInv.getD (c / 16) 0 + 4 * tcagInv.getD ((c % 16) / 4) 0 + tcagInv.getD (c % 4) 0

theorem columnCodon_codonColumn : ∀ c, c < 64 → columnCodon (codonColumn c) = c := by decide
theorem codonColumn_columnCodon : ∀ p, p < 64 → codonColumn (columnCodon p) = p := by decide

/-- the `AAs` line (NCBI column order) of a table given as 64 codes in the code's codon order -/
def aasLine (basic : List Nat) : List Char :=
  (List.range 64).map fun p => aminoSyms.getD (basic.getD (columnCodon p) 99) '?'

/-- the `Starts` line (NCBI column order) of 64 initiator flags in the code's codon order -/
def startsLine (init : List Nat) : List Char :=
  (List.range 64).map fun p => if init.getD (columnCodon p) 0 ≠ 0 then 'M' else '-'

/-- a pinned table in the code's codon order (used by the specification side) -/
def basicOf (aas : String) : List Nat :=
  let cs := aas.toList
  (List.range 64).map fun c => aminoSyms.idxOf (cs.getD (codonColumn c) '?')

def initOf (starts : String) : List Nat :=
  let cs := starts.toList
  (List.range 64).map fun c => if cs.getD (codonColumn c) '-' = 'M' then 1 else 0

end EaselModel.Gencode.Ncbi
