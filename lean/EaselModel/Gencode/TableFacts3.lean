import EaselModel.Gencode.Builtin
/-! # C17 — table facts closed by `decide` over the regenerated tables (split over several modules so that they
    are checked in parallel; the statements are restated, with their documentation, in `Props/C17.lean`) -/
namespace EaselModel.Gencode.Facts
open EaselModel.Alphabet EaselModel.Gencode

theorem no_initiator_stop :
    NtOK A.dna ∧ A.dna.Kp = 18 ∧ A.amino.unknown = 26 ∧ A.amino.K = 20 ∧
    ∀ t ∈ T.tables, ∀ g ∈ settings (codeOf t), CodeOK g ∧
      ∀ c, c < 64 → (g.basic.getD c 99 < 20 ∨ g.basic.getD c 99 = A.amino.nonresidue) ∧
        (g.isInit.getD c 0 ≠ 0 → g.basic.getD c 99 ≠ A.amino.nonresidue) := by decide +kernel

theorem expand_is_iupac :
    ∀ a, a < 18 → flags (A.dna.degen.getD a []) =
      (Iupac.denotes .dna ((Iupac.symbols .dna).getD a ' ')).map fun ch => (Iupac.canonical .dna).idxOf ch := by
  decide +kernel

theorem builtin_tables_ok :
    ∀ t ∈ T.tables, ∀ g ∈ settings (codeOf t), TableOK A.amino g := by decide +kernel

theorem rna_objects_ok :
    NtOK A.rna ∧ A.rna.Kp = 18 ∧
    (∀ a, a < 18 → flags (A.rna.degen.getD a []) =
      (Iupac.denotes .rna ((Iupac.symbols .rna).getD a ' ')).map fun ch => (Iupac.canonical .rna).idxOf ch) ∧
    (∀ g, (setInitiatorOnlyAUG A.rna g).isInit = (setInitiatorOnlyAUG A.dna g).isInit) ∧
    (∀ x, x < 64 → ncbiCodon A.rna x = ncbiCodon A.dna x) := by
  refine ⟨by decide +kernel, by decide, by decide +kernel, fun g => ?_, by decide +kernel⟩
  have e : 16 * A.rna.inmapAt 65 + 4 * A.rna.inmapAt 84 + A.rna.inmapAt 71 =
      16 * A.dna.inmapAt 65 + 4 * A.dna.inmapAt 84 + A.dna.inmapAt 71 := by decide
  simp only [setInitiatorOnlyAUG, e]

end EaselModel.Gencode.Facts
