import EaselModel.Gencode.OrfDecl
import EaselModel.Gencode.Lemmas2
/-! # C17 — an initiator codon (degenerate or not) never translates to a stop; the per-frame ORF list in declarative form -/
namespace EaselModel.Gencode
open EaselModel.Alphabet

/-- what the ORF theorem needs of the table and the amino alphabet: entries are bytes, no initiator codon is a stop,
    and neither M nor X is the stop code -/
def TableOK (aa : Alphabet) (g : Gencode) : Prop :=
  (∀ c, c < 64 → g.basic.getD c 0 < 256 ∧ (g.isInit.getD c 0 ≠ 0 → aa.xIsNonresidue (g.basic.getD c 0) = false)) ∧
  aa.xIsNonresidue (aa.inmapAt 77) = false ∧ aa.xIsNonresidue aa.unknown = false ∧ aa.unknown < 256

instance (aa : Alphabet) (g : Gencode) : Decidable (TableOK aa g) := by unfold TableOK; infer_instance

theorem ini_not_stop (nt aa : Alphabet) (g : Gencode) (hn : NtOK nt) (hT : TableOK aa g) (a b c : Nat)
    (hi : specInitiator nt g a b c = true) : aa.xIsNonresidue (codonAa nt aa g a b c) = false := by
  obtain ⟨hB, _, hX, hX256⟩ := hT
  unfold specInitiator at hi
  unfold codonAa
  by_cases hcan : allCanonical nt a b c = true
  · rw [if_pos hcan] at hi ⊢
    have hlt := canon_codon_lt nt hn a b c hcan
    exact (hB _ hlt).2 (by simpa using hi)
  · rw [if_neg hcan] at hi ⊢
    simp only [Bool.and_eq_true, decide_eq_true_eq, List.all_eq_true, ne_eq] at hi
    obtain ⟨hne, hall⟩ := hi
    unfold specTranslation
    rw [if_neg hcan]
    cases hex : expand nt a b c with
    | nil => exact absurd hex hne
    | cons k ks =>
      have hk : k ∈ expand nt a b c := by rw [hex]; simp
      have hk64 := expand_lt nt a b c k hk
      have hik := hall k hk
      simp only []
      by_cases hsame : ∀ k' ∈ ks, g.basic.getD k' 0 = g.basic.getD k 0
      · rw [if_pos hsame]
        have h256 := (hB k hk64).1
        have : ((((g.basic.getD k 0 : Nat) : Int)) % 256).toNat = g.basic.getD k 0 := by omega
        rw [this]
        exact (hB k hk64).2 hik
      · rw [if_neg hsame]
        have : ((((aa.unknown : Nat) : Int)) % 256).toNat = aa.unknown := by omega
        rw [this]
        exact hX

theorem mem_sub (k : Nat) : ∀ (l : List Item) (f : Nat) (it : Item), it ∈ sub k f l → it ∈ l := by
  intro l
  induction l with
  | nil => intro f it h; simp [sub] at h
  | cons x rest ih =>
    intro f it h
    unfold sub at h
    split at h
    · rcases List.mem_cons.mp h with rfl | h'
      · simp
      · exact List.mem_cons_of_mem _ (ih _ _ h')
    · exact List.mem_cons_of_mem _ (ih _ _ h)

theorem mem_itemsFrom (nt aa : Alphabet) (g : Gencode) (dir : Int) :
    ∀ (d : List Nat) (pos : Int) (it : Item), it ∈ itemsFrom nt aa g dir pos d →
      ∃ a b c, it.aa = codonAa nt aa g a b c ∧ it.ini = specInitiator nt g a b c := by
  intro d
  induction d with
  | nil => intro pos it h; simp [itemsFrom] at h
  | cons a t ih =>
    intro pos it h
    match t, ih, h with
    | [], _, h => simp [itemsFrom] at h
    | [b], _, h => simp [itemsFrom] at h
    | b :: c :: rest, ih, h =>
      simp only [itemsFrom, List.mem_cons] at h
      rcases h with rfl | h
      · exact ⟨a, b, c, rfl, rfl⟩
      · exact ih _ _ h

/-- **declarative form of the per-frame ORF list**: split the frame's codons at the stop codons, in every stop-free
    stretch drop the codons before the first initiator, keep what is left if it has at least `minlen` residues; the ORF
    starts at that initiator's coordinate, ends just before the stop (or at the frame's last complete codon), and its first
    residue is M when initiators are required. (Newest first, as the machine lists them.) -/
theorem frameOrfs_declarative (nt aa : Alphabet) (g : Gencode) (cfg : Cfg) (hn : NtOK nt) (hT : TableOK aa g)
    (dir p0 : Int) (d : List Nat) (k : Nat) :
    frameOrfs nt aa g cfg dir p0 d k =
      (declFrame aa cfg dir
        (p0 + (((itemsFrom nt aa g dir p0 d).length + (k + 3 - (itemsFrom nt aa g dir p0 d).length % 3) % 3 : Nat) : Int) * dir - dir)
        (sub k 0 (itemsFrom nt aa g dir p0 d))).reverse := by
  unfold frameOrfs
  simp only []
  rw [fstep_fold_decl aa cfg dir _ _ {} [] ?_ (fun _ => rfl)]
  · simp
  · refine ⟨hT.2.1, fun it hit hini => ?_⟩
    obtain ⟨a, b, c, e1, e2⟩ := mem_itemsFrom nt aa g dir d p0 it (mem_sub k _ _ it hit)
    rw [e1]
    exact ini_not_stop nt aa g hn hT a b c (by rw [← e2]; exact hini)

end EaselModel.Gencode
