import EaselModel.Gencode.Translate
/-! # C17 — the residue lines `ProcessOrf` prints for a record (FASTA, 60 per line) hold exactly the record's residues -/
namespace EaselModel.Gencode
open EaselModel.Alphabet

/-- removing the newlines from the residue lines gives the symbols back, in order; there are ⌈n/60⌉ lines -/
theorem fastaLines_spec : ∀ (fuel : Nat) (l : List Nat), l.length ≤ fuel → (∀ x ∈ l, x ≠ 10) →
    (fastaLines fuel l).filter (· ≠ 10) = l ∧ (fastaLines fuel l).count 10 = (l.length + 59) / 60 := by
  intro fuel
  induction fuel with
  | zero =>
    intro l hl _
    have : l = [] := List.length_eq_zero_iff.mp (by omega)
    subst this
    exact ⟨rfl, rfl⟩
  | succ fuel ih =>
    intro l hl hne
    cases l with
    | nil => exact ⟨rfl, rfl⟩
    | cons a t =>
      have hdrop : ((a :: t).drop 60).length ≤ fuel := by simp only [List.length_drop, List.length_cons] at hl ⊢; omega
      obtain ⟨i1, i2⟩ := ih ((a :: t).drop 60) hdrop (fun x hx => hne x (List.mem_of_mem_drop hx))
      have htake : ∀ x ∈ (a :: t).take 60, x ≠ 10 := fun x hx => hne x (List.mem_of_mem_take hx)
      have e : fastaLines (fuel + 1) (a :: t) = (a :: t).take 60 ++ [10] ++ fastaLines fuel ((a :: t).drop 60) := by
        simp [fastaLines]
      rw [e]
      constructor
      · rw [List.filter_append, List.filter_append, i1]
        have f1 : ((a :: t).take 60).filter (· ≠ 10) = (a :: t).take 60 :=
          List.filter_eq_self.mpr (fun x hx => by simpa using htake x hx)
        rw [f1]
        simp
      · rw [List.count_append, List.count_append, i2]
        have c1 : ((a :: t).take 60).count 10 = 0 := List.count_eq_zero.mpr (fun h => htake 10 h rfl)
        rw [c1]
        simp only [List.length_drop, List.length_cons, List.count_cons_self, List.count_nil]
        omega

/-- **the text printed for a record**: `>orf<n> source=… coords=… length=… frame=… desc=…`, newline, then residue lines that hold
    exactly the record's residues as amino-acid symbols, 60 per line (⌈n/60⌉ newline-terminated lines) -/
theorem fastaOrf_spec (aa : Alphabet) (source desc : String) (o : Orf) (hs : ∀ x ∈ o.aa, aa.sym.getD x 63 ≠ 10) :
    ∃ lines, fastaOrf aa source desc o = strBytes (">" ++ orfName o ++ " " ++ orfDesc source desc o ++ "\n") ++ lines ∧
      lines.filter (· ≠ 10) = o.aa.map (fun x => aa.sym.getD x 63) ∧ lines.count 10 = (o.aa.length + 59) / 60 := by
  refine ⟨_, rfl, ?_⟩
  have := fastaLines_spec o.aa.length (o.aa.map fun x => aa.sym.getD x 63) (by simp)
    (fun y hy => by obtain ⟨x, hx, rfl⟩ := List.mem_map.mp hy; exact hs x hx)
  simpa using this

end EaselModel.Gencode
