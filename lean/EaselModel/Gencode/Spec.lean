import EaselModel.Gencode.Model
/-! # C17 — declarative statements for codon translation -/
namespace EaselModel.Gencode
open EaselModel.Alphabet

/-- canonical residues `x < 4` flagged in a degeneracy row -/
def flags (row : List Nat) : List Nat := [0, 1, 2, 3].filter fun x => row.getD x 0 ≠ 0

/-- the canonical codons (as indices `16x+4y+z`) a possibly degenerate codon `a b c` stands for, in the order the
    triple loop visits them -/
def expand (nt : Alphabet) (a b c : Nat) : List Nat :=
  (flags (nt.degen.getD a [])).flatMap fun x =>
    (flags (nt.degen.getD b [])).flatMap fun y =>
      (flags (nt.degen.getD c [])).map fun z => 16 * x + 4 * y + z

def allCanonical (nt : Alphabet) (a b c : Nat) : Bool := nt.xIsCanonical a && nt.xIsCanonical b && nt.xIsCanonical c

/-- specification of `esl_gencode_GetTranslation`: the amino acid (or stop) shared by all codons the triplet stands for,
    else `unknown`; −1 when it stands for none (a gap/nonresidue/missing code inside the triplet) -/
def specTranslation (nt aa : Alphabet) (g : Gencode) (a b c : Nat) : Int :=
  if allCanonical nt a b c then (g.basic.getD (16 * a + 4 * b + c) 0 : Nat)
  else match expand nt a b c with
    | [] => -1
    | k :: ks => if ∀ k' ∈ ks, g.basic.getD k' 0 = g.basic.getD k 0 then (g.basic.getD k 0 : Nat) else (aa.unknown : Nat)

/-- specification of `esl_gencode_IsInitiator` as a truth value: all codons it stands for are initiators (and there is one) -/
def specInitiator (nt : Alphabet) (g : Gencode) (a b c : Nat) : Bool :=
  if allCanonical nt a b c then g.isInit.getD (16 * a + 4 * b + c) 0 ≠ 0
  else (expand nt a b c ≠ []) && (expand nt a b c).all fun k => g.isInit.getD k 0 ≠ 0

/-- what the theorems need of the nucleotide alphabet: 4 canonical residues, every code `< Kp` has a row of 4 flags -/
def NtOK (nt : Alphabet) : Prop :=
  nt.K = 4 ∧ nt.degen.length = nt.Kp ∧ ∀ a, a < nt.Kp → (nt.degen.getD a []).length = 4

instance (nt : Alphabet) : Decidable (NtOK nt) := by unfold NtOK; infer_instance

/-- a genetic code has 64 entries in both arrays -/
def CodeOK (g : Gencode) : Prop := g.basic.length = 64 ∧ g.isInit.length = 64

instance (g : Gencode) : Decidable (CodeOK g) := by unfold CodeOK; infer_instance

end EaselModel.Gencode
