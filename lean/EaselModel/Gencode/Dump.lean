import EaselModel.Gencode.Builtin
/-! # C17 — `esl_gencode_DumpAltCodeTable`: the text as a function of `esl_transl_tables[]` -/
namespace EaselModel.Gencode

/-- the lines of the dump: two header lines, then one line `"%3d %s"` per row of the table array, in array order -/
def dumpLines (tabs : List RawTable) : List String :=
  ["id  description", "--- -----------------------------------"] ++ tabs.map fun t => pad3 t.id ++ " " ++ t.desc

theorem join_map_append (l : List String) (f : String → String) (g : RawTable → String) (tabs : List RawTable) :
    String.join (l ++ tabs.map fun t => f (g t)) = String.join l ++ String.join (tabs.map fun t => f (g t)) := by
  induction l with
  | nil => simp [String.join]
  | cons a l ih => simp [String.join_cons, ih, String.append_assoc]

/-- the text `esl_gencode_DumpAltCodeTable` writes is its lines, each terminated by a newline -/
theorem dump_eq_lines (tabs : List RawTable) :
    dumpAltCodeTable tabs = String.join ((dumpLines tabs).map (· ++ "\n")) := by
  unfold dumpAltCodeTable dumpLines
  simp only [List.map_append, List.map_cons, List.map_nil, List.map_map]
  have : ∀ ts : List RawTable, String.join (ts.map fun t => pad3 t.id ++ " " ++ t.desc ++ "\n") =
      String.join (ts.map ((fun x => x ++ "\n") ∘ fun t => pad3 t.id ++ " " ++ t.desc)) := fun ts => rfl
  rw [this]
  simp [String.join_cons, String.append_assoc]
  have e : "id  description\n--- -----------------------------------\n" =
      "id  description\n" ++ "--- -----------------------------------\n" := by decide
  rw [e, String.append_assoc]

/-- for the tables of the tree: ids are 1..99, printed right-aligned in three columns, and no description contains a newline —
    so the dump has exactly one line per table and the id can be read back from its first three characters -/
theorem dump_rows_wellformed :
    ∀ t ∈ T.tables, 0 < t.id ∧ t.id < 100 ∧ pad3 t.id = (if t.id < 10 then "  " else " ") ++ toString t.id ∧
      (t.desc.toList.all fun ch => ch ≠ '\n') = true := by decide +kernel

end EaselModel.Gencode
