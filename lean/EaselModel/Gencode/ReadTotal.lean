import EaselModel.Gencode.Model
/-! # C17 — `esl_gencode_Read` never reads or writes out of bounds, whatever the bytes of the file

`readColumnsO` is the per-column loop of `esl_gencode_Read` with EVERY array access of the C code checked: the reads
`aas[pos]`, `mline[pos]`, `base1..3[pos]` of the five 65-byte line buffers, the `inmap[(int)c]` reads of
`esl_abc_CIsValid` / `esl_abc_DigitizeSymbol` (128 entries), the writes `aa_seen[x]++` (20 entries), `codon_seen[codon]++`,
`gcode->basic[codon]`, `gcode->is_initiator[codon]` (64 entries). Outcome `none` = one of them is out of bounds;
`some none` = `eslEFORMAT`; `some (some …)` = the loop ran to the end. -/
namespace EaselModel.Gencode
open EaselModel.Alphabet

abbrev ColState := List Nat × List Nat × List Nat × List Nat × Nat

/-- `inmap[(int) c]` checked -/
def inmapO (a : Alphabet) (c : Nat) : Option Nat := a.inmap[c]?

def readColumnsO (nt aa : Alphabet) (aas mline b1 b2 b3 : List Nat) : Nat → ColState → Option (Option ColState)
  | 0, st => some (some st)
  | k+1, (basic, ini, cseen, aseen, stops) =>
    let pos := 64 - (k+1)
    match aas[pos]?, mline[pos]?, b1[pos]?, b2[pos]?, b3[pos]? with
    | some a, some m, some x1, some x2, some x3 =>
      -- `isascii(c) && inmap[c] < Kp` reads `inmap[c]` only for `c < 128`
      let rd (al : Alphabet) (c : Nat) : Option Nat := if c < 128 then inmapO al c else some ILLEGAL
      match rd aa a, rd nt x1, rd nt x2, rd nt x3 with
      | some _, some _, some _, some _ =>
        if !aa.cIsValid a || !(decide (aa.inmapAt a < aa.K) || decide (aa.inmapAt a + 2 = aa.Kp)) then some none
        else if !nt.cIsValid x1 || !decide (nt.inmapAt x1 < nt.K) then some none
        else if !nt.cIsValid x2 || !decide (nt.inmapAt x2 < nt.K) then some none
        else if !nt.cIsValid x3 || !decide (nt.inmapAt x3 < nt.K) then some none
        else if m ≠ 45 ∧ m ≠ 109 ∧ m ≠ 77 then some none
        else
          let codon := 16 * nt.inmapAt x1 + 4 * nt.inmapAt x2 + nt.inmapAt x3
          let x := aa.inmapAt a
          if ¬ (codon < basic.length ∧ codon < ini.length ∧ codon < cseen.length ∧ (x < 20 → x < aseen.length)) then none
          else
            let (aseen, stops) := if x < 20 then (aseen.set x (aseen.getD x 0 + 1), stops) else (aseen, stops + 1)
            readColumnsO nt aa aas mline b1 b2 b3 k
              (basic.set codon x, ini.set codon (if m = 45 then 0 else 1), cseen.set codon (cseen.getD codon 0 + 1), aseen, stops)
      | _, _, _, _ => none
    | _, _, _, _, _ => none

/-- the checked loop never faults and computes what `readColumns` computes — for ANY five 64-byte lines -/
theorem readColumnsO_total (nt aa : Alphabet) (hK : nt.K = 4) (hin : nt.inmap.length = 128) (hia : aa.inmap.length = 128)
    (aas mline b1 b2 b3 : List Nat) (h1 : aas.length = 64) (h2 : mline.length = 64) (h3 : b1.length = 64)
    (h4 : b2.length = 64) (h5 : b3.length = 64) :
    ∀ (k : Nat) (basic ini cseen aseen : List Nat) (stops : Nat), k ≤ 64 → basic.length = 64 → ini.length = 64 →
      cseen.length = 64 → aseen.length = 20 →
      readColumnsO nt aa aas mline b1 b2 b3 k (basic, ini, cseen, aseen, stops) =
        some (readColumns nt aa aas mline b1 b2 b3 k basic ini cseen aseen stops)
  | 0, basic, ini, cseen, aseen, stops, _, _, _, _, _ => rfl
  | k+1, basic, ini, cseen, aseen, stops, hk, l1, l2, l3, l4 => by
    have hp : 64 - (k+1) < 64 := by omega
    have ea : aas[64 - (k+1)]? = some (aas.getD (64 - (k+1)) 0) := by
      rw [List.getD_eq_getElem?_getD, List.getElem?_eq_getElem (by omega)]; rfl
    have em : mline[64 - (k+1)]? = some (mline.getD (64 - (k+1)) 0) := by
      rw [List.getD_eq_getElem?_getD, List.getElem?_eq_getElem (by omega)]; rfl
    have e1 : b1[64 - (k+1)]? = some (b1.getD (64 - (k+1)) 0) := by
      rw [List.getD_eq_getElem?_getD, List.getElem?_eq_getElem (by omega)]; rfl
    have e2 : b2[64 - (k+1)]? = some (b2.getD (64 - (k+1)) 0) := by
      rw [List.getD_eq_getElem?_getD, List.getElem?_eq_getElem (by omega)]; rfl
    have e3 : b3[64 - (k+1)]? = some (b3.getD (64 - (k+1)) 0) := by
      rw [List.getD_eq_getElem?_getD, List.getElem?_eq_getElem (by omega)]; rfl
    have rdok : ∀ (al : Alphabet), al.inmap.length = 128 → ∀ c : Nat, ∃ v, (if c < 128 then inmapO al c else some ILLEGAL) = some v := by
      intro al hl c
      by_cases hc : c < 128
      · simp only [hc, ↓reduceIte, inmapO]
        exact ⟨al.inmap[c], List.getElem?_eq_getElem (by omega)⟩
      · exact ⟨ILLEGAL, by simp [hc]⟩
    obtain ⟨v0, r0⟩ := rdok aa hia (aas.getD (64 - (k+1)) 0)
    obtain ⟨v1, r1⟩ := rdok nt hin (b1.getD (64 - (k+1)) 0)
    obtain ⟨v2, r2⟩ := rdok nt hin (b2.getD (64 - (k+1)) 0)
    obtain ⟨v3, r3⟩ := rdok nt hin (b3.getD (64 - (k+1)) 0)
    simp only [readColumnsO, readColumns, ea, em, e1, e2, e3, r0, r1, r2, r3]
    split
    · rfl
    · split
      · rfl
      · split
        · rfl
        · split
          · rfl
          · split
            · rfl
            · rename_i c0 c1 c2 c3 c4
              simp only [Bool.or_eq_true, Bool.not_eq_eq_eq_not, Bool.not_true, decide_eq_false_iff_not, not_or, Classical.not_not] at c0 c1 c2 c3
              have q1 := c1.2; have q2 := c2.2; have q3 := c3.2
              have hcod : 16 * nt.inmapAt (b1.getD (64 - (k+1)) 0) + 4 * nt.inmapAt (b2.getD (64 - (k+1)) 0) +
                  nt.inmapAt (b3.getD (64 - (k+1)) 0) < 64 := by rw [hK] at q1 q2 q3; omega
              have hguard : (16 * nt.inmapAt (b1.getD (64 - (k+1)) 0) + 4 * nt.inmapAt (b2.getD (64 - (k+1)) 0) +
                    nt.inmapAt (b3.getD (64 - (k+1)) 0) < basic.length ∧
                  16 * nt.inmapAt (b1.getD (64 - (k+1)) 0) + 4 * nt.inmapAt (b2.getD (64 - (k+1)) 0) +
                    nt.inmapAt (b3.getD (64 - (k+1)) 0) < ini.length ∧
                  16 * nt.inmapAt (b1.getD (64 - (k+1)) 0) + 4 * nt.inmapAt (b2.getD (64 - (k+1)) 0) +
                    nt.inmapAt (b3.getD (64 - (k+1)) 0) < cseen.length ∧
                  (aa.inmapAt (aas.getD (64 - (k+1)) 0) < 20 → aa.inmapAt (aas.getD (64 - (k+1)) 0) < aseen.length)) := by
                rw [l1, l2, l3, l4]; exact ⟨hcod, hcod, hcod, fun h => h⟩
              rw [if_neg (not_not_intro hguard)]
              by_cases hx : aa.inmapAt (aas.getD (64 - (k+1)) 0) < 20
              · simp only [hx, ↓reduceIte]
                refine readColumnsO_total nt aa hK hin hia aas mline b1 b2 b3 h1 h2 h3 h4 h5 k _ _ _ _ _ (by omega) ?_ ?_ ?_ ?_ <;>
                  simp only [List.length_set, l1, l2, l3, l4]
              · simp only [hx, ↓reduceIte]
                refine readColumnsO_total nt aa hK hin hia aas mline b1 b2 b3 h1 h2 h3 h4 h5 k _ _ _ _ _ (by omega) ?_ ?_ ?_ ?_ <;>
                  simp only [List.length_set, l1, l2, l3, l4]

end EaselModel.Gencode
