import EaselModel.Gencode.SixFrames
/-! # C17 — record numbers run consecutively over strands and sequences of a whole file; the windowed loop on a whole file -/
namespace EaselModel.Gencode
open EaselModel.Alphabet

/-- newest-first list of record numbers `n0 + len, …, n0 + 2, n0 + 1` -/
def Numbered (n0 : Nat) : List Nat → Prop
  | [] => True
  | n :: rest => n = n0 + rest.length + 1 ∧ Numbered n0 rest

theorem Chain.numbered (dir : Int) (n0 : Nat) : ∀ (l : List (Nat × Int)) (ub : Int), Chain dir n0 ub l → Numbered n0 (l.map (·.1)) := by
  intro l
  induction l with
  | nil => intro _ _; trivial
  | cons p rest ih =>
    intro ub h
    obtain ⟨n, s⟩ := p
    exact ⟨by simpa using h.1, ih _ h.2.2⟩

theorem Numbered.append (n0 : Nat) (l1 : List Nat) : ∀ l2, Numbered (n0 + l1.length) l2 → Numbered n0 l1 → Numbered n0 (l2 ++ l1) := by
  intro l2
  induction l2 with
  | nil => intro _ h; exact h
  | cons n rest ih =>
    intro h2 h1
    refine ⟨?_, ih h2.2 h1⟩
    show n = n0 + (rest ++ l1).length + 1
    have := h2.1
    rw [List.length_append]
    omega

/-- the part of a work state the next strand depends on -/
def SameOut (w w' : Work) : Prop := w.c.out = w'.c.out ∧ w.c.orfcount = w'.c.orfcount

theorem processStart_congr (nt : Alphabet) (w w' : Work) (h : SameOut w w') (isRev : Bool) (L : Int) (d1 d2 : Nat) :
    processStart nt w isRev L d1 d2 = processStart nt w' isRev L d1 d2 := by
  unfold processStart
  rw [h.1, h.2]

theorem runStrand_congr (nt aa : Alphabet) (g : Gencode) (cfg : Cfg) (w w' : Work) (h : SameOut w w') (isRev : Bool)
    (d : List Nat) (cuts : List Nat) : runStrand nt aa g cfg w isRev d cuts = runStrand nt aa g cfg w' isRev d cuts := by
  unfold runStrand
  rw [processStart_congr nt w w' h]

/-- one strand (or none, if switched off): the new records are numbered on from `orfcount` -/
theorem strand_numbering (nt aa : Alphabet) (g : Gencode) (cfg : Cfg) (hn : NtOK nt) (hg : CodeOK g) (w0 : Work)
    (isRev : Bool) (d : List Nat) (hv : ∀ x ∈ d, x < nt.Kp) (hL : 2 ≤ d.length) (on : Bool) :
    ∃ w' news, (if on = true then runStrand nt aa g cfg w0 isRev d [d.length] else some w0) = some w' ∧
      w'.c.out.map (·.num) = news ++ w0.c.out.map (·.num) ∧ w'.c.orfcount = w0.c.orfcount + news.length ∧
      Numbered w0.c.orfcount news := by
  cases on
  · exact ⟨w0, [], rfl, rfl, rfl, trivial⟩
  · obtain ⟨w', news, e, h1, h2, ub, h3⟩ := runStrand_order nt aa g cfg hn hg w0 isRev d hv d.length [] hL (by simp)
    refine ⟨w', news.map (·.1), by simpa using e, ?_, by simpa using h2, Chain.numbered _ _ _ _ h3⟩
    have := congrArg (List.map (·.1)) h1
    simpa [List.map_map, numStop, Function.comp_def] using this

/-- one sequence through `do_by_sequences`: the new records (both strands) are numbered on from `orfcount` -/
theorem bySequence_numbering (nt aa : Alphabet) (g : Gencode) (wc : Wcfg) (hn : NtOK nt) (hg : CodeOK g)
    (hc : ∀ x, x < nt.Kp → (nt.complement.getD []).getD x 255 < nt.Kp) (w0 : Work) (d : List Nat) (hv : ∀ x ∈ d, x < nt.Kp) :
    ∃ w' news, bySequence nt aa g wc w0 d = some w' ∧
      w'.c.out.map (·.num) = news ++ w0.c.out.map (·.num) ∧ w'.c.orfcount = w0.c.orfcount + news.length ∧
      Numbered w0.c.orfcount news := by
  by_cases hlt : d.length < 3
  · exact ⟨w0, [], by unfold bySequence; rw [if_pos hlt], rfl, rfl, trivial⟩
  · obtain ⟨w1, n1, e1, a1, b1, c1⟩ := strand_numbering nt aa g wc.cfg hn hg w0 false d hv (by omega) wc.doWatson
    obtain ⟨w2, n2, e2, a2, b2, c2⟩ := strand_numbering nt aa g wc.cfg hn hg w1 true (revcomp nt d)
      (revcomp_valid nt hc d hv) (by rw [revcomp_length]; omega) wc.doCrick
    rw [revcomp_length] at e2
    refine ⟨w2, n2 ++ n1, ?_, by rw [a2, a1, List.append_assoc], by rw [b2, b1, List.length_append]; omega, ?_⟩
    · unfold bySequence
      rw [if_neg hlt]
      cases hW : wc.doWatson <;> cases hC : wc.doCrick <;>
        simp only [hW, hC, Bool.false_eq_true, ↓reduceIte, Option.some.injEq] at e1 e2 <;>
        simp [e1, e2]
    · rw [b1] at c2
      exact Numbered.append _ _ _ c2 c1

/-- **a whole file**: over all sequences and both strands the records are numbered 1, 2, 3, … without gap or repeat (their
    names are `orf<number>`), continuing from whatever `orfcount` was -/
theorem translateFile_numbering (nt aa : Alphabet) (g : Gencode) (wc : Wcfg) (hn : NtOK nt) (hg : CodeOK g)
    (hc : ∀ x, x < nt.Kp → (nt.complement.getD []).getD x 255 < nt.Kp) :
    ∀ (seqs : List (List Nat)) (w0 : Work), (∀ d ∈ seqs, ∀ x ∈ d, x < nt.Kp) →
      ∃ w' news, translateFile (bySequence nt aa g wc) w0 seqs = some w' ∧
        w'.c.out.map (·.num) = news ++ w0.c.out.map (·.num) ∧ w'.c.orfcount = w0.c.orfcount + news.length ∧
        Numbered w0.c.orfcount news := by
  intro seqs
  induction seqs with
  | nil => intro w0 _; exact ⟨w0, [], rfl, rfl, rfl, trivial⟩
  | cons d rest ih =>
    intro w0 hv
    obtain ⟨w1, n1, e1, a1, b1, c1⟩ := bySequence_numbering nt aa g wc hn hg hc w0 d (hv d (by simp))
    obtain ⟨w2, n2, e2, a2, b2, c2⟩ := ih w1 (fun d' hd' => hv d' (by simp [hd']))
    refine ⟨w2, n2 ++ n1, ?_, by rw [a2, a1, List.append_assoc], by rw [b2, b1, List.length_append]; omega, ?_⟩
    · unfold translateFile at e2 ⊢
      simp only [List.foldlM_cons, e1, Option.bind_eq_bind, Option.bind_some]
      exact e2
    · rw [b1] at c2
      exact Numbered.append _ _ _ c2 c1

/-! ## the windowed loop over a whole file emits what the full-length loop emits -/

theorem bySequence_congr (nt aa : Alphabet) (g : Gencode) (wc : Wcfg) (w w' : Work) (h : SameOut w w') (d : List Nat) :
    match bySequence nt aa g wc w d, bySequence nt aa g wc w' d with
    | some r, some r' => SameOut r r'
    | none, none => True
    | _, _ => False := by
  unfold bySequence
  by_cases hlt : d.length < 3
  · simp only [hlt, ↓reduceIte]; exact h
  · simp only [hlt, ↓reduceIte]
    cases hW : wc.doWatson <;> cases hC : wc.doCrick <;> simp only [Bool.false_eq_true, ↓reduceIte, Option.bind_eq_bind, Option.bind_some]
    · exact h
    · rw [runStrand_congr nt aa g wc.cfg w w' h]
      cases runStrand nt aa g wc.cfg w' true (revcomp nt d) [d.length] with
      | none => trivial
      | some r => exact ⟨rfl, rfl⟩
    · rw [runStrand_congr nt aa g wc.cfg w w' h]
      cases runStrand nt aa g wc.cfg w' false d [d.length] with
      | none => trivial
      | some r => exact ⟨rfl, rfl⟩
    · rw [runStrand_congr nt aa g wc.cfg w w' h]
      cases runStrand nt aa g wc.cfg w' false d [d.length] with
      | none => trivial
      | some r =>
        simp only [Option.bind_some]
        cases runStrand nt aa g wc.cfg r true (revcomp nt d) [d.length] with
        | none => trivial
        | some r2 => exact ⟨rfl, rfl⟩

theorem bySequence_idle (nt aa : Alphabet) (g : Gencode) (wc : Wcfg) (hn : NtOK nt) (hg : CodeOK g)
    (hc : ∀ x, x < nt.Kp → (nt.complement.getD []).getD x 255 < nt.Kp) (w : Work) (d : List Nat) (hv : ∀ x ∈ d, x < nt.Kp)
    (hi : Idle w.c) (hf : w.c.frame < 3) :
    ∃ r, bySequence nt aa g wc w d = some r ∧ Idle r.c ∧ r.c.frame < 3 := by
  unfold bySequence
  by_cases hlt : d.length < 3
  · exact ⟨w, by rw [if_pos hlt], hi, hf⟩
  · rw [if_neg hlt]
    obtain ⟨r1, e1, _, i1, f1⟩ := runStrand_other nt aa g wc.cfg hn hg w false d hv
    have hvr := revcomp_valid nt hc d hv
    cases hW : wc.doWatson <;> cases hC : wc.doCrick <;> simp only [Bool.false_eq_true, ↓reduceIte, Option.bind_eq_bind, Option.bind_some]
    · exact ⟨w, rfl, hi, hf⟩
    · obtain ⟨r2, e2, _, i2, f2⟩ := runStrand_other nt aa g wc.cfg hn hg w true (revcomp nt d) hvr
      rw [revcomp_length] at e2
      exact ⟨r2, e2, i2, f2⟩
    · exact ⟨r1, by rw [e1]; rfl, i1, f1⟩
    · obtain ⟨r2, e2, _, i2, f2⟩ := runStrand_other nt aa g wc.cfg hn hg r1 true (revcomp nt d) hvr
      rw [revcomp_length] at e2
      exact ⟨r2, by rw [e1]; exact e2, i2, f2⟩

/-- **`esl-translate -W <file>` emits what `esl-translate <file>` emits**: over a whole file (sequences of any length, those
    shorter than a codon included), for every window size other than 1 and every option combination, the windowed loop ends
    with the same ORF records in the same order under the same numbers, and the same counter, as the full-length loop -/
theorem windowed_file (nt aa : Alphabet) (g : Gencode) (wc : Wcfg) (W : Nat) (hW : W ≠ 1) (hn : NtOK nt) (hg : CodeOK g)
    (hc : ∀ x, x < nt.Kp → (nt.complement.getD []).getD x 255 < nt.Kp) :
    ∀ (seqs : List (List Nat)) (w w' : Work), SameOut w w' → Idle w.c → w.c.frame < 3 → Idle w'.c → w'.c.frame < 3 →
      (∀ d ∈ seqs, ∀ x ∈ d, x < nt.Kp) →
      ∃ r r', translateFile (byWindows nt aa g wc W) w seqs = some r ∧ translateFile (bySequence nt aa g wc) w' seqs = some r' ∧
        SameOut r r' := by
  intro seqs
  induction seqs with
  | nil => intro w w' h _ _ _ _ _; exact ⟨w, w', rfl, rfl, h⟩
  | cons d rest ih =>
    intro w w' hs hi hf hi' hf' hv
    have hvd := hv d (by simp)
    obtain ⟨s', es', is', fs'⟩ := bySequence_idle nt aa g wc hn hg hc w' d hvd hi' hf'
    -- the windowed step from `w`
    have hstep : ∃ s, byWindows nt aa g wc W w d = some s ∧ SameOut s s' ∧ Idle s.c ∧ s.c.frame < 3 := by
      by_cases hlt : d.length < 3
      · obtain ⟨_, s, e, o1, o2, i, f⟩ := short_sequence_noop nt aa g wc W w d hlt hf hi
        have : s' = w' := by
          have : bySequence nt aa g wc w' d = some w' := by unfold bySequence; rw [if_pos hlt]
          rw [this] at es'; exact (Option.some.inj es').symm
        exact ⟨s, e, by rw [this]; exact ⟨o1.trans hs.1, o2.trans hs.2⟩, i, f⟩
      · obtain ⟨s, es, is, fs⟩ := bySequence_idle nt aa g wc hn hg hc w d hvd hi hf
        refine ⟨s, by rw [byWindows_eq_bySequence nt aa g wc W hW w d (by omega)]; exact es, ?_, is, fs⟩
        have := bySequence_congr nt aa g wc w w' hs d
        rw [es, es'] at this
        exact this
    obtain ⟨s, es, hss, is, fs⟩ := hstep
    obtain ⟨r, r', e1, e2, h⟩ := ih s s' hss is fs is' fs' (fun d' hd' => hv d' (by simp [hd']))
    refine ⟨r, r', ?_, ?_, h⟩
    · unfold translateFile at e1 ⊢
      simp only [List.foldlM_cons, es, Option.bind_eq_bind, Option.bind_some]; exact e1
    · unfold translateFile at e2 ⊢
      simp only [List.foldlM_cons, es', Option.bind_eq_bind, Option.bind_some]; exact e2

end EaselModel.Gencode
