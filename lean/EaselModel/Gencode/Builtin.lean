import EaselModel.Generated.Gencode
import EaselModel.Generated.Alphabets
import EaselModel.Gencode.NcbiTables
import EaselModel.Gencode.OrfDecl2
import EaselModel.Alphabet.Iupac
/-! # C17 — the built-in tables as dumped from the code under check, and the three initiator settings -/
namespace EaselModel.Gencode
open EaselModel.Alphabet
namespace T
export EaselModel.Generated.Gencode (tables)
end T
namespace A
export EaselModel.Generated.Alphabets (dna rna amino)
end A

/-- a genetic code object set from a table row (`esl_gencode_Set`) -/
def codeOf (t : RawTable) : Gencode := { translTable := t.id, desc := t.desc, basic := t.basic, isInit := t.init }

/-- the three initiator settings esl-translate offers: table's own (`-M`), any sense codon (default), ATG only (`-m`) -/
def settings (g : Gencode) : List Gencode := [g, setInitiatorAny A.amino g, setInitiatorOnlyAUG A.dna g]

end EaselModel.Gencode
