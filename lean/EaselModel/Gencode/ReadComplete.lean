import EaselModel.Gencode.ReadCode
/-! # C17 — a table `esl_gencode_Read` accepts encodes all 20 amino acids and has a stop codon

The C code counts, per COLUMN of the file, which amino acids / stops and which codons it has seen, and accepts when every
codon and every amino acid has been seen and a stop has been seen. A later column could overwrite an earlier one (same codon
twice) — but then, with 64 columns for 64 codons, some codon would not be seen at all (pigeonhole). Hence every codon is
assigned exactly once and what the columns announced is what the table holds. -/
namespace EaselModel.Gencode
open EaselModel.Alphabet

theorem sum_set_succ : ∀ (l : List Nat) (i : Nat), i < l.length → (l.set i (l.getD i 0 + 1)).sum = l.sum + 1
  | [], i, h => by simp at h
  | x :: l, 0, _ => by simp [List.getD]; omega
  | x :: l, i+1, h => by
    have := sum_set_succ l i (by simpa using h)
    simp only [List.set_cons_succ, List.sum_cons, List.getD_cons_succ, this]; omega

theorem all_one_of_sum : ∀ (l : List Nat), (∀ x ∈ l, 1 ≤ x) → l.sum = l.length → ∀ x ∈ l, x = 1
  | [], _, _ => by intro x hx; cases hx
  | a :: l, h, hs => by
    have ha := h a (by simp)
    have hl : ∀ x ∈ l, 1 ≤ x := fun x hx => h x (by simp [hx])
    have hge : l.length ≤ l.sum := by
      clear hs h ha
      induction l with
      | nil => simp
      | cons b t ih =>
        have := hl b (by simp)
        have := ih (fun x hx => hl x (by simp [hx]))
        simp only [List.length_cons, List.sum_cons]; omega
    simp only [List.sum_cons, List.length_cons] at hs
    have ha1 : a = 1 := by omega
    have hs' : l.sum = l.length := by omega
    intro x hx
    rcases List.mem_cons.mp hx with rfl | hx
    · exact ha1
    · exact all_one_of_sum l hl hs' x hx

/-- some codon that a column assigned holds a value with property `P` — unless some codon has been assigned twice -/
def Wit (basic cseen : List Nat) (P : Nat → Prop) : Prop :=
  ∃ c, c < 64 ∧ ((0 < cseen.getD c 0 ∧ P (basic.getD c 99)) ∨ 2 ≤ cseen.getD c 0)

theorem wit_step {basic cseen : List Nat} {P : Nat → Prop} (l1 : basic.length = 64) (l3 : cseen.length = 64) (cod x : Nat)
    (hW : Wit basic cseen P) : Wit (basic.set cod x) (cseen.set cod (cseen.getD cod 0 + 1)) P := by
  obtain ⟨c, hc, hcase⟩ := hW
  refine ⟨c, hc, ?_⟩
  rw [getD_set, getD_set]
  by_cases hcc : cod = c
  · subst hcc
    simp only [l1, l3, hc, and_self, ↓reduceIte]
    right
    rcases hcase with ⟨p, _⟩ | p <;> omega
  · simp only [hcc, false_and, ↓reduceIte]
    exact hcase

theorem wit_new {basic cseen : List Nat} {P : Nat → Prop} (l1 : basic.length = 64) (l3 : cseen.length = 64) (cod x : Nat)
    (hc : cod < 64) (hP : P x) : Wit (basic.set cod x) (cseen.set cod (cseen.getD cod 0 + 1)) P := by
  refine ⟨cod, hc, Or.inl ⟨?_, ?_⟩⟩
  · rw [getD_set]; simp only [l3, hc, and_self, ↓reduceIte]; omega
  · rw [getD_set]; simp only [l1, hc, and_self, ↓reduceIte]; exact hP

/-- what the column counters promise about the table: a value announced by some column (`aseen[x] > 0`, resp. `stops > 0`) is
    held by a codon that a column assigned — unless some codon has been assigned twice -/
def Announced (aa : Alphabet) (basic cseen aseen : List Nat) (stops : Nat) : Prop :=
  (∀ x, x < 20 → 0 < aseen.getD x 0 → Wit basic cseen (fun v => v = x)) ∧
  (0 < stops → Wit basic cseen (fun v => v + 2 = aa.Kp))

theorem readColumns_announced (nt aa : Alphabet) (hK : nt.K = 4) (hKa : aa.K = 20) (aas mline b1 b2 b3 : List Nat) :
    ∀ (k : Nat) (basic ini cseen aseen : List Nat) (stops : Nat) (r : List Nat × List Nat × List Nat × List Nat × Nat),
      basic.length = 64 → cseen.length = 64 → aseen.length = 20 → Announced aa basic cseen aseen stops →
      readColumns nt aa aas mline b1 b2 b3 k basic ini cseen aseen stops = some r →
      Announced aa r.1 r.2.2.1 r.2.2.2.1 r.2.2.2.2 ∧ r.2.2.1.sum = cseen.sum + k ∧ r.2.2.1.length = 64 ∧ r.2.2.2.1.length = 20
  | 0, basic, ini, cseen, aseen, stops, r, _, l3, l4, hA, h => by
    simp only [readColumns, Option.some.injEq] at h; subst h; exact ⟨hA, by simp, l3, by assumption⟩
  | k+1, basic, ini, cseen, aseen, stops, r, l1, l3, l4, hA, h => by
    simp only [readColumns] at h
    split at h
    · cases h
    · split at h
      · cases h
      · split at h
        · cases h
        · split at h
          · cases h
          · split at h
            · cases h
            · rename_i c0 c1 c2 c3 c4
              simp only [Bool.or_eq_true, Bool.not_eq_eq_eq_not, Bool.not_true, decide_eq_false_iff_not, not_or,
                Bool.or_eq_false_iff] at c0 c1 c2 c3
              have q1 : nt.inmapAt (b1.getD (64 - (k+1)) 0) < nt.K := Classical.not_not.mp c1.2
              have q2 : nt.inmapAt (b2.getD (64 - (k+1)) 0) < nt.K := Classical.not_not.mp c2.2
              have q3 : nt.inmapAt (b3.getD (64 - (k+1)) 0) < nt.K := Classical.not_not.mp c3.2
              have hval : aa.inmapAt (aas.getD (64 - (k+1)) 0) < aa.K ∨ aa.inmapAt (aas.getD (64 - (k+1)) 0) + 2 = aa.Kp := by
                by_cases qa : aa.inmapAt (aas.getD (64 - (k+1)) 0) < aa.K
                · exact Or.inl qa
                · by_cases qb : aa.inmapAt (aas.getD (64 - (k+1)) 0) + 2 = aa.Kp
                  · exact Or.inr qb
                  · exact absurd ⟨qa, qb⟩ (fun hh => c0.2 hh)
              generalize hcod : 16 * nt.inmapAt (b1.getD (64 - (k+1)) 0) + 4 * nt.inmapAt (b2.getD (64 - (k+1)) 0) +
                  nt.inmapAt (b3.getD (64 - (k+1)) 0) = cod at h
              have hc64 : cod < 64 := by rw [hK] at q1 q2 q3; omega
              generalize hx : aa.inmapAt (aas.getD (64 - (k+1)) 0) = x at h hval
              obtain ⟨hA1, hA2⟩ := hA
              by_cases hx20 : x < 20
              · simp only [hx20, ↓reduceIte] at h
                have hA' : Announced aa (basic.set cod x) (cseen.set cod (cseen.getD cod 0 + 1))
                    (aseen.set x (aseen.getD x 0 + 1)) stops := by
                  refine ⟨fun y hy hay => ?_, fun hst => wit_step l1 l3 cod x (hA2 hst)⟩
                  by_cases hyx : y = x
                  · subst hyx; exact wit_new l1 l3 cod y hc64 rfl
                  · rw [getD_set] at hay
                    have hne : ¬ (x = y ∧ x < aseen.length) := fun hh => hyx hh.1.symm
                    simp only [hne, ↓reduceIte] at hay
                    exact wit_step l1 l3 cod x (hA1 y hy hay)
                obtain ⟨e1, e2, e3, e4⟩ := readColumns_announced nt aa hK hKa aas mline b1 b2 b3 k _ _ _ _ _ r
                  (by simp only [List.length_set, l1]) (by simp only [List.length_set, l3])
                  (by simp only [List.length_set, l4]) hA' h
                refine ⟨e1, ?_, e3, e4⟩
                rw [e2, sum_set_succ cseen cod (by omega)]; omega
              · simp only [hx20, ↓reduceIte] at h
                have hxs : x + 2 = aa.Kp := by
                  rcases hval with q | q
                  · rw [hKa] at q; exact absurd q hx20
                  · exact q
                have hA' : Announced aa (basic.set cod x) (cseen.set cod (cseen.getD cod 0 + 1)) aseen (stops + 1) :=
                  ⟨fun y hy hay => wit_step l1 l3 cod x (hA1 y hy hay), fun _ => wit_new l1 l3 cod x hc64 hxs⟩
                obtain ⟨e1, e2, e3, e4⟩ := readColumns_announced nt aa hK hKa aas mline b1 b2 b3 k _ _ _ _ _ r
                  (by simp only [List.length_set, l1]) (by simp only [List.length_set, l3]) l4 hA' h
                refine ⟨e1, ?_, e3, e4⟩
                rw [e2, sum_set_succ cseen cod (by omega)]; omega

/-- A TABLE `esl_gencode_Read` ACCEPTS ENCODES ALL 20 AMINO ACIDS AND HAS A STOP CODON — for any bytes of the file: every amino
    acid code `x < 20` is the translation of some codon of the accepted table, and some codon translates to the stop code.
    (The code tests this per column of the file; 64 columns onto 64 codons that are all seen leave no room for a column to
    overwrite another, so what the columns announced is what the table holds.) -/
theorem read_ok_is_complete (nt aa : Alphabet) (hK : nt.K = 4) (hKa : aa.K = 20) (init : Gencode)
    (h1 : init.basic.length = 64) (buf : List Nat) (g : Gencode) (h : read nt aa init buf = some g) :
    (∀ x, x < 20 → ∃ c, c < 64 ∧ g.basic.getD c 99 = x) ∧ (∃ c, c < 64 ∧ g.basic.getD c 99 + 2 = aa.Kp) := by
  simp [read, Option.bind_eq_some_iff] at h
  obtain ⟨l0, -, s0, aas, -, -, l1, -, s1, ml, -, -, -, l2, -, s2, b1, -, -, -, l3, -, s3, b2, -, -, -, l4, -, s4, b3, -, -, -, hrest⟩ := h
  obtain ⟨a, a1, a2, a3, b, hrc, hb, hz, hz3, rfl⟩ := hrest
  have hzero : ∀ x ∈ ([0, 0, 0, 0, 0, 0, 0, 0, 0, 0, 0, 0, 0, 0, 0, 0, 0, 0, 0, 0, 0, 0, 0, 0, 0, 0, 0, 0, 0, 0, 0, 0, 0, 0, 0, 0, 0, 0, 0, 0,
      0, 0, 0, 0, 0, 0, 0, 0, 0, 0, 0, 0, 0, 0, 0, 0, 0, 0, 0, 0, 0, 0, 0, 0] : List Nat), x = 0 := by decide
  have hzero20 : ∀ x ∈ ([0, 0, 0, 0, 0, 0, 0, 0, 0, 0, 0, 0, 0, 0, 0, 0, 0, 0, 0, 0] : List Nat), x = 0 := by decide
  have hinit : Announced aa init.basic
      [0, 0, 0, 0, 0, 0, 0, 0, 0, 0, 0, 0, 0, 0, 0, 0, 0, 0, 0, 0, 0, 0, 0, 0, 0, 0, 0, 0, 0, 0, 0, 0, 0, 0, 0, 0, 0, 0, 0, 0, 0, 0, 0, 0, 0,
       0, 0, 0, 0, 0, 0, 0, 0, 0, 0, 0, 0, 0, 0, 0, 0, 0, 0, 0]
      [0, 0, 0, 0, 0, 0, 0, 0, 0, 0, 0, 0, 0, 0, 0, 0, 0, 0, 0, 0] 0 := by
    refine ⟨fun x _ hx => ?_, fun hs => absurd hs (by omega)⟩
    rw [getD_zero_of_all_zero _ hzero20 x] at hx; omega
  obtain ⟨⟨eA1, eA2⟩, e2, e3, e4⟩ := readColumns_announced nt aa hK hKa aas ml b1 b2 b3 64 _ _ _ _ _ _ h1 rfl rfl hinit hrc
  -- every codon was assigned exactly once
  have hge : ∀ x ∈ a2, 1 ≤ x := fun x hx => by
    have : x ≠ 0 := fun h0 => hz (h0 ▸ hx)
    omega
  have hsum : a2.sum = a2.length := by rw [e2, e3]; decide
  have hone := all_one_of_sum a2 hge hsum
  have hnot2 : ∀ c, ¬ 2 ≤ a2.getD c 0 := by
    intro c h2
    rw [List.getD_eq_getElem?_getD] at h2
    cases hc : a2[c]? with
    | none => rw [hc] at h2; simp at h2
    | some v =>
      rw [hc] at h2
      have := hone v (List.mem_of_getElem? hc)
      simp only [Option.getD_some] at h2; omega
  constructor
  · intro x hx
    have hpos : 0 < a3.getD x 0 := by
      have hl : x < a3.length := by rw [e4]; exact hx
      rw [List.getD_eq_getElem?_getD, List.getElem?_eq_getElem hl]
      have : a3[x] ≠ 0 := fun h0 => hz3 (h0 ▸ List.getElem_mem hl)
      simp only [Option.getD_some]; omega
    obtain ⟨c, hc, hcase⟩ := eA1 x hx hpos
    rcases hcase with ⟨_, p⟩ | p
    · exact ⟨c, hc, p⟩
    · exact absurd p (hnot2 c)
  · obtain ⟨c, hc, hcase⟩ := eA2 (Nat.pos_of_ne_zero hb)
    rcases hcase with ⟨_, p⟩ | p
    · exact ⟨c, hc, p⟩
    · exact absurd p (hnot2 c)

end EaselModel.Gencode
