import EaselModel.Gencode.Builtin
/-! # C17 — a structural check of the regenerated tables that does NOT go through the pinned AAs/Starts strings

`Ncbi.pinned` is one hand-typed rendering of the NCBI tables (64-letter strings in TCAG column order). This file holds a
second, independently typed rendering in a different shape — the way the NCBI documentation describes the codes:
the standard code as "amino acid ↦ its codons", and every other code as its list of DIFFERENCES from the standard code
plus its set of initiation codons — and proves (`decide` over the tables regenerated from the tree on this run, through
the code's own codon index 16x+4y+z and the dumped alphabets) that the tree's tables are exactly that. An edit that
changes a table entry in the C source AND the corresponding letter of the pinned string in the same wrong way still
fails here; to escape, this file would have to be edited consistently as well. -/
namespace EaselModel.Gencode.Facts
open EaselModel.Alphabet EaselModel.Gencode

/-- the codon with index `c = 16x + 4y + z`, spelled with the symbols of the dumped DNA alphabet -/
def codonChars (c : Nat) : List Char := [c / 16, (c % 16) / 4, c % 4].map fun i => Char.ofNat (A.dna.sym.getD i 63)
/-- the symbol of amino-acid code `x` (27 = `*`) in the dumped amino alphabet -/
def aaChar (x : Nat) : Char := Char.ofNat (A.amino.sym.getD x 63)

/-- where table `t` translates differently from table `std`, in codon-index order -/
def diffFrom (std t : RawTable) : List (List Char × Char) :=
  (List.range 64).filterMap fun c =>
    if t.basic.getD c 99 ≠ std.basic.getD c 99 then some (codonChars c, aaChar (t.basic.getD c 99)) else none

/-- the initiation codons of a table, in codon-index order -/
def startsOf (t : RawTable) : List (List Char) :=
  (List.range 64).filterMap fun c => if t.init.getD c 0 ≠ 0 then some (codonChars c) else none

/-- the codons a table translates to the amino acid / stop `a`, in codon-index order -/
def codonsOf (t : RawTable) (a : Char) : List (List Char) :=
  (List.range 64).filterMap fun c => if aaChar (t.basic.getD c 99) = a then some (codonChars c) else none

def splitSp : List Char → List Char → List (List Char)
  | [], cur => if cur.isEmpty then [] else [cur.reverse]
  | c :: cs, cur =>
    if c = ' ' then (if cur.isEmpty then splitSp cs [] else cur.reverse :: splitSp cs []) else splitSp cs (c :: cur)

/-- the blank-separated words of a string -/
def words (s : String) : List (List Char) := splitSp s.toList []

/-- THE STANDARD CODE (transl_table 1), by amino acid (codons in the order A < C < G < T) -/
def standardByAminoAcid : List (Char × String) := [
  ('A', "GCA GCC GCG GCT"),
  ('C', "TGC TGT"),
  ('D', "GAC GAT"),
  ('E', "GAA GAG"),
  ('F', "TTC TTT"),
  ('G', "GGA GGC GGG GGT"),
  ('H', "CAC CAT"),
  ('I', "ATA ATC ATT"),
  ('K', "AAA AAG"),
  ('L', "CTA CTC CTG CTT TTA TTG"),
  ('M', "ATG"),
  ('N', "AAC AAT"),
  ('P', "CCA CCC CCG CCT"),
  ('Q', "CAA CAG"),
  ('R', "AGA AGG CGA CGC CGG CGT"),
  ('S', "AGC AGT TCA TCC TCG TCT"),
  ('T', "ACA ACC ACG ACT"),
  ('V', "GTA GTC GTG GTT"),
  ('W', "TGG"),
  ('Y', "TAC TAT"),
  ('*', "TAA TAG TGA")]

/-- EVERY OTHER CODE as the NCBI documentation describes it: transl_table id, differences from the standard code
    (`codon:amino acid`, `*` = stop), initiation codons (both in the order A < C < G < T) -/
def documented : List (Int × String × String) := [
  (1, "", "ATG CTG TTG"),
  (2, "AGA:* AGG:* ATA:M TGA:W", "ATA ATC ATG ATT GTG"),
  (3, "ATA:M CTA:T CTC:T CTG:T CTT:T TGA:W", "ATA ATG"),
  (4, "TGA:W", "ATA ATC ATG ATT CTG GTG TTA TTG"),
  (5, "AGA:S AGG:S ATA:M TGA:W", "ATA ATC ATG ATT GTG TTG"),
  (6, "TAA:Q TAG:Q", "ATG"),
  (9, "AAA:N AGA:S AGG:S TGA:W", "ATG GTG"),
  (10, "TGA:C", "ATG"),
  (11, "", "ATA ATC ATG ATT CTG GTG TTG"),
  (12, "CTG:S", "ATG CTG"),
  (13, "AGA:G AGG:G ATA:M TGA:W", "ATA ATG GTG TTG"),
  (14, "AAA:N AGA:S AGG:S TAA:Y TGA:W", "ATG"),
  (16, "TAG:L", "ATG"),
  (21, "AAA:N AGA:S AGG:S ATA:M TGA:W", "ATG GTG"),
  (22, "TAG:L TCA:*", "ATG"),
  (23, "TTA:*", "ATG ATT GTG"),
  (24, "AGA:S AGG:K TGA:W", "ATG CTG GTG TTG"),
  (25, "TGA:G", "ATG GTG TTG")]


def diffWords (s : String) : List (List Char × Char) :=
  (words s).filterMap fun w => match w with | [a, b, c, ':', x] => some ([a, b, c], x) | _ => none

/-- the tree's table 1 is the standard code -/
theorem standard_code_by_amino_acid :
    ∀ std ∈ (T.tables.find? (fun t => t.id = 1)).toList, ∀ p ∈ standardByAminoAcid, codonsOf std p.1 = words p.2 := by
  decide +kernel

/-- every table of the tree differs from its table 1 in exactly the documented codons, and has exactly the documented
    initiation codons; every documented table is offered -/
theorem tables_differ_as_documented :
    ∀ std ∈ (T.tables.find? (fun t => t.id = 1)).toList,
      (∀ t ∈ T.tables, (t.id, diffFrom std t, startsOf t) ∈ documented.map (fun d => (d.1, diffWords d.2.1, words d.2.2))) ∧
      (∀ d ∈ documented, d.1 ∈ T.tables.map (·.id)) ∧ T.tables.length = documented.length ∧
      (T.tables.find? (fun t => t.id = 1)).isSome = true := by
  decide +kernel

end EaselModel.Gencode.Facts
