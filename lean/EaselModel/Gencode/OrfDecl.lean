import EaselModel.Gencode.OrfSpec
/-! # C17 — the one-frame ORF finder = "split the frame's codons at stop codons, drop leading non-initiators,
keep stretches of at least the minimum length" -/
namespace EaselModel.Gencode
open EaselModel.Alphabet

/-- split a frame's codons at the stop codons: each segment (stop-free run) with the stop codon that ends it
    (`none` for the last segment, which runs to the end of the strand) -/
def splitStops (aa : Alphabet) : List Item → List (List Item × Option Item)
  | [] => [([], none)]
  | it :: rest =>
    if aa.xIsNonresidue it.aa then ([], some it) :: splitStops aa rest
    else match splitStops aa rest with
      | (seg, e) :: more => (it :: seg, e) :: more
      | [] => [([it], none)]

/-- end coordinate of a segment: just before its stop codon, or the strand-end coordinate `endPos` -/
def segEnd (dir endPos : Int) : Option Item → Int
  | some s => s.pos - dir
  | none => endPos

/-- the ORF of one stop-free segment: drop the leading codons that are not initiators; what remains (if anything, and if
    long enough) is the ORF, starting at the first initiator's coordinate; its first residue is M when initiators are
    required -/
def segOrf (aa : Alphabet) (cfg : Cfg) (seg : List Item) (stop : Int) : Option Rec :=
  match seg.dropWhile (fun it => !it.ini) with
  | [] => none
  | first :: rest =>
    let res := (if cfg.usingInit then aa.inmapAt 77 else first.aa) :: rest.map (·.aa)
    if (res.length : Int) ≥ cfg.minlen then some { start := first.pos, stop := stop, aa := res } else none

/-- declarative ORF list of one frame, in order of occurrence -/
def declFrame (aa : Alphabet) (cfg : Cfg) (dir endPos : Int) (items : List Item) : List Rec :=
  (splitStops aa items).filterMap fun se => segOrf aa cfg se.1 (segEnd dir endPos se.2)

/-- the same with an ORF already open in state `p` (its residues so far in `p.rev`) -/
def declOpen (aa : Alphabet) (cfg : Cfg) (dir endPos : Int) (p : FrameSt) (items : List Item) : List Rec :=
  match splitStops aa items with
  | [] => []
  | (seg, e) :: more =>
    (if ((p.rev.reverse ++ seg.map (·.aa)).length : Int) ≥ cfg.minlen
      then [{ start := p.start, stop := segEnd dir endPos e, aa := p.rev.reverse ++ seg.map (·.aa) }] else []) ++
    more.filterMap fun se => segOrf aa cfg se.1 (segEnd dir endPos se.2)

theorem splitStops_ne_nil (aa : Alphabet) (items : List Item) : splitStops aa items ≠ [] := by
  induction items with
  | nil => simp [splitStops]
  | cons it rest ih =>
    unfold splitStops
    split
    · simp
    · split <;> simp

/-- hypothesis of the theorem: an initiator codon never translates to a stop, and M is not the stop code
    (true for every built-in table under every initiator setting: `no_initiator_stop`) -/
def InitNotStop (aa : Alphabet) (items : List Item) : Prop :=
  aa.xIsNonresidue (aa.inmapAt 77) = false ∧ ∀ it ∈ items, it.ini = true → aa.xIsNonresidue it.aa = false

theorem fstep_fold_decl (aa : Alphabet) (cfg : Cfg) (dir endPos : Int) :
    ∀ (items : List Item) (p : FrameSt) (found : List Rec), InitNotStop aa items → (p.inOrf = false → p = {}) →
      fflush cfg (items.foldl (fstep aa cfg dir) (p, found)) endPos =
        (if p.inOrf then declOpen aa cfg dir endPos p items else declFrame aa cfg dir endPos items).reverse ++ found := by
  intro items
  induction items with
  | nil =>
    intro p found _ hp
    cases hin : p.inOrf
    · have := hp hin; subst this
      simp [fflush, declFrame, splitStops, segOrf]
    · simp only [List.foldl_nil, fflush, hin, Bool.true_and, declOpen, splitStops, List.map_nil, List.append_nil,
        List.length_reverse, segEnd, List.filterMap_nil, if_true]
      by_cases hm : (p.rev.length : Int) ≥ cfg.minlen <;> simp [hm]
  | cons it rest ih =>
    intro p found hH hp
    obtain ⟨hM, hI⟩ := hH
    have hH' : InitNotStop aa rest := ⟨hM, fun it' h' => hI it' (by simp [h'])⟩
    obtain ⟨sp, hsp⟩ := List.exists_cons_of_ne_nil (splitStops_ne_nil aa rest)
    obtain ⟨sp2, hsp⟩ := hsp
    obtain ⟨seg, e⟩ := sp
    rw [List.foldl_cons]
    cases hin : p.inOrf
    · -- no ORF open
      have := hp hin; subst this
      cases hini : it.ini
      · -- not an initiator
        cases hstop : aa.xIsNonresidue it.aa
        · -- skipped
          have e1 : fstep aa cfg dir ({}, found) it = ({}, found) := by
            simp [fstep, hini, hstop]
          rw [e1, ih {} found hH' (fun _ => rfl)]
          simp only [Bool.false_eq_true, if_false, declFrame]
          congr 2
          conv => rhs; unfold splitStops
          simp only [hstop, Bool.false_eq_true, if_false, hsp, List.filterMap_cons]
          have : segOrf aa cfg (it :: seg) (segEnd dir endPos e) = segOrf aa cfg seg (segEnd dir endPos e) := by
            simp [segOrf, hini]
          rw [this]
        · -- a stop outside an ORF
          have e1 : fstep aa cfg dir ({}, found) it = ({}, found) := by
            simp [fstep, hini, hstop]
          rw [e1, ih {} found hH' (fun _ => rfl)]
          simp only [Bool.false_eq_true, if_false, declFrame]
          congr 2
          conv => rhs; unfold splitStops
          simp only [hstop, if_true, List.filterMap_cons]
          have : segOrf aa cfg [] (segEnd dir endPos (some it)) = none := rfl
          rw [this]
      · -- an initiator opens an ORF
        have hns := hI it (by simp) hini
        have e1 : fstep aa cfg dir ({}, found) it =
            ({ rev := [if cfg.usingInit then aa.inmapAt 77 else it.aa], start := it.pos, inOrf := true }, found) := by
          cases hu : cfg.usingInit <;> simp [fstep, hini, hu, hM, hns]
        rw [e1, ih _ found hH' (fun h => by simp at h)]
        simp only [if_true, Bool.false_eq_true, if_false, declOpen, declFrame, hsp]
        congr 2
        conv => rhs; unfold splitStops
        simp only [hns, Bool.false_eq_true, if_false, hsp, List.filterMap_cons]
        simp only [segOrf, hini, Bool.not_true, List.dropWhile_cons_of_neg, Bool.false_eq_true, not_false_eq_true,
          List.length_cons, List.length_map, List.reverse_singleton, List.singleton_append, List.length_append,
          List.length_singleton]
        push_cast
        by_cases hm : (seg.length : Int) + 1 ≥ cfg.minlen
        · simp [hm]
        · simp [hm]
    · -- inside an ORF
      cases hstop : aa.xIsNonresidue it.aa
      · -- a residue is appended
        have e1 : fstep aa cfg dir (p, found) it = ({ p with rev := it.aa :: p.rev }, found) := by
          simp [fstep, hin, hstop]
        rw [e1, ih _ found hH' (fun h => by simp [hin] at h)]
        simp only [hin, if_true, declOpen, hsp]
        congr 2
        conv => rhs; unfold splitStops
        simp only [hstop, Bool.false_eq_true, if_false, hsp]
        simp
      · -- the stop closes it
        have e1 : fstep aa cfg dir (p, found) it =
            ({}, if (p.rev.length : Int) ≥ cfg.minlen then { start := p.start, stop := it.pos - dir, aa := p.rev.reverse } :: found else found) := by
          simp [fstep, hin, hstop]
        rw [e1, ih {} _ hH' (fun _ => rfl)]
        simp only [Bool.false_eq_true, if_false, hin, if_true, declOpen, declFrame]
        conv => rhs; unfold splitStops
        simp only [hstop, if_true, List.map_nil, List.append_nil, List.length_reverse, segEnd]
        by_cases hm : (p.rev.length : Int) ≥ cfg.minlen <;> simp [hm]

end EaselModel.Gencode
