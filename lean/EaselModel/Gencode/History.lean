import EaselModel.Gencode.Model
/-! # C17 — histories of operations on ONE `ESL_GENCODE` object (core Lean only; the driver imports this file)

`esl_gencode_Set` is modelled as the code does it: field by field ON the existing object (`transl_table`, `desc` by `strcpy`,
then the loop `for (c = 0; c < 64; c++)` over `basic[c]` and `is_initiator[c]`), or not at all when the id is unknown. -/
namespace EaselModel.Gencode
open EaselModel.Alphabet

/-- the copy loop of `esl_gencode_Set`: entries `0..63` of the object's array are overwritten by the table row's -/
def copy64 (dst src : List Nat) : List Nat := (List.range 64).foldl (fun b c => b.set c (src.getD c 0)) dst

/-- `esl_gencode_Set(gcode, id)` on an existing object: `(object afterwards, found)`; not found = `eslENOTFOUND`, untouched -/
def setOn (tabs : List RawTable) (g : Gencode) (id : Int) : Gencode × Bool :=
  match tabs.find? (fun t => t.id = id) with
  | none => (g, false)
  | some t => ({ translTable := t.id, desc := t.desc, basic := copy64 g.basic t.basic, isInit := copy64 g.isInit t.init }, true)

/-- an operation of a history -/
inductive HOp
  | set (id : Int)            -- esl_gencode_Set
  | any                       -- esl_gencode_SetInitiatorAny
  | aug                       -- esl_gencode_SetInitiatorOnlyAUG
  | read (buf : List Nat)     -- esl_gencode_Read into a new object that replaces the old one when it succeeds
  deriving DecidableEq, Repr

/-- one step: the object afterwards and whether the call answered `eslOK` -/
def hstep (nt aa : Alphabet) (tabs : List RawTable) (g : Gencode) : HOp → Gencode × Bool
  | .set id => setOn tabs g id
  | .any => (setInitiatorAny aa g, true)
  | .aug => (setInitiatorOnlyAUG nt g, true)
  | .read buf =>
    -- `esl_gencode_Read` makes its own object with `esl_gencode_Create` (= table 1 set on fresh memory)
    match setTable tabs 1 with
    | none => (g, false)
    | some g1 =>
      match read nt aa g1 buf with
      | none => (g, false)
      | some g' => (g', true)

/-- a whole history; the trace holds the object and status after every step, oldest first -/
def hrun (nt aa : Alphabet) (tabs : List RawTable) : Gencode → List HOp → Gencode × List (Gencode × Bool)
  | g, [] => (g, [])
  | g, op :: ops =>
    let r := hstep nt aa tabs g op
    let rest := hrun nt aa tabs r.1 ops
    (rest.1, r :: rest.2)

end EaselModel.Gencode
