import EaselModel.Gencode.Translate
import EaselModel.Gencode.OrfOrder
/-! # C17 — lemmas on whole-sequence translation (both strands, windowed = full-length, option combinations) -/
namespace EaselModel.Gencode
open EaselModel.Alphabet

/-! ## the reverse strand's windows, cut from the top strand -/

theorem revcomp_length (nt : Alphabet) (d : List Nat) : (revcomp nt d).length = d.length := by simp [revcomp]

/-- a slice of the reverse complement is the reverse complement of the mirrored slice of the top strand -/
theorem revcomp_slice (nt : Alphabet) (d : List Nat) (i n : Nat) (h : i + n ≤ d.length) :
    ((revcomp nt d).drop i).take n = revcomp nt ((d.drop (d.length - i - n)).take n) := by
  unfold revcomp
  rw [← List.map_drop, ← List.map_take]
  congr 1
  rw [List.drop_reverse, List.take_reverse, List.length_take]
  congr 1
  rw [Nat.min_eq_left (by omega), List.drop_take]
  have : d.length - i - (d.length - i - n) = n := by omega
  rw [this]

/-- the windows `windows prev rest cuts` written as slices of the whole strand `prev ++ rest` -/
def slicesOf (R : List Nat) : Nat → List Nat → List (List Nat)
  | _, [] => []
  | done, k :: ks =>
    let C := if done = 0 then 0 else 2
    ((R.drop (done - C)).take (C + k)) :: slicesOf R (done + k) ks

theorem windows_eq_slices (cuts : List Nat) :
    ∀ (prev rest : List Nat), (prev = [] → ∀ k ∈ cuts.head?, 2 ≤ k) → (prev ≠ [] → 2 ≤ prev.length) → cuts.sum ≤ rest.length →
      windows prev rest cuts = slicesOf (prev ++ rest) prev.length cuts := by
  induction cuts with
  | nil => intro _ _ _ _ _; rfl
  | cons k ks ih =>
    intro prev rest h0 h2 hs
    have hk : k ≤ rest.length := by simp at hs; omega
    simp only [windows, slicesOf]
    have ih' := ih (prev ++ rest.take k) (rest.drop k)
      (fun e => by
        have : prev = [] := by
          cases prev with
          | nil => rfl
          | cons _ _ => simp at e
        have hk2 := h0 this k (by simp)
        rw [this] at e
        simp at e
        have : rest.take k = [] := by simpa using e
        have hl : (rest.take k).length = 0 := by rw [this]; rfl
        rw [List.length_take] at hl
        omega)
      (fun _ => by
        by_cases hp : prev = []
        · have := h0 hp k (by simp); simp [hp]; omega
        · have := h2 hp; simp; omega)
      (by simp at hs ⊢; omega)
    have hl : (prev ++ rest.take k).length = prev.length + k := by simp; omega
    rw [ih', hl]
    have happ : prev ++ List.take k rest ++ List.drop k rest = prev ++ rest := by simp
    rw [happ]
    congr 1
    by_cases hp : prev = []
    · subst hp; simp
    · have hp2 := h2 hp
      have hne : prev.length ≠ 0 := by omega
      simp only [hne, if_false]
      have hl2 : (prev.drop (prev.length - 2)).length = 2 := by simp; omega
      have : 2 + k - 2 = k := by omega
      rw [List.drop_append_of_le_length (by omega), List.take_append, hl2, List.take_of_length_le (l := prev.drop (prev.length - 2)) (i := 2 + k) (by rw [hl2]; omega), this]

theorem topSlices_eq (nt : Alphabet) (d : List Nat) (cuts : List Nat) :
    ∀ done, (done = 0 → ∀ k ∈ cuts.head?, 2 ≤ k) → (done ≠ 0 → 2 ≤ done) → done + cuts.sum ≤ d.length →
      topSlices nt d done cuts = slicesOf (revcomp nt d) done cuts := by
  induction cuts with
  | nil => intro _ _ _ _; rfl
  | cons k ks ih =>
    intro done h0 h2 hs
    simp only [topSlices, slicesOf]
    rw [List.sum_cons] at hs
    rw [ih (done + k) (fun e => by
        have hd0 : done = 0 := by omega
        have := h0 hd0 k (by simp)
        omega)
      (fun _ => by
      by_cases h : done = 0
      · have := h0 h k (by simp); omega
      · have := h2 h; omega) (by omega)]
    congr 1
    by_cases h : done = 0
    · subst h
      simp only [if_true, Nat.sub_zero, Nat.zero_add, Nat.add_zero]
      have := revcomp_slice nt d 0 k (by omega)
      simpa using this.symm
    · have hd := h2 h
      simp only [h, if_false]
      have := revcomp_slice nt d (done - 2) (2 + k) (by omega)
      rw [this]
      have e1 : d.length - (done - 2) - (2 + k) = d.length - done - k := by omega
      rw [e1, Nat.add_comm 2 k]

/-- **the reverse strand, windows delivered from the 3' end of the top strand**: cutting the top strand from its end into
    windows of the given sizes (each later one with the 2 residues to its right as context) and reverse-complementing each
    gives exactly the windows of the reverse-complemented sequence read front to back -/
theorem topSlices_windows (nt : Alphabet) (d : List Nat) (k : Nat) (ks : List Nat) (hk : 2 ≤ k) (hs : (k :: ks).sum = d.length) :
    topSlices nt d 0 (k :: ks) = windows [] (revcomp nt d) (k :: ks) := by
  rw [topSlices_eq nt d (k :: ks) 0 (fun _ k' hk' => by simp at hk'; omega) (by omega) (by omega),
    windows_eq_slices (k :: ks) [] (revcomp nt d) (fun _ k' hk' => by simp at hk'; omega) (fun h => absurd rfl h)
      (by rw [revcomp_length]; omega)]
  simp

/-! ## windowed main loop = full-length main loop -/

theorem runWins_windows (nt aa : Alphabet) (g : Gencode) (cfg : Cfg) (w : Work) (isRev : Bool) (d : List Nat)
    (k : Nat) (ks : List Nat) (hk : 2 ≤ k) :
    runWins nt aa g cfg w isRev d.length (windows [] d (k :: ks)) = runStrand nt aa g cfg w isRev d (k :: ks) := by
  unfold runWins runStrand
  have h0 : (d.take k).getD 0 0 = d.getD 0 0 := by
    simp only [List.getD_eq_getElem?_getD, List.getElem?_take]
    rw [if_pos (by omega)]
  have h1 : (d.take k).getD 1 0 = d.getD 1 0 := by
    simp only [List.getD_eq_getElem?_getD, List.getElem?_take]
    rw [if_pos (by omega)]
  simp only [windows, List.headD_cons, List.drop_nil, List.nil_append, h0, h1]

theorem sum_replicate' (n W : Nat) : (List.replicate n W).sum = n * W := by
  induction n with
  | zero => simp
  | succ n ih => rw [List.replicate_succ, List.sum_cons, ih, Nat.succ_mul, Nat.add_comm]

theorem cutsFor_sum (W L : Nat) : (cutsFor W L).sum = L := by
  unfold cutsFor
  rw [List.sum_append, sum_replicate']
  have := Nat.div_add_mod' L W
  by_cases h : L % W = 0
  · simp [h]; omega
  · simp [h]; omega

theorem cutsFor_cons (W L : Nat) (hW : W ≠ 1) (hL : 3 ≤ L) : ∃ k ks, cutsFor W L = k :: ks ∧ 2 ≤ k := by
  unfold cutsFor
  by_cases hq : L / W = 0
  · have hm : L % W = L := by
      have := Nat.div_add_mod' L W
      rw [hq] at this; omega
    rw [hq, hm]
    exact ⟨L, [], by simp; omega, by omega⟩
  · obtain ⟨n, hn⟩ := Nat.exists_eq_succ_of_ne_zero hq
    rw [hn, List.replicate_succ]
    refine ⟨W, _, rfl, ?_⟩
    have : W ≠ 0 := by
      intro e; rw [e] at hq; simp at hq
    omega

/-- **`esl-translate -W` = `esl-translate`** for one sequence of at least one codon: whatever the window size (≠ 1; the program
    uses 4092), with the reverse strand's windows cut from the END of the top strand (`topSlices`), the windowed main loop
    leaves the work state — ORFs emitted, counter, frames — exactly where the full-length loop leaves it, under every
    combination of `--watson`, `--crick`, `-m`, `-M`, `-l` -/
theorem byWindows_eq_bySequence (nt aa : Alphabet) (g : Gencode) (wc : Wcfg) (W : Nat) (hW : W ≠ 1) (w : Work) (d : List Nat)
    (hL : 3 ≤ d.length) : byWindows nt aa g wc W w d = bySequence nt aa g wc w d := by
  obtain ⟨k, ks, hc, hk⟩ := cutsFor_cons W d.length hW hL
  have hs : (k :: ks).sum = d.length := by rw [← hc]; exact cutsFor_sum W d.length
  have hsr : (k :: ks).sum = (revcomp nt d).length := by rw [revcomp_length]; exact hs
  have hlt : ¬ d.length < 3 := by omega
  unfold byWindows bySequence
  simp only [hlt, ↓reduceIte, hc]
  rw [topSlices_windows nt d k ks hk hs]
  have e1 : ∀ w', runWins nt aa g wc.cfg w' false d.length (windows [] d (k :: ks)) =
      runStrand nt aa g wc.cfg w' false d [d.length] := fun w' => by
    rw [runWins_windows nt aa g wc.cfg w' false d k ks hk, runStrand_split nt aa g wc.cfg w' false d k ks hk hs]
  have e2 : ∀ w', runWins nt aa g wc.cfg w' true d.length (windows [] (revcomp nt d) (k :: ks)) =
      runStrand nt aa g wc.cfg w' true (revcomp nt d) [d.length] := fun w' => by
    have := runWins_windows nt aa g wc.cfg w' true (revcomp nt d) k ks hk
    rw [revcomp_length] at this
    rw [this, runStrand_split nt aa g wc.cfg w' true (revcomp nt d) k ks hk hsr, revcomp_length]
  simp only [e1, e2]

end EaselModel.Gencode
