import EaselModel.Gencode.Spec
/-! # C17 — the triple loop with early return = a fold over `expand`, for every table and every degeneracy matrix -/
namespace EaselModel.Gencode
open EaselModel.Alphabet

/-- sequential semantics of the loop body over a list of codons, with early return -/
def foldAcc (body : Int → Nat → Option Acc) : List Nat → Acc → Option Acc
  | [], acc => some acc
  | k :: ks, acc =>
    match acc with
    | .ret v => some (.ret v)
    | .run aa => do
      let acc' ← body aa k
      foldAcc body ks acc'

theorem foldAcc_ret (body : Int → Nat → Option Acc) (ks : List Nat) (v : Int) : foldAcc body ks (.ret v) = some (.ret v) := by
  cases ks <;> simp [foldAcc]

theorem foldAcc_append (body : Int → Nat → Option Acc) (l1 l2 : List Nat) (acc : Acc) :
    foldAcc body (l1 ++ l2) acc = (foldAcc body l1 acc).bind (foldAcc body l2) := by
  induction l1 generalizing acc with
  | nil => simp [foldAcc]
  | cons k ks ih =>
    cases acc with
    | ret v => simp [foldAcc, foldAcc_ret]
    | run aa =>
      simp only [List.cons_append, foldAcc]
      cases h : body aa k with
      | none => simp
      | some acc' => simp [ih]

theorem getElem?_eq_some_getD0 (l : List Nat) (i : Nat) (h : i < l.length) : l[i]? = some (l.getD i 0) := by
  rw [List.getD_eq_getElem?_getD, List.getElem?_eq_getElem h]; simp

theorem loopZ_eq (body : Int → Nat → Option Acc) (rowC : List Nat) (x y : Nat) (zs : List Nat)
    (hz : ∀ z ∈ zs, z < rowC.length) (acc : Acc) :
    loopZ body rowC x y zs acc =
      foldAcc body ((zs.filter fun z => rowC.getD z 0 ≠ 0).map fun z => 16 * x + 4 * y + z) acc := by
  induction zs generalizing acc with
  | nil => simp [loopZ, foldAcc]
  | cons z zs ih =>
    have ih' := fun acc => ih (fun z' hz' => hz z' (by simp [hz'])) acc
    cases acc with
    | ret v => simp [loopZ, foldAcc_ret]
    | run aa =>
      have e := getElem?_eq_some_getD0 rowC z (hz z (by simp))
      by_cases hf : rowC.getD z 0 = 0
      · rw [List.filter_cons_of_neg (by simpa using hf), ← ih']
        simp only [loopZ, e, Option.bind_eq_bind, Option.bind_some, hf, if_true]
      · simp only [loopZ, e, Option.bind_eq_bind, Option.bind_some, hf, if_false]
        rw [List.filter_cons_of_pos (by simpa using hf)]
        simp only [List.map_cons, foldAcc, Option.bind_eq_bind]
        cases hb : body aa (16 * x + 4 * y + z) with
        | none => rfl
        | some acc' => simp only [Option.bind_some]; exact ih' acc'

theorem loopY_eq (body : Int → Nat → Option Acc) (nt : Alphabet) (b c x : Nat) (rowB rowC : List Nat)
    (hB : nt.degen[b]? = some rowB) (hC : nt.degen[c]? = some rowC) (hlC : rowC.length = 4) (ys : List Nat)
    (hy : ∀ y ∈ ys, y < rowB.length) (acc : Acc) :
    loopY body nt b c x ys acc =
      foldAcc body ((ys.filter fun y => rowB.getD y 0 ≠ 0).flatMap fun y =>
        (flags rowC).map fun z => 16 * x + 4 * y + z) acc := by
  induction ys generalizing acc with
  | nil => simp [loopY, foldAcc]
  | cons y ys ih =>
    have ih' := fun acc => ih (fun y' hy' => hy y' (by simp [hy'])) acc
    cases acc with
    | ret v => simp [loopY, foldAcc_ret]
    | run aa =>
      have e := getElem?_eq_some_getD0 rowB y (hy y (by simp))
      by_cases hf : rowB.getD y 0 = 0
      · rw [List.filter_cons_of_neg (by simpa using hf), ← ih']
        simp only [loopY, hB, e, Option.bind_eq_bind, Option.bind_some, hf, if_true]
      · simp only [loopY, hB, hC, e, Option.bind_eq_bind, Option.bind_some, hf, if_false]
        rw [List.filter_cons_of_pos (by simpa using hf), List.flatMap_cons, foldAcc_append]
        rw [loopZ_eq body rowC x y [0, 1, 2, 3] (by intro z hz; simp at hz; omega)]
        have hflags : (List.filter (fun z => decide (rowC.getD z 0 ≠ 0)) [0, 1, 2, 3]) = flags rowC := rfl
        rw [hflags]
        cases hz : foldAcc body (List.map (fun z => 16 * x + 4 * y + z) (flags rowC)) (Acc.run aa) with
        | none => rfl
        | some acc' => simp only [Option.bind_some]; exact ih' acc'

theorem loopX_eq (body : Int → Nat → Option Acc) (nt : Alphabet) (a b c : Nat) (rowA rowB rowC : List Nat)
    (hA : nt.degen[a]? = some rowA) (hB : nt.degen[b]? = some rowB) (hC : nt.degen[c]? = some rowC)
    (hlB : rowB.length = 4) (hlC : rowC.length = 4) (xs : List Nat)
    (hx : ∀ x ∈ xs, x < rowA.length) (acc : Acc) :
    loopX body nt a b c xs acc =
      foldAcc body ((xs.filter fun x => rowA.getD x 0 ≠ 0).flatMap fun x =>
        (flags rowB).flatMap fun y => (flags rowC).map fun z => 16 * x + 4 * y + z) acc := by
  induction xs generalizing acc with
  | nil => simp [loopX, foldAcc]
  | cons x xs ih =>
    have ih' := fun acc => ih (fun x' hx' => hx x' (by simp [hx'])) acc
    cases acc with
    | ret v => simp [loopX, foldAcc_ret]
    | run aa =>
      have e := getElem?_eq_some_getD0 rowA x (hx x (by simp))
      by_cases hf : rowA.getD x 0 = 0
      · rw [List.filter_cons_of_neg (by simpa using hf), ← ih']
        simp only [loopX, hA, e, Option.bind_eq_bind, Option.bind_some, hf, if_true]
      · simp only [loopX, hA, e, Option.bind_eq_bind, Option.bind_some, hf, if_false]
        rw [List.filter_cons_of_pos (by simpa using hf), List.flatMap_cons, foldAcc_append]
        rw [loopY_eq body nt b c x rowB rowC hB hC hlC [0, 1, 2, 3] (by intro y hy; simp at hy; omega)]
        have hflags : (List.filter (fun y => decide (rowB.getD y 0 ≠ 0)) [0, 1, 2, 3]) = flags rowB := rfl
        rw [hflags]
        cases hy : foldAcc body (List.flatMap (fun y => List.map (fun z => 16 * x + 4 * y + z) (flags rowC)) (flags rowB)) (Acc.run aa) with
        | none => rfl
        | some acc' => simp only [Option.bind_some]; exact ih' acc'

/-- rows of a well-formed nucleotide alphabet -/
theorem row_of_ntOK (nt : Alphabet) (h : NtOK nt) (a : Nat) (ha : a < nt.Kp) :
    nt.degen[a]? = some (nt.degen.getD a []) ∧ (nt.degen.getD a []).length = 4 := by
  obtain ⟨_, hl, hr⟩ := h
  refine ⟨?_, hr a ha⟩
  rw [List.getD_eq_getElem?_getD, List.getElem?_eq_getElem (by omega)]; simp

/-- the whole triple loop is the sequential fold over `expand` -/
theorem loopX_expand (body : Int → Nat → Option Acc) (nt : Alphabet) (h : NtOK nt) (a b c : Nat)
    (ha : a < nt.Kp) (hb : b < nt.Kp) (hc : c < nt.Kp) (acc : Acc) :
    loopX body nt a b c [0, 1, 2, 3] acc = foldAcc body (expand nt a b c) acc := by
  obtain ⟨hA, hlA⟩ := row_of_ntOK nt h a ha
  obtain ⟨hB, hlB⟩ := row_of_ntOK nt h b hb
  obtain ⟨hC, hlC⟩ := row_of_ntOK nt h c hc
  rw [loopX_eq body nt a b c _ _ _ hA hB hC hlB hlC [0, 1, 2, 3] (by intro x hx; simp at hx; omega)]
  rfl

/-! ## what the folds compute -/

theorem foldAcc_trans_run (g : Gencode) (unk : Nat) (b0 : Nat) (ks : List Nat) (hk : ∀ k ∈ ks, k < g.basic.length) :
    foldAcc (transStep g unk) ks (.run (b0 : Nat)) =
      some (if ∀ k ∈ ks, g.basic.getD k 0 = b0 then .run (b0 : Nat) else .ret (unk : Nat)) := by
  induction ks with
  | nil => simp [foldAcc]
  | cons k ks ih =>
    have e := getElem?_eq_some_getD0 g.basic k (hk k (by simp))
    have ih' := ih (fun k' hk' => hk k' (by simp [hk']))
    have hne : ((b0 : Nat) : Int) ≠ -1 := by omega
    by_cases hb : g.basic.getD k 0 = b0
    · simp only [foldAcc, transStep, e, Option.bind_eq_bind, Option.bind_some, hne, if_false, hb, ne_eq,
        not_true_eq_false]
      rw [ih']
      have hiff : (∀ k' ∈ k :: ks, g.basic.getD k' 0 = b0) ↔ (∀ k' ∈ ks, g.basic.getD k' 0 = b0) := by
        rw [List.forall_mem_cons]; exact ⟨fun h => h.2, fun h => ⟨hb, h⟩⟩
      simp only [hiff]
    · have hb' : ((b0 : Nat) : Int) ≠ ((g.basic.getD k 0 : Nat) : Int) := by
        intro e'; exact hb (by omega)
      simp only [foldAcc, transStep, e, Option.bind_eq_bind, Option.bind_some, hne, if_false, ne_eq, hb',
        not_false_eq_true, if_true, foldAcc_ret]
      rw [if_neg (fun h => hb (h k (List.mem_cons_self ..)))]

/-- final state of the translation loop over the codons `ks` -/
def transResult (g : Gencode) (unk : Nat) : List Nat → Acc
  | [] => .run (-1)
  | k :: ks' => if ∀ k' ∈ ks', g.basic.getD k' 0 = g.basic.getD k 0 then .run (g.basic.getD k 0 : Nat)
                else .ret (unk : Nat)

theorem foldAcc_trans (g : Gencode) (unk : Nat) (ks : List Nat) (hk : ∀ k ∈ ks, k < g.basic.length) :
    foldAcc (transStep g unk) ks (.run (-1)) = some (transResult g unk ks) := by
  cases ks with
  | nil => simp [foldAcc, transResult]
  | cons k ks' =>
    have e := getElem?_eq_some_getD0 g.basic k (hk k (by simp))
    simp only [foldAcc, transStep, e, Option.bind_eq_bind, Option.bind_some, if_true, transResult]
    exact foldAcc_trans_run g unk _ ks' (fun k' hk' => hk k' (by simp [hk']))

theorem foldAcc_init (g : Gencode) (ks : List Nat) (hk : ∀ k ∈ ks, k < g.isInit.length) (n : Int) :
    foldAcc (initStep g) ks (.run n) =
      some (if ks.all (fun k => g.isInit.getD k 0 ≠ 0) then .run (n + ks.length) else .ret 0) := by
  induction ks generalizing n with
  | nil => simp [foldAcc]
  | cons k ks ih =>
    have e := getElem?_eq_some_getD0 g.isInit k (hk k (by simp))
    have ih' := fun n => ih (fun k' hk' => hk k' (by simp [hk'])) n
    by_cases hf : g.isInit.getD k 0 = 0
    · simp only [foldAcc, initStep, e, Option.bind_eq_bind, Option.bind_some, hf, if_true, foldAcc_ret,
        List.all_cons, ne_eq, not_true_eq_false, decide_false, Bool.false_and]
      rfl
    · simp only [foldAcc, initStep, e, Option.bind_eq_bind, Option.bind_some, hf, if_false]
      rw [ih']
      simp only [List.all_cons, hf, ne_eq, not_false_eq_true, decide_true, Bool.true_and, List.length_cons]
      split
      · congr 2; push_cast; omega
      · rfl

/-- every codon index of `expand` is `< 64` -/
theorem expand_lt (nt : Alphabet) (a b c : Nat) : ∀ k ∈ expand nt a b c, k < 64 := by
  intro k hk
  unfold expand flags at hk
  simp only [List.mem_flatMap, List.mem_map, List.mem_filter] at hk
  obtain ⟨x, ⟨hx, _⟩, y, ⟨hy, _⟩, z, ⟨hz, _⟩, rfl⟩ := hk
  simp at hx hy hz
  omega

end EaselModel.Gencode
