import EaselModel.Gencode.Lemmas2
import EaselModel.Gencode.OrfSpec
/-! # C17 — the streaming loop with its rolling codon / degeneracy countdown = the eager per-codon step -/
namespace EaselModel.Gencode
open EaselModel.Alphabet

theorem canon_lt4 (nt : Alphabet) (h : NtOK nt) (a : Nat) (ha : nt.xIsCanonical a = true) : a < 4 := by
  unfold Alphabet.xIsCanonical at ha
  have := h.1
  simp only [decide_eq_true_eq] at ha
  omega

theorem allCanonical_iff (nt : Alphabet) (a b c : Nat) :
    allCanonical nt a b c = true ↔ nt.xIsCanonical a = true ∧ nt.xIsCanonical b = true ∧ nt.xIsCanonical c = true := by
  unfold allCanonical; simp [Bool.and_eq_true, and_assoc]

theorem rollInv_mk (nt : Alphabet) (core : Core) (cod inv b c : Nat)
    (h1 : inv = (if nt.xIsCanonical c then (if nt.xIsCanonical b then 0 else 1) else 2))
    (h2 : nt.xIsCanonical c = true → cod % 4 = c)
    (h3 : nt.xIsCanonical b = true → nt.xIsCanonical c = true → cod % 16 = 4 * b + c) :
    RollInv nt { c := core, codon := cod, inval := inv } b c := ⟨h1, h2, h3⟩

/-- canonical path of the loop body -/
theorem pieceStep_canon (nt aa : Alphabet) (g : Gencode) (cfg : Cfg) (hn : NtOK nt) (hg : CodeOK g) (w : Work) (a b c : Nat)
    (ha : nt.xIsCanonical a = true) (hb : nt.xIsCanonical b = true) (hc : nt.xIsCanonical c = true)
    (hinv : RollInv nt w a b) :
    pieceStep nt aa g cfg w a b c =
      some { c := cstep aa cfg w.c (codonAa nt aa g a b c) (specInitiator nt g a b c),
             codon := 16 * a + 4 * b + c, inval := 0 } := by
  obtain ⟨hi, h4, h16⟩ := hinv
  have hi0 : w.inval = 0 := by rw [hi]; simp [ha, hb]
  have h16' := h16 ha hb
  have a4 := canon_lt4 nt hn a ha
  have b4 := canon_lt4 nt hn b hb
  have c4 := canon_lt4 nt hn c hc
  have hcod : (w.codon * 4) % 64 + c = 16 * a + 4 * b + c := by omega
  have hall : allCanonical nt a b c = true := (allCanonical_iff nt a b c).mpr ⟨ha, hb, hc⟩
  have e1 : g.basic[16 * a + 4 * b + c]? = some (g.basic.getD (16 * a + 4 * b + c) 0) :=
    getElem?_eq_some_getD0 _ _ (by rw [hg.1]; omega)
  have e2 : g.isInit[16 * a + 4 * b + c]? = some (g.isInit.getD (16 * a + 4 * b + c) 0) :=
    getElem?_eq_some_getD0 _ _ (by rw [hg.2]; omega)
  unfold pieceStep
  simp only [hc, if_true, hi0, hcod, Nat.lt_irrefl, if_false, e1, e2, Option.bind_eq_bind, Option.bind_some,
    gt_iff_lt]
  unfold cstep codonAa specInitiator
  simp only [hall, if_true]
  generalize g.basic.getD (16 * a + 4 * b + c) 0 = bv
  generalize g.isInit.getD (16 * a + 4 * b + c) 0 = iv
  cases hin : w.c.getF.inOrf <;> by_cases hz : iv = 0 <;> simp [hz]

/-- degenerate path of the loop body -/
theorem pieceStep_degen (nt aa : Alphabet) (g : Gencode) (cfg : Cfg) (hn : NtOK nt) (hg : CodeOK g) (w : Work) (a b c : Nat)
    (hak : a < nt.Kp) (hbk : b < nt.Kp) (hck : c < nt.Kp)
    (hnot : allCanonical nt a b c = false) (hinv : RollInv nt w a b) :
    pieceStep nt aa g cfg w a b c =
      some { c := cstep aa cfg w.c (codonAa nt aa g a b c) (specInitiator nt g a b c),
             codon := if nt.xIsCanonical c then (w.codon * 4) % 64 + c else (w.codon * 4) % 64,
             inval := if nt.xIsCanonical c then w.inval - 1 else 2 } := by
  obtain ⟨hi, _, _⟩ := hinv
  have ht := getTranslation_eq_spec nt aa g hn hg a b c hak hbk hck
  obtain ⟨r, hr1, hr2⟩ := isInitiator_eq_spec nt g hn hg a b c hak hbk hck
  have hpos : (if nt.xIsCanonical c then w.inval else 3) > 0 := by
    by_cases hc : nt.xIsCanonical c = true
    · simp only [hc, if_true]
      rw [hi]
      by_cases hb : nt.xIsCanonical b = true
      · by_cases ha : nt.xIsCanonical a = true
        · have := (allCanonical_iff nt a b c).mpr ⟨ha, hb, hc⟩
          rw [hnot] at this; cases this
        · simp [hb, ha]
      · simp [hb]
    · simp [hc]
  unfold pieceStep
  by_cases hc : nt.xIsCanonical c = true
  · simp only [hc, if_true] at hpos ⊢
    simp only [hpos, if_true, ht, hr1, Option.bind_eq_bind, Option.bind_some]
    unfold cstep codonAa
    simp only [hnot, Bool.false_eq_true, if_false]
    cases hin : w.c.getF.inOrf
    · by_cases hr0 : r = 0
      · have : specInitiator nt g a b c = false := by
          cases hs : specInitiator nt g a b c
          · rfl
          · exact absurd (hr2.mpr hs) (by simp [hr0])
        simp [hr0, this]
      · have : specInitiator nt g a b c = true := hr2.mp hr0
        simp [hr0, this]
    · simp
  · have hc' : nt.xIsCanonical c = false := by simpa using hc
    simp only [hc', Bool.false_eq_true, if_false] at hpos ⊢
    simp only [show (3 : Nat) > 0 by omega, if_true, ht, hr1, Option.bind_eq_bind, Option.bind_some]
    unfold cstep codonAa
    simp only [hnot, Bool.false_eq_true, if_false]
    cases hin : w.c.getF.inOrf
    · by_cases hr0 : r = 0
      · have : specInitiator nt g a b c = false := by
          cases hs : specInitiator nt g a b c
          · rfl
          · exact absurd (hr2.mpr hs) (by simp [hr0])
        simp [hr0, this]
      · have : specInitiator nt g a b c = true := hr2.mp hr0
        simp [hr0, this]
    · simp

/-- one loop iteration = the eager step, and the rolling-codon invariant is re-established -/
theorem pieceStep_eager (nt aa : Alphabet) (g : Gencode) (cfg : Cfg) (hn : NtOK nt) (hg : CodeOK g) (w : Work) (a b c : Nat)
    (hak : a < nt.Kp) (hbk : b < nt.Kp) (hck : c < nt.Kp) (hinv : RollInv nt w a b) :
    ∃ w', pieceStep nt aa g cfg w a b c = some w' ∧
      w'.c = cstep aa cfg w.c (codonAa nt aa g a b c) (specInitiator nt g a b c) ∧ RollInv nt w' b c := by
  by_cases hall : allCanonical nt a b c = true
  · obtain ⟨ha, hb, hc⟩ := (allCanonical_iff nt a b c).mp hall
    refine ⟨_, pieceStep_canon nt aa g cfg hn hg w a b c ha hb hc hinv, rfl, ?_⟩
    have a4 := canon_lt4 nt hn a ha
    have b4 := canon_lt4 nt hn b hb
    have c4 := canon_lt4 nt hn c hc
    apply rollInv_mk
    · simp [hb, hc]
    · intro _; omega
    · intro _ _; omega
  · have hnot : allCanonical nt a b c = false := by simpa using hall
    refine ⟨_, pieceStep_degen nt aa g cfg hn hg w a b c hak hbk hck hnot hinv, rfl, ?_⟩
    obtain ⟨hi, h4, h16⟩ := hinv
    apply rollInv_mk
    · rw [hi]
      by_cases ha : nt.xIsCanonical a = true <;> by_cases hb : nt.xIsCanonical b = true <;>
        by_cases hc : nt.xIsCanonical c = true
      all_goals first
        | exact absurd ((allCanonical_iff nt a b c).mpr ⟨ha, hb, hc⟩) hall
        | simp [ha, hb, hc]
    · intro hc
      have c4 := canon_lt4 nt hn c hc
      simp only [hc, if_true]
      omega
    · intro hb hc
      have c4 := canon_lt4 nt hn c hc
      have b4 := canon_lt4 nt hn b hb
      have := h4 hb
      simp only [hc, if_true]
      omega

/-- `ProcessStart` establishes the invariant for the first two nucleotides -/
theorem processStart_inv (nt : Alphabet) (hn : NtOK nt) (w : Work) (isRev : Bool) (L : Int) (d1 d2 : Nat) :
    RollInv nt (processStart nt w isRev L d1 d2) d1 d2 := by
  unfold processStart
  by_cases h1 : nt.xIsCanonical d1 = true <;> by_cases h2 : nt.xIsCanonical d2 = true
  · have a4 := canon_lt4 nt hn d1 h1
    have b4 := canon_lt4 nt hn d2 h2
    simp only [h1, h2, if_true]
    apply rollInv_mk
    · simp [h1, h2]
    · intro _; omega
    · intro _ _; omega
  · simp only [h1, h2, if_true, if_false]
    apply rollInv_mk
    · simp [h2]
    · intro h; exact absurd h h2
    · intro _ h; exact absurd h h2
  · have b4 := canon_lt4 nt hn d2 h2
    simp only [h1, h2, if_true, if_false, Bool.false_eq_true]
    apply rollInv_mk
    · simp [h1, h2]
    · intro _; omega
    · intro h; exact absurd h h1
  · simp only [h1, h2, if_false]
    apply rollInv_mk
    · simp [h2]
    · intro h; exact absurd h h2
    · intro h; exact absurd h h1

/-- the whole window loop: `ProcessPiece` = fold of the eager step (no fault for valid codes) -/
theorem processPiece_eager (nt aa : Alphabet) (g : Gencode) (cfg : Cfg) (hn : NtOK nt) (hg : CodeOK g) :
    ∀ (d : List Nat) (w : Work), (∀ x ∈ d, x < nt.Kp) → RollInv nt w (d.getD 0 0) (d.getD 1 0) →
      ∃ w', processPiece nt aa g cfg w d = some w' ∧ w'.c = coreRun nt aa g cfg w.c d := by
  intro d
  induction d with
  | nil => intro w _ _; exact ⟨w, rfl, rfl⟩
  | cons a t ih =>
    intro w hv hinv
    match t, ih, hv, hinv with
    | [], _, _, _ => exact ⟨w, rfl, rfl⟩
    | [b], _, _, _ => exact ⟨w, rfl, rfl⟩
    | b :: c :: rest, ih, hv, hinv =>
      obtain ⟨w1, h1, h2, h3⟩ := pieceStep_eager nt aa g cfg hn hg w a b c (hv a (by simp)) (hv b (by simp))
        (hv c (by simp)) (by simpa using hinv)
      obtain ⟨w2, h4, h5⟩ := ih w1 (fun x hx => hv x (by simp [hx])) (by simpa using h3)
      refine ⟨w2, ?_, ?_⟩
      · simp only [processPiece, h1, Option.bind_eq_bind, Option.bind_some]; exact h4
      · rw [h5, h2]; rfl

end EaselModel.Gencode
