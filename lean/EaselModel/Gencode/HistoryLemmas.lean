import EaselModel.Gencode.History
import EaselModel.Gencode.ReadCode
import EaselModel.Gencode.Builtin
/-! # C17 — after `Set(t)` the object IS table `t`, whatever was done to it before -/
namespace EaselModel.Gencode
open EaselModel.Alphabet

theorem copy64_go (src : List Nat) (hs : src.length = 64) :
    ∀ (n : Nat) (dst : List Nat), dst.length = 64 → n ≤ 64 →
      (List.range n).foldl (fun b c => b.set c (src.getD c 0)) dst = src.take n ++ dst.drop n := by
  intro n
  induction n with
  | zero => intro dst _ _; simp
  | succ n ih =>
    intro dst hd hn
    rw [List.range_succ, List.foldl_append, ih dst hd (by omega)]
    simp only [List.foldl_cons, List.foldl_nil]
    apply List.ext_getElem
    · simp; omega
    · intro i h1 h2
      simp only [List.getElem_set, List.getElem_append, List.length_take, List.getElem_take, List.getElem_drop]
      have hmin : min n src.length = n := by omega
      have hmin1 : min (n + 1) src.length = n + 1 := by omega
      by_cases e : n = i
      · subst e
        simp [hmin, hmin1, List.getD_eq_getElem?_getD, List.getElem?_eq_getElem (show n < src.length by omega)]
      · by_cases hlt : i < n
        · simp [e, hmin, hmin1, hlt, show i < n + 1 by omega]
        · have hge : ¬ i < n + 1 := by omega
          simp only [e, hmin, hmin1, hlt, hge, if_false, dite_false]
          congr 1
          omega

/-- the copy loop overwrites the whole array: nothing of the previous contents survives -/
theorem copy64_eq (dst src : List Nat) (hd : dst.length = 64) (hs : src.length = 64) : copy64 dst src = src := by
  unfold copy64
  rw [copy64_go src hs 64 dst hd (Nat.le_refl _)]
  simp [List.take_of_length_le (show src.length ≤ 64 by omega), List.drop_of_length_le (show dst.length ≤ 64 by omega)]

/-- `Set(id)` on ANY well-formed object = the freshly set table (what `setTable` / `esl_gencode_Create` + `Set` give) -/
theorem setOn_eq (tabs : List RawTable) (htabs : ∀ t ∈ tabs, t.basic.length = 64 ∧ t.init.length = 64) (g : Gencode)
    (hg : CodeOK g) (id : Int) :
    setOn tabs g id = match setTable tabs id with
      | some g' => (g', true)
      | none => (g, false) := by
  unfold setOn setTable
  cases h : tabs.find? (fun t => decide (t.id = id)) with
  | none => rfl
  | some t =>
    obtain ⟨h1, h2⟩ := htabs t (List.mem_of_find?_eq_some h)
    simp only [Option.map_some]
    rw [copy64_eq _ _ hg.1 h1, copy64_eq _ _ hg.2 h2]

theorem setTable_codeOK (tabs : List RawTable) (htabs : ∀ t ∈ tabs, t.basic.length = 64 ∧ t.init.length = 64) (id : Int)
    (g : Gencode) (h : setTable tabs id = some g) : CodeOK g := by
  unfold setTable at h
  cases hf : tabs.find? (fun t => decide (t.id = id)) with
  | none => rw [hf] at h; cases h
  | some t =>
    rw [hf] at h
    simp only [Option.map_some, Option.some.injEq] at h
    subst h
    exact htabs t (List.mem_of_find?_eq_some hf)

/-- every operation keeps the object well formed (64 + 64 entries) -/
theorem hstep_codeOK (nt aa : Alphabet) (tabs : List RawTable) (htabs : ∀ t ∈ tabs, t.basic.length = 64 ∧ t.init.length = 64)
    (hatg : 16 * nt.inmapAt 65 + 4 * nt.inmapAt 84 + nt.inmapAt 71 < 64) (g : Gencode) (hg : CodeOK g) (op : HOp) :
    CodeOK (hstep nt aa tabs g op).1 := by
  cases op with
  | set id =>
    show CodeOK (setOn tabs g id).1
    rw [setOn_eq tabs htabs g hg id]
    cases h : setTable tabs id with
    | none => exact hg
    | some g' => exact setTable_codeOK tabs htabs id g' h
  | any => exact ⟨by simp [hstep, setInitiatorAny, hg.1], by simp [hstep, setInitiatorAny, hg.1]⟩
  | aug => exact ⟨by simp [hstep, setInitiatorOnlyAUG, hg.1], by simp [hstep, setInitiatorOnlyAUG]⟩
  | read buf =>
    simp only [hstep]
    cases h1 : setTable tabs 1 with
    | none => exact hg
    | some g1 =>
      simp only []
      cases h2 : read nt aa g1 buf with
      | none => exact hg
      | some g' =>
        have hg1 := setTable_codeOK tabs htabs 1 g1 h1
        obtain ⟨a, b, _⟩ := read_ok_is_code nt aa g1 hg1.1 hg1.2 buf g' h2
        exact ⟨a, b⟩

theorem hrun_codeOK (nt aa : Alphabet) (tabs : List RawTable) (htabs : ∀ t ∈ tabs, t.basic.length = 64 ∧ t.init.length = 64)
    (hatg : 16 * nt.inmapAt 65 + 4 * nt.inmapAt 84 + nt.inmapAt 71 < 64) :
    ∀ (ops : List HOp) (g : Gencode), CodeOK g → CodeOK (hrun nt aa tabs g ops).1 := by
  intro ops
  induction ops with
  | nil => intro g hg; exact hg
  | cons op ops ih => intro g hg; exact ih _ (hstep_codeOK nt aa tabs htabs hatg g hg op)

theorem hrun_append (nt aa : Alphabet) (tabs : List RawTable) :
    ∀ (ops1 ops2 : List HOp) (g : Gencode),
      (hrun nt aa tabs g (ops1 ++ ops2)).1 = (hrun nt aa tabs (hrun nt aa tabs g ops1).1 ops2).1 := by
  intro ops1
  induction ops1 with
  | nil => intro _ _; rfl
  | cons op ops ih => intro ops2 g; exact ih ops2 _

/-- **after ANY history, `Set(id)` leaves exactly the freshly set table** (or, for an unknown id, the object as it was) -/
theorem set_after_history (nt aa : Alphabet) (tabs : List RawTable)
    (htabs : ∀ t ∈ tabs, t.basic.length = 64 ∧ t.init.length = 64)
    (hatg : 16 * nt.inmapAt 65 + 4 * nt.inmapAt 84 + nt.inmapAt 71 < 64) (ops : List HOp) (g0 : Gencode) (hg : CodeOK g0) (id : Int) :
    (hrun nt aa tabs g0 (ops ++ [.set id])).1 =
      match setTable tabs id with
      | some g' => g'
      | none => (hrun nt aa tabs g0 ops).1 := by
  rw [hrun_append]
  show (setOn tabs (hrun nt aa tabs g0 ops).1 id).1 = _
  rw [setOn_eq tabs htabs _ (hrun_codeOK nt aa tabs htabs hatg ops g0 hg) id]
  cases setTable tabs id <;> rfl

end EaselModel.Gencode
