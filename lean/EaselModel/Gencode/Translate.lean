import EaselModel.Gencode.Model
/-! # C17 — whole-sequence translation: `esl_gencode_WorkstateCreate` + the two main loops of `miniapps/esl-translate.c`
(`do_by_sequences`, `do_by_windows`) per input sequence (core Lean only; the driver imports this file) -/
namespace EaselModel.Gencode
open EaselModel.Alphabet

/-- the options `esl_gencode_WorkstateCreate(go, gcode)` reads: `--crick`, `--watson`, `-m`, `-M`, `-l <n>` -/
structure Opts where
  crick : Bool
  watson : Bool
  optm : Bool
  optM : Bool
  l : Int
  deriving DecidableEq, Repr

/-- the configuration part of `ESL_GENCODE_WORKSTATE` (`outfp = stdout`, `outformat = eslSQFILE_FASTA` are constants) -/
structure Wcfg where
  doWatson : Bool
  doCrick : Bool
  usingInit : Bool
  minlen : Int
  deriving DecidableEq, Repr

/-- `esl_gencode_WorkstateCreate`: `do_watson = !--crick`, `do_crick = !--watson`, `using_initiators = -m || -M`, `minlen = -l`;
    the stateful part is `({} : Work)`: three empty frames outside an ORF, `apos = 1`, `frame = codon = inval = orfcount = 0` -/
def workstateCreate (o : Opts) : Wcfg :=
  { doWatson := if o.crick then false else true, doCrick := if o.watson then false else true,
    usingInit := if o.optm || o.optM then true else false, minlen := o.l }

def Wcfg.cfg (c : Wcfg) : Cfg := { usingInit := c.usingInit, minlen := c.minlen }

/-- the genetic code `esl-translate`'s `main()` sets up: `-c <id>`, then `-m` ⇒ only AUG, else not `-M` ⇒ any sense codon -/
def codeForOpts (nt aa : Alphabet) (tabs : List RawTable) (id : Int) (o : Opts) : Option Gencode :=
  (setTable tabs id).map fun g =>
    if o.optm then setInitiatorOnlyAUG nt g else if !o.optM then setInitiatorAny aa g else g

/-- `esl_sq_ReverseComplement` on a digital sequence (C08 `revcomp_spec`): reversed, each code complemented -/
def revcomp (nt : Alphabet) (d : List Nat) : List Nat :=
  d.reverse.map fun x => (nt.complement.getD []).getD x 255

/-- one strand given as the list of windows handed to `ProcessPiece` (the first also to `ProcessStart`), `L = sq->L` -/
def runWins (nt aa : Alphabet) (g : Gencode) (cfg : Cfg) (w : Work) (isRev : Bool) (L : Nat) (wins : List (List Nat)) :
    Option Work := do
  let first := wins.headD []
  let w := processStart nt w isRev L (first.getD 0 0) (first.getD 1 0)
  let w ← wins.foldlM (fun w win => processPiece nt aa g cfg w win) w
  some { w with c := processEnd cfg w.c }

/-- body of the `while` loop of `do_by_sequences` for one sequence `d` (top strand, digital) -/
def bySequence (nt aa : Alphabet) (g : Gencode) (wc : Wcfg) (w : Work) (d : List Nat) : Option Work :=
  if d.length < 3 then some w else do
    let w ← if wc.doWatson then runStrand nt aa g wc.cfg w false d [d.length] else some w
    if wc.doCrick then runStrand nt aa g wc.cfg w true (revcomp nt d) [d.length] else some w

/-- the window sizes `esl_sqio_ReadWindow(sqfp, 2, ±W, sq)` delivers for a sequence of `L` residues: `W, W, …` and the rest -/
def cutsFor (W L : Nat) : List Nat := List.replicate (L / W) W ++ (if L % W = 0 then [] else [L % W])

/-- the windows of the REVERSE strand as `ReadWindow` with a negative window size produces them from the TOP strand `d`:
    the `i`-th covers the `k` residues ending `done` residues before the 3' end, plus (after the first) the 2 residues
    to their right as context, reverse complemented -/
def topSlices (nt : Alphabet) (d : List Nat) : Nat → List Nat → List (List Nat)
  | _, [] => []
  | done, k :: ks =>
    let C := if done = 0 then 0 else 2
    revcomp nt ((d.drop (d.length - done - k)).take (k + C)) :: topSlices nt d (done + k) ks

/-- `do_by_windows` for one sequence with window size `W` (4092 in the program). A sequence shorter than a codon is skipped
    at its first window (`if (sq->n < 3) continue;`), but `ProcessEnd` still runs at `eslEOD` for each strand processed. -/
def byWindows (nt aa : Alphabet) (g : Gencode) (wc : Wcfg) (W : Nat) (w : Work) (d : List Nat) : Option Work :=
  if d.length < 3 then
    let w := if wc.doWatson then { w with c := processEnd wc.cfg w.c } else w
    some (if wc.doCrick then { w with c := processEnd wc.cfg w.c } else w)
  else do
    let cuts := cutsFor W d.length
    let w ← if wc.doWatson then runWins nt aa g wc.cfg w false d.length (windows [] d cuts) else some w
    if wc.doCrick then runWins nt aa g wc.cfg w true d.length (topSlices nt d 0 cuts) else some w

/-- a whole input file: the sequences one after the other through the same work state (`orfcount` runs on) -/
def translateFile (step : Work → List Nat → Option Work) (w : Work) (seqs : List (List Nat)) : Option Work :=
  seqs.foldlM step w

/-! ## the text `esl_gencode_ProcessOrf` prints when there is no ORF block: `esl_sqio_Write(wrk->outfp, psq, eslSQFILE_FASTA, FALSE)` -/

/-- residue lines of `esl_sqascii_WriteFasta`: 60 symbols per line (`fuel` ≥ number of lines) -/
def fastaLines : Nat → List Nat → List Nat
  | 0, _ => []
  | fuel + 1, l => if l.isEmpty then [] else l.take 60 ++ [10] ++ fastaLines fuel (l.drop 60)

/-- one record: `>orf<n> source=… coords=… length=… frame=… desc=…`, then the residues as amino-acid symbols -/
def fastaOrf (aa : Alphabet) (source desc : String) (o : Orf) : List Nat :=
  strBytes (">" ++ orfName o ++ " " ++ orfDesc source desc o ++ "\n") ++
    fastaLines o.aa.length (o.aa.map fun x => aa.sym.getD x 63)

end EaselModel.Gencode
