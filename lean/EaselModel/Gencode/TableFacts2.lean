import EaselModel.Gencode.Builtin
/-! # C17 — table facts closed by `decide` over the regenerated tables (split over several modules so that they
    are checked in parallel; the statements are restated, with their documentation, in `Props/C17.lean`) -/
namespace EaselModel.Gencode.Facts
open EaselModel.Alphabet EaselModel.Gencode

theorem read_write_roundtrip :
    ∀ g1 ∈ (setTable T.tables 1).toList, ∀ t ∈ T.tables, ∀ g ∈ settings (codeOf t), ∀ cm ∈ [true, false],
      (write A.dna A.amino g cm).bind (read A.dna A.amino g1) =
        some { translTable := -1, desc := "", basic := g.basic, isInit := g.isInit } := by decide +kernel

end EaselModel.Gencode.Facts
