import EaselModel.Gencode.OrfLemmas2
/-! # C17 — ProcessEnd, and the assembled theorem: streaming machine over any window split = per-frame ORF finders -/
namespace EaselModel.Gencode
open EaselModel.Alphabet

/-- one of the three flush steps of `esl_gencode_ProcessEnd` -/
def endStep (cfg : Cfg) (w : Core) : Core :=
  let w := processOrf cfg w
  { w with apos := if w.isRev then w.apos - 1 else w.apos + 1, frame := (w.frame + 1) % 3 }

theorem processEnd_eq (cfg : Cfg) (w : Core) : processEnd cfg w = endStep cfg (endStep cfg (endStep cfg w)) := rfl

theorem endStep_fields (cfg : Cfg) (c : Core) :
    (endStep cfg c).frame = (c.frame + 1) % 3 ∧ (endStep cfg c).isRev = c.isRev ∧
    (endStep cfg c).apos = c.apos + dirOf c.isRev := by
  obtain ⟨p1, p2, p3⟩ := processOrf_fields cfg c
  unfold endStep dirOf
  simp only [p1, p2, p3]
  refine ⟨trivial, trivial, ?_⟩
  cases c.isRev <;> simp <;> omega

theorem endStep_proj_same (cfg : Cfg) (c : Core) (h : c.frame < 3) :
    (proj (endStep cfg c) c.frame).2 = fflush cfg (proj c c.frame) (c.apos - dirOf c.isRev) := by
  unfold endStep fflush proj
  simp only [processOrf_eq, getF_fK c h, emits, orfRec]
  cases hin : (fK c c.frame).inOrf <;>
    by_cases hm : cfg.minlen ≤ ((fK c c.frame).rev.length : Int) <;>
    simp [hin, hm, recsOf_cons]

theorem endStep_proj_other (cfg : Cfg) (c : Core) (h : c.frame < 3) (j : Nat) (hj : j < 3) (hne : j ≠ c.frame) :
    proj (endStep cfg c) j = proj c j := by
  have hne' : ¬ (c.frame + 1 + labelOff c.isRev = j + 1 + labelOff c.isRev) := by omega
  have hne2 : ¬ c.frame = j := fun e => hne e.symm
  unfold endStep proj
  simp only [processOrf_eq, getF_fK c h, emits, orfRec]
  cases hin : (fK c c.frame).inOrf <;>
    by_cases hm : cfg.minlen ≤ ((fK c c.frame).rev.length : Int) <;>
    simp [hin, hm, fK_setF, h, hj, hne, hne', hne2, fK_adv, recsOf_cons, fK_fields]

/-- after `ProcessEnd`, frame `k`'s ORF list is the finder's list flushed at the coordinate where that frame's next codon
    would have started, minus one step -/
theorem processEnd_proj (cfg : Cfg) (c : Core) (h : c.frame < 3) (k : Nat) (hk : k < 3) :
    (proj (processEnd cfg c) k).2 =
      fflush cfg (proj c k) (c.apos + (((k + 3 - c.frame) % 3 : Nat) : Int) * dirOf c.isRev - dirOf c.isRev) := by
  rw [processEnd_eq]
  obtain ⟨a1, a2, a3⟩ := endStep_fields cfg c
  obtain ⟨b1, b2, b3⟩ := endStep_fields cfg (endStep cfg c)
  have h1 : (endStep cfg c).frame < 3 := by rw [a1]; omega
  have h2 : (endStep cfg (endStep cfg c)).frame < 3 := by rw [b1]; omega
  by_cases e0 : k = c.frame
  · -- flushed by the first step
    have n1 : k ≠ (endStep cfg c).frame := by rw [a1]; omega
    have n2 : k ≠ (endStep cfg (endStep cfg c)).frame := by rw [b1, a1]; omega
    rw [endStep_proj_other cfg _ h2 k hk n2, endStep_proj_other cfg _ h1 k hk n1, e0, endStep_proj_same cfg c h]
    have : (c.frame + 3 - c.frame) % 3 = 0 := by omega
    rw [this]; simp
  · by_cases e1 : k = (endStep cfg c).frame
    · have n2 : k ≠ (endStep cfg (endStep cfg c)).frame := by rw [b1, a1]; rw [a1] at e1; omega
      rw [endStep_proj_other cfg _ h2 k hk n2, e1, endStep_proj_same cfg _ h1, ← e1,
        endStep_proj_other cfg c h k hk e0, a2, a3]
      have : (k + 3 - c.frame) % 3 = 1 := by rw [a1] at e1; omega
      rw [this]; simp
    · have e2 : k = (endStep cfg (endStep cfg c)).frame := by rw [b1, a1]; rw [a1] at e1; omega
      rw [e2, endStep_proj_same cfg _ h2, ← e2, endStep_proj_other cfg _ h1 k hk e1,
        endStep_proj_other cfg c h k hk e0, b2, b3, a2, a3]
      have : (k + 3 - c.frame) % 3 = 2 := by rw [a1] at e1; omega
      rw [this]
      congr 1
      push_cast; ring

theorem processEnd_isRev (cfg : Cfg) (c : Core) : (processEnd cfg c).isRev = c.isRev := by
  rw [processEnd_eq, (endStep_fields cfg _).2.1, (endStep_fields cfg _).2.1, (endStep_fields cfg _).2.1]

/-! ## ORFs already in the output block are carried along -/

theorem fstep_append (aa : Alphabet) (cfg : Cfg) (dir : Int) (p : FrameSt) (r r0 : List Rec) (it : Item) :
    fstep aa cfg dir (p, r ++ r0) it = ((fstep aa cfg dir (p, r) it).1, (fstep aa cfg dir (p, r) it).2 ++ r0) := by
  unfold fstep
  simp only [apply_ite (fun l => l ++ r0), List.cons_append]

theorem foldl_fstep_append (aa : Alphabet) (cfg : Cfg) (dir : Int) (items : List Item) (p : FrameSt) (r r0 : List Rec) :
    items.foldl (fstep aa cfg dir) (p, r ++ r0) =
      ((items.foldl (fstep aa cfg dir) (p, r)).1, (items.foldl (fstep aa cfg dir) (p, r)).2 ++ r0) := by
  induction items generalizing p r with
  | nil => rfl
  | cons it rest ih =>
    rw [List.foldl_cons, fstep_append, ih, List.foldl_cons]

theorem fflush_append (cfg : Cfg) (p : FrameSt) (r r0 : List Rec) (e : Int) :
    fflush cfg (p, r ++ r0) e = fflush cfg (p, r) e ++ r0 := by
  unfold fflush
  simp only []
  split <;> simp

theorem fflush_congr (cfg : Cfg) (s : FrameSt × List Rec) (r : List Rec) (e1 e2 : Int) (h : e1 = e2) :
    fflush cfg s e1 ++ r = fflush cfg s e2 ++ r := by rw [h]

theorem processStart_core (nt : Alphabet) (w : Work) (isRev : Bool) (L : Int) (d1 d2 : Nat) :
    (processStart nt w isRev L d1 d2).c =
      { orfcount := w.c.orfcount, out := w.c.out, isRev := isRev, apos := if isRev then L else 1 } := by
  unfold processStart
  by_cases h1 : nt.xIsCanonical d1 = true <;> by_cases h2 : nt.xIsCanonical d2 = true <;> simp [h1, h2]

/-- **streaming machine = per-frame ORF finders**, for every valid DNA sequence, every window split, both strands,
    every minimum length and initiator option; `w0` may already hold ORFs of earlier strands / sequences -/
theorem runStrand_spec (nt aa : Alphabet) (g : Gencode) (cfg : Cfg) (hn : NtOK nt) (hg : CodeOK g) (w0 : Work)
    (isRev : Bool) (d : List Nat) (hv : ∀ x ∈ d, x < nt.Kp) (k : Nat) (ks : List Nat) (hk : 2 ≤ k)
    (hs : (k :: ks).sum = d.length) :
    ∃ w', runStrand nt aa g cfg w0 isRev d (k :: ks) = some w' ∧
      ∀ f, f < 3 → recsOf w'.c.out (f + 1 + labelOff isRev) =
        frameOrfs nt aa g cfg (dirOf isRev) (if isRev then (d.length : Int) else 1) d f ++
          recsOf w0.c.out (f + 1 + labelOff isRev) := by
  rw [runStrand_split nt aa g cfg w0 isRev d k ks hk hs]
  have hinv := processStart_inv nt hn w0 isRev d.length (d.getD 0 0) (d.getD 1 0)
  obtain ⟨w1, h1, h2⟩ := processPiece_eager nt aa g cfg hn hg d _ hv hinv
  have hcore := processStart_core nt w0 isRev d.length (d.getD 0 0) (d.getD 1 0)
  refine ⟨{ w1 with c := processEnd cfg w1.c }, ?_, fun f hf => ?_⟩
  · unfold runStrand
    have hw : windows [] d [d.length] = [d] := by simp [windows]
    rw [hw]
    simp only [List.foldlM_cons, List.foldlM_nil, h1, Option.bind_eq_bind, Option.bind_some]
    rfl
  · obtain ⟨c0, hc0⟩ : ∃ c0 : Core, c0 = { orfcount := w0.c.orfcount, out := w0.c.out, isRev := isRev, apos := if isRev then (d.length : Int) else 1 } := ⟨_, rfl⟩
    rw [hcore, ← hc0] at h2
    have f0 : c0.frame = 0 := by rw [hc0]
    have a0 : c0.apos = if isRev then (d.length : Int) else 1 := by rw [hc0]
    have r0 : c0.isRev = isRev := by rw [hc0]
    have o0 : c0.out = w0.c.out := by rw [hc0]
    have hf0 : c0.frame < 3 := by rw [f0]; omega
    obtain ⟨q1, q2, q3⟩ := coreRun_pos nt aa g cfg d c0 hf0
    have hfr : (coreRun nt aa g cfg c0 d).frame < 3 := by rw [q1]; omega
    have hproj := processEnd_proj cfg (coreRun nt aa g cfg c0 d) hfr f hf
    have hrev : (processEnd cfg (coreRun nt aa g cfg c0 d)).isRev = isRev := by
      rw [processEnd_isRev, q2, r0]
    show recsOf (processEnd cfg w1.c).out _ = _
    rw [h2]
    have hl : recsOf (processEnd cfg (coreRun nt aa g cfg c0 d)).out (f + 1 + labelOff isRev) =
        (proj (processEnd cfg (coreRun nt aa g cfg c0 d)) f).2 := by
      unfold proj; rw [hrev]
    have hp0 : proj c0 f = ({}, [] ++ recsOf w0.c.out (f + 1 + labelOff isRev)) := by
      unfold proj fK
      rw [r0, o0, hc0]
      by_cases e0 : f = 0 <;> by_cases e1 : f = 1 <;> simp [e0, e1]
    rw [hl, hproj, coreRun_proj nt aa g cfg d c0 hf0 f hf, q1, q2, q3, hp0, foldl_fstep_append, fflush_append, f0, a0, r0]
    unfold frameOrfs
    simp only [Nat.zero_add]
    apply fflush_congr
    push_cast
    ring

end EaselModel.Gencode
