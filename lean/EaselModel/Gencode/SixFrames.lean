import EaselModel.Gencode.WholeLemmas
import EaselModel.Gencode.OrfLemmas3
/-! # C17 — six-frame translation of a whole sequence: what each strand adds to each of the six frame labels -/
namespace EaselModel.Gencode
open EaselModel.Alphabet

/-- a machine step adds records only under the label of the frame it is in -/
theorem cstep_recs_other (aa : Alphabet) (cfg : Cfg) (c : Core) (res0 : Nat) (ini : Bool) (h : c.frame < 3) (lbl : Nat)
    (hl : lbl ≠ c.frame + 1 + labelOff c.isRev) : recsOf (cstep aa cfg c res0 ini).out lbl = recsOf c.out lbl := by
  have hne' : ¬ (c.frame + 1 + labelOff c.isRev = lbl) := fun e => hl e.symm
  unfold cstep finishStep
  simp only [processOrf_eq, getF_fK c h, emits, orfRec]
  cases hin : (fK c c.frame).inOrf <;> cases ini <;> cases hu : cfg.usingInit <;>
    cases hs0 : aa.xIsNonresidue res0 <;> cases hsm : aa.xIsNonresidue (aa.inmapAt 77) <;>
    by_cases hm : cfg.minlen ≤ ((fK c c.frame).rev.length : Int) <;>
    simp [hin, hu, hs0, hsm, hm, fK_setF, h, hne', getF_fK, recsOf_cons]

theorem endStep_recs_other (cfg : Cfg) (c : Core) (h : c.frame < 3) (lbl : Nat)
    (hl : lbl ≠ c.frame + 1 + labelOff c.isRev) : recsOf (endStep cfg c).out lbl = recsOf c.out lbl := by
  have hne' : ¬ (c.frame + 1 + labelOff c.isRev = lbl) := fun e => hl e.symm
  unfold endStep
  simp only [processOrf_eq, getF_fK c h, emits, orfRec]
  cases hin : (fK c c.frame).inOrf <;>
    by_cases hm : cfg.minlen ≤ ((fK c c.frame).rev.length : Int) <;>
    simp [hin, hm, hne', recsOf_cons]

/-- label `lbl` does not belong to the strand being read -/
def OtherLabel (isRev : Bool) (lbl : Nat) : Prop := ∀ k, k < 3 → lbl ≠ k + 1 + labelOff isRev

theorem coreRun_recs_other (nt aa : Alphabet) (g : Gencode) (cfg : Cfg) (lbl : Nat) :
    ∀ (d : List Nat) (c : Core), c.frame < 3 → OtherLabel c.isRev lbl →
      recsOf (coreRun nt aa g cfg c d).out lbl = recsOf c.out lbl := by
  intro d
  induction d with
  | nil => intro c _ _; rfl
  | cons a t ih =>
    intro c hf ho
    match t, ih with
    | [], _ => rfl
    | [b], _ => rfl
    | b :: c' :: rest, ih =>
      obtain ⟨e1, e2, _⟩ := cstep_frame aa cfg c (codonAa nt aa g a b c') (specInitiator nt g a b c')
      simp only [coreRun]
      rw [ih _ (by rw [e1]; omega) (by rw [e2]; exact ho)]
      exact cstep_recs_other aa cfg c _ _ hf lbl (ho c.frame hf)

theorem processEnd_recs_other (cfg : Cfg) (c : Core) (hf : c.frame < 3) (lbl : Nat) (ho : OtherLabel c.isRev lbl) :
    recsOf (processEnd cfg c).out lbl = recsOf c.out lbl := by
  rw [processEnd_eq]
  obtain ⟨a1, a2, _⟩ := endStep_fields cfg c
  obtain ⟨b1, b2, _⟩ := endStep_fields cfg (endStep cfg c)
  have h1 : (endStep cfg c).frame < 3 := by rw [a1]; omega
  have h2 : (endStep cfg (endStep cfg c)).frame < 3 := by rw [b1]; omega
  rw [endStep_recs_other cfg _ h2 lbl (by rw [b2, a2]; exact ho _ h2),
    endStep_recs_other cfg _ h1 lbl (by rw [a2]; exact ho _ h1),
    endStep_recs_other cfg c hf lbl (ho _ hf)]

/-! ## the machine is idle between strands -/

/-- no frame is inside an ORF (the state `WorkstateCreate` makes and every `ProcessEnd` leaves) -/
def Idle (c : Core) : Prop := c.f0.inOrf = false ∧ c.f1.inOrf = false ∧ c.f2.inOrf = false

theorem endStep_idle (cfg : Cfg) (c : Core) (h : c.frame < 3) (hi : Idle c) :
    (endStep cfg c).out = c.out ∧ (endStep cfg c).orfcount = c.orfcount ∧ Idle (endStep cfg c) := by
  obtain ⟨i0, i1, i2⟩ := hi
  have hin : (fK c c.frame).inOrf = false := by
    unfold fK
    by_cases h0 : c.frame = 0
    · simp [h0, i0]
    · by_cases h1 : c.frame = 1
      · simp [h1, i1]
      · simp [h0, h1, i2]
  unfold endStep Idle
  simp only [processOrf_eq, getF_fK c h, emits, hin]
  have e0 : c.frame = 0 ∨ c.frame = 1 ∨ c.frame = 2 := by omega
  rcases e0 with e | e | e <;> simp [Core.setF, e, i0, i1, i2]

theorem processEnd_idle (cfg : Cfg) (c : Core) (h : c.frame < 3) (hi : Idle c) :
    (processEnd cfg c).out = c.out ∧ (processEnd cfg c).orfcount = c.orfcount ∧ Idle (processEnd cfg c) ∧
    (processEnd cfg c).frame < 3 := by
  rw [processEnd_eq]
  obtain ⟨a1, _, _⟩ := endStep_fields cfg c
  obtain ⟨b1, _, _⟩ := endStep_fields cfg (endStep cfg c)
  obtain ⟨c1, _, _⟩ := endStep_fields cfg (endStep cfg (endStep cfg c))
  have h1 : (endStep cfg c).frame < 3 := by rw [a1]; omega
  have h2 : (endStep cfg (endStep cfg c)).frame < 3 := by rw [b1]; omega
  obtain ⟨p1, p2, p3⟩ := endStep_idle cfg c h hi
  obtain ⟨q1, q2, q3⟩ := endStep_idle cfg _ h1 p3
  obtain ⟨r1, r2, r3⟩ := endStep_idle cfg _ h2 q3
  exact ⟨by rw [r1, q1, p1], by rw [r2, q2, p2], r3, by rw [c1]; omega⟩

theorem endStep_fK (cfg : Cfg) (c : Core) (h : c.frame < 3) (k : Nat) (hk : k < 3) :
    fK (endStep cfg c) k = if k = c.frame then {} else fK c k := by
  unfold endStep
  simp only [processOrf_eq]
  by_cases he : emits cfg c = true <;> simp [he, fK_setF, h, hk, fK_adv, fK_fields]

theorem idle_iff (c : Core) : Idle c ↔ ∀ k, k < 3 → (fK c k).inOrf = false := by
  unfold Idle fK
  constructor
  · rintro ⟨a, b, c'⟩ k hk
    have : k = 0 ∨ k = 1 ∨ k = 2 := by omega
    rcases this with e | e | e <;> simp [e, a, b, c']
  · intro h
    exact ⟨by simpa using h 0 (by omega), by simpa using h 1 (by omega), by simpa using h 2 (by omega)⟩

/-- `ProcessEnd` leaves the machine idle, whatever it was doing -/
theorem processEnd_makes_idle (cfg : Cfg) (c : Core) (h : c.frame < 3) : Idle (processEnd cfg c) := by
  rw [processEnd_eq, idle_iff]
  intro k hk
  obtain ⟨a1, _, _⟩ := endStep_fields cfg c
  obtain ⟨b1, _, _⟩ := endStep_fields cfg (endStep cfg c)
  have h1 : (endStep cfg c).frame < 3 := by rw [a1]; omega
  have h2 : (endStep cfg (endStep cfg c)).frame < 3 := by rw [b1]; omega
  rw [endStep_fK cfg _ h2 k hk, endStep_fK cfg _ h1 k hk, endStep_fK cfg c h k hk, b1, a1]
  obtain ⟨f, hf⟩ : ∃ f, f = c.frame := ⟨_, rfl⟩
  rw [← hf] at h ⊢
  have hf3 : f = 0 ∨ f = 1 ∨ f = 2 := by omega
  have hk3 : k = 0 ∨ k = 1 ∨ k = 2 := by omega
  rcases hf3 with rfl | rfl | rfl <;> rcases hk3 with rfl | rfl | rfl <;> simp

/-- a sequence shorter than a codon changes nothing in either main loop: `do_by_sequences` skips it; in `do_by_windows` the
    `ProcessEnd` calls at `eslEOD` run on an idle machine and emit nothing -/
theorem short_sequence_noop (nt aa : Alphabet) (g : Gencode) (wc : Wcfg) (W : Nat) (w : Work) (d : List Nat) (hL : d.length < 3)
    (hf : w.c.frame < 3) (hi : Idle w.c) :
    bySequence nt aa g wc w d = some w ∧
    ∃ w', byWindows nt aa g wc W w d = some w' ∧ w'.c.out = w.c.out ∧ w'.c.orfcount = w.c.orfcount ∧ Idle w'.c ∧ w'.c.frame < 3 := by
  refine ⟨by unfold bySequence; rw [if_pos hL], ?_⟩
  unfold byWindows
  rw [if_pos hL]
  obtain ⟨p1, p2, p3, p4⟩ := processEnd_idle wc.cfg w.c hf hi
  obtain ⟨q1, q2, q3, q4⟩ := processEnd_idle wc.cfg _ p4 p3
  refine ⟨_, rfl, ?_⟩
  cases wc.doWatson <;> cases wc.doCrick <;> simp [hi, hf, p1, p2, p3, p4, q1, q2, q3, q4]

/-! ## one strand: what it leaves under the other strand's labels, and the machine is idle afterwards -/

theorem runStrand_other (nt aa : Alphabet) (g : Gencode) (cfg : Cfg) (hn : NtOK nt) (hg : CodeOK g) (w0 : Work)
    (isRev : Bool) (d : List Nat) (hv : ∀ x ∈ d, x < nt.Kp) :
    ∃ w', runStrand nt aa g cfg w0 isRev d [d.length] = some w' ∧
      (∀ lbl, OtherLabel isRev lbl → recsOf w'.c.out lbl = recsOf w0.c.out lbl) ∧ Idle w'.c ∧ w'.c.frame < 3 := by
  have hinv := processStart_inv nt hn w0 isRev d.length (d.getD 0 0) (d.getD 1 0)
  obtain ⟨w1, h1, h2⟩ := processPiece_eager nt aa g cfg hn hg d _ hv hinv
  have hcore := processStart_core nt w0 isRev d.length (d.getD 0 0) (d.getD 1 0)
  obtain ⟨c0, hc0⟩ : ∃ c0 : Core, c0 = { orfcount := w0.c.orfcount, out := w0.c.out, isRev := isRev, apos := if isRev then (d.length : Int) else 1 } := ⟨_, rfl⟩
  rw [hcore, ← hc0] at h2
  have f0 : c0.frame < 3 := by rw [hc0]; show 0 < 3; omega
  have r0 : c0.isRev = isRev := by rw [hc0]
  have o0 : c0.out = w0.c.out := by rw [hc0]
  obtain ⟨q1, q2, _⟩ := coreRun_pos nt aa g cfg d c0 f0
  have hfr : (coreRun nt aa g cfg c0 d).frame < 3 := by rw [q1]; exact Nat.mod_lt _ (by omega)
  refine ⟨{ w1 with c := processEnd cfg w1.c }, ?_, fun lbl ho => ?_, ?_, ?_⟩
  · unfold runStrand
    have hw : windows [] d [d.length] = [d] := by simp [windows]
    rw [hw]
    simp only [List.foldlM_cons, List.foldlM_nil, h1, Option.bind_eq_bind, Option.bind_some]
    rfl
  · show recsOf (processEnd cfg w1.c).out lbl = _
    rw [h2, processEnd_recs_other cfg _ hfr lbl (by rw [q2, r0]; exact ho),
      coreRun_recs_other nt aa g cfg lbl d c0 f0 (by rw [r0]; exact ho), o0]
  · show Idle (processEnd cfg w1.c)
    rw [h2]
    exact processEnd_makes_idle cfg _ hfr
  · show (processEnd cfg w1.c).frame < 3
    rw [h2, processEnd_eq, (endStep_fields cfg _).1]
    exact Nat.mod_lt _ (by omega)

/-! ## six-frame translation of one sequence under every option combination -/

theorem revcomp_valid (nt : Alphabet) (hc : ∀ x, x < nt.Kp → (nt.complement.getD []).getD x 255 < nt.Kp) (d : List Nat)
    (hv : ∀ x ∈ d, x < nt.Kp) : ∀ x ∈ revcomp nt d, x < nt.Kp := by
  intro x hx
  unfold revcomp at hx
  obtain ⟨y, hy, rfl⟩ := List.mem_map.mp hx
  exact hc y (hv y (List.mem_reverse.mp hy))

/-- what one strand adds: its three frames get the finder's ORFs, every other label is untouched -/
theorem strand_step (nt aa : Alphabet) (g : Gencode) (cfg : Cfg) (hn : NtOK nt) (hg : CodeOK g) (w0 : Work)
    (isRev : Bool) (d : List Nat) (hv : ∀ x ∈ d, x < nt.Kp) (hL : 2 ≤ d.length) (on : Bool) :
    ∃ w', (if on = true then runStrand nt aa g cfg w0 isRev d [d.length] else some w0) = some w' ∧
      (∀ f, f < 3 → recsOf w'.c.out (f + 1 + labelOff isRev) =
        (if on = true then frameOrfs nt aa g cfg (dirOf isRev) (if isRev then (d.length : Int) else 1) d f else []) ++
          recsOf w0.c.out (f + 1 + labelOff isRev)) ∧
      (∀ lbl, OtherLabel isRev lbl → recsOf w'.c.out lbl = recsOf w0.c.out lbl) := by
  cases on
  · exact ⟨w0, rfl, fun f _ => by simp, fun _ _ => rfl⟩
  · obtain ⟨w1, e1, s1⟩ := runStrand_spec nt aa g cfg hn hg w0 isRev d hv d.length [] hL (by simp)
    obtain ⟨w2, e2, s2, _, _⟩ := runStrand_other nt aa g cfg hn hg w0 isRev d hv
    have : w1 = w2 := by rw [e1] at e2; exact Option.some.inj e2
    subst this
    exact ⟨w1, by simpa using e1, fun f hf => by simpa using s1 f hf, s2⟩

/-- **six-frame translation of a whole sequence** (`do_by_sequences`), for every option combination -/
theorem bySequence_spec (nt aa : Alphabet) (g : Gencode) (o : Opts) (hn : NtOK nt) (hg : CodeOK g)
    (hc : ∀ x, x < nt.Kp → (nt.complement.getD []).getD x 255 < nt.Kp) (w0 : Work) (d : List Nat)
    (hv : ∀ x ∈ d, x < nt.Kp) (hL : 3 ≤ d.length) :
    ∃ w', bySequence nt aa g (workstateCreate o) w0 d = some w' ∧
      (∀ f, f < 3 → recsOf w'.c.out (f + 1) =
        (if o.crick = true then [] else frameOrfs nt aa g (workstateCreate o).cfg 1 1 d f) ++ recsOf w0.c.out (f + 1)) ∧
      (∀ f, f < 3 → recsOf w'.c.out (f + 4) =
        (if o.watson = true then [] else frameOrfs nt aa g (workstateCreate o).cfg (-1) (d.length : Int) (revcomp nt d) f) ++
          recsOf w0.c.out (f + 4)) ∧
      (∀ lbl, (lbl = 0 ∨ 7 ≤ lbl) → recsOf w'.c.out lbl = recsOf w0.c.out lbl) := by
  have hlt : ¬ d.length < 3 := by omega
  obtain ⟨w1, e1, a1, b1⟩ := strand_step nt aa g (workstateCreate o).cfg hn hg w0 false d hv (by omega) (workstateCreate o).doWatson
  have hvr := revcomp_valid nt hc d hv
  obtain ⟨w2, e2, a2, b2⟩ := strand_step nt aa g (workstateCreate o).cfg hn hg w1 true (revcomp nt d) hvr
    (by rw [revcomp_length]; omega) (workstateCreate o).doCrick
  rw [revcomp_length] at e2 a2
  refine ⟨w2, ?_, fun f hf => ?_, fun f hf => ?_, fun lbl hl => ?_⟩
  · unfold bySequence
    rw [if_neg hlt]
    cases hW : (workstateCreate o).doWatson <;> cases hC : (workstateCreate o).doCrick <;>
      simp only [hW, hC, Bool.false_eq_true, ↓reduceIte, Option.some.injEq] at e1 e2 <;>
      simp [e1, e2]
  · have o1 : OtherLabel true (f + 1) := fun k hk => by simp [labelOff]; omega
    rw [b2 _ o1]
    have := a1 f hf
    simp only [labelOff, dirOf, Bool.false_eq_true, ↓reduceIte, Nat.add_zero] at this
    rw [this]
    unfold workstateCreate
    cases o.crick <;> simp
  · have o1 : OtherLabel false (f + 4) := fun k hk => by simp [labelOff]; omega
    have := a2 f hf
    simp only [labelOff, dirOf, ↓reduceIte] at this
    have e34 : f + 1 + 3 = f + 4 := by omega
    rw [e34] at this
    rw [this, b1 _ o1]
    unfold workstateCreate
    cases o.watson <;> simp
  · have o1 : OtherLabel true lbl := fun k hk => by simp [labelOff]; omega
    have o2 : OtherLabel false lbl := fun k hk => by simp [labelOff]; omega
    rw [b2 _ o1, b1 _ o2]

end EaselModel.Gencode
