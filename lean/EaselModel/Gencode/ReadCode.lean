import EaselModel.Gencode.Model
/-! # C17 — what `esl_gencode_Read` accepts is a genetic-code table: every one of the 64 entries has been assigned by a column
of the file, to an amino acid or the stop code; initiator flags are 0 / 1 -/
namespace EaselModel.Gencode
open EaselModel.Alphabet

theorem getD_set (l : List Nat) (i j v d : Nat) :
    (l.set i v).getD j d = if i = j ∧ i < l.length then v else l.getD j d := by
  simp only [List.getD_eq_getElem?_getD, List.getElem?_set]
  by_cases h : i = j
  · subst h
    by_cases hl : i < l.length
    · simp [hl]
    · simp [hl, List.getElem?_eq_none (Nat.le_of_not_lt hl)]
  · simp [h]

theorem getD_zero_of_all_zero (l : List Nat) (h : ∀ x ∈ l, x = 0) (c : Nat) : l.getD c 0 = 0 := by
  rw [List.getD_eq_getElem?_getD]
  cases hc : l[c]? with
  | none => rfl
  | some v => exact h v (List.mem_of_getElem? hc)

/-- a codon that some column has assigned holds an amino acid (`< K`) or the stop code (`Kp − 2`), and a 0/1 initiator flag -/
def ColInv (aa : Alphabet) (basic ini cseen : List Nat) : Prop :=
  basic.length = 64 ∧ ini.length = 64 ∧ cseen.length = 64 ∧
  ∀ c, 0 < cseen.getD c 0 → (basic.getD c 99 < aa.K ∨ basic.getD c 99 + 2 = aa.Kp) ∧ ini.getD c 9 ≤ 1

theorem readColumns_inv (nt aa : Alphabet) (aas mline b1 b2 b3 : List Nat) :
    ∀ (k : Nat) (basic ini cseen aseen : List Nat) (stops : Nat) (r : List Nat × List Nat × List Nat × List Nat × Nat),
      ColInv aa basic ini cseen → readColumns nt aa aas mline b1 b2 b3 k basic ini cseen aseen stops = some r →
      ColInv aa r.1 r.2.1 r.2.2.1
  | 0, basic, ini, cseen, aseen, stops, r, hi, h => by
    simp only [readColumns, Option.some.injEq] at h; subst h; exact hi
  | k+1, basic, ini, cseen, aseen, stops, r, hi, h => by
    simp only [readColumns] at h
    split at h
    · cases h
    · split at h
      · cases h
      · split at h
        · cases h
        · split at h
          · cases h
          · split at h
            · cases h
            · rename_i c0 c1 c2 c3 c4
              simp only [Bool.or_eq_true, Bool.not_eq_eq_eq_not, Bool.not_true, decide_eq_false_iff_not, not_or,
                Classical.not_not, decide_eq_true_eq, Bool.not_eq_true, Bool.or_eq_false_iff, Bool.decide_eq_false] at c0
              obtain ⟨l1, l2, l3, hv⟩ := hi
              refine readColumns_inv nt aa aas mline b1 b2 b3 k _ _ _ _ _ r ?_ h
              refine ⟨by simp only [List.length_set, l1], by simp only [List.length_set, l2], by simp only [List.length_set, l3], ?_⟩
              intro c hc
              rw [getD_set] at hc
              rw [getD_set, getD_set]
              by_cases hcc : (16 * nt.inmapAt (b1.getD (64 - (k+1)) 0) + 4 * nt.inmapAt (b2.getD (64 - (k+1)) 0) +
                  nt.inmapAt (b3.getD (64 - (k+1)) 0)) = c
              · by_cases hlt : c < 64
                · subst hcc
                  simp only [true_and, l1, l2, hlt, ↓reduceIte]
                  refine ⟨?_, by split <;> omega⟩
                  by_cases qa : aa.inmapAt (aas.getD (64 - (k+1)) 0) < aa.K
                  · exact Or.inl qa
                  · by_cases qb : aa.inmapAt (aas.getD (64 - (k+1)) 0) + 2 = aa.Kp
                    · exact Or.inr qb
                    · exact absurd ⟨qa, qb⟩ (fun hh => c0.2 hh)
                · subst hcc
                  simp only [true_and, l1, l2, l3, hlt, ↓reduceIte] at hc ⊢
                  exact hv _ hc
              · simp only [hcc, false_and, ↓reduceIte] at hc ⊢
                exact hv c hc

/-- EVERY TABLE `esl_gencode_Read` ACCEPTS IS A GENETIC-CODE TABLE, for any bytes of the file and whatever the new object was
    initialised with: 64 + 64 entries, every translation an amino acid (`< K`) or the stop code, every initiator flag 0 or 1,
    id −1 and an empty description (nothing of the initial table 1 survives: every codon was assigned by a column) -/
theorem read_ok_is_code (nt aa : Alphabet) (init : Gencode) (h1 : init.basic.length = 64) (h2 : init.isInit.length = 64)
    (buf : List Nat) (g : Gencode) (h : read nt aa init buf = some g) :
    g.basic.length = 64 ∧ g.isInit.length = 64 ∧ g.translTable = -1 ∧ g.desc = "" ∧
    ∀ c, c < 64 → (g.basic.getD c 99 < aa.K ∨ g.basic.getD c 99 + 2 = aa.Kp) ∧ g.isInit.getD c 9 ≤ 1 := by
  simp [read, Option.bind_eq_some_iff] at h
  obtain ⟨l0, -, s0, aas, -, -, l1, -, s1, ml, -, -, -, l2, -, s2, b1, -, -, -, l3, -, s3, b2, -, -, -, l4, -, s4, b3, -, -, -, hrest⟩ := h
  obtain ⟨a, a1, a2, a3, b, hrc, -, hz, -, rfl⟩ := hrest
  have hinit : ColInv aa init.basic init.isInit
      [0, 0, 0, 0, 0, 0, 0, 0, 0, 0, 0, 0, 0, 0, 0, 0, 0, 0, 0, 0, 0, 0, 0, 0, 0, 0, 0, 0, 0, 0, 0, 0, 0, 0, 0, 0, 0, 0, 0, 0, 0, 0, 0, 0, 0,
       0, 0, 0, 0, 0, 0, 0, 0, 0, 0, 0, 0, 0, 0, 0, 0, 0, 0, 0] := by
    refine ⟨h1, h2, rfl, fun c hc => ?_⟩
    exfalso
    have hall : ∀ x ∈ ([0, 0, 0, 0, 0, 0, 0, 0, 0, 0, 0, 0, 0, 0, 0, 0, 0, 0, 0, 0, 0, 0, 0, 0, 0, 0, 0, 0, 0, 0, 0, 0, 0, 0, 0, 0, 0, 0, 0, 0,
        0, 0, 0, 0, 0, 0, 0, 0, 0, 0, 0, 0, 0, 0, 0, 0, 0, 0, 0, 0, 0, 0, 0, 0] : List Nat), x = 0 := by decide
    exact absurd hc (by rw [getD_zero_of_all_zero _ hall c]; omega)
  obtain ⟨e1, e2, e3, e4⟩ := readColumns_inv nt aa aas ml b1 b2 b3 64 _ _ _ _ _ _ hinit hrc
  refine ⟨e1, e2, rfl, rfl, fun c hc => e4 c ?_⟩
  have hl : c < a2.length := by rw [e3]; exact hc
  rw [List.getD_eq_getElem?_getD, List.getElem?_eq_getElem hl]
  have : a2[c] ≠ 0 := fun h0 => hz (h0 ▸ List.getElem_mem hl)
  simp only [Option.getD_some]; omega

end EaselModel.Gencode
