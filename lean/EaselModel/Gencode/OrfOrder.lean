import EaselModel.Gencode.OrfLemmas3
/-! # C17 — numbering and order of the emitted ORF records -/
namespace EaselModel.Gencode
open EaselModel.Alphabet

/-- number and end coordinate of a record -/
def numStop (o : Orf) : Nat × Int := (o.num, o.stop)

/-- newest-first list of (number, end coordinate): numbers are `n0 + 1, n0 + 2, …` in emission order and the end
    coordinates advance strictly in reading direction (`s * dir` strictly increasing with emission), the newest being
    at most `ub` -/
def Chain (dir : Int) (n0 : Nat) : Int → List (Nat × Int) → Prop
  | _, [] => True
  | ub, (n, s) :: rest => n = n0 + rest.length + 1 ∧ s * dir ≤ ub ∧ Chain dir n0 (s * dir - 1) rest

theorem Chain.mono (dir : Int) (n0 : Nat) (l : List (Nat × Int)) (ub ub' : Int) (h : Chain dir n0 ub l) (hle : ub ≤ ub') :
    Chain dir n0 ub' l := by
  cases l with
  | nil => trivial
  | cons p rest =>
    obtain ⟨n, s⟩ := p
    exact ⟨h.1, by have := h.2.1; omega, h.2.2⟩

/-- what one machine step does to the output block and the ORF counter: nothing, or one new record numbered
    `orfcount + 1` whose end coordinate is one step behind the current position -/
theorem cstep_out (aa : Alphabet) (cfg : Cfg) (c : Core) (res0 : Nat) (ini : Bool) (h : c.frame < 3) :
    ((cstep aa cfg c res0 ini).orfcount = c.orfcount ∧
      (cstep aa cfg c res0 ini).out.map numStop = c.out.map numStop) ∨
    ((cstep aa cfg c res0 ini).orfcount = c.orfcount + 1 ∧
      (cstep aa cfg c res0 ini).out.map numStop = (c.orfcount + 1, c.apos - dirOf c.isRev) :: c.out.map numStop) := by
  unfold cstep finishStep
  simp only [processOrf_eq, getF_fK c h, emits, orfRec]
  cases hin : (fK c c.frame).inOrf <;> cases ini <;> cases hu : cfg.usingInit <;>
    cases hs0 : aa.xIsNonresidue res0 <;> cases hsm : aa.xIsNonresidue (aa.inmapAt 77) <;>
    by_cases hm : cfg.minlen ≤ ((fK c c.frame).rev.length : Int) <;>
    simp [hin, hu, hs0, hsm, hm, fK_setF, h, getF_fK, numStop]

theorem endStep_out (cfg : Cfg) (c : Core) (h : c.frame < 3) :
    ((endStep cfg c).orfcount = c.orfcount ∧ (endStep cfg c).out.map numStop = c.out.map numStop) ∨
    ((endStep cfg c).orfcount = c.orfcount + 1 ∧
      (endStep cfg c).out.map numStop = (c.orfcount + 1, c.apos - dirOf c.isRev) :: c.out.map numStop) := by
  unfold endStep
  simp only [processOrf_eq, getF_fK c h, emits, orfRec]
  cases hin : (fK c c.frame).inOrf <;>
    by_cases hm : cfg.minlen ≤ ((fK c c.frame).rev.length : Int) <;>
    simp [hin, hm, numStop]

/-- the invariant: the records added since the start form a chain, all at least two steps behind the position -/
def OrderInv (n0 : Nat) (old : List (Nat × Int)) (c : Core) : Prop :=
  ∃ news, c.out.map numStop = news ++ old ∧ c.orfcount = n0 + news.length ∧
    Chain (dirOf c.isRev) n0 (c.apos * dirOf c.isRev - 2) news

theorem dir_sq (b : Bool) : dirOf b * dirOf b = 1 := by cases b <;> simp [dirOf]

theorem orderInv_step (n0 : Nat) (old : List (Nat × Int)) (c c' : Core) (hinv : OrderInv n0 old c)
    (hrev : c'.isRev = c.isRev) (hpos : c'.apos = c.apos + dirOf c.isRev)
    (hout : (c'.orfcount = c.orfcount ∧ c'.out.map numStop = c.out.map numStop) ∨
      (c'.orfcount = c.orfcount + 1 ∧
        c'.out.map numStop = (c.orfcount + 1, c.apos - dirOf c.isRev) :: c.out.map numStop)) :
    OrderInv n0 old c' := by
  obtain ⟨news, h1, h2, h3⟩ := hinv
  have hd := dir_sq c.isRev
  rcases hout with ⟨o1, o2⟩ | ⟨o1, o2⟩
  · refine ⟨news, by rw [o2, h1], by rw [o1, h2], ?_⟩
    rw [hrev, hpos]
    apply Chain.mono _ _ _ _ _ h3
    have : (c.apos + dirOf c.isRev) * dirOf c.isRev = c.apos * dirOf c.isRev + 1 := by
      rw [Int.add_mul, hd]
    omega
  · refine ⟨(c.orfcount + 1, c.apos - dirOf c.isRev) :: news, by rw [o2, h1]; rfl, by rw [o1, h2]; simp; omega, ?_⟩
    rw [hrev, hpos]
    have e1 : (c.apos + dirOf c.isRev) * dirOf c.isRev = c.apos * dirOf c.isRev + 1 := by
      rw [Int.add_mul, hd]
    have e2 : (c.apos - dirOf c.isRev) * dirOf c.isRev = c.apos * dirOf c.isRev - 1 := by
      rw [Int.sub_mul, hd]
    refine ⟨by rw [h2], by omega, ?_⟩
    rw [e2]
    have : c.apos * dirOf c.isRev - 1 - 1 = c.apos * dirOf c.isRev - 2 := by omega
    rw [this]; exact h3

theorem coreRun_order (nt aa : Alphabet) (g : Gencode) (cfg : Cfg) (n0 : Nat) (old : List (Nat × Int)) :
    ∀ (d : List Nat) (c : Core), c.frame < 3 → OrderInv n0 old c → OrderInv n0 old (coreRun nt aa g cfg c d) := by
  intro d
  induction d with
  | nil => intro c _ h; exact h
  | cons a t ih =>
    intro c hf hinv
    match t, ih with
    | [], _ => exact hinv
    | [b], _ => exact hinv
    | b :: c' :: rest, ih =>
      obtain ⟨e1, e2, e3⟩ := cstep_frame aa cfg c (codonAa nt aa g a b c') (specInitiator nt g a b c')
      exact ih _ (by rw [e1]; omega)
        (orderInv_step n0 old c _ hinv e2 e3 (cstep_out aa cfg c _ _ hf))

theorem processEnd_order (cfg : Cfg) (n0 : Nat) (old : List (Nat × Int)) (c : Core) (hf : c.frame < 3)
    (hinv : OrderInv n0 old c) : OrderInv n0 old (processEnd cfg c) := by
  rw [processEnd_eq]
  obtain ⟨a1, a2, a3⟩ := endStep_fields cfg c
  obtain ⟨b1, b2, b3⟩ := endStep_fields cfg (endStep cfg c)
  obtain ⟨c1, c2, c3⟩ := endStep_fields cfg (endStep cfg (endStep cfg c))
  have h1 : (endStep cfg c).frame < 3 := by rw [a1]; omega
  have h2 : (endStep cfg (endStep cfg c)).frame < 3 := by rw [b1]; omega
  have i1 := orderInv_step n0 old c _ hinv a2 a3 (endStep_out cfg c hf)
  have i2 := orderInv_step n0 old _ _ i1 b2 b3 (endStep_out cfg _ h1)
  exact orderInv_step n0 old _ _ i2 c2 c3 (endStep_out cfg _ h2)

/-- **numbering and order**: the records a strand adds to the output block are numbered consecutively from
    `orfcount + 1` in emission order, and their end coordinates advance strictly in reading direction (ascending on the
    top strand, descending on the reverse strand) — with `orf_stream_eq_spec` this fixes the output list completely:
    the per-frame lists merged by end coordinate -/
theorem runStrand_order (nt aa : Alphabet) (g : Gencode) (cfg : Cfg) (hn : NtOK nt) (hg : CodeOK g) (w0 : Work)
    (isRev : Bool) (d : List Nat) (hv : ∀ x ∈ d, x < nt.Kp) (k : Nat) (ks : List Nat) (hk : 2 ≤ k)
    (hs : (k :: ks).sum = d.length) :
    ∃ w' news, runStrand nt aa g cfg w0 isRev d (k :: ks) = some w' ∧
      w'.c.out.map numStop = news ++ w0.c.out.map numStop ∧ w'.c.orfcount = w0.c.orfcount + news.length ∧
      ∃ ub, Chain (dirOf isRev) w0.c.orfcount ub news := by
  rw [runStrand_split nt aa g cfg w0 isRev d k ks hk hs]
  have hinv := processStart_inv nt hn w0 isRev d.length (d.getD 0 0) (d.getD 1 0)
  obtain ⟨w1, h1, h2⟩ := processPiece_eager nt aa g cfg hn hg d _ hv hinv
  have hcore := processStart_core nt w0 isRev d.length (d.getD 0 0) (d.getD 1 0)
  obtain ⟨c0, hc0⟩ : ∃ c0 : Core, c0 = { orfcount := w0.c.orfcount, out := w0.c.out, isRev := isRev, apos := if isRev then (d.length : Int) else 1 } := ⟨_, rfl⟩
  rw [hcore, ← hc0] at h2
  have f0 : c0.frame < 3 := by rw [hc0]; show 0 < 3; omega
  have inv0 : OrderInv w0.c.orfcount (w0.c.out.map numStop) c0 :=
    ⟨[], by rw [hc0]; rfl, by rw [hc0]; rfl, trivial⟩
  have inv1 := coreRun_order nt aa g cfg _ _ d c0 f0 inv0
  obtain ⟨q1, q2, q3⟩ := coreRun_pos nt aa g cfg d c0 f0
  have inv2 := processEnd_order cfg _ _ _ (by rw [q1]; omega) inv1
  obtain ⟨news, n1, n2, n3⟩ := inv2
  refine ⟨{ w1 with c := processEnd cfg w1.c }, news, ?_, ?_, ?_, ?_⟩
  · unfold runStrand
    have hw : windows [] d [d.length] = [d] := by simp [windows]
    rw [hw]
    simp only [List.foldlM_cons, List.foldlM_nil, h1, Option.bind_eq_bind, Option.bind_some]
    rfl
  · show (processEnd cfg w1.c).out.map numStop = _
    rw [h2]; exact n1
  · show (processEnd cfg w1.c).orfcount = _
    rw [h2]; exact n2
  · have hr : (processEnd cfg (coreRun nt aa g cfg c0 d)).isRev = isRev := by
      rw [processEnd_isRev, q2, hc0]
    rw [hr] at n3
    exact ⟨_, n3⟩

end EaselModel.Gencode
