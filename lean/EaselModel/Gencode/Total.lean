import EaselModel.Gencode.Lemmas2
/-! # C17 — `esl_gencode_GetTranslation` / `esl_gencode_IsInitiator` on ANY three byte codes: exactly which inputs read outside
`degen[]`, and the result on every other input (codes ≥ Kp, gap, nonresidue, missing-data included) -/
namespace EaselModel.Gencode
open EaselModel.Alphabet

/-- the code stands for no canonical residue: its `degen[]` row has no flag set (gap `-`, nonresidue `*`, missing data `~`) -/
def rowEmpty (nt : Alphabet) (a : Nat) : Bool := (flags (nt.degen.getD a [])).isEmpty

theorem flags_nil_iff (row : List Nat) : flags row = [] ↔ ∀ x, x < 4 → row.getD x 0 = 0 := by
  unfold flags
  rw [List.filter_eq_nil_iff]
  constructor
  · intro h x hx
    have := h x (by simp; omega)
    simpa using this
  · intro h x hx
    simp at hx
    have := h x (by omega)
    simpa [List.getD_eq_getElem?_getD] using this

theorem loopY_noRow (body : Int → Nat → Option Acc) (nt : Alphabet) (b c x y : Nat) (ys : List Nat) (v : Int)
    (hB : nt.degen[b]? = none) : loopY body nt b c x (y :: ys) (.run v) = none := by
  simp [loopY, hB]

theorem loopY_skip (body : Int → Nat → Option Acc) (nt : Alphabet) (b c x : Nat) (rowB : List Nat)
    (hB : nt.degen[b]? = some rowB) (ys : List Nat) (hy : ∀ y ∈ ys, y < rowB.length ∧ rowB.getD y 0 = 0) (v : Int) :
    loopY body nt b c x ys (.run v) = some (.run v) := by
  induction ys with
  | nil => rfl
  | cons y ys ih =>
    obtain ⟨h1, h2⟩ := hy y (by simp)
    have e := getElem?_eq_some_getD0 rowB y h1
    simp only [loopY, hB, e, Option.bind_eq_bind, Option.bind_some, h2, if_true]
    exact ih (fun y' hy' => hy y' (by simp [hy']))

theorem loopY_noC (body : Int → Nat → Option Acc) (nt : Alphabet) (b c x : Nat) (rowB : List Nat)
    (hB : nt.degen[b]? = some rowB) (hC : nt.degen[c]? = none) (ys : List Nat) (hy : ∀ y ∈ ys, y < rowB.length)
    (hne : ∃ y ∈ ys, rowB.getD y 0 ≠ 0) (v : Int) : loopY body nt b c x ys (.run v) = none := by
  induction ys with
  | nil => obtain ⟨_, h, _⟩ := hne; cases h
  | cons y ys ih =>
    have e := getElem?_eq_some_getD0 rowB y (hy y (by simp))
    by_cases hf : rowB.getD y 0 = 0
    · simp only [loopY, hB, e, Option.bind_eq_bind, Option.bind_some, hf, if_true]
      apply ih (fun y' hy' => hy y' (by simp [hy']))
      obtain ⟨y', h1, h2⟩ := hne
      rcases List.mem_cons.mp h1 with rfl | h1
      · exact absurd hf h2
      · exact ⟨y', h1, h2⟩
    · simp only [loopY, hB, e, Option.bind_eq_bind, Option.bind_some, hf, if_false, hC]
      try rfl

theorem loopX_skip (body : Int → Nat → Option Acc) (nt : Alphabet) (a b c : Nat) (rowA : List Nat)
    (hA : nt.degen[a]? = some rowA) (xs : List Nat) (hx : ∀ x ∈ xs, x < rowA.length ∧ rowA.getD x 0 = 0) (v : Int) :
    loopX body nt a b c xs (.run v) = some (.run v) := by
  induction xs with
  | nil => rfl
  | cons x xs ih =>
    obtain ⟨h1, h2⟩ := hx x (by simp)
    have e := getElem?_eq_some_getD0 rowA x h1
    simp only [loopX, hA, e, Option.bind_eq_bind, Option.bind_some, h2, if_true]
    exact ih (fun x' hx' => hx x' (by simp [hx']))

/-- if the middle loop faults whenever entered, the outer loop faults as soon as one flag of the first row is set -/
theorem loopX_noY (body : Int → Nat → Option Acc) (nt : Alphabet) (a b c : Nat) (rowA : List Nat)
    (hA : nt.degen[a]? = some rowA) (hY : ∀ x v, loopY body nt b c x [0, 1, 2, 3] (.run v) = none)
    (xs : List Nat) (hx : ∀ x ∈ xs, x < rowA.length) (hne : ∃ x ∈ xs, rowA.getD x 0 ≠ 0) (v : Int) :
    loopX body nt a b c xs (.run v) = none := by
  induction xs with
  | nil => obtain ⟨_, h, _⟩ := hne; cases h
  | cons x xs ih =>
    have e := getElem?_eq_some_getD0 rowA x (hx x (by simp))
    by_cases hf : rowA.getD x 0 = 0
    · simp only [loopX, hA, e, Option.bind_eq_bind, Option.bind_some, hf, if_true]
      apply ih (fun x' hx' => hx x' (by simp [hx']))
      obtain ⟨x', h1, h2⟩ := hne
      rcases List.mem_cons.mp h1 with rfl | h1
      · exact absurd hf h2
      · exact ⟨x', h1, h2⟩
    · simp only [loopX, hA, e, Option.bind_eq_bind, Option.bind_some, hf, if_false, hY]
      try rfl

/-- if the middle loop is a no-op whenever entered, so is the outer loop -/
theorem loopX_idY (body : Int → Nat → Option Acc) (nt : Alphabet) (a b c : Nat) (rowA : List Nat)
    (hA : nt.degen[a]? = some rowA) (hY : ∀ x v, loopY body nt b c x [0, 1, 2, 3] (.run v) = some (.run v))
    (xs : List Nat) (hx : ∀ x ∈ xs, x < rowA.length) (v : Int) :
    loopX body nt a b c xs (.run v) = some (.run v) := by
  induction xs with
  | nil => rfl
  | cons x xs ih =>
    have e := getElem?_eq_some_getD0 rowA x (hx x (by simp))
    by_cases hf : rowA.getD x 0 = 0
    · simp only [loopX, hA, e, Option.bind_eq_bind, Option.bind_some, hf, if_true]
      exact ih (fun x' hx' => hx x' (by simp [hx']))
    · simp only [loopX, hA, e, Option.bind_eq_bind, Option.bind_some, hf, if_false, hY]
      exact ih (fun x' hx' => hx x' (by simp [hx']))

theorem exists_flag (row : List Nat) (h : flags row ≠ []) : ∃ x ∈ [0, 1, 2, 3], row.getD x 0 ≠ 0 := by
  by_cases h0 : row.getD 0 0 = 0
  · by_cases h1 : row.getD 1 0 = 0
    · by_cases h2 : row.getD 2 0 = 0
      · by_cases h3 : row.getD 3 0 = 0
        · exfalso
          apply h
          rw [flags_nil_iff]
          intro x hx
          have : x = 0 ∨ x = 1 ∨ x = 2 ∨ x = 3 := by omega
          rcases this with rfl | rfl | rfl | rfl <;> assumption
        · exact ⟨3, by simp, h3⟩
      · exact ⟨2, by simp, h2⟩
    · exact ⟨1, by simp, h1⟩
  · exact ⟨0, by simp, h0⟩

/-- **the triple loop on ANY three codes** (the order of the tests is the order in which the C loop dereferences `degen[]`):
    a first code outside the alphabet faults; else a first code that stands for nothing ends the loop at once (the other two
    are never looked at); else the same for the second code; else the same for the third; else the fold over `expand` -/
theorem loopX_total (body : Int → Nat → Option Acc) (nt : Alphabet) (hn : NtOK nt) (a b c : Nat) (v : Int) :
    loopX body nt a b c [0, 1, 2, 3] (.run v) =
      if nt.Kp ≤ a then none else if rowEmpty nt a = true then some (.run v)
      else if nt.Kp ≤ b then none else if rowEmpty nt b = true then some (.run v)
      else if nt.Kp ≤ c then none else foldAcc body (expand nt a b c) (.run v) := by
  have hlen := hn.2.1
  have h4 : ∀ x ∈ [0, 1, 2, 3], x < 4 := by intro x hx; simp at hx; omega
  by_cases ha : nt.Kp ≤ a
  · rw [if_pos ha]
    have : nt.degen[a]? = none := List.getElem?_eq_none (by omega)
    simp [loopX, this]
  rw [if_neg ha]
  obtain ⟨hA, hlA⟩ := row_of_ntOK nt hn a (by omega)
  by_cases ea : rowEmpty nt a = true
  · rw [if_pos ea]
    have hz := (flags_nil_iff _).mp (by simpa [rowEmpty] using ea)
    exact loopX_skip body nt a b c _ hA _ (fun x hx => ⟨by rw [hlA]; exact h4 x hx, hz x (h4 x hx)⟩) v
  rw [if_neg ea]
  have hneA := exists_flag _ (by simpa [rowEmpty] using ea)
  have hxA : ∀ x ∈ [0, 1, 2, 3], x < (nt.degen.getD a []).length := fun x hx => by rw [hlA]; exact h4 x hx
  by_cases hb : nt.Kp ≤ b
  · rw [if_pos hb]
    have hB : nt.degen[b]? = none := List.getElem?_eq_none (by omega)
    exact loopX_noY body nt a b c _ hA (fun x v' => loopY_noRow body nt b c x 0 [1, 2, 3] v' hB) _ hxA hneA v
  rw [if_neg hb]
  obtain ⟨hB, hlB⟩ := row_of_ntOK nt hn b (by omega)
  by_cases eb : rowEmpty nt b = true
  · rw [if_pos eb]
    have hz := (flags_nil_iff _).mp (by simpa [rowEmpty] using eb)
    exact loopX_idY body nt a b c _ hA
      (fun x v' => loopY_skip body nt b c x _ hB _ (fun y hy => ⟨by rw [hlB]; exact h4 y hy, hz y (h4 y hy)⟩) v') _ hxA v
  rw [if_neg eb]
  have hneB := exists_flag _ (by simpa [rowEmpty] using eb)
  have hxB : ∀ y ∈ [0, 1, 2, 3], y < (nt.degen.getD b []).length := fun y hy => by rw [hlB]; exact h4 y hy
  by_cases hc : nt.Kp ≤ c
  · rw [if_pos hc]
    have hC : nt.degen[c]? = none := List.getElem?_eq_none (by omega)
    exact loopX_noY body nt a b c _ hA (fun x v' => loopY_noC body nt b c x _ hB hC _ hxB hneB v') _ hxA hneA v
  rw [if_neg hc]
  exact loopX_expand body nt hn a b c (by omega) (by omega) (by omega) (.run v)

/-- `esl_gencode_GetTranslation` on ANY three codes -/
theorem getTranslation_total (nt aa : Alphabet) (g : Gencode) (hn : NtOK nt) (hg : CodeOK g) (a b c : Nat) :
    getTranslation nt aa g a b c =
      if allCanonical nt a b c = true then some (Int.ofNat (g.basic.getD (16 * a + 4 * b + c) 0))
      else if nt.Kp ≤ a then none else if rowEmpty nt a = true then some (-1)
      else if nt.Kp ≤ b then none else if rowEmpty nt b = true then some (-1)
      else if nt.Kp ≤ c then none else some (specTranslation nt aa g a b c) := by
  by_cases hcan : allCanonical nt a b c = true
  · rw [if_pos hcan]
    have hlt := canon_codon_lt nt hn a b c hcan
    have hcan' : (nt.xIsCanonical a && nt.xIsCanonical b && nt.xIsCanonical c) = true := hcan
    unfold getTranslation
    rw [if_pos hcan', getElem?_eq_some_getD0 _ _ (by rw [hg.1]; exact hlt)]
    rfl
  · rw [if_neg hcan]
    by_cases ha : nt.Kp ≤ a
    · have hcan' : ¬ (nt.xIsCanonical a && nt.xIsCanonical b && nt.xIsCanonical c) = true := hcan
      unfold getTranslation
      rw [if_neg hcan', loopX_total _ nt hn, if_pos ha, if_pos ha]
    by_cases ea : rowEmpty nt a = true
    · have hcan' : ¬ (nt.xIsCanonical a && nt.xIsCanonical b && nt.xIsCanonical c) = true := hcan
      unfold getTranslation
      rw [if_neg hcan', loopX_total _ nt hn, if_neg ha, if_neg ha, if_pos ea, if_pos ea]
    by_cases hb : nt.Kp ≤ b
    · have hcan' : ¬ (nt.xIsCanonical a && nt.xIsCanonical b && nt.xIsCanonical c) = true := hcan
      unfold getTranslation
      rw [if_neg hcan', loopX_total _ nt hn, if_neg ha, if_neg ha, if_neg ea, if_neg ea, if_pos hb, if_pos hb]
    by_cases eb : rowEmpty nt b = true
    · have hcan' : ¬ (nt.xIsCanonical a && nt.xIsCanonical b && nt.xIsCanonical c) = true := hcan
      unfold getTranslation
      rw [if_neg hcan', loopX_total _ nt hn, if_neg ha, if_neg ha, if_neg ea, if_neg ea, if_neg hb, if_neg hb, if_pos eb, if_pos eb]
    by_cases hc : nt.Kp ≤ c
    · have hcan' : ¬ (nt.xIsCanonical a && nt.xIsCanonical b && nt.xIsCanonical c) = true := hcan
      unfold getTranslation
      rw [if_neg hcan', loopX_total _ nt hn, if_neg ha, if_neg ha, if_neg ea, if_neg ea, if_neg hb, if_neg hb, if_neg eb, if_neg eb,
        if_pos hc, if_pos hc]
    · rw [if_neg ha, if_neg ea, if_neg hb, if_neg eb, if_neg hc]
      exact getTranslation_eq_spec nt aa g hn hg a b c (by omega) (by omega) (by omega)

/-- `esl_gencode_IsInitiator` on ANY three codes: FALSE as soon as a code stands for nothing -/
theorem isInitiator_total (nt : Alphabet) (g : Gencode) (hn : NtOK nt) (hg : CodeOK g) (a b c : Nat)
    (hcan : allCanonical nt a b c = false) :
    (nt.Kp ≤ a → isInitiator nt g a b c = none) ∧
    (a < nt.Kp → rowEmpty nt a = true → isInitiator nt g a b c = some 0) ∧
    (a < nt.Kp → rowEmpty nt a = false → nt.Kp ≤ b → isInitiator nt g a b c = none) ∧
    (a < nt.Kp → rowEmpty nt a = false → b < nt.Kp → rowEmpty nt b = true → isInitiator nt g a b c = some 0) ∧
    (a < nt.Kp → rowEmpty nt a = false → b < nt.Kp → rowEmpty nt b = false → nt.Kp ≤ c → isInitiator nt g a b c = none) := by
  have hcan' : ¬ (nt.xIsCanonical a && nt.xIsCanonical b && nt.xIsCanonical c) = true := by
    intro h; have : allCanonical nt a b c = true := h; rw [hcan] at this; cases this
  refine ⟨fun ha => ?_, fun ha ea => ?_, fun ha ea hb => ?_, fun ha ea hb eb => ?_, fun ha ea hb eb hc => ?_⟩ <;>
    unfold isInitiator <;> rw [if_neg hcan', loopX_total _ nt hn]
  · rw [if_pos ha]
  · rw [if_neg (by omega), if_pos ea]; rfl
  · rw [if_neg (by omega), if_neg (by simp [ea]), if_pos hb]
  · rw [if_neg (by omega), if_neg (by simp [ea]), if_neg (by omega), if_pos eb]; rfl
  · rw [if_neg (by omega), if_neg (by simp [ea]), if_neg (by omega), if_neg (by simp [eb]), if_pos hc]

end EaselModel.Gencode
