import EaselModel.Gencode.Model
/-! # C17 — lemmas about the small public functions (DecodeDigicodon, Compare) and about `esl_gencode_ProcessOrf` -/
namespace EaselModel.Gencode
open EaselModel.Alphabet

theorem symAt_isSome (nt : Alphabet) (i : Int) : (symAt nt i).isSome = true ↔ 0 ≤ i ∧ i ≤ nt.sym.length := by
  unfold symAt
  by_cases h0 : i < 0
  · simp [h0]; omega
  · simp only [h0, ↓reduceIte]
    by_cases h1 : i.toNat < nt.sym.length
    · simp only [h1, ↓reduceIte]
      rw [List.getElem?_eq_getElem h1]
      simp; omega
    · simp only [h1, ↓reduceIte]
      by_cases h2 : i.toNat = nt.sym.length
      · simp [h2]; omega
      · simp [h2]; omega

/-- C `/` and `%` on a non-negative `int` are the mathematical ones -/
theorem tdiv_tmod_nonneg (d : Int) (h : 0 ≤ d) (k : Int) (hk : 0 < k) : d.tdiv k = d / k ∧ d.tmod k = d % k := by
  exact ⟨Int.tdiv_eq_ediv_of_nonneg h, Int.tmod_eq_emod_of_nonneg h⟩

/-- BOUNDS OF `esl_gencode_DecodeDigicodon` FOR EVERY `int`: it reads inside `sym[0..Kp]` exactly for `0 ≤ d` with
    `d / 16 ≤ Kp`; every negative `d` reads `sym[-1]` or below (its documented domain is `0..63`) -/
theorem decodeDigicodon_isSome (nt : Alphabet) (h3 : 3 ≤ nt.sym.length) (d : Int) :
    (decodeDigicodon nt d).isSome = true ↔ 0 ≤ d ∧ d / 16 ≤ nt.sym.length := by
  have key : (decodeDigicodon nt d).isSome = true ↔
      ((symAt nt (d.tdiv 16)).isSome = true ∧ (symAt nt ((d.tmod 16).tdiv 4)).isSome = true ∧ (symAt nt (d.tmod 4)).isSome = true) := by
    unfold decodeDigicodon
    cases symAt nt (d.tdiv 16) <;> cases symAt nt ((d.tmod 16).tdiv 4) <;> cases symAt nt (d.tmod 4) <;> simp
  rw [key, symAt_isSome, symAt_isSome, symAt_isSome]
  by_cases hd : 0 ≤ d
  · obtain ⟨e1, e2⟩ := tdiv_tmod_nonneg d hd 16 (by omega)
    obtain ⟨_, e4⟩ := tdiv_tmod_nonneg d hd 4 (by omega)
    have hm : 0 ≤ d % 16 := Int.emod_nonneg d (by omega)
    obtain ⟨e5, _⟩ := tdiv_tmod_nonneg (d % 16) hm 4 (by omega)
    rw [e1, e2, e4, e5]
    omega
  · -- a negative dividend: the truncated remainder / quotient is ≤ 0, and not all three can be 0
    have hneg : d < 0 := by omega
    constructor
    · rintro ⟨⟨a1, _⟩, ⟨b1, _⟩, ⟨c1, _⟩⟩
      exfalso
      obtain ⟨e, rfl⟩ : ∃ e : Int, d = -e := ⟨-d, by omega⟩
      have h0 : (0 : Int) ≤ e := by omega
      rw [Int.neg_tdiv, Int.tdiv_eq_ediv_of_nonneg h0] at a1
      rw [Int.neg_tmod, Int.tmod_eq_emod_of_nonneg h0] at c1
      rw [Int.neg_tmod, Int.tmod_eq_emod_of_nonneg h0, Int.neg_tdiv,
        Int.tdiv_eq_ediv_of_nonneg (Int.emod_nonneg e (by omega))] at b1
      omega
    · rintro ⟨h, _⟩; exact absurd h hd

/-! ## Compare -/
theorem compareLoop_spec (g1 g2 : Gencode) : ∀ (k x : Nat), x + k ≤ g1.basic.length → x + k ≤ g2.basic.length →
    x + k ≤ g1.isInit.length → x + k ≤ g2.isInit.length →
    ∃ r, compareLoop g1 g2 k x = some r ∧
      (r = true ↔ ∀ i, x ≤ i → i < x + k → g1.basic[i]? = g2.basic[i]? ∧ g1.isInit[i]? = g2.isInit[i]?)
  | 0, x, _, _, _, _ => ⟨true, rfl, by simp; intro i h1 h2; omega⟩
  | k+1, x, h1, h2, h3, h4 => by
    have a1 : x < g1.basic.length := by omega
    have a2 : x < g2.basic.length := by omega
    have a3 : x < g1.isInit.length := by omega
    have a4 : x < g2.isInit.length := by omega
    simp only [compareLoop, List.getElem?_eq_getElem a1, List.getElem?_eq_getElem a2, List.getElem?_eq_getElem a3,
      List.getElem?_eq_getElem a4, Option.bind_eq_bind, Option.bind_some]
    by_cases hb : g1.basic[x] = g2.basic[x]
    · by_cases hi : g1.isInit[x] = g2.isInit[x]
      · simp only [hb, hi, ne_eq, not_true_eq_false, ↓reduceIte]
        obtain ⟨r, e1, e2⟩ := compareLoop_spec g1 g2 k (x+1) (by omega) (by omega) (by omega) (by omega)
        refine ⟨r, e1, e2.trans ⟨fun h i hx hk => ?_, fun h i hx hk => h i (by omega) (by omega)⟩⟩
        by_cases hxi : i = x
        · subst hxi
          simp [List.getElem?_eq_getElem a1, List.getElem?_eq_getElem a2, List.getElem?_eq_getElem a3, List.getElem?_eq_getElem a4, hb, hi]
        · exact h i (by omega) (by omega)
      · simp only [hb, ne_eq, not_true_eq_false, ↓reduceIte, hi, not_false_eq_true]
        refine ⟨false, rfl, by simp; exact ⟨x, Nat.le_refl _, by omega, fun _ => by
          simp [List.getElem?_eq_getElem a3, List.getElem?_eq_getElem a4, hi]⟩⟩
    · simp only [ne_eq, hb, not_false_eq_true, ↓reduceIte]
      refine ⟨false, rfl, by simp; exact ⟨x, Nat.le_refl _, by omega, fun h => by
        simp [List.getElem?_eq_getElem a1, List.getElem?_eq_getElem a2, hb] at h⟩⟩

/-- `esl_gencode_Compare` on two well-formed code objects (64 entries each): `eslOK` exactly when the alphabet types agree,
    (if asked) id and description agree, and the 64 translations and the 64 initiator flags agree -/
theorem compare_spec (n1 a1 n2 a2 : Nat) (g1 g2 : Gencode) (md : Bool)
    (h1 : g1.basic.length = 64) (h2 : g2.basic.length = 64) (h3 : g1.isInit.length = 64) (h4 : g2.isInit.length = 64) :
    ∃ r, compare n1 a1 n2 a2 g1 g2 md = some r ∧
      (r = true ↔ (n1 = n2 ∧ a1 = a2 ∧ (md = true → g1.translTable = g2.translTable ∧ g1.desc = g2.desc) ∧
        g1.basic = g2.basic ∧ g1.isInit = g2.isInit)) := by
  unfold compare
  by_cases hn : n1 = n2
  · by_cases ha : a1 = a2
    · by_cases hm : (md && (g1.translTable ≠ g2.translTable || g1.desc ≠ g2.desc)) = true
      · simp only [hn, ha, ne_eq, not_true_eq_false, ↓reduceIte, hm]
        refine ⟨false, rfl, ?_⟩
        simp only [Bool.false_eq_true, false_iff, not_and]
        intro _ _ hmm
        simp only [ne_eq, Bool.and_eq_true, Bool.or_eq_true, decide_eq_true_eq] at hm
        obtain ⟨q1, q2⟩ := hmm hm.1
        rcases hm.2 with q | q
        · exact absurd q1 q
        · exact absurd q2 q
      · simp only [hn, ha, ne_eq, not_true_eq_false, ↓reduceIte, hm, Bool.false_eq_true]
        obtain ⟨r, e1, e2⟩ := compareLoop_spec g1 g2 64 0 (by omega) (by omega) (by omega) (by omega)
        refine ⟨r, e1, e2.trans ⟨fun h => ⟨trivial, trivial, ?_, ?_, ?_⟩, fun h i _ hi => by rw [h.2.2.2.1, h.2.2.2.2]; exact ⟨rfl, rfl⟩⟩⟩
        · intro hmt
          simp [hmt] at hm
          exact ⟨hm.1, hm.2⟩
        · apply List.ext_getElem? ; intro i
          by_cases hi : i < 64
          · exact (h i (by omega) (by omega)).1
          · rw [List.getElem?_eq_none (by omega), List.getElem?_eq_none (by omega)]
        · apply List.ext_getElem? ; intro i
          by_cases hi : i < 64
          · exact (h i (by omega) (by omega)).2
          · rw [List.getElem?_eq_none (by omega), List.getElem?_eq_none (by omega)]
    · simp only [hn, ne_eq, not_true_eq_false, ↓reduceIte, ha, not_false_eq_true]
      exact ⟨false, rfl, by simp [ha]⟩
  · simp only [ne_eq, hn, not_false_eq_true, ↓reduceIte]
    exact ⟨false, rfl, by simp [hn]⟩

/-! ## ProcessOrf: what is emitted, how it is named and numbered, and the minimum-length boundary -/
/-- `esl_gencode_ProcessOrf` closes the current frame. It emits a record exactly when the frame is inside an ORF of at
    least `minlen` residues (an ORF of exactly `minlen` is reported, one of `minlen − 1` is not): the record is numbered
    `orfcount + 1` ("orf%d"), its frame label is `frame + 1` on the top strand and `frame + 4` on the reverse strand, it
    starts where the ORF was opened and ends one residue before the current position in reading direction, and carries the
    residues in reading order; in every case the frame is reset and nothing else changes -/
theorem processOrf_spec (cfg : Cfg) (w : Core) :
    ((w.getF.inOrf = true ∧ cfg.minlen ≤ (w.getF.rev.length : Int)) → (processOrf cfg w).out =
        { num := w.orfcount + 1, start := w.getF.start, stop := if w.isRev then w.apos + 1 else w.apos - 1,
          frame := w.frame + 1 + (if w.isRev then 3 else 0), aa := w.getF.rev.reverse } :: w.out ∧
      (processOrf cfg w).orfcount = w.orfcount + 1) ∧
    (¬ (w.getF.inOrf = true ∧ cfg.minlen ≤ (w.getF.rev.length : Int)) →
      (processOrf cfg w).out = w.out ∧ (processOrf cfg w).orfcount = w.orfcount) ∧
    (processOrf cfg w).getF = { rev := [], start := 0, inOrf := false } ∧
    (processOrf cfg w).apos = w.apos ∧ (processOrf cfg w).frame = w.frame ∧ (processOrf cfg w).isRev = w.isRev := by
  have hset : ∀ (c : Core) (f : FrameSt), (c.setF f).out = c.out ∧ (c.setF f).orfcount = c.orfcount ∧ (c.setF f).apos = c.apos ∧
      (c.setF f).frame = c.frame ∧ (c.setF f).isRev = c.isRev ∧ (c.setF f).getF = f := by
    intro c f
    unfold Core.setF Core.getF
    by_cases h0 : c.frame = 0
    · simp [h0]
    · by_cases h1 : c.frame = 1
      · simp [h1]
      · simp [h0, h1]
  by_cases he : (w.getF.inOrf && decide ((w.getF.rev.length : Int) ≥ cfg.minlen)) = true
  · have hem : w.getF.inOrf = true ∧ cfg.minlen ≤ (w.getF.rev.length : Int) := by simpa using he
    simp only [processOrf, he, ↓reduceIte]
    exact ⟨fun _ => ⟨(hset _ _).1, (hset _ _).2.1⟩, fun hn => absurd hem hn, (hset _ _).2.2.2.2.2, (hset _ _).2.2.1,
      (hset _ _).2.2.2.1, (hset _ _).2.2.2.2.1⟩
  · have hem : ¬ (w.getF.inOrf = true ∧ cfg.minlen ≤ (w.getF.rev.length : Int)) := by
      intro h; apply he; simpa using h
    simp only [processOrf, he, Bool.false_eq_true, ↓reduceIte]
    exact ⟨fun h => absurd h hem, fun _ => ⟨(hset _ _).1, (hset _ _).2.1⟩, (hset _ _).2.2.2.2.2, (hset _ _).2.2.1,
      (hset _ _).2.2.2.1, (hset _ _).2.2.2.2.1⟩

end EaselModel.Gencode

namespace EaselModel.Gencode
open EaselModel.Alphabet
/-- a first code outside the alphabet (`≥ Kp`, e.g. the sentinel 255 of a digital sequence) makes both functions read
    `degen[]` out of bounds at once: their contract is "three valid digital residues" -/
theorem out_of_alphabet_faults (nt aa : Alphabet) (g : Gencode) (a b c : Nat) (ha : nt.degen.length ≤ a) (hk : nt.K ≤ a) :
    getTranslation nt aa g a b c = none ∧ isInitiator nt g a b c = none := by
  have hc : nt.xIsCanonical a = false := by simp [Alphabet.xIsCanonical]; omega
  have hd : nt.degen[a]? = none := List.getElem?_eq_none ha
  constructor
  · simp [getTranslation, hc, loopX, hd]
  · simp [isInitiator, hc, loopX, hd]
end EaselModel.Gencode

namespace EaselModel.Gencode
open EaselModel.Alphabet
/-- a window shorter than a codon (0, 1 or 2 residues, e.g. a first window of 2) leaves the machine untouched: the `rpos`
    loop of `esl_gencode_ProcessPiece` runs `n − 2 ≤ 0` times -/
theorem processPiece_short (nt aa : Alphabet) (g : Gencode) (cfg : Cfg) (w : Work) (d : List Nat) (h : d.length < 3) :
    processPiece nt aa g cfg w d = some w := by
  match d, h with
  | [], _ => rfl
  | [_], _ => rfl
  | [_, _], _ => rfl

/-- a later window that brings `k ≥ 1` new residues after its 2-residue context processes exactly `k` codons: with one new
    residue (window size 1) exactly one `pieceStep` -/
theorem processPiece_one (nt aa : Alphabet) (g : Gencode) (cfg : Cfg) (w : Work) (a b c : Nat) :
    processPiece nt aa g cfg w [a, b, c] = pieceStep nt aa g cfg w a b c := by
  simp only [processPiece]
  cases pieceStep nt aa g cfg w a b c <;> rfl
end EaselModel.Gencode
