import EaselModel.Gencode.Spec
/-! # C17 — specification side of the ORF machine -/
namespace EaselModel.Gencode
open EaselModel.Alphabet

/-- the residue the translator assigns to codon `a b c` (as stored in an `ESL_DSQ`) -/
def codonAa (nt aa : Alphabet) (g : Gencode) (a b c : Nat) : Nat :=
  if allCanonical nt a b c then g.basic.getD (16 * a + 4 * b + c) 0
  else ((specTranslation nt aa g a b c) % 256).toNat

/-- the translator's per-codon step once residue and initiator flag are known (no rolling codon, no laziness):
    an initiator outside an ORF opens one (first residue M when initiators are required); a stop closes the frame's ORF
    (`ProcessOrf`); inside an ORF the residue is appended; the position advances by one nucleotide -/
def cstep (aa : Alphabet) (cfg : Cfg) (w : Core) (res0 : Nat) (ini : Bool) : Core :=
  let p := w.getF
  if !p.inOrf && ini then
    finishStep aa cfg (w.setF { p with inOrf := true, start := w.apos }) (if cfg.usingInit then aa.inmapAt 77 else res0)
  else finishStep aa cfg w res0

/-- what `wrk->codon`, `wrk->inval` encode between two loop iterations, `a b` being the last two nucleotides read -/
def RollInv (nt : Alphabet) (w : Work) (a b : Nat) : Prop :=
  w.inval = (if nt.xIsCanonical b then (if nt.xIsCanonical a then 0 else 1) else 2) ∧
  (nt.xIsCanonical b = true → w.codon % 4 = b) ∧
  (nt.xIsCanonical a = true → nt.xIsCanonical b = true → w.codon % 16 = 4 * a + b)

/-- fold of `cstep` over the codons of a strand in reading order -/
def coreRun (nt aa : Alphabet) (g : Gencode) (cfg : Cfg) : Core → List Nat → Core
  | w, a :: b :: c :: rest =>
    coreRun nt aa g cfg (cstep aa cfg w (codonAa nt aa g a b c) (specInitiator nt g a b c)) (b :: c :: rest)
  | w, _ => w

end EaselModel.Gencode

namespace EaselModel.Gencode
open EaselModel.Alphabet

/-- a codon of the strand being read: nucleotide coordinate of its first base (in the source sequence's coordinates),
    the residue it translates to, and whether it is an initiator -/
structure Item where
  pos : Int
  aa : Nat
  ini : Bool
  deriving DecidableEq, Repr

/-- all codons (overlapping, one per nucleotide position) of `d` in reading order; `dir = +1` (top strand, coordinates
    ascending) or `−1` (reverse complement, coordinates descending) -/
def itemsFrom (nt aa : Alphabet) (g : Gencode) (dir : Int) : Int → List Nat → List Item
  | pos, a :: b :: c :: rest =>
    ⟨pos, codonAa nt aa g a b c, specInitiator nt g a b c⟩ :: itemsFrom nt aa g dir (pos + dir) (b :: c :: rest)
  | _, _ => []

/-- the codons of reading frame `k`, the head of the list being in frame `f` -/
def sub (k : Nat) : Nat → List Item → List Item
  | _, [] => []
  | f, it :: rest => if f = k then it :: sub k ((f + 1) % 3) rest else sub k ((f + 1) % 3) rest

/-- an ORF record without numbering: coordinates and residues -/
structure Rec where
  start : Int
  stop : Int
  aa : List Nat
  deriving DecidableEq, Repr

/-- the obvious sequential ORF finder for ONE reading frame, one codon at a time: state = growing ORF + ORFs found
    (most recent first). An initiator outside an ORF opens one at its coordinate (first residue M when initiators are
    required); a stop codon closes it — recorded, with end coordinate just before the stop, if it is ≥ minlen — and
    residues are appended while inside. -/
def fstep (aa : Alphabet) (cfg : Cfg) (dir : Int) (s : FrameSt × List Rec) (it : Item) : FrameSt × List Rec :=
  let p := s.1
  let opening := !p.inOrf && it.ini
  let p := if opening then { p with inOrf := true, start := it.pos } else p
  let res := if opening then (if cfg.usingInit then aa.inmapAt 77 else it.aa) else it.aa
  let found := if aa.xIsNonresidue res && p.inOrf && decide ((p.rev.length : Int) ≥ cfg.minlen)
    then { start := p.start, stop := it.pos - dir, aa := p.rev.reverse } :: s.2 else s.2
  let p := if aa.xIsNonresidue res then ({} : FrameSt) else p
  let p := if p.inOrf then { p with rev := res :: p.rev } else p
  (p, found)

/-- end of the strand: the ORF still open in this frame is recorded with end coordinate `stopPos` -/
def fflush (cfg : Cfg) (s : FrameSt × List Rec) (stopPos : Int) : List Rec :=
  if s.1.inOrf && decide ((s.1.rev.length : Int) ≥ cfg.minlen)
  then { start := s.1.start, stop := stopPos, aa := s.1.rev.reverse } :: s.2 else s.2

/-- the ORFs of reading frame `k` (0,1,2) of a strand `d` (reading order), most recent first; `p0` = coordinate of the
    first nucleotide. The end coordinate of an ORF running to the end of the strand is that of the last complete
    codon of the frame. -/
def frameOrfs (nt aa : Alphabet) (g : Gencode) (cfg : Cfg) (dir p0 : Int) (d : List Nat) (k : Nat) : List Rec :=
  let items := itemsFrom nt aa g dir p0 d
  let n := items.length
  fflush cfg ((sub k 0 items).foldl (fstep aa cfg dir) ({}, [])) (p0 + ((n + (k + 3 - n % 3) % 3 : Nat) : Int) * dir - dir)

/-- the records of frame `k` among the emitted ORFs (frame labels 1..3 top strand, 4..6 reverse strand) -/
def recsOf (out : List Orf) (label : Nat) : List Rec :=
  (out.filter fun o => o.frame = label).map fun o => { start := o.start, stop := o.stop, aa := o.aa }

end EaselModel.Gencode
