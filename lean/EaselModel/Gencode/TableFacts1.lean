import EaselModel.Gencode.Builtin
/-! # C17 — table facts closed by `decide` over the regenerated tables (split over several modules so that they
    are checked in parallel; the statements are restated, with their documentation, in `Props/C17.lean`) -/
namespace EaselModel.Gencode.Facts
open EaselModel.Alphabet EaselModel.Gencode

theorem tables_pinned :
    (∀ t ∈ T.tables, (t.id, Ncbi.aasLine t.basic, Ncbi.startsLine t.init) ∈
        Ncbi.pinned.map (fun p => (p.1, p.2.1.toList, p.2.2.toList))) ∧
    (∀ p ∈ Ncbi.pinned.map (fun p => (p.1, p.2.1.toList, p.2.2.toList)),
        p ∈ T.tables.map (fun t => (t.id, Ncbi.aasLine t.basic, Ncbi.startsLine t.init))) := by decide +kernel

theorem table_ids :
    (T.tables.map (·.id)).Nodup ∧ (∀ id ∈ T.tables.map (·.id), id ∈ Ncbi.pinned.map (·.1)) ∧
    (∀ id ∈ Ncbi.pinned.map (·.1), id ∈ T.tables.map (·.id)) ∧
    Ncbi.pinned.map (·.1) = [1, 2, 3, 4, 5, 6, 9, 10, 11, 12, 13, 14, 16, 21, 22, 23, 24, 25] ∧
    (∀ t ∈ T.tables, setTable T.tables t.id = some (codeOf t)) ∧ (setTable T.tables 1).isSome = true := by decide +kernel

end EaselModel.Gencode.Facts
