import EaselModel.Gencode.Lemmas
/-! # C17 — translation/initiator models = specification; window-split invariance of the ORF machine -/
namespace EaselModel.Gencode
open EaselModel.Alphabet

theorem canon_codon_lt (nt : Alphabet) (h : NtOK nt) (a b c : Nat) (hc : allCanonical nt a b c = true) :
    16 * a + 4 * b + c < 64 := by
  unfold allCanonical Alphabet.xIsCanonical at hc
  simp only [Bool.and_eq_true, decide_eq_true_eq] at hc
  have := h.1
  omega

/-- `esl_gencode_GetTranslation` = specification, for every table, every degeneracy matrix, every triplet of codes -/
theorem getTranslation_eq_spec (nt aa : Alphabet) (g : Gencode) (hn : NtOK nt) (hg : CodeOK g) (a b c : Nat)
    (ha : a < nt.Kp) (hb : b < nt.Kp) (hc : c < nt.Kp) :
    getTranslation nt aa g a b c = some (specTranslation nt aa g a b c) := by
  unfold getTranslation specTranslation
  by_cases hcan : allCanonical nt a b c = true
  · have hlt := canon_codon_lt nt hn a b c hcan
    have hcan' : (nt.xIsCanonical a && nt.xIsCanonical b && nt.xIsCanonical c) = true := hcan
    rw [if_pos hcan', if_pos hcan, getElem?_eq_some_getD0 _ _ (by rw [hg.1]; exact hlt)]
    rfl
  · have hcan' : ¬ (nt.xIsCanonical a && nt.xIsCanonical b && nt.xIsCanonical c) = true := hcan
    rw [if_neg hcan', if_neg hcan, loopX_expand _ nt hn a b c ha hb hc,
      foldAcc_trans g aa.unknown _ (fun k hk => by rw [hg.1]; exact expand_lt nt a b c k hk)]
    cases expand nt a b c with
    | nil => rfl
    | cons k ks =>
      simp only [transResult]
      by_cases hall : ∀ k' ∈ ks, g.basic.getD k' 0 = g.basic.getD k 0
      · rw [if_pos hall, if_pos hall]
      · rw [if_neg hall, if_neg hall]

/-- `esl_gencode_IsInitiator` is non-zero exactly when the specification holds -/
theorem isInitiator_eq_spec (nt : Alphabet) (g : Gencode) (hn : NtOK nt) (hg : CodeOK g) (a b c : Nat)
    (ha : a < nt.Kp) (hb : b < nt.Kp) (hc : c < nt.Kp) :
    ∃ r, isInitiator nt g a b c = some r ∧ (r ≠ 0 ↔ specInitiator nt g a b c = true) := by
  unfold isInitiator specInitiator
  by_cases hcan : allCanonical nt a b c = true
  · have hlt := canon_codon_lt nt hn a b c hcan
    have hcan' : (nt.xIsCanonical a && nt.xIsCanonical b && nt.xIsCanonical c) = true := hcan
    rw [if_pos hcan', if_pos hcan, getElem?_eq_some_getD0 _ _ (by rw [hg.2]; exact hlt)]
    refine ⟨_, rfl, ?_⟩
    simp
  · have hcan' : ¬ (nt.xIsCanonical a && nt.xIsCanonical b && nt.xIsCanonical c) = true := hcan
    rw [if_neg hcan', if_neg hcan, loopX_expand _ nt hn a b c ha hb hc,
      foldAcc_init g _ (fun k hk => by rw [hg.2]; exact expand_lt nt a b c k hk)]
    by_cases hall : (expand nt a b c).all (fun k => g.isInit.getD k 0 ≠ 0) = true
    · rw [if_pos hall]
      refine ⟨_, rfl, ?_⟩
      cases hex : expand nt a b c with
      | nil => simp
      | cons k ks =>
        rw [hex] at hall
        simp only [List.length_cons, ne_eq, reduceCtorEq, not_false_eq_true, decide_true, hall, Bool.and_self, iff_true]
        omega
    · rw [if_neg hall]
      refine ⟨0, rfl, ?_⟩
      simp only [ne_eq, not_true_eq_false, false_iff, Bool.and_eq_true, not_and]
      intro _
      exact hall

/-! ## window splits -/

/-- the last two residues of what has been read -/
def last2 (l : List Nat) : List Nat := l.drop (l.length - 2)

theorem last2_cons (a : Nat) (l : List Nat) (h : 2 ≤ l.length) : last2 (a :: l) = last2 l := by
  unfold last2
  have : (a :: l).length - 2 = (l.length - 2) + 1 := by simp; omega
  rw [this, List.drop_succ_cons]

/-- `ProcessPiece` over a window followed by `ProcessPiece` over (2-residue context ++ next residues) is `ProcessPiece`
    over the concatenation: the carried state is exactly what the continued loop needs -/
theorem processPiece_append (nt aa : Alphabet) (g : Gencode) (cfg : Cfg) (l1 l2 : List Nat) (h : 2 ≤ l1.length) (w : Work) :
    processPiece nt aa g cfg w (l1 ++ l2) =
      (processPiece nt aa g cfg w l1).bind fun w' => processPiece nt aa g cfg w' (last2 l1 ++ l2) := by
  induction l1 generalizing w with
  | nil => simp at h
  | cons a t ih =>
    match t, ih, h with
    | [b], _, _ =>
      simp [processPiece, last2]
    | b :: c :: rest, ih, _ =>
      have ih' := ih (by simp) 
      rw [last2_cons a (b :: c :: rest) (by simp)]
      simp only [List.cons_append, processPiece, Option.bind_eq_bind]
      cases hs : pieceStep nt aa g cfg w a b c with
      | none => rfl
      | some w' =>
        simp only [Option.bind_some]
        have := ih' w'
        simp only [List.cons_append] at this
        rw [this]

theorem windows_fold (nt aa : Alphabet) (g : Gencode) (cfg : Cfg) (cuts : List Nat) :
    ∀ (prev d : List Nat) (w : Work), 2 ≤ prev.length → cuts.sum = d.length →
      processPiece nt aa g cfg w (prev ++ d) =
        (processPiece nt aa g cfg w prev).bind fun w' =>
          (windows prev d cuts).foldlM (fun w win => processPiece nt aa g cfg w win) w' := by
  induction cuts with
  | nil =>
    intro prev d w _ hs
    have : d = [] := by simpa using hs.symm
    subst this
    simp [windows]
  | cons k ks ih =>
    intro prev d w hp hs
    have hk : k ≤ d.length := by simp at hs; omega
    have hsplit : prev ++ d = (prev ++ d.take k) ++ d.drop k := by simp
    rw [hsplit, ih (prev ++ d.take k) (d.drop k) w (by simp; omega) (by simp at hs ⊢; omega)]
    rw [processPiece_append nt aa g cfg prev (d.take k) hp w]
    simp only [windows, last2, List.foldlM_cons, Option.bind_eq_bind]
    cases processPiece nt aa g cfg w prev with
    | none => rfl
    | some w' => rfl

/-- running the strand over any window split (first window ≥ 2 residues, sizes summing to the length) gives the same
    final work state — hence the same ORF list — as running it in a single window -/
theorem runStrand_split (nt aa : Alphabet) (g : Gencode) (cfg : Cfg) (w : Work) (isRev : Bool) (d : List Nat)
    (k : Nat) (ks : List Nat) (hk : 2 ≤ k) (hs : (k :: ks).sum = d.length) :
    runStrand nt aa g cfg w isRev d (k :: ks) = runStrand nt aa g cfg w isRev d [d.length] := by
  unfold runStrand
  have hkd : k ≤ d.length := by simp at hs; omega
  have hw0 := windows_fold nt aa g cfg ks (d.take k) (d.drop k) (processStart nt w isRev d.length (d.getD 0 0) (d.getD 1 0))
    (by simp; omega) (by simp at hs ⊢; omega)
  have h1 : windows [] d (k :: ks) = d.take k :: windows (d.take k) (d.drop k) ks := by simp [windows]
  have h2 : windows [] d [d.length] = [d] := by simp [windows]
  rw [h1, h2]
  simp only [List.foldlM_cons, List.foldlM_nil, List.take_append_drop, Option.bind_eq_bind] at hw0 ⊢
  rw [← hw0]
  cases processPiece nt aa g cfg (processStart nt w isRev (↑d.length) (d.getD 0 0) (d.getD 1 0)) d <;> rfl

end EaselModel.Gencode
