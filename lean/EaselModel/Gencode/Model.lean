import EaselModel.Alphabet.Model
/-! # C17 — executable model of esl_gencode.c (core Lean only; the driver imports this file)

Codons over the digital nucleotide alphabet (`nt : Alphabet`, codes 0..Kp-1; A,C,G,T = 0..3). A genetic code is the
pair of 64-entry arrays `basic` (amino-acid code or the nonresidue code `*`) and `isInit`, indexed `16x + 4y + z`.
Table reads go through `[_]?`; `none` is the outcome **fault**. -/
namespace EaselModel.Gencode
open EaselModel.Alphabet

/-- one row of `esl_transl_tables[]` -/
structure RawTable where
  id : Int
  desc : String
  basic : List Nat
  init : List Nat
  deriving DecidableEq, Repr

/-- `ESL_GENCODE` (without the alphabet references, which are passed separately) -/
structure Gencode where
  translTable : Int
  desc : String
  basic : List Nat
  isInit : List Nat
  deriving DecidableEq, Repr

/-- `esl_gencode_Set(gcode, id)`: first row with that id; `none` = eslENOTFOUND (gcode untouched) -/
def setTable (tabs : List RawTable) (id : Int) : Option Gencode :=
  (tabs.find? (fun t => t.id = id)).map fun t =>
    { translTable := t.id, desc := t.desc, basic := t.basic, isInit := t.init }

/-- `esl_gencode_SetInitiatorAny`: initiator iff the codon translates to a canonical amino acid -/
def setInitiatorAny (aa : Alphabet) (g : Gencode) : Gencode :=
  { g with isInit := g.basic.map fun b => if aa.xIsCanonical b then 1 else 0 }

/-- `esl_gencode_SetInitiatorOnlyAUG` -/
def setInitiatorOnlyAUG (nt : Alphabet) (g : Gencode) : Gencode :=
  let atg := 16 * nt.inmapAt 65 + 4 * nt.inmapAt 84 + nt.inmapAt 71
  { g with isInit := (List.replicate 64 0).set atg 1 }

/-! ## translation of a possibly degenerate codon -/

/-- state of the triple loop: still running with the current `aa` (−1 = none yet), or returned -/
inductive Acc
  | run (aa : Int)
  | ret (v : Int)
  deriving DecidableEq, Repr

/-- innermost statement of `esl_gencode_GetTranslation`:
    `if (aa == -1) aa = basic[codon]; else if (aa != basic[codon]) return unknown;` -/
def transStep (g : Gencode) (unk : Nat) (aa : Int) (codon : Nat) : Option Acc := do
  let b ← g.basic[codon]?
  if aa = -1 then some (.run b)
  else if aa ≠ (b : Int) then some (.ret unk)
  else some (.run aa)

/-- innermost statement of `esl_gencode_IsInitiator`: `ncodons++; if (!is_initiator[codon]) return FALSE;`
    (`aa` carries `ncodons`) -/
def initStep (g : Gencode) (n : Int) (codon : Nat) : Option Acc := do
  let f ← g.isInit[codon]?
  if f = 0 then some (.ret 0) else some (.run (n + 1))

/-- generic triple loop `for x<4 { if !degen[a][x] continue; for y<4 { …; for z<4 { …; body(16x+4y+z) }}}`
    with early return; the `degen[·]` row is looked up where the C code dereferences it. -/
def loopZ (body : Int → Nat → Option Acc) (rowC : List Nat) (x y : Nat) : List Nat → Acc → Option Acc
  | [], acc => some acc
  | z :: zs, acc =>
    match acc with
    | .ret v => some (.ret v)
    | .run aa => do
      let f ← rowC[z]?
      if f = 0 then loopZ body rowC x y zs (.run aa)
      else do
        let acc' ← body aa (16 * x + 4 * y + z)
        loopZ body rowC x y zs acc'

def loopY (body : Int → Nat → Option Acc) (nt : Alphabet) (b c x : Nat) : List Nat → Acc → Option Acc
  | [], acc => some acc
  | y :: ys, acc =>
    match acc with
    | .ret v => some (.ret v)
    | .run aa => do
      let rowB ← nt.degen[b]?
      let f ← rowB[y]?
      if f = 0 then loopY body nt b c x ys (.run aa)
      else do
        let rowC ← nt.degen[c]?
        let acc' ← loopZ body rowC x y [0, 1, 2, 3] (.run aa)
        loopY body nt b c x ys acc'

def loopX (body : Int → Nat → Option Acc) (nt : Alphabet) (a b c : Nat) : List Nat → Acc → Option Acc
  | [], acc => some acc
  | x :: xs, acc =>
    match acc with
    | .ret v => some (.ret v)
    | .run aa => do
      let rowA ← nt.degen[a]?
      let f ← rowA[x]?
      if f = 0 then loopX body nt a b c xs (.run aa)
      else do
        let acc' ← loopY body nt b c x [0, 1, 2, 3] (.run aa)
        loopX body nt a b c xs acc'

/-- `esl_gencode_GetTranslation(gcode, dsqp)` with `dsqp[0..2] = a b c`; result is the C `int` (−1 possible) -/
def getTranslation (nt aa : Alphabet) (g : Gencode) (a b c : Nat) : Option Int :=
  if nt.xIsCanonical a && nt.xIsCanonical b && nt.xIsCanonical c then
    (g.basic[16 * a + 4 * b + c]?).map Int.ofNat
  else
    match loopX (transStep g aa.unknown) nt a b c [0, 1, 2, 3] (.run (-1)) with
    | none => none
    | some (.ret v) => some v
    | some (.run v) => some v

/-- `esl_gencode_IsInitiator(gcode, dsqp)`: the C `int` result (the table flag itself in the canonical case) -/
def isInitiator (nt : Alphabet) (g : Gencode) (a b c : Nat) : Option Int :=
  if nt.xIsCanonical a && nt.xIsCanonical b && nt.xIsCanonical c then
    (g.isInit[16 * a + 4 * b + c]?).map Int.ofNat
  else
    match loopX (initStep g) nt a b c [0, 1, 2, 3] (.run 0) with
    | none => none
    | some (.ret v) => some v
    | some (.run n) => some (if n ≠ 0 then 1 else 0)

/-! ## NCBI text form -/

def order : List Nat := [84, 67, 65, 71]   -- "TCAG"

/-- codon index of the `x`-th column of the NCBI layout -/
def ncbiCodon (nt : Alphabet) (x : Nat) : Nat :=
  16 * nt.inmapAt (order.getD (x / 16) 0) + 4 * nt.inmapAt (order.getD ((x % 16) / 4) 0) + nt.inmapAt (order.getD (x % 4) 0)

def strBytes (s : String) : List Nat := s.toUTF8.toList.map (·.toNat)

/-- `esl_gencode_Write(ofp, gcode, add_comment)`: the bytes written; `none` = out-of-bounds table read -/
def write (nt aa : Alphabet) (g : Gencode) (addComment : Bool) : Option (List Nat) := do
  let aas ← (List.range 64).mapM fun x => do
    let b ← g.basic[ncbiCodon nt x]?
    aa.sym[b]?
  let starts ← (List.range 64).mapM fun x => do
    let f ← g.isInit[ncbiCodon nt x]?
    some (if f ≠ 0 then 77 else 45)
  let comment := if addComment && g.translTable > 0 then strBytes s!"# {g.translTable} {g.desc}\n" else []
  some (comment ++ strBytes "    AAs  = " ++ aas ++ [10] ++ strBytes "  Starts = " ++ starts ++ [10] ++
    strBytes "  Base1  = " ++ (List.range 64).map (fun x => order.getD (x / 16) 0) ++ [10] ++
    strBytes "  Base2  = " ++ (List.range 64).map (fun x => order.getD ((x % 16) / 4) 0) ++ [10] ++
    strBytes "  Base3  = " ++ (List.range 64).map (fun x => order.getD (x % 4) 0) ++ [10])

/-! ### reading (`esl_gencode_Read` on an in-memory buffer: `esl_fileparser_NextLine` + five anchored regular expressions) -/

/-- C `isspace` in the C locale -/
def isSpace (c : Nat) : Bool := c = 32 || (9 ≤ c && c ≤ 13)

/-- the class `\\s` of esl_regexp.c: blank, `\\t`, `\\n`, `\\r`, `\\f` — NOT the vertical tab, which `isspace` accepts -/
def isReSpace (c : Nat) : Bool := c = 32 || c = 9 || c = 10 || c = 13 || c = 12

/-- lines of a memory buffer as `nextline()` cuts them: each keeps its terminating `\n` -/
def splitLines : List Nat → List Nat → List (List Nat)
  | [], [] => []
  | [], cur => [cur.reverse]
  | c :: cs, cur => if c = 10 then (c :: cur).reverse :: splitLines cs [] else splitLines cs (c :: cur)

/-- `esl_fileparser_NextLine`: skip blank lines and lines whose first non-blank character is `#` -/
def isDataLine (l : List Nat) : Bool :=
  match l.dropWhile isSpace with
  | [] => false
  | c :: _ => c ≠ 35

/-- match `^\s*<kw>\s*=\s*(\S+)\s*$` where each keyword position offers its accepted characters;
    returns the submatch start column and the token -/
def matchLine (kw : List (List Nat)) (line : List Nat) : Option (Nat × List Nat) :=
  let n0 := (line.takeWhile isReSpace).length
  let r0 := line.drop n0
  let rec kwGo : List (List Nat) → List Nat → Option (List Nat)
    | [], r => some r
    | alts :: ks, c :: r => if alts.contains c then kwGo ks r else none
    | _ :: _, [] => none
  match kwGo kw r0 with
  | none => none
  | some r1 =>
    let n1 := (r1.takeWhile isReSpace).length
    match r1.drop n1 with
    | 61 :: r2 =>
      let n2 := (r2.takeWhile isReSpace).length
      let r3 := r2.drop n2
      let tok := r3.takeWhile (fun c => !isReSpace c)
      if tok.isEmpty then none
      else if (r3.drop tok.length).all isReSpace then some (n0 + kw.length + n1 + 1 + n2, tok) else none
    | _ => none

def kwAAs : List (List Nat) := [[65, 97], [65, 97], [115]]
def kwStarts : List (List Nat) := [[83, 115], [116], [97], [114], [116], [115]]
def kwBase (d : Nat) : List (List Nat) := [[66, 98], [97], [115], [101], [d]]

/-- the per-column loop of `esl_gencode_Read`: returns the arrays and how often each codon / amino acid / stop was seen -/
def readColumns (nt aa : Alphabet) (aas mline b1 b2 b3 : List Nat) :
    Nat → List Nat → List Nat → List Nat → List Nat → Nat → Option (List Nat × List Nat × List Nat × List Nat × Nat)
  | 0, basic, ini, cseen, aseen, stops => some (basic, ini, cseen, aseen, stops)
  | k+1, basic, ini, cseen, aseen, stops =>
    let pos := 64 - (k+1)
    let a := aas.getD pos 0; let m := mline.getD pos 0
    let x1 := b1.getD pos 0; let x2 := b2.getD pos 0; let x3 := b3.getD pos 0
    if !aa.cIsValid a || !(decide (aa.inmapAt a < aa.K) || decide (aa.inmapAt a + 2 = aa.Kp)) then none
    else if !nt.cIsValid x1 || !decide (nt.inmapAt x1 < nt.K) then none
    else if !nt.cIsValid x2 || !decide (nt.inmapAt x2 < nt.K) then none
    else if !nt.cIsValid x3 || !decide (nt.inmapAt x3 < nt.K) then none
    else if m ≠ 45 ∧ m ≠ 109 ∧ m ≠ 77 then none
    else
      let codon := 16 * nt.inmapAt x1 + 4 * nt.inmapAt x2 + nt.inmapAt x3
      let x := aa.inmapAt a
      let (aseen, stops) := if x < 20 then (aseen.set x (aseen.getD x 0 + 1), stops) else (aseen, stops + 1)
      readColumns nt aa aas mline b1 b2 b3 k (basic.set codon x) (ini.set codon (if m = 45 then 0 else 1))
        (cseen.set codon (cseen.getD codon 0 + 1)) aseen stops

/-- `esl_gencode_Read(efp, nt_abc, aa_abc, &gcode)` on a buffer; `none` = eslEFORMAT. The new object starts as a copy
    of table 1 (`esl_gencode_Create`), passed as `init`. -/
def read (nt aa : Alphabet) (init : Gencode) (buf : List Nat) : Option Gencode := do
  -- `nextline()` copies a whole line of the buffer; everything after is C-string code: it sees the line up to its first NUL
  let lines := ((splitLines buf []).map fun l => l.takeWhile (· ≠ 0)).filter isDataLine
  let l0 ← lines[0]?
  let (start, aas) ← matchLine kwAAs l0
  if aas.length ≠ 64 then none
  let l1 ← lines[1]?
  let (s1, mline) ← matchLine kwStarts l1
  if mline.length ≠ 64 then none
  if s1 ≠ start then none
  let l2 ← lines[2]?
  let (s2, b1) ← matchLine (kwBase 49) l2
  if b1.length ≠ 64 then none
  if s2 ≠ start then none
  let l3 ← lines[3]?
  let (s3, b2) ← matchLine (kwBase 50) l3
  if b2.length ≠ 64 then none
  if s3 ≠ start then none
  let l4 ← lines[4]?
  let (s4, b3) ← matchLine (kwBase 51) l4
  if b3.length ≠ 64 then none
  if s4 ≠ start then none
  let (basic, ini, cseen, aseen, stops) ← readColumns nt aa aas mline b1 b2 b3 64 init.basic init.isInit
    (List.replicate 64 0) (List.replicate 20 0) 0
  if stops = 0 then none
  if cseen.any (· = 0) then none
  if aseen.any (· = 0) then none
  some { translTable := -1, desc := "", basic := basic, isInit := ini }

/-! ## the small public functions: DecodeDigicodon, DumpAltCodeTable, Compare -/

/-- `abc->sym[i]` for a C `int` index: `sym` is a `char[Kp+1]` whose last byte is the terminating NUL; anything else is an
    out-of-bounds read (`none`) -/
def symAt (nt : Alphabet) (i : Int) : Option Nat :=
  if i < 0 then none
  else if i.toNat < nt.sym.length then nt.sym[i.toNat]?
  else if i.toNat = nt.sym.length then some 0
  else none

/-- `esl_gencode_DecodeDigicodon(gcode, digicodon, codon)` for ANY C `int` (`/` and `%` truncate toward zero): the three
    characters stored before the NUL; `none` = a read outside `sym[]` -/
def decodeDigicodon (nt : Alphabet) (d : Int) : Option (List Nat) := do
  let a ← symAt nt (d.tdiv 16)
  let b ← symAt nt ((d.tmod 16).tdiv 4)
  let c ← symAt nt (d.tmod 4)
  some [a, b, c]

/-- C `%3d` of a (small) integer -/
def pad3 (i : Int) : String :=
  let s := toString i
  String.ofList (List.replicate (3 - s.length) ' ') ++ s

/-- `esl_gencode_DumpAltCodeTable(ofp)`: the text written -/
def dumpAltCodeTable (tabs : List RawTable) : String :=
  "id  description\n" ++ "--- -----------------------------------\n" ++
    String.join (tabs.map fun t => pad3 t.id ++ " " ++ t.desc ++ "\n")

/-- `esl_gencode_Compare(gc1, gc2, metadata_too)` for two codes over alphabets of types `nt1 aa1` / `nt2 aa2`:
    `true` = eslOK (identical), `false` = eslFAIL; `none` = a table shorter than 64 entries was read out of bounds -/
def compareLoop (g1 g2 : Gencode) : Nat → Nat → Option Bool
  | 0, _ => some true
  | k+1, x => do
    let b1 ← g1.basic[x]?; let b2 ← g2.basic[x]?
    if b1 ≠ b2 then some false else do
    let i1 ← g1.isInit[x]?; let i2 ← g2.isInit[x]?
    if i1 ≠ i2 then some false else compareLoop g1 g2 k (x+1)

def compare (ntType1 aaType1 ntType2 aaType2 : Nat) (g1 g2 : Gencode) (metadataToo : Bool) : Option Bool :=
  if ntType1 ≠ ntType2 then some false
  else if aaType1 ≠ aaType2 then some false
  else if metadataToo && (g1.translTable ≠ g2.translTable || g1.desc ≠ g2.desc) then some false
  else compareLoop g1 g2 64 0

/-! ## the three-frame ORF machine (`esl_gencode_ProcessStart/Piece/Orf/End`) -/

/-- an emitted ORF record -/
structure Orf where
  num : Nat            -- orfcount at emission ("orf%d")
  start : Int
  stop : Int           -- `psq->end`
  frame : Nat          -- 1..6
  aa : List Nat        -- digital residues
  deriving DecidableEq, Repr

/-- the description `esl_gencode_ProcessOrf` formats for a record (`esl_sq_FormatDesc`): the name is `orf<num>` -/
def orfDesc (source desc : String) (o : Orf) : String :=
  s!"source={source} coords={o.start}..{o.stop} length={o.aa.length} frame={o.frame} desc={desc}"

def orfName (o : Orf) : String := s!"orf{o.num}"

/-- growing ORF of one frame (`wrk->psq[f]`, `wrk->in_orf[f]`): residues most recent first -/
structure FrameSt where
  rev : List Nat := []
  start : Int := 0
  inOrf : Bool := false
  deriving DecidableEq, Repr

/-- configuration taken from the options (`using_initiators`, `minlen`) -/
structure Cfg where
  usingInit : Bool
  minlen : Int

/-- `ESL_GENCODE_WORKSTATE`, stateful part except the rolling codon; `out` = ORFs emitted so far, most recent first -/
structure Core where
  f0 : FrameSt := {}
  f1 : FrameSt := {}
  f2 : FrameSt := {}
  apos : Int := 1
  frame : Nat := 0
  isRev : Bool := false
  orfcount : Nat := 0
  out : List Orf := []
  deriving DecidableEq, Repr

/-- the work state: `Core` + the rolling digitized codon `wrk->codon` and the degeneracy countdown `wrk->inval` -/
structure Work where
  c : Core := {}
  codon : Nat := 0
  inval : Nat := 0
  deriving DecidableEq, Repr

def Core.getF (w : Core) : FrameSt := if w.frame = 0 then w.f0 else if w.frame = 1 then w.f1 else w.f2
def Core.setF (w : Core) (f : FrameSt) : Core :=
  if w.frame = 0 then { w with f0 := f } else if w.frame = 1 then { w with f1 := f } else { w with f2 := f }

/-- `esl_gencode_ProcessOrf` -/
def processOrf (cfg : Cfg) (w : Core) : Core :=
  let p := w.getF
  let stop : Int := if w.isRev then w.apos + 1 else w.apos - 1
  let w := if p.inOrf && decide ((p.rev.length : Int) ≥ cfg.minlen) then
      { w with orfcount := w.orfcount + 1,
               out := { num := w.orfcount + 1, start := p.start, stop := stop,
                        frame := w.frame + 1 + (if w.isRev then 3 else 0), aa := p.rev.reverse } :: w.out }
    else w
  w.setF { rev := [], start := 0, inOrf := false }

/-- `esl_gencode_ProcessStart(gcode, wrk, sq)`: `d1 d2` = `sq->dsq[1], sq->dsq[2]`; keeps `orfcount` and the output -/
def processStart (nt : Alphabet) (w : Work) (isRev : Bool) (L : Int) (d1 d2 : Nat) : Work :=
  let c : Core := { orfcount := w.c.orfcount, out := w.c.out, isRev := isRev, apos := if isRev then L else 1 }
  let w : Work := { c := c }
  let w := if nt.xIsCanonical d1 then { w with codon := w.codon + 4 * d1 } else { w with inval := 1 }
  if nt.xIsCanonical d2 then { w with codon := w.codon + d2 } else { w with inval := 2 }

/-- the part of the loop body of `esl_gencode_ProcessPiece` after the residue `res` of the current codon is known:
    stop codon ⇒ ProcessOrf; append the residue if in an ORF; advance -/
def finishStep (aa : Alphabet) (cfg : Cfg) (w : Core) (res : Nat) : Core :=
  let w := if aa.xIsNonresidue res then processOrf cfg w else w
  let p := w.getF
  let w := if p.inOrf then w.setF { p with rev := res :: p.rev } else w
  { w with apos := if w.isRev then w.apos - 1 else w.apos + 1, frame := (w.frame + 1) % 3 }

/-- one iteration of the `rpos` loop of `esl_gencode_ProcessPiece` on the codon `a b c = dsq[rpos..rpos+2]` -/
def pieceStep (nt aa : Alphabet) (g : Gencode) (cfg : Cfg) (w : Work) (a b c : Nat) : Option Work := do
  let w := { w with codon := (w.codon * 4) % 64 }
  let w := if nt.xIsCanonical c then { w with codon := w.codon + c } else { w with inval := 3 }
  let met := aa.inmapAt 77
  if w.inval > 0 then do
    let t ← getTranslation nt aa g a b c
    let t8 : Nat := (t % 256).toNat           -- the `int` is stored into an ESL_DSQ
    let p := w.c.getF
    let (t8, core) ← (if !p.inOrf then do
        let ini ← isInitiator nt g a b c
        if ini ≠ 0 then
          some (if cfg.usingInit then met else t8, w.c.setF { p with inOrf := true, start := w.c.apos })
        else some (t8, w.c)
      else some (t8, w.c))
    some { w with c := finishStep aa cfg core t8, inval := w.inval - 1 }
  else do
    let t ← g.basic[w.codon]?
    let ini ← g.isInit[w.codon]?
    let p := w.c.getF
    let (t, core) := if ini ≠ 0 && !p.inOrf then
        (if cfg.usingInit then met else t, w.c.setF { p with inOrf := true, start := w.c.apos })
      else (t, w.c)
    some { w with c := finishStep aa cfg core t }

/-- `esl_gencode_ProcessPiece(gcode, wrk, sq)` on a window `d = sq->dsq[1..n]` -/
def processPiece (nt aa : Alphabet) (g : Gencode) (cfg : Cfg) : Work → List Nat → Option Work
  | w, a :: b :: c :: rest => do
    let w' ← pieceStep nt aa g cfg w a b c
    processPiece nt aa g cfg w' (b :: c :: rest)
  | w, _ => some w

/-- `esl_gencode_ProcessEnd` -/
def processEnd (cfg : Cfg) (w : Core) : Core :=
  let step (w : Core) : Core :=
    let w := processOrf cfg w
    { w with apos := if w.isRev then w.apos - 1 else w.apos + 1, frame := (w.frame + 1) % 3 }
  step (step (step w))

/-- the windows `ReadWindow(C=2, W)` delivers for window sizes `cuts`: the first window is the first `cuts[0]` residues,
    every later one is the last two residues of what came before followed by the next `cuts[i]` residues -/
def windows : List Nat → List Nat → List Nat → List (List Nat)
  | _, _, [] => []
  | prev, d, k :: ks =>
    let ctx := prev.drop (prev.length - 2)
    (ctx ++ d.take k) :: windows (prev ++ d.take k) (d.drop k) ks

/-- one strand of one sequence through ProcessStart / ProcessPiece per window / ProcessEnd (`d` in reading order) -/
def runStrand (nt aa : Alphabet) (g : Gencode) (cfg : Cfg) (w : Work) (isRev : Bool) (d : List Nat) (cuts : List Nat) :
    Option Work := do
  let wins := windows [] d cuts
  let w := processStart nt w isRev d.length (d.getD 0 0) (d.getD 1 0)
  let w ← wins.foldlM (fun w win => processPiece nt aa g cfg w win) w
  some { w with c := processEnd cfg w.c }

end EaselModel.Gencode
