import EaselModel.Shuffle.Lemmas
/-! The two retry loops return the FIRST accepted draw (termination itself holds with probability 1 and is modelled
    with fuel): `esl_rnd_Roll`'s rejection loop and the `while (!is_eulerian)` loop of the DP shuffle. -/
namespace EaselModel.Shuffle
open EaselModel.Random

/-- generator state after `k` raw draws -/
def rngAfter (r : Rng) : Nat → Rng
  | 0 => r
  | k+1 => rngAfter (r.next).2 k

/-- the `k`-th raw 32-bit word drawn from state `r` (`k = 0` is the next one) -/
def rngWord (r : Rng) (k : Nat) : UInt32 := ((rngAfter r k).next).1

theorem rngWord_succ (r : Rng) (k : Nat) : rngWord r (k+1) = rngWord (r.next).2 k := rfl

/-- `esl_rnd_Roll(r, n)` = the image of the first raw word that the rejection test accepts, and the generator has
    advanced by exactly the words examined; `none` (fuel exhausted) iff all `fuel` first words are rejected -/
theorem Rng_roll_first_accepted (n : Nat) : ∀ (fuel : Nat) (r : Rng),
    match r.roll n fuel with
    | some (v, r') => ∃ k, k < fuel ∧ rollWord n (rngWord r k).toNat = some v ∧ r' = rngAfter r (k+1) ∧
                        ∀ j, j < k → rollWord n (rngWord r j).toNat = none
    | none => ∀ j, j < fuel → rollWord n (rngWord r j).toNat = none := by
  intro fuel
  induction fuel with
  | zero => intro r; simp [Rng.roll]
  | succ fuel ih =>
    intro r
    simp only [Rng.roll]
    cases hw : rollWord n (r.next).1.toNat with
    | some v =>
      simp only
      exact ⟨0, by omega, by simpa [rngWord, rngAfter] using hw, rfl, fun j hj => by omega⟩
    | none =>
      simp only
      have := ih (r.next).2
      cases hr : Rng.roll (r.next).2 n fuel with
      | some p =>
        obtain ⟨v, r'⟩ := p
        rw [hr] at this
        simp only at this ⊢
        obtain ⟨k, hk, h1, h2, h3⟩ := this
        refine ⟨k+1, by omega, by rw [rngWord_succ]; exact h1, h2, fun j hj => ?_⟩
        cases j with
        | zero => simpa [rngWord, rngAfter] using hw
        | succ j => rw [rngWord_succ]; exact h3 j (by omega)
      | none =>
        rw [hr] at this
        simp only at this ⊢
        intro j hj
        cases j with
        | zero => simpa [rngWord, rngAfter] using hw
        | succ j => rw [rngWord_succ]; exact this j (by omega)

/-- the model's `roll`: first accepted draw within `rollFuel` words -/
theorem roll_first_accepted (r : Rng) (n : Nat) :
    (∃ k, k < rollFuel ∧ rollWord n (rngWord r k).toNat = some (roll r n).1 ∧ (roll r n).2 = rngAfter r (k+1) ∧
        ∀ j, j < k → rollWord n (rngWord r j).toNat = none) ∨
    ((∀ j, j < rollFuel → rollWord n (rngWord r j).toNat = none) ∧ roll r n = (0, r)) := by
  have h := Rng_roll_first_accepted n rollFuel r
  unfold roll
  cases hr : r.roll n rollFuel with
  | some p =>
    obtain ⟨v, r'⟩ := p
    rw [hr] at h
    exact Or.inl h
  | none =>
    rw [hr] at h
    exact Or.inr ⟨h, rfl⟩

/-! ## the `while (!is_eulerian)` loop -/
/-- one pass of the loop body: last-edge selection (step 2) -/
def dpAttemptStep (K sf : Nat) (s : Edges × Rng) : Edges × Rng := dpSelectLast sf (List.range K) s.1 s.2
/-- state after `k` passes -/
def dpAttempt (K sf : Nat) (s : Edges × Rng) : Nat → Edges × Rng
  | 0 => s
  | k+1 => dpAttempt K sf (dpAttemptStep K sf s) k
/-- the code's acceptance test (steps 3–4) on an edge ordering -/
def dpAccepted (K sf : Nat) (E : Edges) : Bool :=
  dpIsEulerian E K sf (dpConnect E K (K+1) ((Array.replicate K false).setIfInBounds sf true))

/-- `dpFind` returns the result of the first pass whose last-edge graph passes the connectivity test; the generator has
    consumed exactly the rolls of the passes made; `none` iff none of the first `fuel` passes is accepted -/
theorem dpFind_first_accepted (K sf : Nat) : ∀ (fuel : Nat) (E : Edges) (r : Rng),
    match dpFind K sf fuel E r with
    | some s => ∃ k, k < fuel ∧ s = dpAttempt K sf (E, r) (k+1) ∧ dpAccepted K sf s.1 = true ∧
                  ∀ j, j < k → dpAccepted K sf (dpAttempt K sf (E, r) (j+1)).1 = false
    | none => ∀ j, j < fuel → dpAccepted K sf (dpAttempt K sf (E, r) (j+1)).1 = false := by
  intro fuel
  induction fuel with
  | zero => intro E r; simp [dpFind]
  | succ fuel ih =>
    intro E r
    simp only [dpFind]
    by_cases hacc : dpAccepted K sf (dpSelectLast sf (List.range K) E r).1 = true
    · have hacc' := hacc
      unfold dpAccepted at hacc'
      rw [if_pos hacc']
      exact ⟨0, by omega, rfl, hacc, fun j hj => by omega⟩
    · have hacc' := hacc
      unfold dpAccepted at hacc'
      rw [if_neg hacc']
      have hf : dpAccepted K sf (dpSelectLast sf (List.range K) E r).1 = false := by
        cases h : dpAccepted K sf (dpSelectLast sf (List.range K) E r).1 <;> simp_all
      have := ih (dpSelectLast sf (List.range K) E r).1 (dpSelectLast sf (List.range K) E r).2
      cases hr : dpFind K sf fuel (dpSelectLast sf (List.range K) E r).1 (dpSelectLast sf (List.range K) E r).2 with
      | some s =>
        rw [hr] at this
        simp only at this ⊢
        obtain ⟨k, hk, h1, h2, h3⟩ := this
        refine ⟨k+1, by omega, h1, h2, fun j hj => ?_⟩
        cases j with
        | zero => exact hf
        | succ j => exact h3 j (by omega)
      | none =>
        rw [hr] at this
        simp only at this ⊢
        intro j hj
        cases j with
        | zero => exact hf
        | succ j => exact this j (by omega)

end EaselModel.Shuffle
