import EaselModel.Shuffle.Model
/-! # Run-time monitor of the binary64 facts L1–L5 behind the Markov / IID theorems (C18, support only)

The theorems `iid_support`, `{c,x}Markov0_spec`, `{c,x}Markov1_spec`, `sampleDirty_never_gap` are proved over any number
type satisfying `LawfulCNum` (`LemmasChoose.lean`). Round 6: every field of `LawfulCNum` is valid for EVERY binary64 value
(`=` meaning equality of bit patterns), and the class is PROVED for two carriers: ℚ (`LawfulRat.lean`) and `Ieee ρ`
(`IeeeCarrier.lean`: NaN, ±inf, ±0 and the representable rationals; operations = exact result delivered through any monotone
idempotent rounding `ρ`, special values by IEEE 754 §6). For Lean's opaque `Float` (what the driver computes with) and C's
`double` the one trusted statement is that they are such a carrier. The facts, as used:

* **L1 `u < (a + 0.0)/n  ⇔  u < a/n`** and **`0.0 + 0.0 = 0.0`** — `a` = the running sum of `esl_rnd_DChoose` before a `+0.0` entry
  (`a + 0.0 = a` bit for bit except `-0.0 + 0.0 = +0.0`; the monitor below evaluates the bitwise form on the running sums, which
  are never `-0.0`: they start from `+0.0`), and the row sum of an all-zero count row of `esl_rsq_{C,X}Markov1`;
* **L2 `0.0 / d = 0.0` for `0.0 < d`** — `d` = a positive row sum `p0[x]` of `Markov1` (`p[x][y] = p[x][y] / p0[x]` for a zero count);
* **L3 `0.0 / (double) n = 0.0` for an integer `n > 0`** — `n = L` (`p[x] /= L` of `Markov0`, `p0[x] /= L` of `Markov1`);
* **L4 `(x / 2^32 < 0.0 / norm) = false`** — `x / 2^32` = the value of `esl_random()`, `norm` = the sum of the vector.
* **L5 `norm / norm = 1.0`** for the finite non-zero sum `norm` of the vector (the scan's last running sum IS `norm`: same numbers
  added in the same order), and **`x / 2^32 < 1.0`** — used by the "never `esl_fatal`" theorems (`iid_never_fatal_ieee`; over ℚ in
  `MarkovRat.lean`); theorems of the carrier: `ieee_div_self`, `ieee_random_lt_one`.

`laws*` below replay the numeric pipeline of one call on a COPY of the generator state (the state is not advanced) and
evaluate every one of these instances on the values the call is about to encounter — L1 on every running sum, not only
the returning one. The harness does the same in C doubles; both report `checked` / `bad`, the counts are compared and
`bad` must be 0. This is evidence on the executed values only; it proves nothing about unexecuted ones. -/
namespace EaselModel.Shuffle
open EaselModel.Random

structure LawCount where
  checked : Nat := 0
  bad : Nat := 0

def LawCount.chk (c : LawCount) (ok : Bool) : LawCount := ⟨c.checked + 1, if ok then c.bad else c.bad + 1⟩

def fbitsEq (a b : Float) : Bool := a.toBits == b.toBits

/-- the instances one `esl_rnd_DChoose(r, p, N)` with `esl_random() = x / 2^32` relies on: L4 and L5 once, L1 at every running sum -/
def lawsDChoose (c : LawCount) (x : Nat) (p : List Float) : LawCount :=
  let norm := p.foldl (· + ·) 0.0
  let u := Float.ofNat x / Float.ofNat 4294967296
  let c := c.chk (!(u < 0.0 / norm))
  let c := c.chk (u < 1.0)                                                                  -- L5
  let c := if 0.0 < norm && norm.isFinite then c.chk (fbitsEq (norm / norm) 1.0) else c     -- L5
  (p.foldl (fun (st : LawCount × Float) q => (st.1.chk (fbitsEq (st.2 + 0.0) st.2), st.2 + q)) (c, 0.0)).1

/-- `n` successive `DChoose(r, p)` (the loop of `esl_rsq_IID` …), stopping where the model's `iidLoop` stops -/
def lawsIid (p : List Float) : Nat → Rng → LawCount → LawCount
  | 0, _, c => c
  | n+1, r, c =>
    let (x, r') := r.randomNum
    let c := lawsDChoose c x p
    match dchoose (Float.ofNat x / Float.ofNat 4294967296) p with
    | some _ => lawsIid p n r' c
    | none => c

/-- `esl_rsq_{C,X}Markov0` on validated vertex codes -/
def lawsMarkov0 (K : Nat) (codes : List Nat) (r : Rng) : LawCount :=
  let L := codes.length
  let c : LawCount := {}
  let c := if L > 0 then c.chk (fbitsEq (0.0 / Float.ofNat L) 0.0) else c
  lawsIid (markov0P (α := Float) K codes) L r c

def lawsMarkov1Loop (p : Array (Array Float)) : Nat → Nat → Rng → LawCount → LawCount
  | 0, _, _, c => c
  | n+1, x, r, c =>
    let (xn, r') := r.randomNum
    let row := (p[x]!).toList
    let c := lawsDChoose c xn row
    match dchoose (Float.ofNat xn / Float.ofNat 4294967296) row with
    | some y => lawsMarkov1Loop p n y r' c
    | none => c

/-- `esl_rsq_{C,X}Markov1` on validated vertex codes, `length > 2` -/
def lawsMarkov1 (K : Nat) (codes : List Nat) (r : Rng) : LawCount :=
  let L := codes.length
  let cnt := markov1Counts (α := Float) K codes
  let sums := cnt.map (fun row => row.foldl (· + ·) 0.0)
  let c : LawCount := {}
  let c := sums.foldl (fun (c : LawCount) d => if 0.0 < d then c.chk (fbitsEq (0.0 / d) 0.0) else c) c     -- L2
  let c := c.chk (fbitsEq (0.0 + 0.0) 0.0)                                                                -- L1 at a = 0
  let c := c.chk (fbitsEq (0.0 / Float.ofNat L) 0.0)                                                      -- L3
  let (p, p0) := markov1P L cnt
  let (xn, r') := r.randomNum
  let c := lawsDChoose c xn p0.toList
  match dchoose (Float.ofNat xn / Float.ofNat 4294967296) p0.toList with
  | some x => lawsMarkov1Loop p (L - 1) x r' c
  | none => c

end EaselModel.Shuffle
