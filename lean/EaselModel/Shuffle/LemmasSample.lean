import EaselModel.Shuffle.Lemmas
/-! `esl_vec_*Shuffle64` (64-bit generator) and `esl_rsq_Sample`. -/
namespace EaselModel.Shuffle
open EaselModel.Random

theorem rollWord64_lt' (n x v : Nat) (h : rollWord64 n x = some v) : v < n := by
  unfold rollWord64 at h
  simp only at h
  split at h
  · cases h; assumption
  · cases h

theorem Rng64_roll_lt (r : Rng64) (n fuel v : Nat) (r' : Rng64) (h : r.roll n fuel = some (v, r')) : v < n := by
  induction fuel generalizing r with
  | zero => simp [Rng64.roll] at h
  | succ fuel ih =>
    simp only [Rng64.roll] at h
    split at h
    · rename_i v' hv; cases h; exact rollWord64_lt' _ _ _ hv
    · exact ih _ h

theorem roll64_lt (r : Rng64) (n : Nat) (hn : 0 < n) : (roll64 r n).1 < n := by
  unfold roll64
  split
  · rename_i p hp
    obtain ⟨v, r'⟩ := p
    exact Rng64_roll_lt r n _ v r' hp
  · exact hn

theorem fyLoop64_inv {σ : Type} (sw : σ → Nat → Nat → σ) (base N : Nat) (P : σ → Prop)
    (hsw : ∀ s i j, P s → base ≤ i → i < base + N → base ≤ j → j < base + N → P (sw s i j)) :
    ∀ n, n ≤ N → ∀ s r, P s → P (fyLoop64 sw base n s r).1 := by
  intro n
  induction n using Nat.strongRecOn with
  | _ n ih =>
    intro hn s r hP
    match n with
    | 0 => simpa [fyLoop64] using hP
    | 1 => simpa [fyLoop64] using hP
    | n+2 =>
      simp only [fyLoop64]
      have hl := roll64_lt r (n+2) (by omega)
      apply ih (n+1) (by omega) (by omega)
      apply hsw _ _ _ hP <;> omega

/-- every entry of the class table is a code `< 128` of the class -/
theorem sampleTable_mem (cls : Nat → Bool) (x : Nat) (h : x ∈ sampleTable cls) : x < 128 ∧ cls x = true := by
  simp only [sampleTable, List.mem_toArray, List.mem_filter, List.mem_range] at h
  exact h

theorem sampleLoop_spec (c : Array Nat) (hc : 0 < c.size) : ∀ (L : Nat) (r : Rng) (acc : Array Nat),
    (∀ x ∈ acc, x ∈ c) → (sampleLoop c L r acc).1.size = acc.size + L ∧ ∀ x ∈ (sampleLoop c L r acc).1, x ∈ c := by
  intro L
  induction L with
  | zero => intro r acc h; exact ⟨rfl, h⟩
  | succ L ih =>
    intro r acc h
    simp only [sampleLoop]
    have hl := roll_lt r c.size hc
    obtain ⟨h1, h2⟩ := ih (roll r c.size).2 (acc.push (c.getD (roll r c.size).1 0)) (by
      intro x hx
      rcases Array.mem_push.mp hx with hx | hx
      · exact h x hx
      · subst hx
        rw [Array.getD_eq_getD_getElem?, Array.getElem?_eq_getElem hl]
        exact Array.getElem_mem hl)
    exact ⟨by rw [h1, Array.size_push]; omega, h2⟩

theorem sampleTable_nonempty (flag : Nat) (cls : Nat → Bool) (h : sampleClass flag = some cls) : 0 < (sampleTable cls).size := by
  unfold sampleClass at h
  split at h <;> first | (cases h; decide) | (cases h)

/-- `esl_rsq_Sample`: a bad flag is `eslEINVAL`; otherwise `L` characters, each a 7-bit code of the requested class -/
theorem rsqSample_spec' (flag L : Nat) (r : Rng) :
    match sampleClass flag with
    | none => (rsqSample flag L r).1 = none
    | some cls => ∃ out, (rsqSample flag L r).1 = some out ∧ out.size = L ∧ ∀ x ∈ out, x < 128 ∧ cls x = true := by
  cases h : sampleClass flag with
  | none => simp [rsqSample, h]
  | some cls =>
    simp only [rsqSample, h]
    obtain ⟨h1, h2⟩ := sampleLoop_spec (sampleTable cls) (sampleTable_nonempty flag cls h) L r #[] (by simp)
    exact ⟨_, rfl, by simpa using h1, fun x hx => sampleTable_mem cls x (h2 x hx)⟩

/-! ## `esl_rsq_SampleDirty` with a sampled probability vector -/
theorem dirichletUniform_go_size : ∀ (n : Nat) (r : Rng) (p : Array Float) (norm : Float),
    (dirichletUniform.go n r p norm).1.size = p.size + n := by
  intro n
  induction n with
  | zero => intro r p norm; rfl
  | succ n ih => intro r p norm; simp only [dirichletUniform.go]; rw [ih]; simp; omega

theorem dirichletUniform_size (K : Nat) (r : Rng) : (dirichletUniform K r).1.size = K := by
  simp [dirichletUniform, dirichletUniform_go_size]

/-- the sampled vector has `Kp` entries and is exactly `0.0` at gap `K`, nonresidue `Kp-2` and missing `Kp-1` -/
theorem dirtyP_zeros (K Kp : Nat) (h : K + 3 ≤ Kp) (r : Rng) :
    (dirtyP K Kp r).1.size = Kp ∧ (dirtyP K Kp r).1[K]? = some 0.0 ∧ (dirtyP K Kp r).1[Kp - 2]? = some 0.0 ∧
      (dirtyP K Kp r).1[Kp - 1]? = some 0.0 := by
  simp only [dirtyP]
  generalize hp1 : (dirichletUniform K (r.randomNum).2) = d1
  generalize hp2 : (dirichletUniform (Kp - K - 3) d1.2) = d2
  have s1 : d1.1.size = K := by rw [← hp1]; exact dirichletUniform_size _ _
  have s2 : d2.1.size = Kp - K - 3 := by rw [← hp2]; exact dirichletUniform_size _ _
  refine ⟨by simp [s1, s2]; omega, ?_, ?_, ?_⟩
  · rw [Array.append_assoc, Array.append_assoc, Array.getElem?_append_right (by simp [s1])]
    simp only [Array.size_map, s1, Nat.sub_self]
    rw [Array.getElem?_append_left (by simp)]; rfl
  · rw [Array.getElem?_append_right (by simp [s1, s2]; omega)]
    simp [s1, s2]
    have : Kp - 2 - (K + 1 + (Kp - K - 3)) = 0 := by omega
    rw [this]; rfl
  · rw [Array.getElem?_append_right (by simp [s1, s2]; omega)]
    simp [s1, s2]
    have : Kp - 1 - (K + 1 + (Kp - K - 3)) = 1 := by omega
    rw [this]; rfl

end EaselModel.Shuffle
