import EaselModel.Shuffle.LemmasKmer
/-! In place = separate storage: after the initial conditional copy the working storage IS the input, whatever the
    separate storage held before, when it has exactly the input's size (text: `strlen(s)` cells, the NUL is not
    modelled; digital: `L+2` cells). Larger storage: the cells beyond are never touched — not stated here. -/
namespace EaselModel.Shuffle
open EaselModel.Random

theorem Out.load_separate {α : Type} (s d : Array α) (h : d.size = s.size) : (Out.separate d).load s = s := by
  obtain ⟨hs, hg⟩ := blit_spec d 0 s (by omega)
  apply Array.ext_getElem?
  intro p
  show (blit d 0 s)[p]? = s[p]?
  rw [hg p]
  by_cases c : p < s.size
  · rw [if_pos ⟨Nat.zero_le _, by omega⟩]; simp
  · rw [if_neg (by omega), Array.getElem?_eq_none (by omega), Array.getElem?_eq_none (by omega)]

@[simp] theorem Out.load_inPlace {α : Type} (s : Array α) : (Out.inPlace : Out α).load s = s := rfl

theorem cShuffleOut_eq {α : Type} (s d : Array α) (h : d.size = s.size) (r : Rng) :
    cShuffleOut s (.separate d) r = cShuffleOut s .inPlace r ∧ cShuffleOut s .inPlace r = cShuffle s r := by
  simp [cShuffleOut, cShuffle, Out.load_separate s d h]

theorem xShuffleOut_eq (dsq d : Bytes) (L : Nat) (h : d.size = dsq.size) (r : Rng) :
    xShuffleOut dsq L (.separate d) r = xShuffleOut dsq L .inPlace r ∧ xShuffleOut dsq L .inPlace r = xShuffle dsq L r := by
  simp [xShuffleOut, Out.load_separate dsq d h]

theorem shuffleKmersOut_eq {α : Type} (base : Nat) (a d : Array α) (L K : Nat) (h : d.size = a.size) (r : Rng) :
    shuffleKmersOut base a L K (.separate d) r = shuffleKmersOut base a L K .inPlace r ∧
      shuffleKmersOut base a L K .inPlace r = shuffleKmers base a L K r := by
  simp [shuffleKmersOut, Out.load_separate a d h]

theorem cShuffleWindowsOut_eq {α : Type} (s d : Array α) (w : Nat) (h : d.size = s.size) (r : Rng) :
    cShuffleWindowsOut s w (.separate d) r = cShuffleWindowsOut s w .inPlace r ∧
      cShuffleWindowsOut s w .inPlace r = cShuffleWindows s w r := by
  simp [cShuffleWindowsOut, cShuffleWindows, Out.load_separate s d h]

theorem xShuffleWindowsOut_eq (dsq d : Bytes) (L w : Nat) (h : d.size = dsq.size) (r : Rng) :
    xShuffleWindowsOut dsq L w (.separate d) r = xShuffleWindowsOut dsq L w .inPlace r ∧
      xShuffleWindowsOut dsq L w .inPlace r = xShuffleWindows dsq L w r := by
  simp [xShuffleWindowsOut, Out.load_separate dsq d h]

theorem msaShuffleOut_eq {α : Type} (base : Nat) (rows shuf : Array (Array α)) (alen : Nat)
    (hsz : shuf.size = rows.size) (hrow : ∀ i (h : i < rows.size), (shuf[i]'(hsz ▸ h)).size = rows[i].size) (r : Rng) :
    msaShuffleOut base rows alen (some shuf) r = msaShuffleOut base rows alen none r := by
  simp only [msaShuffleOut]
  congr 1
  apply Array.ext (by simp)
  intro i h1 h2
  simp only [Array.getElem_mapIdx]
  have hi : i < rows.size := h2
  have : shuf.getD i #[] = shuf[i]'(hsz ▸ hi) := by
    rw [Array.getD_eq_getD_getElem?, Array.getElem?_eq_getElem (hsz ▸ hi)]; rfl
  rw [this]
  exact Out.load_separate _ _ (hrow i hi)

theorem qrnaOn_self (isGap : UInt8 → Bool) (x y : Bytes) (base L : Nat) (r : Rng) :
    qrnaOn isGap x y x y base L r = qrna isGap x y base L r := rfl

/-- all four aliasing combinations of `xs`/`ys` give the result of the fully in-place call -/
theorem qrnaOut_eq (isGap : UInt8 → Bool) (x y : Bytes) (ox oy : Out UInt8) (base L : Nat) (r : Rng)
    (hx : ∀ d, ox = .separate d → d.size = x.size) (hy : ∀ d, oy = .separate d → d.size = y.size) :
    qrnaOut isGap x y ox oy base L r = qrna isGap x y base L r := by
  have ex : ox.load x = x := by
    cases ox with
    | inPlace => rfl
    | separate d => exact Out.load_separate x d (hx d rfl)
  have ey : oy.load y = y := by
    cases oy with
    | inPlace => rfl
    | separate d => exact Out.load_separate y d (hy d rfl)
  rw [qrnaOut, ex, ey, qrnaOn_self]

/-- status of the whole QRNA call -/
theorem qrnaCall_status (isGap : UInt8 → Bool) (x y : Bytes) (ox oy : Out UInt8) (base : Nat) (r : Rng) :
    ((qrnaCall isGap x y ox oy base r).1 = .einval ↔ x.size - 2 * base ≠ y.size - 2 * base) ∧
    ((qrnaCall isGap x y ox oy base r).1 = .emem ↔ x.size - 2 * base = y.size - 2 * base ∧ x.size - 2 * base = 0) ∧
    ((qrnaCall isGap x y ox oy base r).1 = .einval ∨ (qrnaCall isGap x y ox oy base r).1 = .emem → (qrnaCall isGap x y ox oy base r).2 = r) ∧
    (x.size - 2 * base = y.size - 2 * base → x.size - 2 * base ≠ 0 →
      qrnaCall isGap x y ox oy base r =
        (.ok (qrnaOut isGap x y ox oy base (x.size - 2 * base) r).1.1 (qrnaOut isGap x y ox oy base (x.size - 2 * base) r).1.2,
         (qrnaOut isGap x y ox oy base (x.size - 2 * base) r).2)) := by
  unfold qrnaCall
  simp only []
  generalize x.size - 2 * base = Lx
  generalize y.size - 2 * base = Ly
  by_cases h1 : Lx = Ly
  · subst h1
    by_cases h2 : Lx = 0
    · subst h2; simp
    · simp [h2]
  · simp [h1]

end EaselModel.Shuffle
