import EaselModel.Shuffle.LemmasTermination
import EaselModel.Shuffle.LemmasSample
/-! Progress of the two probabilistically terminating loops, stated on the RAW WORD STREAM.

`esl_rnd_Roll` is `do { u = esl_random_uint32(r) / factor; } while (u >= n);`. `rollOn n ws` is that loop reading its raw
32-bit words from the explicit finite list `ws`. Proved here:
* refinement: `Rng.roll` (the model on the C09 generator) IS `rollOn` on the words the generator delivers;
* partial correctness: if `rollOn` returns `v` then `v < n`, `v` is the image of the first accepted word, and all words
  before it were rejected (and consumed);
* progress: whatever finite run of words the loop has already rejected, there is a continuation by ONE word on which it
  returns (every word below `n·f` does, more than half of all words; every value `v < n` is reachable) — so the loop can
  only run forever on a stream that stays in the rejection interval forever (probability 0 for a uniform stream).
* the same for one pass of the DP shuffle's `while (!is_eulerian)`: an explicit finite word list exists on which the pass
  selects last edges that the code's own connectivity test accepts. -/
namespace EaselModel.Shuffle
open EaselModel.Random

/-- `esl_rnd_Roll(r, n)` reading raw words from a list: `some (v, rest)` = returned `v`, `rest` unread;
    `none` = all words rejected, the C loop is still running -/
def rollOn (n : Nat) : List Nat → Option (Nat × List Nat)
  | [] => none
  | x :: xs =>
    match rollWord n x with
    | some v => some (v, xs)
    | none => rollOn n xs

/-- the first `k` raw words generator state `r` delivers -/
def rngWords (r : Rng) (k : Nat) : List Nat := (List.range k).map (fun j => (rngWord r j).toNat)

theorem rngWords_length (r : Rng) (k : Nat) : (rngWords r k).length = k := by simp [rngWords]

theorem rngWords_succ (r : Rng) (k : Nat) : rngWords r (k+1) = (r.next).1.toNat :: rngWords (r.next).2 k := by
  unfold rngWords
  rw [List.range_succ_eq_map]
  simp only [List.map_cons, List.map_map]
  congr 1

theorem rollOn_length (n : Nat) : ∀ (ws : List Nat) (v : Nat) (rest : List Nat),
    rollOn n ws = some (v, rest) → rest.length < ws.length := by
  intro ws
  induction ws with
  | nil => intro v rest h; simp [rollOn] at h
  | cons x xs ih =>
    intro v rest h
    simp only [rollOn] at h
    split at h
    · cases h; simp
    · have := ih v rest h; simp; omega

theorem rngAfter_succ (r : Rng) (k : Nat) : rngAfter r (k+1) = rngAfter (r.next).2 k := rfl

/-- **refinement**: the model's rejection loop on generator state `r` is `rollOn` on the words `r` delivers; the generator
    has advanced by exactly the words read -/
theorem Rng_roll_eq_rollOn (n : Nat) : ∀ (fuel : Nat) (r : Rng),
    r.roll n fuel = (rollOn n (rngWords r fuel)).map (fun p => (p.1, rngAfter r (fuel - p.2.length))) := by
  intro fuel
  induction fuel with
  | zero => intro r; simp [Rng.roll, rngWords, rollOn]
  | succ fuel ih =>
    intro r
    rw [rngWords_succ]
    simp only [Rng.roll, rollOn]
    cases hw : rollWord n (r.next).1.toNat with
    | some v =>
      simp only [Option.map_some, rngWords_length]
      rw [show fuel + 1 - fuel = 1 by omega]
      rfl
    | none =>
      simp only
      rw [ih (r.next).2]
      cases hr : rollOn n (rngWords (r.next).2 fuel) with
      | none => rfl
      | some p =>
        obtain ⟨v, rest⟩ := p
        have hl := rollOn_length n _ v rest hr
        rw [rngWords_length] at hl
        simp only [Option.map_some]
        rw [show fuel + 1 - rest.length = (fuel - rest.length) + 1 by omega, rngAfter_succ]

/-- **partial correctness**: if the loop returns, the value is in range, it is the image `x / f` of the first accepted
    word `x`, every earlier word was rejected, and exactly those words were consumed -/
theorem rollOn_spec (n : Nat) : ∀ (ws : List Nat) (v : Nat) (rest : List Nat), rollOn n ws = some (v, rest) →
    ∃ pre x, ws = pre ++ x :: rest ∧ (∀ y ∈ pre, rollWord n y = none) ∧ rollWord n x = some v ∧
      v < n ∧ v = x / ((2^32 - 1) / n) := by
  intro ws
  induction ws with
  | nil => intro v rest h; simp [rollOn] at h
  | cons x xs ih =>
    intro v rest h
    simp only [rollOn] at h
    split at h
    · rename_i v' hv
      cases h
      refine ⟨[], x, rfl, by simp, hv, rollWord_lt _ _ _ hv, ?_⟩
      unfold rollWord at hv
      simp only at hv
      split at hv
      · cases hv; rfl
      · cases hv
    · rename_i hv
      obtain ⟨pre, x', h1, h2, h3⟩ := ih v rest h
      refine ⟨x :: pre, x', by rw [h1]; rfl, ?_, h3⟩
      intro y hy
      rcases List.mem_cons.1 hy with e | e
      · rw [e]; exact hv
      · exact h2 y e

/-- the loop is still running after `ws` iff every word of `ws` was rejected -/
theorem rollOn_none_iff (n : Nat) : ∀ ws : List Nat, rollOn n ws = none ↔ ∀ y ∈ ws, rollWord n y = none := by
  intro ws
  induction ws with
  | nil => simp [rollOn]
  | cons x xs ih =>
    simp only [rollOn]
    cases hx : rollWord n x with
    | some v => simp [hx]
    | none => simp [hx, ih]

theorem rollOn_append_rejected (n : Nat) : ∀ (ws tail : List Nat), (∀ y ∈ ws, rollWord n y = none) →
    rollOn n (ws ++ tail) = rollOn n tail := by
  intro ws
  induction ws with
  | nil => intro tail _; rfl
  | cons x xs ih =>
    intro tail h
    simp only [List.cons_append, rollOn]
    rw [h x (by simp)]
    exact ih tail (fun y hy => h y (by simp [hy]))

/-- the accepted words are exactly those below `n·f` -/
theorem rollWord_some_of_lt (n x : Nat) (hn : 0 < n) (hn' : n < 2^32) (hx : x < n * ((2^32-1)/n)) :
    ∃ v, rollWord n x = some v ∧ v < n := by
  cases h : rollWord n x with
  | some v => exact ⟨v, rfl, rollWord_lt _ _ _ h⟩
  | none => have := (rollWord_none_iff n x hn hn').1 h; omega

/-- the word `v·f` is accepted with value `v` -/
theorem rollWord_mul (n v : Nat) (hn : 0 < n) (hn' : n < 2^32) (hv : v < n) : rollWord n (v * ((2^32-1)/n)) = some v := by
  have hf : 0 < (2^32-1)/n := Nat.div_pos (by omega) hn
  unfold rollWord
  simp only
  rw [Nat.mul_div_cancel _ hf, if_pos hv]

theorem mul_factor_lt (n v : Nat) (hv : v < n) : v * ((2^32-1)/n) < 2^32 := by
  have h1 : n * ((2^32-1)/n) ≤ 2^32-1 := Nat.mul_div_le _ _
  have h2 : v * ((2^32-1)/n) ≤ n * ((2^32-1)/n) := Nat.mul_le_mul_right _ (by omega)
  omega

/-- **progress**: after ANY finite run of rejected words, every next word below `n·f` (more than `2^31` of the `2^32`
    words; the word `0` is one) makes the loop return, with the whole stream consumed -/
theorem rollOn_progress (n : Nat) (hn : 0 < n) (hn' : n < 2^32) (ws : List Nat) (h : rollOn n ws = none)
    (w : Nat) (hw : w < n * ((2^32-1)/n)) : ∃ v, rollOn n (ws ++ [w]) = some (v, []) ∧ v < n := by
  rw [rollOn_append_rejected n ws [w] ((rollOn_none_iff n ws).1 h)]
  obtain ⟨v, h1, h2⟩ := rollWord_some_of_lt n w hn hn' hw
  exact ⟨v, by simp [rollOn, h1], h2⟩

/-- … and every value `v < n` is reachable by one more 32-bit word -/
theorem rollOn_reach (n : Nat) (hn : 0 < n) (hn' : n < 2^32) (ws : List Nat) (h : rollOn n ws = none) (v : Nat) (hv : v < n)
    (tail : List Nat) : rollOn n (ws ++ v * ((2^32-1)/n) :: tail) = some (v, tail) := by
  rw [rollOn_append_rejected n ws _ ((rollOn_none_iff n ws).1 h)]
  simp [rollOn, rollWord_mul n v hn hn' hv]

/-! ## one pass of the DP shuffle's retry loop on a word stream -/
/-- step (2) of the DP shuffle with `esl_rnd_Roll` reading from the word list; `none` = a rejection loop ran off the list -/
def dpSelectLastOn (sf : Nat) : List Nat → Edges → List Nat → Option (Edges × List Nat)
  | [], E, ws => some (E, ws)
  | x :: xs, E, ws =>
    if (E[x]!).size == 0 || x == sf then dpSelectLastOn sf xs E ws
    else
      match rollOn (E[x]!).size ws with
      | none => none
      | some (pos, ws') => dpSelectLastOn sf xs (E.modify x (fun l => l.swapIfInBounds pos ((E[x]!).size - 1))) ws'

/-- the words `pos_i · f_i` that make the pass draw the in-range roll vector `rs` -/
def dpWordsFor (sf : Nat) : List Nat → Edges → List Nat → List Nat
  | [], _, _ => []
  | x :: xs, E, rs =>
    if (E[x]!).size == 0 || x == sf then dpWordsFor sf xs E rs
    else
      match rs with
      | [] => []
      | pos :: rs' => pos * ((2^32-1) / (E[x]!).size) ::
          dpWordsFor sf xs (E.modify x (fun l => l.swapIfInBounds pos ((E[x]!).size - 1))) rs'

theorem size_bang_eq_elist (E : Edges) (v : Nat) : (E[v]!).size = (elist E v).length := by simp [elist]

/-- every in-range roll vector of a pass is produced by an explicit list of 32-bit words, none of them rejected -/
theorem dpSelectLastOn_words (sf : Nat) : ∀ (xs : List Nat) (E : Edges) (rs : List Nat) (tail : List Nat),
    (∀ v, (elist E v).length < 2^32) → DpValidRolls sf xs E rs →
    dpSelectLastOn sf xs E (dpWordsFor sf xs E rs ++ tail) = some (dpSelectLastRolls sf xs E rs, tail) ∧
      (∀ w ∈ dpWordsFor sf xs E rs, w < 2^32) ∧ (dpWordsFor sf xs E rs).length = rs.length := by
  intro xs
  induction xs with
  | nil =>
    intro E rs tail _ hv
    simp only [DpValidRolls] at hv
    subst hv
    simp [dpSelectLastOn, dpWordsFor, dpSelectLastRolls]
  | cons x xs ih =>
    intro E rs tail hb hv
    simp only [dpSelectLastOn, dpWordsFor, dpSelectLastRolls, DpValidRolls] at hv ⊢
    split
    · rename_i hc
      rw [if_pos hc] at hv
      exact ih E rs tail hb hv
    · rename_i hc
      rw [if_neg hc] at hv
      simp only [Bool.or_eq_true, beq_iff_eq, not_or] at hc
      match rs, hv with
      | pos :: rs', hv =>
        obtain ⟨hpos, hv'⟩ := hv
        have hn : 0 < (E[x]!).size := by omega
        have hn' : (E[x]!).size < 2^32 := by rw [size_bang_eq_elist]; exact hb x
        have hb' : ∀ v, (elist (E.modify x (fun l => l.swapIfInBounds pos ((E[x]!).size - 1))) v).length < 2^32 := by
          intro v
          rw [((permEdges_modify_swap E x pos ((E[x]!).size - 1)).perm v).length_eq]
          exact hb v
        obtain ⟨h1, h2, h3⟩ := ih _ rs' tail hb' hv'
        simp only [List.cons_append, rollOn, rollWord_mul _ pos hn hn' hpos]
        refine ⟨h1, ?_, by simp [h3]⟩
        intro w hw
        rcases List.mem_cons.1 hw with e | e
        · rw [e]; exact mul_factor_lt _ pos hpos
        · exact h2 w e

/-- **the retry loop can always succeed, at the level of raw words**: for every valid non-empty input and every edge ordering a
    pass can start from there is a finite list of 32-bit words on which the pass — reading its rolls through the rejection
    loop — consumes the whole list and selects last edges that the code's own connectivity test accepts -/
theorem exists_accepting_words (K : Nat) (codes : List Nat) (hK : ∀ c ∈ codes, c < K) (hne : codes ≠ [])
    (E : Edges) (hp : PermEdges E (dpBuild K codes)) (hb : ∀ v, (elist E v).length < 2^32) :
    ∃ ws E', (∀ w ∈ ws, w < 2^32) ∧ dpSelectLastOn (codes.getLastD 0) (List.range K) E ws = some (E', []) ∧
      dpAccepted K (codes.getLastD 0) E' = true := by
  obtain ⟨rs, hv, hacc⟩ := exists_accepting_rolls' K codes hK hne E hp
  obtain ⟨h1, h2, _⟩ := dpSelectLastOn_words (codes.getLastD 0) (List.range K) E rs [] hb hv
  exact ⟨_, _, h2, by simpa using h1, hacc⟩

/-- the pass on the generator is the pass on the generator's words (same roll values, hence same result), as long as the
    fuel of the individual rejection loops is not exhausted: stated through the roll vectors — `dpSelectLast` computes
    `dpSelectLastRolls` on in-range rolls (`dpSelectLast_eq_rolls`) and so does `dpSelectLastOn` whenever it returns -/
theorem dpSelectLastOn_eq_rolls (sf : Nat) : ∀ (xs : List Nat) (E : Edges) (ws : List Nat) (E' : Edges) (rest : List Nat),
    dpSelectLastOn sf xs E ws = some (E', rest) →
    ∃ rs, DpValidRolls sf xs E rs ∧ E' = dpSelectLastRolls sf xs E rs := by
  intro xs
  induction xs with
  | nil =>
    intro E ws E' rest h
    simp only [dpSelectLastOn, Option.some.injEq, Prod.mk.injEq] at h
    exact ⟨[], rfl, h.1.symm⟩
  | cons x xs ih =>
    intro E ws E' rest h
    simp only [dpSelectLastOn] at h
    split at h
    · rename_i hc
      obtain ⟨rs, h1, h2⟩ := ih E ws E' rest h
      exact ⟨rs, by simp only [DpValidRolls]; rw [if_pos hc]; exact h1, by simp only [dpSelectLastRolls]; rw [if_pos hc]; exact h2⟩
    · rename_i hc
      split at h
      · cases h
      · rename_i pos ws' hr
        obtain ⟨rs, h1, h2⟩ := ih _ ws' E' rest h
        obtain ⟨_, _, _, _, _, hlt, _⟩ := rollOn_spec _ ws pos ws' hr
        refine ⟨pos :: rs, ?_, ?_⟩
        · simp only [DpValidRolls]; rw [if_neg hc]; exact ⟨hlt, h1⟩
        · simp only [dpSelectLastRolls]; rw [if_neg hc]; exact h2

/-! ## the same for `esl_rand64_Roll` (the `esl_vec_*Shuffle64` family) -/
def rollOn64 (n : Nat) : List Nat → Option (Nat × List Nat)
  | [] => none
  | x :: xs =>
    match rollWord64 n x with
    | some v => some (v, xs)
    | none => rollOn64 n xs

def rng64After (r : Rng64) : Nat → Rng64
  | 0 => r
  | k+1 => rng64After (r.next).2 k

/-- the first `k` raw 64-bit words generator state `r` delivers -/
def rng64Words (r : Rng64) : Nat → List Nat
  | 0 => []
  | k+1 => (r.next).1.toNat :: rng64Words (r.next).2 k

theorem rng64Words_length (r : Rng64) (k : Nat) : (rng64Words r k).length = k := by
  induction k generalizing r with
  | zero => rfl
  | succ k ih => simp [rng64Words, ih]

theorem rollOn64_length (n : Nat) : ∀ (ws : List Nat) (v : Nat) (rest : List Nat),
    rollOn64 n ws = some (v, rest) → rest.length < ws.length := by
  intro ws
  induction ws with
  | nil => intro v rest h; simp [rollOn64] at h
  | cons x xs ih =>
    intro v rest h
    simp only [rollOn64] at h
    split at h
    · cases h; simp
    · have := ih v rest h; simp; omega

/-- refinement: the model's 64-bit rejection loop is `rollOn64` on the words the 64-bit generator delivers -/
theorem Rng64_roll_eq_rollOn64 (n : Nat) : ∀ (fuel : Nat) (r : Rng64),
    r.roll n fuel = (rollOn64 n (rng64Words r fuel)).map (fun p => (p.1, rng64After r (fuel - p.2.length))) := by
  intro fuel
  induction fuel with
  | zero => intro r; simp [Rng64.roll, rng64Words, rollOn64]
  | succ fuel ih =>
    intro r
    simp only [Rng64.roll, rng64Words, rollOn64]
    cases hw : rollWord64 n (r.next).1.toNat with
    | some v =>
      simp only [Option.map_some, rng64Words_length]
      rw [show fuel + 1 - fuel = 1 by omega]
      rfl
    | none =>
      simp only
      rw [ih (r.next).2]
      cases hr : rollOn64 n (rng64Words (r.next).2 fuel) with
      | none => rfl
      | some p =>
        obtain ⟨v, rest⟩ := p
        have hl := rollOn64_length n _ v rest hr
        rw [rng64Words_length] at hl
        simp only [Option.map_some]
        rw [show fuel + 1 - rest.length = (fuel - rest.length) + 1 by omega]
        rfl

theorem rollOn64_none_iff (n : Nat) : ∀ ws : List Nat, rollOn64 n ws = none ↔ ∀ y ∈ ws, rollWord64 n y = none := by
  intro ws
  induction ws with
  | nil => simp [rollOn64]
  | cons x xs ih =>
    simp only [rollOn64]
    cases hx : rollWord64 n x with
    | some v => simp [hx]
    | none => simp [hx, ih]

theorem rollOn64_append_rejected (n : Nat) : ∀ (ws tail : List Nat), (∀ y ∈ ws, rollWord64 n y = none) →
    rollOn64 n (ws ++ tail) = rollOn64 n tail := by
  intro ws
  induction ws with
  | nil => intro tail _; rfl
  | cons x xs ih =>
    intro tail h
    simp only [List.cons_append, rollOn64]
    rw [h x (by simp)]
    exact ih tail (fun y hy => h y (by simp [hy]))

/-- partial correctness + progress for `esl_rand64_Roll`: a returned value is `< n`; after any finite run of rejected words
    every next word below `n·f` (at least half of all 64-bit words) makes the loop return -/
theorem rollOn64_progress (n : Nat) (hn : 0 < n) (hn' : n < 2^64) (ws : List Nat) (h : rollOn64 n ws = none)
    (w : Nat) (hw : w < n * ((2^64-1)/n)) : ∃ v, rollOn64 n (ws ++ [w]) = some (v, []) ∧ v < n := by
  rw [rollOn64_append_rejected n ws [w] ((rollOn64_none_iff n ws).1 h)]
  cases hx : rollWord64 n w with
  | some v => exact ⟨v, by simp [rollOn64, hx], rollWord64_lt' _ _ _ hx⟩
  | none => have := (rollWord64_none_iff n w hn hn').1 hx; omega

theorem rollOn64_lt (n : Nat) : ∀ (ws : List Nat) (v : Nat) (rest : List Nat), rollOn64 n ws = some (v, rest) → v < n := by
  intro ws
  induction ws with
  | nil => intro v rest h; simp [rollOn64] at h
  | cons x xs ih =>
    intro v rest h
    simp only [rollOn64] at h
    split at h
    · rename_i v' hv; cases h; exact rollWord64_lt' _ _ _ hv
    · exact ih v rest h


/-! ## from every generator state, a state that differs in ONE table word lets `esl_rnd_Roll` return at once
(the test hook `poke` of the harness realises exactly this state; `temper(0) = 0`, and the word `0` is accepted for every `n`) -/

theorem fillA_size' {α : Type} [Inhabited α] (g : α → α → α → α) (N : Nat) (i1 iM : Nat → Nat) (a : Array α) :
    (EaselModel.MTP.fillA g N i1 iM a).size = a.size := by
  unfold EaselModel.MTP.fillA
  generalize List.range N = l
  induction l generalizing a with
  | nil => rfl
  | cons z l ih => simp only [List.foldl_cons]; rw [ih, EaselModel.MTP.size_stepA]

theorem temper32_zero : temper32 0 = 0 := by decide

theorem rollWord_zero (n : Nat) (hn : 0 < n) : rollWord n 0 = some 0 := by
  unfold rollWord
  simp [hn]

/-- the state `pokeRaw` works on: table refilled if exhausted -/
theorem poke_ready (r : Rng) (hk : r.kind = .mersenne) (hs : r.st.mt.size = 624) :
    let r1 := if r.st.mti ≥ 624 then (r.next).2 else r
    r1.kind = .mersenne ∧ r1.st.mt.size = 624 ∧ r1.st.mti < 624 := by
  intro r1
  by_cases h : r.st.mti ≥ 624
  · have e : r1 = (r.next).2 := by simp [r1, h]
    rw [e]
    simp only [Rng.next, hk, EaselModel.MTP.next]
    have hN : P32.N = 624 := rfl
    simp only [hN, h, ↓reduceIte]
    refine ⟨trivial, ?_, by omega⟩
    simp only [EaselModel.MTP.refill]
    rw [fillA_size', hs]
  · have e : r1 = r := by simp [r1, h]
    rw [e]
    exact ⟨hk, hs, by omega⟩

theorem roll_returns_after_poke (r : Rng) (hk : r.kind = .mersenne) (hs : r.st.mt.size = 624) (n fuel : Nat) (hn : 0 < n) :
    ∃ r', (r.pokeRaw 0).roll n (fuel+1) = some (0, r') := by
  obtain ⟨h1, h2, h3⟩ := poke_ready r hk hs
  simp only [Rng.pokeRaw, hk]
  generalize (if r.st.mti ≥ 624 then (r.next).2 else r) = r1 at h1 h2 h3
  simp only [Rng.roll, Rng.next, h1, EaselModel.MTP.next]
  have hN : P32.N = 624 := rfl
  have hlt : ¬ (r1.st.mti ≥ P32.N) := by rw [hN]; omega
  simp only [hlt, ↓reduceIte]
  have hv : (r1.st.mt.setIfInBounds r1.st.mti (0 : UInt32)).getD r1.st.mti default = 0 := by
    rw [Array.getD_eq_getD_getElem?, Array.getElem?_setIfInBounds]
    simp [h2, h3]
  have ht : P32.temper = temper32 := rfl
  rw [ht, hv, temper32_zero]
  simp [rollWord_zero n hn]
end EaselModel.Shuffle
