import EaselModel.Shuffle.MarkovRat
import EaselModel.Shuffle.MarkovIeee
/-! # `esl_random() = 0.0` exactly (C18, round 6b)
The roll `0.0` (raw generator word 0) is the boundary of the scan's strict `<`: `esl_rnd_DChoose` must skip every leading entry
of probability zero and return the FIRST entry of positive probability (a `<=` would return index 0). Over ℚ this is a corollary of
the inverse-CDF bracket; the differential run forces this roll at every draw of IID / Markov-0 / Markov-1 (`poke raw=0 n=620`,
cases `zero-roll-*`) and the plug-in monitor computes exactly this expected output. -/
namespace EaselModel.Shuffle
open CNum

theorem sum_take_zero_all_zero : ∀ (p : List ℚ) (k : Nat), (∀ q ∈ p, 0 ≤ q) → (p.take k).sum ≤ 0 → ∀ j, j < k → ∀ q, p[j]? = some q → q = 0 := by
  intro p
  induction p with
  | nil => intro k _ _ j _ q h; simp at h
  | cons a t ih =>
    intro k hnn hs j hj q hq
    cases k with
    | zero => omega
    | succ k =>
      simp only [List.take_succ_cons, List.sum_cons] at hs
      have ha : 0 ≤ a := hnn a (by simp)
      have ht : 0 ≤ (t.take k).sum := List.sum_nonneg (fun x hx => hnn x (List.mem_cons_of_mem _ (List.mem_of_mem_take hx)))
      cases j with
      | zero => simp at hq; rw [← hq]; linarith
      | succ j =>
        simp at hq
        exact ih k (fun x hx => hnn x (List.mem_cons_of_mem _ hx)) (by linarith) j (by omega) q hq

/-- **roll exactly 0**: on a vector of non-negative entries with a positive sum the chooser returns the first positive entry -/
theorem dchoose_zero_roll (p : List ℚ) (hp : ∀ q ∈ p, 0 ≤ q) (hs : 0 < p.sum) :
    ∃ k, dchoose (0 : ℚ) p = some k ∧ (∀ j, j < k → ∀ q, p[j]? = some q → q = 0) ∧ ∃ q, p[k]? = some q ∧ 0 < q := by
  obtain ⟨k, hk, _, q, hq1, hq2⟩ := dchoose_total (0 : ℚ) (le_refl _) (by norm_num) p hp hs
  obtain ⟨hlo, _⟩ := dchoose_bracket (0 : ℚ) (le_refl _) p hs k hk
  refine ⟨k, hk, ?_, q, hq1, hq2⟩
  have h0 : (p.take k).sum ≤ 0 := by
    by_contra hc
    have : 0 < (p.take k).sum / p.sum := div_pos (not_le.mp hc) hs
    linarith
  exact sum_take_zero_all_zero p k hp h0

/-! ## the same in rounded arithmetic -/
variable (ρ : Rounding)

/-- `esl_random()` for the raw word 0 is `+0.0` -/
theorem random_zero_ieee : (div (ofNat 0) (ofNat 4294967296) : Ieee ρ) = zero := by
  apply Subtype.ext
  show Raw.div ρ (ofNat 0 : Ieee ρ).1 (ofNat 4294967296 : Ieee ρ).1 = .zero false
  rw [ofNat_val ρ 0 (by norm_num), ofNat_val ρ 4294967296 (le_refl _)]
  simp [Raw.div, sgn]

/-- roll `+0.0`, running sum still a zero (of either sign): entries that are zeros are skipped, and the first finite entry `p_k` whose
    quotient by `norm` is positive (no underflow) is returned -/
theorem dchooseGo_zero_roll_ieee (norm : Ieee ρ) : ∀ (zs : List (Ieee ρ)) (pk : Ieee ρ) (rest : List (Ieee ρ)) (sum : Ieee ρ) (i : Nat) (s : ℚ),
    (∃ t, sum.1 = .zero t) → (∀ z ∈ zs, IsZero ρ z) → pk.1 = .fin s → lt (zero : Ieee ρ) (div pk norm) = true →
    dchooseGo (zero : Ieee ρ) norm (zs ++ pk :: rest) sum i = some (i + zs.length) := by
  intro zs
  induction zs with
  | nil =>
    intro pk rest sum i s ⟨t, hsum⟩ _ hpk hlt
    simp only [List.nil_append, dchooseGo, List.length_nil, Nat.add_zero]
    have hadd : add sum pk = pk := by
      apply Subtype.ext
      show Raw.add ρ sum.1 pk.1 = pk.1
      have hrep := pk.2
      rw [hsum, hpk] at *
      simp only [Raw.add]
      exact rnd_of_rep ρ s hrep
    rw [hadd, hlt]; rfl
  | cons z zs ih =>
    intro pk rest sum i s ⟨t, hsum⟩ hz hpk hlt
    obtain ⟨t', hz'⟩ := hz z (by simp)
    have hadd : (add sum z).1 = .zero (t && t') := by
      show Raw.add ρ sum.1 z.1 = _
      rw [hsum, hz']; rfl
    have hno : lt (zero : Ieee ρ) (div (add sum z) norm) = false := by
      show Raw.lt (.zero false) (Raw.div ρ (add sum z).1 norm.1) = false
      rw [hadd]
      exact lt_NN_ZN _ _ (Or.inr (Or.inl rfl)) (zero_div_ZN ρ _ _)
    simp only [List.cons_append, dchooseGo, hno, Bool.false_eq_true, ↓reduceIte, List.length_cons]
    rw [ih pk rest (add sum z) (i + 1) s ⟨_, hadd⟩ (fun x hx => hz x (List.mem_cons_of_mem _ hx)) hpk hlt]
    congr 1; omega

/-- **roll exactly 0 in rounded arithmetic**: leading `±0.0` entries are skipped and the first entry with a positive quotient is returned -/
theorem dchoose_zero_roll_ieee (zs : List (Ieee ρ)) (pk : Ieee ρ) (rest : List (Ieee ρ)) (s : ℚ)
    (hz : ∀ z ∈ zs, IsZero ρ z) (hpk : pk.1 = .fin s)
    (hlt : lt (zero : Ieee ρ) (div pk ((zs ++ pk :: rest).foldl add zero)) = true) :
    dchoose (div (ofNat 0) (ofNat 4294967296) : Ieee ρ) (zs ++ pk :: rest) = some zs.length := by
  rw [random_zero_ieee]
  unfold dchoose
  have := dchooseGo_zero_roll_ieee ρ _ zs pk rest zero 0 s ⟨false, rfl⟩ hz hpk hlt
  simpa using this

end EaselModel.Shuffle
