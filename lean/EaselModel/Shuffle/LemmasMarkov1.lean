import EaselModel.Shuffle.LemmasChoose
/-! Order-1 Markov resampling emits only adjacent pairs of the circularised input. -/
namespace EaselModel.Shuffle
open EaselModel.Random CNum

/-- adjacent pairs of a list -/
def adjPairs : List Nat → List (Nat × Nat)
  | a :: b :: t => (a, b) :: adjPairs (b :: t)
  | _ => []

/-- adjacent pairs reading the input circularly: the pairs of `codes ++ [first]` -/
def circPairs (codes : List Nat) : List (Nat × Nat) := adjPairs (codes ++ codes.take 1)

theorem adjPairs_append_singleton (a : Nat) (l : List Nat) (z : Nat) :
    adjPairs ((a :: l) ++ [z]) = adjPairs (a :: l) ++ [((a :: l).getLast (by simp), z)] := by
  induction l generalizing a with
  | nil => simp [adjPairs]
  | cons b t ih =>
    have := ih b
    simp only [List.cons_append] at this ⊢
    simp only [adjPairs, this, List.cons_append, List.getLast_cons_cons]

theorem getLast_snoc' (a x : Nat) (t : List Nat) (h : a :: (t ++ [x]) ≠ []) : (a :: (t ++ [x])).getLast h = x := by
  induction t generalizing a with
  | nil => rfl
  | cons b t ih => simp only [List.cons_append, List.getLast_cons_cons]; exact ih b _

theorem fst_mem_of_adjPairs (l : List Nat) (x y : Nat) (h : (x, y) ∈ adjPairs l) : x ∈ l.dropLast := by
  induction l with
  | nil => simp [adjPairs] at h
  | cons a t ih =>
    cases t with
    | nil => simp [adjPairs] at h
    | cons b t' =>
      simp only [adjPairs, List.mem_cons, Prod.mk.injEq] at h
      rcases h with ⟨h1, _⟩ | h
      · simp [h1]
      · have := ih h; simp only [List.dropLast_cons₂, List.mem_cons]; exact Or.inr this

variable {α : Type} [CNum α] [LawfulCNum α]

/-- entry `[x][y]` of a matrix, if present -/
def ent (m : Array (Array α)) (x y : Nat) : Option α := m[x]?.bind (fun row => row[y]?)

theorem ent_modify (m : Array (Array α)) (a b x y : Nat) (f : α → α) (h : (a, b) ≠ (x, y)) :
    ent (m.modify a (fun row => row.modify b f)) x y = ent m x y := by
  unfold ent
  rw [Array.getElem?_modify]
  by_cases e : a = x
  · subst e
    have hb : b ≠ y := fun e => h (by rw [e])
    cases hm : m[a]? with
    | none => simp
    | some row => simp [Array.getElem?_modify, hb]
  · simp [e]

/-- the counting fold visits exactly the adjacent pairs of `prev :: ys`, and ends on the last element -/
theorem countsRun_spec (ys : List Nat) : ∀ (m : Array (Array α)) (prev : Nat),
    let st := ys.foldl (fun (st : Array (Array α) × Nat) y =>
      (st.1.modify st.2 (fun row => row.modify y (fun v => add v one)), y)) (m, prev)
    st.2 = (prev :: ys).getLast (by simp) ∧ ∀ x y, (x, y) ∉ adjPairs (prev :: ys) → ent st.1 x y = ent m x y := by
  induction ys with
  | nil => intro m prev; simp [adjPairs]
  | cons y0 t ih =>
    intro m prev
    simp only [List.foldl_cons]
    obtain ⟨h1, h2⟩ := ih (m.modify prev (fun row => row.modify y0 (fun v => add v one))) y0
    refine ⟨by rw [h1]; simp, fun x y hxy => ?_⟩
    simp only [adjPairs, List.mem_cons, not_or] at hxy
    rw [h2 x y hxy.2]
    exact ent_modify m prev y0 x y _ (fun e => hxy.1 e.symm)

theorem ent_replicate (K x y : Nat) (q : α) (h : ent (Array.replicate K (Array.replicate K (zero : α))) x y = some q) : q = zero := by
  unfold ent at h
  simp only [Array.getElem?_replicate] at h
  split at h
  · simp only [Option.bind_some, Array.getElem?_replicate] at h
    split at h
    · simp at h; exact h.symm
    · simp at h
  · simp at h

/-- a non-zero first-order count witnesses a circular adjacent pair of the input -/
theorem markov1Counts_support (K : Nat) (codes : List Nat) (x y : Nat) (q : α)
    (h : ent (markov1Counts (α := α) K codes) x y = some q) (hq : q ≠ zero) : (x, y) ∈ circPairs codes := by
  apply Classical.byContradiction
  intro hn
  apply hq
  cases codes with
  | nil => exact ent_replicate K x y q h
  | cons c0 rest =>
    simp only [circPairs, List.take_succ_cons, List.take_zero] at hn
    rw [adjPairs_append_singleton] at hn
    simp only [List.mem_append, List.mem_singleton, not_or] at hn
    obtain ⟨hl, hpairs⟩ := countsRun_spec (α := α) rest (Array.replicate K (Array.replicate K zero)) c0
    simp only [markov1Counts] at h
    rw [ent_modify _ _ _ x y _ (by rw [hl]; exact fun e => hn.2 e.symm), hpairs x y hn.1] at h
    exact ent_replicate K x y q h

/-- a sum of zeros is zero -/
theorem foldl_add_zeros (l : List α) (h : ∀ v ∈ l, v = zero) : l.foldl add zero = zero := by
  induction l with
  | nil => rfl
  | cons a t ih =>
    simp only [List.foldl_cons]
    rw [h a (by simp), LawfulCNum.zero_add_zero]
    exact ih (fun v hv => h v (List.mem_cons_of_mem _ hv))

/-- conditional probability `p[x][y] ≠ 0` ⇒ count `[x][y] ≠ 0` -/
theorem markov1P_cond (L : Nat) (cnt : Array (Array α)) (x y : Nat) (q : α)
    (h : ent (markov1P L cnt).1 x y = some q) (hq : q ≠ zero) : ∃ v, ent cnt x y = some v ∧ v ≠ zero := by
  unfold ent at h ⊢
  simp only [markov1P, Array.getElem?_mapIdx] at h
  cases hr : cnt[x]? with
  | none => simp [hr] at h
  | some row =>
    simp only [hr, Option.map_some, Option.bind_some, Array.getElem?_map] at h ⊢
    cases hv : row[y]? with
    | none => simp [hv] at h
    | some v =>
      simp only [hv, Option.map_some, Option.some.injEq] at h
      refine ⟨v, rfl, fun hz => hq ?_⟩
      rw [← h, hz]
      split
      · rename_i hpos; exact LawfulCNum.zero_div_pos _ hpos
      · rfl

/-- marginal `p0[x] ≠ 0` ⇒ some count in row `x` is non-zero -/
theorem markov1P_marg (L : Nat) (hL : 0 < L) (cnt : Array (Array α)) (x : Nat) (q : α)
    (h : (markov1P L cnt).2[x]? = some q) (hq : q ≠ zero) : ∃ y v, ent cnt x y = some v ∧ v ≠ zero := by
  simp only [markov1P, Array.getElem?_map] at h
  cases hr : cnt[x]? with
  | none => simp [hr] at h
  | some row =>
    simp only [hr, Option.map_some, Option.some.injEq] at h
    apply Classical.byContradiction
    intro hn
    apply hq
    have hz : ∀ v ∈ row.toList, v = zero := by
      intro v hv
      apply Classical.byContradiction
      intro hvz
      obtain ⟨y, hy, hy'⟩ := List.getElem_of_mem hv
      exact hn ⟨y, v, by simp [ent, hr, ← hy', Array.getElem?_eq_getElem (show y < row.size by simpa using hy)], hvz⟩
    rw [← h, ← Array.foldl_toList, foldl_add_zeros _ hz]
    exact LawfulCNum.zero_div_ofNat L hL

theorem bang_toList_getElem? (p : Array (Array α)) (x y : Nat) (q : α) (h : (p[x]!).toList[y]? = some q) : ent p x y = some q := by
  unfold ent
  by_cases hx : x < p.size
  · rw [getElem!_pos p x hx] at h
    rw [Array.getElem?_eq_getElem hx]
    simpa using h
  · rw [Array.getElem!_eq_getD, Array.getD_eq_getD_getElem?, Array.getElem?_eq_none (by omega)] at h
    simp [show (default : Array α) = #[] from rfl] at h

/-- the generation loop: every new adjacent pair `(previous, new)` has non-zero conditional probability -/
theorem markov1Loop_pairs (p : Array (Array α)) (good : Nat × Nat → Prop)
    (hgood : ∀ x y q, ent p x y = some q → q ≠ zero → good (x, y)) :
    ∀ (n x : Nat) (r : Rng) (acc out : Array Nat),
      (markov1Loop p n x r acc).1 = some out → acc.toList.getLast? = some x → (∀ pr ∈ adjPairs acc.toList, good pr) →
      out.size = acc.size + n ∧ (∀ pr ∈ adjPairs out.toList, good pr) ∧ out.toList.head? = acc.toList.head? := by
  intro n
  induction n with
  | zero => intro x r acc out h _ hacc; simp only [markov1Loop] at h; cases h; exact ⟨rfl, hacc, rfl⟩
  | succ n ih =>
    intro x r acc out h hlast hacc
    simp only [markov1Loop] at h
    obtain ⟨xx, hx⟩ := randomNum_ratio (α := α) r
    split at h
    · rename_i y hy
      rw [hx] at hy
      obtain ⟨q, hq1, hq2⟩ := dchoose_nonzero xx 4294967296 _ y hy
      have hg := hgood x y q (bang_toList_getElem? p x y q hq1) hq2
      obtain ⟨l, hl⟩ : ∃ l, acc.toList = l ++ [x] := by
        have := List.getLast?_eq_some_iff.mp hlast
        exact this
      have hpairs : ∀ pr ∈ adjPairs (acc.push y).toList, good pr := by
        intro pr hpr
        simp only [Array.toList_push, hl] at hpr
        cases l with
        | nil => simp [adjPairs] at hpr; rw [hpr]; exact hg
        | cons a t =>
          have e : (a :: t ++ [x]) ++ [y] = (a :: (t ++ [x])) ++ [y] := by simp
          rw [e, adjPairs_append_singleton] at hpr
          rcases List.mem_append.mp hpr with hpr | hpr
          · exact hacc pr (by rw [hl]; exact hpr)
          · simp only [List.mem_singleton] at hpr
            rw [hpr, getLast_snoc']
            exact hg
      obtain ⟨h1, h2, h3⟩ := ih y _ (acc.push y) out h (by simp) hpairs
      refine ⟨by simp at h1; omega, h2, ?_⟩
      rw [h3, Array.toList_push, hl]
      cases l <;> simp
    · simp at h

/-- `esl_rsq_{C,X}Markov1` (input longer than 2): length kept; the first residue occurs in the input; every adjacent pair
    of the output is an adjacent pair of the input read circularly -/
theorem markov1_support (K : Nat) (codes : List Nat) (hlen : 2 < codes.length) (r : Rng) (out : Array Nat)
    (h : (markov1 (α := α) K codes r).1 = some out) :
    out.size = codes.length ∧ (∀ pr ∈ adjPairs out.toList, pr ∈ circPairs codes) ∧ ∃ x, out.toList.head? = some x ∧ x ∈ codes := by
  unfold markov1 at h
  simp only at h
  obtain ⟨xx, hx⟩ := randomNum_ratio (α := α) r
  split at h
  · rename_i x hxd
    rw [hx] at hxd
    obtain ⟨q, hq1, hq2⟩ := dchoose_nonzero xx 4294967296 _ x hxd
    rw [Array.getElem?_toList] at hq1
    obtain ⟨y, v, hv1, hv2⟩ := markov1P_marg codes.length (by omega) _ x q hq1 hq2
    have hxy := markov1Counts_support K codes x y v hv1 hv2
    have hxin : x ∈ codes := by
      have := fst_mem_of_adjPairs _ x y hxy
      cases codes with
      | nil => simp at hlen
      | cons c0 rest =>
        simp only [List.take_succ_cons, List.take_zero] at this
        rw [show (c0 :: rest) ++ [c0] = (c0 :: rest) ++ [c0] from rfl, List.dropLast_concat] at this
        exact this
    obtain ⟨h1, h2, h3⟩ := markov1Loop_pairs (markov1P codes.length (markov1Counts (α := α) K codes)).1
      (fun pr => pr ∈ circPairs codes)
      (fun a b q' he hq' => by
        obtain ⟨v', hv1', hv2'⟩ := markov1P_cond codes.length _ a b q' he hq'
        exact markov1Counts_support K codes a b v' hv1' hv2')
      (codes.length - 1) x _ #[x] out h (by simp) (by simp [adjPairs])
    refine ⟨by simp at h1; omega, h2, x, by simpa using h3, hxin⟩
  · simp at h

end EaselModel.Shuffle
