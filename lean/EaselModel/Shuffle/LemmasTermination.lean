import EaselModel.Shuffle.LemmasBEST
import EaselModel.Shuffle.LemmasRetry
/-! What can be proved about the two probabilistically terminating loops without probability theory.

* `esl_rnd_Roll`: the rejected raw words are exactly the top interval `[n·f, 2^32)`, `f = (2^32-1)/n`; it has at most
  `n` and at most `2^31` elements (fewer than `2^31` for every `int n`), so each draw is accepted with probability
  `> 1/2` and fuel `k` is exhausted only by `k` consecutive words of that interval.
* the DP shuffle's `while (!is_eulerian)`: for every input and every edge ordering the loop can be in, there IS an in-range
  vector of last-edge rolls that the code's connectivity test accepts (select, for each vertex, the successor of its last
  occurrence in the input). Each pass draws finitely many in-range rolls, each value has positive probability
  (`roll_unbiased32`), so each pass is accepted with positive probability. -/
namespace EaselModel.Shuffle
open EaselModel.Random

/-! ## rejection sampling -/
theorem reject_iff_gen (W n x : Nat) (hn : 0 < n) (hW : n ≤ W) :
    (let f := W / n; let u := x / f; if u < n then some u else none) = none ↔ n * (W / n) ≤ x := by
  have hf : 0 < W / n := Nat.div_pos hW hn
  simp only
  constructor
  · intro h
    split at h
    · cases h
    · rename_i hu
      exact (Nat.le_div_iff_mul_le hf).1 (by omega)
  · intro h
    have : n ≤ x / (W / n) := (Nat.le_div_iff_mul_le hf).2 h
    rw [if_neg (by omega)]

/-- the number `W+1 - n·(W/n)` of rejected words among `0..W` is at most `n` and at most half of all words -/
theorem reject_count_gen (W n : Nat) (hn : 0 < n) (hW : n ≤ W) :
    W + 1 - n * (W / n) ≤ n ∧ 2 * (W + 1 - n * (W / n)) ≤ W + 1 ∧ n * (W / n) ≤ W := by
  have h1 := Nat.div_add_mod W n
  have h2 := Nat.mod_lt W hn
  have h3 : n ≤ n * (W / n) := Nat.le_mul_of_pos_right n (Nat.div_pos hW hn)
  generalize n * (W / n) = q at *
  omega

theorem rollWord_none_iff (n x : Nat) (hn : 0 < n) (hn' : n < 2^32) : rollWord n x = none ↔ n * ((2^32-1)/n) ≤ x := by
  unfold rollWord
  exact reject_iff_gen (2^32-1) n x hn (by omega)

theorem rollWord64_none_iff (n x : Nat) (hn : 0 < n) (hn' : n < 2^64) : rollWord64 n x = none ↔ n * ((2^64-1)/n) ≤ x := by
  unfold rollWord64
  exact reject_iff_gen (2^64-1) n x hn (by omega)

/-- fuel is exhausted only by a run of words that all lie in the rejection interval -/
theorem Rng_roll_none_run (r : Rng) (n fuel : Nat) (hn : 0 < n) (hn' : n < 2^32) (h : r.roll n fuel = none) :
    ∀ j, j < fuel → n * ((2^32-1)/n) ≤ (rngWord r j).toNat := by
  have := Rng_roll_first_accepted n fuel r
  rw [h] at this
  intro j hj
  exact (rollWord_none_iff n _ hn hn').1 (this j hj)

/-! ## last-edge selection on explicit roll values -/
/-- step (2) of the DP shuffle driven by an explicit list of roll values (one per vertex that has edges and is not `sf`) -/
def dpSelectLastRolls (sf : Nat) : List Nat → Edges → List Nat → Edges
  | [], E, _ => E
  | x :: xs, E, rs =>
    if (E[x]!).size == 0 || x == sf then dpSelectLastRolls sf xs E rs
    else match rs with
      | [] => E
      | pos :: rs' => dpSelectLastRolls sf xs (E.modify x (fun l => l.swapIfInBounds pos ((E[x]!).size - 1))) rs'

/-- the roll values `dpSelectLast` obtains from generator state `r` -/
def dpDrawLast (sf : Nat) : List Nat → Edges → Rng → List Nat
  | [], _, _ => []
  | x :: xs, E, r =>
    if (E[x]!).size == 0 || x == sf then dpDrawLast sf xs E r
    else (roll r (E[x]!).size).1 ::
      dpDrawLast sf xs (E.modify x (fun l => l.swapIfInBounds (roll r (E[x]!).size).1 ((E[x]!).size - 1))) (roll r (E[x]!).size).2

/-- in-range roll vectors of one pass: one value per selected vertex, below that vertex's number of edges -/
def DpValidRolls (sf : Nat) : List Nat → Edges → List Nat → Prop
  | [], _, rs => rs = []
  | x :: xs, E, rs =>
    if (E[x]!).size == 0 || x == sf then DpValidRolls sf xs E rs
    else match rs with
      | [] => False
      | pos :: rs' => pos < (E[x]!).size ∧
          DpValidRolls sf xs (E.modify x (fun l => l.swapIfInBounds pos ((E[x]!).size - 1))) rs'

theorem dpSelectLast_eq_rolls (sf : Nat) : ∀ (xs : List Nat) (E : Edges) (r : Rng),
    (dpSelectLast sf xs E r).1 = dpSelectLastRolls sf xs E (dpDrawLast sf xs E r) ∧
      DpValidRolls sf xs E (dpDrawLast sf xs E r) := by
  intro xs
  induction xs with
  | nil => intro E r; exact ⟨rfl, rfl⟩
  | cons x xs ih =>
    intro E r
    simp only [dpSelectLast, dpSelectLastRolls, dpDrawLast, DpValidRolls]
    split
    · exact ih E r
    · rename_i hc
      simp only [Bool.or_eq_true, beq_iff_eq, not_or] at hc
      refine ⟨(ih _ _).1, roll_lt r _ (by omega), (ih _ _).2⟩

/-! ## the connectivity sweep is complete: it ends closed under "my last edge leads to a marked vertex" -/
def falseCount (Z : Array Bool) : Nat := Z.toList.count false

theorem falseCount_set (Z : Array Bool) (x : Nat) (hx : x < Z.size) (hz : Z[x]! = false) :
    falseCount (Z.setIfInBounds x true) < falseCount Z := by
  unfold falseCount
  rw [getElem!_pos Z x hx] at hz
  have hm : false ∈ Z.toList := by rw [← hz]; simp
  have hpos := List.count_pos_iff.2 hm
  rw [Array.toList_setIfInBounds, List.count_set (by simpa using hx)]
  have e1 : (Z.toList[x]'(by simpa using hx) == false) = true := by simp [hz]
  rw [if_pos e1, if_neg (by decide)]
  omega

theorem bang_set_true (Z : Array Bool) (x v : Nat) (h : Z[v]! = true) : (Z.setIfInBounds x true)[v]! = true := by
  rcases bang_set_gen Z x v true with e | ⟨e, _⟩
  · rw [e]; exact h
  · exact e

theorem dpSweep_facts (E : Edges) : ∀ (xs : List Nat) (Z : Array Bool) (keep : Bool), (∀ x ∈ xs, x < Z.size) →
    (dpSweep E xs Z keep).1.size = Z.size ∧ (∀ v : Nat, Z[v]! = true → (dpSweep E xs Z keep).1[v]! = true) ∧
    (keep = false → (dpSweep E xs Z keep).2 = true → falseCount (dpSweep E xs Z keep).1 < falseCount Z) ∧
    falseCount (dpSweep E xs Z keep).1 ≤ falseCount Z ∧
    (keep = true → (dpSweep E xs Z keep).2 = true) ∧
    ((dpSweep E xs Z keep).2 = false → (dpSweep E xs Z keep).1 = Z ∧
      ∀ x ∈ xs, (E[x]!).size ≠ 0 → Z[(E[x]!)[(E[x]!).size - 1]!]! = true → Z[x]! = true) := by
  intro xs
  induction xs with
  | nil =>
    intro Z keep _
    rw [show dpSweep E [] Z keep = (Z, keep) from rfl]
    exact ⟨rfl, fun _ h => h, fun h1 h2 => (by subst h1; cases h2), Nat.le_refl _, fun h => h, fun _ => ⟨rfl, fun x hx => by simp at hx⟩⟩
  | cons x xs ih =>
    intro Z keep hlt
    have hx : x < Z.size := hlt x (by simp)
    have hxs : ∀ y ∈ xs, y < Z.size := fun y hy => hlt y (by simp [hy])
    simp only [dpSweep]
    split
    · rename_i hn
      obtain ⟨a1, a2, a3, a4, a5, a6⟩ := ih Z keep hxs
      refine ⟨a1, a2, a3, a4, a5, fun h => ⟨(a6 h).1, fun y hy => ?_⟩⟩
      rcases List.mem_cons.1 hy with e | e
      · subst e; intro h0; exact absurd (by simpa using hn) h0
      · exact (a6 h).2 y e
    · rename_i hn
      split
      · rename_i hc
        simp only [Bool.and_eq_true, Bool.not_eq_true'] at hc
        obtain ⟨a1, a2, a3, a4, a5, a6⟩ := ih (Z.setIfInBounds x true) true (by simpa using hxs)
        have hdec := falseCount_set Z x hx hc.1
        refine ⟨by rw [a1]; simp, fun v hv => a2 v (bang_set_true Z x v hv), fun _ _ => by omega, by omega, fun _ => a5 rfl,
          fun h => ?_⟩
        rw [a5 rfl] at h; cases h
      · rename_i hc
        obtain ⟨a1, a2, a3, a4, a5, a6⟩ := ih Z keep hxs
        refine ⟨a1, a2, a3, a4, a5, fun h => ⟨(a6 h).1, fun y hy => ?_⟩⟩
        rcases List.mem_cons.1 hy with e | e
        · subst e
          intro _ hy'
          cases hz : Z[y]! with
          | true => rfl
          | false => exfalso; apply hc; simp [hz, hy']
        · exact (a6 h).2 y e

theorem dpConnect_closed (E : Edges) (K : Nat) : ∀ (fuel : Nat) (Z : Array Bool), Z.size = K → falseCount Z < fuel →
    (∀ v : Nat, Z[v]! = true → (dpConnect E K fuel Z)[v]! = true) ∧
    ∀ x, x < K → (E[x]!).size ≠ 0 → (dpConnect E K fuel Z)[(E[x]!)[(E[x]!).size - 1]!]! = true →
      (dpConnect E K fuel Z)[x]! = true := by
  intro fuel
  induction fuel with
  | zero => intro Z _ h; omega
  | succ fuel ih =>
    intro Z hs hc
    obtain ⟨a1, a2, a3, a4, a5, a6⟩ := dpSweep_facts E (List.range K) Z false (by intro x hx; simpa [hs] using hx)
    simp only [dpConnect]
    split
    · rename_i hk
      have := a3 rfl hk
      obtain ⟨b1, b2⟩ := ih (dpSweep E (List.range K) Z false).1 (by rw [a1, hs]) (by omega)
      exact ⟨fun v hv => b1 v (a2 v hv), b2⟩
    · rename_i hk
      have hk' : (dpSweep E (List.range K) Z false).2 = false := by simpa using hk
      obtain ⟨c1, c2⟩ := a6 hk'
      rw [c1]
      exact ⟨fun _ h => h, fun x hx => c2 x (by simpa using hx)⟩

/-- marks closed under "the successor of my last occurrence is marked" reach every residue of the sequence -/
theorem marked_all (Z : Array Bool) (sf : Nat) : ∀ (l : List Nat), l.getLast? = some sf → Z[sf]! = true →
    (∀ pre a b post, l = pre ++ a :: b :: post → a ∉ b :: post → Z[b]! = true → Z[a]! = true) →
    ∀ x ∈ l, Z[x]! = true := by
  intro l
  induction l with
  | nil => intro _ _ _ x hx; simp at hx
  | cons a t ih =>
    intro hl hsf hcl x hx
    cases t with
    | nil =>
      simp at hl hx
      subst hl; subst hx; exact hsf
    | cons b t' =>
      have iht := ih (by simpa using hl) hsf (fun pre a' b' post e => hcl (a :: pre) a' b' post (by rw [e]; rfl))
      rcases List.mem_cons.1 hx with e | e
      · subst e
        by_cases hm : x ∈ b :: t'
        · exact iht x hm
        · exact hcl [] x b t' rfl hm (iht b (by simp))
      · exact iht x e

/-! ## the witness: select, for every vertex, the successor of its last occurrence -/
/-- the element following the last occurrence of `x` in `l` (meaningful when `x` occurs at a non-final position and is
    not also the final element) -/
def lastSucc (x : Nat) : List Nat → Nat
  | [] => 0
  | _ :: t => if x ∈ t then lastSucc x t else t.headD 0

theorem lastSucc_split (x b : Nat) (post : List Nat) (h : x ∉ b :: post) : ∀ pre, lastSucc x (pre ++ x :: b :: post) = b := by
  intro pre
  induction pre with
  | nil => simp only [List.nil_append, lastSucc, if_neg h]; rfl
  | cons p pre ih =>
    simp only [List.cons_append, lastSucc]
    rw [if_pos (by simp), ih]

theorem last_split (x : Nat) : ∀ (l : List Nat), x ∈ l → l.getLast? ≠ some x →
    ∃ pre b post, l = pre ++ x :: b :: post ∧ x ∉ b :: post := by
  intro l
  induction l with
  | nil => intro h; simp at h
  | cons a t ih =>
    intro hx hl
    by_cases hm : x ∈ t
    · have hne : t ≠ [] := by intro e; subst e; simp at hm
      obtain ⟨pre, b, post, e, hn⟩ := ih hm (by rwa [List.getLast?_cons_of_ne_nil hne] at hl)
      exact ⟨a :: pre, b, post, by rw [e]; rfl, hn⟩
    · have : x = a := by simpa [hm] using hx
      subst this
      cases t with
      | nil => simp at hl
      | cons b post => exact ⟨[], b, post, rfl, hm⟩

theorem adjPairs_fst_mem (v y : Nat) : ∀ l : List Nat, (v, y) ∈ adjPairs l → v ∈ l := by
  intro l
  induction l with
  | nil => simp [adjPairs]
  | cons a t ih =>
    cases t with
    | nil => simp [adjPairs]
    | cons b t' =>
      simp only [adjPairs, List.mem_cons, Prod.mk.injEq]
      rintro (⟨h1, _⟩ | h2)
      · simp [h1]
      · have := ih h2; simp only [List.mem_cons] at this; exact Or.inr this

theorem adjPairs_mem_split (a b : Nat) (post : List Nat) : ∀ pre, (a, b) ∈ adjPairs (pre ++ a :: b :: post) := by
  intro pre
  induction pre with
  | nil => simp [adjPairs]
  | cons p pre ih =>
    cases pre with
    | nil => simp only [List.cons_append, List.nil_append, adjPairs]; simp
    | cons q pre' =>
      simp only [List.cons_append, adjPairs] at ih ⊢
      exact List.mem_cons_of_mem _ ih

/-- the roll vector that selects `tgt x` as the last edge of every visited vertex `x` -/
def dpWitness (sf : Nat) (tgt : Nat → Nat) : List Nat → Edges → List Nat
  | [], _ => []
  | x :: xs, E =>
    if (E[x]!).size == 0 || x == sf then dpWitness sf tgt xs E
    else (elist E x).idxOf (tgt x) ::
      dpWitness sf tgt xs (E.modify x (fun l => l.swapIfInBounds ((elist E x).idxOf (tgt x)) ((E[x]!).size - 1)))

theorem getElem?_swapIfInBounds'' {α : Type} (a : Array α) (i j k : Nat) (hi : i < a.size) (hj : j < a.size) :
    (a.swapIfInBounds i j)[k]? = if j = k then a[i]? else if i = k then a[j]? else a[k]? := by
  rw [swapIfInBounds_eq a i j hi hj, Array.getElem?_swap]
  split
  · simp [hi]
  · split
    · simp [hj]
    · rfl

theorem getElem?_swapIfInBounds_last (a : Array Nat) (i : Nat) (hi : i < a.size) :
    (a.swapIfInBounds i (a.size - 1))[a.size - 1]? = a[i]? := by
  rw [getElem?_swapIfInBounds'' a i (a.size - 1) (a.size - 1) hi (by omega), if_pos rfl]

theorem bang_eq_of_elist (E1 E : Edges) (v : Nat) (h : elist E1 v = elist E v) : E1[v]! = E[v]! := by
  unfold elist at h
  exact Array.toList_inj.1 h

theorem lastOf_modify_swap (E : Edges) (x y : Nat) (hx : x < E.size) (hy : y ∈ elist E x) :
    lastOf (E.modify x (fun l => l.swapIfInBounds ((elist E x).idxOf y) ((E[x]!).size - 1))) x = some y := by
  have hpos : (elist E x).idxOf y < (E[x]!).size := by
    have := List.idxOf_lt_length_of_mem hy
    simpa [elist] using this
  unfold lastOf
  rw [elist_modify_eq E x _ hx, List.getLast?_eq_getElem?]
  simp only [Array.length_toList, size_swapIfInBounds', Array.getElem?_toList]
  rw [getElem?_swapIfInBounds_last _ _ hpos]
  have := List.getElem_idxOf (x := y) (xs := elist E x) (by simpa [elist] using hpos)
  simp only [elist, Array.getElem_toList] at this
  rw [Array.getElem?_eq_getElem hpos]
  simp only [elist]
  exact congrArg some this

theorem dpWitness_spec (sf : Nat) (tgt : Nat → Nat) : ∀ (xs : List Nat) (E : Edges), xs.Nodup → (∀ x ∈ xs, x < E.size) →
    (∀ x ∈ xs, (E[x]!).size ≠ 0 → x ≠ sf → tgt x ∈ elist E x) →
    DpValidRolls sf xs E (dpWitness sf tgt xs E) ∧
    PermEdges (dpSelectLastRolls sf xs E (dpWitness sf tgt xs E)) E ∧
    (∀ v, v ∉ xs → elist (dpSelectLastRolls sf xs E (dpWitness sf tgt xs E)) v = elist E v) ∧
    (∀ x ∈ xs, (E[x]!).size ≠ 0 → x ≠ sf → lastOf (dpSelectLastRolls sf xs E (dpWitness sf tgt xs E)) x = some (tgt x)) := by
  intro xs
  induction xs with
  | nil =>
    intro E _ _ _
    exact ⟨rfl, PermEdges.refl E, fun _ _ => rfl, fun x hx => by simp at hx⟩
  | cons x xs ih =>
    intro E hnd hlt htg
    have hxn : x ∉ xs := (List.nodup_cons.1 hnd).1
    have hnd' : xs.Nodup := (List.nodup_cons.1 hnd).2
    have hx : x < E.size := hlt x (by simp)
    simp only [dpWitness, dpSelectLastRolls, DpValidRolls]
    split
    · rename_i hc
      obtain ⟨a1, a2, a3, a4⟩ := ih E hnd' (fun y hy => hlt y (by simp [hy])) (fun y hy => htg y (by simp [hy]))
      refine ⟨a1, a2, fun v hv => a3 v (fun h => hv (by simp [h])), fun y hy h0 hsf => ?_⟩
      rcases List.mem_cons.1 hy with e | e
      · subst e; simp only [Bool.or_eq_true, beq_iff_eq] at hc; omega
      · exact a4 y e h0 hsf
    · rename_i hc
      simp only [Bool.or_eq_true, beq_iff_eq, not_or] at hc
      have hmem := htg x (by simp) hc.1 hc.2
      have hpos : (elist E x).idxOf (tgt x) < (E[x]!).size := by
        have := List.idxOf_lt_length_of_mem hmem
        simpa [elist] using this
      dsimp only
      generalize hE1 : E.modify x (fun l => l.swapIfInBounds ((elist E x).idxOf (tgt x)) ((E[x]!).size - 1)) = E1
      have hne : ∀ v, v ≠ x → elist E1 v = elist E v := by
        intro v hv; rw [← hE1]; exact elist_modify_ne E x v _ (fun e => hv e.symm)
      have hlast1 : lastOf E1 x = some (tgt x) := by rw [← hE1]; exact lastOf_modify_swap E x (tgt x) hx hmem
      have hperm1 : PermEdges E1 E := by rw [← hE1]; exact permEdges_modify_swap E x _ _
      obtain ⟨a1, a2, a3, a4⟩ := ih E1 hnd' (fun y hy => by rw [hperm1.size]; exact hlt y (by simp [hy]))
        (fun y hy h0 hsf => by
          have hyx : y ≠ x := fun e => hxn (e ▸ hy)
          rw [hne y hyx]
          rw [bang_eq_of_elist E1 E y (hne y hyx)] at h0
          exact htg y (by simp [hy]) h0 hsf)
      refine ⟨⟨hpos, a1⟩, a2.trans hperm1, fun v hv => ?_, fun y hy h0 hsf => ?_⟩
      · rw [a3 v (fun h => hv (by simp [h])), hne v (fun e => hv (by simp [e]))]
      · rcases List.mem_cons.1 hy with e | e
        · subst e
          unfold lastOf
          rw [a3 y hxn]
          exact hlast1
        · have hyx : y ≠ x := fun e' => hxn (e' ▸ e)
          exact a4 y e (by rw [bang_eq_of_elist E1 E y (hne y hyx)]; exact h0) hsf

/-! ## acceptance of the witness -/
theorem dpAccepted_of_last (K sf : Nat) (codes : List Nat) (E' : Edges) (hsf : sf < K)
    (hlast : codes.getLast? = some sf) (hK : ∀ c ∈ codes, c < K)
    (hedge : ∀ x, x < K → (E'[x]!).size ≠ 0 → x ∈ codes)
    (hsplit : ∀ pre a b post, codes = pre ++ a :: b :: post → a ∉ b :: post →
      (E'[a]!).size ≠ 0 ∧ lastOf E' a = some b) : dpAccepted K sf E' = true := by
  unfold dpAccepted
  generalize hZ0 : (Array.replicate K false).setIfInBounds sf true = Z0
  have hs0 : Z0.size = K := by rw [← hZ0]; simp
  have hc0 : falseCount Z0 < K + 1 := by
    unfold falseCount
    have := List.count_le_length (a := false) (l := Z0.toList)
    simp only [Array.length_toList, hs0] at this
    omega
  have hsf0 : Z0[sf]! = true := by
    rw [← hZ0, getElem!_pos _ sf (by simpa using hsf)]
    simp
  obtain ⟨hmono, hclosed⟩ := dpConnect_closed E' K (K+1) Z0 hs0 hc0
  generalize dpConnect E' K (K+1) Z0 = Zs at hmono hclosed
  have hall := marked_all Zs sf codes hlast (hmono sf hsf0) (by
    intro pre a b post e hn hb
    obtain ⟨h1, h2⟩ := hsplit pre a b post e hn
    have ha : a < K := hK a (by rw [e]; simp)
    rw [lastOf_eq E' a h1] at h2
    apply hclosed a ha h1
    rw [Option.some.inj h2]; exact hb)
  simp only [dpIsEulerian, List.all_eq_true, List.mem_range, Bool.or_eq_true, beq_iff_eq]
  intro x hx
  by_cases h0 : (E'[x]!).size = 0
  · exact Or.inl (Or.inl h0)
  · exact Or.inr (hall x (hedge x hx h0))

theorem mem_elist_iff (K : Nat) (codes : List Nat) (hK : ∀ c ∈ codes, c < K) (E : Edges)
    (hp : PermEdges E (dpBuild K codes)) (v y : Nat) (hv : v < K) : y ∈ elist E v ↔ (v, y) ∈ adjPairs codes := by
  obtain ⟨hbs, hbp⟩ := dpBuild_spec K codes hK
  have hall := (hp.edgePairs K).trans hbp
  rw [← hall.mem_iff, ← List.count_pos_iff, ← List.count_pos_iff]
  unfold edgePairs
  rw [count_gather (fun u => elist E u) v y K, if_pos hv]

/-- **an accepted last-edge selection exists**: for every valid input longer than one residue and every edge ordering `E`
    the retry loop can hold (the lists of `dpBuild`, each permuted), some in-range roll vector makes step (2) produce a
    last-edge graph that the code's connectivity test (steps 3–4) accepts -/
theorem exists_accepting_rolls' (K : Nat) (codes : List Nat) (hK : ∀ c ∈ codes, c < K) (hne : codes ≠ [])
    (E : Edges) (hp : PermEdges E (dpBuild K codes)) :
    ∃ rs, DpValidRolls (codes.getLastD 0) (List.range K) E rs ∧
      dpAccepted K (codes.getLastD 0) (dpSelectLastRolls (codes.getLastD 0) (List.range K) E rs) = true := by
  generalize hsfe : codes.getLastD 0 = sf
  have hlast : codes.getLast? = some sf := by
    rw [← hsfe]
    cases codes with
    | nil => exact absurd rfl hne
    | cons a t => simp [List.getLastD, List.getLast?_eq_some_getLast]
  have hsfm : sf ∈ codes := List.mem_of_getLast? hlast
  have hsf : sf < K := hK sf hsfm
  have hsz : E.size = K := by rw [hp.size]; exact (dpBuild_spec K codes hK).1
  have hsize : ∀ (E2 : Edges) v, (E2[v]!).size = (elist E2 v).length := fun E2 v => by simp [elist]
  -- a vertex with edges occurs in the input
  have hocc : ∀ x, x < K → (E[x]!).size ≠ 0 → x ∈ codes := by
    intro x hx h0
    rw [hsize] at h0
    obtain ⟨y, hy⟩ := List.exists_mem_of_length_pos (Nat.pos_of_ne_zero h0)
    exact adjPairs_fst_mem x y codes ((mem_elist_iff K codes hK E hp x y hx).1 hy)
  have hspec := dpWitness_spec sf (fun x => lastSucc x codes) (List.range K) E List.nodup_range
    (by intro x hx; simpa [hsz] using hx)
    (by
      intro x hx h0 hxsf
      have hxK : x < K := by simpa using hx
      obtain ⟨pre, b, post, e, hn⟩ := last_split x codes (hocc x hxK h0) (by rw [hlast]; intro h; exact hxsf (Option.some.inj h).symm)
      have : lastSucc x codes = b := by rw [e]; exact lastSucc_split x b post hn pre
      rw [this]
      exact (mem_elist_iff K codes hK E hp x b hxK).2 (by rw [e]; exact adjPairs_mem_split x b post pre))
  obtain ⟨hvalid, hperm, _, hlastE⟩ := hspec
  refine ⟨_, hvalid, ?_⟩
  generalize dpSelectLastRolls sf (List.range K) E (dpWitness sf (fun x => lastSucc x codes) (List.range K) E) = E' at hperm hlastE
  have hlen : ∀ v : Nat, (E'[v]!).size = (E[v]!).size := by
    intro v; rw [hsize, hsize]; exact (hperm.perm v).length_eq
  apply dpAccepted_of_last K sf codes E' hsf hlast hK
  · intro x hx h0; exact hocc x hx (by rw [← hlen]; exact h0)
  · intro pre a b post e hn
    have ha : a < K := hK a (by rw [e]; simp)
    have hab : b ∈ elist E a := (mem_elist_iff K codes hK E hp a b ha).2 (by rw [e]; exact adjPairs_mem_split a b post pre)
    have h0 : (E[a]!).size ≠ 0 := by
      rw [hsize]; exact Nat.ne_of_gt (List.length_pos_of_mem hab)
    have hasf : a ≠ sf := by
      intro h
      apply hn
      have : (b :: post).getLast? = some sf := by
        rw [e, List.getLast?_append, List.getLast?_cons_cons] at hlast
        cases hg : (b :: post).getLast? with
        | none => simp at hg
        | some z => rw [hg] at hlast; simpa using hlast
      rw [h]; exact List.mem_of_getLast? this
    refine ⟨by rw [hlen]; exact h0, ?_⟩
    rw [hlastE a (by simpa using ha) h0 hasf, e, lastSucc_split a b post hn pre]

/-- every pass of the retry loop starts from an edge ordering that is a per-vertex permutation of the input's -/
theorem dpAttempt_perm (K sf : Nat) (s : Edges × Rng) : ∀ k, PermEdges (dpAttempt K sf s k).1 s.1 := by
  intro k
  induction k generalizing s with
  | zero => exact PermEdges.refl _
  | succ k ih => exact (ih (dpAttemptStep K sf s)).trans (dpSelectLast_perm sf _ _ _)

end EaselModel.Shuffle
