import EaselModel.Shuffle.LemmasChoose
import Mathlib.Algebra.Order.Field.Rat
import Mathlib.Algebra.Order.Field.Basic
import Mathlib.Algebra.Order.AbsoluteValue.Basic
import Mathlib.Tactic.Linarith
import Mathlib.Tactic.NormNum
import Mathlib.Tactic.FieldSimp
import Mathlib.Tactic.Ring
import Mathlib.Data.Rat.Floor
/-! # The binary64 facts L1–L5 PROVED for an IEEE-754 carrier with an abstract rounding (C18, round 6)

`Raw` is the value set of an IEEE-754 binary format read abstractly: NaN, the two infinities, the two signed zeros and the
non-zero finite values (as rationals). A `Rounding ρ` is any monotone, idempotent map `R : ℚ → ℚ` (round-to-nearest-even, but also
the three directed roundings) whose fixed points — the representable numbers — contain the integers `0..2^32` and the fractions
`k/2^32`, with a largest finite magnitude `big ≥ 2^32`. The operations are the standard's: the exact result rounded
(`rnd`: an exact zero sum is `+0`, a non-zero result rounded to zero keeps its sign, a rounded magnitude above `big` is the infinity
of that sign), the special-value tables of IEEE 754-2008 §6.1–6.3 for `+`, `/`, `<` (`inf - inf`, `0/0`, `inf/inf` are NaN;
`x/0 = ±inf`; the sign of a zero sum is `+` unless both are `-0`; the sign of a quotient is the xor; every comparison with NaN is
false; `-0 < +0` is false).

`Ieee ρ` (the representable values) is a `CNum`, and `LawfulCNum (Ieee ρ)` is a THEOREM (`ieee_lawful`): the four laws the Markov/IID
support theorems use hold for every value, signed zeros / infinities / NaN included. The fifth fact (`norm/norm = 1.0` for a
finite non-zero `norm`, `x/2^32 < 1.0` for `x < 2^32`) is `ieee_div_self`, `ieee_random_lt_one`. What stays trusted for the
C code and for Lean's opaque `Float` is ONE statement — "`+`, `/`, `<`, `(double) n` of binary64 are these operations for `ρ` =
round-to-nearest-even on 53-bit significands" — instead of five facts; binary64 satisfies `Rounding` because 33-bit integers and
the 32-bit fractions `k/2^32` are representable and `DBL_MAX ≥ 2^32`. -/
namespace EaselModel.Shuffle
open CNum

structure Rounding where
  R : ℚ → ℚ
  big : ℚ
  mono : ∀ x y : ℚ, x ≤ y → R x ≤ R y
  idem : ∀ x : ℚ, R (R x) = R x
  /-- integers `0 … 2^32` are representable -/
  nat : ∀ k : ℕ, k ≤ 4294967296 → R (k : ℚ) = (k : ℚ)
  /-- `k / 2^32` (`k ≤ 2^32`, the values of `esl_random()`) are representable -/
  grid : ∀ k : ℕ, k ≤ 4294967296 → R ((k : ℚ) / 4294967296) = (k : ℚ) / 4294967296
  big_ge : (4294967296 : ℚ) ≤ big

inductive Raw where
  | nan
  | inf (neg : Bool)
  | zero (neg : Bool)
  | fin (q : ℚ)
  deriving DecidableEq

/-- sign bit of a rational -/
def sgn (q : ℚ) : Bool := decide (q < 0)

variable (ρ : Rounding)

/-- representable: a finite value is non-zero, a fixed point of the rounding, of magnitude at most `big` -/
def Raw.Rep : Raw → Prop
  | .fin q => q ≠ 0 ∧ ρ.R q = q ∧ |q| ≤ ρ.big
  | _ => True

/-- deliver the exact result `q` -/
def rnd (q : ℚ) : Raw :=
  if q = 0 then .zero false
  else if ρ.R q = 0 then .zero (sgn q)
  else if ρ.big < |ρ.R q| then .inf (sgn q)
  else .fin (ρ.R q)

def Raw.add : Raw → Raw → Raw
  | .nan, _ => .nan
  | .inf _, .nan => .nan
  | .inf s, .inf t => if s = t then .inf s else .nan
  | .inf s, .zero _ => .inf s
  | .inf s, .fin _ => .inf s
  | .zero _, .nan => .nan
  | .zero _, .inf t => .inf t
  | .zero s, .zero t => .zero (s && t)
  | .zero _, .fin b => rnd ρ b
  | .fin _, .nan => .nan
  | .fin _, .inf t => .inf t
  | .fin a, .zero _ => rnd ρ a
  | .fin a, .fin b => rnd ρ (a + b)

def Raw.div : Raw → Raw → Raw
  | .nan, _ => .nan
  | .inf _, .nan => .nan
  | .inf _, .inf _ => .nan
  | .inf s, .zero t => .inf (s != t)
  | .inf s, .fin b => .inf (s != sgn b)
  | .zero _, .nan => .nan
  | .zero s, .inf t => .zero (s != t)
  | .zero _, .zero _ => .nan
  | .zero s, .fin b => .zero (s != sgn b)
  | .fin _, .nan => .nan
  | .fin a, .inf t => .zero (sgn a != t)
  | .fin a, .zero t => .inf (sgn a != t)
  | .fin a, .fin b => rnd ρ (a / b)

/-- C's `a < b` -/
def Raw.lt : Raw → Raw → Bool
  | .nan, _ => false
  | .inf _, .nan => false
  | .inf s, .inf t => s && !t
  | .inf s, .zero _ => s
  | .inf s, .fin _ => s
  | .zero _, .nan => false
  | .zero _, .inf t => !t
  | .zero _, .zero _ => false
  | .zero _, .fin b => decide (0 < b)
  | .fin _, .nan => false
  | .fin _, .inf t => !t
  | .fin a, .zero _ => decide (a < 0)
  | .fin a, .fin b => decide (a < b)

theorem R_zero : ρ.R 0 = 0 := by simpa using ρ.nat 0 (by norm_num)
theorem R_one : ρ.R 1 = 1 := by simpa using ρ.nat 1 (by norm_num)

theorem rnd_rep (q : ℚ) : (rnd ρ q).Rep ρ := by
  unfold rnd
  split
  · trivial
  · split
    · trivial
    · split
      · trivial
      · rename_i h0 h1
        exact ⟨h0, ρ.idem q, not_lt.mp h1⟩

/-- a representable value is delivered unchanged -/
theorem rnd_of_rep (q : ℚ) (h : (Raw.fin q).Rep ρ) : rnd ρ q = .fin q := by
  obtain ⟨h0, h1, h2⟩ := h
  unfold rnd
  rw [if_neg h0, h1, if_neg h0, if_neg (not_lt.mpr h2)]

/-- the result for an exact value `≥ 0` is `+0`, `+inf` or a positive finite value -/
theorem rnd_nonneg (q : ℚ) (h : 0 ≤ q) : rnd ρ q = .zero false ∨ rnd ρ q = .inf false ∨ ∃ r, 0 < r ∧ rnd ρ q = .fin r := by
  have hs : sgn q = false := by simp [sgn, h]
  have hr : 0 ≤ ρ.R q := by have := ρ.mono 0 q h; rwa [R_zero] at this
  unfold rnd
  split
  · exact Or.inl rfl
  · split
    · rw [hs]; exact Or.inl rfl
    · split
      · rw [hs]; exact Or.inr (Or.inl rfl)
      · rename_i h0 _
        exact Or.inr (Or.inr ⟨ρ.R q, lt_of_le_of_ne hr (Ne.symm h0), rfl⟩)

/-- … and for an exact value `≥ 1` never a zero -/
theorem rnd_ge_one (q : ℚ) (h : 1 ≤ q) : rnd ρ q = .inf false ∨ ∃ r, 0 < r ∧ rnd ρ q = .fin r := by
  have hr : 1 ≤ ρ.R q := by have := ρ.mono 1 q h; rwa [R_one] at this
  have hq0 : q ≠ 0 := by linarith
  have hr0 : ρ.R q ≠ 0 := by linarith
  have hs : sgn q = false := by simp [sgn]; linarith
  unfold rnd
  rw [if_neg hq0, if_neg hr0]
  split
  · rw [hs]; exact Or.inl rfl
  · exact Or.inr ⟨ρ.R q, by linarith, rfl⟩

theorem add_rep (a b : Raw) : (Raw.add ρ a b).Rep ρ := by
  cases a <;> cases b <;> simp only [Raw.add] <;> first | exact rnd_rep ρ _ | trivial | (split <;> trivial)

theorem div_rep (a b : Raw) : (Raw.div ρ a b).Rep ρ := by
  cases a <;> cases b <;> simp only [Raw.div] <;> first | exact rnd_rep ρ _ | trivial

/-- the representable values -/
def Ieee := {x : Raw // x.Rep ρ}

instance : CNum (Ieee ρ) where
  zero := ⟨.zero false, trivial⟩
  one := ⟨rnd ρ 1, rnd_rep ρ 1⟩
  add := fun a b => ⟨Raw.add ρ a.1 b.1, add_rep ρ _ _⟩
  div := fun a b => ⟨Raw.div ρ a.1 b.1, div_rep ρ _ _⟩
  lt := fun a b => Raw.lt a.1 b.1
  ofNat := fun n => ⟨rnd ρ (n : ℚ), rnd_rep ρ _⟩

/-- comparisons do not see the sign of a zero -/
theorem lt_zero_sign (u : Raw) (s t : Bool) : Raw.lt u (.zero s) = Raw.lt u (.zero t) := by
  cases u <;> rfl

/-- L1 for every value: `a + (+0)` is `a`, except that `-0 + (+0) = +0` -/
theorem add_pos_zero (a : Raw) (h : a.Rep ρ) : Raw.add ρ a (.zero false) = a ∨ ∃ s, a = .zero s ∧ Raw.add ρ a (.zero false) = .zero false := by
  cases a with
  | nan => exact Or.inl rfl
  | inf s => exact Or.inl rfl
  | zero s => exact Or.inr ⟨s, rfl, by simp [Raw.add]⟩
  | fin q => exact Or.inl (by simp only [Raw.add]; exact rnd_of_rep ρ q h)

/-- dividing zeros of either sign by the same value gives results no comparison tells apart -/
theorem lt_div_zero_sign (u n : Raw) (s t : Bool) : Raw.lt u (Raw.div ρ (.zero s) n) = Raw.lt u (Raw.div ρ (.zero t) n) := by
  cases n <;> simp only [Raw.div] <;> first | rfl | exact lt_zero_sign _ _ _

/-- not negative, or NaN: what `(double) x / (double) m` can be -/
def NN (r : Raw) : Prop := r = .nan ∨ r = .zero false ∨ r = .inf false ∨ ∃ q, 0 < q ∧ r = .fin q
/-- a zero or NaN: what `0.0 / norm` can be -/
def ZN (r : Raw) : Prop := r = .nan ∨ ∃ s, r = .zero s

theorem rnd_NN (q : ℚ) (h : 0 ≤ q) : NN (rnd ρ q) := by
  rcases rnd_nonneg ρ q h with h | h | h
  · exact Or.inr (Or.inl h)
  · exact Or.inr (Or.inr (Or.inl h))
  · exact Or.inr (Or.inr (Or.inr h))

theorem sgn_pos (q : ℚ) (h : 0 < q) : sgn q = false := by simp [sgn]; linarith

theorem div_NN (a b : Raw) (ha : NN a) (hb : NN b) : NN (Raw.div ρ a b) := by
  rcases ha with rfl | rfl | rfl | ⟨p, hp, rfl⟩ <;> rcases hb with rfl | rfl | rfl | ⟨q, hq, rfl⟩ <;>
    simp only [Raw.div] <;> (try rw [sgn_pos _ hp]) <;> (try rw [sgn_pos _ hq]) <;>
    first
      | exact Or.inl rfl
      | exact Or.inr (Or.inl rfl)
      | exact Or.inr (Or.inr (Or.inl rfl))
      | exact rnd_NN ρ _ (le_of_lt (div_pos hp hq))

theorem zero_div_ZN (n : Raw) (s : Bool) : ZN (Raw.div ρ (.zero s) n) := by
  cases n <;> simp only [Raw.div] <;> first | exact Or.inl rfl | exact Or.inr ⟨_, rfl⟩

theorem lt_NN_ZN (a z : Raw) (ha : NN a) (hz : ZN z) : Raw.lt a z = false := by
  rcases ha with rfl | rfl | rfl | ⟨p, hp, rfl⟩ <;> rcases hz with rfl | ⟨s, rfl⟩ <;> simp [Raw.lt]
  linarith

/-- **L1–L4 are theorems of the IEEE carrier**, for every monotone rounding -/
theorem ieee_lawful : LawfulCNum (Ieee ρ) where
  add_zero_cmp := by
    intro a u n
    show Raw.lt u.1 (Raw.div ρ (Raw.add ρ a.1 (.zero false)) n.1) = Raw.lt u.1 (Raw.div ρ a.1 n.1)
    rcases add_pos_zero ρ a.1 a.2 with h | ⟨s, hs, h⟩
    · rw [h]
    · rw [h, hs]; exact lt_div_zero_sign ρ _ _ _ _
  zero_add_zero := rfl
  zero_div_pos := by
    intro d hd
    apply Subtype.ext
    show Raw.div ρ (.zero false) d.1 = .zero false
    have hd' : Raw.lt (.zero false) d.1 = true := hd
    cases hv : d.1 with
    | nan => rw [hv] at hd'; simp [Raw.lt] at hd'
    | inf t => rw [hv] at hd'; simp [Raw.lt] at hd'; simp [Raw.div, hd']
    | zero t => rw [hv] at hd'; simp [Raw.lt] at hd'
    | fin b => rw [hv] at hd'; simp [Raw.lt] at hd'; simp [Raw.div, sgn_pos b hd']
  zero_div_ofNat := by
    intro n hn
    apply Subtype.ext
    show Raw.div ρ (.zero false) (rnd ρ (n : ℚ)) = .zero false
    have h1 : (1 : ℚ) ≤ (n : ℚ) := by exact_mod_cast hn
    rcases rnd_ge_one ρ _ h1 with h | ⟨r, hr, h⟩
    · rw [h]; simp [Raw.div]
    · rw [h]; simp [Raw.div, sgn_pos r hr]
  not_lt_zero_div := by
    intro x m norm
    show Raw.lt (Raw.div ρ (rnd ρ (x : ℚ)) (rnd ρ (m : ℚ))) (Raw.div ρ (.zero false) norm.1) = false
    exact lt_NN_ZN _ _ (div_NN ρ _ _ (rnd_NN ρ _ (Nat.cast_nonneg x)) (rnd_NN ρ _ (Nat.cast_nonneg m))) (zero_div_ZN ρ _ _)

instance : LawfulCNum (Ieee ρ) := ieee_lawful ρ

/-- C's `q == 0.0`: a zero of either sign -/
def IsZero (q : Ieee ρ) : Prop := ∃ s, q.1 = .zero s

/-- adding a zero of EITHER sign changes at most the sign of a zero -/
theorem add_any_zero (a : Raw) (h : a.Rep ρ) (s : Bool) :
    Raw.add ρ a (.zero s) = a ∨ ∃ t t', a = .zero t ∧ Raw.add ρ a (.zero s) = .zero t' := by
  cases a with
  | nan => exact Or.inl rfl
  | inf s => exact Or.inl rfl
  | zero t => exact Or.inr ⟨t, t && s, rfl, by simp [Raw.add]⟩
  | fin q => exact Or.inl (by simp only [Raw.add]; exact rnd_of_rep ρ q h)

/-- the hypothesis of `dchooseGo_notZ` for `Z = IsZero`: adding `±0.0` to the running sum never changes the outcome of the test -/
theorem ieee_add_zero_cmp (z : Ieee ρ) (hz : IsZero ρ z) (a u n : Ieee ρ) : lt u (div (add a z) n) = lt u (div a n) := by
  obtain ⟨s, hs⟩ := hz
  show Raw.lt u.1 (Raw.div ρ (Raw.add ρ a.1 z.1) n.1) = Raw.lt u.1 (Raw.div ρ a.1 n.1)
  rw [hs]
  rcases add_any_zero ρ a.1 a.2 s with h | ⟨t, t', ht, h⟩
  · rw [h]
  · rw [h, ht]; exact lt_div_zero_sign ρ _ _ _ _

/-- **L5, first half**: a finite non-zero value divided by itself is exactly `1.0` -/
theorem ieee_div_self (a : Ieee ρ) (q : ℚ) (h : a.1 = .fin q) : div a a = (one : Ieee ρ) := by
  apply Subtype.ext
  show Raw.div ρ a.1 a.1 = rnd ρ 1
  have hq : q ≠ 0 := by have := a.2; rw [h] at this; exact this.1
  rw [h]; simp only [Raw.div]; rw [div_self hq]

theorem rnd_one : rnd ρ 1 = .fin 1 :=
  rnd_of_rep ρ 1 ⟨one_ne_zero, R_one ρ, by rw [abs_one]; linarith [ρ.big_ge]⟩

/-- **L5, second half**: `esl_random()` = `(double) x / 4294967296.0 < 1.0` for every 32-bit `x` -/
theorem ieee_random_lt_one (x : Nat) (hx : x < 4294967296) :
    lt (div (ofNat x) (ofNat 4294967296) : Ieee ρ) one = true := by
  show Raw.lt (Raw.div ρ (rnd ρ (x : ℚ)) (rnd ρ ((4294967296 : ℕ) : ℚ))) (rnd ρ 1) = true
  have hbig := ρ.big_ge
  have hden : rnd ρ ((4294967296 : ℕ) : ℚ) = .fin 4294967296 := by
    have := rnd_of_rep ρ ((4294967296 : ℕ) : ℚ) ⟨by norm_num, ρ.nat _ (le_refl _), by rw [abs_of_pos (by norm_num)]; exact_mod_cast hbig⟩
    simpa using this
  rw [hden, rnd_one]
  by_cases h0 : x = 0
  · subst h0
    simp [rnd, Raw.div, Raw.lt, sgn]
  · have hxpos : (0 : ℚ) < (x : ℚ) := by exact_mod_cast Nat.pos_of_ne_zero h0
    have hxle : (x : ℚ) ≤ 4294967296 := by exact_mod_cast (le_of_lt hx)
    have hnum : rnd ρ (x : ℚ) = .fin x :=
      rnd_of_rep ρ _ ⟨ne_of_gt hxpos, ρ.nat x (le_of_lt hx), by rw [abs_of_pos hxpos]; linarith⟩
    rw [hnum]
    simp only [Raw.div]
    have hlt1 : (x : ℚ) / 4294967296 < 1 := by rw [div_lt_one (by norm_num)]; exact_mod_cast hx
    have hpos : (0 : ℚ) < (x : ℚ) / 4294967296 := div_pos hxpos (by norm_num)
    have hq : rnd ρ ((x : ℚ) / 4294967296) = .fin ((x : ℚ) / 4294967296) :=
      rnd_of_rep ρ _ ⟨ne_of_gt hpos, ρ.grid x (le_of_lt hx), by rw [abs_of_pos hpos]; linarith⟩
    rw [hq]
    simp [Raw.lt, hlt1]

/-! ## non-vacuity: two roundings
`exactRounding` (no rounding at all: the extended rationals with IEEE special values) and `gridRounding` (round half up to the
nearest multiple of `2^-32`, largest finite value `2^32`: a genuinely lossy rounding with overflow). -/
def exactRounding : Rounding where
  R := id
  big := 4294967296
  mono := fun _ _ h => h
  idem := fun _ => rfl
  nat := fun _ _ => rfl
  grid := fun _ _ => rfl
  big_ge := le_refl _

def gridRounding : Rounding where
  R := fun x => (⌊x * 4294967296 + 1 / 2⌋ : ℚ) / 4294967296
  big := 4294967296
  mono := by
    intro x y h
    apply div_le_div_of_nonneg_right _ (by norm_num)
    exact_mod_cast Int.floor_mono (by linarith)
  idem := by
    intro x
    have : ((⌊x * 4294967296 + 1 / 2⌋ : ℚ) / 4294967296) * 4294967296 = (⌊x * 4294967296 + 1 / 2⌋ : ℚ) := by
      field_simp
    rw [this]
    congr 2
    have h2 : ((⌊x * 4294967296 + 1 / 2⌋ : ℤ) : ℚ) + 1 / 2 = ((⌊x * 4294967296 + 1 / 2⌋ : ℤ) : ℚ) + (1 / 2 : ℚ) := rfl
    rw [Int.floor_intCast_add]
    simp
    norm_num
  nat := by
    intro k _
    have : (k : ℚ) * 4294967296 + 1 / 2 = (((k * 4294967296 : ℕ) : ℤ) : ℚ) + 1 / 2 := by push_cast; ring
    rw [this, Int.floor_intCast_add]
    have : ⌊(1 / 2 : ℚ)⌋ = 0 := by norm_num
    rw [this]; push_cast; field_simp; ring
  grid := by
    intro k _
    have : (k : ℚ) / 4294967296 * 4294967296 + 1 / 2 = (((k : ℕ) : ℤ) : ℚ) + 1 / 2 := by push_cast; field_simp
    rw [this, Int.floor_intCast_add]
    have : ⌊(1 / 2 : ℚ)⌋ = 0 := by norm_num
    rw [this]; push_cast; simp
  big_ge := le_refl _

end EaselModel.Shuffle
