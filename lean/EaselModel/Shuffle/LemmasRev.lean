import EaselModel.Shuffle.Lemmas
/-! Reversal (`esl_rsq_CReverse`, `esl_rsq_XReverse`, `esl_vec_*Reverse`), alias-aware. -/
namespace EaselModel.Shuffle

theorem bang_congr {α : Type} [Inhabited α] {a b : Array α} {i j : Nat} (h : a[i]? = b[j]?) : a[i]! = b[j]! := by
  rw [Array.getElem!_eq_getD, Array.getElem!_eq_getD, Array.getD_eq_getD_getElem?, Array.getD_eq_getD_getElem?, h]

theorem bang_some {α : Type} [Inhabited α] {a : Array α} {i : Nat} (h : i < a.size) : some a[i]! = a[i]? := by
  rw [getElem!_pos a i h, Array.getElem?_eq_getElem h]

/-- state of the reversal loop after `i` iterations -/
structure RevInv {α : Type} (alias : Bool) (src dst0 : Array α) (base L i : Nat) (dst : Array α) : Prop where
  size : dst.size = dst0.size
  done : ∀ t, t < i → dst[base + t]? = src[base + L - 1 - t]? ∧ dst[base + L - 1 - t]? = src[base + t]?
  mid : alias = true → ∀ t, i ≤ t → t + i < L → dst[base + t]? = src[base + t]?
  outside : ∀ p, (p < base ∨ base + L ≤ p) → dst[p]? = dst0[p]?

theorem revStep_inv {α : Type} [Inhabited α] (alias : Bool) (src dst0 dst : Array α) (base L i : Nat)
    (hsrc : base + L ≤ src.size) (hdst : base + L ≤ dst0.size) (hi : 2 * i + 1 < L)
    (h : RevInv alias src dst0 base L i dst) :
    RevInv alias src dst0 base L (i+1) (revStep alias src dst (base + i) (base + L - 1 - i)) := by
  have hs := h.size
  -- the two values read are the source values, through the alias or not
  have rhi : (if alias then dst[base + L - 1 - i]! else src[base + L - 1 - i]!) = src[base + L - 1 - i]! := by
    cases alias with
    | false => rfl
    | true =>
      simp only [↓reduceIte]
      have := h.mid rfl (L - 1 - i) (by omega) (by omega)
      rw [show base + (L - 1 - i) = base + L - 1 - i by omega] at this
      exact bang_congr this
  have rlo : (if alias then dst[base + i]! else src[base + i]!) = src[base + i]! := by
    cases alias with
    | false => rfl
    | true =>
      simp only [↓reduceIte]
      exact bang_congr (h.mid rfl i (by omega) (by omega))
  unfold revStep
  simp only [rhi, rlo]
  refine ⟨by simp [hs], ?_, ?_, ?_⟩
  · intro t ht
    simp only [Array.getElem?_setIfInBounds, Array.size_setIfInBounds]
    by_cases hti : t = i
    · subst hti
      have e1 : base + L - 1 - t ≠ base + t := by omega
      have e1' : base + t ≠ base + L - 1 - t := by omega
      simp only [↓reduceIte, e1, e1', show base + t < dst.size by omega, show base + L - 1 - t < dst.size by omega]
      exact ⟨bang_some (by omega), bang_some (by omega)⟩
    · have := h.done t (by omega)
      have e1 : base + i ≠ base + t := by omega
      have e2 : base + L - 1 - i ≠ base + t := by omega
      have e3 : base + i ≠ base + L - 1 - t := by omega
      have e4 : base + L - 1 - i ≠ base + L - 1 - t := by omega
      simp only [e1, e2, e3, e4, ↓reduceIte]
      exact this
  · intro ha t ht1 ht2
    simp only [Array.getElem?_setIfInBounds]
    have e1 : base + i ≠ base + t := by omega
    have e2 : base + L - 1 - i ≠ base + t := by omega
    simp only [e1, e2, ↓reduceIte]
    exact h.mid ha t (by omega) (by omega)
  · intro p hp
    simp only [Array.getElem?_setIfInBounds]
    have e1 : base + i ≠ p := by omega
    have e2 : base + L - 1 - i ≠ p := by omega
    simp only [e1, e2, ↓reduceIte]
    exact h.outside p hp

theorem revLoop_inv {α : Type} [Inhabited α] (alias : Bool) (src dst0 : Array α) (base L : Nat)
    (hsrc : base + L ≤ src.size) (hdst : base + L ≤ dst0.size) :
    ∀ n i dst, i + n = L / 2 → RevInv alias src dst0 base L i dst →
      RevInv alias src dst0 base L (L/2) (revLoop alias src base L n i dst) := by
  intro n
  induction n with
  | zero => intro i dst hi h; simp only [revLoop]; rw [show L / 2 = i by omega]; exact h
  | succ n ih =>
    intro i dst hi h
    simp only [revLoop]
    apply ih (i+1) _ (by omega)
    exact revStep_inv alias src dst0 dst base L i hsrc hdst (by omega) h

/-- `reverse` writes the mirror image of `src[base..base+L)` into `dst[base..base+L)` and nothing else; this holds for
    separate storage (`alias = false`, any `dst`) and in place (`alias = true`, `dst = src`). -/
theorem reverse_spec {α : Type} [Inhabited α] (alias : Bool) (src dst : Array α) (base L : Nat)
    (hsrc : base + L ≤ src.size) (hdst : base + L ≤ dst.size) (hal : alias = true → dst = src) :
    let out := reverse alias src dst base L
    out.size = dst.size ∧ (∀ t, t < L → out[base + t]? = src[base + L - 1 - t]?) ∧
      (∀ p, (p < base ∨ base + L ≤ p) → out[p]? = dst[p]?) := by
  have h0 : RevInv alias src dst base L 0 dst :=
    ⟨rfl, fun t ht => by omega, fun ha t _ _ => by rw [hal ha], fun _ _ => rfl⟩
  have h := revLoop_inv alias src dst base L hsrc hdst (L/2) 0 dst (by omega) h0
  have hs := h.size
  simp only [reverse]
  split
  · rename_i hodd
    -- the middle element
    have rmid : (if alias then (revLoop alias src base L (L/2) 0 dst)[base + L/2]! else src[base + L/2]!) = src[base + L/2]! := by
      cases alias with
      | false => rfl
      | true => simp only [↓reduceIte]; exact bang_congr (h.mid rfl (L/2) (by omega) (by omega))
    simp only [rmid]
    refine ⟨by simp [hs], ?_, ?_⟩
    · intro t ht
      simp only [Array.getElem?_setIfInBounds]
      by_cases e : t = L/2
      · subst e
        simp only [↓reduceIte, show base + L / 2 < (revLoop alias src base L (L/2) 0 dst).size by omega]
        rw [bang_some (by omega)]
        congr 1; omega
      · have e1 : base + L/2 ≠ base + t := by omega
        simp only [e1, ↓reduceIte]
        by_cases hlt : t < L/2
        · exact (h.done t hlt).1
        · have := (h.done (L - 1 - t) (by omega)).2
          rw [show base + L - 1 - (L - 1 - t) = base + t by omega, show base + (L - 1 - t) = base + L - 1 - t by omega] at this
          exact this
    · intro p hp
      simp only [Array.getElem?_setIfInBounds]
      have e1 : base + L/2 ≠ p := by omega
      simp only [e1, ↓reduceIte]
      exact h.outside p hp
  · rename_i heven
    refine ⟨hs, ?_, h.outside⟩
    intro t ht
    by_cases hlt : t < L/2
    · exact (h.done t hlt).1
    · have := (h.done (L - 1 - t) (by omega)).2
      rw [show base + L - 1 - (L - 1 - t) = base + t by omega, show base + (L - 1 - t) = base + L - 1 - t by omega] at this
      exact this

/-- list form: the output region is `List.reverse` of the input region -/
theorem reverse_toList {α : Type} [Inhabited α] (alias : Bool) (src dst : Array α) (base L : Nat)
    (hsrc : base + L ≤ src.size) (hdst : base + L ≤ dst.size) (hal : alias = true → dst = src) :
    ((reverse alias src dst base L).extract base (base + L)).toList = ((src.extract base (base + L)).toList).reverse := by
  obtain ⟨hsz, hin, _⟩ := reverse_spec alias src dst base L hsrc hdst hal
  apply List.ext_getElem?
  intro t
  by_cases ht : t < L
  · rw [List.getElem?_reverse (by simp; omega)]
    simp only [Array.getElem?_toList, Array.getElem?_extract, Array.length_toList, Array.size_extract]
    have a1 : t < min (base + L) (reverse alias src dst base L).size - base := by omega
    have a2 : min (base + L) src.size - base - 1 - t < min (base + L) src.size - base := by omega
    simp only [a1, a2, ↓reduceIte]
    rw [hin t ht]
    congr 1; omega
  · have l1 : ((reverse alias src dst base L).extract base (base + L)).toList.length ≤ t := by simp; omega
    have l2 : ((src.extract base (base + L)).toList).reverse.length ≤ t := by simp; omega
    rw [List.getElem?_eq_none l1, List.getElem?_eq_none l2]

end EaselModel.Shuffle
