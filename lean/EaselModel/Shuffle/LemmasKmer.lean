import EaselModel.Shuffle.Lemmas
/-! k-mer shuffle: the three `memmove`s are a swap of two words; the loop is Fisher–Yates on the list of words. -/
namespace EaselModel.Shuffle
open EaselModel.Random

/-- `blit` restricted to the first `n` bytes of `src` -/
def blitN {α : Type} (a : Array α) (pos : Nat) (src : Array α) (n : Nat) : Array α :=
  (List.range n).foldl (fun (acc : Array α) t => match src[t]? with
    | some v => acc.setIfInBounds (pos + t) v
    | none => acc) a

theorem blit_eq_blitN {α : Type} (a : Array α) (pos : Nat) (src : Array α) : blit a pos src = blitN a pos src src.size := rfl

theorem blitN_spec {α : Type} (a : Array α) (pos : Nat) (src : Array α) (hfit : pos + src.size ≤ a.size) :
    ∀ n, n ≤ src.size → (blitN a pos src n).size = a.size ∧
      ∀ p, (blitN a pos src n)[p]? = if pos ≤ p ∧ p < pos + n then src[p - pos]? else a[p]? := by
  intro n
  induction n with
  | zero => intro _; refine ⟨rfl, fun p => ?_⟩; simp only [blitN, List.range_zero, List.foldl_nil]; rw [if_neg (by omega)]
  | succ n ih =>
    intro hn
    obtain ⟨hs, hg⟩ := ih (by omega)
    have hstep : blitN a pos src (n+1) = (blitN a pos src n).setIfInBounds (pos + n) src[n] := by
      simp only [blitN, List.range_succ, List.foldl_append, List.foldl_cons, List.foldl_nil]
      rw [Array.getElem?_eq_getElem (show n < src.size by omega)]
    rw [hstep]
    refine ⟨by simp [hs], fun p => ?_⟩
    rw [Array.getElem?_setIfInBounds, hg p]
    by_cases e : pos + n = p
    · subst e
      have : pos + n < (blitN a pos src n).size := by omega
      simp only [↓reduceIte, this]
      rw [if_pos (by omega), show pos + n - pos = n by omega, Array.getElem?_eq_getElem]
    · simp only [e, ↓reduceIte]
      by_cases c : pos ≤ p ∧ p < pos + n
      · rw [if_pos c, if_pos (by omega)]
      · rw [if_neg c, if_neg (by omega)]

theorem blit_spec {α : Type} (a : Array α) (pos : Nat) (src : Array α) (hfit : pos + src.size ≤ a.size) :
    (blit a pos src).size = a.size ∧
      ∀ p, (blit a pos src)[p]? = if pos ≤ p ∧ p < pos + src.size then src[p - pos]? else a[p]? :=
  blitN_spec a pos src hfit src.size (Nat.le_refl _)

/-- word `w` (length `K`) of the word region starting at `off` -/
def chunk {α : Type} (K off : Nat) (a : Array α) (w : Nat) : Array α := a.extract (off + w*K) (off + w*K + K)
def chunks {α : Type} (K off W : Nat) (a : Array α) : Array (Array α) := (Array.range W).map (chunk K off a)

/-- pointwise description of the three memmoves -/
theorem blockSwap_spec {α : Type} (K off W : Nat) (a : Array α) (i j : Nat) (hfit : off + W*K ≤ a.size)
    (hi : i < W) (hj : j < W) :
    (blockSwap K off a i j).size = a.size ∧
      ∀ p, (blockSwap K off a i j)[p]? =
        if off + j*K ≤ p ∧ p < off + j*K + K then a[off + i*K + (p - (off + j*K))]?
        else if off + i*K ≤ p ∧ p < off + i*K + K then a[off + j*K + (p - (off + i*K))]?
        else a[p]? := by
  have hiW : (i+1)*K ≤ W*K := Nat.mul_le_mul_right K hi
  have hjW : (j+1)*K ≤ W*K := Nat.mul_le_mul_right K hj
  have ei : (i+1)*K = i*K + K := by rw [Nat.add_mul, Nat.one_mul]
  have ej : (j+1)*K = j*K + K := by rw [Nat.add_mul, Nat.one_mul]
  have s1 : (a.extract (off + j*K) (off + j*K + K)).size = K := by simp; omega
  have s0 : (a.extract (off + i*K) (off + i*K + K)).size = K := by simp; omega
  obtain ⟨z1, g1⟩ := blit_spec a (off + i*K) (a.extract (off + j*K) (off + j*K + K)) (by omega)
  obtain ⟨z2, g2⟩ := blit_spec (blit a (off + i*K) (a.extract (off + j*K) (off + j*K + K))) (off + j*K)
    (a.extract (off + i*K) (off + i*K + K)) (by omega)
  unfold blockSwap
  refine ⟨by simp only [z2, z1], fun p => ?_⟩
  simp only [g2 p, s0, g1 p, s1]
  by_cases cj : off + j*K ≤ p ∧ p < off + j*K + K
  · rw [if_pos cj, if_pos cj, Array.getElem?_extract, if_pos (by omega)]
  · rw [if_neg cj, if_neg cj]
    by_cases ci : off + i*K ≤ p ∧ p < off + i*K + K
    · rw [if_pos ci, if_pos ci, Array.getElem?_extract, if_pos (by omega)]
    · rw [if_neg ci, if_neg ci]

theorem chunks_blockSwap {α : Type} (K off W : Nat) (a : Array α) (i j : Nat) (hfit : off + W*K ≤ a.size)
    (hi : i < W) (hj : j < W) :
    chunks K off W (blockSwap K off a i j) =
      (chunks K off W a).swap i j (by simp [chunks]; omega) (by simp [chunks]; omega) := by
  obtain ⟨hs, hg⟩ := blockSwap_spec K off W a i j hfit hi hj
  have ei : (i+1)*K = i*K + K := by rw [Nat.add_mul, Nat.one_mul]
  have ej : (j+1)*K = j*K + K := by rw [Nat.add_mul, Nat.one_mul]
  have hiW : (i+1)*K ≤ W*K := Nat.mul_le_mul_right K hi
  have hjW : (j+1)*K ≤ W*K := Nat.mul_le_mul_right K hj
  apply Array.ext
  · simp [chunks]
  · intro w hw1 hw2
    simp only [chunks, Array.size_map, Array.size_range] at hw1
    have ew : (w+1)*K = w*K + K := by rw [Nat.add_mul, Nat.one_mul]
    have hwW : (w+1)*K ≤ W*K := Nat.mul_le_mul_right K hw1
    rw [Array.getElem_swap]
    simp only [chunks, Array.getElem_map, Array.getElem_range]
    apply Array.ext
    · split
      · simp [chunk, hs]; omega
      · split <;> simp [chunk, hs] <;> omega
    · intro t ht1 ht2
      have htK : t < K := by simp [chunk, hs] at ht1; omega
      apply Option.some.inj
      rw [← Array.getElem?_eq_getElem, ← Array.getElem?_eq_getElem]
      by_cases ewi : w = i
      · subst ewi
        rw [if_pos rfl]
        simp only [chunk, Array.getElem?_extract]
        rw [if_pos (by omega), if_pos (by omega), hg]
        by_cases ewj : w = j
        · subst ewj
          rw [if_pos (by omega)]; congr 1; omega
        · have : (w+1)*K ≤ j*K ∨ (j+1)*K ≤ w*K := by
            rcases Nat.lt_or_gt_of_ne ewj with h | h
            · exact Or.inl (Nat.mul_le_mul_right K h)
            · exact Or.inr (Nat.mul_le_mul_right K h)
          rw [if_neg (by omega), if_pos (by omega)]; congr 1; omega
      · rw [if_neg ewi]
        by_cases ewj : w = j
        · subst ewj
          rw [if_pos rfl]
          simp only [chunk, Array.getElem?_extract]
          rw [if_pos (by omega), if_pos (by omega), hg, if_pos (by omega)]; congr 1; omega
        · rw [if_neg ewj]
          simp only [chunk, Array.getElem?_extract]
          rw [if_pos (by omega), if_pos (by omega), hg]
          have h1 : (w+1)*K ≤ j*K ∨ (j+1)*K ≤ w*K := by
            rcases Nat.lt_or_gt_of_ne ewj with h | h
            · exact Or.inl (Nat.mul_le_mul_right K h)
            · exact Or.inr (Nat.mul_le_mul_right K h)
          have h2 : (w+1)*K ≤ i*K ∨ (i+1)*K ≤ w*K := by
            rcases Nat.lt_or_gt_of_ne ewi with h | h
            · exact Or.inl (Nat.mul_le_mul_right K h)
            · exact Or.inr (Nat.mul_le_mul_right K h)
          rw [if_neg (by omega), if_neg (by omega)]

/-- invariant of the k-mer loop: the list of `W` words is a permutation of the input's, everything before the first word
    (leftover prefix, digital sentinel) and after the last word is untouched -/
structure KmerInv {α : Type} (K off W : Nat) (a0 a : Array α) : Prop where
  size : a.size = a0.size
  words : (chunks K off W a).Perm (chunks K off W a0)
  outside : ∀ p, (p < off ∨ off + W*K ≤ p) → a[p]? = a0[p]?

theorem KmerInv.swap {α : Type} {K off W : Nat} {a0 a : Array α} (h : KmerInv K off W a0 a) (hfit : off + W*K ≤ a0.size)
    (i j : Nat) (hi : i < W) (hj : j < W) : KmerInv K off W a0 (blockSwap K off a i j) := by
  have hs := h.size
  obtain ⟨z, g⟩ := blockSwap_spec K off W a i j (by omega) hi hj
  have hiW : (i+1)*K ≤ W*K := Nat.mul_le_mul_right K hi
  have hjW : (j+1)*K ≤ W*K := Nat.mul_le_mul_right K hj
  have ei : (i+1)*K = i*K + K := by rw [Nat.add_mul, Nat.one_mul]
  have ej : (j+1)*K = j*K + K := by rw [Nat.add_mul, Nat.one_mul]
  refine ⟨by omega, ?_, ?_⟩
  · rw [chunks_blockSwap K off W a i j (by omega) hi hj]
    exact (Array.swap_perm _ _).trans h.words
  · intro p hp
    rw [g p, if_neg (by omega), if_neg (by omega)]
    exact h.outside p hp

theorem shuffleKmers_inv {α : Type} (base : Nat) (a : Array α) (L K : Nat) (hfit : base + L ≤ a.size) (r : Rng) :
    KmerInv K (base + L % K) (L / K) a (shuffleKmers base a L K r).1 := by
  have hdm : K * (L / K) + L % K = L := Nat.div_add_mod L K
  have hfit' : base + L % K + (L / K) * K ≤ a.size := by rw [Nat.mul_comm]; omega
  unfold shuffleKmers
  exact fyLoop_inv (fun a i j => blockSwap K (base + L % K) a i j) 0 (L / K) (KmerInv K (base + L % K) (L / K) a)
    (fun s i j hs _ hi2 _ hj2 => hs.swap hfit' i j (by omega) (by omega)) (L / K) (Nat.le_refl _) a r
    ⟨rfl, Array.Perm.refl _, fun _ _ => rfl⟩

end EaselModel.Shuffle
