import EaselModel.Shuffle.Lemmas
/-! `esl_msashuffle_VShuffle`: per column, the non-gap residues are shuffled among the non-gap rows. -/
namespace EaselModel.Shuffle
open EaselModel.Random
open scoped List

/-- column `c` of a matrix as a list (entry 0 where a row is too short) -/
def colL (m : Array Bytes) (c : Nat) : List UInt8 := m.toList.map (fun row => row[c]!)

/-- list form of the put-back loop: `scol` = column `apos` of the source, `hs` = rows of `shuf` -/
def putL (gap : UInt8) (apos : Nat) : List UInt8 → List Bytes → List UInt8 → List Bytes
  | s :: ss, h :: hs, vals =>
    if s != gap then h.setIfInBounds apos (vals.headD 0) :: putL gap apos ss hs vals.tail
    else h :: putL gap apos ss hs vals
  | _, hs, _ => hs

/-- a column with its non-gap entries replaced, in order, by `vals` -/
def fill (gap : UInt8) : List UInt8 → List UInt8 → List UInt8
  | c :: cs, vals => if c != gap then vals.headD 0 :: fill gap cs vals.tail else c :: fill gap cs vals
  | [], _ => []

theorem headD_drop (a : Bytes) (n : Nat) : (a.toList.drop n).headD 0 = a[n]! := by
  by_cases h : n < a.size
  · rw [List.drop_eq_getElem_cons (by simpa using h), getElem!_pos a n h]; simp
  · rw [List.drop_eq_nil_of_le (by simp; omega), Array.getElem!_eq_getD, Array.getD_eq_getD_getElem?, Array.getElem?_eq_none (by omega)]
    rfl

/-- the index-based C loop is the list recursion -/
theorem vPutBack_toList (gap : UInt8) (msa : Array Bytes) (apos : Nat) (csq : Bytes) :
    ∀ (n nres : Nat) (shuf : Array Bytes), n ≤ msa.size → shuf.size = msa.size →
      (vPutBack gap msa apos csq n nres shuf).toList =
        shuf.toList.take (msa.size - n) ++
          putL gap apos ((colL msa apos).drop (msa.size - n)) (shuf.toList.drop (msa.size - n)) (csq.toList.drop nres) := by
  intro n
  induction n with
  | zero =>
    intro nres shuf _ hs
    simp only [vPutBack, Nat.sub_zero]
    rw [List.drop_eq_nil_of_le (by simp [colL]), List.drop_eq_nil_of_le (by simp [hs]), List.take_of_length_le (by simp [hs])]
    simp [putL]
  | succ n ih =>
    intro nres shuf hn hs
    have hidx : msa.size - (n+1) < msa.size := by omega
    have hd1 : (colL msa apos).drop (msa.size - (n+1)) = (msa[msa.size - (n+1)]!)[apos]! :: (colL msa apos).drop (msa.size - n) := by
      rw [List.drop_eq_getElem_cons (by simp [colL]; omega)]
      simp only [colL, List.getElem_map, Array.getElem_toList]
      rw [getElem!_pos msa _ hidx, show msa.size - (n+1) + 1 = msa.size - n by omega]
    have hd2 : shuf.toList.drop (msa.size - (n+1)) = shuf[msa.size - (n+1)]'(by omega) :: shuf.toList.drop (msa.size - n) := by
      rw [List.drop_eq_getElem_cons (by simp; omega)]
      simp only [Array.getElem_toList]
      rw [show msa.size - (n+1) + 1 = msa.size - n by omega]
    simp only [vPutBack]
    rw [hd1, hd2]
    simp only [putL]
    split
    · rename_i hng
      rw [ih _ _ (by omega) (by simp [hs])]
      have e1 : (shuf.modify (msa.size - (n+1)) fun row => row.setIfInBounds apos csq[nres]!).toList =
          shuf.toList.set (msa.size - (n+1)) ((shuf[msa.size - (n+1)]'(by omega)).setIfInBounds apos csq[nres]!) := by
        apply List.ext_getElem?
        intro i
        rw [Array.getElem?_toList, Array.getElem?_modify, List.getElem?_set]
        by_cases e : msa.size - (n+1) = i
        · subst e; simp [Array.getElem?_eq_getElem (show msa.size - (n+1) < shuf.size by omega)] <;> omega
        · simp [e]
      rw [e1, List.take_set, List.drop_set, if_pos (by omega), headD_drop, List.tail_drop]
      have e2 : (List.take (msa.size - n) shuf.toList).set (msa.size - (n+1)) ((shuf[msa.size - (n+1)]'(by omega)).setIfInBounds apos csq[nres]!) =
          List.take (msa.size - (n+1)) shuf.toList ++ [(shuf[msa.size - (n+1)]'(by omega)).setIfInBounds apos csq[nres]!] := by
        rw [show msa.size - n = msa.size - (n+1) + 1 by omega, List.take_succ_eq_append_getElem (by simp; omega), List.set_append_right _ _ (by simp; omega)]
        simp [Nat.min_eq_left (show msa.size - (n+1) ≤ shuf.size by omega)]
      rw [e2, List.append_assoc]; rfl
    · rw [ih _ _ (by omega) hs]
      rw [show msa.size - n = msa.size - (n+1) + 1 by omega, List.take_succ_eq_append_getElem (by simp; omega), List.append_assoc]
      simp

/-- `csq` assembled by the first loop of `VShuffle` = the non-gap entries of the column, in row order -/
theorem vColumn_toList (gap : UInt8) (msa : Array Bytes) (apos : Nat) :
    (vColumn gap msa apos).toList = (colL msa apos).filter (fun c => c != gap) := by
  unfold vColumn colL
  rw [← Array.foldl_toList]
  have : ∀ (l : List Bytes) (acc : Bytes),
      (l.foldl (fun (acc : Bytes) row => if row[apos]! != gap then acc.push row[apos]! else acc) acc).toList =
        acc.toList ++ (l.map (fun row => row[apos]!)).filter (fun c => c != gap) := by
    intro l
    induction l with
    | nil => intro acc; simp
    | cons row t ih =>
      intro acc
      simp only [List.foldl_cons, List.map_cons, List.filter_cons]
      by_cases hc : (row[apos]! != gap) = true
      · simp only [hc, ↓reduceIte]; rw [ih]; simp
      · simp only [hc]; rw [ih]; simp
  simpa using this msa.toList #[]

/-! ## columns of `putL` -/
theorem putL_length (gap : UInt8) (apos : Nat) : ∀ (ss : List UInt8) (hs : List Bytes) (vals : List UInt8),
    (putL gap apos ss hs vals).length = hs.length ∧
    ∀ i (h1 : i < (putL gap apos ss hs vals).length) (h2 : i < hs.length), ((putL gap apos ss hs vals)[i]).size = hs[i].size := by
  intro ss
  induction ss with
  | nil => intro hs vals; cases hs <;> simp [putL]
  | cons s ss ih =>
    intro hs vals
    cases hs with
    | nil => simp [putL]
    | cons h hs =>
      simp only [putL]
      split
      · obtain ⟨a, b⟩ := ih hs vals.tail
        refine ⟨by simp [a], fun i h1 h2 => ?_⟩
        cases i with
        | zero => simp
        | succ i => simp only [List.getElem_cons_succ]; exact b i _ _
      · obtain ⟨a, b⟩ := ih hs vals
        refine ⟨by simp [a], fun i h1 h2 => ?_⟩
        cases i with
        | zero => simp
        | succ i => simp only [List.getElem_cons_succ]; exact b i _ _

theorem bang_setIfInBounds (row : Bytes) (apos c : Nat) (v : UInt8) :
    (row.setIfInBounds apos v)[c]! = if apos = c ∧ apos < row.size then v else row[c]! := by
  rw [Array.getElem!_eq_getD, Array.getElem!_eq_getD, Array.getD_eq_getD_getElem?, Array.getD_eq_getD_getElem?, Array.getElem?_setIfInBounds]
  by_cases e : apos = c
  · subst e
    by_cases h : apos < row.size
    · simp [h]
    · simp [h]
  · simp [e]

theorem putL_col_other (gap : UInt8) (apos c : Nat) (hc : c ≠ apos) : ∀ (ss : List UInt8) (hs : List Bytes) (vals : List UInt8),
    (putL gap apos ss hs vals).map (fun row => row[c]!) = hs.map (fun row => row[c]!) := by
  intro ss
  induction ss with
  | nil => intro hs vals; cases hs <;> simp [putL]
  | cons s ss ih =>
    intro hs vals
    cases hs with
    | nil => simp [putL]
    | cons h hs =>
      simp only [putL]
      split
      · simp only [List.map_cons, ih hs vals.tail, bang_setIfInBounds]
        rw [if_neg (by intro e; exact hc e.1.symm)]
      · simp only [List.map_cons, ih hs vals]

theorem putL_col_same (gap : UInt8) (apos : Nat) : ∀ (ss : List UInt8) (hs : List Bytes) (vals : List UInt8),
    hs.map (fun row => row[apos]!) = ss → (∀ h ∈ hs, apos < h.size) →
    (putL gap apos ss hs vals).map (fun row => row[apos]!) = fill gap ss vals := by
  intro ss
  induction ss with
  | nil => intro hs vals he _; cases hs <;> simp_all [putL, fill]
  | cons s ss ih =>
    intro hs vals he hsz
    cases hs with
    | nil => simp at he
    | cons h hs =>
      simp only [List.map_cons, List.cons.injEq] at he
      simp only [putL, fill]
      split
      · simp only [List.map_cons, bang_setIfInBounds]
        rw [if_pos (by simpa using hsz h (by simp)), ih hs vals.tail he.2 (fun h' hh => hsz h' (by simp [hh]))]
      · simp only [List.map_cons]
        rw [ih hs vals he.2 (fun h' hh => hsz h' (by simp [hh])), he.1]

/-! ## `fill` keeps the multiset and the gap positions -/
theorem fill_count (gap : UInt8) (a : UInt8) : ∀ (cs vals : List UInt8), vals.length = (cs.filter (fun c => c != gap)).length →
    (fill gap cs vals).count a = (cs.filter (fun c => !(c != gap))).count a + vals.count a := by
  intro cs
  induction cs with
  | nil => intro vals h; simp at h; simp [fill, h]
  | cons c cs ih =>
    intro vals h
    simp only [fill, List.filter_cons] at h ⊢
    by_cases hc : (c != gap) = true
    · simp only [hc, ↓reduceIte, Bool.not_true, Bool.false_eq_true] at h ⊢
      cases vals with
      | nil => simp at h
      | cons v vs =>
        simp only [List.length_cons, Nat.add_right_cancel_iff] at h
        simp only [List.headD_cons, List.tail_cons, List.count_cons, ih vs h]
        omega
    · simp only [hc, ↓reduceIte, Bool.false_eq_true, Bool.not_false] at h ⊢
      simp only [List.count_cons, ih vals h]
      omega

theorem fill_perm (gap : UInt8) (cs vals : List UInt8) (h : vals ~ cs.filter (fun c => c != gap)) : fill gap cs vals ~ cs := by
  rw [List.perm_iff_count]
  intro a
  rw [fill_count gap a cs vals h.length_eq, h.count_eq]
  have : ∀ l : List UInt8, (l.filter (fun c => !(c != gap))).count a + (l.filter (fun c => c != gap)).count a = l.count a := by
    intro l
    induction l with
    | nil => simp
    | cons c t ih =>
      simp only [List.filter_cons]
      by_cases hc : (c != gap) = true
      · simp only [hc, Bool.not_true, Bool.false_eq_true, ↓reduceIte, List.count_cons]; omega
      · simp only [hc, Bool.not_false, ↓reduceIte, Bool.false_eq_true, List.count_cons]; omega
  exact this cs

theorem fill_gapmask (gap : UInt8) : ∀ (cs vals : List UInt8), vals.length = (cs.filter (fun c => c != gap)).length →
    (∀ v ∈ vals, (v != gap) = true) → (fill gap cs vals).map (fun c => c != gap) = cs.map (fun c => c != gap) := by
  intro cs
  induction cs with
  | nil => intro vals _ _; simp [fill]
  | cons c cs ih =>
    intro vals h hv
    simp only [fill, List.filter_cons] at h ⊢
    by_cases hc : (c != gap) = true
    · simp only [hc, ↓reduceIte] at h ⊢
      cases vals with
      | nil => simp at h
      | cons v vs =>
        simp only [List.length_cons, Nat.add_right_cancel_iff] at h
        simp only [List.headD_cons, List.tail_cons, List.map_cons, hc, hv v (by simp)]
        rw [ih vs h (fun v' hv' => hv v' (by simp [hv']))]
    · simp only [hc, ↓reduceIte, Bool.false_eq_true] at h ⊢
      simp only [List.map_cons]
      rw [ih vals h hv]

/-! ## the column loop -/
theorem xShuffle_regionPerm (dsq : Bytes) (L : Nat) (h : L + 2 ≤ dsq.size) (r : Rng) :
    RegionPerm 1 (1 + L) dsq (xShuffle dsq L r).1 :=
  fyLoop_inv (fun (a : Bytes) i j => a.swapIfInBounds i j) 1 L (RegionPerm 1 (1 + L) dsq)
    (fun a i j ha hi1 hi2 hj1 hj2 => ha.swap (by omega) i j hi1 hi2 hj1 hj2) L (Nat.le_refl _) dsq r (RegionPerm.refl _ _ _)

theorem extract_sentinels (col : Bytes) : ((#[255] ++ col ++ #[255] : Bytes).extract 1 (1 + col.size)) = col := by
  apply Array.ext
  · simp
  · intro i h1 h2
    rw [Array.getElem_extract]
    simp only [Array.append_assoc]
    rw [Array.getElem_append_right (by simp), Array.getElem_append_left (by simpa using h2)]
    simp

structure VInv (gap : UInt8) (msa : Array Bytes) (apos : Nat) (shuf : Array Bytes) : Prop where
  size : shuf.size = msa.size
  rowsize : ∀ i (h : i < shuf.size), shuf[i].size = (msa[i]'(size ▸ h)).size
  done : ∀ c, 1 ≤ c → c < apos → colL shuf c ~ colL msa c ∧ (colL shuf c).map (fun x => x != gap) = (colL msa c).map (fun x => x != gap)
  rest : ∀ c, (c < 1 ∨ apos ≤ c) → colL shuf c = colL msa c

theorem vShuffle_step (gap : UInt8) (inplace : Bool) (msa shuf : Array Bytes) (apos : Nat) (r : Rng) (hap : 1 ≤ apos)
    (hrows : ∀ i (h : i < msa.size), apos < msa[i].size) (h : VInv gap msa apos shuf) :
    let src := if inplace then shuf else msa
    let col := vColumn gap src apos
    let csq := (xShuffle (#[255] ++ col ++ #[255]) col.size r).1
    VInv gap msa (apos + 1) (vPutBack gap src apos (csq.extract 1 (col.size + 1)) src.size 0 shuf) := by
  intro src col csq
  have hsrc_size : src.size = msa.size := by simp only [src]; split <;> simp [h.size]
  have hsrc_col : colL src apos = colL msa apos := by
    simp only [src]; split
    · exact h.rest apos (Or.inr (Nat.le_refl _))
    · rfl
  have hshuf_col : colL shuf apos = colL src apos := by rw [hsrc_col]; exact h.rest apos (Or.inr (Nat.le_refl _))
  -- the shuffled residues are a permutation of the non-gap residues of the column
  have hvals : (csq.extract 1 (col.size + 1)).toList ~ (colL src apos).filter (fun c => c != gap) := by
    have hp := (xShuffle_regionPerm (#[255] ++ col ++ #[255]) col.size (by simp; omega) r).inside
    rw [extract_sentinels, Nat.add_comm 1 col.size] at hp
    rw [← vColumn_toList]
    exact hp.toList
  have htl := vPutBack_toList gap src apos (csq.extract 1 (col.size + 1)) src.size 0 shuf (Nat.le_refl _) (by rw [h.size, hsrc_size])
  simp only [Nat.sub_self, List.take_zero, List.nil_append, List.drop_zero] at htl
  generalize vPutBack gap src apos (csq.extract 1 (col.size + 1)) src.size 0 shuf = out at htl ⊢
  obtain ⟨pl1, pl2⟩ := putL_length gap apos (colL src apos) shuf.toList (csq.extract 1 (col.size + 1)).toList
  have hsize : out.size = shuf.size := by rw [← Array.length_toList, htl, pl1]; simp
  have hcol : ∀ c, colL out c = if c = apos then fill gap (colL src apos) (csq.extract 1 (col.size + 1)).toList else colL shuf c := by
    intro c
    unfold colL
    rw [htl]
    by_cases e : c = apos
    · subst e
      rw [if_pos rfl]
      apply putL_col_same gap c _ _ _ hshuf_col
      intro hrow hmem
      obtain ⟨i, hi, rfl⟩ := List.getElem_of_mem hmem
      simp only [Array.length_toList] at hi
      simp only [Array.getElem_toList]
      rw [h.rowsize i hi]
      exact hrows i (h.size ▸ hi)
    · rw [if_neg e]; exact putL_col_other gap apos c e _ _ _
  refine ⟨by rw [hsize, h.size], ?_, ?_, ?_⟩
  · intro i hi
    have := pl2 i (by rw [pl1]; simpa [hsize] using hi) (by simpa [hsize] using hi)
    have e : out[i] = (putL gap apos (colL src apos) shuf.toList (csq.extract 1 (col.size + 1)).toList)[i]'(by rw [pl1]; simpa [hsize] using hi) := by
      simp only [← htl, Array.getElem_toList]
    rw [e, this]
    simp only [Array.getElem_toList]
    exact h.rowsize i (by simpa [hsize] using hi)
  · intro c hc1 hc2
    rw [hcol c]
    by_cases e : c = apos
    · subst e
      rw [if_pos rfl, hsrc_col] at *
      refine ⟨fill_perm gap _ _ hvals, fill_gapmask gap _ _ hvals.length_eq ?_⟩
      intro v hv
      have := hvals.mem_iff.mp hv
      simp only [List.mem_filter] at this
      exact this.2
    · rw [if_neg e]; exact h.done c hc1 (by omega)
  · intro c hc
    rw [hcol c, if_neg (by omega)]
    exact h.rest c (by omega)

theorem vShuffleLoop_inv (gap : UInt8) (inplace : Bool) (msa : Array Bytes) (alen : Nat)
    (hrows : ∀ i (h : i < msa.size), alen + 2 ≤ msa[i].size) :
    ∀ (n apos : Nat) (shuf : Array Bytes) (r : Rng), 1 ≤ apos → apos + n = alen + 1 → VInv gap msa apos shuf →
      VInv gap msa (alen + 1) (vShuffleLoop gap inplace msa n apos shuf r).1 := by
  intro n
  induction n with
  | zero => intro apos shuf r _ hn h; simp only [vShuffleLoop]; have e : apos = alen + 1 := by omega
            subst e; exact h
  | succ n ih =>
    intro apos shuf r hap hn h
    simp only [vShuffleLoop]
    apply ih (apos + 1) _ _ (by omega) (by omega)
    exact vShuffle_step gap inplace msa shuf apos r hap (fun i hi => by have := hrows i hi; omega) h

/-- in place = separate storage: both variants read the same (still unmodified) column at every step -/
theorem vShuffleLoop_inplace_eq (gap : UInt8) (msa : Array Bytes) (alen : Nat)
    (hrows : ∀ i (h : i < msa.size), alen + 2 ≤ msa[i].size) :
    ∀ (n apos : Nat) (shuf : Array Bytes) (r : Rng), 1 ≤ apos → apos + n = alen + 1 → VInv gap msa apos shuf →
      vShuffleLoop gap true msa n apos shuf r = vShuffleLoop gap false msa n apos shuf r := by
  intro n
  induction n with
  | zero => intro apos shuf r _ _ _; rfl
  | succ n ih =>
    intro apos shuf r hap hn h
    have hcolL : colL shuf apos = colL msa apos := h.rest apos (Or.inr (Nat.le_refl _))
    have hcol : vColumn gap shuf apos = vColumn gap msa apos := by
      apply Array.toList_inj.mp
      rw [vColumn_toList, vColumn_toList, hcolL]
    have hput : ∀ vals, vPutBack gap shuf apos vals shuf.size 0 shuf = vPutBack gap msa apos vals msa.size 0 shuf := by
      intro vals
      apply Array.toList_inj.mp
      rw [vPutBack_toList gap shuf apos vals shuf.size 0 shuf (Nat.le_refl _) rfl,
        vPutBack_toList gap msa apos vals msa.size 0 shuf (Nat.le_refl _) h.size, hcolL]
      simp only [Nat.sub_self]
    have hstep := vShuffle_step gap false msa shuf apos r hap (fun i hi => by have := hrows i hi; omega) h
    simp only [vShuffleLoop, ↓reduceIte, Bool.false_eq_true] at hstep ⊢
    rw [hcol, hput]
    exact ih _ _ _ (by omega) (by omega) hstep

end EaselModel.Shuffle
