import EaselModel.Shuffle.Lemmas
/-! `esl_rnd_DChoose` never returns an index of probability zero; consequences for i.i.d. generation and for the
    order-0 / order-1 Markov resamplers. Stated over any number type satisfying the few laws actually used
    (`LawfulCNum`); binary64 is trusted to satisfy them for the values that occur (`x + 0 = x`, `0 / d = 0` for `d > 0`,
    a non-negative ratio is never `<` than `0 / norm`). -/
namespace EaselModel.Shuffle
open EaselModel.Random CNum

/-- Round 6: every field is valid for EVERY binary64 value (signed zeros, infinities, NaN included), `=` meaning equality of bit
    patterns. The former field `add a zero = a` was not (`-0.0 + 0.0 = +0.0`): it is replaced by the two facts actually used —
    `0.0 + 0.0 = 0.0`, and "adding `+0.0` to the running sum does not change the outcome of DChoose's test". The laws are PROVED for
    the IEEE-754 carrier `Ieee ρ` (any monotone rounding `ρ`, `IeeeCarrier.lean`) and for ℚ (`LawfulRat.lean`). -/
class LawfulCNum (α : Type) [CNum α] : Prop where
  /-- `u < (a + 0.0) / n` has the value of `u < a / n` (for `a = -0.0` the two quotients are zeros of opposite sign or both NaN) -/
  add_zero_cmp : ∀ a u n : α, lt u (div (add a zero) n) = lt u (div a n)
  zero_add_zero : add (zero : α) zero = zero
  /-- `0 / d = 0` when `0 < d` -/
  zero_div_pos : ∀ d : α, lt zero d = true → div zero d = zero
  /-- `0 / (double) n = 0` for an integer `n > 0` -/
  zero_div_ofNat : ∀ n : Nat, 0 < n → div (zero : α) (ofNat n) = zero
  /-- `esl_random()` (a ratio of two naturals) is never below `0 / norm` -/
  not_lt_zero_div : ∀ (x m : Nat) (norm : α), lt (div (ofNat x) (ofNat m)) (div zero norm) = false

variable {α : Type} [CNum α] [LawfulCNum α]

/-- if the scan returns `k`, the entry scanned at `k` is non-zero — provided the test had failed for the running sum so far -/
theorem dchooseGo_nonzero (u norm : α) : ∀ (ps : List α) (sum : α) (i k : Nat),
    lt u (div sum norm) = false → dchooseGo u norm ps sum i = some k →
    i ≤ k ∧ ∃ q, ps[k - i]? = some q ∧ q ≠ zero := by
  intro ps
  induction ps with
  | nil => intro sum i k _ h; simp [dchooseGo] at h
  | cons q rest ih =>
    intro sum i k hprev h
    simp only [dchooseGo] at h
    split at h
    · rename_i hlt
      cases h
      refine ⟨Nat.le_refl _, q, by simp, ?_⟩
      intro hq
      rw [hq, LawfulCNum.add_zero_cmp] at hlt
      rw [hprev] at hlt
      cases hlt
    · rename_i hnlt
      have hnlt' : lt u (div (add sum q) norm) = false := by
        cases hb : lt u (div (add sum q) norm) with
        | false => rfl
        | true => exact absurd hb hnlt
      obtain ⟨h1, q', h2, h3⟩ := ih (add sum q) (i+1) k hnlt' h
      refine ⟨by omega, q', ?_, h3⟩
      rw [show k - i = (k - (i+1)) + 1 by omega]
      simpa using h2

/-- `esl_rnd_DChoose` with `roll = x / m`: the chosen index has non-zero probability -/
theorem dchoose_nonzero (x m : Nat) (p : List α) (k : Nat)
    (h : dchoose (div (ofNat x) (ofNat m) : α) p = some k) : ∃ q, p[k]? = some q ∧ q ≠ zero := by
  unfold dchoose at h
  obtain ⟨_, q, h2, h3⟩ := dchooseGo_nonzero _ _ p zero 0 k (LawfulCNum.not_lt_zero_div x m _) h
  exact ⟨q, by simpa using h2, h3⟩

theorem randomNum_ratio (r : Rng) : ∃ x, (randomNum (α := α) r).1 = div (ofNat x) (ofNat 4294967296) := by
  unfold randomNum
  exact ⟨(r.randomNum).1, rfl⟩

/-- i.i.d. emission: every emitted symbol index has `p ≠ 0` -/
theorem iidLoop_support (p : List α) : ∀ (n : Nat) (r : Rng) (acc out : Array Nat),
    (iidLoop p n r acc).1 = some out →
    (∀ k ∈ acc, ∃ q, p[k]? = some q ∧ q ≠ zero) → out.size = acc.size + n ∧ ∀ k ∈ out, ∃ q, p[k]? = some q ∧ q ≠ zero := by
  intro n
  induction n with
  | zero => intro r acc out h hacc; simp only [iidLoop] at h; cases h; exact ⟨rfl, hacc⟩
  | succ n ih =>
    intro r acc out h hacc
    simp only [iidLoop] at h
    obtain ⟨x, hx⟩ := randomNum_ratio (α := α) r
    split at h
    · rename_i i hi
      rw [hx] at hi
      have hnew := dchoose_nonzero x 4294967296 p i hi
      obtain ⟨h1, h2⟩ := ih _ (acc.push i) out h (by
        intro k hk
        rcases Array.mem_push.mp hk with hk | hk
        · exact hacc k hk
        · subst hk; exact hnew)
      exact ⟨by simp at h1; omega, h2⟩
    · simp at h

/-! ## the same with any notion `Z` of "zero entry" that the test cannot see (round 6)
For binary64 `Z q` = "`q == 0.0` in C's sense" (`+0.0` or `-0.0`): `IeeeCarrier.lean` proves the hypothesis `hZ` for it, so an entry
`-0.0` is never chosen either. `dchooseGo_nonzero` is the instance `Z q := q = zero`. -/
section anyZero
omit [LawfulCNum α]
variable (Z : α → Prop) (hZ : ∀ z, Z z → ∀ a u n : α, lt u (div (add a z) n) = lt u (div a n))
include hZ

theorem dchooseGo_notZ (u norm : α) : ∀ (ps : List α) (sum : α) (i k : Nat),
    lt u (div sum norm) = false → dchooseGo u norm ps sum i = some k →
    i ≤ k ∧ ∃ q, ps[k - i]? = some q ∧ ¬ Z q := by
  intro ps
  induction ps with
  | nil => intro sum i k _ h; simp [dchooseGo] at h
  | cons q rest ih =>
    intro sum i k hprev h
    simp only [dchooseGo] at h
    split at h
    · rename_i hlt
      cases h
      refine ⟨Nat.le_refl _, q, by simp, ?_⟩
      intro hq
      rw [hZ q hq] at hlt
      rw [hprev] at hlt
      cases hlt
    · rename_i hnlt
      have hnlt' : lt u (div (add sum q) norm) = false := by
        cases hb : lt u (div (add sum q) norm) with
        | false => rfl
        | true => exact absurd hb hnlt
      obtain ⟨h1, q', h2, h3⟩ := ih (add sum q) (i+1) k hnlt' h
      refine ⟨by omega, q', ?_, h3⟩
      rw [show k - i = (k - (i+1)) + 1 by omega]
      simpa using h2

theorem dchoose_notZ (u : α) (p : List α) (k : Nat) (h0 : lt u (div zero (p.foldl add zero)) = false)
    (h : dchoose u p = some k) : ∃ q, p[k]? = some q ∧ ¬ Z q := by
  unfold dchoose at h
  obtain ⟨_, q, h2, h3⟩ := dchooseGo_notZ Z hZ _ _ p zero 0 k h0 h
  exact ⟨q, by simpa using h2, h3⟩

theorem iidLoop_support_notZ (p : List α) (h0 : ∀ x : Nat, lt (div (ofNat x) (ofNat 4294967296)) (div zero (p.foldl add zero)) = false) :
    ∀ (n : Nat) (r : Rng) (acc out : Array Nat),
    (iidLoop p n r acc).1 = some out →
    (∀ k ∈ acc, ∃ q, p[k]? = some q ∧ ¬ Z q) → out.size = acc.size + n ∧ ∀ k ∈ out, ∃ q, p[k]? = some q ∧ ¬ Z q := by
  intro n
  induction n with
  | zero => intro r acc out h hacc; simp only [iidLoop] at h; cases h; exact ⟨rfl, hacc⟩
  | succ n ih =>
    intro r acc out h hacc
    simp only [iidLoop] at h
    obtain ⟨x, hx⟩ : ∃ x, (randomNum (α := α) r).1 = div (ofNat x) (ofNat 4294967296) := ⟨(r.randomNum).1, rfl⟩
    split at h
    · rename_i i hi
      rw [hx] at hi
      have hnew := dchoose_notZ Z hZ _ p i (h0 x) hi
      obtain ⟨h1, h2⟩ := ih _ (acc.push i) out h (by
        intro k hk
        rcases Array.mem_push.mp hk with hk | hk
        · exact hacc k hk
        · subst hk; exact hnew)
      exact ⟨by simp at h1; omega, h2⟩
    · simp at h
end anyZero

/-! ## order-0 Markov -/
/-- a count that is never incremented stays zero -/
theorem count_untouched (K : Nat) (codes : List Nat) (init : Array α) (k : Nat) (hk : k ∉ codes) :
    (codes.foldl (fun (p : Array α) c => p.modify c (fun v => add v one)) init)[k]? = init[k]? := by
  induction codes generalizing init with
  | nil => rfl
  | cons c cs ih =>
    simp only [List.foldl_cons]
    rw [ih _ (fun h => hk (List.mem_cons_of_mem _ h)), Array.getElem?_modify]
    have : c ≠ k := fun e => hk (e ▸ List.mem_cons_self)
    simp [this]

theorem markov0P_support (K : Nat) (codes : List Nat) (k : Nat) (q : α)
    (h : (markov0P (α := α) K codes)[k]? = some q) (hq : q ≠ zero) : k ∈ codes := by
  apply Classical.byContradiction
  intro hk
  apply hq
  have hc := count_untouched (α := α) K codes (Array.replicate K zero) k hk
  unfold markov0P at h
  split at h
  · rename_i hpos
    simp only [Array.toList_map, List.getElem?_map] at h
    rw [Array.getElem?_toList, hc] at h
    simp only [Array.getElem?_replicate] at h
    split at h
    · simp only [Option.map_some, Option.some.injEq] at h
      rw [← h]; exact LawfulCNum.zero_div_ofNat _ hpos
    · simp at h
  · rw [Array.getElem?_toList, hc] at h
    simp only [Array.getElem?_replicate] at h
    split at h
    · simp only [Option.some.injEq] at h; exact h.symm
    · simp at h

/-- `esl_rsq_{C,X}Markov0`: length kept, every emitted residue occurs in the input -/
theorem markov0_support (K : Nat) (codes : List Nat) (r : Rng) (out : Array Nat)
    (h : (markov0 (α := α) K codes r).1 = some out) : out.size = codes.length ∧ ∀ k ∈ out, k ∈ codes := by
  unfold markov0 at h
  obtain ⟨h1, h2⟩ := iidLoop_support _ codes.length r #[] out h (by simp)
  refine ⟨by simpa using h1, fun k hk => ?_⟩
  obtain ⟨q, hq1, hq2⟩ := h2 k hk
  exact markov0P_support K codes k q hq1 hq2

omit [CNum α] [LawfulCNum α] in
/-- `esl_rsq_xIID` with `p == NULL`: `L` symbols, each `< K` -/
theorem iidUniform_spec (K : Nat) (hK : 0 < K) : ∀ (n : Nat) (r : Rng) (acc : Array Nat),
    (∀ k ∈ acc, k < K) → (iidUniform K n r acc).1.size = acc.size + n ∧ ∀ k ∈ (iidUniform K n r acc).1, k < K := by
  intro n
  induction n with
  | zero => intro r acc h; exact ⟨rfl, h⟩
  | succ n ih =>
    intro r acc h
    simp only [iidUniform]
    obtain ⟨h1, h2⟩ := ih (roll r K).2 (acc.push (roll r K).1) (by
      intro k hk
      rcases Array.mem_push.mp hk with hk | hk
      · exact h k hk
      · subst hk; exact roll_lt r K hK)
    exact ⟨by simp at h1; omega, h2⟩

theorem ofOpt_ok (f : Array Nat → Bytes) (x : Option (Array Nat) × Rng) (out : Bytes) (h : (ofOpt f x).1 = .ok out) :
    ∃ codes, x.1 = some codes ∧ out = f codes := by
  obtain ⟨o, r⟩ := x
  cases o with
  | none => simp [ofOpt] at h
  | some c => simp only [ofOpt, SeqResult.ok.injEq] at h; exact ⟨c, rfl, h.symm⟩


/-! ## the scan never falls off the end (any number type)
The second loop of `esl_rnd_DChoose` adds the same numbers in the same order as the first, so its last running sum IS `norm`;
if `norm / norm = 1` and the roll is `< 1` the last test succeeds at the latest. No ordering laws are needed. -/
section total
omit [LawfulCNum α]

/-- the scan cannot fall off the end when the last running sum — which IS `norm`: the same numbers added in the same order —
    divided by `norm` is above the roll -/
theorem dchooseGo_total_abs (u norm : α) (hlast : lt u (div norm norm) = true) : ∀ (ps : List α) (sum : α) (i : Nat),
    ps ≠ [] → ps.foldl add sum = norm → ∃ k, dchooseGo u norm ps sum i = some k := by
  intro ps
  induction ps with
  | nil => intro sum i h; exact absurd rfl h
  | cons q rest ih =>
    intro sum i _ hf
    simp only [dchooseGo]
    split
    · exact ⟨i, rfl⟩
    · rename_i hn
      cases rest with
      | nil =>
        simp only [List.foldl_cons, List.foldl_nil] at hf
        rw [hf] at hn
        exact absurd hlast hn
      | cons q2 rest2 => exact ih (add sum q) (i+1) (by simp) (by simpa using hf)

/-- `esl_rnd_DChoose` over ANY number type: with `norm / norm = 1` and `roll < 1` it returns -/
theorem dchoose_total_abs (u : α) (p : List α) (hp : p ≠ []) (hself : div (p.foldl add zero) (p.foldl add zero) = one)
    (hu : lt u one = true) : ∃ k, dchoose u p = some k := by
  unfold dchoose
  exact dchooseGo_total_abs u _ (by rw [hself]; exact hu) p zero 0 hp rfl

theorem iidLoop_total_abs (p : List α) (hp : p ≠ []) (hself : div (p.foldl add zero) (p.foldl add zero) = one)
    (hu : ∀ x : Nat, x < 4294967296 → lt (div (ofNat x) (ofNat 4294967296) : α) one = true) :
    ∀ (n : Nat) (r : Rng) (acc : Array Nat), ∃ out, (iidLoop p n r acc).1 = some out := by
  intro n
  induction n with
  | zero => intro r acc; exact ⟨acc, rfl⟩
  | succ n ih =>
    intro r acc
    simp only [iidLoop]
    have hx : (r.randomNum).1 < 4294967296 := by
      unfold Rng.randomNum
      exact (r.next).1.toNat_lt
    obtain ⟨k, hk⟩ := dchoose_total_abs (randomNum (α := α) r).1 p hp hself (by
      unfold randomNum
      exact hu _ hx)
    rw [hk]
    exact ih _ _
end total

end EaselModel.Shuffle
