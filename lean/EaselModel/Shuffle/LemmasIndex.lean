import EaselModel.Shuffle.LemmasMsa
/-! The name index that `esl_msashuffle_PermuteSequenceOrder` rebuilds maps every name to its NEW row, provided the names
    are pairwise different (the precondition of `msa->index` everywhere in Easel). -/
namespace EaselModel.Shuffle

theorem indexStore_foldl_nodup {κ : Type} [BEq κ] [LawfulBEq κ] : ∀ (names keys : List κ), (keys ++ names).Nodup →
    names.foldl indexStore keys = keys ++ names := by
  intro names
  induction names with
  | nil => intro keys _; simp
  | cons a rest ih =>
    intro keys h
    have ha : a ∉ keys := by
      intro hm
      have := List.nodup_append.1 h
      exact this.2.2 a hm a (by simp) rfl
    simp only [List.foldl_cons, indexStore]
    rw [if_neg (by simpa using ha)]
    rw [ih (keys ++ [a]) (by simpa [List.append_assoc] using h)]
    simp

theorem idxOf_getElem_nodup {κ : Type} [BEq κ] [LawfulBEq κ] : ∀ (l : List κ), l.Nodup → ∀ (i : Nat) (hi : i < l.length), l.idxOf l[i] = i := by
  intro l
  induction l with
  | nil => intro _ i hi; simp at hi
  | cons a l ih =>
    intro h i hi
    have hn := List.nodup_cons.1 h
    cases i with
    | zero => simp
    | succ i =>
      have hi' : i < l.length := by simpa using hi
      have hne : a ≠ l[i] := fun e => hn.1 (e ▸ List.getElem_mem hi')
      have hb : (a == l[i]) = false := by simpa using hne
      simp [List.idxOf_cons, hb, ih hn.2 i hi']

/-- distinct names: the rebuilt index is the list of names in their new order … -/
theorem rebuildIndex_nodup {κ : Type} [BEq κ] [LawfulBEq κ] (names : List κ) (h : names.Nodup) : rebuildIndex names = names := by
  have := indexStore_foldl_nodup names [] (by simpa using h)
  simpa [rebuildIndex] using this

/-- … so looking up the name of row `i` answers `i` -/
theorem indexLookup_rebuild {κ : Type} [BEq κ] [LawfulBEq κ] (names : List κ) (h : names.Nodup) (i : Nat) (hi : i < names.length) :
    indexLookup (rebuildIndex names) names[i] = some i := by
  rw [rebuildIndex_nodup names h]
  unfold indexLookup
  have : names.idxOf names[i] = i := idxOf_getElem_nodup names h i hi
  simp [this, hi]

end EaselModel.Shuffle
