import EaselModel.Shuffle.Lemmas
/-! `esl_msashuffle_{C,X}QRNA`: each of the three loops swaps whole columns of one class. -/
namespace EaselModel.Shuffle
open EaselModel.Random

/-- the two-`set` form of the C swap equals `Array.swap` -/
theorem set_set_eq_swap {α : Type} [Inhabited α] (a : Array α) (A B : Nat) (hA : A < a.size) (hB : B < a.size) :
    (a.setIfInBounds A a[B]!).setIfInBounds B a[A]! = a.swap A B hA hB := by
  rw [getElem!_pos a A hA, getElem!_pos a B hB]
  apply Array.ext
  · simp
  · intro k hk1 hk2
    rw [Array.getElem_swap, Array.getElem_setIfInBounds (by simpa using hk1), Array.getElem_setIfInBounds (by simpa using hk1)]
    by_cases e1 : B = k
    · subst e1
      by_cases e2 : A = B
      · subst e2; simp
      · have : ¬ (B = A) := fun e => e2 e.symm
        simp [this]
    · have e1' : ¬ (k = B) := fun e => e1 e.symm
      by_cases e2 : A = k
      · subst e2; simp [e1]
      · have e2' : ¬ (k = A) := fun e => e2 e.symm
        simp [e1, e2, e1', e2']

theorem bang_set (col : Array Nat) (i v t : Nat) : (col.setIfInBounds i v)[t]! = col[t]! ∨ (col.setIfInBounds i v)[t]! = v := by
  rw [Array.getElem!_eq_getD, Array.getElem!_eq_getD, Array.getD_eq_getD_getElem?, Array.getD_eq_getD_getElem?, Array.getElem?_setIfInBounds]
  by_cases e : i = t
  · subst e
    by_cases h : i < col.size
    · right; simp [h]
    · left; simp [h]
  · left; simp [e]

/-- what one iteration does to the sequences: columns `A = col[pos]` and `B = col[n-1]` are exchanged in both rows -/
theorem qrnaStep_seqs (last : Bool) (q : Qrna) (pos n : Nat) (hA : q.col[pos]! < q.xs.size) (hB : q.col[n-1]! < q.xs.size)
    (hs : q.ys.size = q.xs.size) :
    (qrnaStep last q pos n).xs = q.xs.swap (q.col[pos]!) (q.col[n-1]!) hA hB ∧
    (qrnaStep last q pos n).ys = q.ys.swap (q.col[pos]!) (q.col[n-1]!) (by omega) (by omega) := by
  have hc : (q.col.setIfInBounds pos (q.col[n-1]!))[n-1]! = q.col[n-1]! := by
    rcases bang_set q.col pos (q.col[n-1]!) (n-1) with h | h <;> exact h
  unfold qrnaStep
  simp only [hc]
  exact ⟨set_set_eq_swap q.xs _ _ hA hB, set_set_eq_swap q.ys _ _ (by omega) (by omega)⟩

/-- the column list keeps its entries (they are only rearranged or rewritten with entries of the list) -/
theorem qrnaStep_col (last : Bool) (q : Qrna) (pos n : Nat) (Q : Nat → Prop) (hQ : ∀ t, t < q.col.size → Q q.col[t]!)
    (hpos : pos < q.col.size) (hn : n - 1 < q.col.size) :
    (qrnaStep last q pos n).col.size = q.col.size ∧ ∀ t, t < q.col.size → Q (qrnaStep last q pos n).col[t]! := by
  unfold qrnaStep
  refine ⟨by simp, fun t ht => ?_⟩
  simp only []
  rcases bang_set (q.col.setIfInBounds pos (q.col[n-1]!)) (if last = true then n - 1 else pos) (q.col[pos]!) t with h | h
  · rw [h]
    rcases bang_set q.col pos (q.col[n-1]!) t with h' | h'
    · rw [h']; exact hQ t ht
    · rw [h']; exact hQ _ hn
  · rw [h]; exact hQ _ hpos

/-- class of a column -/
def colClass (isGap : UInt8 → Bool) (x y : Bytes) (p : Nat) : Bool × Bool := (isGap x[p]!, isGap y[p]!)

/-- invariant on the two sequences -/
structure QInv (isGap : UInt8 → Bool) (x0 y0 : Bytes) (base L : Nat) (xs ys : Bytes) : Prop where
  sx : xs.size = x0.size
  sy : ys.size = x0.size
  cls : ∀ p, p < x0.size → colClass isGap xs ys p = colClass isGap x0 y0 p
  zip : (xs.zip ys).Perm (x0.zip y0)
  outside : ∀ p, (p < base ∨ base + L ≤ p) → xs[p]? = x0[p]? ∧ ys[p]? = y0[p]?

theorem zip_swap {α β : Type} (a : Array α) (b : Array β) (A B : Nat) (hs : b.size = a.size) (hA : A < a.size) (hB : B < a.size) :
    (a.swap A B hA hB).zip (b.swap A B (by omega) (by omega)) = (a.zip b).swap A B (by simp; omega) (by simp; omega) := by
  apply Array.ext
  · simp
  · intro k hk1 hk2
    rw [Array.getElem_zip, Array.getElem_swap, Array.getElem_swap, Array.getElem_swap]
    simp only [Array.getElem_zip]
    split
    · rfl
    · split <;> rfl

theorem QInv.swap {isGap : UInt8 → Bool} {x0 y0 : Bytes} {base L : Nat} {xs ys : Bytes} (h : QInv isGap x0 y0 base L xs ys)
    (hy0 : y0.size = x0.size) (k : Bool × Bool) (A B : Nat) (hA : A < x0.size) (hB : B < x0.size)
    (hA' : base ≤ A ∧ A < base + L) (hB' : base ≤ B ∧ B < base + L)
    (cA : colClass isGap x0 y0 A = k) (cB : colClass isGap x0 y0 B = k) :
    QInv isGap x0 y0 base L (xs.swap A B (by rw [h.sx]; exact hA) (by rw [h.sx]; exact hB))
      (ys.swap A B (by rw [h.sy]; exact hA) (by rw [h.sy]; exact hB)) := by
  have hsx := h.sx
  have hsy := h.sy
  refine ⟨by simp [hsx], by simp [hsy], ?_, ?_, ?_⟩
  · intro p hp
    have hcA := h.cls A hA
    have hcB := h.cls B hB
    have hcp := h.cls p hp
    simp only [colClass] at hcA hcB hcp cA cB ⊢
    rw [getElem!_pos _ p (by simp [hsx]; exact hp), getElem!_pos _ p (by simp [hsy]; exact hp), Array.getElem_swap, Array.getElem_swap]
    rw [getElem!_pos xs A (by omega), getElem!_pos ys A (by omega)] at hcA
    rw [getElem!_pos xs B (by omega), getElem!_pos ys B (by omega)] at hcB
    rw [getElem!_pos xs p (by omega), getElem!_pos ys p (by omega)] at hcp
    by_cases e1 : p = A
    · subst e1; simp only [↓reduceIte]; rw [hcB, cB, ← cA]
    · by_cases e2 : p = B
      · subst e2; simp only [e1, ↓reduceIte]; rw [hcA, cA, ← cB]
      · simp only [e1, e2, ↓reduceIte]; exact hcp
  · rw [zip_swap xs ys A B (by omega) (by omega) (by omega)]
    exact (Array.swap_perm _ _).trans h.zip
  · intro p hp
    rw [Array.getElem?_swap, Array.getElem?_swap]
    have e1 : ¬ (B = p) := by omega
    have e2 : ¬ (A = p) := by omega
    simp only [e1, e2, ↓reduceIte]
    exact h.outside p hp

/-- all entries of a column list are in range and of class `k` -/
def ColOK (isGap : UInt8 → Bool) (x0 y0 : Bytes) (base L : Nat) (k : Bool × Bool) (col : Array Nat) : Prop :=
  ∀ t, t < col.size → (base ≤ col[t]! ∧ col[t]! < base + L) ∧ colClass isGap x0 y0 col[t]! = k

theorem qrnaLoop_inv (isGap : UInt8 → Bool) (x0 y0 : Bytes) (base L : Nat) (hfit : base + L ≤ x0.size) (hy0 : y0.size = x0.size)
    (last : Bool) (k : Bool × Bool) :
    ∀ (n : Nat) (q : Qrna) (r : Rng), n ≤ q.col.size → ColOK isGap x0 y0 base L k q.col → QInv isGap x0 y0 base L q.xs q.ys →
      QInv isGap x0 y0 base L (qrnaLoop last n q r).1.xs (qrnaLoop last n q r).1.ys := by
  intro n
  induction n using Nat.strongRecOn with
  | _ n ih =>
    intro q r hn hcol hq
    match n with
    | 0 => simpa [qrnaLoop] using hq
    | 1 => simpa [qrnaLoop] using hq
    | n+2 =>
      simp only [qrnaLoop]
      have hpos := roll_lt r (n+2) (by omega)
      have hA := hcol (roll r (n+2)).1 (by omega)
      have hB := hcol (n + 2 - 1) (by omega)
      have hAx : q.col[(roll r (n+2)).1]! < q.xs.size := by rw [hq.sx]; omega
      have hBx : q.col[n + 2 - 1]! < q.xs.size := by rw [hq.sx]; omega
      obtain ⟨e1, e2⟩ := qrnaStep_seqs last q (roll r (n+2)).1 (n+2) hAx hBx (by rw [hq.sy, hq.sx])
      obtain ⟨c1, c2⟩ := qrnaStep_col last q (roll r (n+2)).1 (n+2)
        (fun v => (base ≤ v ∧ v < base + L) ∧ colClass isGap x0 y0 v = k) hcol (by omega) (by omega)
      apply ih (n+1) (by omega) _ _ (by rw [c1]; omega)
      · intro t ht; rw [c1] at ht; exact c2 t ht
      · rw [e1, e2]
        exact hq.swap hy0 k _ _ (by omega) (by omega) hA.1 hB.1 hA.2 hB.2

/-- the three column lists built by the classification loop -/
theorem qrnaCols_ok (isGap : UInt8 → Bool) (x y : Bytes) (base L : Nat) :
    ColOK isGap x y base L (false, false) (qrnaCols isGap x y base L).1 ∧
    ColOK isGap x y base L (false, true) (qrnaCols isGap x y base L).2.1 ∧
    ColOK isGap x y base L (true, false) (qrnaCols isGap x y base L).2.2 := by
  unfold qrnaCols
  have key : ∀ n, n ≤ L →
      let acc := (List.range n).foldl (fun (acc : Array Nat × Array Nat × Array Nat) t =>
        let i := base + t
        let gx := isGap x[i]!
        let gy := isGap y[i]!
        if gx && gy then acc
        else if !gx && !gy then (acc.1.push i, acc.2.1, acc.2.2)
        else if gx then (acc.1, acc.2.1, acc.2.2.push i)
        else (acc.1, acc.2.1.push i, acc.2.2)) (#[], #[], #[])
      ColOK isGap x y base L (false, false) acc.1 ∧ ColOK isGap x y base L (false, true) acc.2.1 ∧
      ColOK isGap x y base L (true, false) acc.2.2 := by
    intro n
    induction n with
    | zero => intro _; simp [ColOK]
    | succ n ih =>
      intro hn
      obtain ⟨h1, h2, h3⟩ := ih (by omega)
      rw [List.range_succ, List.foldl_append]
      simp only [List.foldl_cons, List.foldl_nil]
      have push_ok : ∀ (k : Bool × Bool) (col : Array Nat), ColOK isGap x y base L k col →
          colClass isGap x y (base + n) = k → ColOK isGap x y base L k (col.push (base + n)) := by
        intro k col hc hk t ht
        by_cases e : t < col.size
        · rw [getElem!_pos _ t (by simpa using ht), Array.getElem_push_lt e, ← getElem!_pos col t e]; exact hc t e
        · have : t = col.size := by simp at ht; omega
          subst this
          rw [getElem!_pos _ _ (by simp), Array.getElem_push_eq]
          exact ⟨by omega, hk⟩
      cases hgx : isGap x[base + n]! <;> cases hgy : isGap y[base + n]! <;> simp only [Bool.and_self, Bool.and_true, Bool.and_false,
        Bool.not_true, Bool.not_false, Bool.false_eq_true, ↓reduceIte]
      · exact ⟨push_ok _ _ h1 (by simp [colClass, hgx, hgy]), h2, h3⟩
      · exact ⟨h1, push_ok _ _ h2 (by simp [colClass, hgx, hgy]), h3⟩
      · exact ⟨h1, h2, push_ok _ _ h3 (by simp [colClass, hgx, hgy])⟩
      · exact ⟨h1, h2, h3⟩
  exact key L (Nat.le_refl _)

/-- `esl_msashuffle_{C,X}QRNA`: lengths kept; every column keeps its class (so gaps stay where they are); the multiset of
    columns `(x[i], y[i])` is preserved (hence also per class); everything outside `[base, base+L)` is untouched -/
theorem qrna_spec (isGap : UInt8 → Bool) (x y : Bytes) (base L : Nat) (hfit : base + L ≤ x.size) (hy : y.size = x.size) (r : Rng) :
    QInv isGap x y base L (qrna isGap x y base L r).1.1 (qrna isGap x y base L r).1.2 := by
  obtain ⟨c1, c2, c3⟩ := qrnaCols_ok isGap x y base L
  have q0 : QInv isGap x y base L x y := ⟨rfl, hy, fun _ _ => rfl, Array.Perm.refl _, fun _ _ => ⟨rfl, rfl⟩⟩
  unfold qrna
  simp only
  have i1 := qrnaLoop_inv isGap x y base L hfit hy false (false, false) _ { xs := x, ys := y, col := (qrnaCols isGap x y base L).1 } r
    (Nat.le_refl _) c1 q0
  generalize qrnaLoop false _ { xs := x, ys := y, col := (qrnaCols isGap x y base L).1 } r = s1 at i1 ⊢
  have i2 := qrnaLoop_inv isGap x y base L hfit hy true (false, true) _ { s1.1 with col := (qrnaCols isGap x y base L).2.1 } s1.2
    (Nat.le_refl _) c2 i1
  generalize qrnaLoop true _ { s1.1 with col := (qrnaCols isGap x y base L).2.1 } s1.2 = s2 at i2 ⊢
  exact qrnaLoop_inv isGap x y base L hfit hy true (true, false) _ { s2.1 with col := (qrnaCols isGap x y base L).2.2 } s2.2
    (Nat.le_refl _) c3 i2

end EaselModel.Shuffle
