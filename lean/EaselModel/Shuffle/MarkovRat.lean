import EaselModel.Shuffle.LawfulRat
import EaselModel.Shuffle.LemmasMarkov1
import EaselModel.Shuffle.LemmasDP
import Mathlib.Tactic.Linarith
import Mathlib.Tactic.Ring
import Mathlib.Tactic.Positivity
import Mathlib.Algebra.Order.BigOperators.Group.List
/-! # `esl_fatal("unreached code was reached")` is unreachable in exact arithmetic (C18)

`esl_rnd_DChoose` ends in `esl_fatal` when its scan falls off the end of the vector. Read over ℚ — the lawful instance
of the number class the model is written in — this cannot happen for a vector of non-negative entries with a positive
sum and a roll in `[0,1)`: the last cumulative sum divided by the norm is `1`. Consequences, for every input and every
generator state: `esl_rsq_IID`-type loops, `esl_rsq_{C,X}Markov0` and `esl_rsq_{C,X}Markov1` never reach the fatal
branch. For `Markov1` this is exactly what the circularisation `p[x][i0] += 1.0` buys (`utest_markov1_bug`): every residue the chain
can move to has an outgoing pair, also a residue that occurs only at the end of the input.
(binary64: the second loop adds the same numbers in the same order as the first, so the last sum IS `norm` and
`norm / norm = 1.0 > roll` for a finite positive `norm` — a fifth IEEE fact, not needed by the support theorems.) -/
namespace EaselModel.Shuffle
open EaselModel.Random CNum

theorem foldl_add_eq_sum (p : List ℚ) (s : ℚ) : p.foldl CNum.add s = s + p.sum := by
  induction p generalizing s with
  | nil => simp
  | cons a t ih =>
    simp only [List.foldl_cons, List.sum_cons]
    rw [ih]
    show (s + a) + t.sum = s + (a + t.sum)
    ring

/-- the scan returns: if all earlier tests failed (`sum ≤ u·norm`) and the total is above the roll; the chosen entry is positive -/
theorem dchooseGo_total (u norm : ℚ) (hn : 0 < norm) : ∀ (ps : List ℚ) (sum : ℚ) (i : Nat),
    (∀ q ∈ ps, 0 ≤ q) → sum ≤ u * norm → u * norm < sum + ps.sum →
    ∃ k, dchooseGo u norm ps sum i = some k ∧ i ≤ k ∧ k < i + ps.length ∧ ∃ q, ps[k - i]? = some q ∧ 0 < q := by
  intro ps
  induction ps with
  | nil => intro sum i _ h1 h2; simp at h2; linarith
  | cons q rest ih =>
    intro sum i hq h1 h2
    simp only [dchooseGo]
    by_cases ht : u < (sum + q) / norm
    · have : CNum.lt u (CNum.div (CNum.add sum q) norm) = true := by
        show decide (u < (sum + q) / norm) = true
        simpa using ht
      rw [if_pos this]
      have h3 : u * norm < sum + q := by rwa [lt_div_iff₀ hn] at ht
      exact ⟨i, rfl, Nat.le_refl _, by simp, q, by simp, by linarith⟩
    · have : ¬ (CNum.lt u (CNum.div (CNum.add sum q) norm) = true) := by
        show ¬ (decide (u < (sum + q) / norm) = true)
        simpa using ht
      rw [if_neg this]
      have h1' : sum + q ≤ u * norm := by
        have := not_lt.1 ht
        rwa [div_le_iff₀ hn] at this
      obtain ⟨k, hk1, hk2, hk3, q', hq1, hq2⟩ := ih (sum + q) (i+1) (fun x hx => hq x (List.mem_cons_of_mem _ hx)) h1'
        (by simp only [List.sum_cons] at h2; linarith)
      refine ⟨k, hk1, by omega, by simp; omega, q', ?_, hq2⟩
      rw [show k - i = (k - (i+1)) + 1 by omega]
      simpa using hq1

/-- `esl_rnd_DChoose` over ℚ with a roll in `[0,1)` on non-negative entries of positive sum: returns an index, in range,
    with a positive entry -/
theorem dchoose_total (u : ℚ) (hu0 : 0 ≤ u) (hu1 : u < 1) (p : List ℚ) (hp : ∀ q ∈ p, 0 ≤ q) (hs : 0 < p.sum) :
    ∃ k, dchoose u p = some k ∧ k < p.length ∧ ∃ q, p[k]? = some q ∧ 0 < q := by
  unfold dchoose
  have hnorm : p.foldl CNum.add (CNum.zero : ℚ) = p.sum := by
    rw [foldl_add_eq_sum]; show (0 : ℚ) + p.sum = p.sum; ring
  rw [hnorm]
  obtain ⟨k, h1, _, h3, q, hq1, hq2⟩ := dchooseGo_total u p.sum hs p (CNum.zero : ℚ) 0 hp
    (by show (0 : ℚ) ≤ u * p.sum; positivity)
    (by show u * p.sum < (0 : ℚ) + p.sum; nlinarith)
  exact ⟨k, h1, by omega, q, by simpa using hq1, hq2⟩

/-! ## the chooser is the inverse CDF (exact arithmetic) -/
/-- if the scan returns `k`, the roll lies in the `k`-th cumulative bracket -/
theorem dchooseGo_bracket (u norm : ℚ) (hn : 0 < norm) : ∀ (ps : List ℚ) (sum : ℚ) (i k : Nat),
    sum ≤ u * norm → dchooseGo u norm ps sum i = some k →
    i ≤ k ∧ sum + (ps.take (k - i)).sum ≤ u * norm ∧ u * norm < sum + (ps.take (k - i + 1)).sum := by
  intro ps
  induction ps with
  | nil => intro sum i k _ h; simp [dchooseGo] at h
  | cons q rest ih =>
    intro sum i k h1 h
    simp only [dchooseGo] at h
    split at h
    · rename_i ht
      have ht' : u < (sum + q) / norm := by
        have : decide (u < (sum + q) / norm) = true := ht
        simpa using this
      cases h
      rw [lt_div_iff₀ hn] at ht'
      refine ⟨Nat.le_refl _, by simpa using h1, by simpa using ht'⟩
    · rename_i ht
      have ht' : ¬ (u < (sum + q) / norm) := by
        intro hlt
        apply ht
        show decide (u < (sum + q) / norm) = true
        simpa using hlt
      have h1' : sum + q ≤ u * norm := by
        have := not_lt.1 ht'
        rwa [div_le_iff₀ hn] at this
      obtain ⟨a, b, c⟩ := ih (sum + q) (i+1) k h1' h
      have e1 : k - i = (k - (i+1)) + 1 := by omega
      refine ⟨by omega, ?_, ?_⟩
      · rw [e1, List.take_succ_cons, List.sum_cons]; linarith
      · rw [show k - i + 1 = (k - (i+1) + 1) + 1 by omega, List.take_succ_cons, List.sum_cons]; linarith

/-- **inverse CDF**: `esl_rnd_DChoose` over ℚ returns `k` exactly when the roll lies in
    `[ (p₀+…+p_{k-1})/norm , (p₀+…+p_k)/norm )` — an interval of length `p_k / norm`: under a uniform roll, index `k` is chosen
    with probability `p_k / Σp` -/
theorem dchoose_bracket (u : ℚ) (hu0 : 0 ≤ u) (p : List ℚ) (hs : 0 < p.sum) (k : Nat) (h : dchoose u p = some k) :
    (p.take k).sum / p.sum ≤ u ∧ u < (p.take (k+1)).sum / p.sum := by
  unfold dchoose at h
  have hnorm : p.foldl CNum.add (CNum.zero : ℚ) = p.sum := by
    rw [foldl_add_eq_sum]; show (0 : ℚ) + p.sum = p.sum; ring
  rw [hnorm] at h
  obtain ⟨_, h2, h3⟩ := dchooseGo_bracket u p.sum hs p (CNum.zero : ℚ) 0 k (by show (0 : ℚ) ≤ u * p.sum; positivity) h
  have z : (CNum.zero : ℚ) = 0 := rfl
  rw [z, zero_add, Nat.sub_zero] at h2 h3
  exact ⟨by rw [div_le_iff₀ hs]; exact h2, by rw [lt_div_iff₀ hs]; exact h3⟩

/-- the value of `esl_random()` read over ℚ lies in `[0,1)` -/
theorem randomNum_unit (r : Rng) : 0 ≤ (randomNum (α := ℚ) r).1 ∧ (randomNum (α := ℚ) r).1 < 1 := by
  unfold randomNum
  simp only
  have hx : (r.randomNum).1 < 4294967296 := by
    unfold Rng.randomNum
    simp only
    exact (r.next).1.toNat_lt
  show (0 : ℚ) ≤ ((r.randomNum).1 : ℚ) / ((4294967296 : Nat) : ℚ) ∧ ((r.randomNum).1 : ℚ) / ((4294967296 : Nat) : ℚ) < 1
  constructor
  · positivity
  · rw [div_lt_one (by positivity)]
    exact_mod_cast hx

/-- i.i.d. emission never falls through -/
theorem iidLoop_total (p : List ℚ) (hp : ∀ q ∈ p, 0 ≤ q) (hs : 0 < p.sum) : ∀ (n : Nat) (r : Rng) (acc : Array Nat),
    ∃ out, (iidLoop p n r acc).1 = some out := by
  intro n
  induction n with
  | zero => intro r acc; exact ⟨acc, rfl⟩
  | succ n ih =>
    intro r acc
    simp only [iidLoop]
    obtain ⟨h0, h1⟩ := randomNum_unit r
    obtain ⟨k, hk, _, _⟩ := dchoose_total _ h0 h1 p hp hs
    rw [hk]
    exact ih _ _

/-! ## order-0 Markov -/
/-- the counting fold over ℚ: entry `k` grows by the number of occurrences of `k` -/
theorem count_fold (codes : List Nat) : ∀ (init : Array ℚ) (k : Nat),
    (codes.foldl (fun (p : Array ℚ) c => p.modify c (fun v => CNum.add v CNum.one)) init)[k]? =
      init[k]?.map (fun v => v + (codes.count k : ℚ)) := by
  induction codes with
  | nil => intro init k; cases h : init[k]? <;> simp [h]
  | cons c cs ih =>
    intro init k
    simp only [List.foldl_cons]
    rw [ih, Array.getElem?_modify, List.count_cons]
    by_cases e : c = k
    · subst e
      cases h : init[c]? with
      | none => simp [h]
      | some v =>
        simp only [h, ↓reduceIte, Option.map_some, beq_self_eq_true, Option.some.injEq]
        show (v + 1) + (cs.count c : ℚ) = v + ((cs.count c + 1 : Nat) : ℚ)
        push_cast; ring
    · have : (c == k) = false := by simpa using e
      simp [e, this]

theorem markov0P_getElem? (K : Nat) (codes : List Nat) (hne : codes ≠ []) (k : Nat) :
    (markov0P (α := ℚ) K codes)[k]? = if k < K then some ((codes.count k : ℚ) / (codes.length : ℚ)) else none := by
  have hpos : codes.length > 0 := List.length_pos_iff.2 hne
  unfold markov0P
  simp only [hpos, ↓reduceIte, Array.toList_map, List.getElem?_map, Array.getElem?_toList]
  rw [count_fold]
  simp only [Array.getElem?_replicate]
  split
  · simp only [Option.map_some, Option.some.injEq]
    show ((0 : ℚ) + (codes.count k : ℚ)) / ((codes.length : Nat) : ℚ) = _
    rw [zero_add]
  · rfl

theorem markov0P_good (K : Nat) (codes : List Nat) (hK : ∀ c ∈ codes, c < K) (hne : codes ≠ []) :
    (∀ q ∈ markov0P (α := ℚ) K codes, 0 ≤ q) ∧ 0 < (markov0P (α := ℚ) K codes).sum := by
  have hL : (0 : ℚ) < (codes.length : ℚ) := by exact_mod_cast List.length_pos_iff.2 hne
  have hnn : ∀ q ∈ markov0P (α := ℚ) K codes, 0 ≤ q := by
    intro q hq
    obtain ⟨k, hk, hk'⟩ := List.getElem_of_mem hq
    have := markov0P_getElem? K codes hne k
    rw [List.getElem?_eq_getElem hk, hk'] at this
    split at this
    · simp only [Option.some.injEq] at this; rw [this]; positivity
    · cases this
  refine ⟨hnn, ?_⟩
  obtain ⟨c0, rest, rfl⟩ := List.exists_cons_of_ne_nil hne
  have hc0 : c0 < K := hK c0 (by simp)
  have he := markov0P_getElem? K (c0 :: rest) hne c0
  rw [if_pos hc0] at he
  have hmem : ((List.count c0 (c0 :: rest) : ℚ) / ((c0 :: rest).length : ℚ)) ∈ markov0P (α := ℚ) K (c0 :: rest) :=
    List.mem_of_getElem? he
  have hle := List.single_le_sum hnn _ hmem
  have hposq : (0 : ℚ) < (List.count c0 (c0 :: rest) : ℚ) / ((c0 :: rest).length : ℚ) := by
    apply div_pos _ hL
    have : 0 < List.count c0 (c0 :: rest) := by simp
    exact_mod_cast this
  linarith

/-- `esl_rsq_{C,X}Markov0` over ℚ never reaches `esl_fatal`, for every validated input and every generator state -/
theorem markov0_total (K : Nat) (codes : List Nat) (hK : ∀ c ∈ codes, c < K) (r : Rng) :
    ∃ out, (markov0 (α := ℚ) K codes r).1 = some out := by
  unfold markov0
  by_cases hne : codes = []
  · subst hne; exact ⟨#[], rfl⟩
  · obtain ⟨h1, h2⟩ := markov0P_good K codes hK hne
    exact iidLoop_total _ h1 h2 _ r #[]

/-! ## order-1 Markov: exact first-order counts over ℚ -/
theorem ent_modify_eq (m : Array (Array ℚ)) (a b : Nat) (f : ℚ → ℚ) :
    ent (m.modify a (fun row => row.modify b f)) a b = (ent m a b).map f := by
  unfold ent
  rw [Array.getElem?_modify]
  cases hm : m[a]? with
  | none => simp
  | some row =>
    simp only [↓reduceIte, Option.map_some, Option.bind_some, Array.getElem?_modify]

/-- the counting fold adds to entry `(x, y)` the number of occurrences of `(x, y)` among the adjacent pairs of `prev :: ys` -/
theorem countsRun_exact (ys : List Nat) : ∀ (m : Array (Array ℚ)) (prev : Nat) (x y : Nat),
    ent (ys.foldl (fun (st : Array (Array ℚ) × Nat) y =>
      (st.1.modify st.2 (fun row => row.modify y (fun v => CNum.add v CNum.one)), y)) (m, prev)).1 x y =
      (ent m x y).map (fun v => v + ((adjPairs (prev :: ys)).count (x, y) : ℚ)) := by
  induction ys with
  | nil => intro m prev x y; simp only [List.foldl_nil, adjPairs, List.count_nil]; cases h : ent m x y <;> simp
  | cons y0 t ih =>
    intro m prev x y
    simp only [List.foldl_cons]
    rw [ih]
    simp only [adjPairs, List.count_cons]
    by_cases e : (prev, y0) = (x, y)
    · obtain ⟨e1, e2⟩ := Prod.mk.inj e
      subst e1; subst e2
      rw [ent_modify_eq]
      cases h : ent m prev y0 with
      | none => simp
      | some v =>
        simp only [Option.map_some, beq_self_eq_true, ↓reduceIte, Option.some.injEq]
        show (v + 1) + ((adjPairs (y0 :: t)).count (prev, y0) : ℚ) = v + (((adjPairs (y0 :: t)).count (prev, y0) + 1 : Nat) : ℚ)
        push_cast; ring
    · rw [ent_modify m prev y0 x y _ e]
      have : ((prev, y0) == (x, y)) = false := by simpa using e
      simp [this]

theorem ent_zeros (K x y : Nat) :
    ent (Array.replicate K (Array.replicate K (CNum.zero : ℚ))) x y = if x < K ∧ y < K then some 0 else none := by
  unfold ent
  simp only [Array.getElem?_replicate]
  by_cases hx : x < K
  · by_cases hy : y < K
    · simp [hx, hy]; rfl
    · simp [hx, hy]
  · simp [hx]

/-- **exact counts**: entry `(x, y)` of the count matrix of `esl_rsq_{C,X}Markov1` is the number of occurrences of `(x, y)`
    among the adjacent pairs of the input read circularly -/
theorem markov1Counts_exact (K : Nat) (c0 : Nat) (rest : List Nat) (x y : Nat) :
    ent (markov1Counts (α := ℚ) K (c0 :: rest)) x y =
      if x < K ∧ y < K then some (((circPairs (c0 :: rest)).count (x, y) : Nat) : ℚ) else none := by
  simp only [markov1Counts]
  have hl := (countsRun_spec (α := ℚ) rest (Array.replicate K (Array.replicate K CNum.zero)) c0).1
  have hc : circPairs (c0 :: rest) = adjPairs (c0 :: rest) ++ [((c0 :: rest).getLast (by simp), c0)] := by
    simp only [circPairs, List.take_succ_cons, List.take_zero]
    exact adjPairs_append_singleton c0 rest c0
  rw [hc, List.count_append]
  by_cases e : ((c0 :: rest).getLast (by simp), c0) = (x, y)
  · obtain ⟨e1, e2⟩ := Prod.mk.inj e
    rw [hl, e1, e2, ent_modify_eq, countsRun_exact, ent_zeros]
    split
    · simp only [Option.map_some, Option.some.injEq]
      rw [← e1, ← e2]
      simp only [List.count_cons_self, List.count_nil]
      show ((0 : ℚ) + _) + 1 = _
      push_cast; ring
    · rfl
  · rw [ent_modify _ _ _ x y _ (by rw [hl]; exact e), countsRun_exact, ent_zeros]
    have hne : (((c0 :: rest).getLast (by simp), c0) == (x, y)) = false := by simpa using e
    split
    · simp only [Option.map_some, Option.some.injEq, List.count_cons, List.count_nil, hne]
      show (0 : ℚ) + _ = _
      push_cast; ring
    · rfl

/-- every residue of the input has a successor in the circular reading (also one that occurs only at the very end) -/
theorem succ_in_append (x z : Nat) : ∀ l : List Nat, x ∈ l → ∃ y, (x, y) ∈ adjPairs (l ++ [z]) ∧ (y ∈ l ∨ y = z) := by
  intro l
  induction l with
  | nil => intro h; simp at h
  | cons a t ih =>
    intro h
    cases t with
    | nil =>
      simp only [List.mem_singleton] at h
      subst h
      exact ⟨z, by simp [adjPairs], Or.inr rfl⟩
    | cons b t' =>
      by_cases e : x = a
      · subst e
        exact ⟨b, by simp [adjPairs], Or.inl (by simp)⟩
      · have hx : x ∈ b :: t' := by
          rcases List.mem_cons.1 h with h | h
          · exact absurd h e
          · exact h
        obtain ⟨y, hy1, hy2⟩ := ih hx
        refine ⟨y, ?_, ?_⟩
        · simp only [List.cons_append, adjPairs, List.mem_cons]
          exact Or.inr (by simpa using hy1)
        · rcases hy2 with hy2 | hy2
          · exact Or.inl (List.mem_cons_of_mem _ hy2)
          · exact Or.inr hy2

theorem circ_succ (codes : List Nat) (x : Nat) (hx : x ∈ codes) : ∃ y, (x, y) ∈ circPairs codes ∧ y ∈ codes := by
  cases codes with
  | nil => simp at hx
  | cons c0 rest =>
    obtain ⟨y, h1, h2⟩ := succ_in_append x c0 (c0 :: rest) hx
    refine ⟨y, by simpa [circPairs] using h1, ?_⟩
    rcases h2 with h2 | h2
    · exact h2
    · rw [h2]; simp

theorem snd_mem_of_adjPairs (l : List Nat) (x y : Nat) (h : (x, y) ∈ adjPairs l) : y ∈ l := by
  induction l with
  | nil => simp [adjPairs] at h
  | cons a t ih =>
    cases t with
    | nil => simp [adjPairs] at h
    | cons b t' =>
      simp only [adjPairs, List.mem_cons, Prod.mk.injEq] at h
      rcases h with ⟨_, h2⟩ | h
      · rw [h2]; simp
      · exact List.mem_cons_of_mem _ (ih h)

theorem circ_snd_mem (codes : List Nat) (x y : Nat) (h : (x, y) ∈ circPairs codes) : y ∈ codes := by
  cases codes with
  | nil => simp [circPairs, adjPairs] at h
  | cons c0 rest =>
    have := snd_mem_of_adjPairs _ x y h
    simp only [List.take_succ_cons, List.take_zero, List.mem_append, List.mem_singleton] at this
    rcases this with h | h
    · exact h
    · rw [h]; simp

/-! ## rows of the count matrix -/
/-- row `x` of the exact counts, as a list over `y = 0..K-1` -/
def rowL (K : Nat) (codes : List Nat) (x : Nat) : List ℚ :=
  (List.range K).map (fun y => (((circPairs codes).count (x, y) : Nat) : ℚ))

theorem rowL_nonneg (K : Nat) (codes : List Nat) (x : Nat) : ∀ q ∈ rowL K codes x, 0 ≤ q := by
  intro q hq
  simp only [rowL, List.mem_map] at hq
  obtain ⟨y, _, rfl⟩ := hq
  positivity

/-- a residue of the input has a positive row sum: it has a successor in the circular reading -/
theorem rowL_sum_pos (K : Nat) (codes : List Nat) (hK : ∀ c ∈ codes, c < K) (x : Nat) (hx : x ∈ codes) :
    0 < (rowL K codes x).sum := by
  obtain ⟨y, hy1, hy2⟩ := circ_succ codes x hx
  have hmem : (((circPairs codes).count (x, y) : Nat) : ℚ) ∈ rowL K codes x := by
    simp only [rowL, List.mem_map, List.mem_range]
    exact ⟨y, hK y hy2, rfl⟩
  have hle := List.single_le_sum (rowL_nonneg K codes x) _ hmem
  have : (0 : ℚ) < (((circPairs codes).count (x, y) : Nat) : ℚ) := by
    exact_mod_cast List.count_pos_iff.2 hy1
  linarith

/-- a positive entry of row `x` at `y` witnesses the circular pair `(x, y)` -/
theorem rowL_pos_pair (K : Nat) (codes : List Nat) (x y : Nat) (q : ℚ) (h : (rowL K codes x)[y]? = some q) (hq : 0 < q) :
    (x, y) ∈ circPairs codes := by
  simp only [rowL, List.getElem?_map] at h
  cases hr : (List.range K)[y]? with
  | none => simp [hr] at h
  | some y' =>
    have : y' = y := by
      by_cases hy : y < K
      · rw [List.getElem?_range hy] at hr; exact (Option.some.inj hr).symm
      · rw [List.getElem?_eq_none (by simpa using hy)] at hr; cases hr
    subst this
    simp only [hr, Option.map_some, Option.some.injEq] at h
    rw [← h] at hq
    have : 0 < (circPairs codes).count (x, y') := by exact_mod_cast hq
    exact List.count_pos_iff.1 this

theorem sum_pos_exists (l : List ℚ) (hnn : ∀ q ∈ l, 0 ≤ q) (hs : 0 < l.sum) : ∃ (k : Nat) (q : ℚ), l[k]? = some q ∧ 0 < q := by
  apply Classical.byContradiction
  intro hn
  have hz : ∀ q ∈ l, q = 0 := by
    intro q hq
    obtain ⟨k, hk, hk'⟩ := List.getElem_of_mem hq
    have h1 : ¬ (0 < q) := fun hp => hn ⟨k, q, by rw [List.getElem?_eq_getElem hk, hk'], hp⟩
    have h2 := hnn q hq
    linarith
  rw [List.sum_eq_zero hz] at hs
  exact lt_irrefl _ hs

/-- the rows of the count matrix are the exact-count lists -/
theorem markov1Counts_row (K c0 : Nat) (rest : List Nat) (x : Nat) (hx : x < K) :
    ∃ row, (markov1Counts (α := ℚ) K (c0 :: rest))[x]? = some row ∧ row.toList = rowL K (c0 :: rest) x := by
  have he := fun y => markov1Counts_exact K c0 rest x y
  have h0 := he 0
  rw [if_pos ⟨hx, by omega⟩] at h0
  unfold ent at h0 he
  cases hr : (markov1Counts (α := ℚ) K (c0 :: rest))[x]? with
  | none => simp [hr] at h0
  | some row =>
    refine ⟨row, rfl, ?_⟩
    apply List.ext_getElem?
    intro y
    have := he y
    simp only [hr, Option.bind_some] at this
    rw [Array.getElem?_toList, this]
    simp only [rowL, List.getElem?_map]
    by_cases hy : y < K
    · rw [if_pos ⟨hx, hy⟩, List.getElem?_range hy]; rfl
    · rw [if_neg (by omega), List.getElem?_eq_none (by simpa using hy)]; rfl

theorem markov1Counts_none (K c0 : Nat) (rest : List Nat) (x : Nat) (hx : ¬ x < K) :
    (markov1Counts (α := ℚ) K (c0 :: rest))[x]? = none := by
  cases hr : (markov1Counts (α := ℚ) K (c0 :: rest))[x]? with
  | none => rfl
  | some row =>
    exfalso
    -- sizes are preserved by `modify`: the matrix has `K` rows
    have hsz : (markov1Counts (α := ℚ) K (c0 :: rest)).size = K := by
      simp only [markov1Counts, Array.size_modify]
      have key : ∀ (ys : List Nat) (m0 : Array (Array ℚ)) (prev : Nat), m0.size = K →
          (ys.foldl (fun (st : Array (Array ℚ) × Nat) y =>
            (st.1.modify st.2 (fun row => row.modify y (fun v => CNum.add v CNum.one)), y)) (m0, prev)).1.size = K := by
        intro ys
        induction ys with
        | nil => intro m0 prev h; simpa using h
        | cons y t ih => intro m0 prev h; simp only [List.foldl_cons]; exact ih _ y (by simpa using h)
      exact key rest _ c0 (by simp)
    have := Array.getElem?_eq_none (xs := markov1Counts (α := ℚ) K (c0 :: rest)) (i := x) (by omega)
    rw [this] at hr
    cases hr

/-! ## the probability tables of `Markov1` over ℚ -/
/-- row sum `p0[x]` before the division by `L` -/
theorem rowsum_eq (K c0 : Nat) (rest : List Nat) (x : Nat) (hx : x < K) :
    ((markov1Counts (α := ℚ) K (c0 :: rest)).map (fun row => row.foldl CNum.add CNum.zero)).getD x CNum.zero =
      (rowL K (c0 :: rest) x).sum := by
  obtain ⟨row, h1, h2⟩ := markov1Counts_row K c0 rest x hx
  rw [Array.getD_eq_getD_getElem?, Array.getElem?_map, h1]
  simp only [Option.map_some, Option.getD_some]
  rw [← Array.foldl_toList, h2, foldl_add_eq_sum]
  show (0 : ℚ) + _ = _
  ring

/-- the conditional row `p[x]` for a residue with positive row sum -/
theorem markov1P_row (K c0 : Nat) (rest : List Nat) (x : Nat) (hx : x < K) (hS : 0 < (rowL K (c0 :: rest) x).sum) :
    (((markov1P (c0 :: rest).length (markov1Counts (α := ℚ) K (c0 :: rest))).1)[x]!).toList =
      (rowL K (c0 :: rest) x).map (fun v => v / (rowL K (c0 :: rest) x).sum) := by
  obtain ⟨row, h1, h2⟩ := markov1Counts_row K c0 rest x hx
  have hsum := rowsum_eq K c0 rest x hx
  simp only [markov1P]
  rw [Array.getElem!_eq_getD, Array.getD_eq_getD_getElem?, Array.getElem?_mapIdx, h1]
  simp only [Option.map_some, Option.getD_some, Array.toList_map]
  rw [h2, hsum]
  have hlt : CNum.lt (CNum.zero : ℚ) (rowL K (c0 :: rest) x).sum = true := by
    show decide ((0 : ℚ) < _) = true
    simpa using hS
  simp only [hlt, ↓reduceIte]
  rfl

/-- the marginal vector `p0` -/
theorem markov1P_marginal (K c0 : Nat) (rest : List Nat) :
    ((markov1P (c0 :: rest).length (markov1Counts (α := ℚ) K (c0 :: rest))).2).toList =
      (List.range K).map (fun x => (rowL K (c0 :: rest) x).sum / (((c0 :: rest).length : Nat) : ℚ)) := by
  apply List.ext_getElem?
  intro x
  simp only [markov1P, Array.toList_map, List.getElem?_map, Array.getElem?_toList]
  by_cases hx : x < K
  · obtain ⟨row, h1, h2⟩ := markov1Counts_row K c0 rest x hx
    rw [h1, List.getElem?_range hx]
    simp only [Option.map_some, Option.some.injEq]
    rw [← Array.foldl_toList, h2, foldl_add_eq_sum]
    show ((0 : ℚ) + _) / _ = _
    rw [zero_add]
    rfl
  · rw [markov1Counts_none K c0 rest x hx, List.getElem?_eq_none (by simpa using hx)]
    rfl

/-- the generation loop never falls through as long as the current residue occurs in the input — and then so does the next -/
theorem markov1Loop_total (K c0 : Nat) (rest : List Nat) (hK : ∀ c ∈ c0 :: rest, c < K) :
    ∀ (n x : Nat) (r : Rng) (acc : Array Nat), x ∈ c0 :: rest →
    ∃ out, (markov1Loop ((markov1P (c0 :: rest).length (markov1Counts (α := ℚ) K (c0 :: rest))).1) n x r acc).1 = some out := by
  intro n
  induction n with
  | zero => intro x r acc _; exact ⟨acc, rfl⟩
  | succ n ih =>
    intro x r acc hx
    simp only [markov1Loop]
    have hxK := hK x hx
    have hS := rowL_sum_pos K (c0 :: rest) hK x hx
    rw [markov1P_row K c0 rest x hxK hS]
    obtain ⟨h0, h1⟩ := randomNum_unit r
    have hnn : ∀ q ∈ (rowL K (c0 :: rest) x).map (fun v => v / (rowL K (c0 :: rest) x).sum), 0 ≤ q := by
      intro q hq
      obtain ⟨v, hv, rfl⟩ := List.mem_map.1 hq
      exact div_nonneg (rowL_nonneg K _ x v hv) (le_of_lt hS)
    have hpos : 0 < ((rowL K (c0 :: rest) x).map (fun v => v / (rowL K (c0 :: rest) x).sum)).sum := by
      obtain ⟨k, q, hk, hq⟩ := sum_pos_exists _ (rowL_nonneg K (c0 :: rest) x) hS
      have hmem : q / (rowL K (c0 :: rest) x).sum ∈ (rowL K (c0 :: rest) x).map (fun v => v / (rowL K (c0 :: rest) x).sum) :=
        List.mem_map.2 ⟨q, List.mem_of_getElem? hk, rfl⟩
      have := List.single_le_sum hnn _ hmem
      have : 0 < q / (rowL K (c0 :: rest) x).sum := div_pos hq hS
      linarith
    obtain ⟨y, hy, _, q, hq1, hq2⟩ := dchoose_total _ h0 h1 _ hnn hpos
    rw [hy]
    apply ih
    -- the chosen residue occurs in the input: its conditional probability is positive, so `(x, y)` is a circular pair
    rw [List.getElem?_map] at hq1
    cases hv : (rowL K (c0 :: rest) x)[y]? with
    | none => simp [hv] at hq1
    | some v =>
      simp only [hv, Option.map_some, Option.some.injEq] at hq1
      have hvpos : 0 < v := by
        rw [← hq1] at hq2
        rcases (div_pos_iff.1 hq2) with h | h
        · exact h.1
        · linarith [h.2]
      exact circ_snd_mem _ x y (rowL_pos_pair K _ x y v hv hvpos)

/-- **`esl_rsq_{C,X}Markov1` over ℚ never reaches `esl_fatal`**, for every validated input longer than 2 and every generator
    state — the circularised counts give every reachable residue an outgoing pair -/
theorem markov1_total (K : Nat) (codes : List Nat) (hK : ∀ c ∈ codes, c < K) (hlen : 2 < codes.length) (r : Rng) :
    ∃ out, (markov1 (α := ℚ) K codes r).1 = some out := by
  obtain ⟨c0, rest, rfl⟩ := List.exists_cons_of_ne_nil (show codes ≠ [] by intro e; simp [e] at hlen)
  unfold markov1
  simp only
  obtain ⟨h0, h1⟩ := randomNum_unit r
  rw [markov1P_marginal K c0 rest]
  have hL : (0 : ℚ) < (((c0 :: rest).length : Nat) : ℚ) := by exact_mod_cast (by omega : 0 < (c0 :: rest).length)
  have hnn : ∀ q ∈ (List.range K).map (fun x => (rowL K (c0 :: rest) x).sum / (((c0 :: rest).length : Nat) : ℚ)), 0 ≤ q := by
    intro q hq
    obtain ⟨x, _, rfl⟩ := List.mem_map.1 hq
    exact div_nonneg (List.sum_nonneg (rowL_nonneg K _ x)) (le_of_lt hL)
  have hc0 : c0 < K := hK c0 (by simp)
  have hpos : 0 < ((List.range K).map (fun x => (rowL K (c0 :: rest) x).sum / (((c0 :: rest).length : Nat) : ℚ))).sum := by
    have hmem : (rowL K (c0 :: rest) c0).sum / (((c0 :: rest).length : Nat) : ℚ) ∈
        (List.range K).map (fun x => (rowL K (c0 :: rest) x).sum / (((c0 :: rest).length : Nat) : ℚ)) :=
      List.mem_map.2 ⟨c0, by simpa using hc0, rfl⟩
    have := List.single_le_sum hnn _ hmem
    have : 0 < (rowL K (c0 :: rest) c0).sum / (((c0 :: rest).length : Nat) : ℚ) :=
      div_pos (rowL_sum_pos K _ hK c0 (by simp)) hL
    linarith
  obtain ⟨x, hx, hxlt, q, hq1, hq2⟩ := dchoose_total _ h0 h1 _ hnn hpos
  rw [hx]
  simp only [List.length_map, List.length_range] at hxlt
  apply markov1Loop_total K c0 rest hK
  -- the first residue occurs in the input: its marginal is positive, so its row has a positive entry
  rw [List.getElem?_map, List.getElem?_range hxlt] at hq1
  simp only [Option.map_some, Option.some.injEq] at hq1
  have hS : 0 < (rowL K (c0 :: rest) x).sum := by
    rw [← hq1] at hq2
    rcases (div_pos_iff.1 hq2) with h | h
    · exact h.1
    · linarith [h.2]
  obtain ⟨y, v, hv, hvpos⟩ := sum_pos_exists _ (rowL_nonneg K (c0 :: rest) x) hS
  have hpair := rowL_pos_pair K _ x y v hv hvpos
  have := fst_mem_of_adjPairs _ x y hpair
  simp only [List.take_succ_cons, List.take_zero] at this
  rw [List.dropLast_concat] at this
  exact this

theorem ofOpt_some (f : Array Nat → Bytes) (x : Option (Array Nat) × Rng) (out : Array Nat) (h : x.1 = some out) :
    (ofOpt f x).1 = .ok (f out) := by
  obtain ⟨o, r⟩ := x
  simp only at h
  subst h
  rfl

/-! ## the C entry points over ℚ: `eslEINVAL` or `eslOK`, nothing else -/
theorem textCodes_lt (s : Bytes) (h : ¬ (s.any (fun c => !isAlpha c) = true)) : ∀ c ∈ textCodes s, c < 26 := by
  intro c hc
  simp only [textCodes, List.mem_map] at hc
  obtain ⟨b, hb, rfl⟩ := hc
  apply letterCode_lt
  simp only [Array.any_eq_true', not_exists, not_and, Bool.not_eq_true, Bool.not_eq_false'] at h
  simpa using h b (by simpa using hb)

theorem digitalCodes_lt (dsq : Bytes) (L K : Nat) (h : ¬ ((digitalCodes dsq L).any (fun c => c ≥ K) = true)) :
    ∀ c ∈ digitalCodes dsq L, c < K := by
  intro c hc
  simp only [List.any_eq_true, not_exists, not_and, decide_eq_true_eq, Nat.not_le] at h
  exact h c hc

theorem cMarkov0_total (s : Bytes) (r : Rng) :
    ((cMarkov0 ℚ s r).1 = .einval ∧ s.any (fun c => !isAlpha c) = true) ∨
    (¬ (s.any (fun c => !isAlpha c) = true) ∧ ∃ out, (cMarkov0 ℚ s r).1 = .ok out) := by
  unfold cMarkov0
  split
  · rename_i h; exact Or.inl ⟨rfl, h⟩
  · rename_i h
    obtain ⟨out, ho⟩ := markov0_total 26 (textCodes s) (textCodes_lt s h) r
    exact Or.inr ⟨h, _, ofOpt_some _ _ out ho⟩

theorem xMarkov0_total (dsq : Bytes) (L K : Nat) (r : Rng) :
    ((xMarkov0 ℚ dsq L K r).1 = .einval ∧ (digitalCodes dsq L).any (fun c => c ≥ K) = true) ∨
    (¬ ((digitalCodes dsq L).any (fun c => c ≥ K) = true) ∧ ∃ out, (xMarkov0 ℚ dsq L K r).1 = .ok out) := by
  unfold xMarkov0
  split
  · rename_i h; exact Or.inl ⟨rfl, h⟩
  · rename_i h
    obtain ⟨out, ho⟩ := markov0_total K (digitalCodes dsq L) (digitalCodes_lt dsq L K h) r
    exact Or.inr ⟨h, _, ofOpt_some _ _ out ho⟩

theorem cMarkov1_total (s : Bytes) (r : Rng) :
    ((cMarkov1 ℚ s r).1 = .einval ∧ s.any (fun c => !isAlpha c) = true) ∨
    (¬ (s.any (fun c => !isAlpha c) = true) ∧ ∃ out, (cMarkov1 ℚ s r).1 = .ok out) := by
  unfold cMarkov1
  split
  · rename_i h; exact Or.inl ⟨rfl, h⟩
  · rename_i h
    split
    · exact Or.inr ⟨h, s, rfl⟩
    · rename_i h2
      obtain ⟨out, ho⟩ := markov1_total 26 (textCodes s) (textCodes_lt s h) (by simp [textCodes]; omega) r
      exact Or.inr ⟨h, _, ofOpt_some _ _ out ho⟩

theorem xMarkov1_total (dsq : Bytes) (L K : Nat) (hL : L + 2 ≤ dsq.size) (r : Rng) :
    ((xMarkov1 ℚ dsq L K r).1 = .einval ∧ (digitalCodes dsq L).any (fun c => c ≥ K) = true) ∨
    (¬ ((digitalCodes dsq L).any (fun c => c ≥ K) = true) ∧ ∃ out, (xMarkov1 ℚ dsq L K r).1 = .ok out) := by
  have hlen : (digitalCodes dsq L).length = L := by simp [digitalCodes]; omega
  unfold xMarkov1
  split
  · rename_i h; exact Or.inl ⟨rfl, h⟩
  · rename_i h
    split
    · exact Or.inr ⟨h, dsq, rfl⟩
    · rename_i h2
      obtain ⟨out, ho⟩ := markov1_total K (digitalCodes dsq L) (digitalCodes_lt dsq L K h) (by omega) r
      exact Or.inr ⟨h, _, ofOpt_some _ _ out ho⟩

end EaselModel.Shuffle
