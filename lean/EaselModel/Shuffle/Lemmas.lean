import EaselModel.Shuffle.Model
import EaselModel.Random.Lemmas
/-! Helper lemmas for C18: roll range, swap/extract algebra, the Fisher–Yates loop invariant. -/
namespace EaselModel.Shuffle
open EaselModel.Random

theorem Rng_roll_lt (r : Rng) (n fuel v : Nat) (r' : Rng) (h : r.roll n fuel = some (v, r')) : v < n := by
  induction fuel generalizing r with
  | zero => simp [Rng.roll] at h
  | succ fuel ih =>
    simp only [Rng.roll] at h
    split at h
    · rename_i v' hv; cases h; exact rollWord_lt _ _ _ hv
    · exact ih _ h

/-- a roll of `n > 0` lies in `0..n-1`, for every generator state -/
theorem roll_lt (r : Rng) (n : Nat) (hn : 0 < n) : (roll r n).1 < n := by
  unfold roll
  split
  · rename_i p hp
    obtain ⟨v, r'⟩ := p
    exact Rng_roll_lt r n _ v r' hp
  · exact hn

theorem swapIfInBounds_eq {α : Type} (a : Array α) (i j : Nat) (hi : i < a.size) (hj : j < a.size) :
    a.swapIfInBounds i j = a.swap i j hi hj := by
  simp [Array.swapIfInBounds, hi, hj]

@[simp] theorem size_swapIfInBounds' {α : Type} (a : Array α) (i j : Nat) : (a.swapIfInBounds i j).size = a.size := by
  unfold Array.swapIfInBounds; split <;> (try split) <;> simp

theorem swapIfInBounds_perm {α : Type} (a : Array α) (i j : Nat) : (a.swapIfInBounds i j).Perm a := by
  unfold Array.swapIfInBounds
  split
  · split
    · exact Array.swap_perm _ _
    · exact Array.Perm.refl _
  · exact Array.Perm.refl _

/-- swapping two positions inside `[lo,hi)` swaps the corresponding positions of the extract -/
theorem extract_swap_inside {α : Type} (a : Array α) (lo hi i j : Nat) (h : hi ≤ a.size)
    (hi1 : lo ≤ i) (hi2 : i < hi) (hj1 : lo ≤ j) (hj2 : j < hi) :
    (a.swap i j (by omega) (by omega)).extract lo hi =
      (a.extract lo hi).swap (i - lo) (j - lo) (by simp; omega) (by simp; omega) := by
  apply Array.ext
  · simp
  · intro k hk1 hk2
    simp only [Array.size_extract, Array.size_swap] at hk1
    rw [Array.getElem_extract, Array.getElem_swap, Array.getElem_swap]
    simp only [Array.getElem_extract]
    have e1 : (lo + k = i) ↔ (k = i - lo) := by omega
    have e2 : (lo + k = j) ↔ (k = j - lo) := by omega
    simp only [e1, e2]
    split
    · congr 1; omega
    · split
      · congr 1; omega
      · rfl

/-- swapping two positions outside `[lo,hi)` leaves the extract unchanged -/
theorem extract_swap_outside {α : Type} (a : Array α) (lo hi i j : Nat) (hi' : i < a.size) (hj' : j < a.size)
    (hi1 : i < lo ∨ hi ≤ i) (hj1 : j < lo ∨ hi ≤ j) :
    (a.swap i j hi' hj').extract lo hi = a.extract lo hi := by
  apply Array.ext
  · simp
  · intro k hk1 hk2
    simp only [Array.size_extract, Array.size_swap] at hk1
    rw [Array.getElem_extract, Array.getElem_swap, Array.getElem_extract]
    have e1 : ¬ (lo + k = i) := by omega
    have e2 : ¬ (lo + k = j) := by omega
    simp [e1, e2]

theorem extract_swap_perm {α : Type} (a : Array α) (lo hi i j : Nat) (h : hi ≤ a.size)
    (hi1 : lo ≤ i) (hi2 : i < hi) (hj1 : lo ≤ j) (hj2 : j < hi) :
    ((a.swap i j (by omega) (by omega)).extract lo hi).Perm (a.extract lo hi) := by
  rw [extract_swap_inside a lo hi i j h hi1 hi2 hj1 hj2]
  exact Array.swap_perm _ _

/-! ## the Fisher–Yates loop preserves every invariant that in-range swaps preserve -/
theorem fyLoop_inv {σ : Type} (sw : σ → Nat → Nat → σ) (base N : Nat) (P : σ → Prop)
    (hsw : ∀ s i j, P s → base ≤ i → i < base + N → base ≤ j → j < base + N → P (sw s i j)) :
    ∀ n, n ≤ N → ∀ s r, P s → P (fyLoop sw base n s r).1 := by
  intro n
  induction n using Nat.strongRecOn with
  | _ n ih =>
    intro hn s r hP
    match n with
    | 0 => simpa [fyLoop] using hP
    | 1 => simpa [fyLoop] using hP
    | n+2 =>
      simp only [fyLoop]
      have hl := roll_lt r (n+2) (by omega)
      apply ih (n+1) (by omega) (by omega)
      apply hsw _ _ _ hP <;> omega

/-! ## region permutations: agree outside `[lo,hi)`, permutation inside -/
structure RegionPerm {α : Type} (lo hi : Nat) (a0 a : Array α) : Prop where
  size : a.size = a0.size
  outside : ∀ p (h : p < a.size), (p < lo ∨ hi ≤ p) → a[p] = a0[p]'(size ▸ h)
  inside : (a.extract lo hi).Perm (a0.extract lo hi)

theorem RegionPerm.refl {α : Type} (lo hi : Nat) (a : Array α) : RegionPerm lo hi a a :=
  ⟨rfl, fun _ _ _ => rfl, Array.Perm.refl _⟩

theorem RegionPerm.swap {α : Type} {lo hi : Nat} {a0 a : Array α} (h : RegionPerm lo hi a0 a) (hhi : hi ≤ a0.size)
    (i j : Nat) (hi1 : lo ≤ i) (hi2 : i < hi) (hj1 : lo ≤ j) (hj2 : j < hi) :
    RegionPerm lo hi a0 (a.swapIfInBounds i j) := by
  have hs := h.size
  rw [swapIfInBounds_eq a i j (by omega) (by omega)]
  refine ⟨by simp [hs], ?_, ?_⟩
  · intro p hp hout
    rw [Array.getElem_swap]
    have e1 : ¬ (p = i) := by omega
    have e2 : ¬ (p = j) := by omega
    simp only [e1, e2, ↓reduceIte]
    exact h.outside p (by simpa using hp) hout
  · exact (extract_swap_perm a lo hi i j (by omega) hi1 hi2 hj1 hj2).trans h.inside

/-- whole-array consequence: a region permutation is a permutation -/
theorem RegionPerm.perm_all {α : Type} {a0 a : Array α} (h : RegionPerm 0 a0.size a0 a) : a.Perm a0 := by
  have := h.inside
  rw [show a.extract 0 a0.size = a by rw [← h.size]; simp] at this
  simpa using this

/-! ## window loops -/
theorem winInner_inv {α : Type} (d i M : Nat) (hd : d ≤ 1) (P : Array α → Prop)
    (hsw : ∀ s p q, P s → i ≤ p → p ≤ i + M → i ≤ q → q ≤ i + M → P (s.swapIfInBounds p q)) :
    ∀ m, m ≤ M → ∀ a r, P a → P (winInner d i m a r).1 := by
  intro m
  induction m with
  | zero => intro _ a r h; simpa [winInner] using h
  | succ m ih =>
    intro hm a r h
    simp only [winInner]
    have hl := roll_lt r (m + 1 + d) (by omega)
    apply ih (by omega)
    apply hsw _ _ _ h <;> omega

theorem winOuter_inv {α : Type} (d w base L : Nat) (hd : d ≤ 1) (hw : 0 < w) (P : Array α → Prop)
    (hsw : ∀ s k p q, P s → base + k*w ≤ p → p < base + (k+1)*w → p < base + L →
            base + k*w ≤ q → q < base + (k+1)*w → q < base + L → P (s.swapIfInBounds p q)) :
    ∀ fuel k a r, P a → P (winOuter d w base L fuel (base + k*w) a r).1 := by
  intro fuel
  induction fuel with
  | zero => intro k a r h; simpa [winOuter] using h
  | succ fuel ih =>
    intro k a r h
    simp only [winOuter]
    split
    · rename_i hlt
      have hk : (k+1)*w = k*w + w := by rw [Nat.add_mul, Nat.one_mul]
      have e : base + k*w + w = base + (k+1)*w := by omega
      rw [e]
      apply ih
      refine winInner_inv d (base + k*w) _ hd P ?_ _ (Nat.le_refl _) a r h
      intro s p q hs hp1 hp2 hq1 hq2
      apply hsw s k p q hs <;> omega
    · exact h

/-- the window invariant: every window `[base+k·w, min(base+L, base+(k+1)·w))` is a permutation of the input's,
    everything outside `[base, base+L)` is untouched -/
structure WinPerm {α : Type} (w base L : Nat) (a0 a : Array α) : Prop where
  size : a.size = a0.size
  outside : ∀ p (h : p < a.size), (p < base ∨ base + L ≤ p) → a[p] = a0[p]'(size ▸ h)
  windows : ∀ k, (a.extract (base + k*w) (min (base + L) (base + (k+1)*w))).Perm
                 (a0.extract (base + k*w) (min (base + L) (base + (k+1)*w)))

theorem WinPerm.refl {α : Type} (w base L : Nat) (a : Array α) : WinPerm w base L a a :=
  ⟨rfl, fun _ _ _ => rfl, fun _ => Array.Perm.refl _⟩

theorem WinPerm.swap {α : Type} {w base L : Nat} {a0 a : Array α} (h : WinPerm w base L a0 a) (hL : base + L ≤ a0.size)
    (k p q : Nat) (hp1 : base + k*w ≤ p) (hp2 : p < base + (k+1)*w) (hp3 : p < base + L)
    (hq1 : base + k*w ≤ q) (hq2 : q < base + (k+1)*w) (hq3 : q < base + L) :
    WinPerm w base L a0 (a.swapIfInBounds p q) := by
  have hs := h.size
  rw [swapIfInBounds_eq a p q (by omega) (by omega)]
  refine ⟨by simp [hs], ?_, ?_⟩
  · intro x hx hout
    rw [Array.getElem_swap]
    have e1 : ¬ (x = p) := by omega
    have e2 : ¬ (x = q) := by omega
    simp only [e1, e2, ↓reduceIte]
    exact h.outside x (by simpa using hx) hout
  · intro k'
    rcases Nat.lt_trichotomy k' k with hlt | heq | hgt
    · have h1 : (k'+1)*w ≤ k*w := Nat.mul_le_mul_right w hlt
      rw [extract_swap_outside a _ _ p q (by omega) (by omega) (by omega) (by omega)]
      exact h.windows k'
    · subst heq
      exact (extract_swap_perm a _ _ p q (by omega) hp1 (by omega) hq1 (by omega)).trans (h.windows k')
    · have h1 : (k+1)*w ≤ k'*w := Nat.mul_le_mul_right w hgt
      rw [extract_swap_outside a _ _ p q (by omega) (by omega) (by omega) (by omega)]
      exact h.windows k'

theorem winOuter_winPerm {α : Type} (d w base L : Nat) (hd : d ≤ 1) (hw : 0 < w) (a0 : Array α) (hL : base + L ≤ a0.size)
    (fuel : Nat) (r : Rng) : WinPerm w base L a0 (winOuter d w base L fuel base a0 r).1 := by
  have := winOuter_inv d w base L hd hw (WinPerm w base L a0)
    (fun s k p q hs hp1 hp2 hp3 hq1 hq2 hq3 => hs.swap hL k p q hp1 hp2 hp3 hq1 hq2 hq3) fuel 0 a0 r (WinPerm.refl _ _ _ _)
  simpa using this

end EaselModel.Shuffle
