import EaselModel.Shuffle.Lemmas
/-! Column view of an alignment; `esl_msashuffle_Shuffle`, `_PermuteSequenceOrder`, `_Bootstrap`. -/
namespace EaselModel.Shuffle
open EaselModel.Random

/-- column `c` of a matrix of rows (entry `none` where a row is too short) -/
def column {α : Type} (rows : Array (Array α)) (c : Nat) : Array (Option α) := rows.map (fun row => row[c]?)
/-- the `n` columns `lo, lo+1, …` -/
def columns {α : Type} (rows : Array (Array α)) (lo n : Nat) : Array (Array (Option α)) :=
  (Array.range n).map (fun t => column rows (lo + t))

theorem column_multiSwap {α : Type} (rows : Array (Array α)) (i j c : Nat)
    (hlen : ∀ k (h : k < rows.size), i < rows[k].size ∧ j < rows[k].size) :
    column (multiSwap rows i j) c = column rows (if c = i then j else if c = j then i else c) := by
  apply Array.ext
  · simp [column, multiSwap]
  · intro k hk1 hk2
    simp only [column, multiSwap, Array.size_map] at hk1
    obtain ⟨h1, h2⟩ := hlen k hk1
    simp only [column, multiSwap, Array.getElem_map]
    rw [swapIfInBounds_eq _ i j h1 h2, Array.getElem?_swap]
    by_cases hci : c = i
    · subst hci
      by_cases hjc : j = c
      · subst hjc; simp
      · simp [hjc, Array.getElem?_eq_getElem h2]
    · by_cases hcj : c = j
      · subst hcj; simp [hci, Array.getElem?_eq_getElem h1]
      · have e1 : ¬ (j = c) := fun e => hcj e.symm
        have e2 : ¬ (i = c) := fun e => hci e.symm
        simp [hci, hcj, e1, e2]

theorem columns_multiSwap {α : Type} (rows : Array (Array α)) (base n i j : Nat)
    (hi1 : base ≤ i) (hi2 : i < base + n) (hj1 : base ≤ j) (hj2 : j < base + n)
    (hlen : ∀ k (h : k < rows.size), i < rows[k].size ∧ j < rows[k].size) :
    columns (multiSwap rows i j) base n =
      (columns rows base n).swap (i - base) (j - base) (by simp [columns]; omega) (by simp [columns]; omega) := by
  apply Array.ext
  · simp [columns]
  · intro t ht1 ht2
    simp only [columns, Array.size_map, Array.size_range] at ht1
    rw [Array.getElem_swap]
    simp only [columns, Array.getElem_map, Array.getElem_range]
    rw [column_multiSwap rows i j (base + t) hlen]
    by_cases e1 : t = i - base
    · have ht : base + t = i := by omega
      rw [if_pos e1, if_pos ht]
      congr 1; omega
    · have e1' : ¬ (base + t = i) := by omega
      rw [if_neg e1, if_neg e1']
      by_cases e2 : t = j - base
      · have ht : base + t = j := by omega
        rw [if_pos e2, if_pos ht]
        congr 1; omega
      · have e2' : ¬ (base + t = j) := by omega
        rw [if_neg e2, if_neg e2']

theorem column_multiSwap_outside {α : Type} (rows : Array (Array α)) (i j c : Nat) (hci : c ≠ i) (hcj : c ≠ j)
    (hlen : ∀ k (h : k < rows.size), i < rows[k].size ∧ j < rows[k].size) :
    column (multiSwap rows i j) c = column rows c := by
  rw [column_multiSwap rows i j c hlen]; simp [hci, hcj]

/-- invariant of the column-swapping loops -/
structure RowsInv {α : Type} (base n : Nat) (rows0 rows : Array (Array α)) : Prop where
  size : rows.size = rows0.size
  rowsize : ∀ k (h : k < rows.size), rows[k].size = (rows0[k]'(size ▸ h)).size
  cols : (columns rows base n).Perm (columns rows0 base n)
  outside : ∀ c, (c < base ∨ base + n ≤ c) → column rows c = column rows0 c

theorem RowsInv.refl {α : Type} (base n : Nat) (rows : Array (Array α)) : RowsInv base n rows rows :=
  ⟨rfl, fun _ _ => rfl, Array.Perm.refl _, fun _ _ => rfl⟩

theorem RowsInv.swap {α : Type} {base n : Nat} {rows0 rows : Array (Array α)} (h : RowsInv base n rows0 rows)
    (hlen0 : ∀ k (hk : k < rows0.size), base + n ≤ rows0[k].size)
    (i j : Nat) (hi1 : base ≤ i) (hi2 : i < base + n) (hj1 : base ≤ j) (hj2 : j < base + n) :
    RowsInv base n rows0 (multiSwap rows i j) := by
  have hlen : ∀ k (hk : k < rows.size), i < rows[k].size ∧ j < rows[k].size := by
    intro k hk
    have := h.rowsize k hk
    have := hlen0 k (h.size ▸ hk)
    omega
  refine ⟨by simp [multiSwap, h.size], ?_, ?_, ?_⟩
  · intro k hk
    simp only [multiSwap, Array.size_map] at hk
    simp only [multiSwap, Array.getElem_map, size_swapIfInBounds']
    exact h.rowsize k hk
  · rw [columns_multiSwap rows base n i j hi1 hi2 hj1 hj2 hlen]
    exact (Array.swap_perm _ _).trans h.cols
  · intro c hc
    rw [column_multiSwap_outside rows i j c (by omega) (by omega) hlen]
    exact h.outside c hc

/-- `esl_msashuffle_Shuffle` / `esl_msashuffle_PermuteSequenceOrder`: the output columns `base..base+n-1` are a
    permutation of the input columns (each input column exactly once, entries of a column kept together),
    every other column is untouched, row count and row lengths are kept. -/
theorem fy_multiSwap_spec {α : Type} (base n : Nat) (rows : Array (Array α))
    (hlen : ∀ k (hk : k < rows.size), base + n ≤ rows[k].size) (r : Rng) :
    RowsInv base n rows (fyLoop multiSwap base n rows r).1 :=
  fyLoop_inv multiSwap base n (RowsInv base n rows)
    (fun s i j hs hi1 hi2 hj1 hj2 => hs.swap hlen i j hi1 hi2 hj1 hj2) n (Nat.le_refl _) rows r (RowsInv.refl _ _ _)

/-! ## bootstrap -/
structure BootInv (base alen : Nat) (msa boot0 : Array Bytes) (pos : Nat) (boot : Array Bytes) : Prop where
  size : boot.size = boot0.size
  rowsize : ∀ k (h : k < boot.size), boot[k].size = (boot0[k]'(size ▸ h)).size
  done : ∀ p, p < pos → ∃ col, col < alen ∧ column boot (base + p) = column msa (base + col)
  other : ∀ c, (c < base ∨ base + alen ≤ c) → column boot c = column boot0 c

theorem bootLoop_inv (base alen : Nat) (msa boot0 : Array Bytes) (hsz : boot0.size = msa.size)
    (hm : ∀ k (hk : k < msa.size), base + alen ≤ msa[k].size)
    (hb : ∀ k (hk : k < boot0.size), base + alen ≤ boot0[k].size) :
    ∀ n pos boot r, pos + n = alen → BootInv base alen msa boot0 pos boot →
      BootInv base alen msa boot0 alen (bootLoop base alen msa n pos boot r).1 := by
  intro n
  induction n with
  | zero => intro pos boot r hp h; simp only [bootLoop]; have e : pos = alen := by omega
            subst e; exact h
  | succ n ih =>
    intro pos boot r hp h
    simp only [bootLoop]
    apply ih (pos+1) _ _ (by omega)
    have hcol := roll_lt r alen (by omega)
    have hs := h.size
    -- the column just written
    have hnew : ∀ c, column (boot.mapIdx fun i row => row.setIfInBounds (base + pos) ((msa[i]!)[base + (roll r alen).1]!)) c =
        if c = base + pos then column msa (base + (roll r alen).1) else column boot c := by
      intro c
      apply Array.ext
      · split <;> simp [column, hs, hsz]
      · intro k hk1 hk2
        simp only [column, Array.size_map, Array.size_mapIdx] at hk1
        have hk' : k < msa.size := by omega
        have hr := h.rowsize k hk1
        have hb' := hb k (by omega)
        have hm' := hm k hk'
        simp only [column, Array.getElem_map, Array.getElem_mapIdx, Array.getElem?_setIfInBounds]
        by_cases e : c = base + pos
        · subst e
          simp only [↓reduceIte, Array.getElem_map]
          rw [if_pos (by omega), getElem!_pos msa k hk', getElem!_pos msa[k] _ (by omega), Array.getElem?_eq_getElem]
        · have e' : ¬ (base + pos = c) := fun x => e x.symm
          simp only [e, e', ↓reduceIte, Array.getElem_map]
    refine ⟨by simp [hs], ?_, ?_, ?_⟩
    · intro k hk
      simp only [Array.size_mapIdx] at hk
      simp only [Array.getElem_mapIdx, Array.size_setIfInBounds]
      exact h.rowsize k hk
    · intro p hp'
      by_cases e : p = pos
      · subst e
        exact ⟨_, hcol, by rw [hnew]; simp⟩
      · obtain ⟨col, hc1, hc2⟩ := h.done p (by omega)
        refine ⟨col, hc1, ?_⟩
        rw [hnew, if_neg (by omega)]
        exact hc2
    · intro c hc
      rw [hnew, if_neg (by omega)]
      exact h.other c hc

/-- `esl_msashuffle_Bootstrap`: every output column is an input column (all rows of the column taken together) -/
theorem bootstrap_spec (base alen : Nat) (msa boot0 : Array Bytes) (hsz : boot0.size = msa.size)
    (hm : ∀ k (hk : k < msa.size), base + alen ≤ msa[k].size)
    (hb : ∀ k (hk : k < boot0.size), base + alen ≤ boot0[k].size) (r : Rng) :
    BootInv base alen msa boot0 alen (bootstrap base alen msa boot0 r).1 :=
  bootLoop_inv base alen msa boot0 hsz hm hb alen 0 boot0 r (by omega)
    ⟨rfl, fun _ _ => rfl, fun p hp => by omega, fun _ _ => rfl⟩

end EaselModel.Shuffle
