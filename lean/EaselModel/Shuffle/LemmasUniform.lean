import EaselModel.Shuffle.Lemmas
import EaselModel.Shuffle.LemmasKmer
/-! Uniformity of the Fisher–Yates loop as coded: the map from in-range roll vectors to arrangements is a bijection.

`fyLoop` draws `n-1` values `Roll(n), Roll(n-1), …, Roll(2)`. `fyRolls` is the same loop driven by an explicit list of
roll values; `fyLoop = fyRolls ∘ fyDraw` (what the generator delivers) and `fyDraw` is always in range. For an array
of distinct entries every arrangement of the first `n` positions is produced by exactly one in-range roll vector; since
`esl_rnd_Roll` gives every value of `0..n-1` the same number of raw words (`roll_unbiased32`, C09), the `n!` roll
vectors are equally likely and so are the `n!` arrangements. A loop with a wrong range (`Roll(n-1)`, `Roll(n+1)`, a swap
partner `n` instead of `n-1`, …) still permutes, but is not a bijection onto the arrangements: these theorems fail. -/
namespace EaselModel.Shuffle
open EaselModel.Random

/-- the Fisher–Yates skeleton driven by an explicit list of roll values (one per iteration) -/
def fyRolls {σ : Type} (sw : σ → Nat → Nat → σ) (base : Nat) : Nat → σ → List Nat → σ
  | n+2, s, i :: rs => fyRolls sw base (n+1) (sw s (base + i) (base + (n+2) - 1)) rs
  | _, s, _ => s

/-- the roll values `fyLoop` obtains from generator state `r` for an `n`-element shuffle -/
def fyDraw : Nat → Rng → List Nat
  | n+2, r => (roll r (n+2)).1 :: fyDraw (n+1) (roll r (n+2)).2
  | _, _ => []

/-- in-range roll vectors of an `n`-element shuffle: `n-1` values, the first below `n`, the next below `n-1`, …, the last
    below `2` -/
def ValidRolls : Nat → List Nat → Prop
  | 0, rs => rs = []
  | 1, rs => rs = []
  | _+2, [] => False
  | n+2, i :: rs => i < n+2 ∧ ValidRolls (n+1) rs

theorem fyLoop_eq_fyRolls {σ : Type} (sw : σ → Nat → Nat → σ) (base : Nat) :
    ∀ n s r, (fyLoop sw base n s r).1 = fyRolls sw base n s (fyDraw n r) := by
  intro n
  induction n using Nat.strongRecOn with
  | _ n ih =>
    intro s r
    match n with
    | 0 => rfl
    | 1 => rfl
    | n+2 =>
      simp only [fyLoop, fyDraw, fyRolls]
      exact ih (n+1) (by omega) _ _

theorem fyDraw_valid : ∀ n r, ValidRolls n (fyDraw n r) := by
  intro n
  induction n using Nat.strongRecOn with
  | _ n ih =>
    intro r
    match n with
    | 0 => rfl
    | 1 => rfl
    | n+2 =>
      simp only [fyDraw, ValidRolls]
      exact ⟨roll_lt r (n+2) (by omega), ih (n+1) (by omega) _⟩

theorem validRolls_length : ∀ n rs, ValidRolls n rs → rs.length = n - 1 := by
  intro n
  induction n using Nat.strongRecOn with
  | _ n ih =>
    intro rs h
    match n, rs, h with
    | 0, _, h => simp only [ValidRolls] at h; simp [h]
    | 1, _, h => simp only [ValidRolls] at h; simp [h]
    | n+2, i :: rs, h =>
      simp only [ValidRolls] at h
      have := ih (n+1) (by omega) rs h.2
      simp only [List.length_cons]; omega

/-! ## plain array shuffles -/
/-- the swap of `esl_rsq_CShuffle` / `esl_vec_*Shuffle` -/
abbrev aswap {α : Type} : Array α → Nat → Nat → Array α := fun a i j => a.swapIfInBounds i j

/-- `esl_rsq_CShuffle` / `esl_vec_{D,F,I,L}Shuffle` on an explicit roll vector -/
def cShuffleRolls {α : Type} (s : Array α) (rs : List Nat) : Array α := fyRolls aswap 0 s.size s rs

theorem getElem?_swapIfInBounds' {α : Type} (a : Array α) (i j k : Nat) (hi : i < a.size) (hj : j < a.size) :
    (a.swapIfInBounds i j)[k]? = if j = k then a[i]? else if i = k then a[j]? else a[k]? := by
  rw [swapIfInBounds_eq a i j hi hj, Array.getElem?_swap]
  split
  · simp [hi]
  · split
    · simp [hj]
    · rfl

/-- positions outside `[base, base+n)` are never touched by an `n`-element shuffle with in-range rolls; the size is kept -/
theorem fyRolls_frame {α : Type} (base : Nat) : ∀ n (a : Array α) rs, ValidRolls n rs → base + n ≤ a.size →
    (fyRolls aswap base n a rs).size = a.size ∧
      ∀ p, (p < base ∨ base + n ≤ p) → (fyRolls aswap base n a rs)[p]? = a[p]? := by
  intro n
  induction n using Nat.strongRecOn with
  | _ n ih =>
    intro a rs hv hn
    match n, rs, hv with
    | 0, _, _ => exact ⟨rfl, fun _ _ => rfl⟩
    | 1, _, _ => exact ⟨rfl, fun _ _ => rfl⟩
    | n+2, i :: rs, hv =>
      simp only [ValidRolls] at hv
      simp only [fyRolls, aswap]
      have e : base + (n + 2) - 1 = base + n + 1 := by omega
      rw [e]
      obtain ⟨h1, h2⟩ := ih (n+1) (by omega) (a.swapIfInBounds (base + i) (base + n + 1)) rs hv.2 (by simp; omega)
      refine ⟨by rw [h1]; simp, fun p hp => ?_⟩
      rw [h2 p (by omega), getElem?_swapIfInBounds' a (base + i) (base + n + 1) p (by omega) (by omega)]
      rw [if_neg (by omega), if_neg (by omega)]

theorem fyRolls_perm {α : Type} (base : Nat) : ∀ n (a : Array α) rs, (fyRolls aswap base n a rs).Perm a := by
  intro n
  induction n using Nat.strongRecOn with
  | _ n ih =>
    intro a rs
    match n, rs with
    | 0, _ => exact Array.Perm.refl _
    | 1, _ => exact Array.Perm.refl _
    | n+2, [] => exact Array.Perm.refl _
    | n+2, i :: rs =>
      simp only [fyRolls]
      exact (ih (n+1) (by omega) _ rs).trans (swapIfInBounds_perm _ _ _)

/-- the entry that must end at position `m` comes from a position in `[base, m]` when everything outside already agrees -/
theorem find_source {α : Type} (a t : Array α) (base m : Nat) (hbm : base ≤ m) (hm : m < a.size) (hnd : a.toList.Nodup) (hp : t.Perm a)
    (hag : ∀ p, (p < base ∨ m < p) → t[p]? = a[p]?) : ∃ i, base ≤ i ∧ i ≤ m ∧ a[i]? = t[m]? := by
  have hsz : t.size = a.size := hp.size_eq
  have htn : t.toList.Nodup := (Array.perm_iff_toList_perm.1 hp).nodup_iff.2 hnd
  have hmem : t[m]'(by omega) ∈ a := hp.mem_iff.1 (Array.getElem_mem _)
  obtain ⟨i, hi, he⟩ := Array.mem_iff_getElem.1 hmem
  by_cases hle : base ≤ i ∧ i ≤ m
  · exact ⟨i, hle.1, hle.2, by rw [Array.getElem?_eq_getElem hi, Array.getElem?_eq_getElem (by omega), he]⟩
  · exfalso
    have h1 := hag i (by omega)
    rw [Array.getElem?_eq_getElem hi, Array.getElem?_eq_getElem (by omega), he] at h1
    have h2 : t.toList[i]'(by simp; omega) = t.toList[m]'(by simp; omega) := by
      simp only [Array.getElem_toList]
      exact Option.some.inj h1
    have := (List.getElem_inj htn).1 h2
    omega

/-- **Fisher–Yates is a bijection from in-range roll vectors onto arrangements** (loop form): for an array `a` of
    distinct entries and any target `t` that rearranges positions `[base, base+n)` of `a`, exactly one in-range roll
    vector makes the `n`-element loop turn `a` into `t` -/
theorem fyRolls_bijective {α : Type} (base : Nat) : ∀ n (a t : Array α), base + n ≤ a.size → a.toList.Nodup → t.Perm a →
    (∀ p, (p < base ∨ base + n ≤ p) → t[p]? = a[p]?) →
    ∃ rs, (ValidRolls n rs ∧ fyRolls aswap base n a rs = t) ∧
      ∀ rs', ValidRolls n rs' → fyRolls aswap base n a rs' = t → rs' = rs := by
  intro n
  induction n using Nat.strongRecOn with
  | _ n ih =>
    intro a t hn hnd hp hag
    match n with
    | 0 =>
      refine ⟨[], ⟨rfl, ?_⟩, fun rs' h _ => h⟩
      exact Array.ext_getElem? (fun p => (hag p (by omega)).symm)
    | 1 =>
      refine ⟨[], ⟨rfl, ?_⟩, fun rs' h _ => h⟩
      apply Array.ext_getElem?
      intro p
      by_cases h0 : p = base
      · subst h0
        obtain ⟨i, hi1, hi2, he⟩ := find_source a t p p (Nat.le_refl _) (by omega) hnd hp (fun q hq => hag q (by omega))
        have : i = p := by omega
        subst this
        exact he
      · exact (hag p (by omega)).symm
    | n+2 =>
      obtain ⟨q, hq1, hq2, he⟩ := find_source a t base (base+n+1) (by omega) (by omega) hnd hp (fun p hp' => hag p (by omega))
      obtain ⟨i, rfl⟩ : ∃ i, q = base + i := ⟨q - base, by omega⟩
      have hsz : t.size = a.size := hp.size_eq
      have hag' : ∀ p, (p < base ∨ base + (n + 1) ≤ p) → t[p]? = (a.swapIfInBounds (base + i) (base+n+1))[p]? := by
        intro p hp'
        rw [getElem?_swapIfInBounds' a (base + i) (base+n+1) p (by omega) (by omega)]
        by_cases e : base + n + 1 = p
        · subst e; rw [if_pos rfl]; exact he.symm
        · rw [if_neg e, if_neg (by omega)]; exact hag p (by omega)
      obtain ⟨rs0, ⟨hv0, hr0⟩, hu0⟩ := ih (n+1) (by omega) (a.swapIfInBounds (base + i) (base+n+1)) t (by simp; omega)
        ((Array.perm_iff_toList_perm.1 (swapIfInBounds_perm a (base + i) (base+n+1))).nodup_iff.2 hnd)
        (hp.trans (swapIfInBounds_perm a (base + i) (base+n+1)).symm) hag'
      have e : base + (n + 2) - 1 = base + n + 1 := by omega
      refine ⟨i :: rs0, ⟨⟨by omega, hv0⟩, ?_⟩, ?_⟩
      · simp only [fyRolls, aswap, e]; exact hr0
      · intro rs' hv' hr'
        match rs', hv' with
        | j :: rs2, hv' =>
          simp only [ValidRolls] at hv'
          simp only [fyRolls, aswap, e] at hr'
          have hfr := (fyRolls_frame base (n+1) (a.swapIfInBounds (base + j) (base+n+1)) rs2 hv'.2 (by simp; omega)).2
            (base+n+1) (by omega)
          rw [hr', getElem?_swapIfInBounds' a (base + j) (base+n+1) (base+n+1) (by omega) (by omega), if_pos rfl, ← he] at hfr
          have hij : j = i := by
            rw [Array.getElem?_eq_getElem (by omega : base + i < a.size), Array.getElem?_eq_getElem (by omega : base + j < a.size)] at hfr
            have h2 : a.toList[base + j]'(by simp; omega) = a.toList[base + i]'(by simp; omega) := by
              simp only [Array.getElem_toList]
              exact (Option.some.inj hfr).symm
            have := (List.getElem_inj hnd).1 h2
            omega
          subst hij
          rw [hu0 rs2 hv'.2 hr']

/-- the same skeleton maps over the entries: shuffling `a.map f` is shuffling `a` and then mapping -/
theorem fyRolls_map {α β : Type} (f : α → β) (base : Nat) : ∀ n (a : Array α) rs,
    fyRolls aswap base n (a.map f) rs = (fyRolls aswap base n a rs).map f := by
  intro n
  induction n using Nat.strongRecOn with
  | _ n ih =>
    intro a rs
    match n, rs with
    | 0, _ => rfl
    | 1, _ => rfl
    | n+2, [] => rfl
    | n+2, i :: rs =>
      simp only [fyRolls, aswap]
      rw [← ih (n+1) (by omega)]
      congr 1
      apply Array.ext_getElem?
      intro k
      unfold Array.swapIfInBounds
      simp only [Array.size_map]
      split
      · split
        · simp only [Array.getElem?_swap, Array.getElem?_map, Array.getElem_map]
          split
          · rfl
          · split <;> rfl
        · rfl
      · rfl

/-- every array is the identity arrangement `0,1,…,size-1` mapped through itself -/
theorem eq_map_range {α : Type} [Inhabited α] (s : Array α) : s = (Array.range s.size).map (fun k => s[k]!) := by
  apply Array.ext
  · simp
  · intro k h1 h2
    simp [getElem!_pos s k h1]

/-- `esl_rsq_XShuffle` on an explicit roll vector -/
def xShuffleRolls (dsq : Bytes) (L : Nat) (rs : List Nat) : Bytes := fyRolls aswap 1 L dsq rs

/-- the column / record shuffles apply the same swaps to every row: every row is rearranged by the same index permutation -/
theorem fyRolls_multiSwap {α : Type} (base : Nat) : ∀ n (rows : Array (Array α)) rs,
    fyRolls multiSwap base n rows rs = rows.map (fun row => fyRolls aswap base n row rs) := by
  intro n
  induction n using Nat.strongRecOn with
  | _ n ih =>
    intro rows rs
    match n, rs with
    | 0, _ => simp [fyRolls]
    | 1, _ => simp [fyRolls]
    | n+2, [] => simp [fyRolls]
    | n+2, i :: rs =>
      simp only [fyRolls]
      rw [ih (n+1) (by omega)]
      simp [multiSwap, aswap]

/-- naturality: shuffling any array is shuffling the identity arrangement of its indices and reading the array through it -/
theorem fyRolls_natural {α : Type} [Inhabited α] (base n : Nat) (s : Array α) (rs : List Nat) :
    fyRolls aswap base n s rs = (fyRolls aswap base n (Array.range s.size) rs).map (fun k => s[k]!) := by
  rw [← fyRolls_map, ← eq_map_range]

/-! ## window shuffles -/
/-- with `d = 1` (`Roll(j-i+1)`, the digital window shuffle) the inner loop over one window is exactly the Fisher–Yates
    loop on that window: `m+1` elements starting at `i` -/
theorem winInner_one_eq_fyLoop {α : Type} (i : Nat) : ∀ m (a : Array α) r,
    winInner 1 i m a r = fyLoop aswap i (m+1) a r := by
  intro m
  induction m with
  | zero => intro a r; rfl
  | succ m ih =>
    intro a r
    simp only [winInner, fyLoop, aswap]
    rw [ih]
    have e : i + (m + 2) - 1 = i + (m + 1) := by omega
    rw [e]

/-- with `d = 0` (`Roll(j-i)`, the text window shuffle of the pinned tree) a window of two is always swapped: the roll
    is `Roll(1) = 0` for every generator state -/
theorem winInner_zero_pair {α : Type} (i : Nat) (a : Array α) (r : Rng) :
    (winInner 0 i 1 a r).1 = a.swapIfInBounds i (i + 1) := by
  have h := roll_lt r 1 (by omega)
  simp only [winInner]
  have e : (roll r (0 + 1 + 0)).1 = 0 := by simpa using h
  rw [e]
  rfl

/-! ## k-mer shuffles: the block swaps are the plain shuffle of the array of words -/
theorem fyRolls_blockSwap_chunks {α : Type} (K off W : Nat) : ∀ n, n ≤ W → ∀ (a : Array α) rs, off + W*K ≤ a.size →
    ValidRolls n rs →
    chunks K off W (fyRolls (blockSwap K off) 0 n a rs) = fyRolls aswap 0 n (chunks K off W a) rs := by
  intro n
  induction n using Nat.strongRecOn with
  | _ n ih =>
    intro hn a rs hfit hv
    match n, rs, hv with
    | 0, _, _ => rfl
    | 1, _, _ => rfl
    | n+2, i :: rs, hv =>
      simp only [ValidRolls] at hv
      simp only [fyRolls, Nat.zero_add, aswap]
      have e : n + 2 - 1 = n + 1 := by omega
      rw [e]
      have hsz := (blockSwap_spec K off W a i (n+1) hfit (by omega) (by omega)).1
      rw [ih (n+1) (by omega) (by omega) _ rs (by rw [hsz]; exact hfit) hv.2,
        chunks_blockSwap K off W a i (n+1) hfit (by omega) (by omega),
        ← swapIfInBounds_eq]

/-! ## there are exactly `n!` in-range roll vectors -/
def fact : Nat → Nat
  | 0 => 1
  | n+1 => (n+1) * fact n

/-- all in-range roll vectors of an `n`-element shuffle -/
def allRolls : Nat → List (List Nat)
  | 0 => [[]]
  | 1 => [[]]
  | n+2 => (List.range (n+2)).flatMap (fun i => (allRolls (n+1)).map (fun rs => i :: rs))

theorem mem_allRolls : ∀ n rs, rs ∈ allRolls n ↔ ValidRolls n rs := by
  intro n
  induction n using Nat.strongRecOn with
  | _ n ih =>
    intro rs
    match n, rs with
    | 0, rs => simp [allRolls, ValidRolls]
    | 1, rs => simp [allRolls, ValidRolls]
    | n+2, [] => simp [allRolls, ValidRolls]
    | n+2, i :: rs =>
      simp only [allRolls, ValidRolls, List.mem_flatMap, List.mem_range, List.mem_map, List.cons.injEq]
      constructor
      · rintro ⟨j, hj, rs', hrs', rfl, rfl⟩
        exact ⟨hj, (ih (n+1) (by omega) _).1 hrs'⟩
      · rintro ⟨hi, hv⟩
        exact ⟨i, hi, rs, (ih (n+1) (by omega) _).2 hv, rfl, rfl⟩

theorem allRolls_length : ∀ n, (allRolls n).length = fact n := by
  intro n
  induction n using Nat.strongRecOn with
  | _ n ih =>
    match n with
    | 0 => rfl
    | 1 => rfl
    | n+2 =>
      simp only [allRolls, List.length_flatMap, List.length_map, ih (n+1) (by omega), List.map_const', List.length_range,
        List.sum_replicate_nat]
      rfl

theorem allRolls_nodup : ∀ n, (allRolls n).Nodup := by
  intro n
  induction n using Nat.strongRecOn with
  | _ n ih =>
    match n with
    | 0 => simp [allRolls]
    | 1 => simp [allRolls]
    | n+2 =>
      simp only [allRolls, List.Nodup, List.pairwise_flatMap]
      refine ⟨fun i _ => ?_, ?_⟩
      · rw [List.pairwise_map]
        exact (ih (n+1) (by omega)).imp (fun h e => h (List.cons.inj e).2)
      · have := List.nodup_range (n := n+2)
        refine this.imp ?_
        intro i j hij x hx y hy e
        simp only [List.mem_map] at hx hy
        obtain ⟨_, _, rfl⟩ := hx
        obtain ⟨_, _, rfl⟩ := hy
        exact hij (List.cons.inj e).1

end EaselModel.Shuffle
